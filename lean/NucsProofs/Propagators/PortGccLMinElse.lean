import NucsProofs.Propagators.PortGccLMinInv
/-!
  The `else` branch of the main test of `filter_lower_min` (ported gcc): the capacity of `z` is
  decreased (`lminElse`), the candidate new minimum is recorded (`lminNewMin`), a new unstable set is
  possibly marked (`lminUnstable`, `lminMark`), and `tl` is compressed (`lminFin`).
  Each piece never errs and re-establishes `MCore` / `MPot` / `NMOk`.
-/
namespace Nucs
namespace Gcc

open AllDiff (g upd g2 upd2 ok_bind pure_eq_ok except_bind_ok forIn_list_except range_forIn_eq
  size_upd size_upd2 g_upd g_upd_same g_upd_ne LChain)

/-! ### replacing one array of the invariant -/

/-- a relation between two `tl` arrays that holds on `g` from index `2` on holds on `tlg` -/
theorem tlg_rel_of_g {tl tl' : Array Int} {s r : Int}
    (h : ∀ k, 0 ≤ k → (g tl' k = g tl k ∨ (s ≤ k ∧ k < r ∧ g tl' k = r))) :
    ∀ k, 0 ≤ k → (tlg tl' k = tlg tl k ∨ (s ≤ k ∧ k < r ∧ tlg tl' k = r)) := by
  intro k hk
  by_cases h1 : k ≤ 1
  · left; rw [tlg_le1 _ _ h1, tlg_le1 _ _ h1]
  · rw [tlg_ge2 _ _ (by omega), tlg_ge2 _ _ (by omega)]; exact h k hk

/-- replacing `tl` by an array with the same roots and the same root targets -/
theorem MCore.replace_tl {N : Int} {sz : Nat} {Kf : Int → Int} {tl tl' c sets : Array Int}
    (hc : MCore N sz Kf tl c sets) (hs : tl'.size = sz) (hct : LChain (tlg tl') N)
    (hroots : ∀ k, 1 ≤ k → k ≤ N → (tlg tl' k < k ↔ tlg tl k < k))
    (hval : ∀ k, 1 ≤ k → k ≤ N → tlg tl k < k → tlg tl' k = tlg tl k) :
    MCore N sz Kf tl' c sets := by
  have hroot : ∀ r, 2 ≤ r → r ≤ N → g tl' r < r → g tl r < r ∧ g tl' r = g tl r := by
    intro r h1 h2 h3
    have h4 : tlg tl r < r := (hroots r (by omega) h2).1 (by rw [tlg_ge2 tl' r h1]; exact h3)
    have h5 := hval r (by omega) h2 h4
    rw [tlg_ge2 tl' r h1, tlg_ge2 tl r h1] at h5
    rw [tlg_ge2 tl r h1] at h4
    exact ⟨h4, h5⟩
  refine ⟨hs, hc.sc, hc.ss, hc.hsz, hct, hc.cs, ?_, hc.cN, ?_, ?_, hc.i5, ?_⟩
  · intro r h1 h2 h3
    exact hc.d1 r h1 h2 (hroot r h1 h2 h3).1
  · intro r h1 h2 h3
    obtain ⟨h4, h5⟩ := hroot r h1 h2 h3
    rw [h5]; exact hc.l1 r h1 h2 h4
  · intro r h1 h2 h3
    exact hc.l2 r h1 h2 (hroot r h1 h2 h3).1
  · intro r h1 h2 h3
    exact hc.i6 r h1 h2 (hroot r h1 h2 h3).1

/-- replacing `tl` by an array with the same roots keeps `MPot` -/
theorem MPot.replace_tl {N : Int} {sz : Nat} {tl tl' pot stbl : Array Int}
    (hp : MPot N sz tl pot stbl) (hct : LChain (tlg tl') N)
    (hroots : ∀ k, 2 ≤ k → k < N → tlg tl' k < k → tlg tl k < k) :
    MPot N sz tl' pot stbl := by
  refine ⟨hp.sp, hp.sb, hp.cp, hp.cb, ?_, hp.i3⟩
  intro k h1 h2 h3
  have h4 := hp.i1 k h1 h2 h3
  have h5 := hct.rng k (by omega) (by omega)
  have h6 : ¬ tlg tl' k < k := by
    intro h7
    have := hroots k h1 h2 h7
    rw [tlg_ge2 tl k h1] at this
    omega
  rw [tlg_ge2 tl' k h1] at h5 h6
  omega

/-- replacing `sets` by an array with the same roots, in which the up-pointers that aim directly
    at a root are kept -/
theorem MCore.replace_sets {N : Int} {sz : Nat} {Kf : Int → Int} {tl c sets sets' : Array Int}
    (hc : MCore N sz Kf tl c sets) (hs : sets'.size = sz) (hcs : LChain (g sets') N)
    (hroots : ∀ k, 1 ≤ k → k ≤ N → (g sets' k < k ↔ g sets k < k))
    (hkeep : ∀ k m, 1 ≤ k → k < m → m < N → g sets k = m → g sets m < m → g sets' k = m) :
    MCore N sz Kf tl c sets' := by
  refine ⟨hc.st, hc.sc, hs, hc.hsz, hc.ct, hcs, hc.d1, hc.cN, ?_, ?_, ?_, ?_⟩
  · intro r h1 h2 h3
    have hr1 := hc.root_ge_one r h1 h2 h3
    rcases hc.l1 r h1 h2 h3 with h4 | h4
    · exact Or.inl h4
    · by_cases h5 : g tl r = 1
      · exact Or.inl h5
      · right
        rw [hroots (g tl r - 1) (by omega) (by omega)]; exact h4
  · intro r h1 h2 h3 h4
    rw [hroots (r - 1) (by omega) (by omega)]
    exact hc.l2 r h1 h2 h3 h4
  · intro k h1 h2 h3
    exact hc.i5 k h1 h2 ((hroots k h1 (by omega)).1 h3)
  · intro r h1 h2 h3 h4 k hk1 hk2 hk3
    exact hkeep k (r - 1) hk1 hk2 (by omega) (hc.i6 r h1 h2 h3 h4 k hk1 hk2 hk3)
      (hc.l2 r h1 h2 h3 h4)

/-! ### the final path compression of `tl` -/

theorem lminFin_spec {N : Int} {sz : Nat} {Kf : Int → Int} {tl c sets pot stbl : Array Int}
    (hc : MCore N sz Kf tl c sets) (hp : MPot N sz tl pot stbl) (x z : Int) (hx1 : 1 ≤ x)
    (hxz : x + 1 ≤ z) (hzN : z ≤ N) (hzr : g tl z < z)
    (hall : ∀ k, x + 1 ≤ k → k < z → g tl k > k) (new_mins : Array Int) (w : Int) :
    ∃ tl', lminFin x pot tl c sets stbl new_mins w z =
        .ok (.yield (tl', c, sets, stbl, pot, new_mins, w)) ∧
      MCore N sz Kf tl' c sets ∧ MPot N sz tl' pot stbl := by
  have hNsz := hc.hsz
  have hst := hc.st
  have hzr' : tlg tl z < z := by rw [tlg_ge2 tl z (by omega)]; exact hzr
  have hall' : ∀ k, x + 1 ≤ k → k < z → tlg tl k > k := by
    intro k h1 h2; rw [tlg_ge2 tl k (by omega)]; exact hall k h1 h2
  have hupt : ∀ p, x + 1 ≤ p → p < z → p < g tl p ∧ g tl p ≤ z := by
    intro p h1 h2
    have h3 := hall' p h1 h2
    have h4 := hc.ct.up_le_root (by omega) h2 hzN h3 hzr'
    rw [tlg_ge2 tl p (by omega)] at h3 h4
    exact ⟨h3, h4⟩
  obtain ⟨t3, hps, hsz3, hrel3⟩ :=
    path_set_up_compress tl (x + 1) z z (by omega) hxz (by omega) hupt
  obtain ⟨hct3, hroots3, hval3⟩ := hc.ct.compress hzN hall' (tlg_rel_of_g hrel3)
  unfold lminFin
  rw [hps, ok_bind]
  exact ⟨t3, rfl, hc.replace_tl (by omega) hct3 hroots3 hval3,
    hp.replace_tl hct3 (fun k h1 h2 h3 => (hroots3 k (by omega) (by omega)).1 h3)⟩

/-! ### marking a new unstable set -/

theorem lminMark_spec {N : Int} {sz : Nat} {Kf : Int → Int} {tl c sets pot stbl : Array Int}
    (hc : MCore N sz Kf tl c sets) (hp : MPot N sz tl pot stbl) (new_mins : Array Int)
    (w x j z Y : Int) (hx1 : 1 ≤ x) (hxz : x + 1 ≤ z) (hzN : z ≤ N) (hzr : g tl z < z)
    (hj : g tl z = j) (hall : ∀ k, x + 1 ≤ k → k < z → g tl k > k)
    (hY : Y = z - 1) (hYr : g sets Y < Y) :
    ∃ tl' sets', lminMark x j pot tl c stbl new_mins w z sets Y =
        .ok (.yield (tl', c, sets', stbl, pot, new_mins, w)) ∧
      MCore N sz Kf tl' c sets' ∧ MPot N sz tl' pot stbl := by
  have hNsz := hc.hsz
  have hss := hc.ss
  have hz2 : 2 ≤ z := by omega
  have hy1 : 1 ≤ Y := by omega
  have hyN : Y < N := by omega
  have hzr' : tlg tl z < z := by rw [tlg_ge2 tl z hz2]; exact hzr
  have hj1 : 1 ≤ j := by rw [← hj]; exact hc.root_ge_one z hz2 hzN hzr
  have hl1 := hc.l1 z hz2 hzN hzr
  rw [hj] at hl1
  have hdy := hc.cs.down Y hy1 (by omega) hYr
  have hry := hc.cs.rng Y hy1 (by omega)
  -- `e = j - 1` is `0` or a root of `sets`, hence not skipped by the pointer of `Y`
  have hre : j - 1 = 0 ∨ g sets (j - 1) < j - 1 := by
    rcases hl1 with h | h
    · left; omega
    · right; exact h
  have hey : j - 1 ≤ g sets Y := by
    by_cases hle : j - 1 ≤ g sets Y
    · exact hle
    · have := hdy.1 (j - 1) (by omega) (by omega)
      rcases hre with h | h <;> omega
  unfold lminMark
  rw [rd_ok sets Y (by omega) (by omega), ok_bind]
  obtain ⟨h2, hps, hsz2, hv2⟩ := path_set_down_mark sets (g sets Y) (j - 1) Y (by omega) hey
    (by omega)
    (by
      rcases hdy.2 with h0 | h0
      · left; omega
      · right; exact h0)
    (by
      intro p hp1 hp2 hp3
      have hdp := hc.cs.down p (by omega) (by omega) hp3
      have hrp := hc.cs.rng p (by omega) (by omega)
      refine ⟨?_, ?_, fun k hk1 hk2 => by have := hdp.1 k hk1 hk2; omega⟩
      · by_cases hle : j - 1 ≤ g sets p
        · exact hle
        · have := hdp.1 (j - 1) (by omega) (by omega)
          rcases hre with h | h <;> omega
      · rcases hdp.2 with h0 | h0
        · left
          by_cases hle : j - 1 ≤ g sets p
          · omega
          · have := hdp.1 (j - 1) (by omega) (by omega)
            rcases hre with h | h <;> omega
        · right; exact h0)
  rw [hps, ok_bind, wr_ok h2 Y (j - 1) (by omega) (by omega), ok_bind]
  -- the new `sets` as a function
  have ha3 : ∀ k, 0 ≤ k → g (upd h2 Y (j - 1)) k =
      if k = Y then j - 1 else if j - 1 < k ∧ k ≤ g sets Y ∧ g sets k < k then Y else g sets k := by
    intro k hk
    rw [g_upd h2 Y (j - 1) k (by omega) (by omega) hk]
    by_cases hky : k = Y
    · simp [hky]
    · simp only [hky, if_false]; exact hv2 k hk
  obtain ⟨hch', hroots'⟩ := hc.cs.mark hy1 hyN hYr (by omega) hey hre ha3
  -- a root of `tl` is never strictly inside the group `(j, z)`
  have houtside : ∀ r, 2 ≤ r → r ≤ N → g tl r < r → ¬ (j < r ∧ r < z) := by
    intro r h1 h2 h3 h4
    have := (hc.ct.down z (by omega) hzN hzr').1 r (by rw [tlg_ge2 tl z hz2]; omega) h4.2
    rw [tlg_ge2 tl r h1] at this
    omega
  have hc' : MCore N sz Kf tl c (upd h2 Y (j - 1)) := by
    refine ⟨hc.st, hc.sc, by simp [hsz2, hss], hc.hsz, hc.ct, hch', hc.d1, hc.cN, ?_, ?_, ?_, ?_⟩
    · intro r h1 h2 h3
      have hr1 := hc.root_ge_one r h1 h2 h3
      rcases hc.l1 r h1 h2 h3 with h4 | h4
      · exact Or.inl h4
      · by_cases h5 : g tl r = 1
        · exact Or.inl h5
        · right
          rw [hroots' (g tl r - 1) (by omega) (by omega)]
          refine ⟨h4, fun h6 => ?_⟩
          -- `g tl r` is a root of `tl` strictly inside `(j, z)`
          have hd := (hc.ct.down r (by omega) h2 (by rw [tlg_ge2 tl r h1]; exact h3)).2
          rw [tlg_ge2 tl r h1] at hd
          rcases hd with h7 | h7
          · omega
          · rw [tlg_ge2 tl (g tl r) (by omega)] at h7
            exact houtside (g tl r) (by omega) (by omega) h7 ⟨by omega, by omega⟩
    · intro r h1 h2 h3 h4
      rw [hroots' (r - 1) (by omega) (by omega)]
      exact ⟨hc.l2 r h1 h2 h3 h4, fun h6 => houtside r h1 h2 h3 ⟨by omega, by omega⟩⟩
    · intro k h1 h2 h3
      exact hc.i5 k h1 h2 ((hroots' k h1 (by omega)).1 h3).1
    · intro r h1 h2 h3 h4 k hk1 hk2 hk3
      have h5 := hc.i6 r h1 h2 h3 h4 k hk1 hk2 hk3
      rw [ha3 k (by omega), if_neg (by intro h; subst h; omega), if_neg (fun h => by omega)]
      exact h5
  obtain ⟨tl', he, hc'', hp''⟩ := lminFin_spec hc' hp x z hx1 hxz hzN hzr hall new_mins w
  exact ⟨tl', _, he, hc'', hp''⟩

/-! ### the test "an unstable set is discovered" -/

theorem lminUnstable_spec {N : Int} {sz : Nat} {bounds : Array Int} {l : PSum} {fv m : Int}
    {tl c sets pot stbl : Array Int} (hb : BC bounds N fv m) (hl : PS l fv m)
    (hc : MCore N sz (K l fv bounds) tl c sets) (hp : MPot N sz tl pot stbl)
    (new_mins : Array Int) (w x y j z : Int) (hx1 : 1 ≤ x) (hy1 : 1 ≤ y) (hyN : y < N)
    (hxz : x + 1 ≤ z) (hzN : z ≤ N) (hzr : g tl z < z) (hj : g tl z = j)
    (hall : ∀ k, x + 1 ≤ k → k < z → g tl k > k) :
    ∃ tl' sets', lminUnstable bounds l x y j pot c stbl tl z sets new_mins w =
        .ok (.yield (tl', c, sets', stbl, pot, new_mins, w)) ∧
      MCore N sz (K l fv bounds) tl' c sets' ∧ MPot N sz tl' pot stbl := by
  have hbsz := hb.hsz
  have hNsz := hc.hsz
  have hsc := hc.sc
  have hss := hc.ss
  have hz2 : 2 ≤ z := by omega
  unfold lminUnstable
  rw [rd_ok c z (by omega) (by omega), ok_bind, rd_ok bounds y (by omega) (by omega), ok_bind,
    rd_ok bounds z (by omega) (by omega), ok_bind,
    get_sum_bounds_ok hl hb y z (by omega) hyN (by omega) hzN, ok_bind]
  by_cases heq : g c z = gsum l (g bounds y) (g bounds z - 1)
  · have hcond : (g c z == gsum l (g bounds y) (g bounds z - 1)) = true := by simpa using heq
    rw [if_pos hcond]
    -- the capacity of `z` is untouched and `y` lies in the zero-capacity stretch below `z`
    have hd1 := hc.d1 z hz2 hzN hzr
    have hyz : y < z := by
      by_cases h1 : z ≤ y
      · have := (gsum_K_neg hl hb y z (by omega) h1 hyN).2; omega
      · omega
    have hgK := gsum_K hl hb y z (by omega) hyz hzN
    have hKm := K_mono hl hb y (z - 1) (by omega) (by omega) (by omega)
    have hKy : K l fv bounds y = K l fv bounds (z - 1) := by omega
    have hfresh : g c z = K l fv bounds z - K l fv bounds (z - 1) := by omega
    have hroot := hc.l2 z hz2 hzN hzr hfresh
    rw [rd_ok sets y (by omega) (by omega), ok_bind]
    by_cases hsy : g sets y > y
    · rw [if_pos hsy, ok_bind]
      have hY : g sets y = z - 1 := by
        by_cases h2 : y < z - 1
        · exact hc.i6 z hz2 hzN hzr hfresh y hy1 h2 hKy
        · have h3 : y = z - 1 := by omega
          rw [← h3] at hroot; omega
      exact lminMark_spec hc hp new_mins w x j z (g sets y) hx1 hxz hzN hzr hj hall hY
        (by rw [hY]; exact hroot)
    · rw [if_neg hsy]
      have hY : y = z - 1 := by
        by_cases h2 : y < z - 1
        · have := hc.i6 z hz2 hzN hzr hfresh y hy1 h2 hKy; omega
        · omega
      exact lminMark_spec hc hp new_mins w x j z y hx1 hxz hzN hzr hj hall hY
        (by rw [hY]; exact hroot)
  · have hcond : ¬ (g c z == gsum l (g bounds y) (g bounds z - 1)) = true := by simpa using heq
    rw [if_neg hcond]
    obtain ⟨tl', he, hc', hp'⟩ := lminFin_spec hc hp x z hx1 hxz hzN hzr hall new_mins w
    exact ⟨tl', _, he, hc', hp'⟩

/-! ### recording the candidate new minimum -/

theorem NMOk_upd {N : Int} {nm : Array Int} (h : NMOk N nm) (i v : Int) (hi0 : 0 ≤ i)
    (hi1 : i < nm.size) (hv0 : 0 ≤ v) (hvN : v ≤ N) : NMOk N (upd nm i v) := by
  unfold NMOk
  intro k hk0 hk1
  rw [size_upd] at hk1
  rw [g_upd nm i v k hi0 hi1 (by omega)]
  by_cases hki : (k : Int) = i
  · rw [if_pos hki]; exact ⟨hv0, hvN⟩
  · rw [if_neg hki]; exact h k hk0 hk1

theorem lminNewMin_spec {N : Int} {sz : Nat} {bounds : Array Int} {l : PSum} {fv m : Int}
    {tl c sets pot stbl : Array Int} (hb : BC bounds N fv m) (hl : PS l fv m)
    (hc : MCore N sz (K l fv bounds) tl c sets) (hp : MPot N sz tl pot stbl)
    (new_mins : Array Int) (hnm : NMOk N new_mins) (i x y j z w : Int)
    (hi0 : 0 ≤ i) (hi1 : i < new_mins.size) (hx1 : 1 ≤ x) (hxy : x < y) (hyN : y < N)
    (hxz : x + 1 ≤ z) (hzN : z ≤ N) (hzr : g tl z < z) (hj : g tl z = j)
    (hall : ∀ k, x + 1 ≤ k → k < z → g tl k > k) :
    ∃ tl' sets' nm' w', lminNewMin bounds l i x y j pot c stbl sets new_mins w tl z =
        .ok (.yield (tl', c, sets', stbl, pot, nm', w')) ∧
      MCore N sz (K l fv bounds) tl' c sets' ∧ MPot N sz tl' pot stbl ∧ NMOk N nm' ∧
      nm'.size = new_mins.size := by
  have hNsz := hc.hsz
  have hss := hc.ss
  unfold lminNewMin
  rw [rd_ok sets x (by omega) (by omega), ok_bind]
  by_cases hhx : g sets x > x
  · rw [if_pos hhx]
    obtain ⟨w1, hpm, hw1, hw2, hw3, hw4⟩ := path_max_spec sets 1 N x (by omega) (by omega)
      (fun k h1 h2 => (hc.cs.rng k h1 h2).2.1) (fun k h1 h2 h3 => hc.cs.up k h1 h2 h3)
      hx1 (by omega)
    have hwr : g sets w1 < w1 := by have := hc.cs.rng w1 (by omega) hw2; omega
    have huph : ∀ p, x ≤ p → p < w1 → p < g sets p ∧ g sets p ≤ w1 := by
      intro p h1 h2
      have := hw4 p h1 h2
      exact ⟨this, hc.cs.up_le_root (by omega) h2 hw2 this hwr⟩
    rw [hpm, ok_bind, wr_ok new_mins i w1 hi0 hi1, ok_bind]
    obtain ⟨s3, hps', hszs3, hrels3⟩ := path_set_up_compress sets x w1 w1 (by omega) hw1
      (by omega) huph
    obtain ⟨hcs3, hrootss3, _⟩ := hc.cs.compress hw2 hw4 hrels3
    rw [hps', ok_bind]
    have hc3 : MCore N sz (K l fv bounds) tl c s3 := by
      refine hc.replace_sets (by omega) hcs3 hrootss3 ?_
      intro k r hk1 hkr hrN hkv hrr
      rcases hrels3 k (by omega) with h | ⟨h1, h2, h3⟩
      · rw [h]; exact hkv
      · -- the rewritten node `k` pointed at the root `r`, which is the first root above `x`
        have h4 := hc.cs.up_le_root hk1 h2 hw2 (by omega) hwr
        have h5 : ¬ r < w1 := fun h6 => by have := hw4 r (by omega) h6; omega
        omega
    obtain ⟨tl', sets', he, hc', hp'⟩ := lminUnstable_spec hb hl hc3 hp (upd new_mins i w1) w1 x y j z
      hx1 (by omega) hyN hxz hzN hzr hj hall
    exact ⟨tl', sets', _, _, he, hc', hp', NMOk_upd hnm i w1 hi0 hi1 (by omega) hw2, by simp⟩
  · rw [if_neg hhx, wr_ok new_mins i x hi0 hi1, ok_bind]
    obtain ⟨tl', sets', he, hc', hp'⟩ := lminUnstable_spec hb hl hc hp (upd new_mins i x) w x y j z
      hx1 (by omega) hyN hxz hzN hzr hj hall
    exact ⟨tl', sets', _, _, he, hc', hp', NMOk_upd hnm i x hi0 hi1 (by omega) (by omega), by simp⟩

/-! ### the capacity of `z` is decreased -/

theorem lminElse_spec {N : Int} {sz : Nat} {bounds : Array Int} {l : PSum} {fv m : Int}
    {tl c sets pot stbl : Array Int} (hb : BC bounds N fv m) (hl : PS l fv m)
    (hc : MCore N sz (K l fv bounds) tl c sets) (hp : MPot N sz tl pot stbl)
    (new_mins : Array Int) (hnm : NMOk N new_mins) (i x y z j w : Int)
    (hi0 : 0 ≤ i) (hi1 : i < new_mins.size) (hx1 : 1 ≤ x) (hxy : x < y) (hyN : y < N)
    (hxz : x + 1 ≤ z) (hzN : z ≤ N) (hzr : g tl z < z) (hj : j = g tl z)
    (hall : ∀ k, x + 1 ≤ k → k < z → g tl k > k)
    (hgt : ¬ g c z ≤ gsum l (g bounds y) (g bounds z - 1)) :
    ∃ tl' c' sets' nm' w', lminElse bounds l i x y j z pot tl c sets stbl new_mins w =
        .ok (.yield (tl', c', sets', stbl, pot, nm', w')) ∧
      MCore N sz (K l fv bounds) tl' c' sets' ∧ MPot N sz tl' pot stbl ∧ NMOk N nm' ∧
      nm'.size = new_mins.size := by
  subst hj
  have hNsz := hc.hsz
  have hst := hc.st
  have hsc := hc.sc
  have hz2 : 2 ≤ z := by omega
  -- the top sentinel is never reached here
  have hzN' : z < N := by
    by_cases h : z = N
    · subst h
      have h1 := gsum_K hl hb y z (by omega) hyN (Int.le_refl _)
      have h2 := K_mono hl hb y (z - 1) (by omega) (by omega) (by omega)
      have h3 := hc.cN
      omega
    · omega
  have hd0 := hc.d1 z hz2 hzN hzr
  have hzr' : tlg tl z < z := by rw [tlg_ge2 tl z hz2]; exact hzr
  unfold lminElse
  rw [rd_ok c z (by omega) (by omega), ok_bind, wr_ok c z _ (by omega) (by omega), ok_bind,
    rd_ok (upd c z (g c z - 1)) z (by omega) (by simp; omega), ok_bind,
    g_upd_same c z _ (by omega) (by omega)]
  have hd' : ∀ k, 0 ≤ k → k ≠ z → g (upd c z (g c z - 1)) k = g c k :=
    fun k h1 h2 => g_upd_ne c z _ k (by omega) (by omega) h1 h2
  have hd'z : g (upd c z (g c z - 1)) z = g c z - 1 := g_upd_same c z _ (by omega) (by omega)
  by_cases hm : g c z - 1 = 0
  · have hcond : (g c z - 1 == 0) = true := by simpa using hm
    rw [if_pos hcond]
    rw [wr_ok tl z (z + 1) (by omega) (by omega), ok_bind,
      rd_ok (upd tl z (z + 1)) z (by omega) (by simp; omega), ok_bind,
      g_upd_same tl z _ (by omega) (by omega)]
    have ht1 : ∀ k, 2 ≤ k → g (upd tl z (z + 1)) k = if k = z then z + 1 else tlg tl k := by
      intro k hk
      rw [g_upd tl z _ k (by omega) (by omega) (by omega), tlg_ge2 tl k hk]
    obtain ⟨z1, hpm1, hy1', hy2', hy3', hy4'⟩ := path_max_spec (upd tl z (z + 1)) 2 N (z + 1)
      (by omega) (by simp; omega)
      (fun k h1 h2 => by
        rw [ht1 k h1]
        by_cases hk : k = z
        · simp [hk]; omega
        · simp only [hk, if_false]; exact (hc.ct.rng k (by omega) h2).2.1)
      (fun k h1 h2 h3 m hm1 hm2 => by
        rw [ht1 k h1] at h3 hm2
        rw [ht1 m (by omega)]
        by_cases hk : k = z
        · simp only [hk, if_true] at hm2; omega
        · simp only [hk, if_false] at h3 hm2
          by_cases hmz : m = z
          · simp only [hmz, if_true]; omega
          · simp only [hmz, if_false]; exact hc.ct.up k (by omega) h2 h3 m hm1 hm2)
      (by omega) (by omega)
    have hz1ne : z1 ≠ z := by omega
    have hz1r' : tlg tl z1 < z1 := by
      rw [ht1 z1 (by omega)] at hy3'
      simp only [hz1ne, if_false] at hy3'
      have := hc.ct.rng z1 (by omega) hy2'; omega
    have hbetween : ∀ k, z < k → k < z1 → tlg tl k > k := by
      intro k h1 h2
      have := hy4' k (by omega) h2
      rw [ht1 k (by omega)] at this
      simpa [show k ≠ z by omega] using this
    rw [hpm1, ok_bind, wr_ok (upd tl z (z + 1)) z1 (g tl z) (by omega) (by simp; omega), ok_bind]
    have ha2 : ∀ k, 0 ≤ k → tlg (upd (upd tl z (z + 1)) z1 (g tl z)) k =
        if k = z1 then tlg tl z else if k = z then z + 1 else tlg tl k := by
      intro k hk
      rw [tlg_upd _ z1 _ k (by omega) (by simp; omega) hk, tlg_ge2 tl z hz2]
      by_cases hk1 : k = z1
      · simp [hk1]
      · simp only [hk1, if_false]; exact tlg_upd tl z _ k hz2 (by omega) hk
    obtain ⟨hct2, hroots2, hoth2, hz1v⟩ :=
      hc.ct.merge (by omega) (by omega) hy2' hzr' hz1r' hbetween ha2
    -- the same facts on `g`
    have hroot2 : ∀ r, 2 ≤ r → r ≤ N → g (upd (upd tl z (z + 1)) z1 (g tl z)) r < r →
        g tl r < r ∧ r ≠ z := by
      intro r h1 h2 h3
      have := (hroots2 r (by omega) h2).1 (by rw [tlg_ge2 _ r h1]; exact h3)
      rw [tlg_ge2 tl r h1] at this
      exact this
    have hoth2' : ∀ r, 2 ≤ r → r ≠ z1 → r ≠ z →
        g (upd (upd tl z (z + 1)) z1 (g tl z)) r = g tl r := by
      intro r h1 h2 h3
      have := hoth2 r (by omega) h2 h3
      rw [tlg_ge2 _ r h1, tlg_ge2 tl r h1] at this
      exact this
    have hz1v' : g (upd (upd tl z (z + 1)) z1 (g tl z)) z1 = g tl z := by
      rw [tlg_ge2 _ z1 (by omega), tlg_ge2 tl z hz2] at hz1v
      exact hz1v
    have hc2 : MCore N sz (K l fv bounds) (upd (upd tl z (z + 1)) z1 (g tl z))
        (upd c z (g c z - 1)) sets := by
      refine ⟨by simp [hst], by simp [hsc], hc.ss, hNsz, hct2, hc.cs, ?_, ?_, ?_, ?_, hc.i5, ?_⟩
      · intro r h1 h2 h3
        have hr := hroot2 r h1 h2 h3
        rw [hd' r (by omega) hr.2]; exact hc.d1 r h1 h2 hr.1
      · rw [hd' N (by omega) (by omega)]; exact hc.cN
      · intro r h1 h2 h3
        have hr := hroot2 r h1 h2 h3
        by_cases hr1 : r = z1
        · subst hr1; rw [hz1v']; exact hc.l1 z hz2 hzN hzr
        · rw [hoth2' r h1 hr1 hr.2]; exact hc.l1 r h1 h2 hr.1
      · intro r h1 h2 h3 h4
        have hr := hroot2 r h1 h2 h3
        rw [hd' r (by omega) hr.2] at h4
        exact hc.l2 r h1 h2 hr.1 h4
      · intro r h1 h2 h3 h4
        have hr := hroot2 r h1 h2 h3
        rw [hd' r (by omega) hr.2] at h4
        exact hc.i6 r h1 h2 hr.1 h4
    have hp2 : MPot N sz (upd (upd tl z (z + 1)) z1 (g tl z)) pot stbl :=
      hp.replace_tl hct2 (fun k h1 h2 h3 => ((hroots2 k (by omega) (by omega)).1 h3).1)
    obtain ⟨tl', sets', nm', w', he, hc', hp', hnm', hs'⟩ :=
      lminNewMin_spec hb hl hc2 hp2 new_mins hnm i x y (g tl z) z1 w hi0 hi1 hx1 hxy hyN
        (by omega) hy2'
        (by
          have := (hroots2 z1 (by omega) hy2').2 ⟨hz1r', hz1ne⟩
          rw [tlg_ge2 _ z1 (by omega)] at this
          exact this)
        hz1v'
        (fun k h1 h2 => by
          by_cases hk0 : k = z
          · subst hk0
            have := ha2 k (by omega)
            rw [tlg_ge2 _ k hz2] at this
            rw [this]; simp only [show k ≠ z1 by omega, if_false, if_true]; omega
          · rw [hoth2' k (by omega) (by omega) hk0]
            by_cases hk1 : k < z
            · exact hall k h1 hk1
            · have := hbetween k (by omega) h2
              rw [tlg_ge2 tl k (by omega)] at this
              exact this)
    exact ⟨tl', _, sets', nm', w', he, hc', hp', hnm', hs'⟩
  · have hcond : ¬ (g c z - 1 == 0) = true := by simpa using hm
    rw [if_neg hcond]
    have hc2 : MCore N sz (K l fv bounds) tl (upd c z (g c z - 1)) sets := by
      refine ⟨hst, by simp [hsc], hc.ss, hNsz, hc.ct, hc.cs, ?_, ?_, hc.l1, ?_, hc.i5, ?_⟩
      · intro r h1 h2 h3
        by_cases hrz : r = z
        · subst hrz; rw [hd'z]; omega
        · rw [hd' r (by omega) hrz]; exact hc.d1 r h1 h2 h3
      · rw [hd' N (by omega) (by omega)]; exact hc.cN
      · intro r h1 h2 h3 h4
        by_cases hrz : r = z
        · subst hrz; rw [hd'z] at h4; omega
        · rw [hd' r (by omega) hrz] at h4; exact hc.l2 r h1 h2 h3 h4
      · intro r h1 h2 h3 h4
        by_cases hrz : r = z
        · subst hrz; rw [hd'z] at h4; omega
        · rw [hd' r (by omega) hrz] at h4; exact hc.i6 r h1 h2 h3 h4
    obtain ⟨tl', sets', nm', w', he, hc', hp', hnm', hs'⟩ :=
      lminNewMin_spec hb hl hc2 hp new_mins hnm i x y (g tl z) z w hi0 hi1 hx1 hxy hyN
        hxz hzN hzr rfl hall
    exact ⟨tl', _, sets', nm', w', he, hc', hp', hnm', hs'⟩

end Gcc
end Nucs
