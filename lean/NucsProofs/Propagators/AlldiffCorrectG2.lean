import NucsProofs.Propagators.AlldiffCorrectG1
import NucsProofs.Propagators.AlldifferentReg
/-!
  Functional correctness of the ported alldifferent, part 8 (G2, completeness): a succeeding call
  returns a box every bound of which is attained by a solution inside it (`port_supported`), hence
  `Exact .alldifferent` for the registered algorithm (`exact_alldifferent_of_matching`).

  Like G1 this uses Hall's theorem for interval domains as the hypothesis `hmatch`.
-/
namespace Nucs
namespace AllDiff

/-- every solution of the input box lies in the answer -/
theorem port_keeps_solutions (ps : List Int) (B : Box) (hne : B ≠ []) (hdom : ∀ d ∈ B, d.1 ≤ d.2)
    (B' : Box) (h : alldifferent ps B = .ok (.cons, B')) (t : List Int) (ht : inBox t B)
    (hnd : t.Nodup) : inBox t B' := by
  obtain ⟨st1, B1, hr, hcases⟩ := port_facts ps B hne hdom
  rw [hr] at h
  injection h with h
  injection h with e1 e2
  subst e1 e2
  rcases hcases with ⟨hst, _⟩ | ⟨_, hlen, hH, hpos⟩
  · cases hst
  · have htl := inBox_length ht
    apply inBox_of_get t B1 (by omega)
    intro i hi
    have hi' : i < B.length := by omega
    have hp := hpos i hi'
    have hg := inBox_get i ht hi'
    constructor
    · by_cases hlt : (getDom B1 i).1 ≤ getI t i
      · exact hlt
      · obtain ⟨a, b, ha, hb, hc⟩ := hp.sndLo (getI t i) hg.1 (by omega)
        exact absurd ⟨ha, hb⟩ (hall_excludes B i a b t hi' (by omega) ht hnd)
    · by_cases hlt : getI t i ≤ (getDom B1 i).2
      · exact hlt
      · obtain ⟨a, b, ha, hb, hc⟩ := hp.sndHi (getI t i) (by omega) hg.2
        exact absurd ⟨ha, hb⟩ (hall_excludes B i a b t hi' (by omega) ht hnd)

theorem getDom_set (B : Box) (k : Nat) (p : Dom) (i : Nat) (hk : k < B.length) :
    getDom (B.set k p) i = if i = k then p else getDom B i := by
  unfold getDom
  by_cases h : i = k
  · subst h; simp [hk]
  · simp only [h, if_false]
    simp [List.getD, show ¬ k = i from fun e => h e.symm]

/-- fixing variable `k` to a value that lies in no Hall interval foreign to its domain keeps
    Hall's condition -/
theorem hallOK_set_of_cmp (B : Box) (h : HallOK B) (k : Nat) (hk : k < B.length) (v : Int)
    (hcmp : ∀ a b, IsHall B a b → (getDom B k).within a b = false → ¬ (a ≤ v ∧ v ≤ b)) :
    HallOK (B.set k (v, v)) := by
  intro a b hab
  have hH := h a b hab
  have hgd : getDom B k = B[k] := by simp [getDom, hk]
  rw [insideCount_eq_countP', List.countP_set hk]
  rw [insideCount_eq_countP'] at hH
  by_cases hq : Dom.within (v, v) a b = true
  · by_cases hdw : Dom.within B[k] a b = true
    · simp only [hq, hdw, if_true]; omega
    · simp only [hq, hdw, if_true]
      by_cases hfull : ((B.countP (fun d => d.within a b) : Nat) : Int) = b - a + 1
      · exfalso
        have := hcmp a b ⟨hab, by rw [insideCount_eq_countP']; exact hfull⟩
          (by rw [hgd]; simpa using hdw)
        rw [within_iff'] at hq
        simp only at hq
        exact this hq
      · simp; omega
  · simp only [hq]
    simp; omega

/-- a bound of the answer is attained by a solution of the input box -/
theorem port_bound_support
    (hmatch : ∀ B : Box, B.Nonempty → HallOK B → ∃ t, inBox t B ∧ t.Nodup)
    (B : Box) (hdom : ∀ d ∈ B, d.1 ≤ d.2) (hH : HallOK B) (k : Nat) (hk : k < B.length) (v : Int)
    (hv1 : (getDom B k).1 ≤ v) (hv2 : v ≤ (getDom B k).2)
    (hcmp : ∀ a b, IsHall B a b → (getDom B k).within a b = false → ¬ (a ≤ v ∧ v ≤ b)) :
    ∃ t, inBox t B ∧ t.Nodup ∧ getI t k = v := by
  have hne' : Box.Nonempty (B.set k (v, v)) := by
    intro d hd
    rcases List.mem_or_eq_of_mem_set hd with hd | rfl
    · exact hdom d hd
    · exact Int.le_refl _
  obtain ⟨t, ht, hnd⟩ := hmatch _ hne' (hallOK_set_of_cmp B hH k hk v hcmp)
  have htl := inBox_length ht
  have hlen : (B.set k (v, v)).length = B.length := by simp
  have hk' : getI t k = v := by
    have := inBox_get k ht (by omega)
    rw [getDom_set B k (v, v) k hk, if_pos rfl] at this
    simp only at this
    omega
  refine ⟨t, inBox_of_get t B (by omega) ?_, hnd, hk'⟩
  intro i hi
  have := inBox_get i ht (by omega)
  rw [getDom_set B k (v, v) i hk] at this
  by_cases hik : i = k
  · subst hik
    rw [hk']; exact ⟨hv1, hv2⟩
  · rw [if_neg hik] at this; exact this

/-- **G2**: every bound of the answer of a succeeding call is attained by a solution inside the
    answer (bound consistency) -/
theorem port_supported
    (hmatch : ∀ B : Box, B.Nonempty → HallOK B → ∃ t, inBox t B ∧ t.Nodup)
    (ps : List Int) (B : Box) (hne : B ≠ []) (hdom : ∀ d ∈ B, d.1 ≤ d.2) (B' : Box)
    (h : alldifferent ps B = .ok (.cons, B')) : Supported .alldifferent ps B' := by
  obtain ⟨st1, B1, hr, hcases⟩ := port_facts ps B hne hdom
  have h0 := h
  rw [hr] at h
  injection h with h
  injection h with e1 e2
  subst e1 e2
  rcases hcases with ⟨hst, _⟩ | ⟨_, hlen, hH, hpos⟩
  · cases hst
  · obtain ⟨t0, ht0, hnd0⟩ := hmatch B hdom hH
    have ht0' := port_keeps_solutions ps B hne hdom B1 h0 t0 ht0 hnd0
    intro k hk
    have hk' : k < B.length := by omega
    have hp := hpos k hk'
    have hne1 := inBox_get k ht0' hk
    constructor
    · obtain ⟨t, ht, hnd, hv⟩ := port_bound_support hmatch B hdom hH k hk' (getDom B1 k).1
        hp.le1 (by have := hp.le2; omega) hp.cmpLo
      exact ⟨t, port_keeps_solutions ps B hne hdom B1 h0 t ht hnd, hnd, hv⟩
    · obtain ⟨t, ht, hnd, hv⟩ := port_bound_support hmatch B hdom hH k hk' (getDom B1 k).2
        (by have := hp.le1; omega) hp.le2 hp.cmpHi
      exact ⟨t, port_keeps_solutions ps B hne hdom B1 h0 t ht hnd, hnd, hv⟩

/-- the port answers `.inc` or `.cons`, never `.ent` -/
theorem port_status (ps : List Int) (B : Box) (hne : B ≠ []) (hdom : ∀ d ∈ B, d.1 ≤ d.2)
    (st : Status) (B' : Box) (h : alldifferent ps B = .ok (st, B')) : st = .inc ∨ st = .cons := by
  obtain ⟨st1, B1, hr, hcases⟩ := port_facts ps B hne hdom
  rw [hr] at h
  injection h with h
  injection h with e1 e2
  subst e1 e2
  rcases hcases with ⟨hst, _⟩ | ⟨hst, _⟩
  · exact Or.inl hst
  · exact Or.inr hst

end AllDiff

open AllDiff in
/-- **C14 for alldifferent** (from Hall's theorem for interval domains): the registered algorithm —
    which by `alldifferentC_eq_port` is the port of the Python code — computes the bounds hull and
    is idempotent -/
theorem exact_alldifferent_of_matching
    (hmatch : ∀ B : Box, B.Nonempty → HallOK B → ∃ t, inBox t B ∧ t.Nodup) :
    Exact .alldifferent := by
  intro ps B st B' hc hne hrun hst
  have hpos : 1 ≤ B.length := hc
  have hne0 : B ≠ [] := by
    intro h; subst h; simp at hpos
  obtain ⟨st1, B1, hp, hC⟩ := alldifferentC_eq_port hmatch ps B hne0 hne
  have hrun0 := hrun
  rw [runAlg_alldifferent, hC] at hrun
  injection hrun with hrun
  injection hrun with e1 e2
  subst e1
  rw [if_neg hst] at e2
  subst e2
  have hcons : st1 = .cons := by
    rcases port_status ps B hne0 hne st1 B1 hp with h | h
    · exact absurd h hst
    · exact h
  subst hcons
  have hsup := port_supported hmatch ps B hne0 hne B1 hp
  exact exact_instance_of_support sound_alldifferent safe_alldifferent contractMono_alldifferent
    hc hne hpos hrun0 hst hsup

end Nucs
