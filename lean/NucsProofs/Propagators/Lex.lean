import NucsProofs.Basic
/-!
  lexicographic_leq: `x ≤_lex y`.  Sound, GroundOk, EntailOk, TrigOk, ContractMono, Safe.
-/
namespace Nucs
namespace Lex

/-! ### pointwise views of `inBox`, `Box.le`, `Box.Nonempty` -/

theorem inBox_of_get : ∀ {t : List Int} {B : Box}, t.length = B.length →
    (∀ k, k < B.length → (getDom B k).1 ≤ getI t k ∧ getI t k ≤ (getDom B k).2) → inBox t B
  | [], [], _, _ => trivial
  | x :: xs, d :: ds, hl, h => by
    refine ⟨?_, inBox_of_get (t := xs) (B := ds) (by simpa using hl) (fun k hk => ?_)⟩
    · have := h 0 (by simp); simpa [getDom, getI, inDom] using this
    · have := h (k + 1) (by simpa using hk); simpa [getDom, getI] using this
  | [], _ :: _, hl, _ => by simp at hl
  | _ :: _, [], hl, _ => by simp at hl

theorem le_of_get : ∀ {B' B : Box}, B'.length = B.length →
    (∀ k, k < B.length → (getDom B k).1 ≤ (getDom B' k).1 ∧ (getDom B' k).2 ≤ (getDom B k).2) → Box.le B' B
  | [], [], _, _ => trivial
  | d' :: ds', d :: ds, hl, h => by
    refine ⟨?_, le_of_get (B' := ds') (B := ds) (by simpa using hl) (fun k hk => ?_)⟩
    · have := h 0 (by simp); simpa [getDom] using this
    · have := h (k + 1) (by simpa using hk); simpa [getDom] using this
  | [], _ :: _, hl, _ => by simp at hl
  | _ :: _, [], hl, _ => by simp at hl

theorem nonempty_of_get {B : Box} (h : ∀ k, k < B.length → (getDom B k).1 ≤ (getDom B k).2) : B.Nonempty := by
  intro d hd
  obtain ⟨k, hk, rfl⟩ := List.mem_iff_getElem.mp hd
  have := h k hk
  simpa [getDom, List.getD, List.getElem?_eq_getElem hk] using this

theorem getDom_set (x : Box) (i j : Nat) (d : Dom) :
    getDom (x.set i d) j = if i = j ∧ i < x.length then d else getDom x j := by
  unfold getDom
  by_cases h : i = j
  · subst h
    by_cases h2 : i < x.length
    · simp [List.getD, h2]
    · simp [List.getD, h2]
  · simp [List.getD, h, List.getElem?_set_ne h]

theorem le_set {x : Box} {q : Nat} {d : Dom} (h1 : (getDom x q).1 ≤ d.1) (h2 : d.2 ≤ (getDom x q).2) :
    Box.le (x.set q d) x := by
  apply le_of_get (by simp)
  intro k hk
  rw [getDom_set]
  split
  · rename_i h; obtain ⟨rfl, _⟩ := h; exact ⟨h1, h2⟩
  · exact ⟨Int.le_refl _, Int.le_refl _⟩

theorem nonempty_set {x : Box} {q : Nat} {d : Dom} (hx : x.Nonempty) (hd : d.1 ≤ d.2) :
    Box.Nonempty (x.set q d) := by
  apply nonempty_of_get
  intro k hk
  rw [getDom_set]
  split
  · exact hd
  · exact Box.nonempty_get hx k (by simpa using hk)

theorem inBox_set {xs : List Int} {x : Box} {q : Nat} {d : Dom} (h : inBox xs x)
    (hd : d.1 ≤ getI xs q ∧ getI xs q ≤ d.2) : inBox xs (x.set q d) := by
  apply inBox_of_get (by simpa using inBox_length h)
  intro k hk
  rw [getDom_set]
  split
  · rename_i h'; obtain ⟨rfl, _⟩ := h'; exact hd
  · exact inBox_get k h (by simpa using hk)

/-! ### splitting a box in two halves -/

theorem inBox_append : ∀ {xs : List Int} {X : Box} {ys : List Int} {Y : Box},
    inBox xs X → inBox ys Y → inBox (xs ++ ys) (X ++ Y)
  | [], [], _, _, _, h => by simpa using h
  | _ :: _, _ :: _, _, _, h1, h2 => ⟨h1.1, inBox_append h1.2 h2⟩
  | [], _ :: _, _, _, h, _ => by simp [inBox] at h
  | _ :: _, [], _, _, h, _ => by simp [inBox] at h

theorem inBox_take_drop : ∀ (k : Nat) {t : List Int} {B : Box}, inBox t B →
    inBox (t.take k) (B.take k) ∧ inBox (t.drop k) (B.drop k)
  | 0, _, _, h => by simpa [inBox] using h
  | _ + 1, [], [], _ => by simp [inBox]
  | k + 1, _ :: _, _ :: _, h => by
    have := inBox_take_drop k h.2
    exact ⟨⟨h.1, this.1⟩, this.2⟩
  | _ + 1, [], _ :: _, h => by simp [inBox] at h
  | _ + 1, _ :: _, [], h => by simp [inBox] at h

theorem le_append : ∀ {X' X Y' Y : Box}, Box.le X' X → Box.le Y' Y → Box.le (X' ++ Y') (X ++ Y)
  | [], [], _, _, _, h => by simpa using h
  | _ :: _, _ :: _, _, _, h1, h2 => ⟨h1.1, le_append h1.2 h2⟩
  | [], _ :: _, _, _, h, _ => by simp [Box.le] at h
  | _ :: _, [], _, _, h, _ => by simp [Box.le] at h

theorem nonempty_append {X Y : Box} (hx : X.Nonempty) (hy : Y.Nonempty) : (X ++ Y).Nonempty := by
  intro d hd
  rcases List.mem_append.mp hd with h | h
  · exact hx d h
  · exact hy d h

theorem nonempty_take {B : Box} (k : Nat) (h : B.Nonempty) : Box.Nonempty (B.take k) :=
  fun d hd => h d (List.mem_of_mem_take hd)

theorem nonempty_drop {B : Box} (k : Nat) (h : B.Nonempty) : Box.Nonempty (B.drop k) :=
  fun d hd => h d (List.mem_of_mem_drop hd)

/-! ### lexicographic order on suffixes -/

theorem lexLe_nil (ys : List Int) : lexLe [] ys := by simp [lexLe]

theorem lexLe_drop_ge {xs ys : List Int} {i : Nat} (h : xs.length ≤ i) : lexLe (xs.drop i) (ys.drop i) := by
  rw [List.drop_eq_nil_of_le h]; exact lexLe_nil _

theorem lexLe_drop_iff {xs ys : List Int} {i : Nat} (hx : i < xs.length) (hy : i < ys.length) :
    lexLe (xs.drop i) (ys.drop i) ↔
      getI xs i < getI ys i ∨ (getI xs i = getI ys i ∧ lexLe (xs.drop (i + 1)) (ys.drop (i + 1))) := by
  rw [List.drop_eq_getElem_cons hx, List.drop_eq_getElem_cons hy]
  simp [lexLe, getI, List.getD, List.getElem?_eq_getElem hx, List.getElem?_eq_getElem hy]

end Lex
end Nucs
