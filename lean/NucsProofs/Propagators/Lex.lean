import NucsProofs.Basic
/-!
  lexicographic_leq: `x ≤_lex y`.  Sound, GroundOk, EntailOk, TrigOk, ContractMono, Safe, Exact.
-/
namespace Nucs
namespace Lex

/-! ### pointwise views of `inBox`, `Box.le`, `Box.Nonempty` -/

theorem inBox_of_get : ∀ {t : List Int} {B : Box}, t.length = B.length →
    (∀ k, k < B.length → (getDom B k).1 ≤ getI t k ∧ getI t k ≤ (getDom B k).2) → inBox t B
  | [], [], _, _ => trivial
  | x :: xs, d :: ds, hl, h => by
    refine ⟨?_, inBox_of_get (t := xs) (B := ds) (by simpa using hl) (fun k hk => ?_)⟩
    · have := h 0 (by simp); simpa [getDom, getI, inDom] using this
    · have := h (k + 1) (by simpa using hk); simpa [getDom, getI] using this
  | [], _ :: _, hl, _ => by simp at hl
  | _ :: _, [], hl, _ => by simp at hl

theorem le_of_get : ∀ {B' B : Box}, B'.length = B.length →
    (∀ k, k < B.length → (getDom B k).1 ≤ (getDom B' k).1 ∧ (getDom B' k).2 ≤ (getDom B k).2) → Box.le B' B
  | [], [], _, _ => trivial
  | d' :: ds', d :: ds, hl, h => by
    refine ⟨?_, le_of_get (B' := ds') (B := ds) (by simpa using hl) (fun k hk => ?_)⟩
    · have := h 0 (by simp); simpa [getDom] using this
    · have := h (k + 1) (by simpa using hk); simpa [getDom] using this
  | [], _ :: _, hl, _ => by simp at hl
  | _ :: _, [], hl, _ => by simp at hl

theorem nonempty_of_get {B : Box} (h : ∀ k, k < B.length → (getDom B k).1 ≤ (getDom B k).2) : B.Nonempty := by
  intro d hd
  obtain ⟨k, hk, rfl⟩ := List.mem_iff_getElem.mp hd
  have := h k hk
  simpa [getDom, List.getD, List.getElem?_eq_getElem hk] using this

theorem getDom_set (x : Box) (i j : Nat) (d : Dom) :
    getDom (x.set i d) j = if i = j ∧ i < x.length then d else getDom x j := by
  unfold getDom
  by_cases h : i = j
  · subst h
    by_cases h2 : i < x.length
    · simp [List.getD, h2]
    · simp [List.getD, h2]
  · simp [List.getD, h, List.getElem?_set_ne h]

theorem le_set {x : Box} {q : Nat} {d : Dom} (h1 : (getDom x q).1 ≤ d.1) (h2 : d.2 ≤ (getDom x q).2) :
    Box.le (x.set q d) x := by
  apply le_of_get (by simp)
  intro k hk
  rw [getDom_set]
  split
  · rename_i h; obtain ⟨rfl, _⟩ := h; exact ⟨h1, h2⟩
  · exact ⟨Int.le_refl _, Int.le_refl _⟩

theorem nonempty_set {x : Box} {q : Nat} {d : Dom} (hx : x.Nonempty) (hd : d.1 ≤ d.2) :
    Box.Nonempty (x.set q d) := by
  apply nonempty_of_get
  intro k hk
  rw [getDom_set]
  split
  · exact hd
  · exact Box.nonempty_get hx k (by simpa using hk)

theorem inBox_set {xs : List Int} {x : Box} {q : Nat} {d : Dom} (h : inBox xs x)
    (hd : d.1 ≤ getI xs q ∧ getI xs q ≤ d.2) : inBox xs (x.set q d) := by
  apply inBox_of_get (by simpa using inBox_length h)
  intro k hk
  rw [getDom_set]
  split
  · rename_i h'; obtain ⟨rfl, _⟩ := h'; exact hd
  · exact inBox_get k h (by simpa using hk)

/-! ### splitting a box in two halves -/

theorem inBox_append : ∀ {xs : List Int} {X : Box} {ys : List Int} {Y : Box},
    inBox xs X → inBox ys Y → inBox (xs ++ ys) (X ++ Y)
  | [], [], _, _, _, h => by simpa using h
  | _ :: _, _ :: _, _, _, h1, h2 => ⟨h1.1, inBox_append h1.2 h2⟩
  | [], _ :: _, _, _, h, _ => by simp [inBox] at h
  | _ :: _, [], _, _, h, _ => by simp [inBox] at h

theorem inBox_take_drop : ∀ (k : Nat) {t : List Int} {B : Box}, inBox t B →
    inBox (t.take k) (B.take k) ∧ inBox (t.drop k) (B.drop k)
  | 0, _, _, h => by simpa [inBox] using h
  | _ + 1, [], [], _ => by simp [inBox]
  | k + 1, _ :: _, _ :: _, h => by
    have := inBox_take_drop k h.2
    exact ⟨⟨h.1, this.1⟩, this.2⟩
  | _ + 1, [], _ :: _, h => by simp [inBox] at h
  | _ + 1, _ :: _, [], h => by simp [inBox] at h

theorem le_append : ∀ {X' X Y' Y : Box}, Box.le X' X → Box.le Y' Y → Box.le (X' ++ Y') (X ++ Y)
  | [], [], _, _, _, h => by simpa using h
  | _ :: _, _ :: _, _, _, h1, h2 => ⟨h1.1, le_append h1.2 h2⟩
  | [], _ :: _, _, _, h, _ => by simp [Box.le] at h
  | _ :: _, [], _, _, h, _ => by simp [Box.le] at h

theorem nonempty_append {X Y : Box} (hx : X.Nonempty) (hy : Y.Nonempty) : (X ++ Y).Nonempty := by
  intro d hd
  rcases List.mem_append.mp hd with h | h
  · exact hx d h
  · exact hy d h

theorem nonempty_take {B : Box} (k : Nat) (h : B.Nonempty) : Box.Nonempty (B.take k) :=
  fun d hd => h d (List.mem_of_mem_take hd)

theorem nonempty_drop {B : Box} (k : Nat) (h : B.Nonempty) : Box.Nonempty (B.drop k) :=
  fun d hd => h d (List.mem_of_mem_drop hd)

/-! ### lexicographic order on suffixes -/

theorem lexLe_nil (ys : List Int) : lexLe [] ys := by simp [lexLe]

theorem lexLe_drop_ge {xs ys : List Int} {i : Nat} (h : xs.length ≤ i) : lexLe (xs.drop i) (ys.drop i) := by
  rw [List.drop_eq_nil_of_le h]; exact lexLe_nil _

theorem lexLe_drop_iff {xs ys : List Int} {i : Nat} (hx : i < xs.length) (hy : i < ys.length) :
    lexLe (xs.drop i) (ys.drop i) ↔
      getI xs i < getI ys i ∨ (getI xs i = getI ys i ∧ lexLe (xs.drop (i + 1)) (ys.drop (i + 1))) := by
  rw [List.drop_eq_getElem_cons hx, List.drop_eq_getElem_cons hy]
  simp [lexLe, getI, List.getD, List.getElem?_eq_getElem hx, List.getElem?_eq_getElem hy]

/-! ### the final pruning `x_q ≤ y_q` / `x_q < y_q` -/

def kOf (s : Bool) : Int := if s then 1 else 0

/-- `r` is a sound answer for the set of pairs of the box `(x, y)` that satisfy `P` -/
structure SoundRes (P : List Int → List Int → Prop) (x y : Box) (r : Status × Box × Box) : Prop where
  ok : r.1 ≠ .inc → Box.le r.2.1 x ∧ Box.le r.2.2 y ∧ Box.Nonempty r.2.1 ∧ Box.Nonempty r.2.2 ∧
        ∀ xs ys, inBox xs x → inBox ys y → P xs ys → inBox xs r.2.1 ∧ inBox ys r.2.2
  inc : r.1 = .inc → ∀ xs ys, inBox xs x → inBox ys y → ¬ P xs ys

theorem SoundRes.same {P : List Int → List Int → Prop} {x y : Box} {st : Status} (hst : st ≠ .inc)
    (hx : x.Nonempty) (hy : y.Nonempty) : SoundRes P x y (st, x, y) :=
  ⟨fun _ => ⟨Box.le_refl _, Box.le_refl _, hx, hy, fun _ _ h1 h2 _ => ⟨h1, h2⟩⟩, fun h => absurd h hst⟩

theorem SoundRes.trans {P Q : List Int → List Int → Prop} {x y x' y' : Box} {r : Status × Box × Box}
    (h : SoundRes P x' y' r) (hx : Box.le x' x) (hy : Box.le y' y)
    (hk : ∀ xs ys, inBox xs x → inBox ys y → Q xs ys → inBox xs x' ∧ inBox ys y' ∧ P xs ys) :
    SoundRes Q x y r := by
  refine ⟨fun hst => ?_, fun hst xs ys h1 h2 hq => ?_⟩
  · obtain ⟨a, b, c, d, e⟩ := h.ok hst
    refine ⟨Box.le_trans a hx, Box.le_trans b hy, c, d, fun xs ys h1 h2 hq => ?_⟩
    obtain ⟨h1', h2', hp⟩ := hk xs ys h1 h2 hq
    exact e xs ys h1' h2' hp
  · obtain ⟨h1', h2', hp⟩ := hk xs ys h1 h2 hq
    exact h.inc hst xs ys h1' h2' hp

theorem lexEnforce_sound (x y : Box) (q : Nat) (s : Bool) (hqx : q < x.length) (hqy : q < y.length)
    (hx : x.Nonempty) (hy : y.Nonempty) :
    SoundRes (fun xs ys => getI xs q + kOf s ≤ getI ys q) x y (lexEnforce x y q s) := by
  have hxq := Box.nonempty_get hx q hqx
  have hyq := Box.nonempty_get hy q hqy
  cases s <;> simp only [lexEnforce, kOf, ↓reduceIte, Bool.false_eq_true] <;>
  · split
    · refine ⟨fun h => by simp at h, fun _ xs ys h1 h2 hp => ?_⟩
      have := inBox_get q h1 hqx; have := inBox_get q h2 hqy
      simp at *; omega
    · split
      · refine ⟨fun h => by simp at h, fun _ xs ys h1 h2 hp => ?_⟩
        have := inBox_get q h1 hqx; have := inBox_get q h2 hqy
        simp at *; omega
      · rename_i h1 h2
        refine ⟨fun _ => ⟨le_set ?_ ?_, le_set ?_ ?_, nonempty_set hx ?_, nonempty_set hy ?_, fun xs ys h1 h2 hp => ?_⟩, ?_⟩
        · simp
        · simp; omega
        · simp; omega
        · simp
        · simp at h1 ⊢; omega
        · simp at h2 ⊢; omega
        · have := inBox_get q h1 hqx; have := inBox_get q h2 hqy
          refine ⟨inBox_set h1 ?_, inBox_set h2 ?_⟩
          · simp at *; omega
          · simp at *; omega
        · intro h; simp at h; split at h <;> cases h

theorem lexEnforce_ent (x y : Box) (q : Nat) (s : Bool) (hqx : q < x.length) (hqy : q < y.length)
    (h : (lexEnforce x y q s).1 = .ent) (xs ys : List Int)
    (h1 : inBox xs (lexEnforce x y q s).2.1) (h2 : inBox ys (lexEnforce x y q s).2.2) :
    getI xs q + kOf s ≤ getI ys q := by
  revert h h1 h2
  cases s <;> simp only [lexEnforce, kOf, ↓reduceIte, Bool.false_eq_true] <;>
  · split
    · intro h; simp at h
    · split
      · intro h; simp at h
      · intro h h1 h2
        have a := inBox_get q h1 (by simpa using hqx)
        have b := inBox_get q h2 (by simpa using hqy)
        simp only [getDom_set, hqx, hqy, and_self, ↓reduceIte] at a b
        simp at h
        omega

/-- a `consistent` answer of the final pruning leaves `x_q`, `y_q` not both instantiated -/
theorem lexEnforce_cons (x y : Box) (q : Nat) (s : Bool) (hqx : q < x.length) (hqy : q < y.length)
    (h : (lexEnforce x y q s).1 = .cons) :
    ¬ ((getDom (lexEnforce x y q s).2.1 q).1 = (getDom (lexEnforce x y q s).2.1 q).2 ∧
       (getDom (lexEnforce x y q s).2.2 q).1 = (getDom (lexEnforce x y q s).2.2 q).2) := by
  revert h
  cases s <;> simp only [lexEnforce, ↓reduceIte, Bool.false_eq_true] <;>
  · split
    · intro h; simp at h
    · split
      · intro h; simp at h
      · intro h
        simp only [getDom_set, hqx, hqy, and_self, ↓reduceIte]
        simp at h
        omega

/-! ### states 2, 3, 4: what the suffix after `q` tells -/

/-- every pair of the box is `≤_lex` from position `i` on -/
def AllLe (x y : Box) (i : Nat) : Prop :=
  ∀ xs ys, inBox xs x → inBox ys y → lexLe (xs.drop i) (ys.drop i)
/-- no pair of the box is `≤_lex` from position `i` on -/
def NoneLe (x y : Box) (i : Nat) : Prop :=
  ∀ xs ys, inBox xs x → inBox ys y → ¬ lexLe (xs.drop i) (ys.drop i)
/-- some position is not instantiated on both sides -/
def NG (n : Nat) (x y : Box) : Prop :=
  ∃ j, j < n ∧ ¬ ((getDom x j).1 = (getDom x j).2 ∧ (getDom y j).1 = (getDom y j).2)

theorem allLe_end {x y : Box} {n : Nat} (hx : x.length = n) : AllLe x y n :=
  fun _ _ h1 _ => lexLe_drop_ge (by rw [inBox_length h1, hx]; exact Nat.le_refl _)

theorem allLe_lt {x y : Box} {n i : Nat} (hx : x.length = n) (hy : y.length = n) (hi : i < n)
    (h : (getDom x i).2 < (getDom y i).1) : AllLe x y i := by
  intro xs ys h1 h2
  have a := inBox_get i h1 (by omega); have b := inBox_get i h2 (by omega)
  rw [lexLe_drop_iff (by rw [inBox_length h1]; omega) (by rw [inBox_length h2]; omega)]
  left; omega

theorem allLe_step {x y : Box} {n i : Nat} (hx : x.length = n) (hy : y.length = n) (hi : i < n)
    (h : (getDom x i).2 ≤ (getDom y i).1) (hn : AllLe x y (i + 1)) : AllLe x y i := by
  intro xs ys h1 h2
  have a := inBox_get i h1 (by omega); have b := inBox_get i h2 (by omega)
  rw [lexLe_drop_iff (by rw [inBox_length h1]; omega) (by rw [inBox_length h2]; omega)]
  have := hn xs ys h1 h2
  by_cases e : getI xs i = getI ys i
  · right; exact ⟨e, this⟩
  · left; omega

theorem noneLe_gt {x y : Box} {n i : Nat} (hx : x.length = n) (hy : y.length = n) (hi : i < n)
    (h : (getDom x i).1 > (getDom y i).2) : NoneLe x y i := by
  intro xs ys h1 h2
  have a := inBox_get i h1 (by omega); have b := inBox_get i h2 (by omega)
  rw [lexLe_drop_iff (by rw [inBox_length h1]; omega) (by rw [inBox_length h2]; omega)]
  omega

theorem noneLe_step {x y : Box} {n i : Nat} (hx : x.length = n) (hy : y.length = n) (hi : i < n)
    (h : (getDom x i).1 ≥ (getDom y i).2) (hn : NoneLe x y (i + 1)) : NoneLe x y i := by
  intro xs ys h1 h2
  have a := inBox_get i h1 (by omega); have b := inBox_get i h2 (by omega)
  rw [lexLe_drop_iff (by rw [inBox_length h1]; omega) (by rw [inBox_length h2]; omega)]
  have := hn xs ys h1 h2
  intro h; rcases h with h | ⟨_, h⟩
  · omega
  · exact this h

theorem state4_spec (x y : Box) (n q : Nat) (hx : x.length = n) (hy : y.length = n) :
    ∀ fuel i, lexState4 x y n q fuel i = (.cons, x, y) ∨
      (lexState4 x y n q fuel i = lexEnforce x y q true ∧ NoneLe x y i)
  | 0, _ => Or.inl rfl
  | fuel + 1, i => by
    simp only [lexState4]
    split
    · rename_i h
      rcases state4_spec x y n q hx hy fuel (i + 1) with h' | ⟨h', hn⟩
      · exact Or.inl h'
      · exact Or.inr ⟨h', noneLe_step hx hy h.1 (by omega) hn⟩
    · split
      · rename_i h; exact Or.inr ⟨rfl, noneLe_gt hx hy h.1 h.2⟩
      · exact Or.inl rfl

theorem state3_spec (x y : Box) (n q : Nat) (hx : x.length = n) (hy : y.length = n) :
    ∀ fuel i, i ≤ n → lexState3 x y n q fuel i = (.cons, x, y) ∨
      (lexState3 x y n q fuel i = lexEnforce x y q false ∧ AllLe x y i)
  | 0, _, _ => Or.inl rfl
  | fuel + 1, i, hi => by
    simp only [lexState3]
    split
    · rename_i h
      rcases state3_spec x y n q hx hy fuel (i + 1) (by omega) with h' | ⟨h', hn⟩
      · exact Or.inl h'
      · exact Or.inr ⟨h', allLe_step hx hy h.1 (by omega) hn⟩
    · split
      · rename_i h1 h
        refine Or.inr ⟨rfl, ?_⟩
        rcases h with h | h
        · subst h; exact allLe_end hx
        · by_cases e : i = n
          · subst e; exact allLe_end hx
          · exact allLe_lt hx hy (by omega) h
      · exact Or.inl rfl

theorem state2_spec (x y : Box) (n q : Nat) (hx : x.length = n) (hy : y.length = n) :
    ∀ fuel i, i ≤ n → n + 1 ≤ fuel + i →
      (lexState2 x y n q fuel i = (.cons, x, y) ∧ NG n x y) ∨
      (lexState2 x y n q fuel i = lexEnforce x y q false ∧ AllLe x y i) ∨
      (lexState2 x y n q fuel i = lexEnforce x y q true ∧ NoneLe x y i)
  | 0, _, _, _ => by omega
  | fuel + 1, i, hi, hf => by
    simp only [lexState2]
    split
    · rename_i h
      rcases state2_spec x y n q hx hy fuel (i + 1) (by omega) (by omega) with h' | ⟨h', hn⟩ | ⟨h', hn⟩
      · exact Or.inl h'
      · exact Or.inr (Or.inl ⟨h', allLe_step hx hy h.1 (by omega) hn⟩)
      · exact Or.inr (Or.inr ⟨h', noneLe_step hx hy h.1 (by omega) hn⟩)
    · rename_i h0
      split
      · rename_i h
        refine Or.inr (Or.inl ⟨rfl, ?_⟩)
        rcases h with h | h
        · subst h; exact allLe_end hx
        · by_cases e : i = n
          · subst e; exact allLe_end hx
          · exact allLe_lt hx hy (by omega) h
      · rename_i h1
        have hin : i < n := by omega
        split
        · rename_i h; exact Or.inr (Or.inr ⟨rfl, noneLe_gt hx hy hin h⟩)
        · rename_i h2
          have hng : NG n x y := ⟨i, hin, by omega⟩
          split
          · rename_i h
            rcases state3_spec x y n q hx hy (n + 1) (i + 1) (by omega) with h' | ⟨h', hn⟩
            · exact Or.inl ⟨h', hng⟩
            · exact Or.inr (Or.inl ⟨h', allLe_step hx hy hin (by omega) hn⟩)
          · split
            · rename_i h
              rcases state4_spec x y n q hx hy (n + 1) (i + 1) with h' | ⟨h', hn⟩
              · exact Or.inl ⟨h', hng⟩
              · exact Or.inr (Or.inr ⟨h', noneLe_step hx hy hin (by omega) hn⟩)
            · exact Or.inl ⟨rfl, hng⟩

/-! ### state 1 -/

/-- the pruning `x_i ≤ y_i` done by state 1 (both when it continues and when it hands over) -/
theorem tighten_spec {x y : Box} {n i : Nat} (hx : x.length = n) (hy : y.length = n) (hi : i < n)
    (hnx : x.Nonempty) (hny : y.Nonempty)
    (c1 : ¬ min (getDom x i).2 (getDom y i).2 < (getDom x i).1)
    (c2 : ¬ (getDom y i).2 < max (getDom y i).1 (getDom x i).1) :
    let x' := x.set i ((getDom x i).1, min (getDom x i).2 (getDom y i).2)
    let y' := y.set i (max (getDom y i).1 (getDom x i).1, (getDom y i).2)
    Box.le x' x ∧ Box.le y' y ∧ Box.Nonempty x' ∧ Box.Nonempty y' ∧
    (∀ xs ys, inBox xs x → inBox ys y → getI xs i ≤ getI ys i → inBox xs x' ∧ inBox ys y') := by
  refine ⟨le_set ?_ ?_, le_set ?_ ?_, nonempty_set hnx ?_, nonempty_set hny ?_, fun xs ys h1 h2 hp => ?_⟩
  · simp
  · simp; omega
  · simp; omega
  · simp
  · simp at c1 ⊢; omega
  · simp at c2 ⊢; omega
  · have := inBox_get i h1 (by omega); have := inBox_get i h2 (by omega)
    refine ⟨inBox_set h1 ?_, inBox_set h2 ?_⟩
    · simp; omega
    · simp; omega

theorem not_lexLe_of_gt {x y : Box} {n i : Nat} (hx : x.length = n) (hy : y.length = n) (hi : i < n)
    (h : (getDom y i).2 < (getDom x i).1) : NoneLe x y i := noneLe_gt hx hy hi h

/-- state 1 hands over to state 2 with `q = i`, after having enforced `x_i ≤ y_i` -/
theorem state1_handover {x y x' y' : Box} {n i : Nat} {r : Status × Box × Box}
    (hx : x.length = n) (hy : y.length = n) (hin : i < n)
    (lx : Box.le x' x) (ly : Box.le y' y) (nx : x'.Nonempty) (ny : y'.Nonempty)
    (keep : ∀ xs ys, inBox xs x → inBox ys y → getI xs i ≤ getI ys i → inBox xs x' ∧ inBox ys y')
    (hr : lexState2 x' y' n i (n + 1) (i + 1) = r) :
    SoundRes (fun xs ys => lexLe (xs.drop i) (ys.drop i)) x y r ∧
    (r.1 = .ent → ∀ xs ys, inBox xs r.2.1 → inBox ys r.2.2 → lexLe (xs.drop i) (ys.drop i)) ∧
    (r.1 = .cons → NG n r.2.1 r.2.2) := by
  have hx' : x'.length = n := by rw [Box.le_length lx, hx]
  have hy' : y'.length = n := by rw [Box.le_length ly, hy]
  -- what `lexLe` from `i` means on the box
  have split_i : ∀ xs ys, inBox xs x → inBox ys y →
      (lexLe (xs.drop i) (ys.drop i) ↔
        getI xs i < getI ys i ∨ (getI xs i = getI ys i ∧ lexLe (xs.drop (i + 1)) (ys.drop (i + 1)))) :=
    fun xs ys h1 h2 => lexLe_drop_iff (by rw [inBox_length h1]; omega) (by rw [inBox_length h2]; omega)
  rcases state2_spec x' y' n i hx' hy' (n + 1) (i + 1) (by omega) (by omega) with ⟨e, hng⟩ | ⟨e, hal⟩ | ⟨e, hno⟩
  · -- nothing more is known
    rw [hr] at e; subst e
    refine ⟨(SoundRes.same (P := fun _ _ => True) (by simp) nx ny).trans lx ly (fun xs ys h1 h2 hp => ?_),
      fun h => by simp at h, fun _ => hng⟩
    have := (split_i xs ys h1 h2).mp hp
    obtain ⟨k1, k2⟩ := keep xs ys h1 h2 (by omega)
    exact ⟨k1, k2, trivial⟩
  · -- suffix certainly ≤ : x_i ≤ y_i
    rw [hr] at e; subst e
    have hs := lexEnforce_sound x' y' i false (by omega) (by omega) nx ny
    refine ⟨hs.trans lx ly (fun xs ys h1 h2 hp => ?_), fun hst xs ys h1 h2 => ?_,
      fun hst => ⟨i, hin, lexEnforce_cons x' y' i false (by omega) (by omega) hst⟩⟩
    · have := (split_i xs ys h1 h2).mp hp
      obtain ⟨k1, k2⟩ := keep xs ys h1 h2 (by omega)
      exact ⟨k1, k2, by simp [kOf]; omega⟩
    · have he := lexEnforce_ent x' y' i false (by omega) (by omega) hst xs ys h1 h2
      obtain ⟨l1, l2, _⟩ := hs.ok (by rw [hst]; simp)
      have h1' := inBox_of_le h1 l1; have h2' := inBox_of_le h2 l2
      rw [split_i xs ys (inBox_of_le h1' lx) (inBox_of_le h2' ly)]
      have := hal xs ys h1' h2'
      simp [kOf] at he
      by_cases e : getI xs i = getI ys i
      · exact Or.inr ⟨e, this⟩
      · left; omega
  · -- suffix certainly > : x_i < y_i
    rw [hr] at e; subst e
    have hs := lexEnforce_sound x' y' i true (by omega) (by omega) nx ny
    refine ⟨hs.trans lx ly (fun xs ys h1 h2 hp => ?_), fun hst xs ys h1 h2 => ?_,
      fun hst => ⟨i, hin, lexEnforce_cons x' y' i true (by omega) (by omega) hst⟩⟩
    · have hp' := (split_i xs ys h1 h2).mp hp
      have hlt : getI xs i < getI ys i := by
        rcases hp' with hp' | ⟨e, hp'⟩
        · exact hp'
        · obtain ⟨k1, k2⟩ := keep xs ys h1 h2 (by omega)
          exact absurd hp' (hno xs ys k1 k2)
      obtain ⟨k1, k2⟩ := keep xs ys h1 h2 (by omega)
      exact ⟨k1, k2, by simp [kOf]; omega⟩
    · have he := lexEnforce_ent x' y' i true (by omega) (by omega) hst xs ys h1 h2
      obtain ⟨l1, l2, _⟩ := hs.ok (by rw [hst]; simp)
      have h1' := inBox_of_le h1 l1; have h2' := inBox_of_le h2 l2
      rw [split_i xs ys (inBox_of_le h1' lx) (inBox_of_le h2' ly)]
      simp [kOf] at he
      left; omega

theorem state1_spec (n : Nat) : ∀ (fuel i : Nat) (x y : Box) (r : Status × Box × Box),
    x.length = n → y.length = n → x.Nonempty → y.Nonempty → i ≤ n → lexState1 n fuel i x y = r →
    SoundRes (fun xs ys => lexLe (xs.drop i) (ys.drop i)) x y r ∧
    (r.1 = .ent → ∀ xs ys, inBox xs r.2.1 → inBox ys r.2.2 → lexLe (xs.drop i) (ys.drop i)) ∧
    (n + 1 ≤ fuel + i → r.1 = .cons → NG n r.2.1 r.2.2)
  | 0, i, x, y, r, hx, hy, hnx, hny, hi, hr => by
    simp only [lexState1] at hr; subst hr
    exact ⟨SoundRes.same (by simp) hnx hny, fun h => by simp at h, fun h => by omega⟩
  | fuel + 1, i, x, y, r, hx, hy, hnx, hny, hi, hr => by
    simp only [lexState1] at hr
    have hxi := fun (h : i < n) => Box.nonempty_get hnx i (by omega)
    have hyi := fun (h : i < n) => Box.nonempty_get hny i (by omega)
    split at hr
    · -- x_i.min = y_i.max : x_i = y_i is forced
      rename_i h
      have hxi := hxi h.1; have hyi := hyi h.1
      split at hr
      · rename_i c1; subst hr
        refine ⟨⟨fun h => by simp at h, fun _ => not_lexLe_of_gt hx hy h.1 (by omega)⟩,
          fun h => by simp at h, fun _ h => by simp at h⟩
      · rename_i c1
        split at hr
        · rename_i c2; subst hr
          refine ⟨⟨fun h => by simp at h, fun _ => not_lexLe_of_gt hx hy h.1 (by omega)⟩,
            fun h => by simp at h, fun _ h => by simp at h⟩
        · rename_i c2
          obtain ⟨lx, ly, nx, ny, keep⟩ := tighten_spec hx hy h.1 hnx hny c1 c2
          obtain ⟨ih1, ih2, ih3⟩ := state1_spec n fuel (i + 1) _ _ r (by simpa using hx) (by simpa using hy)
            nx ny (by omega) hr
          refine ⟨ih1.trans lx ly (fun xs ys h1 h2 hp => ?_), fun hst xs ys h1 h2 => ?_, fun hf => ih3 (by omega)⟩
          · have a := inBox_get i h1 (by omega); have b := inBox_get i h2 (by omega)
            rw [lexLe_drop_iff (by rw [inBox_length h1]; omega) (by rw [inBox_length h2]; omega)] at hp
            have hp' : getI xs i = getI ys i ∧ lexLe (xs.drop (i + 1)) (ys.drop (i + 1)) := by
              rcases hp with hp | hp
              · omega
              · exact hp
            obtain ⟨k1, k2⟩ := keep xs ys h1 h2 (by omega)
            exact ⟨k1, k2, hp'.2⟩
          · obtain ⟨l1, l2, _⟩ := ih1.ok (by rw [hst]; simp)
            have h1' := inBox_of_le h1 l1; have h2' := inBox_of_le h2 l2
            have a := inBox_get i h1' (by simpa using (by omega : i < x.length))
            have b := inBox_get i h2' (by simpa using (by omega : i < y.length))
            simp only [getDom_set, (by omega : i < x.length), (by omega : i < y.length), and_self, ↓reduceIte] at a b
            rw [lexLe_drop_iff (by rw [inBox_length h1, Box.le_length l1]; simp; omega)
              (by rw [inBox_length h2, Box.le_length l2]; simp; omega)]
            right
            exact ⟨by omega, ih2 hst xs ys h1 h2⟩
    · rename_i h0
      split at hr
      · -- entailed
        rename_i h; subst hr
        refine ⟨SoundRes.same (by simp) hnx hny, fun _ => ?_, fun _ h => by simp at h⟩
        rcases h with h | h
        · subst h; exact allLe_end hx
        · by_cases e : i = n
          · subst e; exact allLe_end hx
          · exact allLe_lt hx hy (by omega) h
      · rename_i h1
        have hin : i < n := by omega
        have hxi := hxi hin; have hyi := hyi hin
        split at hr
        · rename_i c1; subst hr
          refine ⟨⟨fun h => by simp at h, fun _ => not_lexLe_of_gt hx hy hin (by omega)⟩,
            fun h => by simp at h, fun _ h => by simp at h⟩
        · rename_i c1
          split at hr
          · rename_i c2; subst hr
            refine ⟨⟨fun h => by simp at h, fun _ => not_lexLe_of_gt hx hy hin (by omega)⟩,
              fun h => by simp at h, fun _ h => by simp at h⟩
          · rename_i c2
            obtain ⟨lx, ly, nx, ny, keep⟩ := tighten_spec hx hy hin hnx hny c1 c2
            obtain ⟨a, b, c⟩ := state1_handover hx hy hin lx ly nx ny keep hr
            exact ⟨a, b, fun _ => c⟩

end Lex

/-! ### the local contracts -/

open Lex

theorem runAlg_lexLeq (ps : List Int) (B : Box) : runAlg .lexLeq ps B = .ok (lexLeq ps B) := rfl

namespace Lex

/-- the even arities: `x` and `y` have the same length (an odd arity has one more, ignored, variable) -/
def EvenC (B : Box) : Prop := 2 ≤ B.length ∧ B.length % 2 = 0

/-- everything known about one call, in terms of the two halves -/
theorem lexLeq_spec (B : Box) (hc : EvenC B) (hne : B.Nonempty) :
    let n := B.length / 2
    let r := lexState1 n (n + 1) 0 (B.take n) (B.drop n)
    (B.take n).length = n ∧ (B.drop n).length = n ∧
    SoundRes (fun xs ys => lexLe xs ys) (B.take n) (B.drop n) r ∧
    (r.1 = .ent → ∀ xs ys, inBox xs r.2.1 → inBox ys r.2.2 → lexLe xs ys) ∧
    (r.1 = .cons → NG n r.2.1 r.2.2) := by
  intro n r
  simp only [EvenC] at hc
  have hx : (B.take n).length = n := by simp [n]; omega
  have hy : (B.drop n).length = n := by simp [n]; omega
  obtain ⟨a, b, c⟩ := state1_spec n (n + 1) 0 (B.take n) (B.drop n) r hx hy
    (nonempty_take n hne) (nonempty_drop n hne) (by omega) rfl
  refine ⟨hx, hy, ?_, ?_, fun h => c (by omega) h⟩
  · simpa using a
  · simpa using b

theorem rel_lexLeq_iff {ps : List Int} {t : List Int} {B : Box} (h : inBox t B) :
    rel .lexLeq ps t ↔ lexLe (t.take (B.length / 2)) (t.drop (B.length / 2)) := by
  simp only [rel, inBox_length h]

theorem getDom_pointBox_ground (t : List Int) (k : Nat) :
    (getDom (pointBox t) k).1 = (getDom (pointBox t) k).2 := by
  unfold getDom pointBox
  by_cases h : k < t.length
  · simp [List.getD, h]
  · simp [List.getD, h]

theorem getDom_append_left {X Y : Box} {j : Nat} (h : j < X.length) : getDom (X ++ Y) j = getDom X j := by
  unfold getDom; simp [List.getD, List.getElem?_append_left h]

theorem getDom_append_right {X Y : Box} (j : Nat) : getDom (X ++ Y) (X.length + j) = getDom Y j := by
  unfold getDom; simp [List.getD, List.getElem?_append_right]

end Lex

namespace Lex

theorem sound_even (ps : List Int) (B : Box) (st : Status) (B' : Box) (hc : EvenC B) (hne : B.Nonempty)
    (hrun : runAlg .lexLeq ps B = .ok (st, B')) :
    (st ≠ .inc → Box.le B' B ∧ B'.Nonempty ∧ ∀ t, inBox t B → rel .lexLeq ps t → inBox t B') ∧
    (st = .inc → ∀ t, inBox t B → ¬ rel .lexLeq ps t) := by
  rw [runAlg_lexLeq] at hrun
  injection hrun with hrun
  obtain ⟨hx, hy, hs, _, _⟩ := lexLeq_spec B hc hne
  simp only [lexLeq] at hrun
  injection hrun with h1 h2
  subst h1
  refine ⟨fun hst => ?_, fun hst t ht hrel => ?_⟩
  · obtain ⟨l1, l2, n1, n2, keep⟩ := hs.ok hst
    subst h2
    refine ⟨?_, nonempty_append n1 n2, fun t ht hrel => ?_⟩
    · have := le_append l1 l2
      rwa [List.take_append_drop] at this
    · obtain ⟨t1, t2⟩ := inBox_take_drop (B.length / 2) ht
      obtain ⟨k1, k2⟩ := keep _ _ t1 t2 ((rel_lexLeq_iff ht).mp hrel)
      have := inBox_append k1 k2
      rwa [List.take_append_drop] at this
  · obtain ⟨t1, t2⟩ := inBox_take_drop (B.length / 2) ht
    exact hs.inc hst _ _ t1 t2 ((rel_lexLeq_iff ht).mp hrel)

theorem entail_even (ps : List Int) (B B' : Box) (hc : EvenC B) (hne : B.Nonempty)
    (hrun : runAlg .lexLeq ps B = .ok (.ent, B')) : ∀ t, inBox t B' → rel .lexLeq ps t := by
  intro t ht
  have hsound := (sound_even ps B .ent B' hc hne hrun).1 (by simp)
  rw [runAlg_lexLeq] at hrun
  injection hrun with hrun
  obtain ⟨hx, hy, hs, he, _⟩ := lexLeq_spec B hc hne
  simp only [lexLeq] at hrun
  injection hrun with h1 h2
  obtain ⟨l1, l2, _⟩ := hs.ok (by rw [h1]; simp)
  have hlx := Box.le_length l1; rw [hx] at hlx
  have htB := inBox_of_le ht hsound.1
  rw [rel_lexLeq_iff htB]
  subst h2
  obtain ⟨t1, t2⟩ := inBox_take_drop (B.length / 2) ht
  rw [List.take_left' hlx] at t1
  rw [List.drop_left' hlx] at t2
  exact he h1 _ _ t1 t2

theorem ground_even (ps : List Int) (B : Box) (st : Status) (B' : Box) (t : List Int) (hc : EvenC B)
    (hne : B.Nonempty) (hrun : runAlg .lexLeq ps B = .ok (st, B')) (hst : st ≠ .inc)
    (hB' : B' = pointBox t) : rel .lexLeq ps t := by
  cases st with
  | inc => exact absurd rfl hst
  | ent => exact entail_even ps B B' hc hne hrun t (hB' ▸ inBox_pointBox_self t)
  | cons =>
    exfalso
    rw [runAlg_lexLeq] at hrun
    injection hrun with hrun
    obtain ⟨hx, hy, hs, _, hng⟩ := lexLeq_spec B hc hne
    simp only [lexLeq] at hrun
    injection hrun with h1 h2
    obtain ⟨l1, l2, _⟩ := hs.ok (by rw [h1]; simp)
    have hlx := Box.le_length l1; rw [hx] at hlx
    obtain ⟨j, hj, hnot⟩ := hng h1
    apply hnot
    rw [← getDom_append_left (Y := (lexState1 (B.length / 2) (B.length / 2 + 1) 0 (B.take (B.length / 2)) (B.drop (B.length / 2))).2.2) (by omega : j < _)]
    have := getDom_append_right (X := (lexState1 (B.length / 2) (B.length / 2 + 1) 0 (B.take (B.length / 2)) (B.drop (B.length / 2))).2.1)
      (Y := (lexState1 (B.length / 2) (B.length / 2 + 1) 0 (B.take (B.length / 2)) (B.drop (B.length / 2))).2.2) j
    rw [← this, h2, hB']
    exact ⟨getDom_pointBox_ground _ _, getDom_pointBox_ground _ _⟩

end Lex

/-- a mask that watches MIN and MAX everywhere: a quiet sub-box is the input itself -/
theorem Lex.trigOk_of_minMax (a : Alg) (hs : Sound a) (hm : ∀ ps n k, maskAlg a ps n k = Ev.minMax) : TrigOk a := by
  intro ps B st B' B'' hc hne hrun hst hle _ hq
  have hB'B := ((hs ps B st B' hc hne hrun).1 hst).1
  have hlen : B''.length = B.length := by rw [Box.le_length hle, Box.le_length hB'B]
  have e : B'' = B := Box.ext_get hlen (fun k hk => by
    have := hq k (by omega)
    rw [hm] at this
    exact eq_of_quiet_minMax this)
  subst e
  have e' : B' = B'' := Box.le_antisymm hB'B hle
  subst e'
  exact ⟨st, hrun, hst⟩

namespace Lex

/-! ### bounds consistency (`Exact`): tuples given by functions -/

def mk (g : Nat → Int) (n : Nat) : List Int := (List.range n).map g

theorem length_mk (g : Nat → Int) (n : Nat) : (mk g n).length = n := by simp [mk]

theorem getI_mk (g : Nat → Int) {n k : Nat} (hk : k < n) : getI (mk g n) k = g k := by
  simp [mk, getI, List.getD, hk]

/-- `g` picks a value in every domain of `X` -/
def InB (g : Nat → Int) (X : Box) : Prop := ∀ k, k < X.length → (getDom X k).1 ≤ g k ∧ g k ≤ (getDom X k).2

theorem inBox_mk {g : Nat → Int} {X : Box} {n : Nat} (hX : X.length = n) (h : InB g X) : inBox (mk g n) X := by
  apply inBox_of_get (by rw [length_mk, hX])
  intro k hk
  rw [getI_mk g (by omega)]
  exact h k hk

theorem InB.mono {g : Nat → Int} {X' X : Box} (h : InB g X') (hle : Box.le X' X) : InB g X := by
  intro k hk
  have := Box.le_get k hle hk
  have := h k (by rw [Box.le_length hle]; exact hk)
  omega

/-- `gx ≤_lex gy` on positions `i .. n-1` -/
def lexF (gx gy : Nat → Int) (n i : Nat) : Prop := lexLe ((mk gx n).drop i) ((mk gy n).drop i)

theorem lexF_end (gx gy : Nat → Int) (n : Nat) : lexF gx gy n n :=
  lexLe_drop_ge (by rw [length_mk]; exact Nat.le_refl _)

theorem lexF_step (gx gy : Nat → Int) {n i : Nat} (hi : i < n) :
    lexF gx gy n i ↔ gx i < gy i ∨ (gx i = gy i ∧ lexF gx gy n (i + 1)) := by
  unfold lexF
  rw [lexLe_drop_iff (by rw [length_mk]; exact hi) (by rw [length_mk]; exact hi), getI_mk gx hi, getI_mk gy hi]

theorem lexF_congr {gx gy gx' gy' : Nat → Int} {n : Nat} :
    ∀ (d i : Nat), i + d = n → (∀ k, i ≤ k → k < n → gx k = gx' k ∧ gy k = gy' k) →
      lexF gx gy n i → lexF gx' gy' n i
  | 0, i, hd, _, _ => by
    have : i = n := by omega
    subst this; exact lexF_end _ _ _
  | d + 1, i, hd, h, hl => by
    have hi : i < n := by omega
    rw [lexF_step _ _ hi] at hl ⊢
    obtain ⟨e1, e2⟩ := h i (Nat.le_refl _) hi
    rw [← e1, ← e2]
    rcases hl with hl | ⟨he, hl⟩
    · exact Or.inl hl
    · exact Or.inr ⟨he, lexF_congr d (i + 1) (by omega) (fun k hk hkn => h k (by omega) hkn) hl⟩

theorem lexF_of_allLe {x y : Box} {n i : Nat} (hx : x.length = n) (hy : y.length = n) (h : AllLe x y i)
    {gx gy : Nat → Int} (h1 : InB gx x) (h2 : InB gy y) : lexF gx gy n i :=
  h _ _ (inBox_mk hx h1) (inBox_mk hy h2)

/-- some pair of the box is `≤_lex` from position `i` on -/
def CanLe (x y : Box) (n i : Nat) : Prop := ∃ gx gy, InB gx x ∧ InB gy y ∧ lexF gx gy n i

/-- the lower bounds -/
def lo (X : Box) (k : Nat) : Int := (getDom X k).1

theorem inB_lo {X : Box} (h : X.Nonempty) : InB (lo X) X :=
  fun k hk => ⟨Int.le_refl _, Box.nonempty_get h k hk⟩

theorem canLe_end {x y : Box} {n : Nat} (hnx : x.Nonempty) (hny : y.Nonempty) : CanLe x y n n :=
  ⟨lo x, lo y, inB_lo hnx, inB_lo hny, lexF_end _ _ _⟩

/-- override one coordinate -/
def upd (g : Nat → Int) (i : Nat) (v : Int) : Nat → Int := fun k => if k = i then v else g k

theorem inB_upd {g : Nat → Int} {X : Box} {i : Nat} {v : Int} (h : InB g X)
    (hv : (getDom X i).1 ≤ v ∧ v ≤ (getDom X i).2) : InB (upd g i v) X := by
  intro k hk
  unfold upd
  split
  · rename_i e; rw [e]; exact hv
  · exact h k hk

theorem canLe_lt {x y : Box} {n i : Nat} (hx : x.length = n) (hy : y.length = n) (hi : i < n)
    (hnx : x.Nonempty) (hny : y.Nonempty) (h : (getDom x i).1 < (getDom y i).2) : CanLe x y n i := by
  have hxi := Box.nonempty_get hnx i (by omega)
  have hyi := Box.nonempty_get hny i (by omega)
  refine ⟨upd (lo x) i (getDom x i).1, upd (lo y) i (getDom y i).2,
    inB_upd (inB_lo hnx) ⟨Int.le_refl _, hxi⟩, inB_upd (inB_lo hny) ⟨hyi, Int.le_refl _⟩, ?_⟩
  rw [lexF_step _ _ hi]
  left; simp [upd]; exact h

theorem canLe_step {x y : Box} {n i : Nat} (hx : x.length = n) (hy : y.length = n) (hi : i < n)
    (hnx : x.Nonempty) (hny : y.Nonempty) (h : (getDom x i).1 = (getDom y i).2)
    (hc : CanLe x y n (i + 1)) : CanLe x y n i := by
  have hxi := Box.nonempty_get hnx i (by omega)
  have hyi := Box.nonempty_get hny i (by omega)
  obtain ⟨gx, gy, h1, h2, hl⟩ := hc
  refine ⟨upd gx i (getDom x i).1, upd gy i (getDom y i).2,
    inB_upd h1 ⟨Int.le_refl _, hxi⟩, inB_upd h2 ⟨hyi, Int.le_refl _⟩, ?_⟩
  rw [lexF_step _ _ hi]
  right
  refine ⟨by simp [upd]; exact h, ?_⟩
  exact lexF_congr (n - (i + 1)) (i + 1) (by omega) (fun k hk _ => by simp [upd]; omega) hl

theorem state4_specX (x y : Box) (n q : Nat) (hx : x.length = n) (hy : y.length = n)
    (hnx : x.Nonempty) (hny : y.Nonempty) :
    ∀ fuel i, i ≤ n → n + 1 ≤ fuel + i →
      (lexState4 x y n q fuel i = (.cons, x, y) ∧ CanLe x y n i) ∨
      (lexState4 x y n q fuel i = lexEnforce x y q true ∧ NoneLe x y i)
  | 0, _, _, _ => by omega
  | fuel + 1, i, hi, hf => by
    simp only [lexState4]
    split
    · rename_i h
      rcases state4_specX x y n q hx hy hnx hny fuel (i + 1) (by omega) (by omega) with ⟨h', hc⟩ | ⟨h', hn⟩
      · exact Or.inl ⟨h', canLe_step hx hy h.1 hnx hny h.2 hc⟩
      · exact Or.inr ⟨h', noneLe_step hx hy h.1 (by omega) hn⟩
    · rename_i h0
      split
      · rename_i h; exact Or.inr ⟨rfl, noneLe_gt hx hy h.1 h.2⟩
      · rename_i h1
        refine Or.inl ⟨rfl, ?_⟩
        by_cases e : i = n
        · subst e; exact canLe_end hnx hny
        · exact canLe_lt hx hy (by omega) hnx hny (by omega)

theorem state2_specX (x y : Box) (n q : Nat) (hx : x.length = n) (hy : y.length = n)
    (hnx : x.Nonempty) (hny : y.Nonempty) :
    ∀ fuel i, i ≤ n → n + 1 ≤ fuel + i →
      (lexState2 x y n q fuel i = (.cons, x, y) ∧ CanLe x y n i) ∨
      (lexState2 x y n q fuel i = lexEnforce x y q false ∧ AllLe x y i) ∨
      (lexState2 x y n q fuel i = lexEnforce x y q true ∧ NoneLe x y i)
  | 0, _, _, _ => by omega
  | fuel + 1, i, hi, hf => by
    simp only [lexState2]
    split
    · rename_i h
      rcases state2_specX x y n q hx hy hnx hny fuel (i + 1) (by omega) (by omega) with ⟨h', hc⟩ | ⟨h', hn⟩ | ⟨h', hn⟩
      · exact Or.inl ⟨h', canLe_step hx hy h.1 hnx hny (by omega) hc⟩
      · exact Or.inr (Or.inl ⟨h', allLe_step hx hy h.1 (by omega) hn⟩)
      · exact Or.inr (Or.inr ⟨h', noneLe_step hx hy h.1 (by omega) hn⟩)
    · rename_i h0
      split
      · rename_i h
        refine Or.inr (Or.inl ⟨rfl, ?_⟩)
        rcases h with h | h
        · subst h; exact allLe_end hx
        · by_cases e : i = n
          · subst e; exact allLe_end hx
          · exact allLe_lt hx hy (by omega) h
      · rename_i h1
        have hin : i < n := by omega
        have hxi := Box.nonempty_get hnx i (by omega)
        have hyi := Box.nonempty_get hny i (by omega)
        split
        · rename_i h; exact Or.inr (Or.inr ⟨rfl, noneLe_gt hx hy hin h⟩)
        · rename_i h2
          split
          · rename_i h
            rcases state3_spec x y n q hx hy (n + 1) (i + 1) (by omega) with h' | ⟨h', hn⟩
            · exact Or.inl ⟨h', canLe_lt hx hy hin hnx hny h.2⟩
            · exact Or.inr (Or.inl ⟨h', allLe_step hx hy hin (by omega) hn⟩)
          · rename_i h3
            split
            · rename_i h
              rcases state4_specX x y n q hx hy hnx hny (n + 1) (i + 1) (by omega) (by omega) with ⟨h', hc⟩ | ⟨h', hn⟩
              · exact Or.inl ⟨h', canLe_step hx hy hin hnx hny h.1 hc⟩
              · exact Or.inr (Or.inr ⟨h', noneLe_step hx hy hin (by omega) hn⟩)
            · rename_i h4
              exact Or.inl ⟨rfl, canLe_lt hx hy hin hnx hny (by omega)⟩

/-- every bound of the box `(X, Y)` is attained by a pair that is `≤_lex` from position `i` on -/
def Supp (X Y : Box) (n i : Nat) : Prop :=
  (∀ k, k < n → ∀ v, (v = (getDom X k).1 ∨ v = (getDom X k).2) →
    ∃ gx gy, InB gx X ∧ InB gy Y ∧ lexF gx gy n i ∧ gx k = v) ∧
  (∀ k, k < n → ∀ v, (v = (getDom Y k).1 ∨ v = (getDom Y k).2) →
    ∃ gx gy, InB gx X ∧ InB gy Y ∧ lexF gx gy n i ∧ gy k = v)

theorem bound_mem {X : Box} (hn : X.Nonempty) {k : Nat} (hk : k < X.length) {v : Int}
    (hv : v = (getDom X k).1 ∨ v = (getDom X k).2) : (getDom X k).1 ≤ v ∧ v ≤ (getDom X k).2 := by
  have := Box.nonempty_get hn k hk
  rcases hv with hv | hv <;> omega

theorem upd_same (g : Nat → Int) (i : Nat) (v : Int) : upd g i v i = v := by simp [upd]
theorem upd_other (g : Nat → Int) {i k : Nat} (v : Int) (h : k ≠ i) : upd g i v k = g k := by simp [upd, h]

theorem supp_of_allLe {X Y : Box} {n i : Nat} (hX : X.length = n) (hY : Y.length = n)
    (hnX : X.Nonempty) (hnY : Y.Nonempty) (h : AllLe X Y i) : Supp X Y n i := by
  constructor
  · intro k hk v hv
    have h1 := inB_upd (inB_lo hnX) (bound_mem hnX (by omega) hv)
    exact ⟨_, _, h1, inB_lo hnY, lexF_of_allLe hX hY h h1 (inB_lo hnY), upd_same _ _ _⟩
  · intro k hk v hv
    have h2 := inB_upd (inB_lo hnY) (bound_mem hnY (by omega) hv)
    exact ⟨_, _, inB_lo hnX, h2, lexF_of_allLe hX hY h (inB_lo hnX) h2, upd_same _ _ _⟩

/-- the situation after the final pruning at `q` -/
theorem supp_at {X Y : Box} {n q : Nat} (hX : X.length = n) (hY : Y.length = n)
    (hnX : X.Nonempty) (hnY : Y.Nonempty) (hq : q < n)
    (hlt : (getDom X q).1 < (getDom Y q).2)
    (hs1 : (getDom X q).2 ≤ (getDom Y q).2) (hs2 : (getDom X q).1 ≤ (getDom Y q).1)
    (hc : ((getDom X q).2 < (getDom Y q).2 ∧ (getDom X q).1 < (getDom Y q).1) ∨ CanLe X Y n (q + 1)) :
    Supp X Y n q := by
  have hxq := Box.nonempty_get hnX q (by omega)
  have hyq := Box.nonempty_get hnY q (by omega)
  -- strict at `q`
  have strict : ∀ gx gy : Nat → Int, gx q < gy q → lexF gx gy n q :=
    fun gx gy h => (lexF_step gx gy hq).mpr (Or.inl h)
  -- equal at `q`, with a witness for the suffix
  have equal : ∀ v, (getDom X q).1 ≤ v ∧ v ≤ (getDom X q).2 → (getDom Y q).1 ≤ v ∧ v ≤ (getDom Y q).2 →
      CanLe X Y n (q + 1) → ∃ gx gy, InB gx X ∧ InB gy Y ∧ lexF gx gy n q ∧ gx q = v ∧ gy q = v := by
    intro v h1 h2 ⟨gx, gy, g1, g2, gl⟩
    refine ⟨upd gx q v, upd gy q v, inB_upd g1 h1, inB_upd g2 h2, ?_, upd_same _ _ _, upd_same _ _ _⟩
    rw [lexF_step _ _ hq]
    right
    refine ⟨by rw [upd_same, upd_same], ?_⟩
    exact lexF_congr (n - (q + 1)) (q + 1) (by omega)
      (fun k hk _ => by rw [upd_other _ _ (by omega), upd_other _ _ (by omega)]; exact ⟨rfl, rfl⟩) gl
  have hyd : InB (upd (lo Y) q (getDom Y q).2) Y := inB_upd (inB_lo hnY) ⟨hyq, Int.le_refl _⟩
  constructor
  · intro k hk v hv
    have hvm := bound_mem hnX (by omega : k < X.length) hv
    by_cases hkq : k = q
    · subst hkq
      by_cases hvd : v < (getDom Y k).2
      · refine ⟨upd (lo X) k v, _, inB_upd (inB_lo hnX) hvm, hyd, strict _ _ ?_, upd_same _ _ _⟩
        rw [upd_same, upd_same]; exact hvd
      · have hcl : CanLe X Y n (k + 1) := by
          rcases hc with hc | hc
          · exfalso; rcases hv with hv | hv <;> omega
          · exact hc
        obtain ⟨gx, gy, g1, g2, gl, e1, _⟩ := equal v hvm (by omega) hcl
        exact ⟨gx, gy, g1, g2, gl, e1⟩
    · refine ⟨upd (lo X) k v, _, inB_upd (inB_lo hnX) hvm, hyd, strict _ _ ?_, upd_same _ _ _⟩
      rw [upd_other _ _ (fun h => hkq h.symm), upd_same]; exact hlt
  · intro k hk v hv
    have hvm := bound_mem hnY (by omega : k < Y.length) hv
    by_cases hkq : k = q
    · subst hkq
      by_cases hvd : (getDom X k).1 < v
      · refine ⟨lo X, upd (lo Y) k v, inB_lo hnX, inB_upd (inB_lo hnY) hvm, strict _ _ ?_, upd_same _ _ _⟩
        rw [upd_same]; exact hvd
      · have hcl : CanLe X Y n (k + 1) := by
          rcases hc with hc | hc
          · exfalso; rcases hv with hv | hv <;> omega
          · exact hc
        obtain ⟨gx, gy, g1, g2, gl, _, e2⟩ := equal v (by omega) hvm hcl
        exact ⟨gx, gy, g1, g2, gl, e2⟩
    · refine ⟨lo X, upd (upd (lo Y) k v) q (getDom Y q).2, inB_lo hnX,
        inB_upd (inB_upd (inB_lo hnY) hvm) ⟨hyq, Int.le_refl _⟩, strict _ _ ?_, ?_⟩
      · rw [upd_same]; exact hlt
      · rw [upd_other _ _ hkq, upd_same]

theorem lexEnforce_get (x y : Box) (q : Nat) (s : Bool) (hqx : q < x.length) (hqy : q < y.length)
    (h : (lexEnforce x y q s).1 ≠ .inc) :
    getDom (lexEnforce x y q s).2.1 q = ((getDom x q).1, min (getDom x q).2 ((getDom y q).2 - kOf s)) ∧
    getDom (lexEnforce x y q s).2.2 q = (max (getDom y q).1 ((getDom x q).1 + kOf s), (getDom y q).2) := by
  revert h
  cases s <;> simp only [lexEnforce, kOf, ↓reduceIte, Bool.false_eq_true] <;>
  · split
    · intro h; simp at h
    · split
      · intro h; simp at h
      · intro _
        simp only [getDom_set, hqx, hqy, and_self, ↓reduceIte]

theorem handover_supp {x' y' : Box} {n q : Nat} {r : Status × Box × Box}
    (hx' : x'.length = n) (hy' : y'.length = n) (nx : x'.Nonempty) (ny : y'.Nonempty) (hq : q < n)
    (hlt : (getDom x' q).1 < (getDom y' q).2)
    (hs1 : (getDom x' q).2 ≤ (getDom y' q).2) (hs2 : (getDom x' q).1 ≤ (getDom y' q).1)
    (hr : lexState2 x' y' n q (n + 1) (q + 1) = r) (hst : r.1 ≠ .inc) : Supp r.2.1 r.2.2 n q := by
  rcases state2_specX x' y' n q hx' hy' nx ny (n + 1) (q + 1) (by omega) (by omega) with ⟨e, hcl⟩ | ⟨e, hal⟩ | ⟨e, hno⟩
  · rw [hr] at e; subst e
    exact supp_at hx' hy' nx ny hq hlt hs1 hs2 (Or.inr hcl)
  · rw [hr] at e; subst e
    obtain ⟨l1, l2, n1, n2, _⟩ := (lexEnforce_sound x' y' q false (by omega) (by omega) nx ny).ok hst
    obtain ⟨g1, g2⟩ := lexEnforce_get x' y' q false (by omega) (by omega) hst
    have hX : (lexEnforce x' y' q false).2.1.length = n := by rw [Box.le_length l1, hx']
    have hY : (lexEnforce x' y' q false).2.2.length = n := by rw [Box.le_length l2, hy']
    refine supp_at hX hY n1 n2 hq ?_ ?_ ?_ (Or.inr ?_)
    · rw [g1, g2]; exact hlt
    · rw [g1, g2]; simp [kOf]; omega
    · rw [g1, g2]; simp [kOf]; omega
    · exact ⟨_, _, inB_lo n1, inB_lo n2,
        lexF_of_allLe hx' hy' hal ((inB_lo n1).mono l1) ((inB_lo n2).mono l2)⟩
  · rw [hr] at e; subst e
    obtain ⟨l1, l2, n1, n2, _⟩ := (lexEnforce_sound x' y' q true (by omega) (by omega) nx ny).ok hst
    obtain ⟨g1, g2⟩ := lexEnforce_get x' y' q true (by omega) (by omega) hst
    have hX : (lexEnforce x' y' q true).2.1.length = n := by rw [Box.le_length l1, hx']
    have hY : (lexEnforce x' y' q true).2.2.length = n := by rw [Box.le_length l2, hy']
    refine supp_at hX hY n1 n2 hq ?_ ?_ ?_ (Or.inl ?_)
    · rw [g1, g2]; exact hlt
    · rw [g1, g2]; simp [kOf]; omega
    · rw [g1, g2]; simp [kOf]; omega
    · rw [g1, g2]; simp [kOf]; omega

/-- the box pruned by state 1 at `i` -/
theorem tighten_get {x y : Box} {n i : Nat} (hx : x.length = n) (hy : y.length = n) (hi : i < n) :
    getDom (x.set i ((getDom x i).1, min (getDom x i).2 (getDom y i).2)) i =
      ((getDom x i).1, min (getDom x i).2 (getDom y i).2) ∧
    getDom (y.set i (max (getDom y i).1 (getDom x i).1, (getDom y i).2)) i =
      (max (getDom y i).1 (getDom x i).1, (getDom y i).2) := by
  rw [getDom_set, getDom_set, if_pos ⟨rfl, by omega⟩, if_pos ⟨rfl, by omega⟩]
  exact ⟨rfl, rfl⟩

theorem state1_supp (n : Nat) : ∀ (fuel i : Nat) (x y : Box) (r : Status × Box × Box),
    x.length = n → y.length = n → x.Nonempty → y.Nonempty → i ≤ n → n + 1 ≤ fuel + i →
    lexState1 n fuel i x y = r → r.1 ≠ .inc → Supp r.2.1 r.2.2 n i
  | 0, i, x, y, r, hx, hy, hnx, hny, hi, hf, hr, hst => by omega
  | fuel + 1, i, x, y, r, hx, hy, hnx, hny, hi, hf, hr, hst => by
    have hspec := state1_spec n (fuel + 1) i x y r hx hy hnx hny hi hr
    simp only [lexState1] at hr
    split at hr
    · rename_i h
      split at hr
      · subst hr; simp at hst
      · rename_i c1
        split at hr
        · subst hr; simp at hst
        · rename_i c2
          obtain ⟨lx, ly, nx, ny, keep⟩ := tighten_spec hx hy h.1 hnx hny c1 c2
          obtain ⟨ih1, _, _⟩ := state1_spec n fuel (i + 1) _ _ r (by simpa using hx) (by simpa using hy)
            nx ny (by omega) hr
          obtain ⟨l1, l2, _⟩ := ih1.ok hst
          have ih := state1_supp n fuel (i + 1) _ _ r (by simpa using hx) (by simpa using hy) nx ny
            (by omega) (by omega) hr hst
          obtain ⟨t1, t2⟩ := tighten_get hx hy h.1
          have lift : ∀ gx gy : Nat → Int, InB gx r.2.1 → InB gy r.2.2 → lexF gx gy n (i + 1) → lexF gx gy n i := by
            intro gx gy g1 g2 gl
            have a := (g1.mono l1) i (by simp; omega)
            have b := (g2.mono l2) i (by simp; omega)
            rw [t1] at a; rw [t2] at b
            rw [lexF_step _ _ h.1]
            right
            refine ⟨?_, gl⟩
            simp only [] at a b
            omega
          constructor
          · intro k hk v hv
            obtain ⟨gx, gy, g1, g2, gl, e⟩ := ih.1 k hk v hv
            exact ⟨gx, gy, g1, g2, lift gx gy g1 g2 gl, e⟩
          · intro k hk v hv
            obtain ⟨gx, gy, g1, g2, gl, e⟩ := ih.2 k hk v hv
            exact ⟨gx, gy, g1, g2, lift gx gy g1 g2 gl, e⟩
    · rename_i h0
      split at hr
      · rename_i h; subst hr
        apply supp_of_allLe hx hy hnx hny
        rcases h with h | h
        · subst h; exact allLe_end hx
        · by_cases e : i = n
          · subst e; exact allLe_end hx
          · exact allLe_lt hx hy (by omega) h
      · rename_i h1
        have hin : i < n := by omega
        split at hr
        · subst hr; simp at hst
        · rename_i c1
          split at hr
          · subst hr; simp at hst
          · rename_i c2
            obtain ⟨lx, ly, nx, ny, keep⟩ := tighten_spec hx hy hin hnx hny c1 c2
            obtain ⟨t1, t2⟩ := tighten_get hx hy hin
            have hxi := Box.nonempty_get hnx i (by omega)
            have hyi := Box.nonempty_get hny i (by omega)
            refine handover_supp (by simpa using hx) (by simpa using hy) nx ny hin ?_ ?_ ?_ hr hst
            · rw [t1, t2]; simp only []; omega
            · rw [t1, t2]; simp only []; omega
            · rw [t1, t2]; simp only []; omega

/-! ### a second call changes nothing -/

theorem set_self {X : Box} {i : Nat} {d : Dom} (h : getDom X i = d) : X.set i d = X := by
  apply Box.ext_get (by simp)
  intro k _
  rw [getDom_set]
  split
  · rename_i hc; rw [← hc.1]; exact h.symm
  · rfl

theorem enforce_idem {X Y : Box} {q : Nat} {s : Bool} (hnX : X.Nonempty) (hnY : Y.Nonempty)
    (hqx : q < X.length) (hqy : q < Y.length)
    (h1 : (getDom X q).2 ≤ (getDom Y q).2 - kOf s) (h2 : (getDom X q).1 + kOf s ≤ (getDom Y q).1) :
    ∃ st, lexEnforce X Y q s = (st, X, Y) ∧ st ≠ .inc := by
  have hxq := Box.nonempty_get hnX q hqx
  have hyq := Box.nonempty_get hnY q hqy
  have e1 : ((getDom X q).1, min (getDom X q).2 ((getDom Y q).2 - kOf s)) = getDom X q := by
    apply Prod.ext <;> simp only [] <;> omega
  have e2 : (max (getDom Y q).1 ((getDom X q).1 + kOf s), (getDom Y q).2) = getDom Y q := by
    apply Prod.ext <;> simp only [] <;> omega
  have hk : (if s = true then (1 : Int) else 0) = kOf s := rfl
  simp only [lexEnforce, hk, e1, e2]
  rw [if_neg (by omega), if_neg (by omega), set_self rfl, set_self rfl]
  refine ⟨_, rfl, ?_⟩
  split <;> split <;> simp

theorem not_allLe_noneLe {X Y : Box} {n i : Nat} (hX : X.length = n) (hY : Y.length = n)
    (hnX : X.Nonempty) (hnY : Y.Nonempty) (h1 : AllLe X Y i) (h2 : NoneLe X Y i) : False :=
  h2 _ _ (inBox_mk hX (inB_lo hnX)) (inBox_mk hY (inB_lo hnY))
    (h1 _ _ (inBox_mk hX (inB_lo hnX)) (inBox_mk hY (inB_lo hnY)))

theorem not_canLe_noneLe {X Y : Box} {n i : Nat} (hX : X.length = n) (hY : Y.length = n)
    (h1 : CanLe X Y n i) (h2 : NoneLe X Y i) : False := by
  obtain ⟨gx, gy, g1, g2, gl⟩ := h1
  exact h2 _ _ (inBox_mk hX g1) (inBox_mk hY g2) gl

/-- the second call, from the position `i = q` where the first one handed over -/
theorem rerun_handover {X Y : Box} {n i : Nat} (fuel : Nat) (hX : X.length = n) (hY : Y.length = n)
    (hnX : X.Nonempty) (hnY : Y.Nonempty) (hin : i < n)
    (hlt : (getDom X i).1 < (getDom Y i).2)
    (hs1 : (getDom X i).2 ≤ (getDom Y i).2) (hs2 : (getDom X i).1 ≤ (getDom Y i).1)
    (hk : CanLe X Y n (i + 1) ∨
      (NoneLe X Y (i + 1) ∧ (getDom X i).2 < (getDom Y i).2 ∧ (getDom X i).1 < (getDom Y i).1)) :
    ∃ st', lexState1 n (fuel + 1) i X Y = (st', X, Y) ∧ st' ≠ .inc := by
  have hxi := Box.nonempty_get hnX i (by omega)
  have hyi := Box.nonempty_get hnY i (by omega)
  simp only [lexState1]
  rw [if_neg (by omega)]
  split
  · exact ⟨_, rfl, by simp⟩
  · rename_i hne
    have e1 : ((getDom X i).1, min (getDom X i).2 (getDom Y i).2) = getDom X i := by
      apply Prod.ext <;> simp only [] <;> omega
    have e2 : (max (getDom Y i).1 (getDom X i).1, (getDom Y i).2) = getDom Y i := by
      apply Prod.ext <;> simp only [] <;> omega
    rw [if_neg (by omega), if_neg (by omega), e1, e2, set_self rfl, set_self rfl]
    rcases state2_specX X Y n i hX hY hnX hnY (n + 1) (i + 1) (by omega) (by omega) with ⟨e, _⟩ | ⟨e, hal⟩ | ⟨e, hno⟩
    · exact ⟨_, e, by simp⟩
    · rw [e]
      rcases hk with hk | ⟨hk, _, _⟩
      · exact enforce_idem hnX hnY (by omega) (by omega) (by simp [kOf]; omega) (by simp [kOf]; omega)
      · exact (not_allLe_noneLe hX hY hnX hnY hal hk).elim
    · rw [e]
      rcases hk with hk | ⟨_, k1, k2⟩
      · exact (not_canLe_noneLe hX hY hk hno).elim
      · exact enforce_idem hnX hnY (by omega) (by omega) (by simp [kOf]; omega) (by simp [kOf]; omega)

theorem noneLe_mono {x y X Y : Box} {i : Nat} (h : NoneLe x y i) (l1 : Box.le X x) (l2 : Box.le Y y) :
    NoneLe X Y i := fun xs ys h1 h2 => h xs ys (inBox_of_le h1 l1) (inBox_of_le h2 l2)

theorem state1_idem (n : Nat) : ∀ (fuel i : Nat) (x y : Box) (r : Status × Box × Box),
    x.length = n → y.length = n → x.Nonempty → y.Nonempty → i ≤ n → n + 1 ≤ fuel + i →
    lexState1 n fuel i x y = r → r.1 ≠ .inc →
    ∃ st', lexState1 n fuel i r.2.1 r.2.2 = (st', r.2.1, r.2.2) ∧ st' ≠ .inc
  | 0, i, x, y, r, hx, hy, hnx, hny, hi, hf, hr, hst => by omega
  | fuel + 1, i, x, y, r, hx, hy, hnx, hny, hi, hf, hr, hst => by
    have hr0 := hr
    simp only [lexState1] at hr
    split at hr
    · rename_i h
      split at hr
      · subst hr; simp at hst
      · rename_i c1
        split at hr
        · subst hr; simp at hst
        · rename_i c2
          obtain ⟨lx, ly, nx, ny, keep⟩ := tighten_spec hx hy h.1 hnx hny c1 c2
          obtain ⟨ih1, _, _⟩ := state1_spec n fuel (i + 1) _ _ r (by simpa using hx) (by simpa using hy)
            nx ny (by omega) hr
          obtain ⟨l1, l2, n1, n2, _⟩ := ih1.ok hst
          obtain ⟨st', ih, hst'⟩ := state1_idem n fuel (i + 1) _ _ r (by simpa using hx) (by simpa using hy) nx ny
            (by omega) (by omega) hr hst
          obtain ⟨t1, t2⟩ := tighten_get hx hy h.1
          have hXl : r.2.1.length = n := by rw [Box.le_length l1]; simpa using hx
          have hYl : r.2.2.length = n := by rw [Box.le_length l2]; simpa using hy
          have a := Box.le_get i l1 (by simp; omega)
          have b := Box.le_get i l2 (by simp; omega)
          rw [t1] at a; rw [t2] at b
          simp only [] at a b
          have hXi := Box.nonempty_get n1 i (by omega)
          have hYi := Box.nonempty_get n2 i (by omega)
          have hxi := Box.nonempty_get hnx i (by omega)
          have hyi := Box.nonempty_get hny i (by omega)
          have e1 : ((getDom r.2.1 i).1, min (getDom r.2.1 i).2 (getDom r.2.2 i).2) = getDom r.2.1 i := by
            apply Prod.ext <;> simp only [] <;> omega
          have e2 : (max (getDom r.2.2 i).1 (getDom r.2.1 i).1, (getDom r.2.2 i).2) = getDom r.2.2 i := by
            apply Prod.ext <;> simp only [] <;> omega
          refine ⟨st', ?_, hst'⟩
          simp only [lexState1]
          rw [if_pos ⟨h.1, by omega⟩, if_neg (by omega), if_neg (by omega), e1, e2, set_self rfl, set_self rfl]
          exact ih
    · rename_i h0
      split at hr
      · rename_i h; subst hr
        exact ⟨.ent, hr0, by simp⟩
      · rename_i h1
        have hin : i < n := by omega
        split at hr
        · subst hr; simp at hst
        · rename_i c1
          split at hr
          · subst hr; simp at hst
          · rename_i c2
            obtain ⟨lx, ly, nx, ny, keep⟩ := tighten_spec hx hy hin hnx hny c1 c2
            obtain ⟨t1, t2⟩ := tighten_get hx hy hin
            have hxi := Box.nonempty_get hnx i (by omega)
            have hyi := Box.nonempty_get hny i (by omega)
            have hx' : (x.set i ((getDom x i).1, min (getDom x i).2 (getDom y i).2)).length = n := by simpa using hx
            have hy' : (y.set i (max (getDom y i).1 (getDom x i).1, (getDom y i).2)).length = n := by simpa using hy
            rcases state2_specX _ _ n i hx' hy' nx ny (n + 1) (i + 1) (by omega) (by omega) with ⟨e, hcl⟩ | ⟨e, hal⟩ | ⟨e, hno⟩
            · rw [hr] at e; subst e
              refine rerun_handover fuel hx' hy' nx ny hin ?_ ?_ ?_ (Or.inl hcl)
              · rw [t1, t2]; simp only []; omega
              · rw [t1, t2]; simp only []; omega
              · rw [t1, t2]; simp only []; omega
            · rw [hr] at e; subst e
              obtain ⟨l1, l2, n1, n2, _⟩ := (lexEnforce_sound _ _ i false (by omega) (by omega) nx ny).ok hst
              obtain ⟨g1, g2⟩ := lexEnforce_get _ _ i false (by omega) (by omega) hst
              have hX := Box.le_length l1; rw [hx'] at hX
              have hY := Box.le_length l2; rw [hy'] at hY
              refine rerun_handover fuel hX hY n1 n2 hin ?_ ?_ ?_ (Or.inl ?_)
              · rw [g1, g2, t1, t2]; simp only []; omega
              · rw [g1, g2, t1, t2]; simp [kOf]; omega
              · rw [g1, g2, t1, t2]; simp [kOf]; omega
              · exact ⟨_, _, inB_lo n1, inB_lo n2,
                  lexF_of_allLe hx' hy' hal ((inB_lo n1).mono l1) ((inB_lo n2).mono l2)⟩
            · rw [hr] at e; subst e
              obtain ⟨l1, l2, n1, n2, _⟩ := (lexEnforce_sound _ _ i true (by omega) (by omega) nx ny).ok hst
              obtain ⟨g1, g2⟩ := lexEnforce_get _ _ i true (by omega) (by omega) hst
              have hX := Box.le_length l1; rw [hx'] at hX
              have hY := Box.le_length l2; rw [hy'] at hY
              refine rerun_handover fuel hX hY n1 n2 hin ?_ ?_ ?_ (Or.inr ⟨noneLe_mono hno l1 l2, ?_, ?_⟩)
              · rw [g1, g2, t1, t2]; simp only []; omega
              · rw [g1, g2, t1, t2]; simp [kOf]; omega
              · rw [g1, g2, t1, t2]; simp [kOf]; omega
              · rw [g1, g2, t1, t2]; simp [kOf]; omega
              · rw [g1, g2, t1, t2]; simp [kOf]; omega

theorem getI_append_left {l1 l2 : List Int} {k : Nat} (h : k < l1.length) : getI (l1 ++ l2) k = getI l1 k := by
  unfold getI; simp [List.getD, List.getElem?_append_left h]

theorem getI_append_right {l1 l2 : List Int} (j : Nat) : getI (l1 ++ l2) (l1.length + j) = getI l2 j := by
  unfold getI; simp [List.getD, List.getElem?_append_right]

theorem rel_mk (ps : List Int) (gx gy : Nat → Int) (n : Nat) :
    rel .lexLeq ps (mk gx n ++ mk gy n) ↔ lexF gx gy n 0 := by
  have hl : (mk gx n ++ mk gy n).length / 2 = n := by simp [length_mk]; omega
  simp only [rel, hl, lexF, List.drop_zero]
  rw [List.take_left' (length_mk gx n), List.drop_left' (length_mk gx n)]

theorem exact_even (ps : List Int) (B : Box) (st : Status) (B' : Box) (hc : EvenC B) (hne : B.Nonempty)
    (hrun : runAlg .lexLeq ps B = .ok (st, B')) (hst : st ≠ .inc) :
    (∀ k, k < B'.length →
      (∃ t, inBox t B' ∧ rel .lexLeq ps t ∧ getI t k = (getDom B' k).1) ∧
      (∃ t, inBox t B' ∧ rel .lexLeq ps t ∧ getI t k = (getDom B' k).2)) ∧
    (∃ st', runAlg .lexLeq ps B' = .ok (st', B') ∧ st' ≠ .inc) := by
  rw [runAlg_lexLeq] at hrun
  injection hrun with hrun
  obtain ⟨hx, hy, hs, _, _⟩ := lexLeq_spec B hc hne
  simp only [lexLeq] at hrun
  injection hrun with h1 h2
  subst h1
  obtain ⟨l1, l2, n1, n2, _⟩ := hs.ok hst
  have hX := Box.le_length l1; rw [hx] at hX
  have hY := Box.le_length l2; rw [hy] at hY
  have hsupp := state1_supp (B.length / 2) (B.length / 2 + 1) 0 _ _ _ hx hy
    (nonempty_take _ hne) (nonempty_drop _ hne) (by omega) (by omega) rfl hst
  obtain ⟨st', hidem, hst'⟩ := state1_idem (B.length / 2) (B.length / 2 + 1) 0 _ _ _ hx hy
    (nonempty_take _ hne) (nonempty_drop _ hne) (by omega) (by omega) rfl hst
  subst h2
  generalize lexState1 (B.length / 2) (B.length / 2 + 1) 0 (B.take (B.length / 2)) (B.drop (B.length / 2)) = r at *
  generalize B.length / 2 = n at *
  obtain ⟨st, X, Y⟩ := r
  simp only [] at *
  refine ⟨fun k hk => ?_, ?_⟩
  · -- every bound is attained by a solution
    have build : ∀ gx gy : Nat → Int, InB gx X → InB gy Y → lexF gx gy n 0 →
        inBox (mk gx n ++ mk gy n) (X ++ Y) ∧ rel .lexLeq ps (mk gx n ++ mk gy n) :=
      fun gx gy g1 g2 gl => ⟨inBox_append (inBox_mk hX g1) (inBox_mk hY g2), (rel_mk ps gx gy n).mpr gl⟩
    by_cases hkn : k < n
    · rw [getDom_append_left (by omega)]
      constructor
      · obtain ⟨gx, gy, g1, g2, gl, e⟩ := hsupp.1 k hkn _ (Or.inl rfl)
        refine ⟨_, (build gx gy g1 g2 gl).1, (build gx gy g1 g2 gl).2, ?_⟩
        rw [getI_append_left (by rw [length_mk]; exact hkn), getI_mk gx hkn]; exact e
      · obtain ⟨gx, gy, g1, g2, gl, e⟩ := hsupp.1 k hkn _ (Or.inr rfl)
        refine ⟨_, (build gx gy g1 g2 gl).1, (build gx gy g1 g2 gl).2, ?_⟩
        rw [getI_append_left (by rw [length_mk]; exact hkn), getI_mk gx hkn]; exact e
    · have hk' : k - n < n := by simp at hk; omega
      have ek : k = X.length + (k - n) := by omega
      have ek' : k = (mk (fun _ => (0 : Int)) n).length + (k - n) := by rw [length_mk]; omega
      rw [ek, getDom_append_right]
      constructor
      · obtain ⟨gx, gy, g1, g2, gl, e⟩ := hsupp.2 (k - n) hk' _ (Or.inl rfl)
        refine ⟨_, (build gx gy g1 g2 gl).1, (build gx gy g1 g2 gl).2, ?_⟩
        have : X.length + (k - n) = (mk gx n).length + (k - n) := by rw [length_mk, hX]
        rw [this, getI_append_right, getI_mk gy hk']; exact e
      · obtain ⟨gx, gy, g1, g2, gl, e⟩ := hsupp.2 (k - n) hk' _ (Or.inr rfl)
        refine ⟨_, (build gx gy g1 g2 gl).1, (build gx gy g1 g2 gl).2, ?_⟩
        have : X.length + (k - n) = (mk gx n).length + (k - n) := by rw [length_mk, hX]
        rw [this, getI_append_right, getI_mk gy hk']; exact e
  · -- a second call changes nothing
    refine ⟨st', ?_, hst'⟩
    rw [runAlg_lexLeq]
    have hl : (X ++ Y).length / 2 = n := by simp [hX, hY]; omega
    simp only [lexLeq, hl]
    rw [List.take_left' hX, List.drop_left' hX, hidem]


/-! ### odd arities: the last variable is ignored -/

/-- the answer on `(x, y)` with `z` appended to `y` -/
def app (r : Status × Box × Box) (z : Box) : Status × Box × Box := (r.1, r.2.1, r.2.2 ++ z)

theorem app_ite (c : Prop) [Decidable c] (a b : Status × Box × Box) (z : Box) :
    app (if c then a else b) z = if c then app a z else app b z := by
  split <;> rfl

theorem lexEnforce_ext (x y z : Box) (q : Nat) (s : Bool) (hq : q < y.length) :
    lexEnforce x (y ++ z) q s = app (lexEnforce x y q s) z := by
  simp only [lexEnforce, getDom_append_left hq, List.set_append_left _ _ hq, app_ite]
  rfl

theorem lexState4_ext (x y z : Box) (n q : Nat) (hy : y.length = n) (hq : q < n) :
    ∀ fuel i, lexState4 x (y ++ z) n q fuel i = app (lexState4 x y n q fuel i) z
  | 0, _ => rfl
  | fuel + 1, i => by
    simp only [lexState4]
    by_cases hi : i < n
    · rw [getDom_append_left (by omega)]
      split
      · exact lexState4_ext x y z n q hy hq fuel (i + 1)
      · split
        · exact lexEnforce_ext x y z q true (by omega)
        · rfl
    · simp only [hi, false_and, ↓reduceIte]; rfl

theorem lexState3_ext (x y z : Box) (n q : Nat) (hy : y.length = n) (hq : q < n) :
    ∀ fuel i, i ≤ n → lexState3 x (y ++ z) n q fuel i = app (lexState3 x y n q fuel i) z
  | 0, _, _ => rfl
  | fuel + 1, i, hin => by
    simp only [lexState3]
    by_cases hi : i < n
    · rw [getDom_append_left (by omega)]
      split
      · exact lexState3_ext x y z n q hy hq fuel (i + 1) (by omega)
      · split
        · exact lexEnforce_ext x y z q false (by omega)
        · rfl
    · have e : i = n := by omega
      subst e
      simp only [Nat.lt_irrefl, false_and, true_or, ↓reduceIte]
      exact lexEnforce_ext x y z q false (by omega)

theorem lexState2_ext (x y z : Box) (n q : Nat) (hy : y.length = n) (hq : q < n) :
    ∀ fuel i, i ≤ n → lexState2 x (y ++ z) n q fuel i = app (lexState2 x y n q fuel i) z
  | 0, _, _ => rfl
  | fuel + 1, i, hin => by
    simp only [lexState2]
    by_cases hi : i < n
    · rw [getDom_append_left (by omega)]
      split
      · exact lexState2_ext x y z n q hy hq fuel (i + 1) (by omega)
      · split
        · exact lexEnforce_ext x y z q false (by omega)
        · split
          · exact lexEnforce_ext x y z q true (by omega)
          · split
            · exact lexState3_ext x y z n q hy hq (n + 1) (i + 1) (by omega)
            · split
              · exact lexState4_ext x y z n q hy hq (n + 1) (i + 1)
              · rfl
    · have e : i = n := by omega
      subst e
      simp only [Nat.lt_irrefl, false_and, true_or, ↓reduceIte]
      exact lexEnforce_ext x y z q false (by omega)

theorem lexState1_ext (n : Nat) (z : Box) : ∀ (fuel i : Nat) (x y : Box), y.length = n → i ≤ n →
    lexState1 n fuel i x (y ++ z) = app (lexState1 n fuel i x y) z
  | 0, _, _, _, _, _ => rfl
  | fuel + 1, i, x, y, hy, hin => by
    simp only [lexState1]
    by_cases hi : i < n
    · rw [getDom_append_left (by omega), List.set_append_left _ _ (by omega)]
      split
      · split
        · rfl
        · split
          · rfl
          · exact lexState1_ext n z fuel (i + 1) _ _ (by simpa using hy) (by omega)
      · split
        · rfl
        · split
          · rfl
          · split
            · rfl
            · exact lexState2_ext _ _ z n i (by simpa using hy) hi (n + 1) (i + 1) (by omega)
    · have e : i = n := by omega
      subst e
      simp only [Nat.lt_irrefl, false_and, true_or, ↓reduceIte]; rfl

/-- a call on an even box followed by at most one more domain: the extra domain is copied -/
theorem lexLeq_app (ps : List Int) (B0 z : Box) (h0 : B0.length % 2 = 0) (hz : z.length ≤ 1) :
    lexLeq ps (B0 ++ z) = ((lexLeq ps B0).1, (lexLeq ps B0).2 ++ z) := by
  have hl : (B0 ++ z).length / 2 = B0.length / 2 := by simp; omega
  simp only [lexLeq, hl]
  rw [List.take_append_of_le_length (by omega), List.drop_append_of_le_length (by omega),
    lexState1_ext _ z _ _ _ _ (by simp; omega) (by omega)]
  simp [app]

theorem decomp (B : Box) (h : 2 ≤ B.length) :
    ∃ B0 z, B = B0 ++ z ∧ EvenC B0 ∧ z.length ≤ 1 :=
  ⟨B.take (2 * (B.length / 2)), B.drop (2 * (B.length / 2)), (List.take_append_drop _ _).symm,
    ⟨by simp; omega, by simp; omega⟩, by simp; omega⟩

theorem lexLe_take : ∀ (xs ys : List Int) (k : Nat), xs.length ≤ k → (lexLe xs (ys.take k) ↔ lexLe xs ys)
  | [], _, _, _ => by simp [lexLe]
  | _ :: _, [], _, _ => by simp [lexLe]
  | x :: xs, y :: ys, k + 1, h => by simp [lexLe, lexLe_take xs ys k (by simpa using h)]
  | _ :: _, _ :: _, 0, h => by simp at h

/-- the relation ignores the last entry of a tuple of odd length -/
theorem rel_take (ps : List Int) (t : List Int) {m : Nat} (hm : m = 2 * (t.length / 2)) :
    rel .lexLeq ps (t.take m) ↔ rel .lexLeq ps t := by
  have hl : (t.take m).length / 2 = t.length / 2 := by simp; omega
  simp only [rel, hl]
  rw [List.take_take, List.drop_take, Nat.min_eq_left (by omega), lexLe_take _ _ _ (by simp; omega)]

theorem inBox_split {t : List Int} {B0 z : Box} (h : inBox t (B0 ++ z)) :
    inBox (t.take B0.length) B0 ∧ inBox (t.drop B0.length) z := by
  have := inBox_take_drop B0.length h
  rwa [List.take_left' rfl, List.drop_left' rfl] at this

theorem inBox_join {t : List Int} {B0 z : Box} (h1 : inBox (t.take B0.length) B0) (h2 : inBox (t.drop B0.length) z) :
    inBox t (B0 ++ z) := by
  have := inBox_append h1 h2
  rwa [List.take_append_drop] at this

/-- a tuple of `z` with a chosen value at `j` -/
theorem exists_inBox {z : Box} (hz : z.Nonempty) {j : Nat} (hj : j < z.length) {v : Int}
    (hv : (getDom z j).1 ≤ v ∧ v ≤ (getDom z j).2) : ∃ tz, inBox tz z ∧ getI tz j = v :=
  ⟨mk (upd (lo z) j v) z.length, inBox_mk rfl (inB_upd (inB_lo hz) hv), by rw [getI_mk _ hj, upd_same]⟩

theorem exists_inBox' {z : Box} (hz : z.Nonempty) : ∃ tz, inBox tz z :=
  ⟨mk (lo z) z.length, inBox_mk rfl (inB_lo hz)⟩

theorem nonempty_left {X Y : Box} (h : (X ++ Y).Nonempty) : X.Nonempty := fun d hd => h d (List.mem_append_left _ hd)
theorem nonempty_right {X Y : Box} (h : (X ++ Y).Nonempty) : Y.Nonempty := fun d hd => h d (List.mem_append_right _ hd)

/-- the shape of every call in contract -/
theorem run_app (ps : List Int) (B0 z : Box) (st : Status) (B' : Box) (hc : EvenC B0) (hz : z.length ≤ 1)
    (hrun : runAlg .lexLeq ps (B0 ++ z) = .ok (st, B')) :
    ∃ B0', runAlg .lexLeq ps B0 = .ok (st, B0') ∧ B' = B0' ++ z := by
  rw [runAlg_lexLeq, lexLeq_app ps B0 z hc.2 hz] at hrun
  injection hrun with hrun
  injection hrun with h1 h2
  exact ⟨(lexLeq ps B0).2, by rw [runAlg_lexLeq, ← h1], h2.symm⟩

theorem sound_gen (ps : List Int) (B : Box) (st : Status) (B' : Box) (hc : 2 ≤ B.length) (hne : B.Nonempty)
    (hrun : runAlg .lexLeq ps B = .ok (st, B')) :
    (st ≠ .inc → Box.le B' B ∧ B'.Nonempty ∧ ∀ t, inBox t B → rel .lexLeq ps t → inBox t B') ∧
    (st = .inc → ∀ t, inBox t B → ¬ rel .lexLeq ps t) := by
  obtain ⟨B0, z, rfl, hc0, hz⟩ := decomp B hc
  obtain ⟨B0', hrun0, rfl⟩ := run_app ps B0 z st B' hc0 hz hrun
  have hs := sound_even ps B0 st B0' hc0 (nonempty_left hne) hrun0
  have hm : ∀ t, inBox t (B0 ++ z) → B0.length = 2 * (t.length / 2) := by
    intro t ht
    have h1 := inBox_length ht
    have := hc0.2
    simp at h1; omega
  refine ⟨fun hst => ?_, fun hst t ht hrel => ?_⟩
  · obtain ⟨l, ne, keep⟩ := hs.1 hst
    refine ⟨le_append l (Box.le_refl z), nonempty_append ne (nonempty_right hne), fun t ht hrel => ?_⟩
    obtain ⟨t1, t2⟩ := inBox_split ht
    have k := keep _ t1 ((rel_take ps t (hm t ht)).mpr hrel)
    rw [← Box.le_length l] at k t2
    exact inBox_join k t2
  · obtain ⟨t1, _⟩ := inBox_split ht
    exact hs.2 hst _ t1 ((rel_take ps t (hm t ht)).mpr hrel)

theorem entail_gen (ps : List Int) (B B' : Box) (hc : 2 ≤ B.length) (hne : B.Nonempty)
    (hrun : runAlg .lexLeq ps B = .ok (.ent, B')) : ∀ t, inBox t B' → rel .lexLeq ps t := by
  intro t ht
  obtain ⟨B0, z, rfl, hc0, hz⟩ := decomp B hc
  obtain ⟨B0', hrun0, rfl⟩ := run_app ps B0 z .ent B' hc0 hz hrun
  have hl := Box.le_length ((sound_even ps B0 .ent B0' hc0 (nonempty_left hne) hrun0).1 (by simp)).1
  obtain ⟨t1, _⟩ := inBox_split ht
  have := inBox_length ht
  have := hc0.2
  refine (rel_take ps t ?_).mp (entail_even ps B0 B0' hc0 (nonempty_left hne) hrun0 _ t1)
  simp at *; omega

theorem ground_gen (ps : List Int) (B : Box) (st : Status) (B' : Box) (t : List Int) (hc : 2 ≤ B.length)
    (hne : B.Nonempty) (hrun : runAlg .lexLeq ps B = .ok (st, B')) (hst : st ≠ .inc)
    (hB' : B' = pointBox t) : rel .lexLeq ps t := by
  obtain ⟨B0, z, rfl, hc0, hz⟩ := decomp B hc
  obtain ⟨B0', hrun0, rfl⟩ := run_app ps B0 z st B' hc0 hz hrun
  have hl := Box.le_length ((sound_even ps B0 st B0' hc0 (nonempty_left hne) hrun0).1 hst).1
  have e : B0' = pointBox (t.take B0'.length) := by
    have := congrArg (List.take B0'.length) hB'
    rw [List.take_left' rfl] at this
    rw [this]; simp [pointBox]
  have hlen : (B0' ++ z).length = t.length := by rw [hB']; simp [pointBox]
  have := hc0.2
  refine (rel_take ps t ?_).mp (ground_even ps B0 st B0' _ hc0 (nonempty_left hne) hrun0 hst e)
  simp at hlen; omega

theorem exact_gen (ps : List Int) (B : Box) (st : Status) (B' : Box) (hc : 2 ≤ B.length) (hne : B.Nonempty)
    (hrun : runAlg .lexLeq ps B = .ok (st, B')) (hst : st ≠ .inc) :
    (∀ k, k < B'.length →
      (∃ t, inBox t B' ∧ rel .lexLeq ps t ∧ getI t k = (getDom B' k).1) ∧
      (∃ t, inBox t B' ∧ rel .lexLeq ps t ∧ getI t k = (getDom B' k).2)) ∧
    (∃ st', runAlg .lexLeq ps B' = .ok (st', B') ∧ st' ≠ .inc) := by
  obtain ⟨B0, z, rfl, hc0, hz⟩ := decomp B hc
  obtain ⟨B0', hrun0, rfl⟩ := run_app ps B0 z st B' hc0 hz hrun
  have hl := Box.le_length ((sound_even ps B0 st B0' hc0 (nonempty_left hne) hrun0).1 hst).1
  obtain ⟨hsupp, st', hidem, hst'⟩ := exact_even ps B0 st B0' hc0 (nonempty_left hne) hrun0 hst
  have hnz := nonempty_right hne
  have hc0' : EvenC B0' := by unfold EvenC; rw [hl]; exact hc0
  -- a solution of the even part, completed by any entry for the ignored variable
  have build : ∀ t0 tz, inBox t0 B0' → inBox tz z → rel .lexLeq ps t0 →
      inBox (t0 ++ tz) (B0' ++ z) ∧ rel .lexLeq ps (t0 ++ tz) := by
    intro t0 tz h0 h1 hr
    refine ⟨inBox_append h0 h1, ?_⟩
    have a := inBox_length h0
    have b := inBox_length h1
    have := hc0'.2
    have := (rel_take ps (t0 ++ tz) (m := t0.length) (by simp; omega))
    rw [List.take_left' rfl] at this
    exact this.mp hr
  refine ⟨fun k hk => ?_, ?_⟩
  · by_cases hk0 : k < B0'.length
    · rw [getDom_append_left hk0]
      obtain ⟨tz, htz⟩ := exists_inBox' hnz
      obtain ⟨⟨t, h1, h2, h3⟩, ⟨u, g1, g2, g3⟩⟩ := hsupp k hk0
      refine ⟨⟨t ++ tz, (build t tz h1 htz h2).1, (build t tz h1 htz h2).2, ?_⟩,
        ⟨u ++ tz, (build u tz g1 htz g2).1, (build u tz g1 htz g2).2, ?_⟩⟩
      · rw [getI_append_left (by rw [inBox_length h1]; exact hk0)]; exact h3
      · rw [getI_append_left (by rw [inBox_length g1]; exact hk0)]; exact g3
    · have hj : k - B0'.length < z.length := by simp at hk; omega
      have ek : k = B0'.length + (k - B0'.length) := by omega
      obtain ⟨⟨t, h1, h2, _⟩, _⟩ := hsupp 0 (by have := hc0'.1; omega)
      have hd := Box.nonempty_get hnz _ hj
      obtain ⟨tz, htz, e⟩ := exists_inBox hnz hj (v := (getDom z (k - B0'.length)).1) ⟨Int.le_refl _, hd⟩
      obtain ⟨uz, huz, f⟩ := exists_inBox hnz hj (v := (getDom z (k - B0'.length)).2) ⟨hd, Int.le_refl _⟩
      rw [ek, getDom_append_right]
      refine ⟨⟨t ++ tz, (build t tz h1 htz h2).1, (build t tz h1 htz h2).2, ?_⟩,
        ⟨t ++ uz, (build t uz h1 huz h2).1, (build t uz h1 huz h2).2, ?_⟩⟩
      · rw [← inBox_length h1, getI_append_right, inBox_length h1]; exact e
      · rw [← inBox_length h1, getI_append_right, inBox_length h1]; exact f
  · refine ⟨st', ?_, hst'⟩
    rw [runAlg_lexLeq] at hidem ⊢
    injection hidem with hidem
    rw [lexLeq_app ps B0' z hc0'.2 hz, hidem]

end Lex

open Lex

/-! ### the local contracts (any arity `≥ 2`; with an odd arity the last variable is ignored) -/

theorem sound_lexLeq : Sound .lexLeq :=
  fun ps B st B' hc hne hrun => sound_gen ps B st B' hc hne hrun

theorem entailOk_lexLeq : EntailOk .lexLeq :=
  fun ps B B' hc hne hrun => entail_gen ps B B' hc hne hrun

theorem groundOk_lexLeq : GroundOk .lexLeq :=
  fun ps B st B' t hc hne hrun hst hB' => ground_gen ps B st B' t hc hne hrun hst hB'

theorem exact_lexLeq : Exact .lexLeq :=
  fun ps B st B' hc hne hrun hst => exact_gen ps B st B' hc hne hrun hst

theorem contractMono_lexLeq : ContractMono .lexLeq := by
  intro ps B B' hc hle
  simp only [Contract] at *
  rw [Box.le_length hle]; exact hc

theorem safe_lexLeq : Safe .lexLeq := fun ps B _ _ => ⟨_, runAlg_lexLeq ps B⟩

theorem trigOk_lexLeq : TrigOk .lexLeq := Lex.trigOk_of_minMax .lexLeq sound_lexLeq (fun _ _ _ => rfl)

/-- the relaxed contract covers the symmetry-breaking constraint of the Schur-lemma model for `n = 3`
    (`3n = 9` variables: an odd arity) -/
example : Contract .lexLeq [] (List.replicate 9 (0, 1)) := by simp [Contract]

end Nucs
