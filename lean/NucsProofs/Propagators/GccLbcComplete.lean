import NucsProofs.Propagators.GccSoundLFinal
import NucsProofs.Propagators.GccSoundLMinMath
/-!
  Pure combinatorics for the lower-capacity passes of gcc:
  * `matching_complete_of_zones`: a greedy matching whose unused variables all have a "zone
    certificate" (a rank interval exactly filled by the matching) meets the total demand;
  * `runs_filled_of_complete`: a complete matching that respects the capacities fills exactly the
    stable runs of the pointer structure of any other pass.
-/
namespace Nucs
namespace Gcc
open AllDiff (cinR Oth LChain cinR_sublist cinR_nonneg)

/-! ### least / greatest element of a bounded set of integers -/

theorem exists_least (P : Int → Prop) (lo : Int) :
    ∀ hi, lo ≤ hi → P hi → ∃ t, lo ≤ t ∧ t ≤ hi ∧ P t ∧ ∀ j, lo ≤ j → j < t → ¬ P j := by
  apply int_strong_ind
  intro b hb ih hP
  by_cases hc : ∃ c, lo ≤ c ∧ c < b ∧ P c
  · obtain ⟨c, h1, h2, h3⟩ := hc
    obtain ⟨t, t1, t2, t3, t4⟩ := ih c h1 h2 h3
    exact ⟨t, t1, by omega, t3, t4⟩
  · refine ⟨b, hb, Int.le_refl _, hP, ?_⟩
    intro j h1 h2 h3
    exact hc ⟨j, h1, h2, h3⟩

theorem exists_greatest (P : Int → Prop) (hi lo : Int) (hlo : lo ≤ hi) (hP : P lo) :
    ∃ t, lo ≤ t ∧ t ≤ hi ∧ P t ∧ ∀ j, t < j → j ≤ hi → ¬ P j := by
  obtain ⟨t, t1, t2, t3, t4⟩ :=
    exists_least (fun j => P (-j)) (-hi) (-lo) (by omega) (by simpa using hP)
  refine ⟨-t, by omega, by omega, t3, ?_⟩
  intro j h1 h2
  have := t4 (-j) (by omega) (by omega)
  simpa using this

/-! ### the pointer structure of a set of covered nodes -/

/-- a covered node points to the least non-covered node above it, a non-covered node to the
    greatest non-covered node below it (`0` is not covered) -/
def BfSpec (C : Int → Prop) (k t : Int) : Prop :=
  (C k ∧ k < t ∧ ¬ C t ∧ ∀ j, k < j → j < t → C j) ∨
  (¬ C k ∧ t < k ∧ 0 ≤ t ∧ ¬ C t ∧ ∀ j, t < j → j < k → C j)

open Classical in
noncomputable def bfOf (C : Int → Prop) (k : Int) : Int :=
  if h : ∃ t, BfSpec C k t then Classical.choose h else 0

theorem bfOf_spec {C : Int → Prop} {M : Int} (h0 : ¬ C 0) (hM : ∀ k, M ≤ k → ¬ C k)
    (k : Int) (hk : 1 ≤ k) : BfSpec C k (bfOf C k) := by
  have hex : ∃ t, BfSpec C k t := by
    by_cases hc : C k
    · have hkM : k < M := by
        by_cases h : k < M
        · exact h
        · exact absurd hc (hM k (by omega))
      obtain ⟨t, t1, t2, t3, t4⟩ :=
        exists_least (fun j => ¬ C j) (k + 1) M (by omega) (hM M (Int.le_refl _))
      refine ⟨t, Or.inl ⟨hc, by omega, t3, ?_⟩⟩
      intro j h1 h2
      exact Classical.not_not.1 (t4 j (by omega) h2)
    · obtain ⟨t, t1, t2, t3, t4⟩ := exists_greatest (fun j => ¬ C j) (k - 1) 0 (by omega) h0
      refine ⟨t, Or.inr ⟨hc, by omega, t1, t3, ?_⟩⟩
      intro j h1 h2
      exact Classical.not_not.1 (t4 j h1 (by omega))
  unfold bfOf
  rw [dif_pos hex]
  exact Classical.choose_spec hex

theorem bfOf_chain {C : Int → Prop} {N : Int} (hN : 2 ≤ N) (h0 : ¬ C 0)
    (hM : ∀ k, N - 1 ≤ k → ¬ C k) : LChain (bfOf C) N := by
  have sp := fun k hk => bfOf_spec (M := N - 1) h0 hM k hk
  refine ⟨by omega, ?_, ?_, ?_, ?_⟩
  · intro i h1 h2
    rcases sp i h1 with ⟨c, a, b, d⟩ | ⟨c, a, b, d, e⟩
    · have : bfOf C i ≤ N - 1 := by
        by_cases h : bfOf C i ≤ N - 1
        · exact h
        · have hi : i < N - 1 := by
            by_cases h' : i < N - 1
            · exact h'
            · exact absurd c (hM i (by omega))
          exact absurd (d (N - 1) hi (by omega)) (hM _ (Int.le_refl _))
      omega
    · omega
  · intro i h1 h2 hlt
    rcases sp i h1 with ⟨c, a, b, d⟩ | ⟨c, a, b, d, e⟩
    · omega
    · constructor
      · intro k hk1 hk2
        rcases sp k (by omega) with ⟨_, a', _, _⟩ | ⟨c', _⟩
        · exact a'
        · exact absurd (e k hk1 hk2) c'
      · by_cases hz : bfOf C i = 0
        · exact Or.inl hz
        · right
          rcases sp (bfOf C i) (by omega) with ⟨c', _⟩ | ⟨_, a', _⟩
          · exact absurd c' d
          · exact a'
  · intro i h1 h2 hgt k hk1 hk2
    rcases sp i h1 with ⟨c, a, b, d⟩ | ⟨c, a, b, d, e⟩
    · rcases sp k (by omega) with ⟨_, a', _, _⟩ | ⟨c', _⟩
      · exact a'
      · exact absurd (d k hk1 hk2) c'
    · omega
  · rcases sp N (by omega) with ⟨c, _⟩ | ⟨_, a, _⟩
    · exact absurd c (hM N (by omega))
    · exact a

section
variable {N : Int} {bd rx ry bf κ : Int → Int} {all U V : List Int}

/-! ### theorem 1: zones -/

/-- the node `k` lies inside a rank interval exactly filled by `V` -/
def Cov (N : Int) (bd rx ry : Int → Int) (V : List Int) (k : Int) : Prop :=
  ∃ a r, 1 ≤ a ∧ a ≤ k ∧ k < r ∧ r ≤ N - 1 ∧ cinR rx ry V a r ≥ bd r - bd a

/-- the union of two overlapping or adjacent exactly filled intervals is exactly filled -/
theorem tight_union (hVr : ∀ u ∈ V, rx u < ry u)
    (hVb : ∀ ja yb, 1 ≤ ja → ja < yb → yb ≤ N → cinR rx ry V ja yb ≤ bd yb - bd ja)
    {a1 r1 a2 r2 : Int} (h1 : 1 ≤ a1) (h12 : a1 ≤ a2) (h2 : a2 ≤ r1) (h3 : r1 ≤ r2)
    (h4 : r2 ≤ N) (t1 : cinR rx ry V a1 r1 ≥ bd r1 - bd a1)
    (t2 : cinR rx ry V a2 r2 ≥ bd r2 - bd a2) : cinR rx ry V a1 r2 ≥ bd r2 - bd a1 := by
  have hu := cinR_union rx ry a1 a2 r1 r2 h12 h3 V
  by_cases hc : a2 < r1
  · have := hVb a2 r1 (by omega) hc (by omega)
    omega
  · have e : a2 = r1 := by omega
    subst e
    rw [cinR_void hVr (Int.le_refl _)] at hu
    omega

/-- a run of covered nodes that starts after a non-covered node is exactly filled up to some
    node beyond any of its nodes -/
theorem run_tight (hVr : ∀ u ∈ V, rx u < ry u)
    (hVb : ∀ ja yb, 1 ≤ ja → ja < yb → yb ≤ N → cinR rx ry V ja yb ≤ bd yb - bd ja)
    {s : Int} (hs : 1 ≤ s) (hns : ∀ a r, 1 ≤ a → a < s → s ≤ r → r ≤ N - 1 →
      ¬ cinR rx ry V a r ≥ bd r - bd a) :
    ∀ m, s + 1 ≤ m → (∀ k, s ≤ k → k < m → Cov N bd rx ry V k) →
      ∃ r', m ≤ r' ∧ r' ≤ N - 1 ∧ cinR rx ry V s r' ≥ bd r' - bd s := by
  apply int_le_ind
  · intro hc
    obtain ⟨a, r, h1, h2, h3, h4, h5⟩ := hc s (Int.le_refl _) (by omega)
    have : a = s := by
      by_cases h : a = s
      · exact h
      · exact absurd h5 (hns a r h1 (by omega) (by omega) h4)
    subst this
    exact ⟨r, by omega, h4, h5⟩
  · intro m hm ih hc
    obtain ⟨r', q1, q2, q3⟩ := ih (fun k h1 h2 => hc k h1 (by omega))
    by_cases hr : m + 1 ≤ r'
    · exact ⟨r', hr, q2, q3⟩
    · have e : r' = m := by omega
      subst e
      obtain ⟨a, r, h1, h2, h3, h4, h5⟩ := hc r' (by omega) (by omega)
      have ha : s ≤ a := by
        by_cases h : s ≤ a
        · exact h
        · exact absurd h5 (hns a r h1 (by omega) (by omega) h4)
      exact ⟨r, by omega, h4, tight_union hVr hVb hs ha h2 (by omega) (by omega) q3 h5⟩

/-- THEOREM 1: a matching that respects the capacities and has a zone certificate for each of its
    unused variables is complete -/
theorem matching_complete_of_zones {N : Int} {bd rx ry : Int → Int} {all V : List Int}
    {κ : Int → Int}
    (hctx : WCtx N bd rx ry all) (hnodup : all.Nodup) (hVn : V.Nodup) (hVs : ∀ u ∈ V, u ∈ all)
    (htop : bd (N - 1) < bd N)
    (hVb : ∀ ja yb, 1 ≤ ja → ja < yb → yb ≤ N → cinR rx ry V ja yb ≤ bd yb - bd ja)
    (huz : ∀ p ∈ all, p ∉ V → ∃ a, 1 ≤ a ∧ a ≤ rx p ∧ cinR rx ry V a (ry p) ≥ bd (ry p) - bd a)
    (hκ : CellSol N bd rx ry all κ) :
    cinR rx ry V 1 (N - 1) ≥ bd (N - 1) - bd 1 := by
  have hVr : ∀ u ∈ V, rx u < ry u := fun u hu => (hctx.rk u (hVs u hu)).2.1
  have hN := hctx.hN
  have h0 : ¬ Cov N bd rx ry V 0 := by
    intro ⟨a, r, h1, h2, _⟩; omega
  have hM : ∀ k, N - 1 ≤ k → ¬ Cov N bd rx ry V k := by
    intro k hk ⟨a, r, h1, h2, h3, h4, _⟩; omega
  have sp := fun k hk => bfOf_spec (M := N - 1) h0 hM k hk
  have hL : LFin N bd rx ry all V (bfOf (Cov N bd rx ry V)) := by
    refine ⟨hctx, hnodup, hVn, hVs, htop, bfOf_chain hN h0 hM, hVb, ?_, ?_⟩
    · intro r h1 h2 h3 h4
      rcases sp r h1 with ⟨c, a, b, d⟩ | ⟨c, a, b, d, e⟩
      · omega
      · obtain ⟨r', q1, q2, q3⟩ := run_tight hVr hVb
          (s := bfOf (Cov N bd rx ry V) r + 1) (by omega)
          (fun a' r'' g1 g2 g3 g4 g5 =>
            d ⟨a', r'', g1, by omega, by omega, g4, g5⟩)
          r (by omega) (fun k k1 k2 => e k (by omega) k2)
        have : r' = r := by
          by_cases h : r' = r
          · exact h
          · exact absurd ⟨bfOf (Cov N bd rx ry V) r + 1, r', by omega, by omega, by omega,
              q2, q3⟩ c
        subst this
        exact q3
    · intro p hp hpV k k1 k2
      obtain ⟨a, a1, a2, a3⟩ := huz p hp hpV
      have hrk := hctx.rk p hp
      have hc : Cov N bd rx ry V k := ⟨a, ry p, a1, by omega, k2, by omega, a3⟩
      rcases sp k (by omega) with ⟨_, a', _⟩ | ⟨c', _⟩
      · exact a'
      · exact absurd hc c'
  exact (lfin_tight hL hκ).2.2

/-! ### theorem 2: the stable runs of another pass -/

/-- the non-stable variables are at most the demand of the non-stable cells -/
theorem nonstable_count (h : LFin N bd rx ry all U bf) (hκ : CellSol N bd rx ry all κ) :
    ((all.countP (fun p => !stvB bf rx ry p) : Nat) : Int) ≤ sumI (DN bd bf) 1 (N - 1) := by
  obtain ⟨t1, t2, _⟩ := lfin_tight h hκ
  have hN := h.ctx.hN
  have hN1 : (1 : Int) ≤ N - 1 := by omega
  have hrk := h.ctx.rk
  have hm : all.countP (fun p => !stvB bf rx ry p) ≤
      all.countP (fun p => !decide (bf (κ p) > κ p)) := by
    apply List.countP_mono_left
    intro p hp hq
    simp only [Bool.not_eq_true', stvB_false] at hq
    have := t1 p hp hq
    unfold St at this
    simp only [Bool.not_eq_true', decide_eq_false_iff_not]
    exact this
  have hc1 : all.countP (fun p => decide (1 ≤ κ p) && decide (κ p < N - 1) &&
        !decide (bf (κ p) > κ p)) = all.countP (fun p => !decide (bf (κ p) > κ p)) := by
    apply List.countP_congr
    intro p hp
    have := hrk p hp
    have := hκ.dom p hp
    have e1 : decide (1 ≤ κ p) = true := decide_eq_true (by omega)
    have e2 : decide (κ p < N - 1) = true := decide_eq_true (by omega)
    rw [e1, e2]; simp
  have hB := countP_cells all κ (fun k => !decide (bf k > k)) 1 (N - 1) hN1
  have hcongr : sumI (fun k => if (!decide (bf k > k)) = true then
        ((all.countP (fun p => decide (κ p = k)) : Nat) : Int) else 0) 1 (N - 1) =
      sumI (DN bd bf) 1 (N - 1) := by
    apply sumI_congr (N - 1) hN1
    intro k h1 h2
    unfold DN
    by_cases hk : bf k > k
    · simp [hk]
    · simp only [hk, if_false, decide_false, Bool.not_false, if_true]
      exact t2 k (by omega) (by omega) hk
  omega

/-- the stable variables of a complete matching are at least the demand of the stable cells -/
theorem stable_total (h : LFin N bd rx ry all U bf) (hκ : CellSol N bd rx ry all κ)
    (hVn : V.Nodup) (hVs : ∀ u ∈ V, u ∈ all)
    (hVc : cinR rx ry V 1 (N - 1) ≥ bd (N - 1) - bd 1) :
    sumI (DS bd bf) 1 (N - 1) ≤
      ((V.countP (fun p => confB rx ry 1 (N - 1) p && stvB bf rx ry p) : Nat) : Int) := by
  have hN := h.ctx.hN
  have hA := nonstable_count h hκ
  have hsp := countP_split V (confB rx ry 1 (N - 1)) (stvB bf rx ry)
  have hsub := countP_sub h.nodup hVn hVs (fun p => !stvB bf rx ry p)
  have h1 : V.countP (fun p => confB rx ry 1 (N - 1) p && !stvB bf rx ry p) ≤
      V.countP (fun p => !stvB bf rx ry p) := by
    apply List.countP_mono_left
    intro p _ hq
    simp only [Bool.and_eq_true] at hq
    exact hq.2
  have h2 : all.countP (fun p => decide (p ∈ V) && !stvB bf rx ry p) ≤
      all.countP (fun p => !stvB bf rx ry p) := by
    apply List.countP_mono_left
    intro p _ hq
    simp only [Bool.and_eq_true] at hq
    exact hq.2
  have hsum := sumI_DS_DN bd bf (by omega : (1 : Int) ≤ N - 1)
  rw [cinR_eq] at hVc
  omega

/-- below a non-stable cell the stable variables of a complete matching are exactly the demand of
    the stable cells -/
theorem stable_below_root (hctx : WCtx N bd rx ry all) (hVs : ∀ u ∈ V, u ∈ all)
    (hVb : ∀ ja yb, 1 ≤ ja → ja < yb → yb ≤ N → cinR rx ry V ja yb ≤ bd yb - bd ja)
    (hB : sumI (DS bd bf) 1 (N - 1) ≤
      ((V.countP (fun p => confB rx ry 1 (N - 1) p && stvB bf rx ry p) : Nat) : Int))
    (r : Int) (hr1 : 1 ≤ r) (hrN : r ≤ N - 1) (hns : ¬ bf r > r) :
    ((V.countP (fun p => confB rx ry 1 r p && stvB bf rx ry p) : Nat) : Int) =
      sumI (DS bd bf) 1 r := by
  have u1 := stable_upper (bf := bf) hctx hVs hVb 1 (by omega) r hr1 (by omega)
  have u2 := stable_upper (bf := bf) hctx hVs hVb r hr1 (N - 1) hrN (by omega)
  have sp := sumI_split (DS bd bf) hr1 (N - 1) hrN
  have h5 := countP_le_add (L := V)
    (q := fun p => confB rx ry 1 (N - 1) p && stvB bf rx ry p)
    (q1 := fun p => confB rx ry 1 r p && stvB bf rx ry p)
    (q2 := fun p => confB rx ry r (N - 1) p && stvB bf rx ry p)
    (by
      intro p hp hq
      simp only [Bool.and_eq_true, confB_true, stvB_true] at hq ⊢
      by_cases hc : ry p ≤ r
      · exact Or.inl ⟨⟨hq.1.1, hc⟩, hq.2⟩
      · refine Or.inr ⟨⟨?_, hq.1.2⟩, hq.2⟩
        by_cases hc2 : r ≤ rx p
        · exact hc2
        · exact absurd (hq.2 r (by omega) (by omega)) hns)
  omega

set_option linter.unusedVariables false in
/-- THEOREM 2: a complete matching that respects the capacities fills exactly the stable runs of
    the pointer structure of any pass -/
theorem runs_filled_of_complete {N : Int} {bd rx ry : Int → Int} {all U V : List Int}
    {bf κ : Int → Int}
    (h : LFin N bd rx ry all U bf) (hκ : CellSol N bd rx ry all κ)
    (hVn : V.Nodup) (hVs : ∀ u ∈ V, u ∈ all)
    (hVb : ∀ ja yb, 1 ≤ ja → ja < yb → yb ≤ N → cinR rx ry V ja yb ≤ bd yb - bd ja)
    (hVw : ∀ p ∈ all, ¬ StV bf rx ry p → p ∈ V)
    (hVc : cinR rx ry V 1 (N - 1) ≥ bd (N - 1) - bd 1) :
    ∀ r, 1 ≤ r → r ≤ N → bf r < r → bf r + 1 < r →
      cinR rx ry V (bf r + 1) r ≥ bd r - bd (bf r + 1) := by
  intro r hr1 hrN hroot hrun
  have hN := h.ctx.hN
  have htop := h.top
  have hrN1 : r ≤ N - 1 := by
    by_cases e : r = N
    · subst e; omega
    · omega
  obtain ⟨hup, hnext⟩ := h.cb.down r hr1 hrN hroot
  have hrng := h.cb.rng r hr1 hrN
  have hB := stable_total h hκ hVn hVs hVc
  have hCr := stable_below_root h.ctx hVs hVb hB r hr1 hrN1 (by omega)
  have hrunS : sumI (DS bd bf) (bf r + 1) r = bd r - bd (bf r + 1) :=
    sumI_DS_run bd (by omega) (fun k k1 k2 => hup k (by omega) k2)
  rw [cinR_eq]
  by_cases h0 : bf r = 0
  · have e : bf r + 1 = 1 := by omega
    rw [e] at hrunS ⊢
    have := List.countP_mono_left (l := V)
      (p := fun p => confB rx ry 1 r p && stvB bf rx ry p) (q := confB rx ry 1 r)
      (by intro p _ hq; simp only [Bool.and_eq_true] at hq; exact hq.1)
    omega
  · have hra : bf (bf r) < bf r := by
      rcases hnext with h1 | h1
      · exact absurd h1 h0
      · exact h1
    have hCa := stable_below_root h.ctx hVs hVb hB (bf r) (by omega) (by omega) (by omega)
    have h5 := countP_le_add (L := V)
      (q := fun p => confB rx ry 1 r p && stvB bf rx ry p)
      (q1 := fun p => confB rx ry 1 (bf r) p && stvB bf rx ry p)
      (q2 := confB rx ry (bf r + 1) r)
      (by
        intro p hp hq
        simp only [Bool.and_eq_true, confB_true, stvB_true] at hq ⊢
        by_cases hc : ry p ≤ bf r
        · exact Or.inl ⟨⟨hq.1.1, hc⟩, hq.2⟩
        · refine Or.inr ⟨?_, hq.1.2⟩
          by_cases hc2 : bf r + 1 ≤ rx p
          · exact hc2
          · have := hq.2 (bf r) (by omega) (by omega)
            omega)
    have s1 := sumI_split (DS bd bf) (by omega : (1 : Int) ≤ bf r) r (by omega)
    have s2 := sumI_split (DS bd bf) (by omega : bf r ≤ bf r + 1) r (by omega)
    have s3 : sumI (DS bd bf) (bf r) (bf r + 1) = 0 := by
      rw [sumI_one]; unfold DS; rw [if_neg (by omega)]
    omega

end

end Gcc
end Nucs
