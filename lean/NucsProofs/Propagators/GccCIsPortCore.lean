import NucsProofs.Propagators.GccC
import NucsProofs.Propagators.GccExact
import NucsProofs.Propagators.PortGcc
/-!
  The certificate checker `checkGcc` accepts every answer of the raw port `gcc`, hence the
  registered model `gccC` IS the port (it never falls back) — PARAMETRICALLY in the hard direction
  of Hoffman's condition (`GccHard`: a box without a violated set of values contains a solution),
  in the same way as `checkAllDiff_port` / `alldifferentC_eq_port` (AlldiffCorrectG1.lean) take
  Hall's theorem as the hypothesis `hmatch`.
-/
namespace Nucs

/-- the hard direction of Hoffman's condition for the parameters `ps`: no violated set of values
    ⟹ the box contains a solution -/
def GccHard (ps : List Int) : Prop :=
  ∀ B : Box, Contract .gcc ps B → B.Nonempty → gccInfeasible ps B = false →
    ∃ t, inBox t B ∧ rel .gcc ps t

namespace GccCore

theorem getDom_mem {B : Box} {k : Nat} (hk : k < B.length) : getDom B k ∈ B := by
  unfold getDom; simp [List.getD, List.getElem?_eq_getElem hk]

/-- fixing one variable to a value of the allowed range keeps the contract -/
theorem contract_set {ps : List Int} {B : Box} (hc : Contract .gcc ps B) (i : Nat) (v : Int)
    (h1 : getI ps 0 ≤ v) (h2 : v ≤ getI ps 0 + ((ps.length - 1) / 2 : Nat) - 1) :
    Contract .gcc ps (B.set i (v, v)) := by
  simp only [Contract] at hc ⊢
  obtain ⟨c1, c2, c3, c4, c5⟩ := hc
  refine ⟨c1, c2, by rw [List.length_set]; exact c3, ?_, c5⟩
  intro d hd
  rcases List.mem_or_eq_of_mem_set hd with hd | hd
  · exact c4 d hd
  · subst hd; exact ⟨h1, h2⟩

theorem nonempty_set {B : Box} (hB : B.Nonempty) (i : Nat) (v : Int) :
    Box.Nonempty (B.set i (v, v)) := by
  intro d hd
  rcases List.mem_or_eq_of_mem_set hd with hd | hd
  · exact hB d hd
  · subst hd; exact Int.le_refl _

/-- a tuple of the box with `x_i` fixed to a value `v` of its domain is a tuple of the box that
    takes `v` at position `i` -/
theorem inBox_of_set : ∀ (t : List Int) (B : Box) (i : Nat) (v : Int), i < B.length →
    (getDom B i).1 ≤ v → v ≤ (getDom B i).2 → inBox t (B.set i (v, v)) →
    inBox t B ∧ getI t i = v
  | [], [], _, _, hi, _, _, _ => by simp at hi
  | [], _ :: _, 0, _, _, _, _, h => by simp [inBox] at h
  | [], _ :: _, _ + 1, _, _, _, _, h => by simp [inBox] at h
  | _ :: _, [], _, _, hi, _, _, _ => by simp at hi
  | x :: xs, d :: ds, 0, v, _, h1, h2, h => by
    simp only [List.set_cons_zero] at h
    simp only [getDom, List.getD_cons_zero] at h1 h2
    have hx : v ≤ x ∧ x ≤ v := h.1
    have e : x = v := by omega
    refine ⟨⟨?_, h.2⟩, by simp [getI, e]⟩
    show d.1 ≤ x ∧ x ≤ d.2
    omega
  | x :: xs, d :: ds, i + 1, v, hi, h1, h2, h => by
    simp only [List.set_cons_succ] at h
    simp only [getDom, List.getD_cons_succ] at h1 h2
    have ih := inBox_of_set xs ds i v (by simpa using hi) h1 h2 h.2
    refine ⟨⟨h.1, ih.1⟩, ?_⟩
    simpa [getI] using ih.2

theorem removedOk_of (ps : List Int) (B : Box) (i : Nat) (d d' : Dom)
    (h1 : ∀ v, d.1 ≤ v → v < d'.1 → gccInfeasible ps (B.set i (v, v)) = true)
    (h2 : ∀ v, d'.2 < v → v ≤ d.2 → gccInfeasible ps (B.set i (v, v)) = true) :
    gccRemovedOk ps B i d d' = true := by
  unfold gccRemovedOk
  rw [Bool.and_eq_true, List.all_eq_true, List.all_eq_true]
  constructor
  · intro k hk
    rw [List.mem_range] at hk
    exact h1 _ (by omega) (by omega)
  · intro k hk
    rw [List.mem_range] at hk
    exact h2 _ (by omega) (by omega)

theorem checkDoms_of (ps : List Int) (B0 : Box) : ∀ (ds ds' : Box) (i : Nat),
    ds.length = ds'.length →
    (∀ k, k < ds.length → (getDom ds k).1 ≤ (getDom ds' k).1 ∧
      (getDom ds' k).1 ≤ (getDom ds' k).2 ∧ (getDom ds' k).2 ≤ (getDom ds k).2 ∧
      gccRemovedOk ps B0 (i + k) (getDom ds k) (getDom ds' k) = true) →
    gccCheckDoms ps B0 i ds ds' = true
  | [], [], _, _, _ => rfl
  | [], _ :: _, _, h, _ => by simp at h
  | _ :: _, [], _, h, _ => by simp at h
  | d :: ds, d' :: ds', i, hl, h => by
    have h0 := h 0 (by simp)
    simp only [getDom, List.getD_cons_zero, Nat.add_zero] at h0
    have ih := checkDoms_of ps B0 ds ds' (i + 1) (by simpa using hl) (fun k hk => by
      have := h (k + 1) (by simpa using hk)
      simp only [getDom, List.getD_cons_succ] at this
      have e : i + (k + 1) = i + 1 + k := by omega
      rw [e] at this
      exact this)
    simp only [gccCheckDoms, Bool.and_eq_true, decide_eq_true_eq]
    exact ⟨⟨⟨⟨h0.1, h0.2.1⟩, h0.2.2.1⟩, h0.2.2.2⟩, ih⟩

/-- a value of `x_i` that no solution of `B` takes is refuted by the certificate -/
theorem infeasible_of_removed {ps : List Int} {B : Box} (hc : Contract .gcc ps B) (hB : B.Nonempty)
    (hfeas : GccHard ps) (i : Nat) (hi : i < B.length) (v : Int)
    (h1 : (getDom B i).1 ≤ v) (h2 : v ≤ (getDom B i).2)
    (hno : ∀ t, inBox t B → rel .gcc ps t → getI t i ≠ v) :
    gccInfeasible ps (B.set i (v, v)) = true := by
  by_cases hinf : gccInfeasible ps (B.set i (v, v)) = true
  · exact hinf
  · exfalso
    have hw := hc.2.2.2.1 _ (getDom_mem hi)
    have hc' : Contract .gcc ps (B.set i (v, v)) := contract_set hc i v (by omega) (by omega)
    obtain ⟨t, ht, hrel⟩ := hfeas _ hc' (nonempty_set hB i v) (by simpa using hinf)
    obtain ⟨htB, hv⟩ := inBox_of_set t B i v hi h1 h2 ht
    exact hno t htB hrel hv

end GccCore

/-- **the checker accepts every answer of the port** (given the hard direction of Hoffman's
    condition, and `m ≤ 12`, the size limit of the checker) -/
theorem checkGcc_port_core (ps : List Int) (B : Box) (hc : Contract .gcc ps B) (hB : B.Nonempty)
    (hu : ∀ j, j < (ps.length - 1) / 2 → 1 ≤ getI ps (1 + (ps.length - 1) / 2 + j))
    (hm : gccM ps ≤ 12) (hfeas : GccHard ps)
    (st : Status) (B' : Box) (h : gcc ps B = .ok (st, B')) : checkGcc ps B st B' = true := by
  have hsound := gcc_port_sound ps B hc hB hu st B' h
  unfold checkGcc
  rw [if_neg (by omega)]
  by_cases hst : st = .inc
  · subst hst
    show gccInfeasible ps B = true
    by_cases hinf : gccInfeasible ps B = true
    · exact hinf
    · obtain ⟨t, ht, hrel⟩ := hfeas B hc hB (by simpa using hinf)
      exact absurd hrel (hsound.2 rfl t ht)
  · obtain ⟨hle, hne, hkeep⟩ := hsound.1 hst
    have hcons := (gcc_port_supported_aux ps B hc hB hu st B' h hst).1
    subst hcons
    have hlen := Box.le_length hle
    show (gccCheckDoms ps B 0 B B' && (!B'.isGround || gccOkB ps (B'.map (·.1)))) = true
    rw [Bool.and_eq_true]
    constructor
    · apply GccCore.checkDoms_of ps B B B' 0 hlen.symm
      intro k hk
      have hg := Box.le_get k hle hk
      have hn := Box.nonempty_get hne k (by omega)
      refine ⟨hg.1, hn, hg.2, ?_⟩
      rw [Nat.zero_add]
      apply GccCore.removedOk_of
      · intro v h1 h2
        apply GccCore.infeasible_of_removed hc hB hfeas k hk v h1 (by omega)
        intro t ht hrel hv
        have := inBox_get k (hkeep t ht hrel) (by omega)
        omega
      · intro v h1 h2
        apply GccCore.infeasible_of_removed hc hB hfeas k hk v (by omega) h2
        intro t ht hrel hv
        have := inBox_get k (hkeep t ht hrel) (by omega)
        omega
    · by_cases hg : B'.isGround = true
      · obtain ⟨t, ht, hrel⟩ := gcc_port_feasible ps B hc hB hu .cons B' h hst
        have e := gcc_eq_map_fst_of_ground (hkeep t ht hrel) hg
        rw [Bool.or_eq_true]
        right
        rw [gccOkB_iff, ← e]
        exact hrel
      · simp only [Bool.not_eq_true] at hg
        rw [hg]; rfl

/-- **the registered model is the port**: `gccC` never falls back -/
theorem gccC_is_port_core (ps : List Int) (B : Box) (hc : Contract .gcc ps B) (hB : B.Nonempty)
    (hu : ∀ j, j < (ps.length - 1) / 2 → 1 ≤ getI ps (1 + (ps.length - 1) / 2 + j))
    (hm : gccM ps ≤ 12) (hfeas : GccHard ps) :
    ∃ st B', gcc ps B = .ok (st, B') ∧ gccC ps B = .ok (st, if st = .inc then B else B') := by
  obtain ⟨⟨st, B'⟩, hr⟩ := C16_port_gcc_ok ps B hc hB hu
  refine ⟨st, B', hr, ?_⟩
  unfold gccC
  rw [hr]
  simp only [checkGcc_port_core ps B hc hB hu hm hfeas st B' hr, if_true]

theorem gccC_never_fellBack_core (ps : List Int) (B : Box) (hc : Contract .gcc ps B)
    (hB : B.Nonempty)
    (hu : ∀ j, j < (ps.length - 1) / 2 → 1 ≤ getI ps (1 + (ps.length - 1) / 2 + j))
    (hm : gccM ps ≤ 12) (hfeas : GccHard ps) : gccC_fellBack ps B = false := by
  obtain ⟨⟨st, B'⟩, hr⟩ := C16_port_gcc_ok ps B hc hB hu
  unfold gccC_fellBack
  rw [hr]
  simp only [checkGcc_port_core ps B hc hB hu hm hfeas st B' hr, Bool.not_true]

end Nucs
