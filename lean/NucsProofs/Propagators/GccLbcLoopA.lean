import NucsProofs.Propagators.GccLbcDefs
/-!
  The pass `filter_lower_min` of the ported gcc: the main loop of GccExistLMin re-proved with one
  more ghost invariant, about FREEABILITY (`Freeable` of GccLbcDefs).  A cell `c` is REACHABLE
  (`CR c`) when it is one of the cells of a freeable variable; `HR r c` says that the cell `c` is
  reached from the cell `r` through the holders of the cells.  Invariants (`PotR`, `StbR`):
    * every cell of a group of `pot_stbl_sets` is reachable, or reached from the root of the group;
    * the cell just above a node that points up in `stbl_intervals` is reachable.
  Conclusion (`filter_lower_min_free`): a used variable all of whose nodes point up in the output
  `stbl_intervals` is freeable.
-/
namespace Nucs
namespace Gcc
open AllDiff (g upd g2 upd2 ok_bind pure_eq_ok except_bind_ok forIn_list_except range_forIn_eq
  size_upd size_upd2 g_upd g_upd_same g_upd_ne g2_upd2 LChain LStruct LPre phi cinR)

/-! ### reachability -/

/-- the cell `c` is one of the cells of a freeable variable -/
def CR (rx ry cf : Int → Int) (P U : List Int) (c : Int) : Prop :=
  ∃ q, Freeable rx ry cf P U q ∧ rx q < c ∧ c ≤ ry q

/-- the cell `c` is reached from the cell `r`: a holder of `r` covers `c₁`, a holder of `c₁` covers
    `c₂`, … -/
inductive HR (rx ry cf : Int → Int) (U : List Int) (r : Int) : Int → Prop
  | refl : HR rx ry cf U r r
  | step (c1 c2 u : Int) : HR rx ry cf U r c1 → u ∈ U → cf u = c1 → rx u < c2 → c2 ≤ ry u →
      HR rx ry cf U r c2

/-- the ghost state grows: more processed variables, more used variables (keeping their cells), and
    the processed unused variables stay unused -/
structure GMono (cf cf' : Int → Int) (P U P' U' : List Int) : Prop where
  hP : ∀ p ∈ P, p ∈ P'
  hU : ∀ u ∈ U, u ∈ U' ∧ cf' u = cf u
  hun : ∀ p ∈ P, p ∉ U → p ∉ U'

theorem gmono_skip (cf : Int → Int) (P U : List Int) (v : Int) : GMono cf cf P U (P ++ [v]) U :=
  ⟨fun _ h => List.mem_append_left _ h, fun _ h => ⟨h, rfl⟩, fun _ _ h => h⟩

theorem gmono_use (cf : Int → Int) (P U : List Int) (v z : Int) (hvP : v ∉ P) (hvU : v ∉ U) :
    GMono cf (fun u => if u = v then z else cf u) P U (P ++ [v]) (U ++ [v]) := by
  refine ⟨fun _ h => List.mem_append_left _ h, ?_, ?_⟩
  · intro u hu
    have hne : u ≠ v := fun e => hvU (e ▸ hu)
    exact ⟨List.mem_append_left _ hu, by simp only [if_neg hne]⟩
  · intro p hp hpU hmem
    rcases List.mem_append.1 hmem with h | h
    · exact hpU h
    · have : p = v := by simpa using h
      exact hvP (this ▸ hp)

section reach
variable {rx ry cf cf' : Int → Int} {P U P' U' : List Int}

theorem freeable_mono (hm : GMono cf cf' P U P' U') {q : Int} (h : Freeable rx ry cf P U q) :
    Freeable rx ry cf' P' U' q := by
  induction h with
  | unused p h1 h2 => exact .unused p (hm.hP p h1) (hm.hun p h1 h2)
  | step q u _ hu h1 h2 ih =>
    have := hm.hU u hu
    exact .step q u ih this.1 (by rw [this.2]; exact h1) (by rw [this.2]; exact h2)

theorem cr_mono (hm : GMono cf cf' P U P' U') {c : Int} (h : CR rx ry cf P U c) :
    CR rx ry cf' P' U' c := by
  obtain ⟨q, h1, h2, h3⟩ := h
  exact ⟨q, freeable_mono hm h1, h2, h3⟩

theorem hr_mono (hm : GMono cf cf' P U P' U') {r c : Int} (h : HR rx ry cf U r c) :
    HR rx ry cf' U' r c := by
  induction h with
  | refl => exact .refl
  | step c1 c2 u _ hu h1 h2 h3 ih =>
    have := hm.hU u hu
    exact .step c1 c2 u ih this.1 (by rw [this.2]; exact h1) h2 h3

theorem hr_trans {a b c : Int} (h1 : HR rx ry cf U a b) (h2 : HR rx ry cf U b c) :
    HR rx ry cf U a c := by
  induction h2 with
  | refl => exact h1
  | step c1 c2 u _ hu e1 e2 e3 ih => exact .step c1 c2 u ih hu e1 e2 e3

theorem cr_of_hr {r c : Int} (h1 : CR rx ry cf P U r) (h2 : HR rx ry cf U r c) :
    CR rx ry cf P U c := by
  induction h2 with
  | refl => exact h1
  | step c1 c2 u _ hu e1 e2 e3 ih =>
    obtain ⟨q, f1, f2, f3⟩ := ih
    exact ⟨u, .step q u f1 hu (by rw [e1]; exact f2) (by rw [e1]; exact f3), e2, e3⟩

end reach

/-! ### the invariants -/

/-- every cell of a group of `pot_stbl_sets` is reachable, or reached from the root of the group -/
def PotR (N : Int) (rx ry cf : Int → Int) (P U : List Int) (pf : Int → Int) : Prop :=
  ∀ r, 1 ≤ r → r ≤ N → pf r < r → ∀ c, pf r < c → c ≤ r →
    CR rx ry cf P U c ∨ HR rx ry cf U r c

/-- the cell just above a node that points up in `stbl_intervals` is reachable -/
def StbR (N : Int) (rx ry cf : Int → Int) (P U : List Int) (bf : Int → Int) : Prop :=
  ∀ k, 1 ≤ k → k < N → bf k > k → CR rx ry cf P U (k + 1)

theorem lchain_root_above {a : Int → Int} {N : Int} (hc : LChain a N) :
    ∀ (n : Nat) (c : Int), 1 ≤ c → c ≤ N → N - c = (n : Int) →
      ∃ r, c ≤ r ∧ r ≤ N ∧ a r < r ∧ ∀ k, c ≤ k → k < r → a k > k := by
  intro n
  induction n with
  | zero =>
    intro c h1 h2 h3
    have : c = N := by omega
    subst this
    exact ⟨c, Int.le_refl _, Int.le_refl _, hc.top, fun k a b => by omega⟩
  | succ n ih =>
    intro c h1 h2 h3
    by_cases hr : a c < c
    · exact ⟨c, Int.le_refl _, h2, hr, fun k a b => by omega⟩
    · have hne := (hc.rng c h1 h2).2.2
      obtain ⟨r, r1, r2, r3, r4⟩ := ih (c + 1) (by omega) (by omega) (by omega)
      refine ⟨r, by omega, r2, r3, ?_⟩
      intro k k1 k2
      by_cases hk : k = c
      · subst hk; omega
      · exact r4 k (by omega) k2

/-- the group of the cell `c` -/
theorem lchain_group {a : Int → Int} {N : Int} (hc : LChain a N) (c : Int) (h1 : 1 ≤ c)
    (h2 : c ≤ N) :
    ∃ r, c ≤ r ∧ r ≤ N ∧ a r < r ∧ a r < c ∧ ∀ k, c ≤ k → k < r → a k > k := by
  obtain ⟨r, r1, r2, r3, r4⟩ := lchain_root_above hc (N - c).toNat c h1 h2 (by omega)
  refine ⟨r, r1, r2, r3, ?_, r4⟩
  by_cases h : a r < c
  · exact h
  · exfalso
    have hd := (hc.down r (by omega) r2 r3).2
    have := r4 (a r) (by omega) r3
    rcases hd with h0 | h0 <;> omega

section inv
variable {N : Int} {rx ry cf cf' : Int → Int} {P U P' U' : List Int} {pf pf' bf bf' : Int → Int}

theorem potR_mono (hm : GMono cf cf' P U P' U') (h : PotR N rx ry cf P U pf) :
    PotR N rx ry cf' P' U' pf := by
  intro r h1 h2 h3 c c1 c2
  rcases h r h1 h2 h3 c c1 c2 with h | h
  · exact Or.inl (cr_mono hm h)
  · exact Or.inr (hr_mono hm h)

theorem stbR_mono (hm : GMono cf cf' P U P' U') (h : StbR N rx ry cf P U bf) :
    StbR N rx ry cf' P' U' bf :=
  fun k h1 h2 h3 => cr_mono hm (h k h1 h2 h3)

theorem potR_init (hp : ∀ r, 1 ≤ r → r ≤ N → pf r = r - 1) : PotR N rx ry cf P U pf := by
  intro r h1 h2 _ c c1 c2
  rw [hp r h1 h2] at c1
  have : c = r := by omega
  subst this
  exact Or.inr .refl

theorem stbR_init (hb : ∀ r, 1 ≤ r → r ≤ N → bf r = r - 1) : StbR N rx ry cf P U bf := by
  intro k h1 h2 h3
  rw [hb k h1 (by omega)] at h3
  omega

/-- a cell of the merged group belongs to one of the old groups with root in `[w1, w]` -/
theorem potrel_group (hc : LChain pf N) {x w w1 vv : Int} (hx1 : 1 ≤ x)
    (hrel : PotRel N x w pf pf' w1 vv) (c : Int) (c1 : vv < c) (c2 : c ≤ w) :
    ∃ ri, w1 ≤ ri ∧ ri ≤ w ∧ 1 ≤ ri ∧ ri ≤ N ∧ pf ri < ri ∧ pf ri < c ∧ c ≤ ri := by
  have hw1lo := hrel.w1lo
  have hw1w := hrel.w1w
  have hwN := hrel.wN
  have hvx := hrel.vx
  have hvv0 : 0 ≤ vv := by rw [hrel.vdef]; exact (hc.rng w1 (by omega) (by omega)).1
  have hwroot : pf w < w := by
    have : pf' w < w := by rw [hrel.wv]; omega
    exact ((hrel.roots w (by omega) hwN).1 this).1
  obtain ⟨r, r1, r2, r3, r4, r5⟩ := lchain_group hc c (by omega) (by omega)
  have hrw : r ≤ w := by
    by_cases h : r ≤ w
    · exact h
    · have := r5 w c2 (by omega); omega
  have hw1r : w1 ≤ r := by
    by_cases h : w1 ≤ r
    · exact h
    · have := (hc.down w1 (by omega) (by omega) hrel.w1root).1 r (by rw [← hrel.vdef]; omega)
        (by omega)
      omega
  exact ⟨r, hw1r, hrw, by omega, r2, r3, r4, r1⟩

/-- the update of `pot_stbl_sets`, the variable being used (it takes the cell `z`) -/
theorem potR_used (hc : LChain pf N) (h : PotR N rx ry cf P U pf) {v z w1 vv : Int}
    (hx1 : 1 ≤ rx v) (hvP : v ∉ P) (hvU : v ∉ U) (hzy : z ≤ ry v)
    (hrel : PotRel N (rx v) z pf pf' w1 vv) :
    PotR N rx ry (fun u => if u = v then z else cf u) (P ++ [v]) (U ++ [v]) pf' := by
  have hm := gmono_use cf P U v z hvP hvU
  intro r h1 h2 h3 c c1 c2
  by_cases hrz : r = z
  · subst hrz
    rw [hrel.wv] at c1
    obtain ⟨ri, i1, i2, i3, i4, i5, i6, i7⟩ := potrel_group hc hx1 hrel c c1 c2
    have hw1lo := hrel.w1lo
    have hstep : HR rx ry (fun u => if u = v then r else cf u) (U ++ [v]) r ri :=
      .step r ri v .refl (by simp) (by simp) (by omega) (by omega)
    rcases h ri i3 i4 i5 c i6 i7 with h | h
    · exact Or.inl (cr_mono hm h)
    · exact Or.inr (hr_trans hstep (hr_mono hm h))
  · have h4 := ((hrel.roots r h1 h2).1 h3).1
    rw [hrel.keep r h1 h2 h3 hrz] at c1
    exact potR_mono hm h r h1 h2 h4 c c1 c2

/-- the update of `pot_stbl_sets`, the variable being not used: the whole new group is reachable -/
theorem potR_unused (hc : LChain pf N) (h : PotR N rx ry cf P U pf) {v w1 vv : Int}
    (hx1 : 1 ≤ rx v) (hvU : v ∉ U)
    (hrel : PotRel N (rx v) (ry v) pf pf' w1 vv) :
    PotR N rx ry cf (P ++ [v]) U pf' ∧
      ∀ c, vv < c → c ≤ ry v → CR rx ry cf (P ++ [v]) U c := by
  have hm := gmono_skip cf P U v
  have hall : ∀ c, vv < c → c ≤ ry v → CR rx ry cf (P ++ [v]) U c := by
    intro c c1 c2
    obtain ⟨ri, i1, i2, i3, i4, i5, i6, i7⟩ := potrel_group hc hx1 hrel c c1 c2
    have hw1lo := hrel.w1lo
    have hri : CR rx ry cf (P ++ [v]) U ri :=
      ⟨v, .unused v (by simp) hvU, by omega, i2⟩
    rcases h ri i3 i4 i5 c i6 i7 with h | h
    · exact cr_mono hm h
    · exact cr_of_hr hri (hr_mono hm h)
  refine ⟨?_, hall⟩
  intro r h1 h2 h3 c c1 c2
  by_cases hry : r = ry v
  · rw [hry] at c1 c2
    rw [hrel.wv] at c1
    exact Or.inl (hall c c1 c2)
  · have h4 := ((hrel.roots r h1 h2).1 h3).1
    rw [hrel.keep r h1 h2 h3 hry] at c1
    exact potR_mono hm h r h1 h2 h4 c c1 c2

/-- the marking of a stable interval -/
theorem stbR_stable (hcb : LChain bf N) (hm : GMono cf cf' P U P' U')
    (h : StbR N rx ry cf P U bf) {y vv wb vb : Int} (hyN : y ≤ N)
    (hrel : SRel N y bf bf' vv wb vb)
    (hall : ∀ c, vv < c → c ≤ y → CR rx ry cf' P' U' c) :
    StbR N rx ry cf' P' U' bf' := by
  intro k h1 h2 h3
  by_cases hold : bf k > k
  · exact cr_mono hm (h k h1 h2 hold)
  · have hne := (hcb.rng k h1 (by omega)).2.2
    have hroot : bf k < k := by omega
    have hin : vb < k ∧ k < y := by
      by_cases hin : vb < k ∧ k < y
      · exact hin
      · have := (hrel.roots k h1 (by omega)).2 ⟨hroot, hin⟩
        omega
    have hwblo := hrel.wblo
    have hwby := hrel.wby
    have hwk : wb ≤ k := by
      by_cases hwk : wb ≤ k
      · exact hwk
      · have := (hcb.down wb (by omega) (by omega) hrel.wbroot).1 k
          (by rw [← hrel.vbdef]; exact hin.1) (by omega)
        omega
    exact hall (k + 1) (by omega) (by omega)

end inv

/-! ### one iteration of the main loop -/

/-- `lminTest_semC` carrying the freeability invariants.  The invariant about `pot_stbl_sets`
    (already updated) is given for the two possible outcomes of the test. -/
theorem lminTest_semR {N : Int} {sz : Nat} {bounds : Array Int} {l : PSum} {fv m : Int}
    {tl c sets pot stbl : Array Int} {rx ry : Int → Int} {all P U : List Int} {Y : Int}
    {wf cf : Int → Int} (hb : BC bounds N fv m) (hl : PS l fv m)
    (hctx : WCtx N (K l fv bounds) rx ry all)
    (hc : MCore N sz (K l fv bounds) tl c sets) (hp : MPot N sz tl pot stbl)
    (new_mins : Array Int) (hnm : NMOk N new_mins)
    (hsem : ESem N (K l fv bounds) rx ry all P U Y (tlg tl) (dfc (K l fv bounds) c) (g sets) wf)
    (hps : PSem N (K l fv bounds) rx ry P U (g pot) (g stbl))
    (hcell : CellInv N (K l fv bounds) rx ry U (tlg tl) (dfc (K l fv bounds) c) cf)
    (v : Int) (hv : v ∈ all) (hYv : Y ≤ ry v) (hvP : v ∉ P) (hvU : v ∉ U)
    (i z j w : Int) (hi0 : 0 ≤ i) (hi1 : i < new_mins.size)
    (hxz : rx v + 1 ≤ z) (hzN : z ≤ N) (hzr : g tl z < z) (hj : j = g tl z)
    (hall : ∀ k, rx v + 1 ≤ k → k < z → g tl k > k)
    (hpy : g pot (ry v) < ry v) (hsy : g stbl (ry v) < ry v)
    (hlow : z ≤ ry v → ∀ r, 1 ≤ r → r ≤ N → g pot r < r → g pot r ≤ rx v ∨ z ≤ g pot r)
    (hstab : ry v < z → g pot (ry v) ≤ rx v ∧
      phi (K l fv bounds) rx U (ry v) ≤ phi (K l fv bounds) rx U (g pot (ry v)))
    (hsR : StbR N rx ry cf P U (g stbl))
    (hpU : z ≤ ry v →
      PotR N rx ry (fun u => if u = v then z else cf u) (P ++ [v]) (U ++ [v]) (g pot))
    (hpS : ry v < z → PotR N rx ry cf (P ++ [v]) U (g pot) ∧
      ∀ c', g pot (ry v) < c' → c' ≤ ry v → CR rx ry cf (P ++ [v]) U c') :
    ∃ tl' c' sets' stbl' nm' w' U' wf' cf',
      lminTest bounds l i (rx v) (ry v) z j tl c sets stbl new_mins pot w =
        .ok (.yield (tl', c', sets', stbl', pot, nm', w')) ∧
      MCore N sz (K l fv bounds) tl' c' sets' ∧ MPot N sz tl' pot stbl' ∧ NMOk N nm' ∧
      nm'.size = new_mins.size ∧ (∀ Y', ry v ≤ Y' → MBelow N stbl Y' → MBelow N stbl' Y') ∧
      ESem N (K l fv bounds) rx ry all (P ++ [v]) U' (ry v) (tlg tl') (dfc (K l fv bounds) c')
        (g sets') wf' ∧
      PSem N (K l fv bounds) rx ry (P ++ [v]) U' (g pot) (g stbl') ∧
      GStep i v U U' wf wf' new_mins nm' ∧
      CellInv N (K l fv bounds) rx ry U' (tlg tl') (dfc (K l fv bounds) c') cf' ∧
      PotR N rx ry cf' (P ++ [v]) U' (g pot) ∧ StbR N rx ry cf' (P ++ [v]) U' (g stbl') := by
  obtain ⟨hx1, hxy, hyN⟩ := hctx.rk v hv
  have hbsz := hb.hsz
  have hNsz := hc.hsz
  have hsc := hc.sc
  have hs := hc.toLStruct hb hl
  have hz2 : 2 ≤ z := by omega
  have hzr' : tlg tl z < z := by rw [tlg_ge2 tl z hz2]; exact hzr
  have hall' : ∀ k, rx v + 1 ≤ k → k < z → tlg tl k > k := by
    intro k h1 h2; rw [tlg_ge2 tl k (by omega)]; exact hall k h1 h2
  unfold lminTest
  rw [rd_ok c z (by omega) (by omega), ok_bind, rd_ok bounds (ry v) (by omega) (by omega), ok_bind,
    rd_ok bounds z (by omega) (by omega), ok_bind,
    get_sum_bounds_ok hl hb (ry v) z (by omega) hyN (by omega) hzN, ok_bind]
  by_cases hle : g c z ≤ gsum l (g bounds (ry v)) (g bounds z - 1)
  · rw [if_pos hle]
    have hyz : ry v < z := by
      by_cases h : ry v < z
      · exact h
      · have h1 := (gsum_K_neg hl hb (ry v) z (by omega) (by omega) hyN).2
        have h2 := (hc.d1 z hz2 hzN hzr).1
        omega
    obtain ⟨hpx, hphi⟩ := hstab hyz
    obtain ⟨hpR, hcR⟩ := hpS hyz
    obtain ⟨stbl', w', wb, vb, he, hp', hbel, hp1, hsrel⟩ :=
      lminStable_rel hp hNsz (rx v) (ry v) z (by omega) hyN hpy hsy c sets new_mins
    rw [he]
    obtain ⟨tl', he2, hc2, hp2, hroots, hval⟩ :=
      lminFin_relP hc hp' (rx v) z hx1 hxz hzN hzr hall new_mins w'
    refine ⟨tl', c, sets, stbl', new_mins, w', U, wf, cf, he2, hc2, hp2, hnm, rfl, hbel, ?_, ?_,
      Or.inl ⟨rfl, rfl, rfl⟩, cellInv_skip hcell hroots, hpR,
      stbR_stable hp.cb (gmono_skip cf P U v) hsR (by omega) hsrel hcR⟩
    · exact esem_skip hctx hsem hv hYv hroots hval
    · exact psem_stable hctx hp.cb hp'.cb hsem hps hv hYv hp1 hpx hphi hsrel
  · rw [if_neg hle]
    have hzy : z ≤ ry v := by
      by_cases h : z ≤ ry v
      · exact h
      · exfalso
        have h1 := gsum_K hl hb (ry v) z (by omega) (by omega) hzN
        have h2 := (stable_test hctx hs hsem hx1 hxy hYv hxz hzN hzr' hall' (by omega)).1
        rw [dfc_ge2 _ c z hz2] at h2
        omega
    obtain ⟨tl', c', sets', nm', w', z', wn, he, hc', hp', hnm', hsz', hrel, hnme⟩ :=
      lminElse_rel hb hl hc hp new_mins hnm i (rx v) (ry v) z j w hi0 hi1 hx1 hxy hyN hxz hzN hzr hj
        hall hle
    refine ⟨tl', c', sets', stbl, nm', w', U ++ [v], fun u => if u = v then wn else wf u,
      fun u => if u = v then z else cf u, he, hc',
      hp', hnm', hsz', fun _ _ h => h, ?_, ?_, Or.inr ⟨wn, rfl, rfl, hnme⟩,
      cellInv_step hcell hx1 hvU hzy hrel.toLPre, hpU hzy,
      stbR_mono (gmono_use cf P U v z hvP hvU) hsR⟩
    · exact esem_step hctx hs (hc'.toLStruct hb hl) hsem hv hYv hvU hzy hrel (fun u _ => rfl)
    · exact psem_else hs hsem.t hps hx1 hrel.toLPre (hlow hzy)

/-- `lminBody_semC` carrying the freeability invariants -/
theorem lminBody_semR {N : Int} {sz : Nat} {bounds : Array Int} {l : PSum} {fv m : Int}
    {tl c sets pot stbl : Array Int} {rx ry : Int → Int} {all P U : List Int} {Y : Int}
    {wf cf : Int → Int} (hb : BC bounds N fv m) (hl : PS l fv m)
    (hctx : WCtx N (K l fv bounds) rx ry all)
    (hc : MCore N sz (K l fv bounds) tl c sets) (hp : MPot N sz tl pot stbl)
    (new_mins : Array Int) (hnm : NMOk N new_mins)
    (hsem : ESem N (K l fv bounds) rx ry all P U Y (tlg tl) (dfc (K l fv bounds) c) (g sets) wf)
    (hps : PSem N (K l fv bounds) rx ry P U (g pot) (g stbl))
    (hcell : CellInv N (K l fv bounds) rx ry U (tlg tl) (dfc (K l fv bounds) c) cf)
    (hpR : PotR N rx ry cf P U (g pot)) (hsR : StbR N rx ry cf P U (g stbl))
    (ranks : Arr2) (msv : Array Int) (hrx : ∀ u, (g2 ranks u).1 = rx u)
    (hry : ∀ u, (g2 ranks u).2 = ry u) (i w v : Int)
    (hi0 : 0 ≤ i) (hi1 : i < new_mins.size) (hi2 : i < msv.size) (hvi : g msv i = v)
    (hv0 : 0 ≤ v) (hv1 : v < ranks.size)
    (hv : v ∈ all) (hYv : Y ≤ ry v) (hvP : v ∉ P) (hvU : v ∉ U)
    (hbp : MBelow N pot (ry v)) (hbs : MBelow N stbl (ry v)) :
    ∃ tl' c' sets' stbl' pot' nm' w' U' wf' cf',
      lminBody bounds ranks msv l i (tl, c, sets, stbl, pot, new_mins, w) =
        .ok (.yield (tl', c', sets', stbl', pot', nm', w')) ∧
      MCore N sz (K l fv bounds) tl' c' sets' ∧ MPot N sz tl' pot' stbl' ∧ NMOk N nm' ∧
      nm'.size = new_mins.size ∧
      (∀ Y', ry v ≤ Y' → MBelow N pot Y' → MBelow N pot' Y') ∧
      (∀ Y', ry v ≤ Y' → MBelow N stbl Y' → MBelow N stbl' Y') ∧
      ESem N (K l fv bounds) rx ry all (P ++ [v]) U' (ry v) (tlg tl') (dfc (K l fv bounds) c')
        (g sets') wf' ∧
      PSem N (K l fv bounds) rx ry (P ++ [v]) U' (g pot') (g stbl') ∧
      GStep i v U U' wf wf' new_mins nm' ∧
      CellInv N (K l fv bounds) rx ry U' (tlg tl') (dfc (K l fv bounds) c') cf' ∧
      PotR N rx ry cf' (P ++ [v]) U' (g pot') ∧ StbR N rx ry cf' (P ++ [v]) U' (g stbl') := by
  obtain ⟨hx1, hxy, hyN⟩ := hctx.rk v hv
  have hNsz := hc.hsz
  have hst := hc.st
  have hs := hc.toLStruct hb hl
  unfold lminBody
  simp only []
  rw [rd_ok msv i hi0 hi2, ok_bind, hvi, rd2_min_ok ranks v hv0 hv1, ok_bind,
    rd2_max_ok ranks v hv0 hv1, ok_bind, hrx, hry]
  obtain ⟨z, hpm, hz1, hz2, hz3, hz4⟩ := path_max_spec tl 2 N (rx v + 1) (by omega) (by omega)
    (fun k h1 h2 => by
      have := (hc.ct.rng k (by omega) h2).2.1
      rw [tlg_ge2 tl k h1] at this; exact this)
    (fun k h1 h2 h3 q hq1 hq2 => by
      have h3' : tlg tl k > k := by rw [tlg_ge2 tl k h1]; exact h3
      have := hc.ct.up k (by omega) h2 h3' q hq1 (by rw [tlg_ge2 tl k h1]; exact hq2)
      rw [tlg_ge2 tl q (by omega)] at this; exact this)
    (by omega) (by omega)
  have hzr : g tl z < z := by
    have := (hc.ct.rng z (by omega) hz2).2.2
    rw [tlg_ge2 tl z (by omega)] at this
    omega
  have hzr' : tlg tl z < z := by rw [tlg_ge2 tl z (by omega)]; exact hzr
  have hall' : ∀ k, rx v + 1 ≤ k → k < z → tlg tl k > k := by
    intro k h1 h2; rw [tlg_ge2 tl k (by omega)]; exact hz4 k h1 h2
  rw [hpm, ok_bind, rd_ok tl z (by omega) (by omega), ok_bind]
  have hsy : g stbl (ry v) < ry v := root_of_below hp.cb (by omega) (by omega) hbs
  by_cases hzx : z = rx v + 1
  · have hcond : ¬ (z != rx v + 1) = true := by simp [hzx]
    rw [if_neg hcond]
    have hpy : g pot (ry v) < ry v := root_of_below hp.cp (by omega) (by omega) hbp
    obtain ⟨tl', c', sets', stbl', nm', w', U', wf', cf', he, hc', hp', hnm', hsz', hbel, hes, hpsm,
        hgs, hcl, hpR', hsR'⟩ :=
      lminTest_semR hb hl hctx hc hp new_mins hnm hsem hps hcell v hv hYv hvP hvU i z (g tl z) w
        hi0 hi1 hz1 hz2 hzr rfl hz4 hpy hsy (fun _ r _ _ _ => by omega) (fun h => by omega) hsR
        (fun _ => potR_mono (gmono_use cf P U v z hvP hvU) hpR) (fun h => by omega)
    exact ⟨tl', c', sets', stbl', pot, nm', w', U', wf', cf', he, hc', hp', hnm', hsz',
      fun _ _ h => h, hbel, hes, hpsm, hgs, hcl, hpR', hsR'⟩
  · have hcond : (z != rx v + 1) = true := by simp [hzx]
    rw [if_pos hcond]
    obtain ⟨pot', w1, vv, he0, hp0, hbel0, hprel⟩ :=
      lminPot_rel hc hp (rx v) (ry v) z hx1 hxy hyN (by omega) hz2 hzr hz4 hbp
        (fun pot w => lminTest bounds l i (rx v) (ry v) z (g tl z) tl c sets stbl new_mins pot w)
    rw [he0]
    have hmin : min (ry v) z ≤ z := Int.min_le_right _ _
    obtain ⟨hps', hvvx, hdom⟩ := psem_pot hs hsem.t hps hx1 hz1 hz2 hzr' hall' hmin hprel
    have hpy : g pot' (ry v) < ry v :=
      root_of_below hp0.cp (by omega) (by omega) (hbel0 (ry v) (Int.le_refl _) hbp)
    obtain ⟨tl', c', sets', stbl', nm', w', U', wf', cf', he, hc', hp', hnm', hsz', hbel, hes, hpsm,
        hgs, hcl, hpR', hsR'⟩ :=
      lminTest_semR hb hl hctx hc hp0 new_mins hnm hsem hps' hcell v hv hYv hvP hvU i z (g tl z)
        (min (ry v) z) hi0 hi1 hz1 hz2 hzr rfl hz4 hpy hsy
        (fun hzy => by
          have e : min (ry v) z = z := Int.min_eq_right hzy
          rw [e] at hprel
          exact potrel_low hp0.cp (by omega) hprel)
        (fun hyz => by
          have e : min (ry v) z = ry v := Int.min_eq_left (by omega)
          rw [e] at hprel
          rw [hprel.wv]
          exact ⟨hvvx, hdom (ry v) (by omega) hyz⟩)
        hsR
        (fun hzy => by
          have e : min (ry v) z = z := Int.min_eq_right hzy
          rw [e] at hprel
          exact potR_used hp.cp hpR hx1 hvP hvU hzy hprel)
        (fun hyz => by
          have e : min (ry v) z = ry v := Int.min_eq_left (by omega)
          rw [e] at hprel
          rw [hprel.wv]
          exact potR_unused hp.cp hpR hx1 hvU hprel)
    exact ⟨tl', c', sets', stbl', pot', nm', w', U', wf', cf', he, hc', hp', hnm', hsz', hbel0, hbel,
      hes, hpsm, hgs, hcl, hpR', hsR'⟩

/-! ### the main loop -/

theorem lminLoop_semR {N : Int} {sz : Nat} {bounds : Array Int} {l : PSum} {fv m : Int}
    {tl c sets pot stbl : Array Int} {rx ry : Int → Int} (hb : BC bounds N fv m) (hl : PS l fv m)
    (ranks : Arr2) (msv : Array Int) (hrx : ∀ u, (g2 ranks u).1 = rx u)
    (hry : ∀ u, (g2 ranks u).2 = ry u)
    (hctx : WCtx N (K l fv bounds) rx ry msv.toList)
    (hc : MCore N sz (K l fv bounds) tl c sets) (hp : MPot N sz tl pot stbl)
    (hbel : ∀ Y, MBelow N pot Y ∧ MBelow N stbl Y) (wf0 cf0 : Int → Int)
    (hsem : ESem N (K l fv bounds) rx ry msv.toList [] [] 0 (tlg tl) (dfc (K l fv bounds) c)
      (g sets) wf0)
    (hps : PSem N (K l fv bounds) rx ry [] [] (g pot) (g stbl))
    (hcell : CellInv N (K l fv bounds) rx ry [] (tlg tl) (dfc (K l fv bounds) c) cf0)
    (hpR : PotR N rx ry cf0 [] [] (g pot)) (hsR : StbR N rx ry cf0 [] [] (g stbl))
    (n : Int) (new_mins : Array Int) (w : Int)
    (hn : n = msv.size) (hnn : (new_mins.size : Int) = n) (hnm : NMOk N new_mins)
    (hmsv : ∀ i : Int, 0 ≤ i → i < n → 0 ≤ g msv i ∧ g msv i < (ranks.size : Int))
    (hnodup : msv.toList.Nodup)
    (hsorted : ∀ i i' : Int, 0 ≤ i → i ≤ i' → i' < n →
      (g2 ranks (g msv i)).2 ≤ (g2 ranks (g msv i')).2) :
    ∃ s, forIn (rangeUp 0 msv.size) ((tl, c, sets, stbl, pot, new_mins, w) : MSt)
        (lminBody bounds ranks msv l) = .ok s ∧
      ∃ U Y wf cf, MSemPost N sz n (K l fv bounds) rx ry msv s U Y wf ∧
        CellInv N (K l fv bounds) rx ry U (tlg s.1) (dfc (K l fv bounds) s.2.1) cf ∧
        PotR N rx ry cf msv.toList U (g s.2.2.2.2.1) ∧
        StbR N rx ry cf msv.toList U (g s.2.2.2.1) := by
  refine forIn_list_except
    (Inv := fun rest (s : MSt) => ∃ (i : Int) (P U : List Int) (Y : Int) (wf cf : Int → Int),
      rest = rangeUp i msv.size ∧ 0 ≤ i ∧ i ≤ n ∧ P = msv.toList.take i.toNat ∧
      MCore N sz (K l fv bounds) s.1 s.2.1 s.2.2.1 ∧ MPot N sz s.1 s.2.2.2.2.1 s.2.2.2.1 ∧
      NMOk N s.2.2.2.2.2.1 ∧ (s.2.2.2.2.2.1.size : Int) = n ∧
      (∀ i' : Int, i ≤ i' → i' < n →
        MBelow N s.2.2.2.2.1 (ry (g msv i')) ∧ MBelow N s.2.2.2.1 (ry (g msv i'))) ∧
      U.Sublist P ∧
      ESem N (K l fv bounds) rx ry msv.toList P U Y (tlg s.1) (dfc (K l fv bounds) s.2.1)
        (g s.2.2.1) wf ∧
      PSem N (K l fv bounds) rx ry P U (g s.2.2.2.2.1) (g s.2.2.2.1) ∧
      (∀ i' : Int, i ≤ i' → i' < n → Y ≤ ry (g msv i')) ∧
      (∀ i', 0 ≤ i' → i' < i → g msv i' ∈ U → g s.2.2.2.2.2.1 i' = wf (g msv i')) ∧
      CellInv N (K l fv bounds) rx ry U (tlg s.1) (dfc (K l fv bounds) s.2.1) cf ∧
      PotR N rx ry cf P U (g s.2.2.2.2.1) ∧ StbR N rx ry cf P U (g s.2.2.2.1))
    _ _ ?_ ?_ _ _ ?_
  · rintro x rest ⟨tl1, c1, sets1, stbl1, pot1, nm1, w1⟩
      ⟨i, P, U, Y, wf, cf, hr, hi0, hin, hP, hc1, hp1, hnm1, hnn1, hbel1, husub, hes, hpsm, hY,
        hlink, hcl, hpR1, hsR1⟩
    obtain ⟨hlt, hx, hrest⟩ := rangeUp_eq_cons i msv.size x rest hr
    subst hx
    simp only at hc1 hp1 hnm1 hnn1 hbel1 hes hpsm hlink hcl hpR1 hsR1
    left
    have hv := hmsv x hi0 (by omega)
    have hbx := hbel1 x (Int.le_refl _) (by omega)
    have hvall : g msv x ∈ msv.toList := g_mem_toList msv x hi0 hlt
    have hvP : g msv x ∉ P := by rw [hP]; exact g_not_mem_take msv hnodup x hi0 hlt
    have hvU : g msv x ∉ U := fun h => hvP (husub.subset h)
    obtain ⟨tl', c', sets', stbl', pot', nm', w', U', wf', cf', he, hc', hp', hnm', hsz', hbp, hbs,
        hes', hps', hgs, hcl', hpR', hsR'⟩ :=
      lminBody_semR hb hl hctx hc1 hp1 nm1 hnm1 hes hpsm hcl hpR1 hsR1 ranks msv hrx hry x w1
        (g msv x) hi0 (by omega) hlt rfl hv.1 hv.2 hvall (hY x (Int.le_refl _) (by omega)) hvP hvU
        hbx.1 hbx.2
    have hsrt : ∀ i' : Int, x + 1 ≤ i' → i' < n → ry (g msv x) ≤ ry (g msv i') := by
      intro i' h1 h2
      have hs := hsorted x i' hi0 (by omega) h2
      rw [hry, hry] at hs; exact hs
    refine ⟨_, he, x + 1, P ++ [g msv x], U', ry (g msv x), wf', cf', hrest, by omega, by omega, ?_,
      hc', hp', hnm', by simp only; omega, ?_, ?_, hes', hps', hsrt, ?_, hcl', hpR', hsR'⟩
    · rw [take_succ_g msv x hi0 hlt, hP]
    · intro i' h1 h2
      have := hbel1 i' (by omega) h2
      exact ⟨hbp _ (hsrt i' h1 h2) this.1, hbs _ (hsrt i' h1 h2) this.2⟩
    · rcases hgs with ⟨e1, _, _⟩ | ⟨wn, e1, _, _⟩
      · rw [e1]; exact husub.trans (List.sublist_append_left _ _)
      · rw [e1]; exact List.Sublist.append husub (List.Sublist.refl _)
    · intro i' h0 h1 hmem
      simp only
      rcases hgs with ⟨e1, e2, e3⟩ | ⟨wn, e1, e2, e3⟩
      · rw [e1] at hmem
        rw [e2, e3]
        by_cases hi' : i' = x
        · subst hi'; exact absurd hmem hvU
        · exact hlink i' h0 (by omega) hmem
      · rw [e1] at hmem
        rw [e2, e3]
        by_cases hi' : i' = x
        · subst hi'; rw [g_upd_same nm1 i' wn h0 (by omega)]; simp
        · have hne : g msv i' ≠ g msv x :=
            fun h => hi' (g_inj msv hnodup i' x h0 (by omega) hi0 hlt h)
          rw [g_upd_ne nm1 x wn i' hi0 (by omega) h0 hi']
          simp only [hne, if_false]
          have hU : g msv i' ∈ U := by
            rcases List.mem_append.1 hmem with h | h
            · exact h
            · simp at h; exact absurd h hne
          exact hlink i' h0 (by omega) hU
  · rintro ⟨tl1, c1, sets1, stbl1, pot1, nm1, w1⟩
      ⟨i, P, U, Y, wf, cf, hr, hi0, hin, hP, hc1, hp1, hnm1, hnn1, hbel1, husub, hes, hpsm, hY,
        hlink, hcl, hpR1, hsR1⟩
    simp only at hc1 hp1 hnm1 hnn1 hbel1 hes hpsm hlink hcl hpR1 hsR1
    have hi : i = n := by
      by_cases h : i < msv.size
      · rw [rangeUp_cons i msv.size h] at hr; cases hr
      · omega
    subst hi
    rw [take_all msv i hn] at hP
    subst hP
    exact ⟨U, Y, wf, cf, ⟨hc1, hp1, hnn1, hnm1, husub, hes, hpsm, hlink⟩, hcl, hpR1, hsR1⟩
  · exact ⟨0, [], [], 0, wf0, cf0, rfl, Int.le_refl _, by omega, by simp, hc, hp, hnm, hnn,
      fun i' _ _ => ⟨(hbel _).1, (hbel _).2⟩, List.Sublist.refl _, hsem, hps,
      fun i' h0 h1 => by
        have := hmsv i' h0 h1
        have := (hctx.rk _ (g_mem_toList msv i' h0 (by omega))).1
        have := (hctx.rk _ (g_mem_toList msv i' h0 (by omega))).2.1
        omega,
      fun i' h0 h1 => by omega, hcell, hpR, hsR⟩

/-! ### the whole pass -/

/-- a used variable all of whose nodes point up in the compressed `stbl_intervals` is freeable -/
theorem freeable_of_up {N : Int} {Kf rx ry cf tf df : Int → Int} {P U : List Int} {stbl a : Array Int}
    (hcb : LChain (g stbl) N) (hcell : CellInv N Kf rx ry U tf df cf)
    (hsR : StbR N rx ry cf P U (g stbl))
    (hcomp : ∀ k, 1 ≤ k → k ≤ N → CompFact (g stbl) N a k)
    (u : Int) (hu : u ∈ U) (hx1 : 1 ≤ rx u) (hyN : ry u < N)
    (hup : ∀ k, rx u ≤ k → k < ry u → g a k > k) : Freeable rx ry cf P U u := by
  obtain ⟨d1, d2⟩ := hcell.dom u hu
  have hk := hup (cf u - 1) (by omega) (by omega)
  have hne := (hcb.rng (cf u - 1) (by omega) (by omega)).2.2
  have hbf : g stbl (cf u - 1) > cf u - 1 := by
    by_cases h : g stbl (cf u - 1) < cf u - 1
    · have := (hcomp (cf u - 1) (by omega) (by omega)).1 h
      omega
    · omega
  have hcr := hsR (cf u - 1) (by omega) (by omega) hbf
  have e : cf u - 1 + 1 = cf u := by omega
  rw [e] at hcr
  obtain ⟨q, f1, f2, f3⟩ := hcr
  exact .step q u f1 hu f2 f3

/-- `filter_lower_min_cells` with the freeability of the used variables that lie inside a stable
    interval of the output `stbl_intervals` -/
theorem filter_lower_min_free {N : Int} {sz : Nat} {bounds : Array Int} {l : PSum} {fv m : Int}
    (hb : BC bounds N fv m) (hl : PS l fv m) (n : Int) (tl c sets : Array Int)
    (domains ranks : Arr2) (msv stbl pot new_mins : Array Int)
    (hst : tl.size = sz) (hsc : c.size = sz) (hss : sets.size = sz) (hsb : stbl.size = sz)
    (hsp : pot.size = sz) (hNsz : N < sz) (hrs : ranks.size = domains.size)
    (hn : n = msv.size) (hnn : (new_mins.size : Int) = n) (hnm : NMOk N new_mins)
    (hmsv : ∀ i : Int, 0 ≤ i → i < n → 0 ≤ g msv i ∧ g msv i < (domains.size : Int))
    (hranks : ∀ v : Int, 0 ≤ v → v < ranks.size →
      1 ≤ (g2 ranks v).1 ∧ (g2 ranks v).1 < (g2 ranks v).2 ∧ (g2 ranks v).2 < N)
    (hnodup : msv.toList.Nodup)
    (hsorted : ∀ i i' : Int, 0 ≤ i → i ≤ i' → i' < n →
      (g2 ranks (g msv i)).2 ≤ (g2 ranks (g msv i')).2) :
    ∃ r, filter_lower_min n (N - 1) tl c sets bounds domains ranks msv l stbl pot new_mins = .ok r ∧
      (r.1 = true → ∃ (U : List Int) (cf : Int → Int), U.Sublist msv.toList ∧
        (∀ u ∈ U, (g2 ranks u).1 < cf u ∧ cf u ≤ (g2 ranks u).2) ∧
        (∀ k, 2 ≤ k → k ≤ N - 1 → occ cf U k = K l fv bounds k - K l fv bounds (k - 1)) ∧
        (∀ u ∈ U, (∀ k, (g2 ranks u).1 ≤ k → k < (g2 ranks u).2 → g r.2.2.2.2.2.1 k > k) →
          Freeable (fun v => (g2 ranks v).1) (fun v => (g2 ranks v).2) cf msv.toList U u)) := by
  have hN := hb.hN
  rw [filter_lower_min_eq]
  have hNN : N - 1 + 1 = N := by omega
  rw [hNN]
  obtain ⟨s1, s2, he1, he2, hc, hp, hbel, htl, hsets, hpot, hstb, hcd, hnr⟩ :=
    lminInit_semC hb hl tl c sets stbl pot hst hsc hss hsb hsp hNsz
  rw [he1, ok_bind, he2, ok_bind]
  have hctx : WCtx N (K l fv bounds) (fun v => (g2 ranks v).1) (fun v => (g2 ranks v).2)
      msv.toList :=
    wctx_of hb hl ranks msv domains.size hrs (fun i h0 h1 => hmsv i h0 (by omega)) hranks
  have hKb := K_bot hl hb
  have hsem0 : ESem N (K l fv bounds) (fun v => (g2 ranks v).1) (fun v => (g2 ranks v).2)
      msv.toList [] [] 0 (tlg s2.1) (dfc (K l fv bounds) s1.1) (g s1.2.1) (fun _ => 0) := by
    refine esem_init hctx ?_ hsets
    intro z h1 h2 h3
    by_cases hz : z ≤ 1
    · have hz1 : z = 1 := by omega
      subst hz1
      rw [tlg_le1 s2.1 1 (by omega), dfc_le1 _ s1.1 1 (by omega)]
      refine ⟨rfl, ?_⟩
      intro k hk1 hk2
      have : k = 0 := by omega
      rw [this]; exact Int.le_refl _
    · rw [tlg_ge2 s2.1 z (by omega)] at h3 ⊢
      rw [dfc_ge2 _ s1.1 z (by omega)]
      obtain ⟨t1, t2, t3⟩ := htl z (by omega) h2 h3
      exact ⟨t2, fun k hk1 hk2 => by rw [t3 k hk1 hk2]; exact Int.le_refl _⟩
  have hps0 : PSem N (K l fv bounds) (fun v => (g2 ranks v).1) (fun v => (g2 ranks v).2)
      [] [] (g s1.2.2.2.1) (g s1.2.2.1) := psem_init hctx hpot hstb
  have hcell0 : CellInv N (K l fv bounds) (fun v => (g2 ranks v).1) (fun v => (g2 ranks v).2)
      [] (tlg s2.1) (dfc (K l fv bounds) s1.1) (fun _ => 0) := by
    refine cellInv_init ?_ ?_
    · intro k h1 h2
      rw [dfc_ge2 _ s1.1 k h1]; exact hcd k (by omega) h2
    · intro k h1 h2 h3
      rw [tlg_ge2 s2.1 k h1] at h3
      exact hnr k h1 h2 h3
  obtain ⟨s3, he3, U, Y, wf, cf, hpost, hcl, hpR, hsR⟩ :=
    lminLoop_semR hb hl ranks msv (fun _ => rfl) (fun _ => rfl) hctx hc hp hbel (fun _ => 0)
      (fun _ => 0) hsem0 hps0 hcell0 (potR_init hpot) (stbR_init hstb) n new_mins s2.2 hn hnn hnm
      (fun i h0 h1 => by have := hmsv i h0 h1; omega) hnodup hsorted
  rw [he3, ok_bind]
  obtain ⟨tl3, c3, sets3, stbl3, pot3, nm3, w3⟩ := s3
  obtain ⟨hc3, hp3, hnn3, hnm3, husub, hes, hpsm, hlink⟩ := hpost
  simp only at hc3 hp3 hnn3 hnm3 hes hpsm hlink hcl hpR hsR ⊢
  have hss3 := hc3.ss
  rw [rd_ok sets3 (N - 1) (by omega) (by omega), ok_bind]
  by_cases hfail : (g sets3 (N - 1) != 0) = true
  · rw [if_pos hfail]
    exact ⟨_, rfl, fun h => by simp at h⟩
  · rw [if_neg hfail]
    have heq : g sets3 (N - 1) = 0 := by simpa using hfail
    obtain ⟨s4, he4, hs4, hcomp⟩ := lminComp_sem N sz stbl3 w3 hp3.sb hNsz hp3.cb
    rw [he4, ok_bind]
    obtain ⟨d5, he5, hs5, hdom⟩ := lminShrink_sem hb hl n ranks domains msv s4.1 nm3 hn hnn3 hnm3
      (by omega) hrs hmsv (fun v h0 h1 => by have := hranks v h0 h1; omega) hnodup
    rw [he5, ok_bind]
    refine ⟨_, rfl, fun _ => ⟨U, cf, husub, hcl.dom, ?_, ?_⟩⟩
    · by_cases hN3 : 3 ≤ N
      · have hdown := (hc3.cs.down (N - 1) (by omega) (by omega) (by omega)).1
        obtain ⟨ja, j1, j2, j3⟩ := hes.s3 1 (N - 1) (Int.le_refl _) (by omega) (by omega) (by omega)
          (fun m' h1 h2 => hdown m' (by omega) h2)
        have hja : ja = 1 := by omega
        subst hja
        refine cellInv_exact hcl hN3 ?_ ?_ j3
        · intro u hu
          have := hctx.rk u (hes.psub u (hes.usub u hu))
          exact ⟨this.1, this.2.2⟩
        · intro r h1 h2 h3
          rw [tlg_ge2 tl3 r h1] at h3
          rw [dfc_ge2 _ c3 r h1]
          have := (hc3.d1 r h1 h2 h3).1
          omega
      · intro k h1 h2; omega
    · intro u hu hup
      have hrk := hctx.rk u (hes.psub u (hes.usub u hu))
      exact freeable_of_up hp3.cb hcl hsR hcomp u hu hrk.1 hrk.2.2 hup

end Gcc
end Nucs
