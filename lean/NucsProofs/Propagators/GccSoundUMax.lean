import NucsProofs.Propagators.GccSoundDefs
/-!
  Semantic theorem of `Gcc.filter_upper_max` (ported gcc): one iteration of its main loop satisfies
  `AllDiff.URel` / `AllDiff.UPre` with `bd := K u fv bounds` (the capacities), so the semantic
  invariant `AllDiff.LSem` of AlldiffCorrectMath and its preservation are reused through the mirror
  image `k ↦ M + 1 - k`, exactly as `AllDiff.filter_upper_sem` does for alldifferent.
  The new bound written in `domains` is a `bounds[w] - 1`, whereas the capacities are measured by
  `K`; the ghost function `wf` of the loop invariant remembers the `w` of each variable.
-/
namespace Nucs
namespace Gcc

open AllDiff (g upd g2 upd2 ok_bind pure_eq_ok except_bind_ok forIn_list_except range_forIn_eq
  size_upd size_upd2 g_upd g_upd_same g_upd_ne UChain UPre URel mir mirv mbd lchain_of_uchain
  upre_to_lpre urel_to_lrel LStruct LSem RankCtx cinR RFact)

/-! ### the two tests of gcc against the tests of `URel` -/

/-- the tests `d[z] < get_sum …` / `d[z] == get_sum …` are the tests of `URel` for `bd := K` -/
theorem gsum_tests {M : Int} {bounds : Array Int} {u : PSum} {fv m : Int}
    (hb : BC bounds (M + 1) fv m) (hu : PS u fv m) (hus : PSStrict u m)
    (z y dz : Int) (hz0 : 0 ≤ z) (hzM : z ≤ M) (hy1 : 1 ≤ y) (hyM : y ≤ M) (hd : 1 ≤ dz) :
    (dz = gsum u (g bounds z) (g bounds y - 1) ↔ dz + K u fv bounds z = K u fv bounds y) ∧
    (dz < gsum u (g bounds z) (g bounds y - 1) ↔ dz + K u fv bounds z < K u fv bounds y) := by
  by_cases hzy : z < y
  · have := gsum_K hu hb z y hz0 hzy (by omega)
    constructor <;> constructor <;> intro h <;> omega
  · have h1 := gsum_K_neg_strict hu hus hb z y hy1 (by omega) (by omega)
    have h2 := K_mono hu hb y z (by omega) (by omega) (by omega)
    constructor <;> constructor <;> intro h <;> omega

theorem UMInv.toLStruct {M : Int} {sz : Nat} {Kf : Int → Int} {t d h : Array Int}
    (hi : UMInv M sz Kf t d h) :
    LStruct (M + 1) (mir (M + 1) (g t)) (mirv (M + 1) (g d)) (mir (M + 1) (g h)) := by
  refine ⟨lchain_of_uchain hi.ct, lchain_of_uchain hi.ch, ?_, ?_⟩
  · simp only [mir]
    have : M + 1 - 1 = M := by omega
    rw [this, hi.t1]; omega
  · intro i h1 h2 h3
    simp only [mir] at h3
    simp only [mirv]
    exact (hi.d1 (M + 1 - i) (by omega) (by omega) (by omega)).1

/-! ### the Hall-interval marking step -/

theorem umaxTail2_rel {M : Int} {sz : Nat} {bounds t d h : Array Int} {u : PSum} {fv m : Int}
    (hb : BC bounds (M + 1) fv m) (hu : PS u fv m) (hus : PSStrict u m)
    (hi : UMInv M sz (K u fv bounds) t d h) (domains : Arr2) (y j z : Int)
    (hy1 : 1 ≤ y) (hyM : y ≤ M) (hz0 : 0 ≤ z) (hzM : z ≤ M - 1) (hzr : g t z > z)
    (hj : g t z = j) :
    ∃ h', umaxTail2 u bounds y j z t d h domains = .ok (.yield (none, t, d, h', domains)) ∧
      UMInv M sz (K u fv bounds) t d h' ∧
      (g d z + K u fv bounds z = K u fv bounds y → (j = M ∨ g h (j + 1) > j + 1) ∧ g h y > y) ∧
      ∀ k, 0 ≤ k → k ≤ M → (g h' k > k ↔
        (g h k > k ∧ ¬ (g d z + K u fv bounds z = K u fv bounds y ∧ y < k ∧ k < j + 1))) := by
  have hbsz := hb.hsz
  have hNsz := hi.hsz
  have hsd := hi.sd
  have hsh := hi.sh
  have hd1 := hi.d1 z hz0 (by omega) hzr
  have htst := (gsum_tests hb hu hus z y (g d z) hz0 (by omega) hy1 hyM (by omega)).1
  unfold umaxTail2
  rw [rd_ok d z (by omega) (by omega), ok_bind, rd_ok bounds z (by omega) (by omega), ok_bind,
    rd_ok bounds y (by omega) (by omega), ok_bind,
    get_sum_bounds_ok hu hb z y hz0 (by omega) hy1 (by omega), ok_bind]
  by_cases heq : g d z + K u fv bounds z = K u fv bounds y
  · have heq' : g d z = gsum u (g bounds z) (g bounds y - 1) := htst.2 heq
    have hcond : (g d z == gsum u (g bounds z) (g bounds y - 1)) = true := by simpa using heq'
    rw [if_pos hcond]
    have hzlt : z < y := by
      by_cases h1 : y ≤ z
      · have := K_mono hu hb y z (by omega) h1 (by omega); omega
      · omega
    have hzy : z = y - 1 := by
      by_cases h2 : z + 1 < y
      · have := K_strict hu hus hb (z + 1) y (by omega) h2 (by omega); omega
      · omega
    have hfresh : g d z = K u fv bounds (z + 1) - K u fv bounds z := by
      have : z + 1 = y := by omega
      rw [this]; omega
    have hhy : g h y > y := by
      have := hi.l2 z hz0 hzM hzr hfresh
      have h3 : z + 1 = y := by omega
      rw [h3] at this; exact this
    have hjM : j ≤ M := by rw [← hj]; exact hi.toUMCore.root_le z hz0 hzM hzr
    have hl1 := hi.l1 z hz0 hzM hzr
    rw [hj] at hl1
    have hdy := hi.ch.up y (by omega) hyM hhy
    have hry := hi.ch.rng y (by omega) hyM
    have hre : j + 1 = M + 1 ∨ g h (j + 1) > j + 1 := by
      rcases hl1 with h | h
      · left; omega
      · right; exact h
    have hey : g h y ≤ j + 1 := by
      by_cases hle : g h y ≤ j + 1
      · exact hle
      · have := hdy.1 (j + 1) (by omega) (by omega)
        rcases hre with h | h <;> omega
    rw [rd_ok h y (by omega) (by omega), ok_bind]
    obtain ⟨h2, hps, hsz2, hv2⟩ := path_set_up_mark h (g h y) (j + 1) y (by omega) hey
      (by omega)
      (by
        rcases hdy.2 with h0 | h0
        · left; omega
        · right; exact h0)
      (by
        intro p hp1 hp2 hp3
        have hdp := hi.ch.up p (by omega) (by omega) hp3
        have hrp := hi.ch.rng p (by omega) (by omega)
        refine ⟨?_, ?_, fun k hk1 hk2 => by have := hdp.1 k hk1 hk2; omega⟩
        · by_cases hle : g h p ≤ j + 1
          · exact hle
          · have := hdp.1 (j + 1) (by omega) (by omega)
            rcases hre with h | h <;> omega
        · rcases hdp.2 with h0 | h0
          · left
            by_cases hle : g h p ≤ j + 1
            · omega
            · have := hdp.1 (j + 1) (by omega) (by omega)
              rcases hre with h | h <;> omega
          · right; exact h0)
    rw [hps, ok_bind, wr_ok h2 y (j + 1) (by omega) (by omega), ok_bind]
    have ha3 : ∀ k, 0 ≤ k → g (upd h2 y (j + 1)) k =
        if k = y then j + 1 else if g h y ≤ k ∧ k < j + 1 ∧ g h k > k then y else g h k := by
      intro k hk
      rw [g_upd h2 y (j + 1) k (by omega) (by omega) hk]
      by_cases hky : k = y
      · simp [hky]
      · simp only [hky, if_false]; exact hv2 k hk
    obtain ⟨hch', hroots'⟩ := hi.ch.mark hy1 hyM hhy (by omega) hey hre ha3
    have houtside : ∀ r, 0 ≤ r → r ≤ M → g t r > r → ¬ (z < r ∧ r < j) := by
      intro r h1 h2 h3 h4
      have := (hi.ct.up z hz0 (by omega) hzr).1 r h4.1 (by omega)
      omega
    refine ⟨upd h2 y (j + 1), rfl,
      ⟨⟨hi.st, hi.sd, by simp [hsz2, hsh], hi.hsz, hi.ct, hch', hi.t1, hi.d1, ?_, ?_⟩, hi.d2⟩,
      fun _ => ⟨?_, hhy⟩, ?_⟩
    · intro r h1 h2 h3
      have hr1 := hi.toUMCore.root_le r h1 h2 h3
      rcases hi.l1 r h1 h2 h3 with h4 | h4
      · exact Or.inl h4
      · by_cases h5 : g t r = M
        · exact Or.inl h5
        · right
          have hrr := hi.ct.rng r h1 (by omega)
          rw [hroots' (g t r + 1) (by omega) (by omega)]
          refine ⟨h4, fun h6 => ?_⟩
          rcases (hi.ct.up r h1 (by omega) h3).2 with h7 | h7
          · omega
          · exact houtside (g t r) (by omega) (by omega) h7 ⟨by omega, by omega⟩
    · intro r h1 h2 h3 h4
      rw [hroots' (r + 1) (by omega) (by omega)]
      exact ⟨hi.l2 r h1 h2 h3 h4, fun h6 => houtside r h1 (by omega) h3 ⟨by omega, by omega⟩⟩
    · rcases hre with h | h
      · left; omega
      · right; exact h
    · intro k h1 h2
      rw [hroots' k h1 h2]
      constructor
      · rintro ⟨h3, h4⟩; exact ⟨h3, fun h5 => h4 h5.2⟩
      · rintro ⟨h3, h4⟩; exact ⟨h3, fun h5 => h4 ⟨heq, h5⟩⟩
  · have heq' : ¬ g d z = gsum u (g bounds z) (g bounds y - 1) := fun h => heq (htst.1 h)
    have hcond : ¬ (g d z == gsum u (g bounds z) (g bounds y - 1)) = true := by simpa using heq'
    rw [if_neg hcond]
    refine ⟨h, rfl, hi, fun h => absurd h heq, ?_⟩
    intro k _ _
    constructor
    · intro h3; exact ⟨h3, fun h5 => heq h5.1⟩
    · intro h3; exact h3.1

/-! ### from the failure test to the end of the iteration -/

theorem umaxTail_rel {M : Int} {sz : Nat} {bounds t d h : Array Int} {u : PSum} {fv m : Int}
    (hb : BC bounds (M + 1) fv m) (hu : PS u fv m) (hus : PSStrict u m)
    (hc : UMCore M sz (K u fv bounds) t d h) (domains : Arr2)
    (v x y j z : Int)
    (hd2 : g d 0 = K u fv bounds 1 - K u fv bounds 0 ∨
      (z = 0 ∧ g d 0 = K u fv bounds 1 - K u fv bounds 0 - 1))
    (hv0 : 0 ≤ v) (hv1 : v < domains.size) (hx1 : 1 ≤ x) (hxM : x ≤ M) (hy1 : 1 ≤ y) (hyM : y ≤ M)
    (hzx : z ≤ x - 1) (hz0 : 0 ≤ z) (hzr : g t z > z) (hj : g t z = j)
    (hall : ∀ k, z < k → k ≤ x - 1 → g t k < k) :
    (∃ t' h' dom' w, umaxTail u bounds v x y j d h domains t z =
        .ok (.yield (none, t', d, h', dom')) ∧ UMInv M sz (K u fv bounds) t' d h' ∧
        dom'.size = domains.size ∧ ¬ (g d z + K u fv bounds z < K u fv bounds y) ∧
        (∀ k, 0 ≤ k → k ≤ M → (g t' k > k ↔ g t k > k)) ∧
        (∀ k, 0 ≤ k → k ≤ M → g t k > k → g t' k = g t k) ∧
        w ≤ x ∧ 0 ≤ w ∧ g h w > w ∧ (∀ k, w < k → k ≤ x → g h k < k) ∧
        dom' = (if g h x < x then upd2 domains v MAX (g bounds w - 1) else domains) ∧
        (g d z + K u fv bounds z = K u fv bounds y → (j = M ∨ g h (j + 1) > j + 1) ∧ g h y > y) ∧
        (∀ k, 0 ≤ k → k ≤ M → (g h' k > k ↔
          (g h k > k ∧ ¬ (g d z + K u fv bounds z = K u fv bounds y ∧ y < k ∧ k < j + 1))))) ∨
      (umaxTail u bounds v x y j d h domains t z =
        .ok (.done (some (false, t, d, h, domains), t, d, h, domains)) ∧
        g d z + K u fv bounds z < K u fv bounds y) := by
  have hbsz := hb.hsz
  have hNsz := hc.hsz
  have hst := hc.st
  have hsd := hc.sd
  have hsh := hc.sh
  have hd1 := hc.d1 z hz0 (by omega) hzr
  have htst := (gsum_tests hb hu hus z y (g d z) hz0 (by omega) hy1 hyM (by omega)).2
  unfold umaxTail
  rw [rd_ok d z (by omega) (by omega), ok_bind, rd_ok bounds z (by omega) (by omega), ok_bind,
    rd_ok bounds y (by omega) (by omega), ok_bind,
    get_sum_bounds_ok hu hb z y hz0 (by omega) hy1 (by omega), ok_bind]
  by_cases hfail : g d z + K u fv bounds z < K u fv bounds y
  · right; rw [if_pos (htst.2 hfail)]; exact ⟨rfl, hfail⟩
  · left
    rw [if_neg (fun h => hfail (htst.1 h))]
    have hdN : g d 0 = K u fv bounds 1 - K u fv bounds 0 := by
      rcases hd2 with h2 | ⟨h2, h3⟩
      · exact h2
      · subst h2
        have h5 := K_mono hu hb 1 y (by omega) hy1 (by omega)
        omega
    have hdnt : ∀ p, z < p → p ≤ x - 1 → g t p < p ∧ z ≤ g t p := by
      intro p h1 h2
      have := hall p h1 h2
      exact ⟨this, hc.ct.down_ge_root (by omega) h1 hz0 this hzr⟩
    obtain ⟨t3, hps, hsz3, hrel3⟩ := path_set_down_compress t (x - 1) z z hz0 hzx (by omega) hdnt
    obtain ⟨hct3, hroots3, hval3⟩ := hc.ct.compress hz0 hall hrel3
    have hc3 : UMCore M sz (K u fv bounds) t3 d h := hc.replace_t (by omega) hct3 hroots3 hval3
    have hzr3 : g t3 z > z := (hroots3 z hz0 (by omega)).2 hzr
    have hj3 : g t3 z = j := by rw [hval3 z hz0 (by omega) hzr]; exact hj
    rw [hps, ok_bind, rd_ok h x (by omega) (by omega), ok_bind]
    by_cases hhx : g h x < x
    · rw [if_pos hhx, ok_bind]
      have hrx := hc.ch.rng x (by omega) hxM
      obtain ⟨w, hpm, hw1, hw2, hw3, hw4⟩ := path_min_spec h 0 M (g h x) (by omega) (by omega)
        (fun k h1 h2 => (hc.ch.rng k h1 h2).1) (fun k h1 h2 h3 => hc.ch.down k h1 h2 h3)
        (by omega) (by omega)
      have hwr : g h w > w := by have := hc.ch.rng w hw1 (by omega); omega
      have hallh : ∀ k, w < k → k ≤ x → g h k < k := by
        intro k h1 h2
        by_cases hk : k = x
        · subst hk; exact hhx
        · by_cases hk2 : g h x < k
          · exact hc.ch.down x (by omega) hxM hhx k hk2 (by omega)
          · exact hw4 k h1 (by omega)
      have hdnh : ∀ p, w < p → p ≤ x → g h p < p ∧ w ≤ g h p := by
        intro p h1 h2
        have := hallh p h1 h2
        exact ⟨this, hc.ch.down_ge_root (by omega) h1 hw1 this hwr⟩
      rw [hpm, ok_bind, rd_ok bounds w (by omega) (by omega), ok_bind,
        wr2_ok domains v MAX (g bounds w - 1) hv0 hv1, ok_bind]
      obtain ⟨h3, hps', hszh3, hrelh3⟩ := path_set_down_compress h x w w hw1 (by omega)
        (by omega) hdnh
      obtain ⟨hch3, hrootsh3, _⟩ := hc.ch.compress hw1 hallh hrelh3
      rw [hps', ok_bind]
      have hi3 : UMInv M sz (K u fv bounds) t3 d h3 :=
        ⟨hc3.replace_h (by omega) hch3 hrootsh3, hdN⟩
      obtain ⟨h', he, hi', hmk, hroots'⟩ := umaxTail2_rel hb hu hus hi3
        (upd2 domains v MAX (g bounds w - 1)) y j z hy1 hyM hz0 (by omega) hzr3 hj3
      have hjM : j ≤ M := by rw [← hj]; exact hc.root_le z hz0 (by omega) hzr
      refine ⟨t3, h', _, w, he, hi', by simp, hfail, hroots3, hval3, by omega, hw1, hwr, hallh,
        by rw [if_pos hhx], ?_, ?_⟩
      · intro hm
        obtain ⟨h1, h2⟩ := hmk hm
        refine ⟨?_, (hrootsh3 y (by omega) hyM).1 h2⟩
        rcases h1 with h1 | h1
        · exact Or.inl h1
        · by_cases hj' : j = M
          · exact Or.inl hj'
          · exact Or.inr ((hrootsh3 (j + 1) (by omega) (by omega)).1 h1)
      · intro k h1 h2
        rw [hroots' k h1 h2, hrootsh3 k h1 h2]
    · rw [if_neg hhx]
      have hi3 : UMInv M sz (K u fv bounds) t3 d h := ⟨hc3, hdN⟩
      obtain ⟨h', he, hi', hmk, hroots'⟩ := umaxTail2_rel hb hu hus hi3 domains y j z hy1 hyM hz0
        (by omega) hzr3 hj3
      have hrx := hc.ch.rng x (by omega) hxM
      refine ⟨t3, h', _, x, he, hi', rfl, hfail, hroots3, hval3, Int.le_refl _, by omega,
        by omega, fun k h1 h2 => by omega, by rw [if_neg hhx], hmk, hroots'⟩

/-! ### one iteration of the main loop -/

theorem umaxBody_rel {M : Int} {sz : Nat} {bounds t d h : Array Int} {u : PSum} {fv m : Int}
    (hb : BC bounds (M + 1) fv m) (hu : PS u fv m) (hus : PSStrict u m)
    (hi : UMInv M sz (K u fv bounds) t d h) (ranks domains : Arr2)
    (msv : Array Int) (i : Int)
    (o : Option (Bool × Array Int × Array Int × Array Int × Arr2))
    (hi0 : 0 ≤ i) (hi1 : i < msv.size)
    (hv0 : 0 ≤ g msv i) (hv1 : g msv i < domains.size) (hvr : g msv i < ranks.size)
    (hx1 : 1 ≤ (g2 ranks (g msv i)).2) (hxM : (g2 ranks (g msv i)).2 ≤ M)
    (hy1 : 1 ≤ (g2 ranks (g msv i)).1) (hyM : (g2 ranks (g msv i)).1 ≤ M) :
    (∃ t' d' h' dom' z0 z w, umaxBody u bounds ranks msv i (o, t, d, h, domains) =
        .ok (.yield (none, t', d', h', dom')) ∧ UMInv M sz (K u fv bounds) t' d' h' ∧
        dom'.size = domains.size ∧
        URel M (K u fv bounds) (g2 ranks (g msv i)).2 (g2 ranks (g msv i)).1 (g t) (g d) (g h)
          (g t') (g d') (g h') z0 z w ∧
        dom' = (if g h (g2 ranks (g msv i)).2 < (g2 ranks (g msv i)).2 then
          upd2 domains (g msv i) MAX (g bounds w - 1) else domains)) ∨
      ∃ st t' d' z0 z, umaxBody u bounds ranks msv i (o, t, d, h, domains) =
          .ok (.done (some (false, st), st)) ∧
        UPre M (g2 ranks (g msv i)).2 (g t) (g d) (g t') (g d') z0 z ∧
        g d' z + K u fv bounds z < K u fv bounds (g2 ranks (g msv i)).1 := by
  have hbsz := hb.hsz
  have hNsz := hi.hsz
  have hst := hi.st
  have hsd := hi.sd
  have hsh := hi.sh
  have hKb := K_bot hu hb
  unfold umaxBody
  simp only []
  rw [rd_ok msv i hi0 hi1, ok_bind]
  generalize g msv i = v at hv0 hv1 hvr hx1 hxM hy1 hyM ⊢
  rw [rd2_max_ok ranks v hv0 hvr, ok_bind, rd2_min_ok ranks v hv0 hvr, ok_bind]
  generalize (g2 ranks v).2 = x at hx1 hxM ⊢
  generalize (g2 ranks v).1 = y at hy1 hyM ⊢
  obtain ⟨z0, hpm, hz1, hz2, hz3, hz4⟩ := path_min_spec t 0 M (x - 1) (by omega) (by omega)
    (fun k h1 h2 => (hi.ct.rng k h1 h2).1) (fun k h1 h2 h3 => hi.ct.down k h1 h2 h3)
    (by omega) (by omega)
  have hz0r : g t z0 > z0 := by have := hi.ct.rng z0 hz1 (by omega); omega
  have hd0 := hi.d1 z0 hz1 (by omega) hz0r
  rw [hpm, ok_bind, rd_ok t z0 (by omega) (by omega), ok_bind, rd_ok d z0 (by omega) (by omega),
    ok_bind, wr_ok d z0 _ (by omega) (by omega), ok_bind,
    rd_ok (upd d z0 (g d z0 - 1)) z0 (by omega) (by simp; omega), ok_bind,
    g_upd_same d z0 _ (by omega) (by omega)]
  have hd' : ∀ k, 0 ≤ k → k ≠ z0 → g (upd d z0 (g d z0 - 1)) k = g d k :=
    fun k h1 h2 => g_upd_ne d z0 _ k (by omega) (by omega) h1 h2
  have hd'z : g (upd d z0 (g d z0 - 1)) z0 = g d z0 - 1 := g_upd_same d z0 _ (by omega) (by omega)
  by_cases hm : g d z0 - 1 = 0
  · have hcond : (g d z0 - 1 == 0) = true := by simpa using hm
    rw [if_pos hcond]
    have hz0N : 0 < z0 := by
      by_cases h : z0 = 0
      · subst h; have := hi.d2; omega
      · omega
    rw [wr_ok t z0 (z0 - 1) (by omega) (by omega), ok_bind,
      rd_ok (upd t z0 (z0 - 1)) z0 (by omega) (by simp; omega), ok_bind,
      g_upd_same t z0 _ (by omega) (by omega)]
    have ht1 : ∀ k, 0 ≤ k → g (upd t z0 (z0 - 1)) k = if k = z0 then z0 - 1 else g t k :=
      fun k hk => g_upd t z0 _ k (by omega) (by omega) hk
    obtain ⟨z1, hpm1, hy1', hy2', hy3', hy4'⟩ := path_min_spec (upd t z0 (z0 - 1)) 0 M (z0 - 1)
      (by omega) (by simp; omega)
      (fun k h1 h2 => by
        rw [ht1 k (by omega)]
        by_cases hk : k = z0
        · simp [hk]; omega
        · simp only [hk, if_false]; exact (hi.ct.rng k h1 h2).1)
      (fun k h1 h2 h3 m hm1 hm2 => by
        rw [ht1 k (by omega)] at h3 hm1
        by_cases hk : k = z0
        · simp only [hk, if_true] at hm1; omega
        · simp only [hk, if_false] at h3 hm1
          have := (hi.ct.rng k h1 h2).1
          rw [ht1 m (by omega)]
          by_cases hmz : m = z0
          · simp only [hmz, if_true]; omega
          · simp only [hmz, if_false]; exact hi.ct.down k h1 h2 h3 m hm1 hm2)
      (by omega) (by omega)
    have hz1ne : z1 ≠ z0 := by omega
    have hz1r : g t z1 > z1 := by
      rw [ht1 z1 (by omega)] at hy3'
      simp only [hz1ne, if_false] at hy3'
      have := hi.ct.rng z1 hy1' (by omega); omega
    have hbetween : ∀ k, z1 < k → k < z0 → g t k < k := by
      intro k h1 h2
      have := hy4' k h1 (by omega)
      rw [ht1 k (by omega)] at this
      simpa [show k ≠ z0 by omega] using this
    rw [hpm1, ok_bind, wr_ok (upd t z0 (z0 - 1)) z1 (g t z0) (by omega) (by simp; omega), ok_bind]
    have ha2 : ∀ k, 0 ≤ k → g (upd (upd t z0 (z0 - 1)) z1 (g t z0)) k =
        if k = z1 then g t z0 else if k = z0 then z0 - 1 else g t k := by
      intro k hk
      rw [g_upd _ z1 _ k (by omega) (by simp; omega) hk]
      by_cases hk1 : k = z1
      · simp [hk1]
      · simp only [hk1, if_false]; exact ht1 k hk
    obtain ⟨hct2, hroots2, hoth2, hz1v⟩ :=
      hi.ct.merge (by omega) (by omega) hy1' hz0r hz1r hbetween ha2
    have hc2 : UMCore M sz (K u fv bounds) (upd (upd t z0 (z0 - 1)) z1 (g t z0))
        (upd d z0 (g d z0 - 1)) h := by
      refine ⟨by simp [hst], by simp [hsd], hsh, hNsz, hct2, hi.ch, ?_, ?_, ?_, ?_⟩
      · rw [hoth2 M (by omega) (by omega) (by omega)]; exact hi.t1
      · intro i h1 h2 h3
        have hr := (hroots2 i h1 h2).1 h3
        rw [hd' i (by omega) hr.2]; exact hi.d1 i h1 h2 hr.1
      · intro r h1 h2 h3
        have hr := (hroots2 r h1 (by omega)).1 h3
        by_cases hr1 : r = z1
        · subst hr1; rw [hz1v]; exact hi.l1 z0 (by omega) (by omega) hz0r
        · rw [hoth2 r h1 hr1 hr.2]; exact hi.l1 r h1 h2 hr.1
      · intro r h1 h2 h3 h4
        have hr := (hroots2 r h1 (by omega)).1 h3
        rw [hd' r (by omega) hr.2] at h4
        exact hi.l2 r h1 h2 hr.1 h4
    have hdN : g (upd d z0 (g d z0 - 1)) 0 = K u fv bounds 1 - K u fv bounds 0 := by
      rw [hd' 0 (by omega) (by omega)]; exact hi.d2
    have hz1r2 : g (upd (upd t z0 (z0 - 1)) z1 (g t z0)) z1 > z1 :=
      (hroots2 z1 hy1' (by omega)).2 ⟨hz1r, hz1ne⟩
    rcases umaxTail_rel hb hu hus hc2 domains v x y (g t z0) z1 (Or.inl hdN) hv0 hv1 hx1 hxM
      hy1 hyM (by omega) hy1' hz1r2 hz1v
      (fun k h1 h2 => by
        by_cases hk0 : k = z0
        · subst hk0; rw [ha2 k (by omega)]
          simp only [show k ≠ z1 by omega, if_false, if_true]; omega
        · rw [hoth2 k (by omega) (by omega) hk0]
          by_cases hk1 : z0 < k
          · exact hz4 k hk1 h2
          · exact hbetween k h1 (by omega)) with
      ⟨t', h', dom', w, he, hi', hs', hnf, hr3, hv3, hw1, hw2, hw3, hw4, hdom, hmk, hrh⟩ | ⟨he, hfl⟩
    · left
      refine ⟨t', _, h', dom', z0, z1, w, he, hi', hs', ⟨⟨hz1, hz2, hz0r, hz4, hd'z,
        fun k h1 _ h3 => hd' k h1 h3, Or.inl ⟨hm, by omega, hy1', hz1r, hbetween, ?_, ?_, ?_⟩⟩,
        hnf, hw1, hw2, hw3, hw4, fun h => (hmk h).1, fun h => (hmk h).2, hrh⟩, hdom⟩
      · intro k h1 h2; rw [hr3 k h1 h2, hroots2 k h1 h2]
      · rw [hv3 z1 hy1' (by omega) hz1r2]; exact hz1v
      · intro k h1 h2 h3 h4 h5
        have h6 : g (upd (upd t z0 (z0 - 1)) z1 (g t z0)) k > k := (hroots2 k h1 h2).2 ⟨h3, h5⟩
        rw [hv3 k h1 h2 h6]; exact hoth2 k h1 h4 h5
    · right
      refine ⟨_, _, _, z0, z1, he, ⟨hz1, hz2, hz0r, hz4, hd'z,
        fun k h1 _ h3 => hd' k h1 h3, Or.inl ⟨hm, by omega, hy1', hz1r, hbetween, hroots2,
          hz1v, fun k h1 _ _ h4 h5 => hoth2 k h1 h4 h5⟩⟩, hfl⟩
  · have hcond : ¬ (g d z0 - 1 == 0) = true := by simpa using hm
    rw [if_neg hcond]
    have hc2 : UMCore M sz (K u fv bounds) t (upd d z0 (g d z0 - 1)) h := by
      refine ⟨hst, by simp [hsd], hsh, hNsz, hi.ct, hi.ch, hi.t1, ?_, hi.l1, ?_⟩
      · intro i h1 h2 h3
        by_cases hiz : i = z0
        · subst hiz; rw [hd'z]; omega
        · rw [hd' i (by omega) hiz]; exact hi.d1 i h1 h2 h3
      · intro r h1 h2 h3 h4
        by_cases hrz : r = z0
        · subst hrz; rw [hd'z] at h4; omega
        · rw [hd' r (by omega) hrz] at h4; exact hi.l2 r h1 h2 h3 h4
    have hdN : g (upd d z0 (g d z0 - 1)) 0 = K u fv bounds 1 - K u fv bounds 0 ∨
        (z0 = 0 ∧ g (upd d z0 (g d z0 - 1)) 0 = K u fv bounds 1 - K u fv bounds 0 - 1) := by
      by_cases h : z0 = 0
      · right; subst h; rw [hd'z]; have := hi.d2; exact ⟨rfl, by omega⟩
      · left; rw [hd' 0 (by omega) (by omega)]; exact hi.d2
    rcases umaxTail_rel hb hu hus hc2 domains v x y (g t z0) z0 hdN hv0 hv1 hx1 hxM hy1 hyM
      hz2 hz1 hz0r rfl hz4 with
      ⟨t', h', dom', w, he, hi', hs', hnf, hr3, hv3, hw1, hw2, hw3, hw4, hdom, hmk, hrh⟩ | ⟨he, hfl⟩
    · left
      exact ⟨t', _, h', dom', z0, z0, w, he, hi', hs', ⟨⟨hz1, hz2, hz0r, hz4, hd'z,
        fun k h1 _ h3 => hd' k h1 h3, Or.inr ⟨hm, rfl, hr3, hv3⟩⟩,
        hnf, hw1, hw2, hw3, hw4, fun h => (hmk h).1, fun h => (hmk h).2, hrh⟩, hdom⟩
    · right
      exact ⟨_, _, _, z0, z0, he, ⟨hz1, hz2, hz0r, hz4, hd'z,
        fun k h1 _ h3 => hd' k h1 h3, Or.inr ⟨hm, rfl, fun _ _ _ => Iff.rfl,
          fun _ _ _ _ => rfl⟩⟩, hfl⟩

/-! ### the main loop -/

theorem RankCtx_inj {N : Int} {bd rx ry : Int → Int} {all : List Int}
    (hctx : RankCtx N bd rx ry all) (a b : Int) (ha0 : 0 ≤ a) (haN : a ≤ N) (hb0 : 0 ≤ b)
    (hbN : b ≤ N) (h : bd a = bd b) : a = b := by
  by_cases h1 : a < b
  · have := hctx.mono a b ha0 h1 hbN; omega
  · by_cases h2 : b < a
    · have := hctx.mono b a hb0 h2 haN; omega
    · omega

theorem filter_upper_max_sem {M : Int} {sz : Nat} {bounds : Array Int} {u : PSum} {fv m : Int}
    (hb : BC bounds (M + 1) fv m) (hu : PS u fv m) (hus : PSStrict u m)
    (n : Int) (t d h : Array Int) (domains ranks : Arr2) (msv : Array Int)
    (hst : t.size = sz) (hsd : d.size = sz) (hsh : h.size = sz) (hNsz : M + 1 < sz)
    (hrs : ranks.size = domains.size) (hn : n = msv.size)
    (hmsv : ∀ i : Int, 0 ≤ i → i < n → 0 ≤ g msv i ∧ g msv i < (domains.size : Int))
    (all : List Int) (hall : all = (rangeDown (n - 1) (-1)).map (g msv))
    (hrk : ∀ v ∈ all, 1 ≤ (g2 ranks v).1 ∧ (g2 ranks v).1 < (g2 ranks v).2 ∧ (g2 ranks v).2 ≤ M)
    (hnodup : all.Nodup)
    (hsorted : all.Pairwise (fun a b => (g2 ranks b).1 ≤ (g2 ranks a).1))
    (hmax : ∀ v ∈ all, (g2 domains v).2 + 1 = g bounds (g2 ranks v).2) :
    ∃ r, filter_upper_max n M t d h bounds domains ranks msv u = .ok r ∧
      (r.1 = false → ∃ ja yb, 1 ≤ ja ∧ ja < yb ∧ yb < M + 1 ∧
        cinR (fun v => M + 1 - (g2 ranks v).2) (fun v => M + 1 - (g2 ranks v).1) all ja yb >
          mbd (M + 1) (K u fv bounds) yb - mbd (M + 1) (K u fv bounds) ja) ∧
      (r.1 = true → r.2.1.size = sz ∧ r.2.2.1.size = sz ∧ r.2.2.2.1.size = sz ∧
        GUpperPost (M + 1) (mbd (M + 1) (K u fv bounds)) (mbd (M + 1) (g bounds))
          (fun v => M + 1 - (g2 ranks v).2) (fun v => M + 1 - (g2 ranks v).1) all domains
          r.2.2.2.2) := by
  rw [filter_upper_max_eq]
  obtain ⟨⟨t0, d0, h0⟩, he0, hs1, hs2, hs3, hv0⟩ := umaxInit_spec hb hu t d h hst hsd hsh hNsz
  rw [he0, ok_bind]
  simp only at hs1 hs2 hs3 hv0 ⊢
  have hi0 : UMInv M sz (K u fv bounds) t0 d0 h0 := uminv_init hb hu hus hs1 hs2 hs3 hNsz hv0
  have hN2 := hb.hN
  have hctx : RankCtx (M + 1) (mbd (M + 1) (K u fv bounds)) (fun v => M + 1 - (g2 ranks v).2)
      (fun v => M + 1 - (g2 ranks v).1) all := by
    refine ⟨hb.hN, ?_, ?_⟩
    · intro i j h0 hij hj
      simp only [mbd]
      have := K_strict hu hus hb (M + 1 - j) (M + 1 - i) (by omega) (by omega) (by omega)
      omega
    · intro u hu
      have := hrk u hu
      omega
  generalize hrx : (fun v => M + 1 - (g2 ranks v).2) = rx at hctx ⊢
  generalize hry : (fun v => M + 1 - (g2 ranks v).1) = ry at hctx ⊢
  have hrxv : ∀ v, M + 1 - (g2 ranks v).2 = rx v := fun v => by rw [← hrx]
  have hryv : ∀ v, M + 1 - (g2 ranks v).1 = ry v := fun v => by rw [← hry]
  generalize hbd : mbd (M + 1) (K u fv bounds) = bd' at hctx ⊢
  have hbdv : ∀ k, bd' k = - K u fv bounds (M + 1 - k) := fun k => by rw [← hbd]; rfl
  generalize hbnd : mbd (M + 1) (g bounds) = bnd'
  have hbndv : ∀ k, bnd' k = - g bounds (M + 1 - k) := fun k => by rw [← hbnd]; rfl
  have hidxr : ∀ i ∈ rangeDown (n - 1) (-1), 0 ≤ i ∧ i < n := by
    intro i hi
    have := (AllDiff.mem_rangeDown (n - 1) (-1) i).1 hi
    omega
  generalize hidx : rangeDown (n - 1) (-1) = idxs at hall hidxr ⊢
  have hsem0 : LSem (M + 1) bd' rx ry all [] 0 (mir (M + 1) (g t0)) (mirv (M + 1) (g d0))
      (mir (M + 1) (g h0)) (fun u => bd' (rx u)) := by
    refine AllDiff.lsem_init hctx ?_ ?_ ?_ (fun _ _ => rfl)
    · intro k h1 h2
      simp only [mir]
      rw [(hv0 (M + 1 - k) (by omega) (by omega)).1]; omega
    · intro k h1 h2
      simp only [mir]
      rw [(hv0 (M + 1 - k) (by omega) (by omega)).2.1]; omega
    · intro k h1 h2
      simp only [mirv]
      rw [(hv0 (M + 1 - k) (by omega) (by omega)).2.2, hbdv, hbdv,
        gsum_K hu hb (M + 1 - k) (M + 1 - k + 1) (by omega) (by omega) (by omega)]
      have : M + 1 - (k - 1) = M + 1 - k + 1 := by omega
      rw [this]; omega
  refine except_bind_ok
    (P := fun (s : UMSt) =>
      (s.1 = none ∧ s.2.1.size = sz ∧ s.2.2.1.size = sz ∧ s.2.2.2.1.size = sz ∧
        GUpperPost (M + 1) bd' bnd' rx ry all domains s.2.2.2.2) ∨
      (∃ st, s.1 = some (false, st)) ∧ ∃ ja yb, 1 ≤ ja ∧ ja < yb ∧ yb < M + 1 ∧
        cinR rx ry all ja yb > bd' yb - bd' ja)
    (forIn_list_except
      (Inv := fun (rest : List Int) (s : UMSt) =>
        ∃ (Pi : List Int) (Y : Int) (wf : Int → Int), idxs = Pi ++ rest ∧ s.1 = none ∧
        UMInv M sz (K u fv bounds) s.2.1 s.2.2.1 s.2.2.2.1 ∧ s.2.2.2.2.size = domains.size ∧
        LSem (M + 1) bd' rx ry all (Pi.map (g msv)) Y (mir (M + 1) (g s.2.1))
          (mirv (M + 1) (g s.2.2.1)) (mir (M + 1) (g s.2.2.2.1)) (fun u => bd' (wf u)) ∧
        (∀ i ∈ rest, Y ≤ ry (g msv i)) ∧ (∀ u, 0 ≤ u → (g2 s.2.2.2.2 u).1 = (g2 domains u).1) ∧
        (∀ u ∈ all, - (g2 s.2.2.2.2 u).2 - 1 = bnd' (wf u) ∧ 0 ≤ wf u ∧ wf u ≤ M + 1))
      _ _ ?_ ?_ _ _ ?_) ?_
  · rintro x rest ⟨o, t1, d1, h1, dom1⟩ ⟨Pi, Y, wf, hPr, ho, hi, hds, hsem, hY, hmn, hwf⟩
    simp only at ho hi hds hsem hY hmn hwf
    have hxi := hidxr x (by rw [hPr]; simp)
    have hv := hmsv x hxi.1 hxi.2
    have hallP : all = Pi.map (g msv) ++ g msv x :: rest.map (g msv) := by
      rw [hall, hPr]; simp
    have hvall : g msv x ∈ all := by rw [hallP]; simp
    have hr := hrk (g msv x) hvall
    have hnd : (Pi.map (g msv) ++ g msv x :: rest.map (g msv)).Nodup := hallP ▸ hnodup
    have hvP : g msv x ∉ Pi.map (g msv) := by
      intro hin
      have := (List.nodup_append.1 hnd).2.2 _ hin _ (List.mem_cons_self)
      exact this rfl
    have hsr : (Pi.map (g msv) ++ g msv x :: rest.map (g msv)).Pairwise
        (fun a b => ry a ≤ ry b) := by
      have := hallP ▸ hsorted
      refine this.imp ?_
      intro a b hab
      rw [← hryv, ← hryv]; omega
    have hvrest : ∀ u ∈ rest.map (g msv), ry (g msv x) ≤ ry u := by
      have h2 := (List.pairwise_append.1 hsr).2.1
      exact fun u hu => (List.pairwise_cons.1 h2).1 u hu
    have hall0 : ∀ u ∈ all, 0 ≤ u := by
      intro u hu
      rw [hall] at hu
      obtain ⟨i, hi1, hi2⟩ := List.mem_map.1 hu
      have := hidxr i hi1
      have := (hmsv i this.1 this.2).1
      omega
    rcases umaxBody_rel hb hu hus hi ranks dom1 msv x o hxi.1 (by omega) hv.1 (by omega)
        (by omega) (by omega) hr.2.2 hr.1 (by omega) with
      ⟨t', d', h', dom', z0, z, w, he, hi', hs', hrel, hdom⟩ | ⟨st, t', d', z0, z, he, hpre, hfl⟩
    · left
      have hrel' := urel_to_lrel hrel
      rw [hrxv, hryv, hbd] at hrel'
      have hww := hrel.whi
      have hw0 := hrel.wlo
      refine ⟨_, he, Pi ++ [x], ry (g msv x),
        (fun u' => if u' = g msv x then M + 1 - w else wf u'), by rw [hPr]; simp, rfl, hi',
        by simp only; omega, ?_, ?_, ?_, ?_⟩
      · rw [List.map_append, List.map_singleton]
        refine AllDiff.lsem_step hctx hi.toLStruct hi'.toLStruct hsem hvall (hY x (by simp))
          (fun a b => by rw [hallP]; exact AllDiff.sm_le_prefix rx ry _ _ _ hvrest a b)
          (fun a b => by rw [hallP]; exact AllDiff.prefix_le_oth rx ry _ _ _ hvP a b) hrel' ?_
        intro u' _
        simp only
        by_cases huv : u' = g msv x
        · rw [if_pos huv, if_pos huv]
        · rw [if_neg huv, if_neg huv]
      · intro i hi
        exact hvrest (g msv i) (List.mem_map.2 ⟨i, hi, rfl⟩)
      · intro u' hu0
        simp only
        rw [hdom]
        split
        · rw [g2_upd2 dom1 (g msv x) MAX _ u' hv.1 (by omega) hu0]
          by_cases huv : u' = g msv x
          · rw [if_pos huv]
            have : (MAX == MIN) = false := by decide
            simp only [this]; simp
            rw [← huv]; exact hmn u' hu0
          · rw [if_neg huv]; exact hmn u' hu0
        · exact hmn u' hu0
      · intro u' hu'
        have hu0 := hall0 u' hu'
        simp only
        by_cases huv : u' = g msv x
        · rw [if_pos huv, hbndv, Int.sub_sub_self]
          refine ⟨?_, by omega, by omega⟩
          by_cases hlt : g h1 (g2 ranks (g msv x)).2 < (g2 ranks (g msv x)).2
          · rw [hdom, if_pos hlt, g2_upd2 dom1 (g msv x) MAX _ u' hv.1 (by omega) hu0, if_pos huv]
            have : (MAX == MIN) = false := by decide
            simp only [this]; simp; omega
          · rw [hdom, if_neg hlt]
            have hwx : w = (g2 ranks (g msv x)).2 := by
              by_cases hw : w = (g2 ranks (g msv x)).2
              · exact hw
              · have := hrel.wall (g2 ranks (g msv x)).2 (by omega) (Int.le_refl _); omega
            have h5 : bd' (wf (g msv x)) = bd' (rx (g msv x)) := (hsem.s5 (g msv x) hvall).2 hvP
            have hwfv := hwf (g msv x) hvall
            have hrkv := hctx.rk (g msv x) hvall
            have h6 := RankCtx_inj hctx _ _ hwfv.2.1 hwfv.2.2 (by omega) (by omega) h5
            have h7 := hwfv.1
            rw [h6, hbndv, ← hrxv, Int.sub_sub_self] at h7
            rw [huv, hwx]; exact h7
        · rw [if_neg huv]
          have hsame : (g2 dom' u').2 = (g2 dom1 u').2 := by
            rw [hdom]
            split
            · rw [g2_upd2 dom1 (g msv x) MAX _ u' hv.1 (by omega) hu0, if_neg huv]
            · rfl
          rw [hsame]; exact hwf u' hu'
    · right
      have hpre' := upre_to_lpre hpre
      rw [hrxv] at hpre'
      refine ⟨_, he, Or.inr ⟨⟨st, rfl⟩, ?_⟩⟩
      have hfl' : mirv (M + 1) (g d') (M + 1 - z) + bd' (ry (g msv x)) < bd' (M + 1 - z) := by
        rw [hbdv, hbdv, ← hryv]
        simp only [mirv, Int.sub_sub_self]; omega
      obtain ⟨f1, f2, f3⟩ :=
        AllDiff.lsem_fail hctx hi.toLStruct hsem hvall (hY x (by simp)) hpre' hfl'
      refine ⟨_, ry (g msv x), f1, f2, (hctx.rk _ hvall).2.2, ?_⟩
      have : (Pi.map (g msv) ++ [g msv x]).Sublist all := by
        rw [hallP]
        have : Pi.map (g msv) ++ g msv x :: rest.map (g msv) =
            (Pi.map (g msv) ++ [g msv x]) ++ rest.map (g msv) := by simp
        rw [this]; exact List.sublist_append_left _ _
      have := AllDiff.cinR_sublist rx ry this (mir (M + 1) (g t1) (M + 1 - z0)) (ry (g msv x))
      omega
  · rintro ⟨o, t1, d1, h1, dom1⟩ ⟨Pi, Y, wf, hPr, ho, hi, hds, hsem, hY, hmn, hwf⟩
    simp only at ho hi hds hsem hY hmn hwf
    have hP : all = Pi.map (g msv) := by rw [hall, hPr]; simp
    rw [← hP] at hsem
    refine Or.inl ⟨ho, hi.st, hi.sd, hi.sh, hds, hsem.s2r, ?_, hmn⟩
    intro u' hu'
    obtain ⟨w, hw1, hw2, hw3, hw4, hw5⟩ := (hsem.s5 u' hu').1 hu'
    have hw1 : bd' (wf u') = bd' w := hw1
    have hwfv := hwf u' hu'
    have hrkv := hctx.rk u' hu'
    have h6 := RankCtx_inj hctx _ _ hwfv.2.1 hwfv.2.2 (by omega) hw3 hw1
    exact ⟨w, by rw [hwfv.1, h6], hw2, hw3, hw4, hw5⟩
  · refine ⟨[], 0, rx, by simp, rfl, hi0, rfl, hsem0, ?_, fun _ _ => rfl, ?_⟩
    · intro i hi
      have hii := hidxr i hi
      have : g msv i ∈ all := by rw [hall]; exact List.mem_map.2 ⟨i, hi, rfl⟩
      have := hctx.rk _ this
      omega
    · intro u' hu'
      have hrkv := hctx.rk u' hu'
      refine ⟨?_, by omega, by omega⟩
      show - (g2 domains u').2 - 1 = bnd' (rx u')
      rw [hbndv, ← hrxv, Int.sub_sub_self]
      have := hmax u' hu'; omega
  · rintro ⟨o, t1, d1, h1, dom1⟩ hp
    rcases hp with ⟨ho, h4'⟩ | ⟨⟨st, ho⟩, hcert⟩
    · simp only at ho h4'
      subst ho
      exact ⟨_, rfl, fun h => by simp at h, fun _ => h4'⟩
    · simp only at ho
      subst ho
      exact ⟨_, rfl, fun _ => hcert, fun h => by simp at h⟩

end Gcc
end Nucs
