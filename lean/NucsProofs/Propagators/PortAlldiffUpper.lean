import NucsProofs.Propagators.PortAlldiffLower
/-!
  `filter_upper` of the ported alldifferent never errs: the mirror image of `PortAlldiffLower`.
  Nodes are `0..M` (`M = nb`), the "outside" is `M + 1`, roots point up.
-/
namespace Nucs
namespace AllDiff

/-- mirror image of `LChain` on the nodes `0..M` -/
structure UChain (a : Int → Int) (M : Int) : Prop where
  hM : 0 ≤ M
  rng : ∀ i, 0 ≤ i → i ≤ M → 0 ≤ a i ∧ a i ≤ M + 1 ∧ a i ≠ i
  up : ∀ i, 0 ≤ i → i ≤ M → a i > i →
    (∀ k, i < k → k < a i → a k < k) ∧ (a i = M + 1 ∨ a (a i) > a i)
  down : ∀ i, 0 ≤ i → i ≤ M → a i < i → ∀ k, a i < k → k < i → a k < k
  bot : a 0 > 0

theorem UChain.down_ge_root {a : Int → Int} {M p r : Int} (hc : UChain a M) (hpM : p ≤ M)
    (hrp : r < p) (hr0 : 0 ≤ r) (hdn : a p < p) (hroot : a r > r) : r ≤ a p := by
  by_cases h : r ≤ a p
  · exact h
  · have := hc.down p (by omega) hpM hdn r (by omega) hrp
    omega

theorem UChain.compress {a a' : Int → Int} {M s r : Int} (hc : UChain a M)
    (hr : 0 ≤ r) (hall : ∀ k, r < k → k ≤ s → a k < k)
    (hrel : ∀ k, 0 ≤ k → (a' k = a k ∨ (r < k ∧ k ≤ s ∧ a' k = r))) :
    UChain a' M ∧ (∀ k, 0 ≤ k → k ≤ M → (a' k > k ↔ a k > k)) ∧
      (∀ k, 0 ≤ k → k ≤ M → a k > k → a' k = a k) := by
  have hsame : ∀ k, 0 ≤ k → k ≤ M → (a' k > k ↔ a k > k) := by
    intro k h1 h2
    rcases hrel k h1 with h | ⟨h3, h4, h5⟩
    · rw [h]
    · have := hall k h3 h4; omega
  have hval : ∀ k, 0 ≤ k → k ≤ M → a k > k → a' k = a k := by
    intro k h1 h2 h3
    rcases hrel k h1 with h | ⟨h4, h5, h6⟩
    · exact h
    · have := hall k h4 h5; omega
  have hlt : ∀ k, 0 ≤ k → k ≤ M → a k < k → a' k < k := by
    intro k h1 h2 h3
    rcases hrel k h1 with h | ⟨h4, h5, h6⟩ <;> omega
  refine ⟨⟨hc.hM, ?_, ?_, ?_, ?_⟩, hsame, hval⟩
  · intro i h1 h2
    have := hc.rng i h1 h2
    rcases hrel i h1 with h | ⟨h4, h5, h6⟩ <;> omega
  · intro i h1 h2 h3
    have h3' := (hsame i h1 h2).1 h3
    have hv := hval i h1 h2 h3'
    have hd := hc.up i h1 h2 h3'
    have hri := hc.rng i h1 h2
    rw [hv]
    refine ⟨fun k hk1 hk2 => hlt k (by omega) (by omega) (hd.1 k hk1 hk2), ?_⟩
    by_cases h0 : a i = M + 1
    · exact Or.inl h0
    · rcases hd.2 with h | h
      · exact Or.inl h
      · right
        rw [hval (a i) (by omega) (by omega) h]; exact h
  · intro i h1 h2 h3 k hk1 hk2
    have hai : a i < i := by
      have := (hsame i h1 h2); have := hc.rng i h1 h2; omega
    rcases hrel i h1 with h | ⟨h4, h5, h6⟩
    · rw [h] at hk1
      exact hlt k (by have := hc.rng i h1 h2; omega) (by omega) (hc.down i h1 h2 hai k hk1 hk2)
    · exact hlt k (by omega) (by omega) (hall k (by omega) (by omega))
  · have := hc.bot
    rw [hval 0 (Int.le_refl _) hc.hM this]; exact this

theorem UChain.merge {a a2 : Int → Int} {M z0 z1 : Int} (hc : UChain a M) (hz0 : z0 ≤ M)
    (hz01 : z1 < z0) (hz1 : 0 ≤ z1) (hr0 : a z0 > z0) (hr1 : a z1 > z1)
    (hbetween : ∀ k, z1 < k → k < z0 → a k < k)
    (ha2 : ∀ k, 0 ≤ k → a2 k = if k = z1 then a z0 else if k = z0 then z0 - 1 else a k) :
    UChain a2 M ∧ (∀ k, 0 ≤ k → k ≤ M → (a2 k > k ↔ (a k > k ∧ k ≠ z0))) ∧
      (∀ k, 0 ≤ k → k ≠ z1 → k ≠ z0 → a2 k = a k) ∧ a2 z1 = a z0 := by
  have hz1v : a2 z1 = a z0 := by rw [ha2 z1 (by omega)]; simp
  have hz0v : a2 z0 = z0 - 1 := by rw [ha2 z0 (by omega)]; simp [show z0 ≠ z1 by omega]
  have hoth : ∀ k, 0 ≤ k → k ≠ z1 → k ≠ z0 → a2 k = a k := by
    intro k h0 h1 h2; rw [ha2 k h0]; simp [h1, h2]
  have hj := hc.rng z0 (by omega) hz0
  have hd0 := hc.up z0 (by omega) hz0 hr0
  have hroots : ∀ k, 0 ≤ k → k ≤ M → (a2 k > k ↔ (a k > k ∧ k ≠ z0)) := by
    intro k h1 h2
    by_cases hk1 : k = z1
    · subst hk1; rw [hz1v]; constructor
      · intro _; exact ⟨hr1, by omega⟩
      · intro _; omega
    · by_cases hk0 : k = z0
      · subst hk0; rw [hz0v]; constructor
        · intro h; omega
        · intro h; exact absurd rfl h.2
      · rw [hoth k h1 hk1 hk0]; constructor
        · intro h; exact ⟨h, hk0⟩
        · intro h; exact h.1
  have hlt : ∀ k, 0 ≤ k → k ≤ M → a k < k → a2 k < k := by
    intro k h1 h2 h3
    by_cases hk1 : k = z1
    · subst hk1; omega
    · by_cases hk0 : k = z0
      · subst hk0; omega
      · rw [hoth k h1 hk1 hk0]; exact h3
  refine ⟨⟨hc.hM, ?_, ?_, ?_, ?_⟩, hroots, hoth, hz1v⟩
  · intro i h1 h2
    by_cases hk1 : i = z1
    · subst hk1; rw [hz1v]; omega
    · by_cases hk0 : i = z0
      · subst hk0; rw [hz0v]; omega
      · rw [hoth i h1 hk1 hk0]; exact hc.rng i h1 h2
  · intro i h1 h2 h3
    have hr := (hroots i h1 h2).1 h3
    by_cases hk1 : i = z1
    · subst hk1
      rw [hz1v]
      refine ⟨fun k hk1 hk2 => ?_, ?_⟩
      · by_cases hkz : k = z0
        · subst hkz; rw [hz0v]; omega
        · by_cases hkl : z0 < k
          · exact hlt k (by omega) (by omega) (hd0.1 k hkl hk2)
          · exact hlt k (by omega) (by omega) (hbetween k hk1 (by omega))
      · by_cases h0 : a z0 = M + 1
        · exact Or.inl h0
        · rcases hd0.2 with h | h
          · exact Or.inl h
          · right; rw [hoth (a z0) (by omega) (by omega) (by omega)]; exact h
    · have hk0 : i ≠ z0 := hr.2
      rw [hoth i h1 hk1 hk0]
      have hd := hc.up i h1 h2 hr.1
      have hri := hc.rng i h1 h2
      refine ⟨fun k hk1 hk2 => hlt k (by omega) (by omega) (hd.1 k hk1 hk2), ?_⟩
      by_cases h0 : a i = M + 1
      · exact Or.inl h0
      · rcases hd.2 with h | h
        · exact Or.inl h
        · right
          have hne0 : a i ≠ z0 := by
            intro he
            by_cases hlt' : z1 < i
            · have := hbetween i hlt' (by omega); omega
            · have := hd.1 z1 (by omega) (by omega); omega
          by_cases he1 : a i = z1
          · rw [he1, hz1v]; omega
          · rw [hoth (a i) (by omega) he1 hne0]; exact h
  · intro i h1 h2 h3 k hk1 hk2
    by_cases hi0 : i = z0
    · subst hi0; rw [hz0v] at hk1; omega
    · by_cases hi1 : i = z1
      · subst hi1; rw [hz1v] at h3; omega
      · rw [hoth i h1 hi1 hi0] at h3 hk1
        exact hlt k (by have := hc.rng i h1 h2; omega) (by omega) (hc.down i h1 h2 h3 k hk1 hk2)
  · by_cases hN1 : 0 = z1
    · rw [hN1, hz1v]; omega
    · rw [hoth 0 (by omega) hN1 (by omega)]; exact hc.bot

theorem UChain.mark {a a3 : Int → Int} {M y e : Int} (hc : UChain a M) (hy1 : 1 ≤ y) (hyM : y ≤ M)
    (hry : a y > y) (he0 : e ≤ M + 1) (hey : a y ≤ e) (hre : e = M + 1 ∨ a e > e)
    (ha3 : ∀ k, 0 ≤ k → a3 k = if k = y then e else if a y ≤ k ∧ k < e ∧ a k > k then y else a k) :
    UChain a3 M ∧ (∀ k, 0 ≤ k → k ≤ M → (a3 k > k ↔ (a k > k ∧ ¬ (y < k ∧ k < e)))) := by
  have hyv : a3 y = e := by rw [ha3 y (by omega)]; simp
  have hray := hc.rng y (by omega) hyM
  have hmk : ∀ k, a y ≤ k → k < e → a k > k → a3 k = y := by
    intro k h1 h2 h3; rw [ha3 k (by omega)]; simp [show k ≠ y by omega, h1, h2, h3]
  have hoth : ∀ k, 0 ≤ k → k ≠ y → ¬ (a y ≤ k ∧ k < e ∧ a k > k) → a3 k = a k := by
    intro k h0 h1 h2; rw [ha3 k h0]; simp only [h1, if_false, h2]
  have hdy := hc.up y (by omega) hyM hry
  have hin : ∀ k, y < k → k < e → a3 k < k := by
    intro k h1 h2
    by_cases hm : a y ≤ k ∧ a k > k
    · rw [hmk k hm.1 h2 hm.2]; exact h1
    · rw [hoth k (by omega) (by omega) (fun h => hm ⟨h.1, h.2.2⟩)]
      by_cases hk : a y ≤ k
      · have := hc.rng k (by omega) (by omega)
        have : ¬ a k > k := fun h => hm ⟨hk, h⟩
        omega
      · exact hdy.1 k h1 (by omega)
  have hlt : ∀ k, 0 ≤ k → k ≤ M → a k < k → a3 k < k := by
    intro k h1 h2 h3
    rw [hoth k h1 (by intro h; subst h; omega) (fun h => by omega)]; exact h3
  have hroots : ∀ k, 0 ≤ k → k ≤ M → (a3 k > k ↔ (a k > k ∧ ¬ (y < k ∧ k < e))) := by
    intro k h1 h2
    constructor
    · intro h
      by_cases hky : k = y
      · subst hky; exact ⟨hry, fun h => by omega⟩
      · by_cases hin' : y < k ∧ k < e
        · have := hin k hin'.1 hin'.2; omega
        · rw [hoth k h1 hky (fun hm => hin' ⟨by omega, hm.2.1⟩)] at h
          exact ⟨h, hin'⟩
    · rintro ⟨h, hout⟩
      by_cases hky : k = y
      · subst hky; rw [hyv]; omega
      · rw [hoth k h1 hky (fun hm => hout ⟨by omega, hm.2.1⟩)]; exact h
  refine ⟨⟨hc.hM, ?_, ?_, ?_, ?_⟩, hroots⟩
  · intro i h1 h2
    by_cases hiy : i = y
    · subst hiy; rw [hyv]; omega
    · by_cases hm : a y ≤ i ∧ i < e ∧ a i > i
      · rw [hmk i hm.1 hm.2.1 hm.2.2]; omega
      · rw [hoth i h1 hiy hm]; exact hc.rng i h1 h2
  · intro i h1 h2 h3
    have hr := (hroots i h1 h2).1 h3
    by_cases hiy : i = y
    · subst hiy
      rw [hyv]
      refine ⟨fun k hk1 hk2 => hin k hk1 hk2, ?_⟩
      by_cases h0 : e = M + 1
      · exact Or.inl h0
      · rcases hre with h | h
        · exact Or.inl h
        · right; rw [hoth e (by omega) (by omega) (fun hm => by omega)]; exact h
    · have hnm : ¬ (a y ≤ i ∧ i < e ∧ a i > i) := fun hm => hr.2 ⟨by omega, hm.2.1⟩
      rw [hoth i h1 hiy hnm]
      have hd := hc.up i h1 h2 hr.1
      have hri := hc.rng i h1 h2
      have hyout : ¬ (i < y ∧ y < a i) := fun h => by have := hd.1 y h.1 h.2; omega
      refine ⟨fun k hk1 hk2 => ?_, ?_⟩
      · by_cases hk : y < k ∧ k < e
        · exact hin k hk.1 hk.2
        · exact hlt k (by omega) (by omega) (hd.1 k hk1 hk2)
      · by_cases h0 : a i = M + 1
        · exact Or.inl h0
        · rcases hd.2 with h | h
          · exact Or.inl h
          · right
            by_cases hay : a i = y
            · rw [hay, hyv]; omega
            · rw [hoth (a i) (by omega) hay (fun hm => by omega)]; exact h
  · intro i h1 h2 h3 k hk1 hk2
    by_cases hk : y < k ∧ k < e
    · exact hin k hk.1 hk.2
    · by_cases hiy : i = y
      · subst hiy; rw [hyv] at h3; omega
      · by_cases hm : a y ≤ i ∧ i < e ∧ a i > i
        · rw [hmk i hm.1 hm.2.1 hm.2.2] at hk1; omega
        · rw [hoth i h1 hiy hm] at h3 hk1
          have hri := hc.rng i h1 h2
          exact hlt k (by omega) (by omega) (hc.down i h1 h2 h3 k hk1 hk2)
  · rw [hoth 0 (by omega) (by omega) (fun hm => by omega)]; exact hc.bot

/-! ### `filter_upper` as a composition of named pieces -/

def upperTail2 (bounds : Array Int) (y j z : Int) (t d : Array Int) (h : Array Int)
    (domains : Arr2) : Except Err (ForInStep LSt) := do
  if (← rd d z) + (← rd bounds z) == (← rd bounds y) then
    let h ← path_set h (← rd h y) (j + 1) y
    let h ← wr h y (j + 1)
    pure (ForInStep.yield (none, t, d, h, domains))
  else pure (ForInStep.yield (none, t, d, h, domains))

def upperTail (bounds : Array Int) (v x y j : Int) (d h : Array Int) (domains : Arr2)
    (t : Array Int) (z : Int) : Except Err (ForInStep LSt) := do
  if (← rd d z) + (← rd bounds z) < (← rd bounds y) then
    pure (ForInStep.done (some (false, t, d, h, domains), t, d, h, domains))
  else
    let t ← path_set t (x - 1) z z
    if (← rd h x) < x then
      let w ← path_min h (← rd h x)
      let domains ← wr2 domains v MAX ((← rd bounds w) - 1)
      let h ← path_set h x w w
      upperTail2 bounds y j z t d h domains
    else upperTail2 bounds y j z t d h domains

def upperBody (bounds : Array Int) (ranks : Arr2) (msv : Array Int) (i : Int) (s : LSt) :
    Except Err (ForInStep LSt) := do
  let t := s.2.1
  let d := s.2.2.1
  let h := s.2.2.2.1
  let domains := s.2.2.2.2
  let v ← rd msv i
  let x ← rd2 ranks v MAX
  let y ← rd2 ranks v MIN
  let z ← path_min t (x - 1)
  let j ← rd t z
  let d ← wr d z ((← rd d z) - 1)
  if (← rd d z) == 0 then
    let t ← wr t z (z - 1)
    let z ← path_min t (← rd t z)
    let t ← wr t z j
    upperTail bounds v x y j d h domains t z
  else upperTail bounds v x y j d h domains t z

def upperInit (bounds : Array Int) (i : Int) (s : Array Int × Array Int × Array Int) :
    Except Err (ForInStep (Array Int × Array Int × Array Int)) := do
  let t ← wr s.1 i (i + 1)
  let h ← wr s.2.2 i (i + 1)
  let d ← wr s.2.1 i ((← rd bounds (i + 1)) - (← rd bounds i))
  pure (ForInStep.yield (t, d, h))

theorem filter_upper_eq (n nb : Int) (t d h bounds : Array Int) (domains ranks : Arr2)
    (msv : Array Int) :
    filter_upper n nb t d h bounds domains ranks msv =
      (do
        let s ← forIn (rangeUp 0 (nb + 1)) (t, d, h) (upperInit bounds)
        let s2 ← forIn (rangeDown (n - 1) (-1)) ((none, s.1, s.2.1, s.2.2, domains) : LSt)
          (upperBody bounds ranks msv)
        match s2.1 with
        | some r => pure r
        | none => pure (true, s2.2.1, s2.2.2.1, s2.2.2.2.1, s2.2.2.2.2)) := by
  unfold filter_upper
  simp only []
  congr 1
  funext s
  congr 1
  funext v
  rcases v with ⟨_ | r, v⟩ <;> rfl

/-! ### the invariants -/

structure UCore (M : Int) (sz : Nat) (bounds t d h : Array Int) : Prop where
  st : t.size = sz
  sd : d.size = sz
  sh : h.size = sz
  hsz : M + 1 < sz
  ct : UChain (g t) M
  ch : UChain (g h) M
  t1 : g t M = M + 1
  d1 : ∀ i, 0 ≤ i → i ≤ M → g t i > i → 1 ≤ g d i ∧ g d i ≤ g bounds (i + 1) - g bounds i
  l1 : ∀ r, 0 ≤ r → r ≤ M - 1 → g t r > r → g t r = M ∨ g h (g t r + 1) > g t r + 1
  l2 : ∀ r, 0 ≤ r → r ≤ M - 1 → g t r > r → g d r = g bounds (r + 1) - g bounds r →
    g h (r + 1) > r + 1

structure UInv (M : Int) (sz : Nat) (bounds t d h : Array Int) : Prop extends
    UCore M sz bounds t d h where
  d2 : g d 0 = 2

theorem UCore.root_le {M : Int} {sz : Nat} {bounds t d h : Array Int}
    (hc : UCore M sz bounds t d h) (r : Int) (h0 : 0 ≤ r) (hM : r ≤ M - 1) (hr : g t r > r) :
    g t r ≤ M := by
  by_cases h : g t r ≤ M
  · exact h
  · have := (hc.ct.up r h0 (by omega) hr).1 M (by omega) (by omega)
    have := hc.t1
    omega

theorem UCore.replace_t {M : Int} {sz : Nat} {bounds t t' d h : Array Int}
    (hc : UCore M sz bounds t d h) (hs : t'.size = sz) (hct : UChain (g t') M)
    (hroots : ∀ k, 0 ≤ k → k ≤ M → (g t' k > k ↔ g t k > k))
    (hval : ∀ k, 0 ≤ k → k ≤ M → g t k > k → g t' k = g t k) : UCore M sz bounds t' d h := by
  have hM := hc.ct.hM
  refine ⟨hs, hc.sd, hc.sh, hc.hsz, hct, hc.ch, ?_, ?_, ?_, ?_⟩
  · rw [hval M hM (Int.le_refl _) (by rw [hc.t1]; omega)]; exact hc.t1
  · intro i h1 h2 h3
    exact hc.d1 i h1 h2 ((hroots i h1 h2).1 h3)
  · intro r h1 h2 h3
    have h3' := (hroots r h1 (by omega)).1 h3
    rw [hval r h1 (by omega) h3']
    exact hc.l1 r h1 h2 h3'
  · intro r h1 h2 h3
    exact hc.l2 r h1 h2 ((hroots r h1 (by omega)).1 h3)

theorem UCore.replace_h {M : Int} {sz : Nat} {bounds t d h h' : Array Int}
    (hc : UCore M sz bounds t d h) (hs : h'.size = sz) (hch : UChain (g h') M)
    (hroots : ∀ k, 0 ≤ k → k ≤ M → (g h' k > k ↔ g h k > k)) : UCore M sz bounds t d h' := by
  refine ⟨hc.st, hc.sd, hs, hc.hsz, hc.ct, hch, hc.t1, hc.d1, ?_, ?_⟩
  · intro r h1 h2 h3
    have hr1 := hc.root_le r h1 h2 h3
    rcases hc.l1 r h1 h2 h3 with h4 | h4
    · exact Or.inl h4
    · by_cases h5 : g t r = M
      · exact Or.inl h5
      · right
        rw [hroots (g t r + 1) (by omega) (by omega)]; exact h4
  · intro r h1 h2 h3 h4
    rw [hroots (r + 1) (by omega) (by omega)]
    exact hc.l2 r h1 h2 h3 h4

/-! ### the Hall-interval marking step -/

theorem upperTail2_spec {M : Int} {sz : Nat} {bounds t d h : Array Int}
    (hb : BCtx bounds (M + 1)) (hi : UInv M sz bounds t d h) (domains : Arr2) (y j z : Int)
    (hy1 : 1 ≤ y) (hyM : y ≤ M) (hz0 : 0 ≤ z) (hzM : z ≤ M - 1) (hzr : g t z > z)
    (hj : g t z = j) :
    ∃ h', upperTail2 bounds y j z t d h domains = .ok (.yield (none, t, d, h', domains)) ∧
      UInv M sz bounds t d h' := by
  have hbsz := hb.hsz
  have hNsz := hi.hsz
  have hsd := hi.sd
  have hsh := hi.sh
  unfold upperTail2
  rw [rd_ok d z (by omega) (by omega), ok_bind, rd_ok bounds z (by omega) (by omega), ok_bind,
    rd_ok bounds y (by omega) (by omega), ok_bind]
  by_cases heq : g d z + g bounds z = g bounds y
  · have hcond : (g d z + g bounds z == g bounds y) = true := by simpa using heq
    rw [if_pos hcond]
    have hd1 := hi.d1 z hz0 (by omega) hzr
    have hzy : z = y - 1 := by
      by_cases h1 : y ≤ z
      · have := hb.le' y z (by omega) h1 (by omega); omega
      · by_cases h2 : z + 1 < y
        · have := hb.lt' (z + 1) y (by omega) h2 (by omega); omega
        · omega
    have hfresh : g d z = g bounds (z + 1) - g bounds z := by
      have : z + 1 = y := by omega
      rw [this]; omega
    have hhy : g h y > y := by
      have := hi.l2 z hz0 hzM hzr hfresh
      have h3 : z + 1 = y := by omega
      rw [h3] at this; exact this
    have hjM : j ≤ M := by rw [← hj]; exact hi.toUCore.root_le z hz0 hzM hzr
    have hl1 := hi.l1 z hz0 hzM hzr
    rw [hj] at hl1
    have hdy := hi.ch.up y (by omega) hyM hhy
    have hry := hi.ch.rng y (by omega) hyM
    have hre : j + 1 = M + 1 ∨ g h (j + 1) > j + 1 := by
      rcases hl1 with h | h
      · left; omega
      · right; exact h
    have hey : g h y ≤ j + 1 := by
      by_cases hle : g h y ≤ j + 1
      · exact hle
      · have := hdy.1 (j + 1) (by omega) (by omega)
        rcases hre with h | h <;> omega
    rw [rd_ok h y (by omega) (by omega), ok_bind]
    obtain ⟨h2, hps, hsz2, hv2⟩ := path_set_up_mark h (g h y) (j + 1) y (by omega) hey
      (by omega)
      (by
        rcases hdy.2 with h0 | h0
        · left; omega
        · right; exact h0)
      (by
        intro p hp1 hp2 hp3
        have hdp := hi.ch.up p (by omega) (by omega) hp3
        have hrp := hi.ch.rng p (by omega) (by omega)
        refine ⟨?_, ?_, fun k hk1 hk2 => by have := hdp.1 k hk1 hk2; omega⟩
        · by_cases hle : g h p ≤ j + 1
          · exact hle
          · have := hdp.1 (j + 1) (by omega) (by omega)
            rcases hre with h | h <;> omega
        · rcases hdp.2 with h0 | h0
          · left
            by_cases hle : g h p ≤ j + 1
            · omega
            · have := hdp.1 (j + 1) (by omega) (by omega)
              rcases hre with h | h <;> omega
          · right; exact h0)
    rw [hps, ok_bind, wr_ok h2 y (j + 1) (by omega) (by omega), ok_bind]
    refine ⟨upd h2 y (j + 1), rfl, ?_⟩
    have ha3 : ∀ k, 0 ≤ k → g (upd h2 y (j + 1)) k =
        if k = y then j + 1 else if g h y ≤ k ∧ k < j + 1 ∧ g h k > k then y else g h k := by
      intro k hk
      rw [g_upd h2 y (j + 1) k (by omega) (by omega) hk]
      by_cases hky : k = y
      · simp [hky]
      · simp only [hky, if_false]; exact hv2 k hk
    obtain ⟨hch', hroots'⟩ := hi.ch.mark hy1 hyM hhy (by omega) hey hre ha3
    have houtside : ∀ r, 0 ≤ r → r ≤ M → g t r > r → ¬ (z < r ∧ r < j) := by
      intro r h1 h2 h3 h4
      have := (hi.ct.up z hz0 (by omega) hzr).1 r h4.1 (by omega)
      omega
    refine ⟨⟨hi.st, hi.sd, by simp [hsz2, hsh], hi.hsz, hi.ct, hch', hi.t1, hi.d1, ?_, ?_⟩, hi.d2⟩
    · intro r h1 h2 h3
      have hr1 := hi.toUCore.root_le r h1 h2 h3
      rcases hi.l1 r h1 h2 h3 with h4 | h4
      · exact Or.inl h4
      · by_cases h5 : g t r = M
        · exact Or.inl h5
        · right
          have hrr := hi.ct.rng r h1 (by omega)
          rw [hroots' (g t r + 1) (by omega) (by omega)]
          refine ⟨h4, fun h6 => ?_⟩
          rcases (hi.ct.up r h1 (by omega) h3).2 with h7 | h7
          · omega
          · exact houtside (g t r) (by omega) (by omega) h7 ⟨by omega, by omega⟩
    · intro r h1 h2 h3 h4
      rw [hroots' (r + 1) (by omega) (by omega)]
      exact ⟨hi.l2 r h1 h2 h3 h4, fun h6 => houtside r h1 (by omega) h3 ⟨by omega, by omega⟩⟩
  · have hcond : ¬ (g d z + g bounds z == g bounds y) = true := by simpa using heq
    rw [if_neg hcond]
    exact ⟨h, rfl, hi⟩

/-! ### from the failure test to the end of the iteration -/

theorem upperTail_spec {M : Int} {sz : Nat} {bounds t d h : Array Int}
    (hb : BCtx bounds (M + 1)) (hc : UCore M sz bounds t d h) (domains : Arr2)
    (v x y j z : Int) (hd2 : g d 0 = 2 ∨ (z = 0 ∧ g d 0 = 1))
    (hv0 : 0 ≤ v) (hv1 : v < domains.size) (hx1 : 1 ≤ x) (hxM : x ≤ M) (hy1 : 1 ≤ y) (hyM : y ≤ M)
    (hzx : z ≤ x - 1) (hz0 : 0 ≤ z) (hzr : g t z > z) (hj : g t z = j)
    (hall : ∀ k, z < k → k ≤ x - 1 → g t k < k) :
    (∃ t' h' dom', upperTail bounds v x y j d h domains t z =
        .ok (.yield (none, t', d, h', dom')) ∧ UInv M sz bounds t' d h' ∧
        dom'.size = domains.size) ∨
      upperTail bounds v x y j d h domains t z =
        .ok (.done (some (false, t, d, h, domains), t, d, h, domains)) := by
  have hbsz := hb.hsz
  have hNsz := hc.hsz
  have hst := hc.st
  have hsd := hc.sd
  have hsh := hc.sh
  unfold upperTail
  rw [rd_ok d z (by omega) (by omega), ok_bind, rd_ok bounds z (by omega) (by omega), ok_bind,
    rd_ok bounds y (by omega) (by omega), ok_bind]
  by_cases hfail : g d z + g bounds z < g bounds y
  · right; rw [if_pos hfail]; rfl
  · left
    rw [if_neg hfail]
    have hdN : g d 0 = 2 := by
      rcases hd2 with h2 | ⟨h2, h3⟩
      · exact h2
      · subst h2
        have := hb.le' 1 y (by omega) (by omega) (by omega)
        have := hb.bot2
        omega
    have hdnt : ∀ p, z < p → p ≤ x - 1 → g t p < p ∧ z ≤ g t p := by
      intro p h1 h2
      have := hall p h1 h2
      exact ⟨this, hc.ct.down_ge_root (by omega) h1 hz0 this hzr⟩
    obtain ⟨t3, hps, hsz3, hrel3⟩ := path_set_down_compress t (x - 1) z z hz0 hzx (by omega) hdnt
    obtain ⟨hct3, hroots3, hval3⟩ := hc.ct.compress hz0 hall hrel3
    have hc3 : UCore M sz bounds t3 d h := hc.replace_t (by omega) hct3 hroots3 hval3
    have hzr3 : g t3 z > z := (hroots3 z hz0 (by omega)).2 hzr
    have hj3 : g t3 z = j := by rw [hval3 z hz0 (by omega) hzr]; exact hj
    rw [hps, ok_bind, rd_ok h x (by omega) (by omega), ok_bind]
    by_cases hhx : g h x < x
    · rw [if_pos hhx, ok_bind]
      have hrx := hc.ch.rng x (by omega) hxM
      obtain ⟨w, hpm, hw1, hw2, hw3, hw4⟩ := path_min_spec h 0 M (g h x) (by omega) (by omega)
        (fun k h1 h2 => (hc.ch.rng k h1 h2).1) (fun k h1 h2 h3 => hc.ch.down k h1 h2 h3)
        (by omega) (by omega)
      have hwr : g h w > w := by have := hc.ch.rng w hw1 (by omega); omega
      have hallh : ∀ k, w < k → k ≤ x → g h k < k := by
        intro k h1 h2
        by_cases hk : k = x
        · subst hk; exact hhx
        · by_cases hk2 : g h x < k
          · exact hc.ch.down x (by omega) hxM hhx k hk2 (by omega)
          · exact hw4 k h1 (by omega)
      have hdnh : ∀ p, w < p → p ≤ x → g h p < p ∧ w ≤ g h p := by
        intro p h1 h2
        have := hallh p h1 h2
        exact ⟨this, hc.ch.down_ge_root (by omega) h1 hw1 this hwr⟩
      rw [hpm, ok_bind, rd_ok bounds w (by omega) (by omega), ok_bind,
        wr2_ok domains v MAX (g bounds w - 1) hv0 hv1, ok_bind]
      obtain ⟨h3, hps', hszh3, hrelh3⟩ := path_set_down_compress h x w w hw1 (by omega)
        (by omega) hdnh
      obtain ⟨hch3, hrootsh3, _⟩ := hc.ch.compress hw1 hallh hrelh3
      rw [hps', ok_bind]
      have hi3 : UInv M sz bounds t3 d h3 := ⟨hc3.replace_h (by omega) hch3 hrootsh3, hdN⟩
      obtain ⟨h', he, hi'⟩ := upperTail2_spec hb hi3 (upd2 domains v MAX (g bounds w - 1)) y j z
        hy1 hyM hz0 (by omega) hzr3 hj3
      exact ⟨t3, h', _, he, hi', by simp⟩
    · rw [if_neg hhx]
      have hi3 : UInv M sz bounds t3 d h := ⟨hc3, hdN⟩
      obtain ⟨h', he, hi'⟩ := upperTail2_spec hb hi3 domains y j z hy1 hyM hz0 (by omega) hzr3 hj3
      exact ⟨t3, h', _, he, hi', rfl⟩

/-! ### one iteration of the main loop -/

theorem upperBody_spec {M : Int} {sz : Nat} {bounds t d h : Array Int}
    (hb : BCtx bounds (M + 1)) (hi : UInv M sz bounds t d h) (ranks domains : Arr2)
    (msv : Array Int) (i : Int)
    (o : Option (Bool × Array Int × Array Int × Array Int × Arr2))
    (hi0 : 0 ≤ i) (hi1 : i < msv.size)
    (hv0 : 0 ≤ g msv i) (hv1 : g msv i < domains.size) (hvr : g msv i < ranks.size)
    (hx1 : 1 ≤ (g2 ranks (g msv i)).2) (hxM : (g2 ranks (g msv i)).2 ≤ M)
    (hy1 : 1 ≤ (g2 ranks (g msv i)).1) (hyM : (g2 ranks (g msv i)).1 ≤ M) :
    (∃ t' d' h' dom', upperBody bounds ranks msv i (o, t, d, h, domains) =
        .ok (.yield (none, t', d', h', dom')) ∧ UInv M sz bounds t' d' h' ∧
        dom'.size = domains.size) ∨
      ∃ st, upperBody bounds ranks msv i (o, t, d, h, domains) =
        .ok (.done (some (false, st), st)) := by
  have hbsz := hb.hsz
  have hNsz := hi.hsz
  have hst := hi.st
  have hsd := hi.sd
  have hsh := hi.sh
  unfold upperBody
  simp only []
  rw [rd_ok msv i hi0 hi1, ok_bind]
  generalize g msv i = v at hv0 hv1 hvr hx1 hxM hy1 hyM ⊢
  rw [rd2_max_ok ranks v hv0 hvr, ok_bind, rd2_min_ok ranks v hv0 hvr, ok_bind]
  generalize (g2 ranks v).2 = x at hx1 hxM ⊢
  generalize (g2 ranks v).1 = y at hy1 hyM ⊢
  obtain ⟨z0, hpm, hz1, hz2, hz3, hz4⟩ := path_min_spec t 0 M (x - 1) (by omega) (by omega)
    (fun k h1 h2 => (hi.ct.rng k h1 h2).1) (fun k h1 h2 h3 => hi.ct.down k h1 h2 h3)
    (by omega) (by omega)
  have hz0r : g t z0 > z0 := by have := hi.ct.rng z0 hz1 (by omega); omega
  have hd0 := hi.d1 z0 hz1 (by omega) hz0r
  rw [hpm, ok_bind, rd_ok t z0 (by omega) (by omega), ok_bind, rd_ok d z0 (by omega) (by omega),
    ok_bind, wr_ok d z0 _ (by omega) (by omega), ok_bind,
    rd_ok (upd d z0 (g d z0 - 1)) z0 (by omega) (by simp; omega), ok_bind,
    g_upd_same d z0 _ (by omega) (by omega)]
  have hd' : ∀ k, 0 ≤ k → k ≠ z0 → g (upd d z0 (g d z0 - 1)) k = g d k :=
    fun k h1 h2 => g_upd_ne d z0 _ k (by omega) (by omega) h1 h2
  have hd'z : g (upd d z0 (g d z0 - 1)) z0 = g d z0 - 1 := g_upd_same d z0 _ (by omega) (by omega)
  by_cases hm : g d z0 - 1 = 0
  · have hcond : (g d z0 - 1 == 0) = true := by simpa using hm
    rw [if_pos hcond]
    have hz0N : 0 < z0 := by
      by_cases h : z0 = 0
      · subst h; have := hi.d2; omega
      · omega
    rw [wr_ok t z0 (z0 - 1) (by omega) (by omega), ok_bind,
      rd_ok (upd t z0 (z0 - 1)) z0 (by omega) (by simp; omega), ok_bind,
      g_upd_same t z0 _ (by omega) (by omega)]
    have ht1 : ∀ k, 0 ≤ k → g (upd t z0 (z0 - 1)) k = if k = z0 then z0 - 1 else g t k :=
      fun k hk => g_upd t z0 _ k (by omega) (by omega) hk
    obtain ⟨z1, hpm1, hy1', hy2', hy3', hy4'⟩ := path_min_spec (upd t z0 (z0 - 1)) 0 M (z0 - 1)
      (by omega) (by simp; omega)
      (fun k h1 h2 => by
        rw [ht1 k (by omega)]
        by_cases hk : k = z0
        · simp [hk]; omega
        · simp only [hk, if_false]; exact (hi.ct.rng k h1 h2).1)
      (fun k h1 h2 h3 m hm1 hm2 => by
        rw [ht1 k (by omega)] at h3 hm1
        by_cases hk : k = z0
        · simp only [hk, if_true] at hm1; omega
        · simp only [hk, if_false] at h3 hm1
          have := (hi.ct.rng k h1 h2).1
          rw [ht1 m (by omega)]
          by_cases hmz : m = z0
          · simp only [hmz, if_true]; omega
          · simp only [hmz, if_false]; exact hi.ct.down k h1 h2 h3 m hm1 hm2)
      (by omega) (by omega)
    have hz1ne : z1 ≠ z0 := by omega
    have hz1r : g t z1 > z1 := by
      rw [ht1 z1 (by omega)] at hy3'
      simp only [hz1ne, if_false] at hy3'
      have := hi.ct.rng z1 hy1' (by omega); omega
    have hbetween : ∀ k, z1 < k → k < z0 → g t k < k := by
      intro k h1 h2
      have := hy4' k h1 (by omega)
      rw [ht1 k (by omega)] at this
      simpa [show k ≠ z0 by omega] using this
    rw [hpm1, ok_bind, wr_ok (upd t z0 (z0 - 1)) z1 (g t z0) (by omega) (by simp; omega), ok_bind]
    have ha2 : ∀ k, 0 ≤ k → g (upd (upd t z0 (z0 - 1)) z1 (g t z0)) k =
        if k = z1 then g t z0 else if k = z0 then z0 - 1 else g t k := by
      intro k hk
      rw [g_upd _ z1 _ k (by omega) (by simp; omega) hk]
      by_cases hk1 : k = z1
      · simp [hk1]
      · simp only [hk1, if_false]; exact ht1 k hk
    obtain ⟨hct2, hroots2, hoth2, hz1v⟩ :=
      hi.ct.merge (by omega) (by omega) hy1' hz0r hz1r hbetween ha2
    have hc2 : UCore M sz bounds (upd (upd t z0 (z0 - 1)) z1 (g t z0)) (upd d z0 (g d z0 - 1)) h := by
      refine ⟨by simp [hst], by simp [hsd], hsh, hNsz, hct2, hi.ch, ?_, ?_, ?_, ?_⟩
      · rw [hoth2 M (by omega) (by omega) (by omega)]; exact hi.t1
      · intro i h1 h2 h3
        have hr := (hroots2 i h1 h2).1 h3
        rw [hd' i (by omega) hr.2]; exact hi.d1 i h1 h2 hr.1
      · intro r h1 h2 h3
        have hr := (hroots2 r h1 (by omega)).1 h3
        by_cases hr1 : r = z1
        · subst hr1; rw [hz1v]; exact hi.l1 z0 (by omega) (by omega) hz0r
        · rw [hoth2 r h1 hr1 hr.2]; exact hi.l1 r h1 h2 hr.1
      · intro r h1 h2 h3 h4
        have hr := (hroots2 r h1 (by omega)).1 h3
        rw [hd' r (by omega) hr.2] at h4
        exact hi.l2 r h1 h2 hr.1 h4
    have hdN : g (upd d z0 (g d z0 - 1)) 0 = 2 := by rw [hd' 0 (by omega) (by omega)]; exact hi.d2
    rcases upperTail_spec hb hc2 domains v x y (g t z0) z1 (Or.inl hdN) hv0 hv1 hx1 hxM hy1 hyM
      (by omega) hy1' ((hroots2 z1 hy1' (by omega)).2 ⟨hz1r, hz1ne⟩) hz1v
      (fun k h1 h2 => by
        by_cases hk0 : k = z0
        · subst hk0; rw [ha2 k (by omega)]
          simp only [show k ≠ z1 by omega, if_false, if_true]; omega
        · rw [hoth2 k (by omega) (by omega) hk0]
          by_cases hk1 : z0 < k
          · exact hz4 k hk1 h2
          · exact hbetween k h1 (by omega)) with ⟨t', h', dom', he, hi', hs'⟩ | he
    · exact Or.inl ⟨t', _, h', dom', he, hi', hs'⟩
    · exact Or.inr ⟨_, he⟩
  · have hcond : ¬ (g d z0 - 1 == 0) = true := by simpa using hm
    rw [if_neg hcond]
    have hc2 : UCore M sz bounds t (upd d z0 (g d z0 - 1)) h := by
      refine ⟨hst, by simp [hsd], hsh, hNsz, hi.ct, hi.ch, hi.t1, ?_, hi.l1, ?_⟩
      · intro i h1 h2 h3
        by_cases hiz : i = z0
        · subst hiz; rw [hd'z]; omega
        · rw [hd' i (by omega) hiz]; exact hi.d1 i h1 h2 h3
      · intro r h1 h2 h3 h4
        by_cases hrz : r = z0
        · subst hrz; rw [hd'z] at h4; omega
        · rw [hd' r (by omega) hrz] at h4; exact hi.l2 r h1 h2 h3 h4
    have hdN : g (upd d z0 (g d z0 - 1)) 0 = 2 ∨ (z0 = 0 ∧ g (upd d z0 (g d z0 - 1)) 0 = 1) := by
      by_cases h : z0 = 0
      · right; subst h; rw [hd'z]; have := hi.d2; exact ⟨rfl, by omega⟩
      · left; rw [hd' 0 (by omega) (by omega)]; exact hi.d2
    rcases upperTail_spec hb hc2 domains v x y (g t z0) z0 hdN hv0 hv1 hx1 hxM hy1 hyM
      hz2 hz1 hz0r rfl hz4 with ⟨t', h', dom', he, hi', hs'⟩ | he
    · exact Or.inl ⟨t', _, h', dom', he, hi', hs'⟩
    · exact Or.inr ⟨_, he⟩

/-! ### the initialisation loop -/

theorem upperInit_spec {M : Int} {sz : Nat} {bounds : Array Int} (hb : BCtx bounds (M + 1))
    (t d h : Array Int) (hst : t.size = sz) (hsd : d.size = sz) (hsh : h.size = sz)
    (hNsz : M + 1 < sz) :
    ∃ s, forIn (rangeUp 0 (M + 1)) (t, d, h) (upperInit bounds) = .ok s ∧
      s.1.size = sz ∧ s.2.1.size = sz ∧ s.2.2.size = sz ∧
      ∀ k, 0 ≤ k → k ≤ M → g s.1 k = k + 1 ∧ g s.2.2 k = k + 1 ∧
        g s.2.1 k = g bounds (k + 1) - g bounds k := by
  have hbsz := hb.hsz
  have hN := hb.hN
  refine forIn_list_except
    (Inv := fun rest (s : Array Int × Array Int × Array Int) =>
      ∃ i, rest = rangeUp i (M + 1) ∧ 0 ≤ i ∧ i ≤ M + 1 ∧
        s.1.size = sz ∧ s.2.1.size = sz ∧ s.2.2.size = sz ∧
        ∀ k, 0 ≤ k → k < i → g s.1 k = k + 1 ∧ g s.2.2 k = k + 1 ∧
          g s.2.1 k = g bounds (k + 1) - g bounds k)
    _ _ ?_ ?_ _ _ ?_
  · rintro x rest ⟨t, d, h⟩ ⟨i, hr, hi1, hi2, h1, h2, h3, h4⟩
    obtain ⟨hlt, hx, hrest⟩ := rangeUp_eq_cons i (M + 1) x rest hr
    subst hx
    left
    simp only at h1 h2 h3 h4
    refine ⟨(upd t x (x + 1), upd d x (g bounds (x + 1) - g bounds x), upd h x (x + 1)), ?_, ?_⟩
    · unfold upperInit
      simp only []
      rw [wr_ok t x _ (by omega) (by omega), ok_bind, wr_ok h x _ (by omega) (by omega), ok_bind,
        rd_ok bounds (x + 1) (by omega) (by omega), ok_bind,
        rd_ok bounds x (by omega) (by omega), ok_bind,
        wr_ok d x _ (by omega) (by omega), ok_bind]
      rfl
    · refine ⟨x + 1, hrest, by omega, by omega, by simp [h1], by simp [h2], by simp [h3], ?_⟩
      intro k hk1 hk2
      simp only
      by_cases hkx : k = x
      · subst hkx
        rw [g_upd_same t k _ (by omega) (by omega), g_upd_same h k _ (by omega) (by omega),
          g_upd_same d k _ (by omega) (by omega)]
        exact ⟨rfl, rfl, rfl⟩
      · rw [g_upd_ne t x _ k (by omega) (by omega) (by omega) hkx,
          g_upd_ne h x _ k (by omega) (by omega) (by omega) hkx,
          g_upd_ne d x _ k (by omega) (by omega) (by omega) hkx]
        exact h4 k hk1 (by omega)
  · rintro ⟨t, d, h⟩ ⟨i, hr, hi1, hi2, h1, h2, h3, h4⟩
    have : ¬ i < M + 1 := by
      intro hlt
      rw [rangeUp_cons i (M + 1) hlt] at hr
      cases hr
    exact ⟨h1, h2, h3, fun k hk1 hk2 => h4 k hk1 (by omega)⟩
  · exact ⟨0, rfl, by omega, by omega, hst, hsd, hsh, fun k h1 h2 => by omega⟩

theorem uinv_init {M : Int} {sz : Nat} {bounds t d h : Array Int} (hb : BCtx bounds (M + 1))
    (hst : t.size = sz) (hsd : d.size = sz) (hsh : h.size = sz) (hNsz : M + 1 < sz)
    (hv : ∀ k, 0 ≤ k → k ≤ M → g t k = k + 1 ∧ g h k = k + 1 ∧
      g d k = g bounds (k + 1) - g bounds k) : UInv M sz bounds t d h := by
  have hN := hb.hN
  have hchain : ∀ a : Int → Int, (∀ k, 0 ≤ k → k ≤ M → a k = k + 1) → UChain a M := by
    intro a ha
    refine ⟨by omega, ?_, ?_, ?_, ?_⟩
    · intro i h1 h2; rw [ha i h1 h2]; omega
    · intro i h1 h2 _
      rw [ha i h1 h2]
      refine ⟨fun k hk1 hk2 => by omega, ?_⟩
      by_cases h0 : i + 1 = M + 1
      · exact Or.inl h0
      · right; rw [ha (i + 1) (by omega) (by omega)]; omega
    · intro i h1 h2 h3; rw [ha i h1 h2] at h3; omega
    · rw [ha 0 (by omega) (by omega)]; omega
  refine ⟨⟨hst, hsd, hsh, hNsz, hchain _ (fun k h1 h2 => (hv k h1 h2).1),
    hchain _ (fun k h1 h2 => (hv k h1 h2).2.1), ?_, ?_, ?_, ?_⟩, ?_⟩
  · exact (hv M (by omega) (by omega)).1
  · intro i h1 h2 _
    rw [(hv i h1 h2).2.2]
    have := hb.mono i h1 (by omega)
    omega
  · intro r h1 h2 _
    rw [(hv r h1 (by omega)).1]
    by_cases h3 : r + 1 = M
    · exact Or.inl h3
    · right; rw [(hv (r + 1 + 1) (by omega) (by omega)).2.1]; omega
  · intro r h1 h2 _ _
    rw [(hv (r + 1) (by omega) (by omega)).2.1]; omega
  · rw [(hv 0 (by omega) (by omega)).2.2]
    have := hb.bot2
    have h01 : (0 : Int) + 1 = 1 := rfl
    rw [h01]; omega

/-! ### `filter_upper` -/

theorem filter_upper_spec {M : Int} {sz : Nat} {bounds : Array Int} (hb : BCtx bounds (M + 1))
    (n : Int) (t d h : Array Int) (domains ranks : Arr2) (msv : Array Int)
    (hst : t.size = sz) (hsd : d.size = sz) (hsh : h.size = sz) (hNsz : M + 1 < sz)
    (hrs : ranks.size = domains.size) (hn : n = msv.size)
    (hmsv : ∀ i : Int, 0 ≤ i → i < n → 0 ≤ g msv i ∧ g msv i < (domains.size : Int))
    (hranks : ∀ v : Int, 0 ≤ v → v < ranks.size →
      1 ≤ (g2 ranks v).1 ∧ (g2 ranks v).1 ≤ M ∧ 1 ≤ (g2 ranks v).2 ∧ (g2 ranks v).2 ≤ M) :
    ∃ r, filter_upper n M t d h bounds domains ranks msv = .ok r ∧
      (r.1 = true → r.2.2.2.2.size = domains.size) := by
  rw [filter_upper_eq]
  obtain ⟨⟨t0, d0, h0⟩, he0, hs1, hs2, hs3, hv0⟩ := upperInit_spec hb t d h hst hsd hsh hNsz
  rw [he0, ok_bind]
  simp only at hs1 hs2 hs3 hv0 ⊢
  have hi0 : UInv M sz bounds t0 d0 h0 := uinv_init hb hs1 hs2 hs3 hNsz hv0
  refine except_bind_ok
    (P := fun (s : LSt) =>
      (s.1 = none ∧ s.2.2.2.2.size = domains.size) ∨ ∃ st, s.1 = some (false, st))
    (forIn_list_except
      (Inv := fun (rest : List Int) (s : LSt) =>
        ∃ i, rest = rangeDown i (-1) ∧ -1 ≤ i ∧ i ≤ n - 1 ∧ s.1 = none ∧
        UInv M sz bounds s.2.1 s.2.2.1 s.2.2.2.1 ∧ s.2.2.2.2.size = domains.size)
      _ _ ?_ ?_ _ _ ?_) ?_
  · rintro x rest ⟨o, t1, d1, h1, dom1⟩ ⟨i, hr, hi1, hi2, ho, hi, hds⟩
    simp only at ho hi hds
    obtain ⟨hlt, hx, hrest⟩ := rangeDown_eq_cons i (-1) x rest hr
    subst hx
    have hv := hmsv x (by omega) (by omega)
    have hr := hranks (g msv x) hv.1 (by omega)
    rcases upperBody_spec hb hi ranks dom1 msv x o (by omega) (by omega) hv.1 (by omega) (by omega)
      hr.2.2.1 hr.2.2.2 hr.1 hr.2.1 with ⟨t', d', h', dom', he, hi', hs'⟩ | ⟨st, he⟩
    · left
      exact ⟨_, he, x - 1, hrest, by omega, by omega, rfl, hi', by simp only; omega⟩
    · right
      exact ⟨_, he, Or.inr ⟨st, rfl⟩⟩
  · rintro ⟨o, t1, d1, h1, dom1⟩ ⟨i, _, _, _, ho, hi, hds⟩
    exact Or.inl ⟨ho, hds⟩
  · exact ⟨n - 1, rfl, by omega, by omega, rfl, hi0, rfl⟩
  · rintro ⟨o, t1, d1, h1, dom1⟩ hp
    rcases hp with ⟨ho, h4'⟩ | ⟨st, ho⟩
    · simp only at ho h4'
      subst ho
      exact ⟨_, rfl, fun _ => h4'⟩
    · simp only at ho
      subst ho
      exact ⟨_, rfl, fun h => by simp at h⟩

end AllDiff
end Nucs
