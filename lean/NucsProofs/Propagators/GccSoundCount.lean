import NucsProofs.Propagators.GccSoundDefs
/-!
  Semantic soundness of the ported gcc — the pure counting lemmas (no algorithm involved).

  `τ p` is the value taken by variable `p`, `L` a list of variables, `cum` a prefix-sum function of
  the capacities (`cum (v + 1) - cum v` = capacity of the value `v`).
  * `cntIn_le_cum`  : if no value is taken more often than its capacity, the number of variables
    with a value in `[a, b)` is at most `cum b - cum a`;
  * `cum_le_cntIn`  : if every value of `[a, b)` is taken at least as often as its (lower)
    capacity, that number is at least `cum b - cum a`;
  * `upper_fail`, `upper_prune` : the easy direction of Hall's theorem for the upper capacities, in
    the form delivered by the passes `filter_lower_max` / `filter_upper_max` (rank intervals):
    `gcc_no_solution_of_violated_set` for intervals, and the same for the box with one variable
    fixed.
-/
namespace Nucs
namespace Gcc
open AllDiff (cinR Oth)

/-- number of variables of `L` whose value lies in `[a, b)` -/
def cntIn (τ : Int → Int) (L : List Int) (a b : Int) : Int :=
  ((L.countP (fun p => decide (a ≤ τ p) && decide (τ p < b)) : Nat) : Int)

/-- number of variables of `L` with value `v` -/
def occ (τ : Int → Int) (L : List Int) (v : Int) : Int :=
  ((L.countP (fun p => decide (τ p = v)) : Nat) : Int)

theorem cntIn_nil (τ : Int → Int) (a b : Int) : cntIn τ [] a b = 0 := rfl
theorem occ_nil (τ : Int → Int) (v : Int) : occ τ [] v = 0 := rfl

theorem cntIn_cons (τ : Int → Int) (p : Int) (L : List Int) (a b : Int) :
    cntIn τ (p :: L) a b = cntIn τ L a b + (if a ≤ τ p ∧ τ p < b then 1 else 0) := by
  unfold cntIn
  rw [List.countP_cons]
  by_cases h : a ≤ τ p ∧ τ p < b
  · simp [h]
  · rw [if_neg h]
    have : (decide (a ≤ τ p) && decide (τ p < b)) = false := by simpa using h
    simp [this]

theorem occ_cons (τ : Int → Int) (p : Int) (L : List Int) (v : Int) :
    occ τ (p :: L) v = occ τ L v + (if τ p = v then 1 else 0) := by
  unfold occ
  rw [List.countP_cons]
  by_cases h : τ p = v <;> simp [h]

theorem occ_nonneg (τ : Int → Int) (L : List Int) (v : Int) : 0 ≤ occ τ L v := by
  unfold occ; omega

theorem cntIn_nonneg (τ : Int → Int) (L : List Int) (a b : Int) : 0 ≤ cntIn τ L a b := by
  unfold cntIn; omega

theorem cntIn_succ (τ : Int → Int) (a b : Int) (hab : a ≤ b) :
    ∀ L : List Int, cntIn τ L a (b + 1) = cntIn τ L a b + occ τ L b := by
  intro L
  induction L with
  | nil => rfl
  | cons p L ih =>
    rw [cntIn_cons, cntIn_cons, occ_cons, ih]
    by_cases h1 : a ≤ τ p <;> by_cases h2 : τ p < b <;> by_cases h3 : τ p = b <;>
      simp [h1, h2, h3] <;> omega

theorem cntIn_empty (τ : Int → Int) (a : Int) : ∀ L : List Int, cntIn τ L a a = 0 := by
  intro L
  induction L with
  | nil => rfl
  | cons p L ih => rw [cntIn_cons, ih, if_neg (by omega)]; rfl

/-- upper capacities: at most `cum b - cum a` variables take a value in `[a, b)` -/
theorem cntIn_le_cum (τ : Int → Int) (L : List Int) (cum : Int → Int) (a : Int) :
    ∀ (n : Nat) (b : Int), b = a + n →
      (∀ v, a ≤ v → v < b → occ τ L v ≤ cum (v + 1) - cum v) → cntIn τ L a b ≤ cum b - cum a := by
  intro n
  induction n with
  | zero => intro b hb _; simp at hb; rw [hb, cntIn_empty]; omega
  | succ n ih =>
    intro b hb h
    have e : b = (b - 1) + 1 := by omega
    have h1 := ih (b - 1) (by omega) (fun v h1 h2 => h v h1 (by omega))
    have h2 := h (b - 1) (by omega) (by omega)
    rw [e, cntIn_succ τ a (b - 1) (by omega) L]
    have : b - 1 + 1 = b := by omega
    rw [this] at h2 ⊢
    omega

/-- lower capacities: at least `cum b - cum a` variables take a value in `[a, b)` -/
theorem cum_le_cntIn (τ : Int → Int) (L : List Int) (cum : Int → Int) (a : Int) :
    ∀ (n : Nat) (b : Int), b = a + n →
      (∀ v, a ≤ v → v < b → cum (v + 1) - cum v ≤ occ τ L v) → cum b - cum a ≤ cntIn τ L a b := by
  intro n
  induction n with
  | zero => intro b hb _; simp at hb; rw [hb, cntIn_empty]; omega
  | succ n ih =>
    intro b hb h
    have e : b = (b - 1) + 1 := by omega
    have h1 := ih (b - 1) (by omega) (fun v h1 h2 => h v h1 (by omega))
    have h2 := h (b - 1) (by omega) (by omega)
    rw [e, cntIn_succ τ a (b - 1) (by omega) L]
    have : b - 1 + 1 = b := by omega
    rw [this] at h2 ⊢
    omega

theorem cntIn_sublist (τ : Int → Int) {P Q : List Int} (h : P.Sublist Q) (a b : Int) :
    cntIn τ P a b ≤ cntIn τ Q a b := by
  unfold cntIn
  have := h.countP_le (p := fun p => decide (a ≤ τ p) && decide (τ p < b))
  omega

theorem oth_sublist (L : List Int) (u : Int) : (Oth L u).Sublist L := by
  unfold Oth; exact List.filter_sublist

/-- removing `u` from the list removes it from the count -/
theorem cntIn_oth_add (τ : Int → Int) (u a b : Int) (hu : a ≤ τ u ∧ τ u < b) :
    ∀ L : List Int, u ∈ L → cntIn τ (Oth L u) a b + 1 ≤ cntIn τ L a b := by
  intro L
  induction L with
  | nil => intro h; cases h
  | cons p L ih =>
    intro hmem
    by_cases hp : p = u
    · subst hp
      have e : Oth (p :: L) p = Oth L p := by
        unfold Oth; rw [List.filter_cons]; simp
      rw [e, cntIn_cons, if_pos hu]
      have := cntIn_sublist τ (oth_sublist L p) a b
      omega
    · have hin : u ∈ L := by
        rcases List.mem_cons.1 hmem with h | h
        · exact absurd h.symm hp
        · exact h
      have e : Oth (p :: L) u = p :: Oth L u := by
        unfold Oth; rw [List.filter_cons]; simp [hp]
      rw [e, cntIn_cons, cntIn_cons]
      have := ih hin
      omega

/-! ### the upper-capacity certificates (rank intervals) -/

/-- the link between ranks, bounds, domains, the assignment and the capacities -/
structure UCtx (N : Int) (bd bnd rx ry : Int → Int) (all : List Int) (lo hi τ cum : Int → Int) :
    Prop where
  mono : ∀ i j, 0 ≤ i → i ≤ j → j ≤ N → bnd i ≤ bnd j
  rk : ∀ u ∈ all, 1 ≤ rx u ∧ rx u < ry u ∧ ry u < N
  hlo : ∀ u ∈ all, lo u = bnd (rx u)
  hhi : ∀ u ∈ all, hi u + 1 = bnd (ry u)
  htau : ∀ u ∈ all, lo u ≤ τ u ∧ τ u ≤ hi u
  hbd : ∀ k, 0 ≤ k → k ≤ N → bd k = cum (bnd k)
  hcap : ∀ v, bnd 0 ≤ v → v < bnd N → occ τ all v ≤ cum (v + 1) - cum v

section upper
variable {N : Int} {bd bnd rx ry : Int → Int} {all : List Int} {lo hi τ cum : Int → Int}

theorem cinR_le_cntIn (h : UCtx N bd bnd rx ry all lo hi τ cum) (ja yb : Int) (h1 : 0 ≤ ja)
    (h2 : yb ≤ N) : ∀ L : List Int, (∀ p ∈ L, p ∈ all) →
      cinR rx ry L ja yb ≤ cntIn τ L (bnd ja) (bnd yb) := by
  intro L
  induction L with
  | nil => intro _; simp [AllDiff.cinR_nil, cntIn_nil]
  | cons p L ih =>
    intro hL
    have hp := hL p List.mem_cons_self
    have := ih (fun q hq => hL q (List.mem_cons_of_mem _ hq))
    rw [AllDiff.cinR_cons, cntIn_cons]
    by_cases hc : ja ≤ rx p ∧ ry p ≤ yb
    · have hr := h.rk p hp
      have e1 := h.hlo p hp
      have e2 := h.hhi p hp
      have e3 := h.htau p hp
      have m1 := h.mono ja (rx p) h1 hc.1 (by omega)
      have m2 := h.mono (ry p) yb (by omega) hc.2 h2
      rw [if_pos hc, if_pos ⟨by omega, by omega⟩]; omega
    · rw [if_neg hc]; split <;> omega

theorem cntIn_all_le (h : UCtx N bd bnd rx ry all lo hi τ cum) (a b : Int) (hab : a ≤ b)
    (ha : bnd 0 ≤ a) (hb : b ≤ bnd N) : cntIn τ all a b ≤ cum b - cum a :=
  cntIn_le_cum τ all cum a (b - a).toNat b (by omega)
    (fun v h1 h2 => h.hcap v (by omega) (by omega))

/-- a rank interval confining more variables than its capacity: no solution -/
theorem upper_fail (h : UCtx N bd bnd rx ry all lo hi τ cum) (ja yb : Int) (h1 : 0 ≤ ja)
    (h12 : ja ≤ yb) (h2 : yb ≤ N) : cinR rx ry all ja yb ≤ bd yb - bd ja := by
  have a1 := cinR_le_cntIn h ja yb h1 h2 all (fun p hp => hp)
  have a2 := cntIn_all_le h (bnd ja) (bnd yb) (h.mono ja yb h1 h12 h2)
    (h.mono 0 ja (Int.le_refl _) h1 (by omega)) (h.mono yb N (by omega) h2 (Int.le_refl _))
  rw [h.hbd ja h1 (by omega), h.hbd yb (by omega) h2]
  omega

/-- the new minimum recorded by a successful pass is a lower bound of every solution -/
theorem upper_prune (h : UCtx N bd bnd rx ry all lo hi τ cum) (u mn : Int) (hu : u ∈ all)
    (hf : GRFact N bd bnd rx ry all u mn) : mn ≤ τ u := by
  obtain ⟨w, hmn, hw1, hw2, hcases, _⟩ := hf
  have hr := h.rk u hu
  have e1 := h.hlo u hu
  have e3 := h.htau u hu
  rcases hcases with hw | ⟨ja, g1, g2, g3⟩
  · rw [hmn, hw]; omega
  · rw [hmn]
    by_cases hc : bnd w ≤ τ u
    · exact hc
    · exfalso
      have m1 := h.mono ja (rx u) (by omega) g2 (by omega)
      have a1 := cinR_le_cntIn h ja w (by omega) hw2 (Oth all u)
        (fun p hp => (oth_sublist all u).subset hp)
      have a2 := cntIn_oth_add τ u (bnd ja) (bnd w) ⟨by omega, by omega⟩ all hu
      have a3 := cntIn_all_le h (bnd ja) (bnd w) (h.mono ja w (by omega) (by omega) hw2)
        (h.mono 0 ja (Int.le_refl _) (by omega) (by omega))
        (h.mono w N (by omega) hw2 (Int.le_refl _))
      rw [h.hbd ja (by omega) (by omega), h.hbd w (by omega) hw2] at g3
      omega

end upper

end Gcc
end Nucs
