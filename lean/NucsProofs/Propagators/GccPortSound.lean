import NucsProofs.Propagators.GccSoundFinal
import NucsProofs.Propagators.GccExistAsm
/-!
  Semantic soundness of the RAW PORT of the gcc propagator, in the exact shape of `Sound` (Spec.lean)
  — `gcc_port_sound` — obtained from `gcc_port_sound_partial` (GccSoundFinal.lean) and the
  completeness of the failure detection `gcc_port_feasible`: in contract, on a box of non-empty
  domains and with every upper capacity `≥ 1`, a run that does not report an inconsistency was
  started on a box that contains a solution (Hall's theorem with capacities for the upper bounds,
  the matching built by `filter_lower_min` for the lower bounds, and the combination lemma
  `gcc_mix`).
-/
namespace Nucs
open Gcc AllDiff

/-- the tuple `[τ 0, …, τ (n-1)]` -/
def Gcc.tupleOf (τ : Int → Int) (n : Nat) : List Int := (List.range n).map (fun (k : Nat) => τ (k : Int))

theorem Gcc.tupleOf_length (τ : Int → Int) (n : Nat) : (Gcc.tupleOf τ n).length = n := by
  simp [Gcc.tupleOf]

theorem Gcc.tupleOf_get (τ : Int → Int) (n k : Nat) (hk : k < n) :
    getI (Gcc.tupleOf τ n) k = τ (k : Int) := by
  simp [Gcc.tupleOf, getI, hk]

theorem Gcc.occ_congr' (τ τ' : Int → Int) (L : List Int) (v : Int) (h : ∀ p ∈ L, τ p = τ' p) :
    occ τ L v = occ τ' L v := by
  unfold occ
  congr 1
  apply List.countP_congr
  intro p hp
  rw [h p hp]

/-- **Completeness of the failure detection of the raw port.** -/
theorem gcc_port_feasible (ps : List Int) (B : Box) (hc : Contract .gcc ps B) (hB : B.Nonempty)
    (hu : ∀ j, j < (ps.length - 1) / 2 → 1 ≤ getI ps (1 + (ps.length - 1) / 2 + j))
    (st : Status) (B' : Box) (h : gcc ps B = .ok (st, B')) (hst : st ≠ .inc) :
    ∃ t, inBox t B ∧ rel .gcc ps t := by
  obtain ⟨hlen, hm1, hB1, hwithin, hcap⟩ := hc
  generalize hmdef : (ps.length - 1) / 2 = mn at hlen hm1 hwithin hcap hu
  obtain ⟨status, domains, hr, hfeas⟩ := Gcc.compute_domains_gcc_feasible B.toArray ps.toArray
    (mn : Int) (by omega) (by simp; omega) (by simpa using hB1)
    (by
      intro v h0 h1
      have hmem := AllDiff.g2_mem_toArray B v h0 (by simpa using h1)
      have hw := hwithin _ hmem
      have hne := hB _ hmem
      rw [Gcc.g_toArray]
      exact ⟨hw.1, hne, hw.2⟩)
    (by
      intro k h0 h1
      rw [Gcc.g_toArray]
      have := (hcap k.toNat (by omega)).1
      have e : (1 + k).toNat = 1 + k.toNat := by omega
      rw [e]; exact this)
    (by
      intro k h0 h1
      rw [Gcc.g_toArray, Gcc.g_toArray]
      have := (hcap k.toNat (by omega)).2
      have e : (1 + k).toNat = 1 + k.toNat := by omega
      have e2 : (1 + (mn : Int) + k).toNat = 1 + mn + k.toNat := by omega
      rw [e, e2]; exact this)
    (by
      intro k h0 h1
      rw [Gcc.g_toArray]
      have := hu k.toNat (by omega)
      have e : (1 + (mn : Int) + k).toNat = 1 + mn + k.toNat := by omega
      rw [e]; exact this)
  -- the status
  have hstatus : status ≠ .inc := by
    intro hs
    unfold gcc at h
    rw [hr] at h
    simp only [AllDiff.ok_bind] at h
    rw [if_pos (by simp [hs])] at h
    have : (Status.inc, B) = (st, B') := by simpa [pure, Except.pure] using h
    exact hst (Prod.mk.inj this).1.symm
  obtain ⟨τ, hdomτ, hlow, hup⟩ := hfeas hstatus
  have hsz : (B.toArray.size : Int) = (B.length : Int) := by simp
  refine ⟨Gcc.tupleOf τ B.length, ?_, ?_⟩
  · refine Gcc.inBox_of_getG (Gcc.tupleOf_length τ B.length) (fun k hk => ?_)
    rw [Gcc.tupleOf_get τ _ k hk]
    have := hdomτ (k : Int) (by omega) (by rw [hsz]; omega)
    rw [Gcc.g2_toArrayG] at this
    exact this
  · simp only [rel]
    rw [hmdef]
    intro j hj
    have hjm : j < mn := by
      have : j < min mn (ps.length - 1) := by simpa using hj
      omega
    rw [Gcc.getI_take_drop ps mn j hjm hlen, Gcc.getI_drop]
    have h1 := hlow (j : Int) (by omega) (by omega)
    have h2 := hup (j : Int) (by omega) (by omega)
    rw [Gcc.g_toArray] at h1 h2
    rw [Gcc.g_toArray] at h1 h2
    have e1 : (1 + (j : Int)).toNat = 1 + j := by omega
    have e2 : (1 + (mn : Int) + (j : Int)).toNat = 1 + mn + j := by omega
    have e3 : (0 : Int).toNat = 0 := rfl
    rw [e1, e3] at h1
    rw [e2, e3] at h2
    have hocc : occ τ (Gcc.rangeUp 0 (B.toArray.size : Int)) (getI ps 0 + (j : Int)) =
        ((Gcc.tupleOf τ B.length).count (getI ps 0 + (j : Int)) : Int) := by
      have e4 : (B.toArray.size : Int) = ((Gcc.tupleOf τ B.length).length : Int) := by
        rw [Gcc.tupleOf_length]; simp
      rw [e4, ← Gcc.occ_tval]
      apply Gcc.occ_congr'
      intro p hp
      rw [Gcc.mem_rangeUp] at hp
      unfold Gcc.tval
      have hp2 : p.toNat < B.length := by
        have := hp.2; rw [Gcc.tupleOf_length] at this; omega
      rw [Gcc.tupleOf_get τ _ _ hp2]
      congr 1; omega
    rw [hocc] at h1 h2
    exact ⟨h1, h2⟩

/-- **Semantic soundness of the raw port of gcc** (the shape of `Sound`, Spec.lean, for the function
    `gcc` instead of `runAlg .gcc`, with the extra hypothesis that every upper capacity is `≥ 1`). -/
theorem gcc_port_sound (ps : List Int) (B : Box) (hc : Contract .gcc ps B) (hB : B.Nonempty)
    (hu : ∀ j, j < (ps.length - 1) / 2 → 1 ≤ getI ps (1 + (ps.length - 1) / 2 + j))
    (st : Status) (B' : Box) (h : gcc ps B = .ok (st, B')) :
    (st ≠ .inc → Box.le B' B ∧ B'.Nonempty ∧ ∀ t, inBox t B → rel .gcc ps t → inBox t B') ∧
    (st = .inc → ∀ t, inBox t B → ¬ rel .gcc ps t) := by
  obtain ⟨hinc, hcons⟩ := gcc_port_sound_partial ps B hc hB hu st B' h
  refine ⟨fun hst => ?_, hinc⟩
  obtain ⟨_, hkeep⟩ := hcons hst
  obtain ⟨t0, ht0, hrel0⟩ := gcc_port_feasible ps B hc hB hu st B' h hst
  obtain ⟨_, hle, hne⟩ := hkeep t0 ht0 hrel0
  exact ⟨hle, hne, fun t ht hrel => (hkeep t ht hrel).1⟩

end Nucs
