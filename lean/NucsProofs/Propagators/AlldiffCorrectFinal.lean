import NucsProofs.Propagators.AlldiffCorrectG2
import NucsProofs.Propagators.HallMath
/-!
  Functional correctness of the ported alldifferent — final statements, with Hall's theorem for
  interval domains (`hall_matching`, NucsProofs/Propagators/HallMath.lean) discharged.

  * `checkAllDiff_port_ok`     (G1) the result checker never rejects an answer of the port
  * `alldifferentC_is_port`    (G1) the registered model `alldifferentC` IS the port: no fallback
  * `port_hall_pruned`         (G2) a succeeding call returns a box satisfying `HallOK` and `HallPruned`
  * `exact_alldifferent_of_hall` (G2) `Exact .alldifferent`, through `supported_of_hall` as hypothesis
  * `exact_alldifferent`       (G2) `Exact .alldifferent`, unconditionally
-/
namespace Nucs
open AllDiff

/-- **G1** -/
theorem checkAllDiff_port_ok (ps : List Int) (B : Box) (hne : B ≠ []) (hdom : ∀ d ∈ B, d.1 ≤ d.2)
    (st : Status) (B' : Box) (h : alldifferent ps B = .ok (st, B')) :
    checkAllDiff B st B' = true :=
  checkAllDiff_port hall_matching ps B hne hdom st B' h

/-- **G1**: on a non-empty box of non-empty domains the registered model answers exactly what the
    port of the Python code answers (the input box is returned on failure) -/
theorem alldifferentC_is_port (ps : List Int) (B : Box) (hne : B ≠ []) (hdom : ∀ d ∈ B, d.1 ≤ d.2) :
    ∃ st B', alldifferent ps B = .ok (st, B') ∧
      alldifferentC ps B = .ok (st, if st = .inc then B else B') :=
  alldifferentC_eq_port hall_matching ps B hne hdom

/-- the fallback of the checked model is never used -/
theorem alldifferentC_never_fellBack (ps : List Int) (B : Box) (hne : B ≠ [])
    (hdom : ∀ d ∈ B, d.1 ≤ d.2) : alldifferentC_fellBack ps B = false := by
  obtain ⟨⟨st, B'⟩, hr⟩ := C16_port_alldifferent_ok ps B hne hdom
  unfold alldifferentC_fellBack
  rw [hr]
  simp only [checkAllDiff_port_ok ps B hne hdom st B' hr, Bool.not_true]

/-- **G2**: the answer of a succeeding call satisfies Hall's condition and is pruned with respect
    to its own Hall intervals -/
theorem port_hall_pruned (ps : List Int) (B : Box) (hne : B ≠ []) (hdom : ∀ d ∈ B, d.1 ≤ d.2)
    (B' : Box) (h : alldifferent ps B = .ok (.cons, B')) : HallOK B' ∧ HallPruned B' := by
  have hsup := port_supported hall_matching ps B hne hdom B' h
  have hck := checkAllDiff_port_ok ps B hne hdom .cons B' h
  have hs := (checkAllDiff_sound hck hdom).1 (by decide)
  have hlen : 1 ≤ B.length := by
    cases B with
    | nil => exact absurd rfl hne
    | cons _ _ => simp
  exact hall_of_supported ps B' hs.2.1 (by rw [Box.le_length hs.1]; exact hlen) hsup

/-- **G2**: `Exact .alldifferent`, with the combinatorial theorem as a hypothesis -/
theorem exact_alldifferent_of_hall
    (hmath : ∀ ps B, B.Nonempty → HallOK B → HallPruned B → Supported .alldifferent ps B) :
    Exact .alldifferent := by
  intro ps B st B' hc hne hrun hst
  have hpos : 1 ≤ B.length := hc
  have hne0 : B ≠ [] := by
    intro h; subst h; simp at hpos
  obtain ⟨st1, B1, hp, hC⟩ := alldifferentC_is_port ps B hne0 hne
  have hrun0 := hrun
  rw [runAlg_alldifferent, hC] at hrun
  injection hrun with hrun
  injection hrun with e1 e2
  subst e1
  rw [if_neg hst] at e2
  subst e2
  have hcons : st1 = .cons := by
    rcases port_status ps B hne0 hne st1 B1 hp with h | h
    · exact absurd h hst
    · exact h
  subst hcons
  obtain ⟨hle, hne', _⟩ := (sound_alldifferent ps B .cons B1 hc hne hrun0).1 hst
  obtain ⟨h1, h2⟩ := port_hall_pruned ps B hne0 hne B1 hp
  exact exact_instance_of_support sound_alldifferent safe_alldifferent contractMono_alldifferent
    hc hne hpos hrun0 hst (hmath ps B1 hne' h1 h2)

/-- **C14 for alldifferent** -/
theorem exact_alldifferent : Exact .alldifferent :=
  exact_alldifferent_of_hall supported_of_hall

end Nucs
