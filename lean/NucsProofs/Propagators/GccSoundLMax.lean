import NucsProofs.Propagators.GccSoundDefs
/-!
  Semantic theorem of the pass `Gcc.filter_lower_max` of the ported gcc.  This is the adaptation of
  `AlldiffCorrectLower.lean` to gcc: the abstract invariant `AllDiff.LSem` and its preservation
  theorems (`lsem_init`, `lsem_step`, `lsem_fail`) are reused unchanged with `bd := K u fv bounds`
  (the partial sum of the capacities just below `bounds[i]`); one iteration of the main loop (the
  named pieces `lmaxTail2`, `lmaxTail`, `lmaxBody` of PortGccLMax) satisfies `AllDiff.LRel` /
  `AllDiff.LPre`.  The tests `d[z] < get_sum u bounds[y] (bounds[z]-1)` and `d[z] == get_sum …`
  coincide with `d[z] + K y < K z` resp. `=` because `d[z] ≥ 1` at a root `z`.
-/
namespace Nucs
namespace Gcc

open AllDiff (g upd g2 upd2 ok_bind pure_eq_ok except_bind_ok forIn_list_except range_forIn_eq
  size_upd size_upd2 g_upd g_upd_same g_upd_ne LChain LStruct LPre LRel LSem RankCtx cinR Oth Sm
  RFact)

theorem LMInv.toLStruct {N : Int} {sz : Nat} {Kf : Int → Int} {t d h : Array Int}
    (hi : LMInv N sz Kf t d h) : LStruct N (g t) (g d) (g h) :=
  ⟨hi.ct, hi.ch, hi.t1, fun i h1 h2 h3 => (hi.d1 i h1 h2 h3).1⟩

/-! ### the two tests of gcc in terms of `K` -/

theorem test_lt_iff {N : Int} {bounds : Array Int} {u : PSum} {fv m : Int}
    (hb : BC bounds N fv m) (hu : PS u fv m) (hus : PSStrict u m) (y z dz : Int)
    (hy1 : 1 ≤ y) (hyN : y < N) (hz1 : 1 ≤ z) (hzN : z ≤ N) (hd : 1 ≤ dz) :
    dz < gsum u (g bounds y) (g bounds z - 1) ↔ dz + K u fv bounds y < K u fv bounds z := by
  by_cases hyz : y < z
  · rw [gsum_K hu hb y z (by omega) hyz hzN]; omega
  · have h1 := gsum_K_neg_strict hu hus hb y z hz1 (by omega) hyN
    have h2 := K_mono hu hb z y (by omega) (by omega) (by omega)
    omega

theorem test_eq_iff {N : Int} {bounds : Array Int} {u : PSum} {fv m : Int}
    (hb : BC bounds N fv m) (hu : PS u fv m) (hus : PSStrict u m) (y z dz : Int)
    (hy1 : 1 ≤ y) (hyN : y < N) (hz1 : 1 ≤ z) (hzN : z ≤ N) (hd : 1 ≤ dz) :
    dz = gsum u (g bounds y) (g bounds z - 1) ↔ dz + K u fv bounds y = K u fv bounds z := by
  by_cases hyz : y < z
  · rw [gsum_K hu hb y z (by omega) hyz hzN]; omega
  · have h1 := gsum_K_neg_strict hu hus hb y z hz1 (by omega) hyN
    have h2 := K_mono hu hb z y (by omega) (by omega) (by omega)
    omega

theorem K_inj {N : Int} {bounds : Array Int} {u : PSum} {fv m : Int}
    (hb : BC bounds N fv m) (hu : PS u fv m) (hus : PSStrict u m) (a b : Int)
    (ha0 : 0 ≤ a) (haN : a ≤ N) (hb0 : 0 ≤ b) (hbN : b ≤ N)
    (he : K u fv bounds a = K u fv bounds b) : a = b := by
  by_cases h1 : a < b
  · have := K_strict hu hus hb a b ha0 h1 hbN; omega
  · by_cases h2 : b < a
    · have := K_strict hu hus hb b a hb0 h2 haN; omega
    · omega

/-! ### the Hall-interval marking step -/

theorem lmaxTail2_rel {N : Int} {sz : Nat} {bounds t d h : Array Int} {u : PSum} {fv m : Int}
    (hb : BC bounds N fv m) (hu : PS u fv m) (hus : PSStrict u m)
    (hi : LMInv N sz (K u fv bounds) t d h) (domains : Arr2) (y j z : Int) (hy1 : 1 ≤ y)
    (hyN : y < N) (hz2 : 2 ≤ z) (hzN : z ≤ N) (hzr : g t z < z) (hj : g t z = j) :
    ∃ h', lmaxTail2 u bounds y j z t d h domains = .ok (.yield (none, t, d, h', domains)) ∧
      LMInv N sz (K u fv bounds) t d h' ∧
      (g d z + K u fv bounds y = K u fv bounds z → (j = 1 ∨ g h (j - 1) < j - 1) ∧ g h y < y) ∧
      ∀ k, 1 ≤ k → k ≤ N → (g h' k < k ↔
        (g h k < k ∧ ¬ (g d z + K u fv bounds y = K u fv bounds z ∧ j - 1 < k ∧ k < y))) := by
  have hbsz := hb.hsz
  have hNsz := hi.hsz
  have hsd := hi.sd
  have hsh := hi.sh
  have hd1 := hi.d1 z (by omega) hzN hzr
  have hiff := test_eq_iff hb hu hus y z (g d z) hy1 hyN (by omega) hzN hd1.1
  unfold lmaxTail2
  rw [rd_ok d z (by omega) (by omega), ok_bind, rd_ok bounds y (by omega) (by omega), ok_bind,
    rd_ok bounds z (by omega) (by omega), ok_bind,
    get_sum_bounds_ok hu hb y z (by omega) hyN (by omega) hzN, ok_bind]
  by_cases heq : g d z = gsum u (g bounds y) (g bounds z - 1)
  · have hcond : (g d z == gsum u (g bounds y) (g bounds z - 1)) = true := by simpa using heq
    rw [if_pos hcond]
    have heqK := hiff.1 heq
    have hyz : y < z := by
      by_cases h1 : z ≤ y
      · have := gsum_K_neg_strict hu hus hb y z (by omega) h1 hyN; omega
      · omega
    have hzy : z = y + 1 := by
      by_cases h2 : y < z - 1
      · have := K_strict hu hus hb y (z - 1) (by omega) h2 (by omega); omega
      · omega
    have hfresh : g d z = K u fv bounds z - K u fv bounds (z - 1) := by
      have : z - 1 = y := by omega
      rw [this]; omega
    have hhy : g h y < y := by
      have := hi.l2 z hz2 hzN hzr hfresh
      rw [hzy] at this
      have h3 : y + 1 - 1 = y := by omega
      rw [h3] at this; exact this
    have hj1 : 1 ≤ j := by rw [← hj]; exact hi.toLMCore.root_ge_one z hz2 hzN hzr
    have hl1 := hi.l1 z hz2 hzN hzr
    rw [hj] at hl1
    have hdy := hi.ch.down y hy1 (by omega) hhy
    have hry := hi.ch.rng y hy1 (by omega)
    have hre : j - 1 = 0 ∨ g h (j - 1) < j - 1 := by
      rcases hl1 with h | h
      · left; omega
      · right; exact h
    have hey : j - 1 ≤ g h y := by
      by_cases hle : j - 1 ≤ g h y
      · exact hle
      · have := hdy.1 (j - 1) (by omega) (by omega)
        rcases hre with h | h <;> omega
    rw [rd_ok h y (by omega) (by omega), ok_bind]
    obtain ⟨h2, hps, hsz2, hv2⟩ := path_set_down_mark h (g h y) (j - 1) y (by omega) hey
      (by omega)
      (by
        rcases hdy.2 with h0 | h0
        · left; omega
        · right; exact h0)
      (by
        intro p hp1 hp2 hp3
        have hdp := hi.ch.down p (by omega) (by omega) hp3
        have hrp := hi.ch.rng p (by omega) (by omega)
        refine ⟨?_, ?_, fun k hk1 hk2 => by have := hdp.1 k hk1 hk2; omega⟩
        · by_cases hle : j - 1 ≤ g h p
          · exact hle
          · have := hdp.1 (j - 1) (by omega) (by omega)
            rcases hre with h | h <;> omega
        · rcases hdp.2 with h0 | h0
          · left
            by_cases hle : j - 1 ≤ g h p
            · omega
            · have := hdp.1 (j - 1) (by omega) (by omega)
              rcases hre with h | h <;> omega
          · right; exact h0)
    rw [hps, ok_bind, wr_ok h2 y (j - 1) (by omega) (by omega), ok_bind]
    have ha3 : ∀ k, 0 ≤ k → g (upd h2 y (j - 1)) k =
        if k = y then j - 1 else if j - 1 < k ∧ k ≤ g h y ∧ g h k < k then y else g h k := by
      intro k hk
      rw [g_upd h2 y (j - 1) k (by omega) (by omega) hk]
      by_cases hky : k = y
      · simp [hky]
      · simp only [hky, if_false]; exact hv2 k hk
    obtain ⟨hch', hroots'⟩ := hi.ch.mark hy1 hyN hhy (by omega) hey hre ha3
    have houtside : ∀ r, 1 ≤ r → r ≤ N → g t r < r → ¬ (j < r ∧ r < z) := by
      intro r h1 h2 h3 h4
      have := (hi.ct.down z (by omega) hzN hzr).1 r (by omega) h4.2
      omega
    refine ⟨upd h2 y (j - 1), rfl,
      ⟨⟨hi.st, hi.sd, by simp [hsz2, hsh], hi.hsz, hi.ct, hch', hi.t1, hi.d1, ?_, ?_⟩, hi.d2⟩,
      fun _ => ⟨?_, hhy⟩, ?_⟩
    · intro r h1 h2 h3
      have hr1 := hi.toLMCore.root_ge_one r h1 h2 h3
      rcases hi.l1 r h1 h2 h3 with h4 | h4
      · exact Or.inl h4
      · by_cases h5 : g t r = 1
        · exact Or.inl h5
        · right
          have hrr := hi.ct.rng r (by omega) h2
          rw [hroots' (g t r - 1) (by omega) (by omega)]
          refine ⟨h4, fun h6 => ?_⟩
          rcases (hi.ct.down r (by omega) h2 h3).2 with h7 | h7
          · omega
          · exact houtside (g t r) (by omega) (by omega) h7 ⟨by omega, by omega⟩
    · intro r h1 h2 h3 h4
      rw [hroots' (r - 1) (by omega) (by omega)]
      exact ⟨hi.l2 r h1 h2 h3 h4, fun h6 => houtside r (by omega) h2 h3 ⟨by omega, by omega⟩⟩
    · rcases hre with h | h
      · left; omega
      · right; exact h
    · intro k h1 h2
      rw [hroots' k h1 h2]
      constructor
      · rintro ⟨h3, h4⟩; exact ⟨h3, fun h5 => h4 h5.2⟩
      · rintro ⟨h3, h4⟩; exact ⟨h3, fun h5 => h4 ⟨heqK, h5⟩⟩
  · have hcond : ¬ (g d z == gsum u (g bounds y) (g bounds z - 1)) = true := by simpa using heq
    rw [if_neg hcond]
    have hneK : ¬ (g d z + K u fv bounds y = K u fv bounds z) := fun h => heq (hiff.2 h)
    refine ⟨h, rfl, hi, fun h => absurd h hneK, ?_⟩
    intro k _ _
    constructor
    · intro h3; exact ⟨h3, fun h5 => hneK h5.1⟩
    · intro h3; exact h3.1

/-! ### from the failure test to the end of the iteration -/

theorem lmaxTail_rel {N : Int} {sz : Nat} {bounds t d h : Array Int} {u : PSum} {fv m : Int}
    (hb : BC bounds N fv m) (hu : PS u fv m) (hus : PSStrict u m)
    (hc : LMCore N sz (K u fv bounds) t d h) (domains : Arr2) (v x y j z : Int)
    (hd2 : g d N = K u fv bounds N - K u fv bounds (N - 1) ∨
      (z = N ∧ g d N = K u fv bounds N - K u fv bounds (N - 1) - 1))
    (hv0 : 0 ≤ v) (hv1 : v < domains.size) (hx1 : 1 ≤ x) (hxN : x < N) (hy1 : 1 ≤ y) (hyN : y < N)
    (hxz : x + 1 ≤ z) (hzN : z ≤ N) (hzr : g t z < z) (hj : g t z = j)
    (hall : ∀ k, x + 1 ≤ k → k < z → g t k > k) :
    (∃ t' h' dom' w, lmaxTail u bounds v x y j d h domains t z =
        .ok (.yield (none, t', d, h', dom')) ∧ LMInv N sz (K u fv bounds) t' d h' ∧
        dom'.size = domains.size ∧ ¬ (g d z + K u fv bounds y < K u fv bounds z) ∧
        (∀ k, 1 ≤ k → k ≤ N → (g t' k < k ↔ g t k < k)) ∧
        (∀ k, 1 ≤ k → k ≤ N → g t k < k → g t' k = g t k) ∧
        x ≤ w ∧ w ≤ N ∧ g h w < w ∧ (∀ k, x ≤ k → k < w → g h k > k) ∧
        dom' = (if g h x > x then upd2 domains v MIN (g bounds w) else domains) ∧
        (g d z + K u fv bounds y = K u fv bounds z → (j = 1 ∨ g h (j - 1) < j - 1) ∧ g h y < y) ∧
        (∀ k, 1 ≤ k → k ≤ N → (g h' k < k ↔
          (g h k < k ∧ ¬ (g d z + K u fv bounds y = K u fv bounds z ∧ j - 1 < k ∧ k < y))))) ∨
      (lmaxTail u bounds v x y j d h domains t z =
        .ok (.done (some (false, t, d, h, domains), t, d, h, domains)) ∧
        g d z + K u fv bounds y < K u fv bounds z) := by
  have hbsz := hb.hsz
  have hNsz := hc.hsz
  have hst := hc.st
  have hsd := hc.sd
  have hsh := hc.sh
  have hd1 := hc.d1 z (by omega) hzN hzr
  have hiff := test_lt_iff hb hu hus y z (g d z) hy1 hyN (by omega) hzN hd1.1
  unfold lmaxTail
  rw [rd_ok d z (by omega) (by omega), ok_bind, rd_ok bounds y (by omega) (by omega), ok_bind,
    rd_ok bounds z (by omega) (by omega), ok_bind,
    get_sum_bounds_ok hu hb y z (by omega) hyN (by omega) hzN, ok_bind]
  by_cases hfail : g d z < gsum u (g bounds y) (g bounds z - 1)
  · right; rw [if_pos hfail]; exact ⟨rfl, hiff.1 hfail⟩
  · left
    rw [if_neg hfail]
    have hfailK : ¬ (g d z + K u fv bounds y < K u fv bounds z) := fun h => hfail (hiff.2 h)
    have hdN : g d N = K u fv bounds N - K u fv bounds (N - 1) := by
      rcases hd2 with h2 | ⟨h2, h3⟩
      · exact h2
      · subst h2
        have h4 := gsum_K hu hb y z (by omega) hyN (Int.le_refl _)
        have h5 := K_mono hu hb y (z - 1) (by omega) (by omega) (by omega)
        omega
    have hupt : ∀ p, x + 1 ≤ p → p < z → p < g t p ∧ g t p ≤ z := by
      intro p h1 h2
      have := hall p h1 h2
      exact ⟨this, hc.ct.up_le_root (by omega) h2 hzN this hzr⟩
    obtain ⟨t3, hps, hsz3, hrel3⟩ := path_set_up_compress t (x + 1) z z (by omega) hxz (by omega) hupt
    obtain ⟨hct3, hroots3, hval3⟩ := hc.ct.compress hzN hall hrel3
    have hc3 : LMCore N sz (K u fv bounds) t3 d h := hc.replace_t (by omega) hct3 hroots3 hval3
    have hzr3 : g t3 z < z := (hroots3 z (by omega) hzN).2 hzr
    have hj3 : g t3 z = j := by rw [hval3 z (by omega) hzN hzr]; exact hj
    rw [hps, ok_bind, rd_ok h x (by omega) (by omega), ok_bind]
    by_cases hhx : g h x > x
    · rw [if_pos hhx, ok_bind]
      have hrx := hc.ch.rng x hx1 (by omega)
      obtain ⟨w, hpm, hw1, hw2, hw3, hw4⟩ := path_max_spec h 1 N (g h x) (by omega) (by omega)
        (fun k h1 h2 => (hc.ch.rng k h1 h2).2.1) (fun k h1 h2 h3 => hc.ch.up k h1 h2 h3)
        (by omega) (by omega)
      have hwr : g h w < w := by have := hc.ch.rng w (by omega) hw2; omega
      have hallh : ∀ k, x ≤ k → k < w → g h k > k := by
        intro k h1 h2
        by_cases hk : k = x
        · subst hk; exact hhx
        · by_cases hk2 : k < g h x
          · exact hc.ch.up x hx1 (by omega) hhx k (by omega) hk2
          · exact hw4 k (by omega) h2
      have huph : ∀ p, x ≤ p → p < w → p < g h p ∧ g h p ≤ w := by
        intro p h1 h2
        have := hallh p h1 h2
        exact ⟨this, hc.ch.up_le_root (by omega) h2 hw2 this hwr⟩
      rw [hpm, ok_bind, rd_ok bounds w (by omega) (by omega), ok_bind,
        wr2_ok domains v MIN (g bounds w) hv0 hv1, ok_bind]
      obtain ⟨h3, hps', hszh3, hrelh3⟩ := path_set_up_compress h x w w (by omega) (by omega)
        (by omega) huph
      obtain ⟨hch3, hrootsh3, _⟩ := hc.ch.compress hw2 hallh hrelh3
      rw [hps', ok_bind]
      have hi3 : LMInv N sz (K u fv bounds) t3 d h3 :=
        ⟨hc3.replace_h (by omega) hch3 hrootsh3, hdN⟩
      obtain ⟨h', he, hi', hmk, hroots'⟩ := lmaxTail2_rel hb hu hus hi3
        (upd2 domains v MIN (g bounds w)) y j z hy1 hyN (by omega) hzN hzr3 hj3
      have hj1 : 1 ≤ j := by rw [← hj]; exact hc.root_ge_one z (by omega) hzN hzr
      have hjz : j < z := by omega
      refine ⟨t3, h', _, w, he, hi', by simp, hfailK, hroots3, hval3, by omega, hw2, hwr, hallh,
        by rw [if_pos hhx], ?_, ?_⟩
      · intro hm
        obtain ⟨h1, h2⟩ := hmk hm
        refine ⟨?_, (hrootsh3 y hy1 (by omega)).1 h2⟩
        rcases h1 with h1 | h1
        · exact Or.inl h1
        · by_cases hj' : j = 1
          · exact Or.inl hj'
          · exact Or.inr ((hrootsh3 (j - 1) (by omega) (by omega)).1 h1)
      · intro k h1 h2
        rw [hroots' k h1 h2, hrootsh3 k h1 h2]
    · rw [if_neg hhx]
      have hi3 : LMInv N sz (K u fv bounds) t3 d h := ⟨hc3, hdN⟩
      obtain ⟨h', he, hi', hmk, hroots'⟩ := lmaxTail2_rel hb hu hus hi3 domains y j z hy1 hyN
        (by omega) hzN hzr3 hj3
      have hrx := hc.ch.rng x hx1 (by omega)
      refine ⟨t3, h', _, x, he, hi', rfl, hfailK, hroots3, hval3, Int.le_refl _, by omega,
        by omega, fun k h1 h2 => by omega, by rw [if_neg hhx], hmk, hroots'⟩

/-! ### one iteration of the main loop -/

theorem lmaxBody_rel {N : Int} {sz : Nat} {bounds t d h : Array Int} {u : PSum} {fv m : Int}
    (hb : BC bounds N fv m) (hu : PS u fv m) (hus : PSStrict u m)
    (hi : LMInv N sz (K u fv bounds) t d h) (ranks domains : Arr2) (v : Int)
    (o : Option (Bool × Array Int × Array Int × Array Int × Arr2))
    (hv0 : 0 ≤ v) (hv1 : v < domains.size) (hvr : v < ranks.size)
    (hx1 : 1 ≤ (g2 ranks v).1) (hxN : (g2 ranks v).1 < N)
    (hy1 : 1 ≤ (g2 ranks v).2) (hyN : (g2 ranks v).2 < N) :
    (∃ t' d' h' dom' z0 z w, lmaxBody u bounds ranks v (o, t, d, h, domains) =
        .ok (.yield (none, t', d', h', dom')) ∧ LMInv N sz (K u fv bounds) t' d' h' ∧
        dom'.size = domains.size ∧
        LRel N (K u fv bounds) (g2 ranks v).1 (g2 ranks v).2 (g t) (g d) (g h) (g t') (g d')
          (g h') z0 z w ∧
        dom' = (if g h (g2 ranks v).1 > (g2 ranks v).1 then upd2 domains v MIN (g bounds w)
          else domains)) ∨
      ∃ st t' d' z0 z, lmaxBody u bounds ranks v (o, t, d, h, domains) =
          .ok (.done (some (false, st), st)) ∧
        LPre N (g2 ranks v).1 (g t) (g d) (g t') (g d') z0 z ∧
        g d' z + K u fv bounds (g2 ranks v).2 < K u fv bounds z := by
  have hbsz := hb.hsz
  have hNsz := hi.hsz
  have hst := hi.st
  have hsd := hi.sd
  have hsh := hi.sh
  have hKtop := K_top hu hb
  unfold lmaxBody
  simp only []
  rw [rd2_min_ok ranks v hv0 hvr, ok_bind, rd2_max_ok ranks v hv0 hvr, ok_bind]
  generalize (g2 ranks v).1 = x at hx1 hxN ⊢
  generalize (g2 ranks v).2 = y at hy1 hyN ⊢
  obtain ⟨z0, hpm, hz1, hz2, hz3, hz4⟩ := path_max_spec t 1 N (x + 1) (by omega) (by omega)
    (fun k h1 h2 => (hi.ct.rng k h1 h2).2.1) (fun k h1 h2 h3 => hi.ct.up k h1 h2 h3)
    (by omega) (by omega)
  have hz0r : g t z0 < z0 := by have := hi.ct.rng z0 (by omega) hz2; omega
  have hd0 := hi.d1 z0 (by omega) hz2 hz0r
  rw [hpm, ok_bind, rd_ok t z0 (by omega) (by omega), ok_bind, rd_ok d z0 (by omega) (by omega),
    ok_bind, wr_ok d z0 _ (by omega) (by omega), ok_bind,
    rd_ok (upd d z0 (g d z0 - 1)) z0 (by omega) (by simp; omega), ok_bind,
    g_upd_same d z0 _ (by omega) (by omega)]
  have hd' : ∀ k, 0 ≤ k → k ≠ z0 → g (upd d z0 (g d z0 - 1)) k = g d k :=
    fun k h1 h2 => g_upd_ne d z0 _ k (by omega) (by omega) h1 h2
  have hd'z : g (upd d z0 (g d z0 - 1)) z0 = g d z0 - 1 := g_upd_same d z0 _ (by omega) (by omega)
  by_cases hm : g d z0 - 1 = 0
  · have hcond : (g d z0 - 1 == 0) = true := by simpa using hm
    rw [if_pos hcond]
    have hz0N : z0 < N := by
      by_cases h : z0 = N
      · subst h; have := hi.d2; omega
      · omega
    rw [wr_ok t z0 (z0 + 1) (by omega) (by omega), ok_bind,
      rd_ok (upd t z0 (z0 + 1)) z0 (by omega) (by simp; omega), ok_bind,
      g_upd_same t z0 _ (by omega) (by omega)]
    have ht1 : ∀ k, 0 ≤ k → g (upd t z0 (z0 + 1)) k = if k = z0 then z0 + 1 else g t k :=
      fun k hk => g_upd t z0 _ k (by omega) (by omega) hk
    obtain ⟨z1, hpm1, hy1', hy2', hy3', hy4'⟩ := path_max_spec (upd t z0 (z0 + 1)) 1 N (z0 + 1)
      (by omega) (by simp; omega)
      (fun k h1 h2 => by
        rw [ht1 k (by omega)]
        by_cases hk : k = z0
        · simp [hk]; omega
        · simp only [hk, if_false]; exact (hi.ct.rng k h1 h2).2.1)
      (fun k h1 h2 h3 m hm1 hm2 => by
        rw [ht1 k (by omega)] at h3 hm2
        rw [ht1 m (by omega)]
        by_cases hk : k = z0
        · simp only [hk, if_true] at hm2; omega
        · simp only [hk, if_false] at h3 hm2
          by_cases hmz : m = z0
          · simp only [hmz, if_true]; omega
          · simp only [hmz, if_false]; exact hi.ct.up k h1 h2 h3 m hm1 hm2)
      (by omega) (by omega)
    have hz1ne : z1 ≠ z0 := by omega
    have hz1r : g t z1 < z1 := by
      rw [ht1 z1 (by omega)] at hy3'
      simp only [hz1ne, if_false] at hy3'
      have := hi.ct.rng z1 (by omega) hy2'; omega
    have hbetween : ∀ k, z0 < k → k < z1 → g t k > k := by
      intro k h1 h2
      have := hy4' k (by omega) h2
      rw [ht1 k (by omega)] at this
      simpa [show k ≠ z0 by omega] using this
    rw [hpm1, ok_bind, wr_ok (upd t z0 (z0 + 1)) z1 (g t z0) (by omega) (by simp; omega), ok_bind]
    have ha2 : ∀ k, 0 ≤ k → g (upd (upd t z0 (z0 + 1)) z1 (g t z0)) k =
        if k = z1 then g t z0 else if k = z0 then z0 + 1 else g t k := by
      intro k hk
      rw [g_upd _ z1 _ k (by omega) (by simp; omega) hk]
      by_cases hk1 : k = z1
      · simp [hk1]
      · simp only [hk1, if_false]; exact ht1 k hk
    obtain ⟨hct2, hroots2, hoth2, hz1v⟩ :=
      hi.ct.merge (by omega) (by omega) hy2' hz0r hz1r hbetween ha2
    have hc2 : LMCore N sz (K u fv bounds) (upd (upd t z0 (z0 + 1)) z1 (g t z0))
        (upd d z0 (g d z0 - 1)) h := by
      refine ⟨by simp [hst], by simp [hsd], hsh, hNsz, hct2, hi.ch, ?_, ?_, ?_, ?_⟩
      · rw [hoth2 1 (by omega) (by omega) (by omega)]; exact hi.t1
      · intro i h1 h2 h3
        have hr := (hroots2 i h1 h2).1 h3
        rw [hd' i (by omega) hr.2]; exact hi.d1 i h1 h2 hr.1
      · intro r h1 h2 h3
        have hr := (hroots2 r (by omega) h2).1 h3
        by_cases hr1 : r = z1
        · subst hr1; rw [hz1v]; exact hi.l1 z0 (by omega) (by omega) hz0r
        · rw [hoth2 r (by omega) hr1 hr.2]; exact hi.l1 r h1 h2 hr.1
      · intro r h1 h2 h3 h4
        have hr := (hroots2 r (by omega) h2).1 h3
        rw [hd' r (by omega) hr.2] at h4
        exact hi.l2 r h1 h2 hr.1 h4
    have hdN : g (upd d z0 (g d z0 - 1)) N = K u fv bounds N - K u fv bounds (N - 1) := by
      rw [hd' N (by omega) (by omega)]; exact hi.d2
    have hz1r2 : g (upd (upd t z0 (z0 + 1)) z1 (g t z0)) z1 < z1 :=
      (hroots2 z1 (by omega) hy2').2 ⟨hz1r, hz1ne⟩
    rcases lmaxTail_rel hb hu hus hc2 domains v x y (g t z0) z1 (Or.inl hdN) hv0 hv1 hx1 hxN hy1
      hyN (by omega) hy2' hz1r2 hz1v
      (fun k h1 h2 => by
        by_cases hk0 : k = z0
        · subst hk0; rw [ha2 k (by omega)]; simp only [show k ≠ z1 by omega, if_false, if_true]; omega
        · rw [hoth2 k (by omega) (by omega) hk0]
          by_cases hk1 : k < z0
          · exact hz4 k h1 hk1
          · exact hbetween k (by omega) h2) with
      ⟨t', h', dom', w, he, hi', hs', hnf, hr3, hv3, hw1, hw2, hw3, hw4, hdom, hmk, hrh⟩ | ⟨he, hfl⟩
    · left
      refine ⟨t', _, h', dom', z0, z1, w, he, hi', hs', ⟨⟨hz1, hz2, hz0r, hz4, hd'z,
        fun k h1 _ h3 => hd' k (by omega) h3, Or.inl ⟨hm, by omega, hy2', hz1r, hbetween, ?_, ?_, ?_⟩⟩,
        hnf, hw1, hw2, hw3, hw4, fun h => (hmk h).1, fun h => (hmk h).2, hrh⟩, hdom⟩
      · intro k h1 h2; rw [hr3 k h1 h2, hroots2 k h1 h2]
      · rw [hv3 z1 (by omega) hy2' hz1r2]; exact hz1v
      · intro k h1 h2 h3 h4 h5
        have h6 : g (upd (upd t z0 (z0 + 1)) z1 (g t z0)) k < k := (hroots2 k h1 h2).2 ⟨h3, h5⟩
        rw [hv3 k h1 h2 h6]; exact hoth2 k (by omega) h4 h5
    · right
      refine ⟨_, _, _, z0, z1, he, ⟨hz1, hz2, hz0r, hz4, hd'z,
        fun k h1 _ h3 => hd' k (by omega) h3, Or.inl ⟨hm, by omega, hy2', hz1r, hbetween, hroots2,
          hz1v, fun k h1 _ _ h4 h5 => hoth2 k (by omega) h4 h5⟩⟩, hfl⟩
  · have hcond : ¬ (g d z0 - 1 == 0) = true := by simpa using hm
    rw [if_neg hcond]
    have hc2 : LMCore N sz (K u fv bounds) t (upd d z0 (g d z0 - 1)) h := by
      refine ⟨hst, by simp [hsd], hsh, hNsz, hi.ct, hi.ch, hi.t1, ?_, hi.l1, ?_⟩
      · intro i h1 h2 h3
        by_cases hiz : i = z0
        · subst hiz; rw [hd'z]; omega
        · rw [hd' i (by omega) hiz]; exact hi.d1 i h1 h2 h3
      · intro r h1 h2 h3 h4
        by_cases hrz : r = z0
        · subst hrz; rw [hd'z] at h4; omega
        · rw [hd' r (by omega) hrz] at h4; exact hi.l2 r h1 h2 h3 h4
    have hdN : g (upd d z0 (g d z0 - 1)) N = K u fv bounds N - K u fv bounds (N - 1) ∨
        (z0 = N ∧ g (upd d z0 (g d z0 - 1)) N = K u fv bounds N - K u fv bounds (N - 1) - 1) := by
      by_cases h : z0 = N
      · right; subst h; rw [hd'z]; have := hi.d2; exact ⟨rfl, by omega⟩
      · left; rw [hd' N (by omega) (by omega)]; exact hi.d2
    rcases lmaxTail_rel hb hu hus hc2 domains v x y (g t z0) z0 hdN hv0 hv1 hx1 hxN hy1 hyN
      hz1 hz2 hz0r rfl hz4 with
      ⟨t', h', dom', w, he, hi', hs', hnf, hr3, hv3, hw1, hw2, hw3, hw4, hdom, hmk, hrh⟩ | ⟨he, hfl⟩
    · left
      exact ⟨t', _, h', dom', z0, z0, w, he, hi', hs', ⟨⟨hz1, hz2, hz0r, hz4, hd'z,
        fun k h1 _ h3 => hd' k (by omega) h3, Or.inr ⟨hm, rfl, hr3, hv3⟩⟩,
        hnf, hw1, hw2, hw3, hw4, fun h => (hmk h).1, fun h => (hmk h).2, hrh⟩, hdom⟩
    · right
      exact ⟨_, _, _, z0, z0, he, ⟨hz1, hz2, hz0r, hz4, hd'z,
        fun k h1 _ h3 => hd' k (by omega) h3, Or.inr ⟨hm, rfl, fun _ _ _ => Iff.rfl,
          fun _ _ _ _ => rfl⟩⟩, hfl⟩

/-! ### the main loop -/

theorem filter_lower_max_sem {N : Int} {sz : Nat} {bounds : Array Int} {u : PSum} {fv m : Int}
    (hb : BC bounds N fv m) (hu : PS u fv m) (hus : PSStrict u m)
    (n : Int) (t d h : Array Int) (domains ranks : Arr2) (msv : Array Int)
    (hst : t.size = sz) (hsd : d.size = sz) (hsh : h.size = sz) (hNsz : N < sz)
    (hrs : ranks.size = domains.size)
    (hmsv : ∀ v ∈ msv.toList, 0 ≤ v ∧ v < (domains.size : Int))
    (hctx : RankCtx N (K u fv bounds) (fun v => (g2 ranks v).1) (fun v => (g2 ranks v).2)
      msv.toList)
    (hnodup : msv.toList.Nodup)
    (hsorted : msv.toList.Pairwise (fun a b => (g2 ranks a).2 ≤ (g2 ranks b).2))
    (hmin : ∀ v ∈ msv.toList, (g2 domains v).1 = g bounds (g2 ranks v).1) :
    ∃ r, filter_lower_max n (N - 1) t d h bounds domains ranks msv u = .ok r ∧
      (r.1 = false → ∃ ja yb, 1 ≤ ja ∧ ja < yb ∧ yb < N ∧
        cinR (fun v => (g2 ranks v).1) (fun v => (g2 ranks v).2) msv.toList ja yb >
          K u fv bounds yb - K u fv bounds ja) ∧
      (r.1 = true → r.2.1.size = sz ∧ r.2.2.1.size = sz ∧ r.2.2.2.1.size = sz ∧
        GLowerPost N (K u fv bounds) (g bounds) (fun v => (g2 ranks v).1)
          (fun v => (g2 ranks v).2) msv.toList domains r.2.2.2.2) := by
  rw [filter_lower_max_eq]
  have hNN : N - 1 + 2 = N + 1 := by omega
  rw [hNN]
  obtain ⟨⟨t0, d0, h0⟩, he0, hs1, hs2, hs3, hv0⟩ := lmaxInit_spec hb hu t d h hst hsd hsh hNsz
  rw [he0, ok_bind]
  simp only at hs1 hs2 hs3 hv0 ⊢
  have hi0 : LMInv N sz (K u fv bounds) t0 d0 h0 := lminv_init hb hu hus hs1 hs2 hs3 hNsz hv0
  have hN := hb.hN
  have hdK : ∀ k, 1 ≤ k → k ≤ N → g d0 k = K u fv bounds k - K u fv bounds (k - 1) := by
    intro k h1 h2
    rw [(hv0 k h1 h2).2.2]
    exact gsum_K hu hb (k - 1) k (by omega) (by omega) h2
  rw [← Array.forIn_toList]
  generalize hall : msv.toList = all at hmsv hctx hnodup hsorted hmin ⊢
  generalize hrx : (fun v => (g2 ranks v).1) = rx at hctx ⊢
  generalize hry : (fun v => (g2 ranks v).2) = ry at hctx ⊢
  have hrxv : ∀ v, (g2 ranks v).1 = rx v := fun v => by rw [← hrx]
  have hryv : ∀ v, (g2 ranks v).2 = ry v := fun v => by rw [← hry]
  have hsem0 : LSem N (K u fv bounds) rx ry all [] 0 (g t0) (g d0) (g h0)
      (fun p => K u fv bounds (rx p)) :=
    AllDiff.lsem_init hctx (fun k h1 h2 => (hv0 k h1 h2).1) (fun k h1 h2 => (hv0 k h1 h2).2.1)
      hdK (fun p _ => rfl)
  refine except_bind_ok
    (P := fun (s : LMSt) =>
      (s.1 = none ∧ s.2.1.size = sz ∧ s.2.2.1.size = sz ∧ s.2.2.2.1.size = sz ∧
        GLowerPost N (K u fv bounds) (g bounds) rx ry all domains s.2.2.2.2) ∨
      (∃ st, s.1 = some (false, st)) ∧ ∃ ja yb, 1 ≤ ja ∧ ja < yb ∧ yb < N ∧
        cinR rx ry all ja yb > K u fv bounds yb - K u fv bounds ja)
    (forIn_list_except
      (Inv := fun (rest : List Int) (s : LMSt) =>
        ∃ P Y, ∃ wf : Int → Int, all = P ++ rest ∧ s.1 = none ∧
        LMInv N sz (K u fv bounds) s.2.1 s.2.2.1 s.2.2.2.1 ∧ s.2.2.2.2.size = domains.size ∧
        LSem N (K u fv bounds) rx ry all P Y (g s.2.1) (g s.2.2.1) (g s.2.2.2.1)
          (fun p => K u fv bounds (wf p)) ∧
        (∀ p ∈ all, (g2 s.2.2.2.2 p).1 = g bounds (wf p) ∧ 0 ≤ wf p ∧ wf p ≤ N) ∧
        (∀ p ∈ rest, Y ≤ ry p) ∧ (∀ p, 0 ≤ p → (g2 s.2.2.2.2 p).2 = (g2 domains p).2))
      _ _ ?_ ?_ _ _ ?_) ?_
  · rintro v rest ⟨o, t1, d1, h1, dom1⟩ ⟨P, Y, wf, hPr, ho, hi, hds, hsem, hwf, hY, hmx⟩
    simp only at ho hi hds hsem hwf hY hmx
    have hvall : v ∈ all := by rw [hPr]; simp
    have hv := hmsv v hvall
    have hr := hctx.rk v hvall
    have hnd : (P ++ v :: rest).Nodup := hPr ▸ hnodup
    have hvP : v ∉ P := by
      intro hin
      have := (List.nodup_append.1 hnd).2.2 v hin v (by simp)
      exact this rfl
    have hsr : (P ++ v :: rest).Pairwise (fun a b => ry a ≤ ry b) := by
      have := hPr ▸ hsorted
      simpa [hryv] using this
    have hvrest : ∀ p ∈ rest, ry v ≤ ry p := by
      have h2 := (List.pairwise_append.1 hsr).2.1
      exact fun p hp => (List.pairwise_cons.1 h2).1 p hp
    rcases lmaxBody_rel hb hu hus hi ranks dom1 v o hv.1 (by omega) (by omega)
        (by rw [hrxv]; exact hr.1) (by rw [hrxv]; omega) (by rw [hryv]; omega)
        (by rw [hryv]; exact hr.2.2) with
      ⟨t', d', h', dom', z0, z, w, he, hi', hs', hrel, hdom⟩ | ⟨st, t', d', z0, z, he, hpre, hfl⟩
    · left
      rw [hrxv, hryv] at hrel
      rw [hrxv] at hdom
      have hwx : ¬ g h1 (rx v) > rx v → w = rx v := by
        intro hn
        by_cases hw : w = rx v
        · exact hw
        · have := hrel.wall (rx v) (Int.le_refl _) (by have := hrel.wlo; omega); omega
      -- an unprocessed variable still has its initial minimum
      have hwfv : wf v = rx v := by
        have h1 := (hsem.s5 v hvall).2 hvP
        have h2 := hwf v hvall
        exact K_inj hb hu hus (wf v) (rx v) h2.2.1 h2.2.2 (by omega) (by omega) h1
      have hw0 : 0 ≤ w := by have := hrel.wlo; omega
      refine ⟨_, he, P ++ [v], ry v, fun p => if p = v then w else wf p, by rw [hPr]; simp, rfl,
        hi', by simp only; omega, ?_, ?_, hvrest, ?_⟩
      · refine AllDiff.lsem_step hctx hi.toLStruct hi'.toLStruct hsem hvall (hY v (by simp))
          (fun a b => by rw [hPr]; exact AllDiff.sm_le_prefix rx ry P rest v hvrest a b)
          (fun a b => by rw [hPr]; exact AllDiff.prefix_le_oth rx ry P rest v hvP a b) hrel ?_
        intro p _
        simp only
        by_cases hpv : p = v
        · rw [if_pos hpv, if_pos hpv]
        · rw [if_neg hpv, if_neg hpv]
      · intro p hp
        have hp0 := (hmsv p hp).1
        have hwp := hwf p hp
        simp only
        by_cases hpv : p = v
        · subst hpv
          rw [if_pos rfl]
          refine ⟨?_, hw0, hrel.whi⟩
          by_cases hgt : g h1 (rx p) > rx p
          · rw [hdom, if_pos hgt, g2_upd2 dom1 p MIN _ p hv.1 (by omega) hp0]
            simp [MIN]
          · rw [hdom, if_neg hgt, hwx hgt, ← hwfv]; exact hwp.1
        · rw [if_neg hpv]
          refine ⟨?_, hwp.2⟩
          rw [hdom]
          split
          · rw [g2_upd2 dom1 v MIN _ p hv.1 (by omega) hp0, if_neg hpv]; exact hwp.1
          · exact hwp.1
      · intro p hp0
        simp only
        rw [hdom]
        split
        · rw [g2_upd2 dom1 v MIN _ p hv.1 (by omega) hp0]
          by_cases hpv : p = v
          · subst hpv; simp [MIN]; exact hmx p hp0
          · rw [if_neg hpv]; exact hmx p hp0
        · exact hmx p hp0
    · right
      rw [hrxv] at hpre
      rw [hryv] at hfl
      refine ⟨_, he, Or.inr ⟨⟨st, rfl⟩, ?_⟩⟩
      obtain ⟨f1, f2, f3⟩ :=
        AllDiff.lsem_fail hctx hi.toLStruct hsem hvall (hY v (by simp)) hpre hfl
      refine ⟨g t1 z0, ry v, f1, f2, hr.2.2, ?_⟩
      have : (P ++ [v]).Sublist all := by
        rw [hPr]
        have : P ++ v :: rest = (P ++ [v]) ++ rest := by simp
        rw [this]; exact List.sublist_append_left _ _
      have := AllDiff.cinR_sublist rx ry this (g t1 z0) (ry v)
      omega
  · rintro ⟨o, t1, d1, h1, dom1⟩ ⟨P, Y, wf, hPr, ho, hi, hds, hsem, hwf, hY, hmx⟩
    simp only at ho hi hds hsem hwf hY hmx
    have hP : all = P := by simpa using hPr
    subst hP
    refine Or.inl ⟨ho, hi.st, hi.sd, hi.sh, hds, hsem.s2r, ?_, hmx⟩
    intro p hp
    obtain ⟨w, hw1, hw2, hw3, hw4, hw5⟩ := (hsem.s5 p hp).1 hp
    have hwp := hwf p hp
    have hr := hctx.rk p hp
    have hww : wf p = w :=
      K_inj hb hu hus (wf p) w hwp.2.1 hwp.2.2 (by omega) hw3 hw1
    exact ⟨w, by simp only; rw [hwp.1, hww], hw2, hw3, hw4, hw5⟩
  · refine ⟨[], 0, rx, by simp, rfl, hi0, rfl, hsem0, ?_, ?_, fun _ _ => rfl⟩
    · intro p hp
      have hr := hctx.rk p hp
      exact ⟨by simp only; rw [hmin p hp, hrxv], by omega, by omega⟩
    · intro p hp
      have := (hctx.rk p hp).2.1; have := (hctx.rk p hp).1; omega
  · rintro ⟨o, t1, d1, h1, dom1⟩ hp
    rcases hp with ⟨ho, h1', h2', h3', h4'⟩ | ⟨⟨st, ho⟩, hcert⟩
    · simp only at ho h1' h2' h3' h4'
      subst ho
      exact ⟨_, rfl, fun h => by simp at h, fun _ => ⟨h1', h2', h3', h4'⟩⟩
    · simp only at ho
      subst ho
      exact ⟨_, rfl, fun _ => hcert, fun h => by simp at h⟩

end Gcc
end Nucs
