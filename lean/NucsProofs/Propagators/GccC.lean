import NucsProofs.Basic
import NucsModel.Propagators.GccChecked
/-!
  gcc in certified-result form (`gccC`): soundness of the certificate checker `checkGcc`, of the
  `gccFallback`, and the local contracts of `gccC`, stated with the shapes of `Sound`, `GroundOk`,
  `EntailOk`, `Safe` of Spec.lean (with `gccC ps B` in place of `runAlg .gcc ps B`).

  Nothing here looks inside the port `gcc`: whatever it answers is either validated by the checker
  or replaced by the fallback.

  The certificate is the easy direction of Hoffman's condition.  For a tuple `t` of the box `B` and
  a duplicate-free set `S` of values,
    `Σ_{v ∈ S} t.count v = #{j | t[j] ∈ S}`               (`sumCount_eq_cntIn`)
    `#{j | B[j] ⊆ S} ≤ #{j | t[j] ∈ S} ≤ #{j | B[j] meets S}`   (`countInside_le_cntIn`, `cntIn_le_countMeets`)
  and when every count satisfies `l_v ≤ t.count v ≤ u_v`,
    `Σ_S l ≤ #{j | t[j] ∈ S} ≤ Σ_S u`                    (`capSum_le_sumCount`, `sumCount_le_capSum`).
-/
namespace Nucs

/-! ### counting lemmas -/

/-- `#{j | t[j] ∈ S}` -/
def cntIn (S : List Int) : List Int → Nat
  | [] => 0
  | x :: xs => (if x ∈ S then 1 else 0) + cntIn S xs

/-- `Σ_{v ∈ S} t.count v` -/
def sumCount (t : List Int) : List Int → Nat
  | [] => 0
  | v :: S => t.count v + sumCount t S

theorem cntIn_cons_set {v : Int} {S : List Int} (hv : v ∉ S) :
    ∀ t : List Int, cntIn (v :: S) t = t.count v + cntIn S t
  | [] => by simp [cntIn]
  | x :: xs => by
    have ih := cntIn_cons_set hv xs
    simp only [cntIn, List.count_cons, ih, List.mem_cons]
    by_cases hx : x = v
    · subst hx
      rw [if_pos (Or.inl rfl), if_neg hv, if_pos (by simp)]
      omega
    · have h1 : (x == v) = false := by simpa using hx
      by_cases hS : x ∈ S
      · rw [if_pos (Or.inr hS), if_pos hS, h1]; simp; omega
      · rw [if_neg (by simp [hx, hS]), if_neg hS, h1]; simp

/-- `Σ_{v ∈ S} t.count v = #{j | t[j] ∈ S}` for a duplicate-free `S` -/
theorem sumCount_eq_cntIn (t : List Int) : ∀ S : List Int, S.Nodup → sumCount t S = cntIn S t
  | [], _ => by
    induction t with
    | nil => rfl
    | cons x xs ih => simp only [sumCount] at ih; simp [sumCount, cntIn, ← ih]
  | v :: S, hnd => by
    have h := List.nodup_cons.mp hnd
    rw [cntIn_cons_set h.1 t, sumCount, sumCount_eq_cntIn t S h.2]

theorem insideSet_mem {d : Dom} {S : List Int} {x : Int} (h : d.insideSet S = true)
    (hx : inDom x d) : x ∈ S := by
  simp only [Dom.insideSet, Bool.and_eq_true, List.all_eq_true, List.mem_range] at h
  have hx' : d.1 ≤ x ∧ x ≤ d.2 := hx
  have := h.2 (x - d.1).toNat (by omega)
  have e : d.1 + ((x - d.1).toNat : Int) = x := by omega
  rw [e] at this
  exact List.contains_iff_mem.mp this

theorem meetsSet_of_mem {d : Dom} {S : List Int} {x : Int} (h : x ∈ S)
    (hx : inDom x d) : d.meetsSet S = true := by
  simp only [Dom.meetsSet, List.any_eq_true, Bool.and_eq_true, decide_eq_true_eq]
  exact ⟨x, h, hx.1, hx.2⟩

/-- `#{j | B[j] ⊆ S} ≤ #{j | t[j] ∈ S}` -/
theorem countInside_le_cntIn (S : List Int) : ∀ (t : List Int) (B : Box), inBox t B →
    B.countP (fun d => d.insideSet S) ≤ cntIn S t
  | [], [], _ => by simp [cntIn]
  | [], _ :: _, h => by simp [inBox] at h
  | _ :: _, [], h => by simp [inBox] at h
  | x :: xs, d :: ds, h => by
    have ih := countInside_le_cntIn S xs ds h.2
    simp only [cntIn, List.countP_cons]
    by_cases hd : d.insideSet S = true
    · rw [if_pos hd, if_pos (insideSet_mem hd h.1)]
      omega
    · rw [if_neg hd]
      omega

/-- `#{j | t[j] ∈ S} ≤ #{j | B[j] meets S}` -/
theorem cntIn_le_countMeets (S : List Int) : ∀ (t : List Int) (B : Box), inBox t B →
    cntIn S t ≤ B.countP (fun d => d.meetsSet S)
  | [], [], _ => by simp [cntIn]
  | [], _ :: _, h => by simp [inBox] at h
  | _ :: _, [], h => by simp [inBox] at h
  | x :: xs, d :: ds, h => by
    have ih := cntIn_le_countMeets S xs ds h.2
    simp only [cntIn, List.countP_cons]
    by_cases hx : x ∈ S
    · rw [if_pos hx, if_pos (meetsSet_of_mem hx h.1)]
      omega
    · rw [if_neg hx]
      omega

/-- `Σ_S l ≤ Σ_S count` when `l_v ≤ count v` on `S` -/
theorem capSum_le_sumCount (v0 : Int) (caps t : List Int) : ∀ S : List Int,
    (∀ v ∈ S, getI caps (v - v0).toNat ≤ (t.count v : Int)) →
    capSum v0 caps S ≤ (sumCount t S : Int)
  | [], _ => by simp [capSum, sumCount]
  | v :: S, h => by
    have ih := capSum_le_sumCount v0 caps t S (fun w hw => h w (List.mem_cons_of_mem _ hw))
    have h0 := h v (by simp)
    simp only [capSum, sumCount]
    omega

/-- `Σ_S count ≤ Σ_S u` when `count v ≤ u_v` on `S` -/
theorem sumCount_le_capSum (v0 : Int) (caps t : List Int) : ∀ S : List Int,
    (∀ v ∈ S, (t.count v : Int) ≤ getI caps (v - v0).toNat) →
    (sumCount t S : Int) ≤ capSum v0 caps S
  | [], _ => by simp [capSum, sumCount]
  | v :: S, h => by
    have ih := sumCount_le_capSum v0 caps t S (fun w hw => h w (List.mem_cons_of_mem _ hw))
    have h0 := h v (by simp)
    simp only [capSum, sumCount]
    omega

/-- no duplicate-free set of values is a violation witness on a box that contains a tuple whose
    counts respect the capacities on that set -/
theorem gccViolated_false (v0 : Int) (ls us : List Int) (B : Box) (S t : List Int) (hnd : S.Nodup)
    (ht : inBox t B)
    (hok : ∀ v ∈ S, getI ls (v - v0).toNat ≤ (t.count v : Int) ∧
      (t.count v : Int) ≤ getI us (v - v0).toNat) :
    gccViolated v0 ls us B S = false := by
  have h1 := countInside_le_cntIn S t B ht
  have h2 := cntIn_le_countMeets S t B ht
  have h3 := capSum_le_sumCount v0 ls t S (fun v hv => (hok v hv).1)
  have h4 := sumCount_le_capSum v0 us t S (fun v hv => (hok v hv).2)
  rw [sumCount_eq_cntIn t S hnd] at h3 h4
  simp only [gccViolated, Bool.or_eq_false_iff, decide_eq_false_iff_not]
  constructor <;> omega

/-! ### the value sets coded by bit masks -/

theorem mem_subsetOf {v0 : Int} {m mask : Nat} {v : Int} (h : v ∈ subsetOf v0 m mask) :
    ∃ w : Nat, w < m ∧ v = v0 + (w : Int) := by
  simp only [subsetOf, List.mem_map, List.mem_filter, List.mem_range] at h
  obtain ⟨w, ⟨hw, _⟩, e⟩ := h
  exact ⟨w, hw, e.symm⟩

theorem subsetOf_nodup (v0 : Int) (m mask : Nat) : (subsetOf v0 m mask).Nodup := by
  unfold subsetOf List.Nodup
  rw [List.pairwise_map]
  have h : ((List.range m).filter (fun w => mask.testBit w)).Nodup :=
    List.Nodup.sublist List.filter_sublist List.nodup_range
  exact List.Pairwise.imp (fun {a b} hab => by omega) h

/-! ### (a) an infeasible box has no solution -/

theorem gccLs_length (ps : List Int) : (gccLs ps).length = gccM ps := by
  simp only [gccLs, gccM, List.length_take, List.length_drop]
  omega

theorem rel_gcc (ps t : List Int) :
    rel .gcc ps t ↔ gccOk (getI ps 0) (gccLs ps) (gccUs ps) t := Iff.rfl

/-- soundness of the infeasibility certificate (no contract is needed) -/
theorem gccInfeasible_sound' {ps : List Int} {B : Box} (h : gccInfeasible ps B = true)
    (t : List Int) (ht : inBox t B) : ¬ rel .gcc ps t := by
  intro hrel
  rw [rel_gcc] at hrel
  simp only [gccInfeasible, gccInfeasibleAux, List.any_eq_true] at h
  obtain ⟨k, _, hk⟩ := h
  have := gccViolated_false (getI ps 0) (gccLs ps) (gccUs ps) B
    (subsetOf (getI ps 0) (gccM ps) (k + 1)) t (subsetOf_nodup _ _ _) ht (fun v hv => by
      obtain ⟨w, hw, e⟩ := mem_subsetOf hv
      have hj := hrel w (by rw [gccLs_length]; exact hw)
      have e2 : (v - getI ps 0).toNat = w := by omega
      rw [e2, e]
      exact hj)
  rw [this] at hk
  cases hk

/-- **soundness of the infeasibility certificate** -/
theorem gccInfeasible_sound {ps : List Int} {B : Box} :
    Contract .gcc ps B → gccInfeasible ps B = true → ∀ t, inBox t B → ¬ rel .gcc ps t :=
  fun _ h t ht => gccInfeasible_sound' h t ht

/-! ### (b) a removed value is taken by no solution -/

theorem inBox_set_self : ∀ (t : List Int) (B : Box) (i : Nat), inBox t B →
    inBox t (B.set i (getI t i, getI t i))
  | [], [], _, _ => by simp [inBox]
  | [], _ :: _, _, h => by simp [inBox] at h
  | _ :: _, [], _, h => by simp [inBox] at h
  | x :: xs, d :: ds, 0, h => by
    simp only [List.set_cons_zero, getI, List.getD_cons_zero]
    exact ⟨⟨Int.le_refl _, Int.le_refl _⟩, h.2⟩
  | x :: xs, d :: ds, i + 1, h => by
    have ih := inBox_set_self xs ds i h.2
    simp only [List.set_cons_succ, getI, List.getD_cons_succ] at ih ⊢
    exact ⟨h.1, ih⟩

theorem gccRemovedOk_spec {ps : List Int} {B : Box} {i : Nat} {d d' : Dom}
    (h : gccRemovedOk ps B i d d' = true) (v : Int)
    (h1 : d.1 ≤ v) (h2 : v ≤ d.2) (h3 : v < d'.1 ∨ d'.2 < v) :
    gccInfeasible ps (B.set i (v, v)) = true := by
  simp only [gccRemovedOk, Bool.and_eq_true, List.all_eq_true, List.mem_range] at h
  rcases h3 with h3 | h3
  · have := h.1 (v - d.1).toNat (by omega)
    have e : d.1 + ((v - d.1).toNat : Int) = v := by omega
    rwa [e] at this
  · have := h.2 (v - d'.2 - 1).toNat (by omega)
    have e : d'.2 + 1 + ((v - d'.2 - 1).toNat : Int) = v := by omega
    rwa [e] at this

/-- the position-wise check: `B'` is a non-empty sub-box of `B` (the tail of `B0` from index `i`)
    and keeps the matching tail of every solution of `B0` -/
theorem gccCheckDoms_sound (ps : List Int) (B0 : Box) : ∀ (i : Nat) (B B' : Box),
    gccCheckDoms ps B0 i B B' = true → i + B.length = B0.length →
    Box.le B' B ∧ B'.Nonempty ∧
      ∀ t0, inBox t0 B0 → rel .gcc ps t0 → ∀ t, t0.drop i = t → inBox t B → inBox t B'
  | _, [], [], _, _ => by
    refine ⟨trivial, Box.nonempty_nil, ?_⟩
    intro _ _ _ t _ ht
    exact ht
  | _, [], _ :: _, h, _ => by simp [gccCheckDoms] at h
  | _, _ :: _, [], h, _ => by simp [gccCheckDoms] at h
  | i, d :: ds, d' :: ds', h, hlen => by
    simp only [gccCheckDoms, Bool.and_eq_true, decide_eq_true_eq] at h
    obtain ⟨⟨⟨⟨h1, h2⟩, h3⟩, h4⟩, h5⟩ := h
    obtain ⟨ih1, ih2, ih3⟩ := gccCheckDoms_sound ps B0 (i + 1) ds ds' h5
      (by simp only [List.length_cons] at hlen; omega)
    refine ⟨⟨⟨h1, h3⟩, ih1⟩, Box.nonempty_cons.mpr ⟨h2, ih2⟩, ?_⟩
    intro t0 ht0 hrel t hdrop ht
    cases t with
    | nil => simp [inBox] at ht
    | cons x xs =>
      have hi0 : i < B0.length := by simp only [List.length_cons] at hlen; omega
      have hi : i < t0.length := by rw [inBox_length ht0]; exact hi0
      rw [List.drop_eq_getElem_cons hi] at hdrop
      injection hdrop with hx hxs
      have hgx : getI t0 i = x := by
        simp [getI, List.getD_eq_getElem?_getD, List.getElem?_eq_getElem hi, hx]
      have hxd : d.1 ≤ x ∧ x ≤ d.2 := ht.1
      refine ⟨?_, ih3 t0 ht0 hrel xs hxs ht.2⟩
      show d'.1 ≤ x ∧ x ≤ d'.2
      by_cases hout : x < d'.1 ∨ d'.2 < x
      · have hf := gccRemovedOk_spec h4 x hxd.1 hxd.2 hout
        have hin := inBox_set_self t0 B0 i ht0
        rw [hgx] at hin
        exact absurd hrel (gccInfeasible_sound' hf t0 hin)
      · omega

/-! ### the checker -/

theorem gccOkB_iff (ps t : List Int) : gccOkB ps t = true ↔ rel .gcc ps t := by
  rw [rel_gcc]
  simp only [gccOkB, gccOk, List.all_eq_true, List.mem_range, Bool.and_eq_true, decide_eq_true_eq]

/-- **soundness of the certificate checker.**  An accepted non-failing answer is a non-empty
    sub-box that keeps every solution; an accepted failure had no solution. -/
theorem checkGcc_sound {ps : List Int} {B : Box} {st : Status} {B' : Box} :
    checkGcc ps B st B' = true →
    (st ≠ .inc → Box.le B' B ∧ B'.Nonempty ∧ ∀ t, inBox t B → rel .gcc ps t → inBox t B') ∧
    (st = .inc → ∀ t, inBox t B → ¬ rel .gcc ps t) := by
  intro h
  unfold checkGcc at h
  split at h
  · cases h
  · cases st with
    | inc =>
      refine ⟨fun hne => absurd rfl hne, fun _ t ht => ?_⟩
      exact gccInfeasible_sound' (by simpa using h) t ht
    | cons =>
      refine ⟨fun _ => ?_, fun hne => by cases hne⟩
      simp only [Bool.and_eq_true] at h
      obtain ⟨h1, h2, h3⟩ := gccCheckDoms_sound ps B 0 B B' h.1 (by simp)
      exact ⟨h1, h2, fun t ht hrel => h3 t ht hrel t (by simp) ht⟩
    | ent => simp at h

/-- the checker never accepts `entailed` -/
theorem checkGcc_ent (ps : List Int) (B B' : Box) : checkGcc ps B .ent B' = false := by
  unfold checkGcc; split <;> rfl

theorem gcc_pointBox_isGround (t : List Int) : Box.isGround (pointBox t) = true := by
  simp [Box.isGround, pointBox, Dom.isGround]

theorem gcc_pointBox_map_fst (t : List Int) : (pointBox t).map (·.1) = t := by
  simp [pointBox, Function.comp_def]

/-- an accepted non-failing answer that is a point is a solution -/
theorem checkGcc_ground {ps : List Int} {B : Box} {t : List Int}
    (h : checkGcc ps B .cons (pointBox t) = true) : rel .gcc ps t := by
  unfold checkGcc at h
  split at h
  · cases h
  · simp only [Bool.and_eq_true, Bool.or_eq_true, Bool.not_eq_true',
      gcc_pointBox_isGround, gcc_pointBox_map_fst, gccOkB_iff] at h
    rcases h.2 with h | h
    · cases h
    · exact h

/-! ### the fallback -/

/-- the only tuple of a ground box is its list of lower bounds -/
theorem gcc_eq_map_fst_of_ground : ∀ {t : List Int} {B : Box}, inBox t B → B.isGround = true →
    t = B.map (·.1)
  | [], [], _, _ => rfl
  | x :: xs, d :: ds, h, hg => by
    simp only [Box.isGround, List.all_cons, Bool.and_eq_true, Dom.isGround, beq_iff_eq] at hg
    have ih := gcc_eq_map_fst_of_ground (t := xs) (B := ds) h.2 (by simpa [Box.isGround] using hg.2)
    have hx : d.1 ≤ x ∧ x ≤ d.2 := h.1
    have : x = d.1 := by omega
    simp [this, ← ih]
  | [], _ :: _, h, _ => by simp [inBox] at h
  | _ :: _, [], h, _ => by simp [inBox] at h

theorem gccFallback_snd (ps : List Int) (B : Box) : (gccFallback ps B).2 = B := by
  unfold gccFallback; split <;> rfl

theorem gccFallback_ne_ent (ps : List Int) (B : Box) : (gccFallback ps B).1 ≠ .ent := by
  unfold gccFallback; split <;> simp

/-- the fallback answer is sound -/
theorem gccFallback_sound (ps : List Int) (B : Box) (hne : B.Nonempty) :
    ((gccFallback ps B).1 ≠ .inc →
      Box.le (gccFallback ps B).2 B ∧ (gccFallback ps B).2.Nonempty ∧
        ∀ t, inBox t B → rel .gcc ps t → inBox t (gccFallback ps B).2) ∧
    ((gccFallback ps B).1 = .inc → ∀ t, inBox t B → ¬ rel .gcc ps t) := by
  rw [gccFallback_snd]
  refine ⟨fun _ => ⟨Box.le_refl B, hne, fun t ht _ => ht⟩, ?_⟩
  unfold gccFallback
  split
  · rename_i hc
    intro _ t ht hrel
    simp only [Bool.and_eq_true, Bool.not_eq_true', ← Bool.not_eq_true, gccOkB_iff] at hc
    rw [gcc_eq_map_fst_of_ground ht hc.1] at hrel
    exact hc.2 hrel
  · intro h; cases h

/-- the fallback answer is ground-correct: when it does not fail on a point, the point is a
    solution -/
theorem gccFallback_ground (ps t : List Int) (h : (gccFallback ps (pointBox t)).1 ≠ .inc) :
    rel .gcc ps t := by
  unfold gccFallback at h
  split at h
  · exact absurd rfl h
  · rename_i hc
    simp only [gcc_pointBox_isGround, gcc_pointBox_map_fst, Bool.true_and, Bool.not_eq_true',
      Bool.not_eq_false, gccOkB_iff] at hc
    exact hc

/-! ### the contracts of `gccC` -/

/-- the two ways `gccC` produces its answer -/
theorem gccC_cases (ps : List Int) (B : Box) :
    (∃ st B', checkGcc ps B st B' = true ∧
        gccC ps B = .ok (st, if st = .inc then B else B')) ∨
    gccC ps B = .ok (gccFallback ps B) := by
  unfold gccC
  split
  · rename_i st B' _
    by_cases hc : checkGcc ps B st B' = true
    · left; exact ⟨st, B', hc, by rw [if_pos hc]⟩
    · right; rw [if_neg hc]
  · right; rfl

/-- `Safe`: the checked model never throws -/
theorem safeC_gcc :
    ∀ ps B, Contract .gcc ps B → B.Nonempty → ∃ r, gccC ps B = .ok r := by
  intro ps B _ _
  rcases gccC_cases ps B with ⟨st, B', _, h⟩ | h
  · exact ⟨_, h⟩
  · exact ⟨_, h⟩

/-- `Sound` -/
theorem soundC_gcc :
    ∀ ps B st B', Contract .gcc ps B → B.Nonempty → gccC ps B = .ok (st, B') →
      (st ≠ .inc → Box.le B' B ∧ B'.Nonempty ∧ ∀ t, inBox t B → rel .gcc ps t → inBox t B') ∧
      (st = .inc → ∀ t, inBox t B → ¬ rel .gcc ps t) := by
  intro ps B st B' _ hne hrun
  rcases gccC_cases ps B with ⟨st1, B1, hc, h⟩ | h
  · rw [h] at hrun
    injection hrun with hrun
    injection hrun with e1 e2
    subst e1
    have hs := checkGcc_sound hc
    refine ⟨fun hst => ?_, hs.2⟩
    rw [if_neg hst] at e2
    subst e2
    exact hs.1 hst
  · rw [h] at hrun
    injection hrun with hrun
    have hs := gccFallback_sound ps B hne
    rw [hrun] at hs
    exact hs

/-- `GroundOk` -/
theorem groundOkC_gcc :
    ∀ ps B st B' t, Contract .gcc ps B → B.Nonempty → gccC ps B = .ok (st, B') →
      st ≠ .inc → B' = pointBox t → relW .gcc ps t := by
  intro ps B st B' t _ _ hrun hst hB'
  show rel .gcc ps t
  rcases gccC_cases ps B with ⟨st1, B1, hc, h⟩ | h
  · rw [h] at hrun
    injection hrun with hrun
    injection hrun with e1 e2
    subst e1
    rw [if_neg hst] at e2
    subst e2
    subst hB'
    cases st1 with
    | inc => exact absurd rfl hst
    | cons => exact checkGcc_ground hc
    | ent => rw [checkGcc_ent] at hc; cases hc
  · rw [h] at hrun
    injection hrun with hrun
    have h2 := gccFallback_snd ps B
    rw [hrun] at h2
    simp only at h2
    have h1 : (gccFallback ps B).1 = st := by rw [hrun]
    rw [← h2, hB'] at h1
    exact gccFallback_ground ps t (by rw [h1]; exact hst)

/-- `gccC` never answers `entailed` -/
theorem gccC_ne_ent (ps : List Int) (B B' : Box) : gccC ps B ≠ .ok (.ent, B') := by
  intro hrun
  rcases gccC_cases ps B with ⟨st1, B1, hc, h⟩ | h
  · rw [h] at hrun
    injection hrun with hrun
    injection hrun with e1 _
    subst e1
    rw [checkGcc_ent] at hc
    cases hc
  · rw [h] at hrun
    injection hrun with hrun
    exact gccFallback_ne_ent ps B (by rw [hrun])

/-- `EntailOk` (vacuous) -/
theorem entailOkC_gcc :
    ∀ ps B B', Contract .gcc ps B → B.Nonempty → gccC ps B = .ok (.ent, B') →
      ∀ t, inBox t B' → rel .gcc ps t := by
  intro ps B B' _ _ hrun
  exact absurd hrun (gccC_ne_ent ps B B')

/-! ### the contract is monotone (independent of the registered model) -/

theorem Gcc.within_of_le {lo hi : Int} : ∀ {B' B : Box}, Box.le B' B → B.within lo hi →
    B'.within lo hi
  | [], [], _, _ => by intro d hd; cases hd
  | d' :: ds', d :: ds, h, hw => by
    intro e he
    rcases List.mem_cons.mp he with rfl | he
    · have h1 := hw d (by simp)
      have h2 := h.1
      omega
    · exact Gcc.within_of_le h.2 (fun x hx => hw x (List.mem_cons_of_mem _ hx)) e he
  | [], _ :: _, h, _ => by simp [Box.le] at h
  | _ :: _, [], h, _ => by simp [Box.le] at h

/-- `ContractMono`: lengths are equal under `Box.le`, `within` is inherited by sub-boxes -/
theorem contractMonoC_gcc : ContractMono .gcc := by
  intro ps B B' hc hle
  simp only [Contract] at hc ⊢
  obtain ⟨h1, h2, h3, h4, h5⟩ := hc
  exact ⟨h1, h2, by rw [Box.le_length hle]; exact h3, Gcc.within_of_le hle h4, h5⟩

end Nucs
