import NucsProofs.Propagators.GccLbcFree
import NucsProofs.Propagators.GccLbcLoopA
/-!
  Completeness of the lower-capacity passes — core argument for STABLE variables, detached from the
  monadic code: a variable that is not used, or is freeable, has a support in the lower-capacity
  relaxation for every value of its domain.
-/
namespace Nucs
namespace Gcc
open AllDiff (g g2)

theorem lsup_free_core {N n fv m : Int} {bounds : Array Int} {ranks domains : Arr2} {l : PSum}
    {valuesL : Array Int} {lows : Int → Int} {all UA : List Int} {cf : Int → Int} {mn mx : Int}
    (hb : BC bounds N fv m) (hpl : PS l fv m)
    (hstepL : ∀ k, 2 ≤ k → k < m + 2 → g l.1 (k + 1) = g l.1 k + g valuesL (k - 2))
    (hvL : ∀ j, 0 ≤ j → j < m → g valuesL j = lows j)
    (hperm : all.Perm (rangeUp 0 n)) (hnodup : all.Nodup)
    (hrk : RanksOK N n bounds ranks domains)
    (hUsub : UA.Sublist all)
    (hcf : ∀ p ∈ UA, (g2 ranks p).1 < cf p ∧ cf p ≤ (g2 ranks p).2)
    (hcnt : ∀ k, 2 ≤ k → k ≤ N - 1 → occ cf UA k = K l fv bounds k - K l fv bounds (k - 1))
    (hmn1 : g bounds 1 ≤ mn) (hmn3 : mn ≤ fv + m) (hc1 : ¬ gsum l fv (mn - 1) > 0)
    (hmx1 : mx + 1 ≤ g bounds (N - 1)) (hmx3 : fv - 1 ≤ mx)
    (hc2 : ¬ gsum l (mx + 1) (fv + m - 1) > 0)
    (k : Int) (hk0 : 0 ≤ k) (hk1 : k < n)
    (hfree : k ∉ UA ∨ Freeable (fun v => (g2 ranks v).1) (fun v => (g2 ranks v).2) cf all UA k)
    (val : Int) (hv1 : (g2 domains k).1 ≤ val) (hv2 : val ≤ (g2 domains k).2) :
    ∃ σ : Int → Int, LSup n fv m domains lows σ k val := by
  have hN := hb.hN
  have hmem : ∀ p ∈ all, 0 ≤ p ∧ p < n := by
    intro p hp
    have := hperm.mem_iff.1 hp
    rwa [mem_rangeUp] at this
  have hmem' : ∀ p, 0 ≤ p → p < n → p ∈ all :=
    fun p h0 h1 => hperm.mem_iff.2 (by rw [mem_rangeUp]; exact ⟨h0, h1⟩)
  obtain ⟨σ, s1, s2, s3⟩ := free_support hN (g bounds) (fun i j h0 hij hj => hb.lt' i j h0 hij hj)
    all UA hnodup hUsub (fun v => (g2 ranks v).1) (fun v => (g2 ranks v).2)
    (fun v => (g2 domains v).1) (fun v => (g2 domains v).2)
    (by intro p hp; have := hrk p (hmem p hp).1 (hmem p hp).2; omega)
    (by intro p hp; have := hrk p (hmem p hp).1 (hmem p hp).2; omega)
    (by intro p hp; have := hrk p (hmem p hp).1 (hmem p hp).2; omega)
    cf hcf (cumOf l fv) (fun v => cap l fv v) (fun v => cumOf_succ l fv v)
    fv (fv + m) hb.b1 hb.bnb
    (fun v h1 h2 => cap_nonneg hpl v (by omega) (by omega))
    (fun k h1 h2 => hcnt k h1 h2)
    (by
      intro v h1 h2
      exact cap_zero_of_gsum hpl fv (mn - 1) (by omega) (by omega) hc1 v h1 (by omega))
    (by
      intro v h1 h2
      exact cap_zero_of_gsum hpl (mx + 1) (fv + m - 1) (by omega) (by omega) hc2 v (by omega)
        (by omega))
    k (hmem' k hk0 hk1) hfree val hv1 hv2
  refine ⟨σ, fun v h0 h1 => s1 v (hmem' v h0 h1), ?_, s3⟩
  intro j h0 h1
  have := s2 (fv + j) (by omega) (by omega)
  rw [cap_values hstepL j h0 h1, hvL j h0 h1, occ_perm σ hperm] at this
  exact this

end Gcc
end Nucs
