import NucsProofs.Propagators.GccSoundLMinOut
/-!
  Semantic soundness of the ported gcc, `filter_lower_min`: the whole pass.
  The memory-safety proofs of PortGccLMin (`lminTest_spec` … `filter_lower_min_spec`) strengthened
  with the abstract invariant of GccSoundLMinMath (`ESem` on `tlg tl`, `dfc Kf c`, `g sets` and the
  ghost `wf`; `PSem` on `g pot`, `g stbl`), through the relations exported by GccSoundLMinInit /
  GccSoundLMinElse / GccSoundLMinPot.  The conclusion is `LMinOut` (GccSoundLMinOut).
-/
namespace Nucs
namespace Gcc
open AllDiff (g upd g2 upd2 ok_bind pure_eq_ok except_bind_ok forIn_list_except range_forIn_eq
  size_upd size_upd2 g_upd g_upd_same g_upd_ne g2_upd2 LChain LStruct LPre phi cinR)

/-! ### lists and arrays -/

theorem g_eq_getElem (a : Array Int) (i : Int) (h0 : 0 ≤ i) (h1 : i < a.size) :
    ∃ h : i.toNat < a.toList.length, g a i = a.toList[i.toNat] := by
  have h2 : i.toNat < a.size := by omega
  refine ⟨by simpa using h2, ?_⟩
  simp [g, h2]

theorem take_succ_g (a : Array Int) (i : Int) (h0 : 0 ≤ i) (h1 : i < a.size) :
    a.toList.take (i + 1).toNat = a.toList.take i.toNat ++ [g a i] := by
  obtain ⟨h, he⟩ := g_eq_getElem a i h0 h1
  have e : (i + 1).toNat = i.toNat + 1 := by omega
  rw [e, List.take_add_one, List.getElem?_eq_getElem h, he]
  rfl

theorem g_mem_take (a : Array Int) (i' i : Int) (h0 : 0 ≤ i') (h1 : i' < i) (h2 : i ≤ a.size) :
    g a i' ∈ a.toList.take i.toNat := by
  obtain ⟨h, he⟩ := g_eq_getElem a i' h0 (by omega)
  rw [he, List.mem_take_iff_getElem]
  exact ⟨i'.toNat, by simp; omega, rfl⟩

theorem g_mem_toList (a : Array Int) (i : Int) (h0 : 0 ≤ i) (h1 : i < a.size) :
    g a i ∈ a.toList := by
  obtain ⟨h, he⟩ := g_eq_getElem a i h0 h1
  rw [he]; exact List.getElem_mem h

theorem g_not_mem_take (a : Array Int) (hnd : a.toList.Nodup) (i : Int) (h0 : 0 ≤ i)
    (h1 : i < a.size) : g a i ∉ a.toList.take i.toNat := by
  obtain ⟨h, he⟩ := g_eq_getElem a i h0 h1
  intro hin
  have hsplit := List.take_append_drop i.toNat a.toList
  rw [List.drop_eq_getElem_cons h] at hsplit
  rw [← hsplit] at hnd
  have := (List.nodup_append.1 hnd).2.2 _ hin (a.toList[i.toNat]) (by simp)
  exact this he

theorem g_inj (a : Array Int) (hnd : a.toList.Nodup) (i i' : Int) (h0 : 0 ≤ i) (h1 : i < a.size)
    (h0' : 0 ≤ i') (h1' : i' < a.size) (he : g a i = g a i') : i = i' := by
  by_cases hlt : i < i'
  · exact absurd (he ▸ g_mem_take a i i' h0 hlt (by omega)) (g_not_mem_take a hnd i' h0' h1')
  · by_cases hgt : i' < i
    · exact absurd (he ▸ g_mem_take a i' i h0' hgt (by omega)) (g_not_mem_take a hnd i h0 h1)
    · omega

theorem mem_toList_g' (a : Array Int) (v : Int) (h : v ∈ a.toList) :
    ∃ k : Int, 0 ≤ k ∧ k < a.size ∧ g a k = v := by
  obtain ⟨p, hp, hpe⟩ := List.mem_iff_getElem.1 h
  have hp' : p < a.size := by simpa using hp
  refine ⟨(p : Int), by omega, by omega, ?_⟩
  simp only [g, Int.toNat_natCast]
  simp [hp']
  simpa using hpe

theorem take_all (a : Array Int) (n : Int) (hn : n = a.size) : a.toList.take n.toNat = a.toList := by
  apply List.take_of_length_le
  simp; omega

/-! ### from the structural invariant to the abstract one -/

theorem MCore.toLStruct {N : Int} {sz : Nat} {bounds : Array Int} {l : PSum} {fv m : Int}
    {tl c sets : Array Int} (hb : BC bounds N fv m) (hl : PS l fv m)
    (hc : MCore N sz (K l fv bounds) tl c sets) :
    LStruct N (tlg tl) (dfc (K l fv bounds) c) (g sets) := by
  refine ⟨hc.ct, hc.cs, tlg_le1 tl 1 (by omega), ?_⟩
  intro i h1 h2 h3
  by_cases hi : i ≤ 1
  · rw [dfc_le1 _ c i hi]
    have := K_bot hl hb
    omega
  · rw [dfc_ge2 _ c i (by omega)]
    rw [tlg_ge2 tl i (by omega)] at h3
    exact (hc.d1 i (by omega) h2 h3).1

theorem wctx_of {N : Int} {bounds : Array Int} {l : PSum} {fv m : Int}
    (hb : BC bounds N fv m) (hl : PS l fv m) (ranks : Arr2) (msv : Array Int) (nd : Nat)
    (hrs : ranks.size = nd)
    (hmsv : ∀ i : Int, 0 ≤ i → i < msv.size → 0 ≤ g msv i ∧ g msv i < (nd : Int))
    (hranks : ∀ v : Int, 0 ≤ v → v < ranks.size →
      1 ≤ (g2 ranks v).1 ∧ (g2 ranks v).1 < (g2 ranks v).2 ∧ (g2 ranks v).2 < N) :
    WCtx N (K l fv bounds) (fun v => (g2 ranks v).1) (fun v => (g2 ranks v).2) msv.toList := by
  refine ⟨hb.hN, fun i j h0 hij hj => K_mono hl hb i j h0 hij hj, ?_⟩
  intro u hu
  obtain ⟨k, hk0, hk1, hke⟩ := mem_toList_g' msv u hu
  have := hmsv k hk0 hk1
  rw [hke] at this
  exact hranks u this.1 (by omega)

/-! ### one iteration of the main loop -/

/-- how the ghost state `U, wf` and the array `new_mins` evolve in the iteration on the variable
    `v` at position `i`: either `v` is not used, or it is used with candidate new minimum `wn` -/
def GStep (i v : Int) (U U' : List Int) (wf wf' : Int → Int) (nm nm' : Array Int) : Prop :=
  (U' = U ∧ wf' = wf ∧ nm' = nm) ∨
    ∃ wn, U' = U ++ [v] ∧ wf' = (fun u => if u = v then wn else wf u) ∧ nm' = upd nm i wn

/-- from the main test to the end of the iteration -/
theorem lminTest_sem {N : Int} {sz : Nat} {bounds : Array Int} {l : PSum} {fv m : Int}
    {tl c sets pot stbl : Array Int} {rx ry : Int → Int} {all P U : List Int} {Y : Int}
    {wf : Int → Int} (hb : BC bounds N fv m) (hl : PS l fv m)
    (hctx : WCtx N (K l fv bounds) rx ry all)
    (hc : MCore N sz (K l fv bounds) tl c sets) (hp : MPot N sz tl pot stbl)
    (new_mins : Array Int) (hnm : NMOk N new_mins)
    (hsem : ESem N (K l fv bounds) rx ry all P U Y (tlg tl) (dfc (K l fv bounds) c) (g sets) wf)
    (hps : PSem N (K l fv bounds) rx ry P U (g pot) (g stbl))
    (v : Int) (hv : v ∈ all) (hYv : Y ≤ ry v) (hvU : v ∉ U)
    (i z j w : Int) (hi0 : 0 ≤ i) (hi1 : i < new_mins.size)
    (hxz : rx v + 1 ≤ z) (hzN : z ≤ N) (hzr : g tl z < z) (hj : j = g tl z)
    (hall : ∀ k, rx v + 1 ≤ k → k < z → g tl k > k)
    (hpy : g pot (ry v) < ry v) (hsy : g stbl (ry v) < ry v)
    (hlow : z ≤ ry v → ∀ r, 1 ≤ r → r ≤ N → g pot r < r → g pot r ≤ rx v ∨ z ≤ g pot r)
    (hstab : ry v < z → g pot (ry v) ≤ rx v ∧
      phi (K l fv bounds) rx U (ry v) ≤ phi (K l fv bounds) rx U (g pot (ry v))) :
    ∃ tl' c' sets' stbl' nm' w' U' wf',
      lminTest bounds l i (rx v) (ry v) z j tl c sets stbl new_mins pot w =
        .ok (.yield (tl', c', sets', stbl', pot, nm', w')) ∧
      MCore N sz (K l fv bounds) tl' c' sets' ∧ MPot N sz tl' pot stbl' ∧ NMOk N nm' ∧
      nm'.size = new_mins.size ∧ (∀ Y', ry v ≤ Y' → MBelow N stbl Y' → MBelow N stbl' Y') ∧
      ESem N (K l fv bounds) rx ry all (P ++ [v]) U' (ry v) (tlg tl') (dfc (K l fv bounds) c')
        (g sets') wf' ∧
      PSem N (K l fv bounds) rx ry (P ++ [v]) U' (g pot) (g stbl') ∧
      GStep i v U U' wf wf' new_mins nm' := by
  obtain ⟨hx1, hxy, hyN⟩ := hctx.rk v hv
  have hbsz := hb.hsz
  have hNsz := hc.hsz
  have hsc := hc.sc
  have hs := hc.toLStruct hb hl
  have hz2 : 2 ≤ z := by omega
  have hzr' : tlg tl z < z := by rw [tlg_ge2 tl z hz2]; exact hzr
  have hall' : ∀ k, rx v + 1 ≤ k → k < z → tlg tl k > k := by
    intro k h1 h2; rw [tlg_ge2 tl k (by omega)]; exact hall k h1 h2
  unfold lminTest
  rw [rd_ok c z (by omega) (by omega), ok_bind, rd_ok bounds (ry v) (by omega) (by omega), ok_bind,
    rd_ok bounds z (by omega) (by omega), ok_bind,
    get_sum_bounds_ok hl hb (ry v) z (by omega) hyN (by omega) hzN, ok_bind]
  by_cases hle : g c z ≤ gsum l (g bounds (ry v)) (g bounds z - 1)
  · rw [if_pos hle]
    have hyz : ry v < z := by
      by_cases h : ry v < z
      · exact h
      · have h1 := (gsum_K_neg hl hb (ry v) z (by omega) (by omega) hyN).2
        have h2 := (hc.d1 z hz2 hzN hzr).1
        omega
    obtain ⟨hpx, hphi⟩ := hstab hyz
    obtain ⟨stbl', w', wb, vb, he, hp', hbel, hp1, hsrel⟩ :=
      lminStable_rel hp hNsz (rx v) (ry v) z (by omega) hyN hpy hsy c sets new_mins
    rw [he]
    obtain ⟨tl', he2, hc2, hp2, hroots, hval⟩ :=
      lminFin_relP hc hp' (rx v) z hx1 hxz hzN hzr hall new_mins w'
    refine ⟨tl', c, sets, stbl', new_mins, w', U, wf, he2, hc2, hp2, hnm, rfl, hbel, ?_, ?_,
      Or.inl ⟨rfl, rfl, rfl⟩⟩
    · exact esem_skip hctx hsem hv hYv hroots hval
    · exact psem_stable hctx hp.cb hp'.cb hsem hps hv hYv hp1 hpx hphi hsrel
  · rw [if_neg hle]
    have hzy : z ≤ ry v := by
      by_cases h : z ≤ ry v
      · exact h
      · exfalso
        have h1 := gsum_K hl hb (ry v) z (by omega) (by omega) hzN
        have h2 := (stable_test hctx hs hsem hx1 hxy hYv hxz hzN hzr' hall' (by omega)).1
        rw [dfc_ge2 _ c z hz2] at h2
        omega
    obtain ⟨tl', c', sets', nm', w', z', wn, he, hc', hp', hnm', hsz', hrel, hnme⟩ :=
      lminElse_rel hb hl hc hp new_mins hnm i (rx v) (ry v) z j w hi0 hi1 hx1 hxy hyN hxz hzN hzr hj
        hall hle
    refine ⟨tl', c', sets', stbl, nm', w', U ++ [v], fun u => if u = v then wn else wf u, he, hc',
      hp', hnm', hsz', fun _ _ h => h, ?_, ?_, Or.inr ⟨wn, rfl, rfl, hnme⟩⟩
    · exact esem_step hctx hs (hc'.toLStruct hb hl) hsem hv hYv hvU hzy hrel (fun u _ => rfl)
    · exact psem_else hs hsem.t hps hx1 hrel.toLPre (hlow hzy)

/-- one iteration of the main loop -/
theorem lminBody_sem {N : Int} {sz : Nat} {bounds : Array Int} {l : PSum} {fv m : Int}
    {tl c sets pot stbl : Array Int} {rx ry : Int → Int} {all P U : List Int} {Y : Int}
    {wf : Int → Int} (hb : BC bounds N fv m) (hl : PS l fv m)
    (hctx : WCtx N (K l fv bounds) rx ry all)
    (hc : MCore N sz (K l fv bounds) tl c sets) (hp : MPot N sz tl pot stbl)
    (new_mins : Array Int) (hnm : NMOk N new_mins)
    (hsem : ESem N (K l fv bounds) rx ry all P U Y (tlg tl) (dfc (K l fv bounds) c) (g sets) wf)
    (hps : PSem N (K l fv bounds) rx ry P U (g pot) (g stbl))
    (ranks : Arr2) (msv : Array Int) (hrx : ∀ u, (g2 ranks u).1 = rx u)
    (hry : ∀ u, (g2 ranks u).2 = ry u) (i w v : Int)
    (hi0 : 0 ≤ i) (hi1 : i < new_mins.size) (hi2 : i < msv.size) (hvi : g msv i = v)
    (hv0 : 0 ≤ v) (hv1 : v < ranks.size)
    (hv : v ∈ all) (hYv : Y ≤ ry v) (hvU : v ∉ U)
    (hbp : MBelow N pot (ry v)) (hbs : MBelow N stbl (ry v)) :
    ∃ tl' c' sets' stbl' pot' nm' w' U' wf',
      lminBody bounds ranks msv l i (tl, c, sets, stbl, pot, new_mins, w) =
        .ok (.yield (tl', c', sets', stbl', pot', nm', w')) ∧
      MCore N sz (K l fv bounds) tl' c' sets' ∧ MPot N sz tl' pot' stbl' ∧ NMOk N nm' ∧
      nm'.size = new_mins.size ∧
      (∀ Y', ry v ≤ Y' → MBelow N pot Y' → MBelow N pot' Y') ∧
      (∀ Y', ry v ≤ Y' → MBelow N stbl Y' → MBelow N stbl' Y') ∧
      ESem N (K l fv bounds) rx ry all (P ++ [v]) U' (ry v) (tlg tl') (dfc (K l fv bounds) c')
        (g sets') wf' ∧
      PSem N (K l fv bounds) rx ry (P ++ [v]) U' (g pot') (g stbl') ∧
      GStep i v U U' wf wf' new_mins nm' := by
  obtain ⟨hx1, hxy, hyN⟩ := hctx.rk v hv
  have hNsz := hc.hsz
  have hst := hc.st
  have hs := hc.toLStruct hb hl
  unfold lminBody
  simp only []
  rw [rd_ok msv i hi0 hi2, ok_bind, hvi, rd2_min_ok ranks v hv0 hv1, ok_bind,
    rd2_max_ok ranks v hv0 hv1, ok_bind, hrx, hry]
  obtain ⟨z, hpm, hz1, hz2, hz3, hz4⟩ := path_max_spec tl 2 N (rx v + 1) (by omega) (by omega)
    (fun k h1 h2 => by
      have := (hc.ct.rng k (by omega) h2).2.1
      rw [tlg_ge2 tl k h1] at this; exact this)
    (fun k h1 h2 h3 q hq1 hq2 => by
      have h3' : tlg tl k > k := by rw [tlg_ge2 tl k h1]; exact h3
      have := hc.ct.up k (by omega) h2 h3' q hq1 (by rw [tlg_ge2 tl k h1]; exact hq2)
      rw [tlg_ge2 tl q (by omega)] at this; exact this)
    (by omega) (by omega)
  have hzr : g tl z < z := by
    have := (hc.ct.rng z (by omega) hz2).2.2
    rw [tlg_ge2 tl z (by omega)] at this
    omega
  have hzr' : tlg tl z < z := by rw [tlg_ge2 tl z (by omega)]; exact hzr
  have hall' : ∀ k, rx v + 1 ≤ k → k < z → tlg tl k > k := by
    intro k h1 h2; rw [tlg_ge2 tl k (by omega)]; exact hz4 k h1 h2
  rw [hpm, ok_bind, rd_ok tl z (by omega) (by omega), ok_bind]
  have hsy : g stbl (ry v) < ry v := root_of_below hp.cb (by omega) (by omega) hbs
  by_cases hzx : z = rx v + 1
  · have hcond : ¬ (z != rx v + 1) = true := by simp [hzx]
    rw [if_neg hcond]
    have hpy : g pot (ry v) < ry v := root_of_below hp.cp (by omega) (by omega) hbp
    obtain ⟨tl', c', sets', stbl', nm', w', U', wf', he, hc', hp', hnm', hsz', hbel, hes, hpsm, hgs⟩ :=
      lminTest_sem hb hl hctx hc hp new_mins hnm hsem hps v hv hYv hvU i z (g tl z) w hi0 hi1 hz1 hz2
        hzr rfl hz4 hpy hsy (fun _ r _ _ _ => by omega) (fun h => by omega)
    exact ⟨tl', c', sets', stbl', pot, nm', w', U', wf', he, hc', hp', hnm', hsz', fun _ _ h => h,
      hbel, hes, hpsm, hgs⟩
  · have hcond : (z != rx v + 1) = true := by simp [hzx]
    rw [if_pos hcond]
    obtain ⟨pot', w1, vv, he0, hp0, hbel0, hprel⟩ :=
      lminPot_rel hc hp (rx v) (ry v) z hx1 hxy hyN (by omega) hz2 hzr hz4 hbp
        (fun pot w => lminTest bounds l i (rx v) (ry v) z (g tl z) tl c sets stbl new_mins pot w)
    rw [he0]
    have hmin : min (ry v) z ≤ z := Int.min_le_right _ _
    obtain ⟨hps', hvvx, hdom⟩ := psem_pot hs hsem.t hps hx1 hz1 hz2 hzr' hall' hmin hprel
    have hpy : g pot' (ry v) < ry v :=
      root_of_below hp0.cp (by omega) (by omega) (hbel0 (ry v) (Int.le_refl _) hbp)
    obtain ⟨tl', c', sets', stbl', nm', w', U', wf', he, hc', hp', hnm', hsz', hbel, hes, hpsm, hgs⟩ :=
      lminTest_sem hb hl hctx hc hp0 new_mins hnm hsem hps' v hv hYv hvU i z (g tl z)
        (min (ry v) z) hi0 hi1 hz1 hz2 hzr rfl hz4 hpy hsy
        (fun hzy => by
          have e : min (ry v) z = z := Int.min_eq_right hzy
          rw [e] at hprel
          exact potrel_low hp0.cp (by omega) hprel)
        (fun hyz => by
          have e : min (ry v) z = ry v := Int.min_eq_left (by omega)
          rw [e] at hprel
          rw [hprel.wv]
          exact ⟨hvvx, hdom (ry v) (by omega) hyz⟩)
    exact ⟨tl', c', sets', stbl', pot', nm', w', U', wf', he, hc', hp', hnm', hsz', hbel0, hbel,
      hes, hpsm, hgs⟩

/-! ### the main loop -/

/-- what the main loop of `filter_lower_min` leaves behind (semantic version of `MPost`) -/
structure MSemPost (N : Int) (sz : Nat) (n : Int) (Kf rx ry : Int → Int) (msv : Array Int)
    (s : MSt) (U : List Int) (Y : Int) (wf : Int → Int) : Prop where
  core : MCore N sz Kf s.1 s.2.1 s.2.2.1
  pot : MPot N sz s.1 s.2.2.2.2.1 s.2.2.2.1
  nn : (s.2.2.2.2.2.1.size : Int) = n
  nm : NMOk N s.2.2.2.2.2.1
  usub : U.Sublist msv.toList
  esem : ESem N Kf rx ry msv.toList msv.toList U Y (tlg s.1) (dfc Kf s.2.1) (g s.2.2.1) wf
  psem : PSem N Kf rx ry msv.toList U (g s.2.2.2.2.1) (g s.2.2.2.1)
  link : ∀ i', 0 ≤ i' → i' < n → g msv i' ∈ U → g s.2.2.2.2.2.1 i' = wf (g msv i')

theorem lminLoop_sem {N : Int} {sz : Nat} {bounds : Array Int} {l : PSum} {fv m : Int}
    {tl c sets pot stbl : Array Int} {rx ry : Int → Int} (hb : BC bounds N fv m) (hl : PS l fv m)
    (ranks : Arr2) (msv : Array Int) (hrx : ∀ u, (g2 ranks u).1 = rx u)
    (hry : ∀ u, (g2 ranks u).2 = ry u)
    (hctx : WCtx N (K l fv bounds) rx ry msv.toList)
    (hc : MCore N sz (K l fv bounds) tl c sets) (hp : MPot N sz tl pot stbl)
    (hbel : ∀ Y, MBelow N pot Y ∧ MBelow N stbl Y) (wf0 : Int → Int)
    (hsem : ESem N (K l fv bounds) rx ry msv.toList [] [] 0 (tlg tl) (dfc (K l fv bounds) c)
      (g sets) wf0)
    (hps : PSem N (K l fv bounds) rx ry [] [] (g pot) (g stbl))
    (n : Int) (new_mins : Array Int) (w : Int)
    (hn : n = msv.size) (hnn : (new_mins.size : Int) = n) (hnm : NMOk N new_mins)
    (hmsv : ∀ i : Int, 0 ≤ i → i < n → 0 ≤ g msv i ∧ g msv i < (ranks.size : Int))
    (hnodup : msv.toList.Nodup)
    (hsorted : ∀ i i' : Int, 0 ≤ i → i ≤ i' → i' < n →
      (g2 ranks (g msv i)).2 ≤ (g2 ranks (g msv i')).2) :
    ∃ s, forIn (rangeUp 0 msv.size) ((tl, c, sets, stbl, pot, new_mins, w) : MSt)
        (lminBody bounds ranks msv l) = .ok s ∧
      ∃ U Y wf, MSemPost N sz n (K l fv bounds) rx ry msv s U Y wf := by
  refine forIn_list_except
    (Inv := fun rest (s : MSt) => ∃ (i : Int) (P U : List Int) (Y : Int) (wf : Int → Int),
      rest = rangeUp i msv.size ∧ 0 ≤ i ∧ i ≤ n ∧ P = msv.toList.take i.toNat ∧
      MCore N sz (K l fv bounds) s.1 s.2.1 s.2.2.1 ∧ MPot N sz s.1 s.2.2.2.2.1 s.2.2.2.1 ∧
      NMOk N s.2.2.2.2.2.1 ∧ (s.2.2.2.2.2.1.size : Int) = n ∧
      (∀ i' : Int, i ≤ i' → i' < n →
        MBelow N s.2.2.2.2.1 (ry (g msv i')) ∧ MBelow N s.2.2.2.1 (ry (g msv i'))) ∧
      U.Sublist P ∧
      ESem N (K l fv bounds) rx ry msv.toList P U Y (tlg s.1) (dfc (K l fv bounds) s.2.1)
        (g s.2.2.1) wf ∧
      PSem N (K l fv bounds) rx ry P U (g s.2.2.2.2.1) (g s.2.2.2.1) ∧
      (∀ i' : Int, i ≤ i' → i' < n → Y ≤ ry (g msv i')) ∧
      (∀ i', 0 ≤ i' → i' < i → g msv i' ∈ U → g s.2.2.2.2.2.1 i' = wf (g msv i')))
    _ _ ?_ ?_ _ _ ?_
  · rintro x rest ⟨tl1, c1, sets1, stbl1, pot1, nm1, w1⟩
      ⟨i, P, U, Y, wf, hr, hi0, hin, hP, hc1, hp1, hnm1, hnn1, hbel1, husub, hes, hpsm, hY, hlink⟩
    obtain ⟨hlt, hx, hrest⟩ := rangeUp_eq_cons i msv.size x rest hr
    subst hx
    simp only at hc1 hp1 hnm1 hnn1 hbel1 hes hpsm hlink
    left
    have hv := hmsv x hi0 (by omega)
    have hbx := hbel1 x (Int.le_refl _) (by omega)
    have hvall : g msv x ∈ msv.toList := g_mem_toList msv x hi0 hlt
    have hvP : g msv x ∉ P := by rw [hP]; exact g_not_mem_take msv hnodup x hi0 hlt
    have hvU : g msv x ∉ U := fun h => hvP (husub.subset h)
    obtain ⟨tl', c', sets', stbl', pot', nm', w', U', wf', he, hc', hp', hnm', hsz', hbp, hbs, hes',
        hps', hgs⟩ :=
      lminBody_sem hb hl hctx hc1 hp1 nm1 hnm1 hes hpsm ranks msv hrx hry x w1 (g msv x) hi0
        (by omega) hlt rfl hv.1 hv.2 hvall (hY x (Int.le_refl _) (by omega)) hvU hbx.1 hbx.2
    have hsrt : ∀ i' : Int, x + 1 ≤ i' → i' < n → ry (g msv x) ≤ ry (g msv i') := by
      intro i' h1 h2
      have hs := hsorted x i' hi0 (by omega) h2
      rw [hry, hry] at hs; exact hs
    refine ⟨_, he, x + 1, P ++ [g msv x], U', ry (g msv x), wf', hrest, by omega, by omega, ?_, hc',
      hp', hnm', by simp only; omega, ?_, ?_, hes', hps', hsrt, ?_⟩
    · rw [take_succ_g msv x hi0 hlt, hP]
    · intro i' h1 h2
      have := hbel1 i' (by omega) h2
      exact ⟨hbp _ (hsrt i' h1 h2) this.1, hbs _ (hsrt i' h1 h2) this.2⟩
    · rcases hgs with ⟨e1, _, _⟩ | ⟨wn, e1, _, _⟩
      · rw [e1]; exact husub.trans (List.sublist_append_left _ _)
      · rw [e1]; exact List.Sublist.append husub (List.Sublist.refl _)
    · intro i' h0 h1 hmem
      simp only
      rcases hgs with ⟨e1, e2, e3⟩ | ⟨wn, e1, e2, e3⟩
      · rw [e1] at hmem
        rw [e2, e3]
        by_cases hi' : i' = x
        · subst hi'; exact absurd hmem hvU
        · exact hlink i' h0 (by omega) hmem
      · rw [e1] at hmem
        rw [e2, e3]
        by_cases hi' : i' = x
        · subst hi'; rw [g_upd_same nm1 i' wn h0 (by omega)]; simp
        · have hne : g msv i' ≠ g msv x :=
            fun h => hi' (g_inj msv hnodup i' x h0 (by omega) hi0 hlt h)
          rw [g_upd_ne nm1 x wn i' hi0 (by omega) h0 hi']
          simp only [hne, if_false]
          have hU : g msv i' ∈ U := by
            rcases List.mem_append.1 hmem with h | h
            · exact h
            · simp at h; exact absurd h hne
          exact hlink i' h0 (by omega) hU
  · rintro ⟨tl1, c1, sets1, stbl1, pot1, nm1, w1⟩
      ⟨i, P, U, Y, wf, hr, hi0, hin, hP, hc1, hp1, hnm1, hnn1, hbel1, husub, hes, hpsm, hY, hlink⟩
    simp only at hc1 hp1 hnm1 hnn1 hbel1 hes hpsm hlink
    have hi : i = n := by
      by_cases h : i < msv.size
      · rw [rangeUp_cons i msv.size h] at hr; cases hr
      · omega
    subst hi
    rw [take_all msv i hn] at hP
    subst hP
    exact ⟨U, Y, wf, hc1, hp1, hnn1, hnm1, husub, hes, hpsm, hlink⟩
  · exact ⟨0, [], [], 0, wf0, rfl, Int.le_refl _, by omega, by simp, hc, hp, hnm, hnn,
      fun i' _ _ => ⟨(hbel _).1, (hbel _).2⟩, List.Sublist.refl _, hsem, hps,
      fun i' h0 h1 => by
        have := hmsv i' h0 h1
        have := (hctx.rk _ (g_mem_toList msv i' h0 (by omega))).1
        have := (hctx.rk _ (g_mem_toList msv i' h0 (by omega))).2.1
        omega,
      fun i' h0 h1 => by omega⟩

/-! ### the two closing loops -/

/-- what the linear-time compression says about the node `k` -/
def CompFact (bf : Int → Int) (N : Int) (a : Array Int) (k : Int) : Prop :=
  (bf k < k → g a k = bf k) ∧
  (bf k > k → k < g a k ∧ g a k ≤ N ∧ bf (g a k) < g a k ∧
    ∀ m', k ≤ m' → m' < g a k → bf m' > m')

theorem lminComp_sem (N : Int) (sz : Nat) (stbl : Array Int) (w : Int) (hs : stbl.size = sz)
    (hN : N < sz) (hc : LChain (g stbl) N) :
    ∃ s, forIn (rangeDown N 0) (stbl, w) lminComp = .ok s ∧ s.1.size = sz ∧
      ∀ k, 1 ≤ k → k ≤ N → CompFact (g stbl) N s.1 k := by
  refine forIn_list_except
    (Inv := fun rest (s : Array Int × Int) => ∃ i, rest = rangeDown i 0 ∧ 0 ≤ i ∧ i ≤ N ∧
      s.1.size = sz ∧ (∀ k, 0 ≤ k → k ≤ i → g s.1 k = g stbl k) ∧
      (∀ k, i < k → k ≤ N → CompFact (g stbl) N s.1 k) ∧
      (i < N → i < s.2 ∧ s.2 ≤ N ∧ g stbl s.2 < s.2 ∧ ∀ m', i < m' → m' < s.2 → g stbl m' > m'))
    _ _ ?_ ?_ _ _ ?_
  · rintro x rest ⟨a, w⟩ ⟨i, hr, hi0, hiN, hsa, hlow, hup, hw⟩
    obtain ⟨hlt, hx, hrest⟩ := rangeDown_eq_cons i 0 x rest hr
    subst hx
    simp only at hsa hlow hup hw
    left
    have hax := hlow x (by omega) (Int.le_refl _)
    have hrng := hc.rng x (by omega) hiN
    unfold lminComp
    simp only []
    rw [rd_ok a x (by omega) (by omega), ok_bind]
    by_cases hgt : g a x > x
    · rw [if_pos hgt, wr_ok a x w (by omega) (by omega), ok_bind]
      have hxN : x < N := by
        by_cases h : x < N
        · exact h
        · have : x = N := by omega
          have := hc.top
          rw [← ‹x = N›, ← hax] at this
          omega
      obtain ⟨w1, w2, w3, w4⟩ := hw hxN
      refine ⟨_, rfl, x - 1, hrest, by omega, by omega, by simp [hsa], ?_, ?_, ?_⟩
      · intro k h0 h1
        simp only
        rw [g_upd_ne a x w k (by omega) (by omega) h0 (by omega)]
        exact hlow k h0 (by omega)
      · intro k h0 h1
        simp only
        by_cases hkx : k = x
        · subst hkx
          refine ⟨fun h => by omega, fun _ => ?_⟩
          rw [g_upd_same a k w (by omega) (by omega)]
          refine ⟨w1, w2, w3, ?_⟩
          intro m' h2 h3
          by_cases hm : m' = k
          · rw [hm, ← hax]; exact hgt
          · exact w4 m' (by omega) h3
        · have := hup k (by omega) h1
          unfold CompFact at this ⊢
          rw [g_upd_ne a x w k (by omega) (by omega) (by omega) hkx]
          exact this
      · intro _
        simp only
        refine ⟨by omega, w2, w3, ?_⟩
        intro m' h2 h3
        by_cases hm : m' = x
        · rw [hm, ← hax]; exact hgt
        · exact w4 m' (by omega) h3
    · rw [if_neg hgt]
      refine ⟨_, rfl, x - 1, hrest, by omega, by omega, hsa, ?_, ?_, ?_⟩
      · intro k h0 h1
        exact hlow k h0 (by omega)
      · intro k h0 h1
        simp only
        by_cases hkx : k = x
        · subst hkx
          exact ⟨fun _ => hax, fun h => by omega⟩
        · exact hup k (by omega) h1
      · intro _
        simp only
        exact ⟨by omega, hiN, by omega, fun m' h2 h3 => by omega⟩
  · rintro ⟨a, w⟩ ⟨i, hr, hi0, hiN, hsa, hlow, hup, hw⟩
    simp only at hsa hlow hup hw
    have hi : i = 0 := by
      by_cases h : 0 < i
      · rw [rangeDown_cons i 0 h] at hr; cases hr
      · omega
    subst hi
    exact ⟨hsa, fun k h1 h2 => hup k (by omega) h2⟩
  · exact ⟨N, rfl, by have := hc.hN; omega, Int.le_refl _, hs, fun _ _ _ => rfl,
      fun k h1 h2 => by omega, fun h => by omega⟩

/-- the shrink test of the final loop for the variable at position `i` -/
def ShrinkC (ranks : Arr2) (msv stbl : Array Int) (i : Int) : Prop :=
  g stbl (g2 ranks (g msv i)).1 ≤ (g2 ranks (g msv i)).1 ∨
    (g2 ranks (g msv i)).2 > g stbl (g2 ranks (g msv i)).1

/-- what the final loop says about the variable at position `i` -/
def DomFact (bounds : Array Int) (l : PSum) (ranks : Arr2) (msv : Array Int) (dom0 : Arr2)
    (stbl nm : Array Int) (d : Arr2) (i : Int) : Prop :=
  (g2 d (g msv i)).2 = (g2 dom0 (g msv i)).2 ∧
  (ShrinkC ranks msv stbl i →
    skip_non_null_elements_right l (g bounds (g nm i)) = .ok (g2 d (g msv i)).1) ∧
  (¬ ShrinkC ranks msv stbl i → (g2 d (g msv i)).1 = (g2 dom0 (g msv i)).1)

theorem lminShrink_sem {N : Int} {bounds : Array Int} {l : PSum} {fv m : Int}
    (hb : BC bounds N fv m) (hl : PS l fv m) (n : Int) (ranks domains : Arr2) (msv stbl nm : Array Int)
    (hn : n = msv.size) (hnn : (nm.size : Int) = n) (hnm : NMOk N nm) (hsb : N < stbl.size)
    (hrs : ranks.size = domains.size)
    (hmsv : ∀ i : Int, 0 ≤ i → i < n → 0 ≤ g msv i ∧ g msv i < (domains.size : Int))
    (hranks : ∀ v : Int, 0 ≤ v → v < ranks.size → 1 ≤ (g2 ranks v).1 ∧ (g2 ranks v).1 < N)
    (hnodup : msv.toList.Nodup) :
    ∃ d', forIn (rangeDown (n - 1) (-1)) domains (lminShrink bounds ranks msv l stbl nm) = .ok d' ∧
      d'.size = domains.size ∧
      ∀ i, 0 ≤ i → i < n → DomFact bounds l ranks msv domains stbl nm d' i := by
  have hbsz := hb.hsz
  refine forIn_list_except
    (Inv := fun rest (d : Arr2) => ∃ i, rest = rangeDown i (-1) ∧ i < n ∧ -1 ≤ i ∧
      d.size = domains.size ∧
      (∀ i', i < i' → i' < n → DomFact bounds l ranks msv domains stbl nm d i') ∧
      (∀ i', 0 ≤ i' → i' ≤ i → g2 d (g msv i') = g2 domains (g msv i')))
    _ _ ?_ ?_ _ _ ?_
  · rintro x rest d ⟨i, hr, hin, hi1, hsd, hdone, hkeep⟩
    obtain ⟨hlt, hx, hrest⟩ := rangeDown_eq_cons i (-1) x rest hr
    subst hx
    left
    have hv := hmsv x (by omega) hin
    have hr1 := hranks _ hv.1 (by omega)
    have hdx := hkeep x (by omega) (Int.le_refl _)
    unfold lminShrink
    rw [rd_ok msv x (by omega) (by omega), ok_bind, rd2_min_ok ranks _ hv.1 (by omega), ok_bind,
      rd2_max_ok ranks _ hv.1 (by omega), ok_bind,
      rd_ok stbl _ (by omega) (by omega), ok_bind, ok_bind]
    by_cases hcond : ShrinkC ranks msv stbl x
    · have hcond' := hcond
      unfold ShrinkC at hcond'
      rw [if_pos hcond']
      have hk := hnm x.toNat (by omega) (by omega)
      rw [Int.toNat_of_nonneg (by omega)] at hk
      have hrg := hb.range (g nm x) hk.1 hk.2
      obtain ⟨r, hsk⟩ := skip_right_ok hl (g bounds (g nm x)) (by omega) (by omega)
      rw [rd_ok nm x (by omega) (by omega), ok_bind, rd_ok bounds _ hk.1 (by omega), ok_bind, hsk,
        ok_bind, wr2_ok d _ MIN r hv.1 (by omega), ok_bind]
      have hoth : ∀ i', 0 ≤ i' → i' < n → i' ≠ x →
          g2 (upd2 d (g msv x) MIN r) (g msv i') = g2 d (g msv i') := by
        intro i' h0 h1 hne
        have hv' := hmsv i' h0 h1
        have hvne : g msv i' ≠ g msv x :=
          fun h => hne (g_inj msv hnodup i' x h0 (by omega) (by omega) (by omega) h)
        rw [g2_upd2 d (g msv x) MIN r (g msv i') hv.1 (by omega) hv'.1, if_neg hvne]
      have hself : g2 (upd2 d (g msv x) MIN r) (g msv x) = (r, (g2 d (g msv x)).2) := by
        rw [g2_upd2 d (g msv x) MIN r (g msv x) hv.1 (by omega) hv.1]
        simp [MIN]
      refine ⟨_, rfl, x - 1, hrest, by omega, by omega, by simp [hsd], ?_, ?_⟩
      · intro i' h0 h1
        by_cases hix : i' = x
        · subst hix
          unfold DomFact
          rw [hself]
          exact ⟨by simp only; rw [hdx], fun _ => hsk, fun h => absurd hcond h⟩
        · have := hdone i' (by omega) h1
          unfold DomFact at this ⊢
          rw [hoth i' (by omega) h1 hix]
          exact this
      · intro i' h0 h1
        rw [hoth i' h0 (by omega) (by omega)]
        exact hkeep i' h0 (by omega)
    · have hcond' := hcond
      unfold ShrinkC at hcond'
      rw [if_neg hcond']
      refine ⟨_, rfl, x - 1, hrest, by omega, by omega, hsd, ?_, ?_⟩
      · intro i' h0 h1
        by_cases hix : i' = x
        · subst hix
          unfold DomFact
          rw [hdx]
          exact ⟨rfl, fun h => absurd h hcond, fun _ => rfl⟩
        · exact hdone i' (by omega) h1
      · intro i' h0 h1
        exact hkeep i' h0 (by omega)
  · rintro d ⟨i, hr, hin, hi1, hsd, hdone, hkeep⟩
    have hi : i = -1 := by
      by_cases h : -1 < i
      · rw [rangeDown_cons i (-1) h] at hr; cases hr
      · omega
    subst hi
    exact ⟨hsd, fun i' h0 h1 => hdone i' (by omega) h1⟩
  · exact ⟨n - 1, rfl, by omega, by omega, rfl, fun i' h0 h1 => by omega, fun _ _ _ => rfl⟩

/-! ### the whole pass -/

/-- the semantic theorem of `filter_lower_min`: the pass returns a result (with the sizes of
    `filter_lower_min_spec`) and leaves behind the state described by `LMinOut` -/
theorem filter_lower_min_sem {N : Int} {sz : Nat} {bounds : Array Int} {l : PSum} {fv m : Int}
    (hb : BC bounds N fv m) (hl : PS l fv m) (n : Int) (tl c sets : Array Int)
    (domains ranks : Arr2) (msv stbl pot new_mins : Array Int)
    (hst : tl.size = sz) (hsc : c.size = sz) (hss : sets.size = sz) (hsb : stbl.size = sz)
    (hsp : pot.size = sz) (hNsz : N < sz) (hrs : ranks.size = domains.size)
    (hn : n = msv.size) (hnn : (new_mins.size : Int) = n) (hnm : NMOk N new_mins)
    (hmsv : ∀ i : Int, 0 ≤ i → i < n → 0 ≤ g msv i ∧ g msv i < (domains.size : Int))
    (hranks : ∀ v : Int, 0 ≤ v → v < ranks.size →
      1 ≤ (g2 ranks v).1 ∧ (g2 ranks v).1 < (g2 ranks v).2 ∧ (g2 ranks v).2 < N)
    (hnodup : msv.toList.Nodup)
    (hsorted : ∀ i i' : Int, 0 ≤ i → i ≤ i' → i' < n →
      (g2 ranks (g msv i)).2 ≤ (g2 ranks (g msv i')).2) :
    ∃ r, filter_lower_min n (N - 1) tl c sets bounds domains ranks msv l stbl pot new_mins = .ok r ∧
      (r.1 = true → r.2.1.size = sz ∧ r.2.2.1.size = sz ∧ r.2.2.2.1.size = sz ∧
        r.2.2.2.2.1.size = domains.size ∧ r.2.2.2.2.2.1.size = sz ∧
        (r.2.2.2.2.2.2.2.size : Int) = n ∧ NMOk N r.2.2.2.2.2.2.2) ∧
      ∃ U sf bf wf, LMinOut N n (K l fv bounds) bounds l ranks msv domains r.1
        r.2.2.2.2.2.1 r.2.2.2.2.2.2.2 r.2.2.2.2.1 U sf bf wf := by
  have hN := hb.hN
  rw [filter_lower_min_eq]
  have hNN : N - 1 + 1 = N := by omega
  rw [hNN]
  obtain ⟨s1, s2, he1, he2, hc, hp, hbel, htl, hsets, hpot, hstb⟩ :=
    lminInit_sem hb hl tl c sets stbl pot hst hsc hss hsb hsp hNsz
  rw [he1, ok_bind, he2, ok_bind]
  have hctx : WCtx N (K l fv bounds) (fun v => (g2 ranks v).1) (fun v => (g2 ranks v).2)
      msv.toList :=
    wctx_of hb hl ranks msv domains.size hrs (fun i h0 h1 => hmsv i h0 (by omega)) hranks
  have hKb := K_bot hl hb
  have hsem0 : ESem N (K l fv bounds) (fun v => (g2 ranks v).1) (fun v => (g2 ranks v).2)
      msv.toList [] [] 0 (tlg s2.1) (dfc (K l fv bounds) s1.1) (g s1.2.1) (fun _ => 0) := by
    refine esem_init hctx ?_ hsets
    intro z h1 h2 h3
    by_cases hz : z ≤ 1
    · have hz1 : z = 1 := by omega
      subst hz1
      rw [tlg_le1 s2.1 1 (by omega), dfc_le1 _ s1.1 1 (by omega)]
      refine ⟨rfl, ?_⟩
      intro k hk1 hk2
      have : k = 0 := by omega
      rw [this]; exact Int.le_refl _
    · rw [tlg_ge2 s2.1 z (by omega)] at h3 ⊢
      rw [dfc_ge2 _ s1.1 z (by omega)]
      obtain ⟨t1, t2, t3⟩ := htl z (by omega) h2 h3
      exact ⟨t2, fun k hk1 hk2 => by rw [t3 k hk1 hk2]; exact Int.le_refl _⟩
  have hps0 : PSem N (K l fv bounds) (fun v => (g2 ranks v).1) (fun v => (g2 ranks v).2)
      [] [] (g s1.2.2.2.1) (g s1.2.2.1) := psem_init hctx hpot hstb
  obtain ⟨s3, he3, U, Y, wf, hpost⟩ :=
    lminLoop_sem hb hl ranks msv (fun _ => rfl) (fun _ => rfl) hctx hc hp hbel (fun _ => 0) hsem0
      hps0 n new_mins s2.2 hn hnn hnm (fun i h0 h1 => by have := hmsv i h0 h1; omega) hnodup hsorted
  rw [he3, ok_bind]
  obtain ⟨tl3, c3, sets3, stbl3, pot3, nm3, w3⟩ := s3
  obtain ⟨hc3, hp3, hnn3, hnm3, husub, hes, hpsm, hlink⟩ := hpost
  simp only at hc3 hp3 hnn3 hnm3 hes hpsm hlink ⊢
  have hss3 := hc3.ss
  rw [rd_ok sets3 (N - 1) (by omega) (by omega), ok_bind]
  by_cases hfail : (g sets3 (N - 1) != 0) = true
  · rw [if_pos hfail]
    have hne : g sets3 (N - 1) ≠ 0 := by simpa using hfail
    refine ⟨_, rfl, fun h => by simp at h, U, g sets3, g stbl3, wf, ?_⟩
    exact ⟨⟨Y, _, _, hes⟩, ⟨_, hpsm⟩, hc3.cs, hp3.cb, husub, ⟨fun _ => hne, fun _ => rfl⟩,
      (fun h => by cases h), (fun h => by cases h), (fun h => by cases h), (fun h => by cases h)⟩
  · rw [if_neg hfail]
    have heq : g sets3 (N - 1) = 0 := by simpa using hfail
    obtain ⟨s4, he4, hs4, hcomp⟩ := lminComp_sem N sz stbl3 w3 hp3.sb hNsz hp3.cb
    rw [he4, ok_bind]
    obtain ⟨d5, he5, hs5, hdom⟩ := lminShrink_sem hb hl n ranks domains msv s4.1 nm3 hn hnn3 hnm3
      (by omega) hrs hmsv (fun v h0 h1 => by have := hranks v h0 h1; omega) hnodup
    rw [he5, ok_bind]
    refine ⟨_, rfl, fun _ => ⟨hc3.st, hc3.sc, hc3.ss, hs5, hs4, hnn3, hnm3⟩, U, g sets3, g stbl3,
      wf, ?_⟩
    exact ⟨⟨Y, _, _, hes⟩, ⟨_, hpsm⟩, hc3.cs, hp3.cb, husub,
      ⟨(fun h => by cases h), fun h => absurd heq h⟩, fun _ k h1 h2 => hcomp k h1 h2,
      fun _ => hlink, fun _ => hs5, fun _ i h0 h1 => hdom i h0 h1⟩

end Gcc
end Nucs
