import NucsProofs.Propagators.GccSoundLVal
import NucsProofs.Propagators.GccSoundLMinOut
import NucsProofs.Propagators.GccSoundUMinDefs
import NucsProofs.Propagators.GccSoundPsum
/-!
  Semantic soundness of the ported gcc — what the final states `LMinOut` / `UMinOut` of the two
  lower-capacity passes mean for an arbitrary solution `τ` (given through `LCtx`):
  * `lmin_fail_sound`  : `filter_lower_min` does not fail when a solution exists;
  * `lmin_prune_sound` : the new minima are lower bounds of every solution;
  * `umin_prune_sound` : the new maxima written by `filter_upper_min` are upper bounds.
-/
namespace Nucs
namespace Gcc
open AllDiff (g g2 cinR Oth LChain mbd)

/-- the prefix sums of a partial-sum structure as a function of the value -/
def cumOf (P : PSum) (fv : Int) : Int → Int := fun v => g P.1 (v - fv + 2)

theorem K_cumOf (P : PSum) (fv : Int) (bounds : Array Int) (i : Int) :
    K P fv bounds i = cumOf P fv (g bounds i) := rfl

theorem cumOf_succ (P : PSum) (fv v : Int) : cumOf P fv (v + 1) - cumOf P fv v = cap P fv v := by
  unfold cumOf
  rw [cum_succ v]; omega

theorem g_mem_toListV (a : Array Int) (i : Int) (h0 : 0 ≤ i) (h1 : i < a.size) :
    g a i ∈ a.toList := by
  have h : i.toNat < a.size := by omega
  have : g a i = a[i.toNat] := by simp [g, h]
  rw [this]
  exact Array.getElem_mem_toList h

section lmin
variable {N n : Int} {bounds : Array Int} {l : PSum} {fv m : Int} {ranks : Arr2} {msv : Array Int}
  {dom0 : Arr2} {ok : Bool} {stbl' nm' : Array Int} {dom' : Arr2} {U : List Int}
  {sf bf wf : Int → Int} {lo hi τ : Int → Int}

theorem lfin_of_out (hb : BC bounds N fv m) (hl : PS l fv m)
    (hout : LMinOut N n (K l fv bounds) bounds l ranks msv dom0 ok stbl' nm' dom' U sf bf wf)
    (hnodup : msv.toList.Nodup)
    (hrk : ∀ u ∈ msv.toList, 1 ≤ (g2 ranks u).1 ∧ (g2 ranks u).1 < (g2 ranks u).2 ∧
      (g2 ranks u).2 < N) :
    LFin N (K l fv bounds) (fun v => (g2 ranks v).1) (fun v => (g2 ranks v).2) msv.toList U bf := by
  obtain ⟨Y, tf, df, hsem⟩ := hout.sem
  obtain ⟨pf, hpsem⟩ := hout.psem
  refine ⟨⟨hb.hN, fun i j h0 hij hj => K_mono hl hb i j h0 hij hj, hrk⟩, hnodup,
    hout.usub.nodup hnodup, fun u hu => hout.usub.subset hu, ?_, hout.cb, hsem.s2r, hpsem.e,
    fun p hp hpU => hpsem.f p hp hpU⟩
  have := K_top hl hb
  omega

/-- the test of the shrinking loops recognises exactly the variables that are not stable -/
theorem cond_iff_not_stv (hok : ok = true)
    (hout : LMinOut N n (K l fv bounds) bounds l ranks msv dom0 ok stbl' nm' dom' U sf bf wf)
    (x y : Int) (hx1 : 1 ≤ x) (hxy : x < y) (hyN : y < N) :
    (g stbl' x ≤ x ∨ y > g stbl' x) ↔ ¬ (∀ k, x ≤ k → k < y → bf k > k) := by
  have hs := hout.stbl hok x hx1 (by omega)
  have hrng := hout.cb.rng x hx1 (by omega)
  constructor
  · intro hc hst
    have hbx := hst x (Int.le_refl _) hxy
    obtain ⟨s1, s2, s3, s4⟩ := hs.2 hbx
    rcases hc with hc | hc
    · omega
    · -- the root `stbl'[x]` lies in `[x, y)`, but all those nodes point up
      have := hst (g stbl' x) (by omega) hc
      omega
  · intro hns
    by_cases hbx : bf x > x
    · obtain ⟨s1, s2, s3, s4⟩ := hs.2 hbx
      right
      by_cases hc : y > g stbl' x
      · exact hc
      · exfalso
        exact hns (fun k h1 h2 => s4 k h1 (by omega))
    · left
      have := hs.1 (by omega)
      omega

theorem lmin_fail_sound (hb : BC bounds N fv m) (hl : PS l fv m)
    (hout : LMinOut N n (K l fv bounds) bounds l ranks msv dom0 ok stbl' nm' dom' U sf bf wf)
    (hnodup : msv.toList.Nodup)
    (hx : LCtx N (K l fv bounds) (g bounds) (fun v => (g2 ranks v).1) (fun v => (g2 ranks v).2)
      msv.toList lo hi τ (cumOf l fv)) : ok = true := by
  have hfin := lfin_of_out hb hl hout hnodup hx.rk
  obtain ⟨_, _, t3⟩ := lfin_tight hfin (cellSol hx)
  obtain ⟨Y, tf, df, hsem⟩ := hout.sem
  have hN := hb.hN
  have hUr : ∀ u ∈ U, (g2 ranks u).2 < N := fun u hu => (hx.rk u (hout.usub.subset hu)).2.2
  have hUr2 : ∀ u ∈ U, (g2 ranks u).1 < (g2 ranks u).2 :=
    fun u hu => (hx.rk u (hout.usub.subset hu)).2.1
  have htop := K_top hl hb
  have hbot := K_bot hl hb
  -- node `N - 1` is a root of `sets`
  have hroot : sf (N - 1) < N - 1 := by
    have hrng := hout.cs.rng (N - 1) (by omega) (by omega)
    by_cases hc : sf (N - 1) < N - 1
    · exact hc
    · exfalso
      obtain ⟨ja, j1, j2, j3⟩ := hsem.s3 (N - 1) N (by omega) (by omega) (Int.le_refl _) hout.cs.top
        (fun k h1 h2 => by
          have : k = N - 1 := by omega
          rw [this]; omega)
      rw [cinR_top hUr] at j3
      by_cases hj : ja < N - 1
      · have := hsem.s2r ja (N - 1) j1 hj (by omega); omega
      · have : ja = N - 1 := by omega
        rw [this, cinR_void hUr2 (Int.le_refl _)] at j3
        omega
  by_cases hok : ok = true
  · exact hok
  · exfalso
    have hok' : ok = false := by cases ok <;> simp_all
    have hne := hout.fail.1 hok'
    have hdn := hout.cs.down (N - 1) (by omega) (by omega) hroot
    have hrng := hout.cs.rng (N - 1) (by omega) (by omega)
    rcases hdn.2 with h0 | h0
    · exact hne h0
    · by_cases h2 : (1 : Int) < N - 1
      · have := hsem.s4 1 (N - 1) (Int.le_refl _) h2 (by omega) t3 (sf (N - 1)) (by omega) hroot
        omega
      · omega

/-- the new minimum of `filter_lower_min` is a lower bound of every solution -/
theorem lmin_prune_sound (hb : BC bounds N fv m) (hl : PS l fv m) (hds : DSSem l m)
    (hout : LMinOut N n (K l fv bounds) bounds l ranks msv dom0 ok stbl' nm' dom' U sf bf wf)
    (hok : ok = true) (hn : n = msv.size) (hnodup : msv.toList.Nodup)
    (hx : LCtx N (K l fv bounds) (g bounds) (fun v => (g2 ranks v).1) (fun v => (g2 ranks v).2)
      msv.toList lo hi τ (cumOf l fv))
    (i : Int) (hi0 : 0 ≤ i) (hin : i < n) (hprev : (g2 dom0 (g msv i)).1 ≤ τ (g msv i)) :
    (g2 dom' (g msv i)).1 ≤ τ (g msv i) ∧
      (lo (g msv i) ≤ (g2 dom0 (g msv i)).1 → lo (g msv i) ≤ (g2 dom' (g msv i)).1) := by
  have hfin := lfin_of_out hb hl hout hnodup hx.rk
  have hmem : g msv i ∈ msv.toList := g_mem_toListV msv i hi0 (by omega)
  generalize hv : g msv i = v at hmem hprev
  obtain ⟨_, hyes, hno⟩ := hout.dom hok i hi0 hin
  rw [hv] at hyes hno
  obtain ⟨hr1, hr2, hr3⟩ := hx.rk v hmem
  by_cases hc : g stbl' (g2 ranks v).1 ≤ (g2 ranks v).1 ∨ (g2 ranks v).2 > g stbl' (g2 ranks v).1
  · have hsk := hyes hc
    have hns : ¬ StV bf (fun v => (g2 ranks v).1) (fun v => (g2 ranks v).2) v :=
      (cond_iff_not_stv hok hout _ _ hr1 hr2 hr3).1 hc
    have hvU : v ∈ U := by
      by_cases h : v ∈ U
      · exact h
      · exact absurd (hfin.f v hmem h) hns
    have hnm := hout.nm hok i hi0 hin (by rw [hv]; exact hvU)
    rw [hv] at hnm
    obtain ⟨Y, tf, df, hsem⟩ := hout.sem
    have hnf := hsem.nmf v hvU
    simp only [NMFact] at hnf
    obtain ⟨w1, w2, w3⟩ := hnf
    obtain ⟨d1, d2, d3, d4⟩ := cell_dom hx v hmem
    have hκ : wf v ≤ cellOf N (g bounds) τ v := by
      rcases w3 with w3 | ⟨ja, j1, j2, j3⟩
      · rw [w3]; exact d1
      · by_cases hw : wf v = (g2 ranks v).1
        · rw [hw]; exact d1
        · exact lfin_prune hfin (cellSol hx) U hfin.unodup hfin.usub hfin.b v ja (wf v) hvU hns j1 j2
            (by omega) w2 j3
    have hbw : g bounds (wf v) ≤ τ v := by
      have := hx.le (wf v) (cellOf N (g bounds) τ v) (by omega) hκ (by omega)
      omega
    have hrange := hb.range (wf v) (by omega) (by omega)
    have hwN : wf v ≤ N - 1 := by omega
    have hrange2 := hb.le' (wf v) (N - 1) (by omega) hwN (by omega)
    have hbnb := hb.bnb
    obtain ⟨r, hr, s1, s2, s3, s4⟩ := skip_right_sem hl hds (g bounds (wf v)) (by omega) (by omega)
    rw [hnm, hr] at hsk
    have hre : r = (g2 dom' v).1 := by injection hsk
    have hpos := nonstable_pos hx hfin v hmem hns
    rw [cumOf_succ] at hpos
    have hle1 := hx.le (g2 ranks v).1 (wf v) (by omega) w1 (by omega)
    have hlo := hx.hlo v hmem
    rw [← hre]
    refine ⟨?_, fun _ => by omega⟩
    by_cases hlt : r ≤ τ v
    · exact hlt
    · have := s3 (τ v) hbw (by omega); omega
  · rw [hno hc]; exact ⟨hprev, fun h => h⟩

end lmin

/-! ### `filter_upper_min` -/

theorem cinR_mirror (N : Int) (rx ry : Int → Int) (L : List Int) (a b : Int) :
    cinR (fun v => N - ry v) (fun v => N - rx v) L a b = cinR rx ry L (N - b) (N - a) := by
  unfold cinR
  congr 1
  apply List.countP_congr
  intro p _
  simp only [Bool.and_eq_true, decide_eq_true_eq]
  constructor
  · rintro ⟨h1, h2⟩; exact ⟨by omega, by omega⟩
  · rintro ⟨h1, h2⟩; exact ⟨by omega, by omega⟩

theorem cinR_zero_one (rx ry : Int → Int) (L : List Int) (hL : ∀ p ∈ L, 1 ≤ rx p) (b : Int) :
    cinR rx ry L 0 b = cinR rx ry L 1 b := by
  unfold cinR
  congr 1
  apply List.countP_congr
  intro p hp
  have := hL p hp
  simp only [Bool.and_eq_true, decide_eq_true_eq]
  constructor
  · rintro ⟨_, h2⟩; exact ⟨this, h2⟩
  · rintro ⟨_, h2⟩; exact ⟨by omega, h2⟩

theorem mem_rangeDown_map (msv : Array Int) (n i : Int) (hi0 : 0 ≤ i) (hin : i < n) :
    g msv i ∈ (rangeDown (n - 1) (-1)).map (g msv) := by
  rw [List.mem_map]
  refine ⟨i, ?_, rfl⟩
  rw [rangeDown_eq, AllDiff.mem_rangeDown]
  omega

section umin
variable {M n : Int} {bounds : Array Int} {l : PSum} {fv m : Int} {ranks : Arr2}
  {msvL msvU : Array Int} {allU : List Int} {dom0L domL dom0 dom' : Arr2}
  {stbl' nmL nm' : Array Int} {U U' : List Int} {sf bf wf sf' wf' : Int → Int}
  {lo hi τ : Int → Int}

/-- the used variables of `filter_upper_min` are matched injectively (unmirrored form) -/
theorem umin_matching (hb : BC bounds (M + 1) fv m) (hl : PS l fv m)
    (houtU : UMinOut M n (K l fv bounds) bounds l ranks msvU allU dom0 stbl' nm' dom' U' sf' wf')
    (hrk : ∀ u ∈ allU, 1 ≤ (g2 ranks u).1 ∧ (g2 ranks u).1 < (g2 ranks u).2 ∧
      (g2 ranks u).2 < M + 1) :
    ∀ ja yb, 1 ≤ ja → ja < yb → yb ≤ M + 1 →
      cinR (fun v => (g2 ranks v).1) (fun v => (g2 ranks v).2) U' ja yb ≤
        K l fv bounds yb - K l fv bounds ja := by
  obtain ⟨Y, tf, df, hsem⟩ := houtU.sem
  have hUr : ∀ u ∈ U', (g2 ranks u).2 < M + 1 := fun u hu => (hrk u (houtU.usub.subset hu)).2.2
  have hUr2 : ∀ u ∈ U', (g2 ranks u).1 < (g2 ranks u).2 :=
    fun u hu => (hrk u (houtU.usub.subset hu)).2.1
  have key : ∀ ja yb, 1 ≤ ja → ja < yb → yb ≤ M →
      cinR (fun v => (g2 ranks v).1) (fun v => (g2 ranks v).2) U' ja yb ≤
        K l fv bounds yb - K l fv bounds ja := by
    intro ja yb h1 h2 h3
    have := hsem.s2r (M + 1 - yb) (M + 1 - ja) (by omega) (by omega) (by omega)
    rw [cinR_mirror] at this
    simp only [mbd, Int.sub_sub_self] at this
    omega
  intro ja yb h1 h2 h3
  by_cases hyb : yb ≤ M
  · exact key ja yb h1 h2 hyb
  · have e : yb = M + 1 := by omega
    rw [e, cinR_top hUr]
    have hmono := K_mono hl hb M (M + 1) (by omega) (by omega) (Int.le_refl _)
    have e2 : M + 1 - 1 = M := by omega
    rw [e2]
    by_cases hj : ja < M
    · have := key ja M h1 hj (Int.le_refl _); omega
    · have : ja = M := by omega
      rw [this, cinR_void hUr2 (Int.le_refl _)]; omega

/-- the new maximum of `filter_upper_min` is an upper bound of every solution -/
theorem umin_prune_sound (hb : BC bounds (M + 1) fv m) (hl : PS l fv m) (hds : DSSem l m)
    (houtL : LMinOut (M + 1) n (K l fv bounds) bounds l ranks msvL dom0L true stbl' nmL domL U sf bf
      wf)
    (houtU : UMinOut M n (K l fv bounds) bounds l ranks msvU allU dom0 stbl' nm' dom' U' sf' wf')
    (hallU : allU = (rangeDown (n - 1) (-1)).map (g msvU))
    (hnodupL : msvL.toList.Nodup) (hnodupU : allU.Nodup) (hperm : allU.Perm msvL.toList)
    (hx : LCtx (M + 1) (K l fv bounds) (g bounds) (fun v => (g2 ranks v).1)
      (fun v => (g2 ranks v).2) msvL.toList lo hi τ (cumOf l fv))
    (i : Int) (hi0 : 0 ≤ i) (hin : i < n) (hprev : τ (g msvU i) ≤ (g2 dom0 (g msvU i)).2) :
    τ (g msvU i) ≤ (g2 dom' (g msvU i)).2 ∧
      ((g2 dom0 (g msvU i)).2 ≤ hi (g msvU i) → (g2 dom' (g msvU i)).2 ≤ hi (g msvU i)) := by
  have hfin := lfin_of_out hb hl houtL hnodupL hx.rk
  have hmemU : g msvU i ∈ allU := by rw [hallU]; exact mem_rangeDown_map msvU n i hi0 hin
  have hmem : g msvU i ∈ msvL.toList := hperm.mem_iff.1 hmemU
  generalize hv : g msvU i = v at hmem hmemU hprev
  obtain ⟨_, hyes, hno⟩ := houtU.dom i hi0 hin
  rw [hv] at hyes hno
  obtain ⟨hr1, hr2, hr3⟩ := hx.rk v hmem
  have hrkU : ∀ u ∈ allU, 1 ≤ (g2 ranks u).1 ∧ (g2 ranks u).1 < (g2 ranks u).2 ∧
      (g2 ranks u).2 < M + 1 := fun u hu => hx.rk u (hperm.mem_iff.1 hu)
  have hVb := umin_matching hb hl houtU hrkU
  have hVn : U'.Nodup := houtU.usub.nodup hnodupU
  have hVs : ∀ u ∈ U', u ∈ msvL.toList := fun u hu => hperm.mem_iff.1 (houtU.usub.subset hu)
  by_cases hc : g stbl' (g2 ranks v).1 ≤ (g2 ranks v).1 ∨ (g2 ranks v).2 > g stbl' (g2 ranks v).1
  · have hsk := hyes hc
    have hns : ¬ StV bf (fun v => (g2 ranks v).1) (fun v => (g2 ranks v).2) v :=
      (cond_iff_not_stv rfl houtL _ _ hr1 hr2 hr3).1 hc
    obtain ⟨d1, d2, d3, d4⟩ := cell_dom hx v hmem
    -- the variable was used by this pass
    have hvU : v ∈ U' := by
      by_cases h : v ∈ U'
      · exact h
      · exfalso
        obtain ⟨a, a1, a2, a3⟩ := houtU.uz v hmemU h
        rw [cinR_mirror] at a3
        simp only [mbd, Int.sub_sub_self] at a3
        exact zone_contra (a := (g2 ranks v).1) (w := M + 1 - a) hfin (cellSol hx) hVn hVs hVb hmem
          h hns hr1 d1 (by omega) (by omega) (by omega)
    have hnm := houtU.nm i hi0 hin (by rw [hv]; exact hvU)
    rw [hv] at hnm
    obtain ⟨Y, tf, df, hsem⟩ := houtU.sem
    have hnf := hsem.nmf v hvU
    simp only [NMFact] at hnf
    obtain ⟨w1, w2, w3⟩ := hnf
    -- `w = new_maxs[i]`, an index of `bounds`
    generalize hw : M + 1 - wf' v = w at hnm
    have hκ : cellOf (M + 1) (g bounds) τ v < w := by
      by_cases hwy : w = (g2 ranks v).2
      · rw [hwy]; exact d2
      · rcases w3 with w3 | ⟨ja, j1, j2, j3⟩
        · omega
        · rw [cinR_mirror] at j3
          simp only [mbd] at j3
          rw [hw] at j3
          have hw1 : 1 ≤ w := by
            by_cases h : 1 ≤ w
            · exact h
            · exfalso
              have hw0 : w = 0 := by omega
              rw [hw0] at j3
              have hOr : ∀ p ∈ Oth U' v, 1 ≤ (g2 ranks p).1 :=
                fun p hp => (hx.rk p (hVs p ((oth_sublist U' v).subset hp))).1
              rw [cinR_zero_one _ _ _ hOr] at j3
              have h1 := AllDiff.cinR_sublist (fun v => (g2 ranks v).1) (fun v => (g2 ranks v).2)
                (oth_sublist U' v) 1 (M + 1 - ja)
              have h2 := hVb 1 (M + 1 - ja) (Int.le_refl _) (by omega) (by omega)
              have := K_bot hl hb
              omega
          exact lfin_prune_up hfin (cellSol hx) U' hVn hVs hVb v w (M + 1 - ja) hvU hns hw1
            (by omega) (by omega) (by omega) (by omega)
    have hbw : τ v < g bounds w := by
      have := hx.le (cellOf (M + 1) (g bounds) τ v + 1) w (by omega) (by omega) (by omega)
      omega
    have hw1 : 1 ≤ w := by omega
    have hrange := hb.range w (by omega) (by omega)
    have hb1 := hb.le' 1 w (by omega) hw1 (by omega)
    have hbb1 := hb.b1
    obtain ⟨r, hr, s1, s2, s3, s4⟩ := skip_left_sem hl hds (g bounds w - 1) (by omega) (by omega)
    rw [hnm, hr] at hsk
    have hre : r = (g2 dom' v).2 := by injection hsk
    have hpos := nonstable_pos hx hfin v hmem hns
    rw [cumOf_succ] at hpos
    have hle1 := hx.le w (g2 ranks v).2 (by omega) (by omega) (by omega)
    have hhi := hx.hhi v hmem
    rw [← hre]
    refine ⟨?_, fun _ => by omega⟩
    by_cases hlt : τ v ≤ r
    · exact hlt
    · have := s3 (τ v) (by omega) (by omega); omega
  · rw [hno hc]; exact ⟨hprev, fun h => h⟩

end umin

end Gcc
end Nucs
