import NucsModel.Propagators.Alldifferent
/-!
  Base tools for the proof that the ported alldifferent never errs (C16/C04 for the raw port):
  a Hoare rule for `forIn` over a list in `Except`, total accessors and their link with the checked
  ones, and the specifications of `path_max`, `path_min`, `path_set`.
-/
namespace Nucs
namespace AllDiff

/-! ### a Hoare rule for `forIn` over a list in `Except ε` -/

theorem forIn_list_except {α β ε : Type} (Inv : List α → β → Prop) (Post : β → Prop)
    (f : α → β → Except ε (ForInStep β))
    (hstep : ∀ x rest s, Inv (x :: rest) s →
      (∃ s', f x s = .ok (.yield s') ∧ Inv rest s') ∨ (∃ s', f x s = .ok (.done s') ∧ Post s'))
    (hend : ∀ s, Inv [] s → Post s) :
    ∀ (l : List α) (s : β), Inv l s → ∃ s', forIn l s f = .ok s' ∧ Post s' := by
  intro l
  induction l with
  | nil => intro s h; exact ⟨s, rfl, hend s h⟩
  | cons x rest ih =>
    intro s h
    rw [List.forIn_cons]
    rcases hstep x rest s h with ⟨s', hf, hi⟩ | ⟨s', hf, hp⟩
    · rw [hf]; exact ih s' hi
    · rw [hf]; exact ⟨s', rfl, hp⟩

theorem ok_bind {ε α β : Type} (a : α) (k : α → Except ε β) : (Except.ok a >>= k) = k a := rfl
theorem pure_eq_ok {ε α : Type} (a : α) : (pure a : Except ε α) = Except.ok a := rfl

/-- sequencing rule -/
theorem except_bind_ok {ε α β : Type} {x : Except ε α} {k : α → Except ε β} (P : α → Prop)
    {Q : β → Prop} (hx : ∃ a, x = .ok a ∧ P a) (hk : ∀ a, P a → ∃ b, k a = .ok b ∧ Q b) :
    ∃ b, (x >>= k) = .ok b ∧ Q b := by
  obtain ⟨a, hxa, hpa⟩ := hx
  rw [hxa]; exact hk a hpa

/-- `for _ in [0:n]` is a loop over a list of length `n` -/
theorem range_forIn_eq {β ε : Type} (n : Nat) (init : β) (f : Nat → β → Except ε (ForInStep β)) :
    forIn [0:n] init f = forIn (List.range' 0 n) init f := by
  rw [Std.Legacy.Range.forIn_eq_forIn_range']
  simp [Std.Legacy.Range.size]

/-! ### Python ranges -/

theorem rangeUp_nil (a b : Int) (h : b ≤ a) : rangeUp a b = [] := by
  have : (b - a).toNat = 0 := by omega
  simp [rangeUp, this]

theorem rangeUp_cons (a b : Int) (h : a < b) : rangeUp a b = a :: rangeUp (a + 1) b := by
  have : (b - a).toNat = (b - (a + 1)).toNat + 1 := by omega
  unfold rangeUp
  rw [this, List.range_succ_eq_map]
  simp only [List.map_cons, List.map_map]
  congr 1
  · simp
  · apply List.map_congr_left
    intro k _
    simp only [Function.comp, Int.ofNat_eq_natCast, Nat.succ_eq_add_one]
    omega

theorem rangeUp_eq_cons (i hi x : Int) (rest : List Int) (h : x :: rest = rangeUp i hi) :
    i < hi ∧ x = i ∧ rest = rangeUp (i + 1) hi := by
  by_cases hlt : i < hi
  · rw [rangeUp_cons i hi hlt] at h
    injection h with h1 h2
    exact ⟨hlt, h1, h2⟩
  · rw [rangeUp_nil i hi (by omega)] at h
    cases h

theorem rangeDown_nil (a b : Int) (h : a ≤ b) : rangeDown a b = [] := by
  have : (a - b).toNat = 0 := by omega
  simp [rangeDown, this]

theorem rangeDown_cons (a b : Int) (h : b < a) : rangeDown a b = a :: rangeDown (a - 1) b := by
  have : (a - b).toNat = (a - 1 - b).toNat + 1 := by omega
  unfold rangeDown
  rw [this, List.range_succ_eq_map]
  simp only [List.map_cons, List.map_map]
  congr 1
  · simp
  · apply List.map_congr_left
    intro k _
    simp only [Function.comp, Int.ofNat_eq_natCast, Nat.succ_eq_add_one]
    omega

theorem rangeDown_eq_cons (i lo x : Int) (rest : List Int) (h : x :: rest = rangeDown i lo) :
    lo < i ∧ x = i ∧ rest = rangeDown (i - 1) lo := by
  by_cases hlt : lo < i
  · rw [rangeDown_cons i lo hlt] at h
    injection h with h1 h2
    exact ⟨hlt, h1, h2⟩
  · rw [rangeDown_nil i lo (by omega)] at h
    cases h

/-! ### total accessors -/

/-- total read -/
def g (a : Array Int) (i : Int) : Int := a.getD i.toNat 0
/-- total write -/
def upd (a : Array Int) (i : Int) (v : Int) : Array Int := a.setIfInBounds i.toNat v

theorem rd_ok (a : Array Int) (i : Int) (h0 : 0 ≤ i) (h1 : i < a.size) : rd a i = .ok (g a i) := by
  have h2 : i.toNat < a.size := by omega
  simp [rd, g, h2, pure, Except.pure]
  omega

theorem wr_ok (a : Array Int) (i v : Int) (h0 : 0 ≤ i) (h1 : i < a.size) :
    wr a i v = .ok (upd a i v) := by
  have h2 : i.toNat < a.size := by omega
  simp [wr, upd, h2, pure, Except.pure]
  omega

@[simp] theorem size_upd (a : Array Int) (i v : Int) : (upd a i v).size = a.size := by
  simp [upd]

theorem g_upd (a : Array Int) (i v k : Int) (h0 : 0 ≤ i) (h1 : i < a.size) (hk : 0 ≤ k) :
    g (upd a i v) k = if k = i then v else g a k := by
  have h2 : i.toNat < a.size := by omega
  unfold g upd
  by_cases hki : k = i
  · subst hki; simp [h2]
  · have : ¬ i.toNat = k.toNat := by omega
    simp [hki, this]

theorem g_upd_same (a : Array Int) (i v : Int) (h0 : 0 ≤ i) (h1 : i < a.size) :
    g (upd a i v) i = v := by rw [g_upd a i v i h0 h1 h0]; simp

theorem g_upd_ne (a : Array Int) (i v k : Int) (h0 : 0 ≤ i) (h1 : i < a.size) (hk : 0 ≤ k)
    (hne : k ≠ i) : g (upd a i v) k = g a k := by rw [g_upd a i v k h0 h1 hk]; simp [hne]

/-- total read of a row of an `n × 2` array -/
def g2 (a : Arr2) (i : Int) : Int × Int := a.getD i.toNat (0, 0)

theorem rd2_min_ok (a : Arr2) (i : Int) (h0 : 0 ≤ i) (h1 : i < a.size) :
    rd2 a i MIN = .ok (g2 a i).1 := by
  have h2 : i.toNat < a.size := by omega
  simp [rd2, g2, h2, pure, Except.pure]
  omega

theorem rd2_max_ok (a : Arr2) (i : Int) (h0 : 0 ≤ i) (h1 : i < a.size) :
    rd2 a i MAX = .ok (g2 a i).2 := by
  have h2 : i.toNat < a.size := by omega
  have : (MAX == MIN) = false := by decide
  simp [rd2, g2, h2, pure, Except.pure, this]
  omega

/-- total write of one column of a row -/
def upd2 (a : Arr2) (i k v : Int) : Arr2 :=
  a.setIfInBounds i.toNat (if k == MIN then (v, (g2 a i).2) else ((g2 a i).1, v))

theorem wr2_ok (a : Arr2) (i k v : Int) (h0 : 0 ≤ i) (h1 : i < a.size) :
    wr2 a i k v = .ok (upd2 a i k v) := by
  have h2 : i.toNat < a.size := by omega
  simp [wr2, upd2, g2, h2, pure, Except.pure]
  omega

@[simp] theorem size_upd2 (a : Arr2) (i k v : Int) : (upd2 a i k v).size = a.size := by
  simp [upd2]

theorem g2_upd2 (a : Arr2) (i k v m : Int) (h0 : 0 ≤ i) (h1 : i < a.size) (hm : 0 ≤ m) :
    g2 (upd2 a i k v) m =
      if m = i then (if k == MIN then (v, (g2 a i).2) else ((g2 a i).1, v)) else g2 a m := by
  have h2 : i.toNat < a.size := by omega
  unfold upd2
  generalize (if k == MIN then (v, (g2 a i).2) else ((g2 a i).1, v)) = w
  unfold g2
  by_cases hki : m = i
  · subst hki; simp [h2]
  · have : ¬ i.toNat = m.toNat := by omega
    simp [hki, this]

/-! ### `path_max` -/

theorem fuel_ge (a : Array Int) : (a.size : Int) < fuel a := by
  unfold fuel; omega

/-- On nodes `lo..hi` whose pointers never exceed `hi`, with `hi` not pointing up, `path_max` from
    `i` stops at the first node `r ≥ i` that does not point up. -/
theorem path_max_spec (t : Array Int) (lo hi i : Int) (hlo : 0 ≤ lo) (hhi : hi < t.size)
    (hr : ∀ k, lo ≤ k → k ≤ hi → g t k ≤ hi)
    (hup : ∀ k, lo ≤ k → k ≤ hi → g t k > k → ∀ m, k < m → m < g t k → g t m > m)
    (hi1 : lo ≤ i) (hi2 : i ≤ hi) :
    ∃ r, path_max t i = .ok r ∧ i ≤ r ∧ r ≤ hi ∧ g t r ≤ r ∧ ∀ k, i ≤ k → k < r → g t k > k := by
  unfold path_max
  simp only [range_forIn_eq]
  refine except_bind_ok
    (P := fun s => ∃ r, s.1 = some r ∧ i ≤ r ∧ r ≤ hi ∧ g t r ≤ r ∧ ∀ k, i ≤ k → k < r → g t k > k)
    (forIn_list_except
      (Inv := fun (rest : List Nat) (s : Option Int × Int) =>
        s.1 = none ∧ i ≤ s.2 ∧ s.2 ≤ hi ∧ (∀ k, i ≤ k → k < s.2 → g t k > k) ∧ hi - s.2 < rest.length)
      _ _ ?_ ?_ _ _ ?_) ?_
  · rintro x rest ⟨o, p⟩ ⟨ho, h1, h2, h3, h4⟩
    simp only at ho h1 h2 h3 h4 ⊢
    rw [rd_ok t p (by omega) (by omega)]
    simp only [ok_bind]
    by_cases hgt : g t p > p
    · left
      refine ⟨(none, g t p), ?_, rfl, by omega, hr p (by omega) h2, ?_, ?_⟩
      · simp [hgt, pure_eq_ok]
      · intro k hk1 hk2
        by_cases hkp : k < p
        · exact h3 k hk1 hkp
        · by_cases hkp' : k = p
          · subst hkp'; exact hgt
          · exact hup p (by omega) h2 hgt k (by omega) hk2
      · simp only [List.length_cons] at h4
        have := hr p (by omega) h2
        omega
    · right
      refine ⟨(some p, p), ?_, p, rfl, h1, h2, by omega, h3⟩
      simp [hgt, pure_eq_ok]
  · rintro ⟨o, p⟩ ⟨ho, h1, h2, h3, h4⟩
    simp at h4; omega
  · refine ⟨rfl, by omega, hi2, fun k h1 h2 => by omega, ?_⟩
    have := fuel_ge t
    simp only [List.length_range']
    omega
  · rintro ⟨o, p⟩ ⟨r, ho, hpost⟩
    simp only at ho
    subst ho
    exact ⟨r, rfl, hpost⟩

/-! ### `path_set`, walking up -/

/-- path compression towards larger indices: every node in `s..r-1` points up, not beyond `r` -/
theorem path_set_up_compress (a : Array Int) (s r v : Int) (hs : 0 ≤ s) (hsr : s ≤ r)
    (hr : r < a.size) (hup : ∀ p, s ≤ p → p < r → p < g a p ∧ g a p ≤ r) :
    ∃ a', path_set a s r v = .ok a' ∧ a'.size = a.size ∧
      ∀ k, 0 ≤ k → (g a' k = g a k ∨ (s ≤ k ∧ k < r ∧ g a' k = v)) := by
  unfold path_set
  simp only [range_forIn_eq]
  refine except_bind_ok
    (P := fun st => ∃ a', st.1 = some a' ∧ a'.size = a.size ∧
      ∀ k, 0 ≤ k → (g a' k = g a k ∨ (s ≤ k ∧ k < r ∧ g a' k = v)))
    (forIn_list_except
      (Inv := fun (rest : List Nat) (st : Option (Array Int) × Array Int × Int) =>
        st.1 = none ∧ s ≤ st.2.2 ∧ st.2.2 ≤ r ∧ st.2.1.size = a.size ∧
        (∀ k, 0 ≤ k → (st.2.2 ≤ k → g st.2.1 k = g a k) ∧
          (g st.2.1 k = g a k ∨ (s ≤ k ∧ k < st.2.2 ∧ g st.2.1 k = v))) ∧
        r - st.2.2 < rest.length)
      _ _ ?_ ?_ _ _ ?_) ?_
  · rintro x rest ⟨o, c, p⟩ ⟨ho, h1, h2, h3, h4, h5⟩
    simp only at ho h1 h2 h3 h4 h5 ⊢
    by_cases hpe : p = r
    · right
      refine ⟨(some c, c, p), by simp [hpe, pure_eq_ok], c, rfl, h3, ?_⟩
      intro k hk
      rcases (h4 k hk).2 with h | ⟨ha, hb, hc⟩
      · exact Or.inl h
      · exact Or.inr ⟨ha, by omega, hc⟩
    · left
      have hp := hup p h1 (by omega)
      have hcp : g c p = g a p := (h4 p (by omega)).1 (Int.le_refl _)
      refine ⟨(none, upd c p v, g a p), ?_, ?_⟩
      · have : ¬ (p == r) = true := by simpa using hpe
        simp only [this]
        rw [rd_ok c p (by omega) (by omega), ok_bind, wr_ok c p v (by omega) (by omega), ok_bind, hcp]
        rfl
      dsimp only
      refine ⟨rfl, by omega, hp.2, by simp [h3], ?_, ?_⟩
      · intro k hk
        by_cases hkp : k = p
        · subst hkp
          rw [g_upd_same c k v (by omega) (by omega)]
          exact ⟨fun h => by omega, Or.inr ⟨h1, hp.1, rfl⟩⟩
        · rw [g_upd_ne c p v k (by omega) (by omega) hk hkp]
          refine ⟨fun h => (h4 k hk).1 (by omega), ?_⟩
          rcases (h4 k hk).2 with h | ⟨ha, hb, hc⟩
          · exact Or.inl h
          · exact Or.inr ⟨ha, by omega, hc⟩
      · simp only [List.length_cons] at h5
        omega
  · rintro ⟨o, c, p⟩ ⟨ho, h1, h2, h3, h4, h5⟩
    simp only [List.length_nil] at h2 h5; omega
  · dsimp only
    refine ⟨rfl, Int.le_refl _, hsr, rfl, fun k hk => ⟨fun _ => rfl, Or.inl rfl⟩, ?_⟩
    have := fuel_ge a
    simp only [List.length_range']
    omega
  · rintro ⟨o, c, p⟩ ⟨a', ho, hpost⟩
    simp only at ho
    subst ho
    exact ⟨a', rfl, hpost⟩

/-! ### `path_set`, walking down -/

/-- marking towards smaller indices: starting from `s`, every node in `e+1..s` that points down is
    visited (no such node is skipped) and set to `v`; the walk stops at `e`. -/
theorem path_set_down_mark (a : Array Int) (s e v : Int) (he : 0 ≤ e) (hes : e ≤ s)
    (hs : s < a.size) (hs0 : s = e ∨ g a s < s)
    (hd : ∀ p, e < p → p ≤ s → g a p < p →
      e ≤ g a p ∧ (g a p = e ∨ g a (g a p) < g a p) ∧ ∀ k, g a p < k → k < p → ¬ g a k < k) :
    ∃ a', path_set a s e v = .ok a' ∧ a'.size = a.size ∧
      ∀ k, 0 ≤ k → g a' k = if e < k ∧ k ≤ s ∧ g a k < k then v else g a k := by
  unfold path_set
  simp only [range_forIn_eq]
  refine except_bind_ok
    (P := fun st => ∃ a', st.1 = some a' ∧ a'.size = a.size ∧
      ∀ k, 0 ≤ k → g a' k = if e < k ∧ k ≤ s ∧ g a k < k then v else g a k)
    (forIn_list_except
      (Inv := fun (rest : List Nat) (st : Option (Array Int) × Array Int × Int) =>
        st.1 = none ∧ e ≤ st.2.2 ∧ st.2.2 ≤ s ∧ (st.2.2 = e ∨ g a st.2.2 < st.2.2) ∧
        st.2.1.size = a.size ∧
        (∀ k, 0 ≤ k → (k ≤ st.2.2 → g st.2.1 k = g a k) ∧
          (st.2.2 < k → g st.2.1 k = if k ≤ s ∧ g a k < k then v else g a k)) ∧
        st.2.2 - e < rest.length)
      _ _ ?_ ?_ _ _ ?_) ?_
  · rintro x rest ⟨o, c, p⟩ ⟨ho, h1, h2, h2', h3, h4, h5⟩
    simp only at ho h1 h2 h2' h3 h4 h5 ⊢
    by_cases hpe : p = e
    · right
      refine ⟨(some c, c, p), by simp [hpe, pure_eq_ok], c, rfl, h3, ?_⟩
      intro k hk
      subst hpe
      by_cases hkp : k ≤ p
      · rw [(h4 k hk).1 hkp, if_neg (by omega)]
      · rw [(h4 k hk).2 (by omega)]
        by_cases hc : k ≤ s ∧ g a k < k
        · rw [if_pos hc, if_pos ⟨by omega, hc⟩]
        · rw [if_neg hc, if_neg (fun h => hc h.2)]
    · left
      have hpd : g a p < p := by rcases h2' with h | h; exact absurd h hpe; exact h
      have hp := hd p (by omega) h2 hpd
      have hcp : g c p = g a p := (h4 p (by omega)).1 (Int.le_refl _)
      refine ⟨(none, upd c p v, g a p), ?_, ?_⟩
      · have : ¬ (p == e) = true := by simpa using hpe
        simp only [this]
        rw [rd_ok c p (by omega) (by omega), ok_bind, wr_ok c p v (by omega) (by omega), ok_bind, hcp]
        rfl
      dsimp only
      refine ⟨rfl, hp.1, by omega, hp.2.1, by simp [h3], ?_, ?_⟩
      · intro k hk
        by_cases hkp : k = p
        · subst hkp
          rw [g_upd_same c k v (by omega) (by omega)]
          exact ⟨fun h => by omega, fun _ => by rw [if_pos ⟨h2, hpd⟩]⟩
        · rw [g_upd_ne c p v k (by omega) (by omega) hk hkp]
          refine ⟨fun h => (h4 k hk).1 (by omega), fun h => ?_⟩
          by_cases hkp' : k < p
          · rw [(h4 k hk).1 (by omega), if_neg (fun hc => hp.2.2 k h hkp' hc.2)]
          · exact (h4 k hk).2 (by omega)
      · simp only [List.length_cons] at h5
        omega
  · rintro ⟨o, c, p⟩ ⟨ho, h1, h2, h2', h3, h4, h5⟩
    simp only [List.length_nil] at h1 h5; omega
  · dsimp only
    refine ⟨rfl, hes, Int.le_refl _, hs0, rfl, fun k hk => ⟨fun _ => rfl, fun h => ?_⟩, ?_⟩
    · rw [if_neg (by omega)]
    · have := fuel_ge a
      simp only [List.length_range']
      omega
  · rintro ⟨o, c, p⟩ ⟨a', ho, hpost⟩
    simp only at ho
    subst ho
    exact ⟨a', rfl, hpost⟩

/-- path compression towards smaller indices: every node in `r+1..s` points down, not below `r` -/
theorem path_set_down_compress (a : Array Int) (s r v : Int) (hr : 0 ≤ r) (hrs : r ≤ s)
    (hs : s < a.size) (hdn : ∀ p, r < p → p ≤ s → g a p < p ∧ r ≤ g a p) :
    ∃ a', path_set a s r v = .ok a' ∧ a'.size = a.size ∧
      ∀ k, 0 ≤ k → (g a' k = g a k ∨ (r < k ∧ k ≤ s ∧ g a' k = v)) := by
  unfold path_set
  simp only [range_forIn_eq]
  refine except_bind_ok
    (P := fun st => ∃ a', st.1 = some a' ∧ a'.size = a.size ∧
      ∀ k, 0 ≤ k → (g a' k = g a k ∨ (r < k ∧ k ≤ s ∧ g a' k = v)))
    (forIn_list_except
      (Inv := fun (rest : List Nat) (st : Option (Array Int) × Array Int × Int) =>
        st.1 = none ∧ r ≤ st.2.2 ∧ st.2.2 ≤ s ∧ st.2.1.size = a.size ∧
        (∀ k, 0 ≤ k → (k ≤ st.2.2 → g st.2.1 k = g a k) ∧
          (g st.2.1 k = g a k ∨ (st.2.2 < k ∧ k ≤ s ∧ g st.2.1 k = v))) ∧
        st.2.2 - r < rest.length)
      _ _ ?_ ?_ _ _ ?_) ?_
  · rintro x rest ⟨o, c, p⟩ ⟨ho, h1, h2, h3, h4, h5⟩
    simp only at ho h1 h2 h3 h4 h5 ⊢
    by_cases hpe : p = r
    · right
      refine ⟨(some c, c, p), by simp [hpe, pure_eq_ok], c, rfl, h3, ?_⟩
      intro k hk
      rcases (h4 k hk).2 with h | ⟨ha, hb, hc⟩
      · exact Or.inl h
      · exact Or.inr ⟨by omega, hb, hc⟩
    · left
      have hp := hdn p (by omega) h2
      have hcp : g c p = g a p := (h4 p (by omega)).1 (Int.le_refl _)
      refine ⟨(none, upd c p v, g a p), ?_, ?_⟩
      · have : ¬ (p == r) = true := by simpa using hpe
        simp only [this]
        rw [rd_ok c p (by omega) (by omega), ok_bind, wr_ok c p v (by omega) (by omega), ok_bind, hcp]
        rfl
      dsimp only
      refine ⟨rfl, hp.2, by omega, by simp [h3], ?_, ?_⟩
      · intro k hk
        by_cases hkp : k = p
        · subst hkp
          rw [g_upd_same c k v (by omega) (by omega)]
          exact ⟨fun h => by omega, Or.inr ⟨hp.1, h2, rfl⟩⟩
        · rw [g_upd_ne c p v k (by omega) (by omega) hk hkp]
          refine ⟨fun h => (h4 k hk).1 (by omega), ?_⟩
          rcases (h4 k hk).2 with h | ⟨ha, hb, hc⟩
          · exact Or.inl h
          · exact Or.inr ⟨by omega, hb, hc⟩
      · simp only [List.length_cons] at h5
        omega
  · rintro ⟨o, c, p⟩ ⟨ho, h1, h2, h3, h4, h5⟩
    simp only [List.length_nil] at h1 h5; omega
  · dsimp only
    refine ⟨rfl, hrs, Int.le_refl _, rfl, fun k hk => ⟨fun _ => rfl, Or.inl rfl⟩, ?_⟩
    have := fuel_ge a
    simp only [List.length_range']
    omega
  · rintro ⟨o, c, p⟩ ⟨a', ho, hpost⟩
    simp only at ho
    subst ho
    exact ⟨a', rfl, hpost⟩

/-- marking towards larger indices: starting from `s`, every node in `s..e-1` that points up is
    visited (no such node is skipped) and set to `v`; the walk stops at `e`. -/
theorem path_set_up_mark (a : Array Int) (s e v : Int) (hs : 0 ≤ s) (hse : s ≤ e)
    (he : e < a.size) (hs0 : s = e ∨ g a s > s)
    (hd : ∀ p, s ≤ p → p < e → g a p > p →
      g a p ≤ e ∧ (g a p = e ∨ g a (g a p) > g a p) ∧ ∀ k, p < k → k < g a p → ¬ g a k > k) :
    ∃ a', path_set a s e v = .ok a' ∧ a'.size = a.size ∧
      ∀ k, 0 ≤ k → g a' k = if s ≤ k ∧ k < e ∧ g a k > k then v else g a k := by
  unfold path_set
  simp only [range_forIn_eq]
  refine except_bind_ok
    (P := fun st => ∃ a', st.1 = some a' ∧ a'.size = a.size ∧
      ∀ k, 0 ≤ k → g a' k = if s ≤ k ∧ k < e ∧ g a k > k then v else g a k)
    (forIn_list_except
      (Inv := fun (rest : List Nat) (st : Option (Array Int) × Array Int × Int) =>
        st.1 = none ∧ s ≤ st.2.2 ∧ st.2.2 ≤ e ∧ (st.2.2 = e ∨ g a st.2.2 > st.2.2) ∧
        st.2.1.size = a.size ∧
        (∀ k, 0 ≤ k → (st.2.2 ≤ k → g st.2.1 k = g a k) ∧
          (k < st.2.2 → g st.2.1 k = if s ≤ k ∧ g a k > k then v else g a k)) ∧
        e - st.2.2 < rest.length)
      _ _ ?_ ?_ _ _ ?_) ?_
  · rintro x rest ⟨o, c, p⟩ ⟨ho, h1, h2, h2', h3, h4, h5⟩
    simp only at ho h1 h2 h2' h3 h4 h5 ⊢
    by_cases hpe : p = e
    · right
      refine ⟨(some c, c, p), by simp [hpe, pure_eq_ok], c, rfl, h3, ?_⟩
      intro k hk
      subst hpe
      by_cases hkp : p ≤ k
      · rw [(h4 k hk).1 hkp, if_neg (by omega)]
      · rw [(h4 k hk).2 (by omega)]
        by_cases hc : s ≤ k ∧ g a k > k
        · rw [if_pos hc, if_pos ⟨hc.1, by omega, hc.2⟩]
        · rw [if_neg hc, if_neg (fun h => hc ⟨h.1, h.2.2⟩)]
    · left
      have hpd : g a p > p := by rcases h2' with h | h; exact absurd h hpe; exact h
      have hp := hd p h1 (by omega) hpd
      have hcp : g c p = g a p := (h4 p (by omega)).1 (Int.le_refl _)
      refine ⟨(none, upd c p v, g a p), ?_, ?_⟩
      · have : ¬ (p == e) = true := by simpa using hpe
        simp only [this]
        rw [rd_ok c p (by omega) (by omega), ok_bind, wr_ok c p v (by omega) (by omega), ok_bind, hcp]
        rfl
      dsimp only
      refine ⟨rfl, by omega, hp.1, hp.2.1, by simp [h3], ?_, ?_⟩
      · intro k hk
        by_cases hkp : k = p
        · subst hkp
          rw [g_upd_same c k v (by omega) (by omega)]
          exact ⟨fun h => by omega, fun _ => by rw [if_pos ⟨h1, hpd⟩]⟩
        · rw [g_upd_ne c p v k (by omega) (by omega) hk hkp]
          refine ⟨fun h => (h4 k hk).1 (by omega), fun h => ?_⟩
          by_cases hkp' : p < k
          · rw [(h4 k hk).1 (by omega), if_neg (fun hc => hp.2.2 k hkp' h hc.2)]
          · exact (h4 k hk).2 (by omega)
      · simp only [List.length_cons] at h5
        omega
  · rintro ⟨o, c, p⟩ ⟨ho, h1, h2, h2', h3, h4, h5⟩
    simp only [List.length_nil] at h2 h5; omega
  · dsimp only
    refine ⟨rfl, Int.le_refl _, hse, hs0, rfl, fun k hk => ⟨fun _ => rfl, fun h => ?_⟩, ?_⟩
    · rw [if_neg (by omega)]
    · have := fuel_ge a
      simp only [List.length_range']
      omega
  · rintro ⟨o, c, p⟩ ⟨a', ho, hpost⟩
    simp only at ho
    subst ho
    exact ⟨a', rfl, hpost⟩

/-! ### `path_min` -/

/-- mirror image of `path_max_spec` -/
theorem path_min_spec (t : Array Int) (lo hi i : Int) (hlo : 0 ≤ lo) (hhi : hi < t.size)
    (hr : ∀ k, lo ≤ k → k ≤ hi → lo ≤ g t k)
    (hdn : ∀ k, lo ≤ k → k ≤ hi → g t k < k → ∀ m, g t k < m → m < k → g t m < m)
    (hi1 : lo ≤ i) (hi2 : i ≤ hi) :
    ∃ r, path_min t i = .ok r ∧ lo ≤ r ∧ r ≤ i ∧ r ≤ g t r ∧ ∀ k, r < k → k ≤ i → g t k < k := by
  unfold path_min
  simp only [range_forIn_eq]
  refine except_bind_ok
    (P := fun s => ∃ r, s.1 = some r ∧ lo ≤ r ∧ r ≤ i ∧ r ≤ g t r ∧ ∀ k, r < k → k ≤ i → g t k < k)
    (forIn_list_except
      (Inv := fun (rest : List Nat) (s : Option Int × Int) =>
        s.1 = none ∧ lo ≤ s.2 ∧ s.2 ≤ i ∧ (∀ k, s.2 < k → k ≤ i → g t k < k) ∧ s.2 - lo < rest.length)
      _ _ ?_ ?_ _ _ ?_) ?_
  · rintro x rest ⟨o, p⟩ ⟨ho, h1, h2, h3, h4⟩
    simp only at ho h1 h2 h3 h4 ⊢
    rw [rd_ok t p (by omega) (by omega)]
    simp only [ok_bind]
    by_cases hgt : g t p < p
    · left
      refine ⟨(none, g t p), ?_, rfl, hr p h1 (by omega), by omega, ?_, ?_⟩
      · simp [hgt, pure_eq_ok]
      · intro k hk1 hk2
        by_cases hkp : p < k
        · exact h3 k hkp hk2
        · by_cases hkp' : k = p
          · subst hkp'; exact hgt
          · exact hdn p h1 (by omega) hgt k hk1 (by omega)
      · simp only [List.length_cons] at h4
        have := hr p h1 (by omega)
        omega
    · right
      refine ⟨(some p, p), ?_, p, rfl, h1, h2, by omega, h3⟩
      simp [hgt, pure_eq_ok]
  · rintro ⟨o, p⟩ ⟨ho, h1, h2, h3, h4⟩
    simp only [List.length_nil] at h1 h4; omega
  · refine ⟨rfl, hi1, by omega, fun k h1 h2 => by omega, ?_⟩
    have := fuel_ge t
    simp only [List.length_range']
    omega
  · rintro ⟨o, p⟩ ⟨r, ho, hpost⟩
    simp only at ho
    subst ho
    exact ⟨r, rfl, hpost⟩

end AllDiff
end Nucs
