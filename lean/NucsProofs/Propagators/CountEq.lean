import NucsProofs.Propagators.Counting
/-!
  count_eq: `Σ (x_i == a) = x_{n-1}`.  Uses the counting lemmas of `Counting.lean`.
-/
namespace Nucs

theorem runAlg_countEq (ps : List Int) (B : Box) : runAlg .countEq ps B = .ok (countEq ps B) := rfl

theorem Cnt.countEq_snoc (ps : List Int) (xs : Box) (y : Dom) :
    countEq ps (xs ++ [y]) =
      ((countEqCore (getI ps 0) xs y).1,
       (countEqCore (getI ps 0) xs y).2.1 ++ [(countEqCore (getI ps 0) xs y).2.2]) := by
  simp [countEq]

/-- the outcomes of `countEqCore`, with the arithmetic facts that select them -/
theorem Cnt.countEqCore_cases (a : Int) (xs : Box) (k : Dom)
    (hfo : cntFix a xs + cntOut a xs ≤ xs.length) :
    (countEqCore a xs k = (.inc, xs, k) ∧
      (k.2 < cntFix a xs ∨ (xs.length : Int) < k.1 + cntOut a xs ∨ k.2 < k.1)) ∨
    (countEqCore a xs k = (.ent, xs, ((cntFix a xs : Int), (cntFix a xs : Int))) ∧
      cntFix a xs + cntOut a xs = xs.length ∧ k.1 ≤ cntFix a xs ∧ (cntFix a xs : Int) ≤ k.2) ∨
    (countEqCore a xs k = (.cons, xs.map (excludeVal a), ((cntFix a xs : Int), (cntFix a xs : Int))) ∧
      cntFix a xs + cntOut a xs < xs.length ∧ k.1 ≤ cntFix a xs ∧ k.2 = cntFix a xs) ∨
    (countEqCore a xs k = (.cons, xs.map (forceVal a),
        ((xs.length : Int) - cntOut a xs, (xs.length : Int) - cntOut a xs)) ∧
      cntFix a xs + cntOut a xs < xs.length ∧ k.1 = (xs.length : Int) - cntOut a xs ∧
      (xs.length : Int) - cntOut a xs ≤ k.2) ∨
    (countEqCore a xs k = (.cons, xs, (max k.1 (cntFix a xs : Int), min k.2 ((xs.length : Int) - cntOut a xs))) ∧
      (cntFix a xs : Int) < k.2 ∧ k.1 + cntOut a xs < xs.length ∧
      cntFix a xs + cntOut a xs < xs.length ∧ k.1 ≤ k.2) := by
  obtain ⟨k1, k2⟩ := k
  simp only [countEqCore]
  generalize cntFix a xs = f at *
  generalize cntOut a xs = o at *
  generalize xs.length = n at *
  split
  · left; refine ⟨rfl, ?_⟩; omega
  · right
    split
    · left
      rename_i h1 h2; simp only [beq_iff_eq] at h2
      refine ⟨?_, by omega, by omega, by omega⟩
      congr 2; apply Prod.ext <;> simp only <;> omega
    · right
      rename_i h1 h2; simp only [beq_iff_eq] at h2
      by_cases h3 : (f : Int) = min k2 ((n : Int) - o)
      · left
        have h4 : ¬ ((n : Int) - o = max k1 (f : Int)) := by omega
        simp only [beq_iff_eq, if_pos h3, if_neg h4]
        refine ⟨?_, by omega, by omega, by omega⟩
        congr 2; apply Prod.ext <;> simp only <;> omega
      · right
        by_cases h4 : (n : Int) - o = max k1 (f : Int)
        · left
          simp only [beq_iff_eq, if_neg h3, if_pos h4]
          refine ⟨?_, by omega, by omega, by omega⟩
          congr 2; apply Prod.ext <;> simp only <;> omega
        · right
          simp only [beq_iff_eq, if_neg h3, if_neg h4]
          refine ⟨trivial, by omega, by omega, by omega, by omega⟩

/-- the decomposition `B = xs ++ [y]` under the contract of `count_eq` -/
theorem Cnt.countEq_split {ps : List Int} {B : Box} (hc : Contract .countEq ps B) (hne : B.Nonempty) :
    ∃ xs y, B = xs ++ [y] ∧ Box.Nonempty xs ∧ y.1 ≤ y.2 := by
  obtain ⟨_, hl⟩ := hc
  have hB : B ≠ [] := by intro h; subst h; simp at hl
  have hs := Cnt.front_back B hB
  refine ⟨B.front, B.back, hs, ?_⟩
  rw [hs, Cnt.nonempty_snoc] at hne
  exact hne

theorem Cnt.rel_countEq_snoc (ps ts : List Int) (v : Int) :
    rel .countEq ps (ts ++ [v]) ↔ (ts.count (getI ps 0) : Int) = v := by
  simp only [rel, Cnt.tFront_snoc, Cnt.tBack_snoc]

theorem sound_countEq : Sound .countEq := by
  intro ps B st B' hc hne hrun
  obtain ⟨xs, y, rfl, hnx, hy⟩ := Cnt.countEq_split hc hne
  rw [runAlg_countEq, Cnt.countEq_snoc] at hrun
  injection hrun with hrun
  have hfo := Cnt.fix_add_out_le (getI ps 0) xs hnx
  -- facts about any solution in the box
  have key : ∀ t, inBox t (xs ++ [y]) → rel .countEq ps t → ∃ ts, t = ts ++ [(ts.count (getI ps 0) : Int)] ∧
      inBox ts xs ∧ y.1 ≤ ts.count (getI ps 0) ∧ (ts.count (getI ps 0) : Int) ≤ y.2 ∧
      cntFix (getI ps 0) xs ≤ ts.count (getI ps 0) ∧
      ts.count (getI ps 0) + cntOut (getI ps 0) xs ≤ xs.length := by
    intro t ht hrel
    obtain ⟨ts, v, rfl, hts, hv⟩ := Cnt.inBox_snoc_elim ht
    rw [Cnt.rel_countEq_snoc] at hrel
    subst hrel
    exact ⟨ts, rfl, hts, hv.1, hv.2, Cnt.cntFix_le_count _ hts, Cnt.count_add_out_le _ hts⟩
  generalize getI ps 0 = a at *
  rcases Cnt.countEqCore_cases a xs y hfo with ⟨he, hf⟩ | ⟨he, hf⟩ | ⟨he, hf⟩ | ⟨he, hf⟩ | ⟨he, hf⟩ <;>
    rw [he] at hrun <;> injection hrun with h1 h2 <;> subst h1 <;> subst h2
  · refine ⟨fun h => absurd rfl h, fun _ t ht hrel => ?_⟩
    obtain ⟨ts, _, _, h1, h2, h3, h4⟩ := key t ht hrel
    omega
  · refine ⟨fun _ => ⟨?_, ?_, fun t ht hrel => ?_⟩, fun h => by cases h⟩
    · rw [Cnt.le_snoc]; exact ⟨Box.le_refl _, by simp only; omega⟩
    · rw [Cnt.nonempty_snoc]; exact ⟨hnx, by simp⟩
    · obtain ⟨ts, rfl, hts, h1, h2, h3, h4⟩ := key t ht hrel
      rw [Cnt.inBox_snoc]
      exact ⟨hts, by unfold inDom; simp only; omega⟩
  · refine ⟨fun _ => ⟨?_, ?_, fun t ht hrel => ?_⟩, fun h => by cases h⟩
    · rw [Cnt.le_snoc]
      exact ⟨Cnt.map_le _ (Cnt.excludeVal_le _) xs, by simp only; omega⟩
    · rw [Cnt.nonempty_snoc]
      exact ⟨Cnt.map_nonempty _ (Cnt.excludeVal_nonempty _) hnx, by simp⟩
    · obtain ⟨ts, rfl, hts, h1, h2, h3, h4⟩ := key t ht hrel
      rw [Cnt.inBox_snoc]
      exact ⟨Cnt.exclude_keep _ hts (by omega), by unfold inDom; simp only; omega⟩
  · refine ⟨fun _ => ⟨?_, ?_, fun t ht hrel => ?_⟩, fun h => by cases h⟩
    · rw [Cnt.le_snoc]
      exact ⟨Cnt.map_le _ (Cnt.forceVal_le _) xs, by simp only; omega⟩
    · rw [Cnt.nonempty_snoc]
      exact ⟨Cnt.map_nonempty _ (Cnt.forceVal_nonempty _) hnx, by simp⟩
    · obtain ⟨ts, rfl, hts, h1, h2, h3, h4⟩ := key t ht hrel
      rw [Cnt.inBox_snoc]
      exact ⟨Cnt.force_keep _ hts (by omega), by unfold inDom; simp only; omega⟩
  · refine ⟨fun _ => ⟨?_, ?_, fun t ht hrel => ?_⟩, fun h => by cases h⟩
    · rw [Cnt.le_snoc]; exact ⟨Box.le_refl _, by simp only; omega⟩
    · rw [Cnt.nonempty_snoc]; exact ⟨hnx, by simp only; omega⟩
    · obtain ⟨ts, rfl, hts, h1, h2, h3, h4⟩ := key t ht hrel
      rw [Cnt.inBox_snoc]
      exact ⟨hts, by unfold inDom; simp only; omega⟩

theorem entailOk_countEq : EntailOk .countEq := by
  intro ps B B' hc hne hrun t ht
  obtain ⟨xs, y, rfl, hnx, hy⟩ := Cnt.countEq_split hc hne
  rw [runAlg_countEq, Cnt.countEq_snoc] at hrun
  injection hrun with hrun
  have hfo := Cnt.fix_add_out_le (getI ps 0) xs hnx
  rcases Cnt.countEqCore_cases (getI ps 0) xs y hfo with
      ⟨he, hf⟩ | ⟨he, hf⟩ | ⟨he, hf⟩ | ⟨he, hf⟩ | ⟨he, hf⟩ <;>
    rw [he] at hrun <;> injection hrun with h1 h2 <;> (try cases h1)
  simp only at h2
  subst h2
  obtain ⟨ts, v, rfl, hts, hv⟩ := Cnt.inBox_snoc_elim ht
  rw [Cnt.rel_countEq_snoc]
  have := Cnt.cntFix_le_count (getI ps 0) hts
  have := Cnt.count_add_out_le (getI ps 0) hts
  unfold inDom at hv; simp only at hv
  omega

theorem groundOk_countEq : GroundOk .countEq := by
  intro ps B st B' t hc hne hrun hst hB'
  obtain ⟨xs, y, rfl, hnx, hy⟩ := Cnt.countEq_split hc hne
  rw [runAlg_countEq, Cnt.countEq_snoc] at hrun
  injection hrun with hrun
  simp only [relW]
  have hfo := Cnt.fix_add_out_le (getI ps 0) xs hnx
  rcases Cnt.countEqCore_cases (getI ps 0) xs y hfo with
      ⟨he, hf⟩ | ⟨he, hf⟩ | ⟨he, hf⟩ | ⟨he, hf⟩ | ⟨he, hf⟩ <;>
    rw [he] at hrun <;> injection hrun with h1 h2 <;> subst h1 <;> rw [hB'] at h2 <;>
    (try simp only at h2) <;>
    obtain ⟨ts, v, rfl, hxs, hyv⟩ := Cnt.snoc_eq_pointBox h2 <;> rw [Cnt.rel_countEq_snoc] <;>
    (try simp only [Prod.mk.injEq] at hyv) <;>
    have hpf := Cnt.cntFix_pointBox (getI ps 0) ts <;>
    have hpo := Cnt.cntOut_pointBox (getI ps 0) ts <;>
    have hpl : (pointBox ts).length = ts.length := by simp [pointBox]
  · exact absurd rfl hst
  · subst hxs; omega
  · have := Cnt.cntFix_map_exclude (getI ps 0) xs hnx
    rw [hxs] at this; omega
  · have := Cnt.cntOut_map_force (getI ps 0) xs
    have hl : (xs.map (forceVal (getI ps 0))).length = xs.length := by simp
    rw [hxs] at this hl; omega
  · subst hxs; omega

theorem contractMono_countEq : ContractMono .countEq := by
  intro ps B B' hc hle
  simp only [Contract] at *
  rw [Box.le_length hle]; exact hc

theorem safe_countEq : Safe .countEq := fun ps B _ _ => ⟨_, runAlg_countEq ps B⟩

theorem trigOk_countEq : TrigOk .countEq :=
  Cnt.trigOk_of_minMax _ sound_countEq (fun _ _ _ => rfl)

/-! ### exactness of count_eq -/

/-- first half of `Exact` for `count_eq` on a box `xs ++ [k]` whose count domain lies between the
    counters and whose free domains leave room -/
theorem Cnt.countEq_bounds (ps : List Int) (xs : Box) (k : Dom) (hne : Box.Nonempty xs) (hk : k.1 ≤ k.2)
    (h1 : (cntFix (getI ps 0) xs : Int) ≤ k.1) (h2 : k.2 + cntOut (getI ps 0) xs ≤ xs.length)
    (hfree : ∀ d ∈ xs, d.1 ≤ getI ps 0 → getI ps 0 ≤ d.2 → ¬ (d.1 = getI ps 0 ∧ d.2 = getI ps 0) →
      k.1 + cntOut (getI ps 0) xs < xs.length ∧
      ((d.1 = getI ps 0 ∨ d.2 = getI ps 0) → (cntFix (getI ps 0) xs : Int) < k.2)) :
    ∀ j, j < (xs ++ [k]).length →
      (∃ t, inBox t (xs ++ [k]) ∧ rel .countEq ps t ∧ getI t j = (getDom (xs ++ [k]) j).1) ∧
      (∃ t, inBox t (xs ++ [k]) ∧ rel .countEq ps t ∧ getI t j = (getDom (xs ++ [k]) j).2) := by
  generalize ha : getI ps 0 = a at *
  have hk1 : (k.1.toNat : Int) = k.1 := Int.toNat_of_nonneg (by omega)
  have hk2 : (k.2.toNat : Int) = k.2 := Int.toNat_of_nonneg (by omega)
  -- a witness from a tuple of `xs` with `m` occurrences, `m` in the count domain
  have wit : ∀ (t : List Int) (m : Nat), inBox t xs → t.count a = m → k.1 ≤ m → (m : Int) ≤ k.2 →
      inBox (t ++ [(m : Int)]) (xs ++ [k]) ∧ rel .countEq ps (t ++ [(m : Int)]) := by
    intro t m ht hc hm1 hm2
    refine ⟨(Cnt.inBox_snoc _ _ _ _).mpr ⟨ht, hm1, hm2⟩, ?_⟩
    rw [Cnt.rel_countEq_snoc, ha, hc]
  intro j hj
  rw [List.length_append, List.length_singleton] at hj
  by_cases hjl : j < xs.length
  · rw [Cnt.getDom_snoc_lt _ _ _ hjl]
    have hd := Cnt.getDom_mem xs j hjl
    have hdne := hne _ hd
    have hfr := hfree _ hd
    have main : ∀ v, inDom v (getDom xs j) → (v = (getDom xs j).1 ∨ v = (getDom xs j).2) →
        ∃ t, inBox t (xs ++ [k]) ∧ rel .countEq ps t ∧ getI t j = v := by
      intro v hv hb
      have hv' : (getDom xs j).1 ≤ v ∧ v ≤ (getDom xs j).2 := hv
      by_cases hcase : v = a ∧ ¬ ((getDom xs j).1 = a ∧ (getDom xs j).2 = a)
      · have hlt := (hfr (by omega) (by omega) hcase.2).2 (by omega)
        obtain ⟨t, ht, hc, hg⟩ := Cnt.exists_count_pinned a xs k.2.toNat j v hne hjl hv
          (by omega) (by omega) (fun _ _ => by omega) (fun hva => absurd hcase.1 hva)
        have hw := wit t _ ht hc (by omega) (by omega)
        exact ⟨_, hw.1, hw.2, by
          rw [Cnt.getI_snoc_lt _ _ _ (by rw [inBox_length ht]; exact hjl)]; exact hg⟩
      · obtain ⟨t, ht, hc, hg⟩ := Cnt.exists_count_pinned a xs k.1.toNat j v hne hjl hv
          (by omega) (by omega) (fun hva hnf => absurd ⟨hva, hnf⟩ hcase)
          (fun hva hno => by have := (hfr (by omega) (by omega) (by omega)).1; omega)
        have hw := wit t _ ht hc (by omega) (by omega)
        exact ⟨_, hw.1, hw.2, by
          rw [Cnt.getI_snoc_lt _ _ _ (by rw [inBox_length ht]; exact hjl)]; exact hg⟩
    exact ⟨main _ ⟨Int.le_refl _, hdne⟩ (Or.inl rfl), main _ ⟨hdne, Int.le_refl _⟩ (Or.inr rfl)⟩
  · have hjn : j = xs.length := by omega
    subst hjn
    rw [Cnt.getDom_snoc_eq]
    obtain ⟨t1, ht1, hc1⟩ := Cnt.exists_count a xs k.1.toNat hne (by omega) (by omega)
    obtain ⟨t2, ht2, hc2⟩ := Cnt.exists_count a xs k.2.toNat hne (by omega) (by omega)
    have hw1 := wit t1 _ ht1 hc1 (by omega) (by omega)
    have hw2 := wit t2 _ ht2 hc2 (by omega) (by omega)
    refine ⟨⟨_, hw1.1, hw1.2, ?_⟩, ⟨_, hw2.1, hw2.2, ?_⟩⟩
    · rw [← inBox_length ht1, Cnt.getI_snoc_eq]; exact hk1
    · rw [← inBox_length ht2, Cnt.getI_snoc_eq]; exact hk2

theorem Cnt.countEq_idem_of {ps : List Int} {xs : Box} {k : Dom} {st : Status}
    (h : countEqCore (getI ps 0) xs k = (st, xs, k)) (hst : st ≠ .inc) :
    ∃ st', runAlg .countEq ps (xs ++ [k]) = .ok (st', xs ++ [k]) ∧ st' ≠ .inc :=
  ⟨st, by rw [runAlg_countEq, Cnt.countEq_snoc, h], hst⟩

theorem exact_countEq : Exact .countEq := by
  intro ps B st B' hc hne hrun hst
  obtain ⟨xs, y, rfl, hnx, hy⟩ := Cnt.countEq_split hc hne
  rw [runAlg_countEq, Cnt.countEq_snoc] at hrun
  injection hrun with hrun
  have hfo := Cnt.fix_add_out_le (getI ps 0) xs hnx
  rcases Cnt.countEqCore_cases (getI ps 0) xs y hfo with
      ⟨he, hf⟩ | ⟨he, hf⟩ | ⟨he, hf⟩ | ⟨he, hf⟩ | ⟨he, hf⟩ <;>
    rw [he] at hrun <;> injection hrun with h1 h2 <;> subst h1 <;> simp only at h2 <;> subst h2
  · exact absurd rfl hst
  · -- entailed: no free domain, the count is known
    refine ⟨Cnt.countEq_bounds ps xs _ hnx (by simp) (by simp) (by simp only; omega)
      (fun d hd ha1 ha2 hnf => ?_), ?_⟩
    · have := Cnt.fix_add_out_lt (getI ps 0) xs hnx ⟨d, hd, ha1, ha2, hnf⟩
      omega
    · rcases Cnt.countEqCore_cases (getI ps 0) xs
          ((cntFix (getI ps 0) xs : Int), (cntFix (getI ps 0) xs : Int)) hfo with
        ⟨he2, hf2⟩ | ⟨he2, hf2⟩ | ⟨he2, hf2⟩ | ⟨he2, hf2⟩ | ⟨he2, hf2⟩ <;> simp only at hf2
      · omega
      · exact Cnt.countEq_idem_of he2 (by simp)
      · omega
      · omega
      · omega
  · -- `a` was pushed out of the free domains; the count is the number of fixed ones
    have hne' : Box.Nonempty (xs.map (excludeVal (getI ps 0))) :=
      Cnt.map_nonempty _ (Cnt.excludeVal_nonempty _) hnx
    have hfx := Cnt.cntFix_map_exclude (getI ps 0) xs hnx
    have hle := Cnt.fix_add_out_le (getI ps 0) _ hne'
    have hlen : (xs.map (excludeVal (getI ps 0))).length = xs.length := by simp
    refine ⟨Cnt.countEq_bounds ps _ _ hne' (by simp) (by simp only; omega) (by simp only; omega)
      (fun e he' ha1 ha2 hnf => ?_), ?_⟩
    · have hlt := Cnt.fix_add_out_lt (getI ps 0) _ hne' ⟨e, he', ha1, ha2, hnf⟩
      refine ⟨by simp only; omega, fun hb => ?_⟩
      obtain ⟨d, hd, rfl⟩ := List.mem_map.mp he'
      exact absurd (Cnt.excludeVal_bound _ d (hnx d hd) hb) hnf
    · rcases Cnt.countEqCore_cases (getI ps 0) (xs.map (excludeVal (getI ps 0)))
          ((cntFix (getI ps 0) xs : Int), (cntFix (getI ps 0) xs : Int)) hle with
        ⟨he2, hf2⟩ | ⟨he2, hf2⟩ | ⟨he2, hf2⟩ | ⟨he2, hf2⟩ | ⟨he2, hf2⟩ <;> simp only at hf2
      · omega
      · rw [hfx] at he2; exact Cnt.countEq_idem_of he2 (by simp)
      · rw [hfx, Cnt.map_idem _ (Cnt.excludeVal_idem _)] at he2
        exact Cnt.countEq_idem_of he2 (by simp)
      · omega
      · omega
  · -- the free domains were fixed to `a`; the count is the number of possible ones
    have hne' : Box.Nonempty (xs.map (forceVal (getI ps 0))) :=
      Cnt.map_nonempty _ (Cnt.forceVal_nonempty _) hnx
    have hox := Cnt.cntOut_map_force (getI ps 0) xs
    have hle := Cnt.fix_add_out_le (getI ps 0) _ hne'
    have hlen : (xs.map (forceVal (getI ps 0))).length = xs.length := by simp
    refine ⟨Cnt.countEq_bounds ps _ _ hne' (by simp) (by simp only; omega) (by simp only; omega)
      (fun e he' ha1 ha2 hnf => ?_), ?_⟩
    · obtain ⟨d, hd, rfl⟩ := List.mem_map.mp he'
      exact absurd (Cnt.forceVal_free _ d ha1 ha2) hnf
    · rcases Cnt.countEqCore_cases (getI ps 0) (xs.map (forceVal (getI ps 0)))
          ((xs.length : Int) - cntOut (getI ps 0) xs, (xs.length : Int) - cntOut (getI ps 0) xs) hle with
        ⟨he2, hf2⟩ | ⟨he2, hf2⟩ | ⟨he2, hf2⟩ | ⟨he2, hf2⟩ | ⟨he2, hf2⟩ <;> simp only at hf2
      · omega
      · have hEq : (cntFix (getI ps 0) (xs.map (forceVal (getI ps 0))) : Int) =
            (xs.length : Int) - cntOut (getI ps 0) xs := by omega
        rw [hEq] at he2; exact Cnt.countEq_idem_of he2 (by simp)
      · omega
      · rw [hox, hlen, Cnt.map_idem _ (Cnt.forceVal_idem _)] at he2
        exact Cnt.countEq_idem_of he2 (by simp)
      · omega
  · -- only the count domain was tightened
    refine ⟨Cnt.countEq_bounds ps xs _ hnx (by simp only; omega) (by simp only; omega)
      (by simp only; omega) (fun d hd ha1 ha2 hnf => ⟨by simp only; omega, fun _ => by simp only; omega⟩), ?_⟩
    rcases Cnt.countEqCore_cases (getI ps 0) xs
        (max y.1 (cntFix (getI ps 0) xs : Int), min y.2 ((xs.length : Int) - cntOut (getI ps 0) xs)) hfo with
      ⟨he2, hf2⟩ | ⟨he2, hf2⟩ | ⟨he2, hf2⟩ | ⟨he2, hf2⟩ | ⟨he2, hf2⟩ <;> simp only at hf2
    · omega
    · omega
    · omega
    · omega
    · have hEq : ((max (max y.1 (cntFix (getI ps 0) xs : Int)) (cntFix (getI ps 0) xs : Int),
          min (min y.2 ((xs.length : Int) - cntOut (getI ps 0) xs))
            ((xs.length : Int) - cntOut (getI ps 0) xs)) : Dom) =
          (max y.1 (cntFix (getI ps 0) xs : Int), min y.2 ((xs.length : Int) - cntOut (getI ps 0) xs)) := by
        apply Prod.ext <;> simp only <;> omega
      simp only at he2
      rw [hEq] at he2
      exact Cnt.countEq_idem_of he2 (by simp)

end Nucs
