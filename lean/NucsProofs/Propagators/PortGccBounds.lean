import NucsProofs.Propagators.PortGccCtx
/-!
  `Gcc.update_bounds` never errs on domains inside `[fv, fv + m - 1]` and establishes `BC` together
  with the facts on `ranks` that the four filtering passes rely on (adaptation of the proof of
  `AllDiff.update_bounds_spec` in `PortAlldiffBounds`).
-/
namespace Nucs
namespace Gcc

open AllDiff (g upd g2 upd2 ok_bind pure_eq_ok except_bind_ok forIn_list_except range_forIn_eq
  size_upd size_upd2 g_upd g_upd_same g_upd_ne)

/-! ### `update_bounds` as a composition of named pieces -/

/-- loop state: `bounds, ranks, min_value, max_value, last, i, j, nb, done` -/
abbrev USt := Array Int × Arr2 × Int × Int × Int × Int × Int × Int × Bool

def ubMinJp (n : Int) (domains : Arr2) (minsv : Array Int) (ranks : Arr2)
    (min_value max_value i j : Int) (done : Bool) (bounds : Array Int) (last nb : Int) :
    Except Err (ForInStep USt) := do
  let ranks ← wr2 ranks (← rd minsv i) MIN nb
  let i := i + 1
  if i < n then
    let min_value ← rd2 domains (← rd minsv i) MIN
    pure (ForInStep.yield (bounds, ranks, min_value, max_value, last, i, j, nb, done))
  else pure (ForInStep.yield (bounds, ranks, min_value, max_value, last, i, j, nb, done))

def ubMaxJp (n : Int) (domains : Arr2) (maxsv : Array Int) (ranks : Arr2)
    (min_value max_value i j : Int) (done : Bool) (bounds : Array Int) (last nb : Int) :
    Except Err (ForInStep USt) := do
  let ranks ← wr2 ranks (← rd maxsv j) MAX nb
  let j := j + 1
  if j == n then
    pure (ForInStep.done (bounds, ranks, min_value, max_value, last, i, j, nb, true))
  else
    let max_value := (← rd2 domains (← rd maxsv j) MAX) + 1
    pure (ForInStep.yield (bounds, ranks, min_value, max_value, last, i, j, nb, done))

def ubBody (n : Int) (domains : Arr2) (minsv maxsv : Array Int) (_x : Nat) (s : USt) :
    Except Err (ForInStep USt) :=
  let bounds := s.1
  let ranks := s.2.1
  let min_value := s.2.2.1
  let max_value := s.2.2.2.1
  let last := s.2.2.2.2.1
  let i := s.2.2.2.2.2.1
  let j := s.2.2.2.2.2.2.1
  let nb := s.2.2.2.2.2.2.2.1
  let done := s.2.2.2.2.2.2.2.2
  if i < n ∧ min_value ≤ max_value then
    if min_value != last then do
      let bounds ← wr bounds (nb + 1) min_value
      ubMinJp n domains minsv ranks min_value max_value i j done bounds min_value (nb + 1)
    else ubMinJp n domains minsv ranks min_value max_value i j done bounds last nb
  else
    if max_value != last then do
      let bounds ← wr bounds (nb + 1) max_value
      ubMaxJp n domains maxsv ranks min_value max_value i j done bounds max_value (nb + 1)
    else ubMaxJp n domains maxsv ranks min_value max_value i j done bounds last nb

def ubFinish (u : PSum) (s : USt) : Except Err (Int × Array Int × Arr2) := do
  let bounds := s.1
  let nb := s.2.2.2.2.2.2.2.1
  let bounds ← wr bounds (nb + 1) ((← rdLast u.2) + 1)
  pure (nb, bounds, s.2.1)

theorem update_bounds_eq (bounds : Array Int) (n : Int) (domains ranks : Arr2)
    (minsv maxsv : Array Int) (l u : PSum) :
    update_bounds bounds n domains ranks minsv maxsv l u =
      (do
        let a ← rd minsv 0
        let min_value ← rd2 domains a MIN
        let b ← rd maxsv 0
        let c ← rd2 domains b MAX
        let d ← rdLast l.1
        let bounds ← wr bounds 0 (d + 1)
        let s ← forIn [0:fuel bounds]
          ((bounds, ranks, min_value, c + 1, d + 1, 0, 0, 0, false) : USt)
          (ubBody n domains minsv maxsv)
        if !s.2.2.2.2.2.2.2.2 then throw Err.fuel else ubFinish u s) := by
  rfl

/-! ### invariants of `update_bounds` -/

/-- the contract on the domains: non-empty, inside `[fv, fv + m - 1]` -/
def DomIn (n : Int) (domains : Arr2) (fv m : Int) : Prop :=
  ∀ v : Int, 0 ≤ v → v < n →
    fv ≤ (g2 domains v).1 ∧ (g2 domains v).1 ≤ (g2 domains v).2 ∧ (g2 domains v).2 ≤ fv + m - 1

/-- facts about `bounds[0..nb]` and `ranks` that hold throughout the loop -/
structure UBArr (n : Int) (sz : Nat) (domains : Arr2) (minsv maxsv : Array Int) (fv m : Int)
    (bounds : Array Int) (ranks : Arr2) (i j nb : Int) : Prop where
  sb : bounds.size = sz
  sr : (ranks.size : Int) = n
  mono : ∀ k, 0 ≤ k → k < nb → g bounds k < g bounds (k + 1)
  b0 : g bounds 0 = fv - 2
  b1 : 1 ≤ nb → fv ≤ g bounds 1
  bnb : g bounds nb ≤ fv + m
  rmin : ∀ k, 0 ≤ k → k < i → 1 ≤ (g2 ranks (g minsv k)).1 ∧ (g2 ranks (g minsv k)).1 ≤ nb ∧
    g bounds (g2 ranks (g minsv k)).1 = (g2 domains (g minsv k)).1
  rmax : ∀ k, 0 ≤ k → k < j → 1 ≤ (g2 ranks (g maxsv k)).2 ∧ (g2 ranks (g maxsv k)).2 ≤ nb ∧
    g bounds (g2 ranks (g maxsv k)).2 = (g2 domains (g maxsv k)).2 + 1

/-- the loop invariant of `update_bounds` -/
structure UBInv (n : Int) (sz : Nat) (domains : Arr2) (minsv maxsv : Array Int) (fv m : Int)
    (s : USt) : Prop where
  arr : UBArr n sz domains minsv maxsv fv m s.1 s.2.1 s.2.2.2.2.2.1 s.2.2.2.2.2.2.1
    s.2.2.2.2.2.2.2.1
  i0 : 0 ≤ s.2.2.2.2.2.1
  in' : s.2.2.2.2.2.1 ≤ n
  j0 : 0 ≤ s.2.2.2.2.2.2.1
  jn : s.2.2.2.2.2.2.1 < n
  nb0 : 0 ≤ s.2.2.2.2.2.2.2.1
  nbij : s.2.2.2.2.2.2.2.1 ≤ s.2.2.2.2.2.1 + s.2.2.2.2.2.2.1
  minv : s.2.2.2.2.2.1 < n → s.2.2.1 = (g2 domains (g minsv s.2.2.2.2.2.1)).1
  maxv : s.2.2.2.1 = (g2 domains (g maxsv s.2.2.2.2.2.2.1)).2 + 1
  last : s.2.2.2.2.1 = g s.1 s.2.2.2.2.2.2.2.1
  lmin : s.2.2.2.2.2.1 < n → s.2.2.2.2.1 ≤ s.2.2.1
  lmax : s.2.2.2.2.1 ≤ s.2.2.2.1
  start : (s.2.2.2.2.2.2.2.1 = 0 ∧ s.2.2.2.2.2.1 = 0 ∧ s.2.2.2.2.2.2.1 = 0 ∧
      s.2.2.2.2.1 < s.2.2.1 ∧ s.2.2.1 ≤ s.2.2.2.1) ∨ 1 ≤ s.2.2.2.2.2.2.2.1
  done : s.2.2.2.2.2.2.2.2 = false

/-- what holds when the loop is left through `break` -/
structure UBPost (n : Int) (sz : Nat) (domains : Arr2) (minsv maxsv : Array Int) (fv m : Int)
    (s : USt) : Prop where
  arr : UBArr n sz domains minsv maxsv fv m s.1 s.2.1 n n s.2.2.2.2.2.2.2.1
  nb1 : 1 ≤ s.2.2.2.2.2.2.2.1
  nb2 : s.2.2.2.2.2.2.2.1 ≤ 2 * n
  done : s.2.2.2.2.2.2.2.2 = true

/-- pushing a new bound -/
theorem UBArr.push {n : Int} {sz : Nat} {domains : Arr2} {minsv maxsv : Array Int} {fv m : Int}
    {bounds : Array Int} {ranks : Arr2}
    {i j nb : Int} (h : UBArr n sz domains minsv maxsv fv m bounds ranks i j nb) (v : Int)
    (hnb : 0 ≤ nb) (hsz : nb + 1 < sz) (hv : g bounds nb < v) (hv0 : fv ≤ v) (hv1 : v ≤ fv + m) :
    UBArr n sz domains minsv maxsv fv m (upd bounds (nb + 1) v) ranks i j (nb + 1) := by
  have hsb := h.sb
  refine ⟨by simp [h.sb], h.sr, ?_, ?_, ?_, ?_, ?_, ?_⟩
  · intro k hk0 hk1
    by_cases hk : k = nb
    · subst hk
      rw [g_upd_same bounds _ v (by omega) (by omega),
        g_upd_ne bounds _ v k (by omega) (by omega) hk0 (by omega)]
      exact hv
    · rw [g_upd_ne bounds _ v k (by omega) (by omega) hk0 (by omega),
        g_upd_ne bounds _ v (k + 1) (by omega) (by omega) (by omega) (by omega)]
      exact h.mono k hk0 (by omega)
  · rw [g_upd_ne bounds _ v 0 (by omega) (by omega) (by omega) (by omega)]
    exact h.b0
  · intro _
    by_cases hz : nb = 0
    · subst hz
      have h01 : (0 : Int) + 1 = 1 := rfl
      rw [h01, g_upd_same bounds _ v (by omega) (by omega)]
      exact hv0
    · rw [g_upd_ne bounds _ v 1 (by omega) (by omega) (by omega) (by omega)]
      exact h.b1 (by omega)
  · rw [g_upd_same bounds _ v (by omega) (by omega)]
    exact hv1
  · intro k hk0 hk1
    have := h.rmin k hk0 hk1
    rw [g_upd_ne bounds _ v _ (by omega) (by omega) (by omega) (by omega)]
    omega
  · intro k hk0 hk1
    have := h.rmax k hk0 hk1
    rw [g_upd_ne bounds _ v _ (by omega) (by omega) (by omega) (by omega)]
    omega

theorem UBArr.setMin {n : Int} {sz : Nat} {domains : Arr2} {minsv maxsv : Array Int} {fv m : Int}
    {bounds : Array Int} {ranks : Arr2}
    {i j nb : Int} (h : UBArr n sz domains minsv maxsv fv m bounds ranks i j nb) (hnb : 1 ≤ nb)
    (hv0 : 0 ≤ g minsv i) (hv1 : g minsv i < n)
    (hmr : ∀ k, 0 ≤ k → k < n → 0 ≤ g minsv k) (hxr : ∀ k, 0 ≤ k → k < n → 0 ≤ g maxsv k)
    (hin : i < n) (hjn : j ≤ n) (hval : g bounds nb = (g2 domains (g minsv i)).1) :
    UBArr n sz domains minsv maxsv fv m bounds (upd2 ranks (g minsv i) MIN nb) (i + 1) j nb := by
  have hsr := h.sr
  have hmin : (MIN == MIN) = true := by decide
  refine ⟨h.sb, by simp [h.sr], h.mono, h.b0, h.b1, h.bnb, ?_, ?_⟩
  · intro k hk0 hk1
    rw [g2_upd2 ranks _ MIN nb _ hv0 (by omega) (hmr k hk0 (by omega))]
    by_cases hk : g minsv k = g minsv i
    · simp only [hk, if_true, hmin]
      exact ⟨hnb, Int.le_refl _, hval⟩
    · simp only [hk, if_false]
      by_cases hki : k = i
      · subst hki; exact absurd rfl hk
      · exact h.rmin k hk0 (by omega)
  · intro k hk0 hk1
    rw [g2_upd2 ranks _ MIN nb _ hv0 (by omega) (hxr k hk0 (by omega))]
    by_cases hk : g maxsv k = g minsv i
    · simp only [hk, if_true, hmin]; rw [← hk]; exact h.rmax k hk0 hk1
    · simp only [hk, if_false]; exact h.rmax k hk0 hk1

theorem UBArr.setMax {n : Int} {sz : Nat} {domains : Arr2} {minsv maxsv : Array Int} {fv m : Int}
    {bounds : Array Int} {ranks : Arr2}
    {i j nb : Int} (h : UBArr n sz domains minsv maxsv fv m bounds ranks i j nb) (hnb : 1 ≤ nb)
    (hv0 : 0 ≤ g maxsv j) (hv1 : g maxsv j < n)
    (hmr : ∀ k, 0 ≤ k → k < n → 0 ≤ g minsv k) (hxr : ∀ k, 0 ≤ k → k < n → 0 ≤ g maxsv k)
    (hin : i ≤ n) (hjn : j < n) (hval : g bounds nb = (g2 domains (g maxsv j)).2 + 1) :
    UBArr n sz domains minsv maxsv fv m bounds (upd2 ranks (g maxsv j) MAX nb) i (j + 1) nb := by
  have hsr := h.sr
  have hmax : (MAX == MIN) = false := by decide
  refine ⟨h.sb, by simp [h.sr], h.mono, h.b0, h.b1, h.bnb, ?_, ?_⟩
  · intro k hk0 hk1
    rw [g2_upd2 ranks _ MAX nb _ hv0 (by omega) (hmr k hk0 (by omega))]
    by_cases hk : g minsv k = g maxsv j
    · simp only [hk, if_true, hmax]; rw [← hk]; exact h.rmin k hk0 hk1
    · simp only [hk, if_false]; exact h.rmin k hk0 hk1
  · intro k hk0 hk1
    rw [g2_upd2 ranks _ MAX nb _ hv0 (by omega) (hxr k hk0 (by omega))]
    by_cases hk : g maxsv k = g maxsv j
    · simp only [hk, if_true, hmax]
      exact ⟨hnb, Int.le_refl _, hval⟩
    · simp only [hk, if_false]
      by_cases hki : k = j
      · subst hki; exact absurd rfl hk
      · exact h.rmax k hk0 (by omega)

theorem ubMinJp_spec {n : Int} {sz : Nat} {domains : Arr2} {minsv maxsv : Array Int} {fv m : Int}
    (hc : AllDiff.UBCtx n domains minsv maxsv) {bounds : Array Int} {ranks : Arr2}
    {minv maxv i j last nb : Int}
    (ha : UBArr n sz domains minsv maxsv fv m bounds ranks i j nb)
    (hi0 : 0 ≤ i) (hin : i < n) (hj0 : 0 ≤ j) (hjn : j < n) (hnb1 : 1 ≤ nb)
    (hnbij : nb ≤ i + j + 1) (hminv : minv = (g2 domains (g minsv i)).1)
    (hmaxv : maxv = (g2 domains (g maxsv j)).2 + 1) (hle : minv ≤ maxv)
    (hlast : last = g bounds nb) (hlm : last = minv) :
    ∃ s', ubMinJp n domains minsv ranks minv maxv i j false bounds last nb = .ok (.yield s') ∧
      UBInv n sz domains minsv maxsv fv m s' ∧
      s'.2.2.2.2.2.1 + s'.2.2.2.2.2.2.1 = i + j + 1 := by
  have hmr := hc.minr i hi0 hin
  have hms := hc.hmins
  have hsr := ha.sr
  have hdn := hc.hdn
  have ha' := ha.setMin hnb1 hmr.1 hmr.2 (fun k h0 h1 => (hc.minr k h0 h1).1)
    (fun k h0 h1 => (hc.maxr k h0 h1).1) hin (by omega) (by omega)
  unfold ubMinJp
  rw [rd_ok minsv i hi0 (by omega), ok_bind, wr2_ok ranks _ MIN nb hmr.1 (by omega), ok_bind]
  simp only []
  by_cases hi1 : i + 1 < n
  · rw [if_pos hi1]
    have hmr' := hc.minr (i + 1) (by omega) hi1
    rw [rd_ok minsv (i + 1) (by omega) (by omega), ok_bind,
      rd2_min_ok domains _ hmr'.1 (by omega), ok_bind]
    refine ⟨_, rfl, ⟨ha', by simp only; omega, by simp only; omega, hj0, hjn, by simp only; omega,
      by simp only; omega, fun _ => rfl, hmaxv, hlast, ?_, ?_, ?_, rfl⟩, by simp only; omega⟩
    · intro _
      simp only
      have := hc.minsorted i hi0 hi1
      omega
    · simp only; omega
    · right; exact hnb1
  · rw [if_neg hi1]
    refine ⟨_, rfl, ⟨ha', by simp only; omega, by simp only; omega, hj0, hjn, by simp only; omega,
      by simp only; omega, fun h => by simp only at h; omega, hmaxv, hlast, ?_, ?_, ?_, rfl⟩,
      by simp only; omega⟩
    · intro h; simp only at h; omega
    · simp only; omega
    · right; exact hnb1

theorem ubMaxJp_spec {n : Int} {sz : Nat} {domains : Arr2} {minsv maxsv : Array Int} {fv m : Int}
    (hc : AllDiff.UBCtx n domains minsv maxsv) {bounds : Array Int} {ranks : Arr2}
    {minv maxv i j last nb : Int}
    (ha : UBArr n sz domains minsv maxsv fv m bounds ranks i j nb)
    (hi0 : 0 ≤ i) (hin : i ≤ n) (hj0 : 0 ≤ j) (hjn : j < n) (hnb1 : 1 ≤ nb)
    (hnbij : nb ≤ i + j + 1) (hminv : i < n → minv = (g2 domains (g minsv i)).1)
    (hgt : i < n → maxv < minv)
    (hmaxv : maxv = (g2 domains (g maxsv j)).2 + 1)
    (hlast : last = g bounds nb) (hlm : last = maxv) :
    (∃ s', ubMaxJp n domains maxsv ranks minv maxv i j false bounds last nb = .ok (.yield s') ∧
      UBInv n sz domains minsv maxsv fv m s' ∧
      s'.2.2.2.2.2.1 + s'.2.2.2.2.2.2.1 = i + j + 1) ∨
    (∃ s', ubMaxJp n domains maxsv ranks minv maxv i j false bounds last nb = .ok (.done s') ∧
      UBPost n sz domains minsv maxsv fv m s') := by
  have hmr := hc.maxr j hj0 hjn
  have hms := hc.hmaxs
  have hsr := ha.sr
  have hdn := hc.hdn
  have ha' := ha.setMax hnb1 hmr.1 hmr.2 (fun k h0 h1 => (hc.minr k h0 h1).1)
    (fun k h0 h1 => (hc.maxr k h0 h1).1) hin hjn (by omega)
  unfold ubMaxJp
  rw [rd_ok maxsv j hj0 (by omega), ok_bind, wr2_ok ranks _ MAX nb hmr.1 (by omega), ok_bind]
  simp only []
  by_cases hj1 : j + 1 = n
  · right
    have hcond : (j + 1 == n) = true := by simpa using hj1
    rw [if_pos hcond]
    have hieq : i = n := by
      by_cases h : i < n
      · have h1 := hc.lastmax i hi0 h
        have h2 := hgt h
        have h3 := hminv h
        have hjj : j = n - 1 := by omega
        subst hjj
        omega
      · omega
    subst hieq
    refine ⟨_, rfl, ⟨?_, hnb1, by simp only; omega, rfl⟩⟩
    simp only
    rw [hj1] at ha'
    exact ha'
  · left
    have hcond : ¬ (j + 1 == n) = true := by simpa using hj1
    rw [if_neg hcond]
    have hmr' := hc.maxr (j + 1) (by omega) (by omega)
    rw [rd_ok maxsv (j + 1) (by omega) (by omega), ok_bind,
      rd2_max_ok domains _ hmr'.1 (by omega), ok_bind]
    refine ⟨_, rfl, ⟨ha', hi0, hin, by simp only; omega, by simp only; omega, by simp only; omega,
      by simp only; omega, hminv, rfl, hlast, ?_, ?_, ?_, rfl⟩, by simp only; omega⟩
    · intro h
      simp only at h ⊢
      have := hgt h
      omega
    · simp only
      have := hc.maxsorted j hj0 (by omega)
      omega
    · right; exact hnb1

theorem ubBody_spec {n : Int} {sz : Nat} {domains : Arr2} {minsv maxsv : Array Int} {fv m : Int}
    (hc : AllDiff.UBCtx n domains minsv maxsv) (hdom : DomIn n domains fv m)
    (hsz : (sz : Int) = 2 * n + 2) (x : Nat) (s : USt)
    (hi : UBInv n sz domains minsv maxsv fv m s) :
    (∃ s', ubBody n domains minsv maxsv x s = .ok (.yield s') ∧
      UBInv n sz domains minsv maxsv fv m s' ∧
      s'.2.2.2.2.2.1 + s'.2.2.2.2.2.2.1 = s.2.2.2.2.2.1 + s.2.2.2.2.2.2.1 + 1) ∨
    (∃ s', ubBody n domains minsv maxsv x s = .ok (.done s') ∧
      UBPost n sz domains minsv maxsv fv m s') := by
  obtain ⟨bounds, ranks, minv, maxv, last, i, j, nb, done⟩ := s
  obtain ⟨ha, hi0, hin, hj0, hjn, hnb0, hnbij, hminv, hmaxv, hlast, hlmin, hlmax, hstart, hdone⟩ := hi
  simp only at ha hi0 hin hj0 hjn hnb0 hnbij hminv hmaxv hlast hlmin hlmax hstart hdone
  subst hdone
  have hsb := ha.sb
  have hxr := hc.maxr j hj0 hjn
  have hdx := hdom _ hxr.1 hxr.2
  unfold ubBody
  simp only []
  by_cases hbr : i < n ∧ minv ≤ maxv
  · rw [if_pos hbr]
    left
    have hmr := hc.minr i hi0 hbr.1
    have hdm := hdom _ hmr.1 hmr.2
    have hmv := hminv hbr.1
    by_cases hne : minv = last
    · have hcond : ¬ (minv != last) = true := by simp [hne]
      rw [if_neg hcond]
      have hB : 1 ≤ nb := by
        rcases hstart with ⟨_, _, _, h4, _⟩ | h
        · omega
        · exact h
      exact ubMinJp_spec hc ha hi0 hbr.1 hj0 hjn hB (by omega) hmv hmaxv hbr.2 hlast hne.symm
    · have hcond : (minv != last) = true := by simp [hne]
      rw [if_pos hcond, wr_ok bounds (nb + 1) minv (by omega) (by omega), ok_bind]
      have hlt : g bounds nb < minv := by have := hlmin hbr.1; omega
      have ha' := ha.push minv hnb0 (by omega) hlt (by omega) (by omega)
      exact ubMinJp_spec hc ha' hi0 hbr.1 hj0 hjn (by omega) (by omega) hmv hmaxv hbr.2
        (g_upd_same bounds _ _ (by omega) (by omega)).symm rfl
  · rw [if_neg hbr]
    have hB : 1 ≤ nb := by
      rcases hstart with ⟨_, h2, _, _, h5⟩ | h
      · exact absurd ⟨by omega, h5⟩ hbr
      · exact h
    have hgt : i < n → maxv < minv := fun h => by
      by_cases h' : minv ≤ maxv
      · exact absurd ⟨h, h'⟩ hbr
      · omega
    by_cases hne : maxv = last
    · have hcond : ¬ (maxv != last) = true := by simp [hne]
      rw [if_neg hcond]
      exact ubMaxJp_spec hc ha hi0 hin hj0 hjn hB (by omega) hminv hgt hmaxv hlast hne.symm
    · have hcond : (maxv != last) = true := by simp [hne]
      rw [if_pos hcond, wr_ok bounds (nb + 1) maxv (by omega) (by omega), ok_bind]
      have hlt : g bounds nb < maxv := by omega
      have ha' := ha.push maxv hnb0 (by omega) hlt (by omega) (by omega)
      exact ubMaxJp_spec hc ha' hi0 hin hj0 hjn (by omega) (by omega) hminv hgt hmaxv
        (g_upd_same bounds _ _ (by omega) (by omega)).symm rfl

/-! ### `update_bounds` -/

/-- the loop of `update_bounds` terminates through `break` -/
theorem update_bounds_loop {n : Int} {sz : Nat} {domains : Arr2} {minsv maxsv : Array Int}
    {fv m : Int} (hc : AllDiff.UBCtx n domains minsv maxsv) (hm : 0 ≤ m)
    (hdom : DomIn n domains fv m)
    (hsz : (sz : Int) = 2 * n + 2) (bounds : Array Int) (ranks : Arr2)
    (hsb : bounds.size = sz) (hsr : (ranks.size : Int) = n) :
    ∃ s, forIn (List.range' 0 (fuel (upd bounds 0 (fv - 2))))
        ((upd bounds 0 (fv - 2), ranks, (g2 domains (g minsv 0)).1, (g2 domains (g maxsv 0)).2 + 1,
          fv - 2, 0, 0, 0, false) : USt) (ubBody n domains minsv maxsv) = .ok s ∧
      UBPost n sz domains minsv maxsv fv m s := by
  have hn := hc.hn
  have hm0 := hc.minr 0 (by omega) (by omega)
  have hx0 := hc.maxr 0 (by omega) (by omega)
  have hd0 := hdom _ hm0.1 hm0.2
  have hdx := hdom _ hx0.1 hx0.2
  refine forIn_list_except
      (Inv := fun (rest : List Nat) (s : USt) => UBInv n sz domains minsv maxsv fv m s ∧
        2 * n - s.2.2.2.2.2.1 - s.2.2.2.2.2.2.1 ≤ rest.length)
      _ _ ?_ ?_ _ _ ?_
  · rintro x rest s ⟨hi, hfuel⟩
    rcases ubBody_spec hc hdom hsz x s hi with ⟨s', he, hi', hprog⟩ | ⟨s', he, hp⟩
    · left
      refine ⟨s', he, hi', ?_⟩
      simp only [List.length_cons] at hfuel
      omega
    · right
      exact ⟨s', he, hp⟩
  · rintro s ⟨hi, hfuel⟩
    have := hi.in'
    have := hi.jn
    simp only [List.length_nil] at hfuel
    omega
  · have hg0 : g (upd bounds 0 (fv - 2)) 0 = fv - 2 :=
      g_upd_same bounds 0 _ (by omega) (by omega)
    refine ⟨⟨⟨by simp [hsb], hsr, fun k h0 h1 => by simp only at h1; omega, hg0,
      fun h => by simp only at h; omega, by simp only; have := hm; omega,
      fun k h0 h1 => by simp only at h1; omega, fun k h0 h1 => by simp only at h1; omega⟩,
      by simp, by simp only; omega, by simp, by simp only; omega, by simp,
      by simp, fun _ => rfl, rfl, ?_, ?_, ?_, ?_, rfl⟩, ?_⟩
    · simp only; rw [hg0]
    · intro _; simp only; omega
    · simp only; omega
    · left; exact ⟨rfl, rfl, rfl, by simp only; omega, hc.first⟩
    · simp only [List.length_range', fuel, size_upd]
      omega

theorem update_bounds_spec {n : Int} {sz : Nat} {domains : Arr2} {minsv maxsv : Array Int}
    {l u : PSum} {fv m : Int}
    (hc : AllDiff.UBCtx n domains minsv maxsv) (hl : PS l fv m) (hu : PS u fv m)
    (hdom : ∀ v : Int, 0 ≤ v → v < n → fv ≤ (g2 domains v).1 ∧
      (g2 domains v).1 ≤ (g2 domains v).2 ∧ (g2 domains v).2 ≤ fv + m - 1)
    (hsz : (sz : Int) = 2 * n + 2) (bounds : Array Int) (ranks : Arr2)
    (hsb : bounds.size = sz) (hsr : (ranks.size : Int) = n)
    (hsurjmin : ∀ v, 0 ≤ v → v < n → ∃ k, 0 ≤ k ∧ k < n ∧ g minsv k = v)
    (hsurjmax : ∀ v, 0 ≤ v → v < n → ∃ k, 0 ≤ k ∧ k < n ∧ g maxsv k = v) :
    ∃ r : Int × Array Int × Arr2, update_bounds bounds n domains ranks minsv maxsv l u = .ok r ∧
      1 ≤ r.1 ∧ r.1 ≤ 2 * n ∧ r.2.1.size = sz ∧ (r.2.2.size : Int) = n ∧
      BC r.2.1 (r.1 + 1) fv m ∧
      ∀ v, 0 ≤ v → v < n →
        1 ≤ (g2 r.2.2 v).1 ∧ (g2 r.2.2 v).1 < (g2 r.2.2 v).2 ∧ (g2 r.2.2 v).2 ≤ r.1 ∧
        g r.2.1 (g2 r.2.2 v).1 = (g2 domains v).1 ∧
        g r.2.1 (g2 r.2.2 v).2 = (g2 domains v).2 + 1 := by
  have hn := hc.hn
  have hm0 := hc.minr 0 (by omega) (by omega)
  have hx0 := hc.maxr 0 (by omega) (by omega)
  have hms := hc.hmins
  have hxs := hc.hmaxs
  have hdn := hc.hdn
  have hm := hl.hm
  have hl1 := hl.s1
  have hu2 := hu.s2
  have el : (l.1.size : Int) - 1 = m + 5 := by omega
  have eu : (u.2.size : Int) - 1 = m + 5 := by omega
  have e1 : fv - 3 + 1 = fv - 2 := by omega
  rw [update_bounds_eq, rd_ok minsv 0 (by omega) (by omega), ok_bind,
    rd2_min_ok domains _ hm0.1 (by omega), ok_bind, rd_ok maxsv 0 (by omega) (by omega), ok_bind,
    rd2_max_ok domains _ hx0.1 (by omega), ok_bind, rdLast_ok l.1 (by omega), ok_bind, el,
    hl.last1, e1, wr_ok bounds 0 _ (by omega) (by omega), ok_bind, range_forIn_eq]
  refine except_bind_ok (P := fun s => UBPost n sz domains minsv maxsv fv m s)
    (update_bounds_loop hc hm hdom hsz bounds ranks hsb hsr) ?_
  rintro s hp
  obtain ⟨b, r, minv, maxv, last, i, j, nb, done⟩ := s
  obtain ⟨ha, hnb1, hnb2, hdone⟩ := hp
  simp only at ha hnb1 hnb2 hdone
  subst hdone
  have hsb' := ha.sb
  simp only [Bool.not_true, Bool.false_eq_true, if_false]
  unfold ubFinish
  simp only []
  rw [rdLast_ok u.2 (by omega), ok_bind, eu, hu.last2,
    wr_ok b (nb + 1) _ (by omega) (by omega), ok_bind]
  refine ⟨_, rfl, ?_⟩
  simp only
  have hkeep : ∀ k, 0 ≤ k → k ≤ nb → g (upd b (nb + 1) (fv + m + 1 + 1)) k = g b k :=
    fun k h0 h1 => g_upd_ne b _ _ k (by omega) (by omega) h0 (by omega)
  have hBC : BC (upd b (nb + 1) (fv + m + 1 + 1)) (nb + 1) fv m := by
    refine ⟨by omega, by simp only [size_upd]; omega, ?_, ?_, ?_, ?_, ?_⟩
    · intro k h0 h1
      by_cases hk : k = nb
      · subst hk
        rw [g_upd_same b _ _ (by omega) (by omega), hkeep k h0 (by omega)]
        have := ha.bnb
        omega
      · rw [hkeep k h0 (by omega), hkeep (k + 1) (by omega) (by omega)]
        exact ha.mono k h0 (by omega)
    · rw [hkeep 0 (by omega) (by omega)]; exact ha.b0
    · rw [hkeep 1 (by omega) (by omega)]; exact ha.b1 hnb1
    · have e : nb + 1 - 1 = nb := by omega
      rw [e, hkeep nb (by omega) (by omega)]; exact ha.bnb
    · rw [g_upd_same b _ _ (by omega) (by omega)]; omega
  refine ⟨hnb1, hnb2, by simp [hsb'], ha.sr, hBC, ?_⟩
  intro v h0 h1
  obtain ⟨k, hk0, hk1, hkv⟩ := hsurjmin v h0 h1
  obtain ⟨k', hl0, hl1, hlv⟩ := hsurjmax v h0 h1
  have h1 := ha.rmin k hk0 hk1
  have h2 := ha.rmax k' hl0 hl1
  rw [hkv] at h1
  rw [hlv] at h2
  have hd := hdom v h0 (by omega)
  have e1 := hkeep _ (by omega : 0 ≤ (g2 r v).1) h1.2.1
  have e2 := hkeep _ (by omega : 0 ≤ (g2 r v).2) h2.2.1
  refine ⟨h1.1, ?_, h2.2.1, by rw [e1]; exact h1.2.2, by rw [e2]; exact h2.2.2⟩
  by_cases hlt : (g2 r v).1 < (g2 r v).2
  · exact hlt
  · have := hBC.le' (g2 r v).2 (g2 r v).1 (by omega) (by omega) (by omega)
    omega

end Gcc
end Nucs
