import NucsProofs.Propagators.GccSoundAsm2
import NucsProofs.Propagators.GccExistMix
import NucsProofs.Propagators.GccExistUpper
import NucsProofs.Propagators.GccExistLower
/-!
  Completeness of the failure detection of the ported gcc — the core argument, detached from the
  monadic code: from Hall's condition for the upper capacities on rank intervals (established by a
  successful `filter_lower_max`), the exact filling of the cells by the used variables (established
  by a successful `filter_lower_min`) and the two preliminary tests, a solution exists.
-/
namespace Nucs
namespace Gcc
open AllDiff (g g2 cinR)

/-- no demand on a stretch of values whose `get_sum` is not positive -/
theorem cap_zero_of_gsum {l : PSum} {fv m : Int} (hl : PS l fv m) (a b : Int) (ha : fv - 2 ≤ a)
    (hb : b ≤ fv + m + 1) (hs : ¬ gsum l a b > 0) :
    ∀ v, a ≤ v → v ≤ b → cap l fv v = 0 := by
  intro v h1 h2
  rw [gsum_eq hl, if_pos (by omega)] at hs
  have hm := hl.hm
  have m1 := hl.le (a - fv + 2) (v - fv + 2) (by omega) (by omega) (by omega)
  have m2 := hl.le (v - fv + 3) (b - fv + 3) (by omega) (by omega) (by omega)
  have m3 := hl.le (v - fv + 2) (v - fv + 3) (by omega) (by omega) (by omega)
  unfold cap
  omega

theorem feasible_core {N n fv m : Int} {bounds : Array Int} {ranks domains : Arr2} {l u : PSum}
    {valuesL valuesU : Array Int} {lows ups : Int → Int} {all UL : List Int} {cf : Int → Int}
    {mn mx : Int}
    (hb : BC bounds N fv m) (hpl : PS l fv m) (_hpu : PS u fv m) (hus : PSStrict u m)
    (hstepL : ∀ k, 2 ≤ k → k < m + 2 → g l.1 (k + 1) = g l.1 k + g valuesL (k - 2))
    (hstepU : ∀ k, 2 ≤ k → k < m + 2 → g u.1 (k + 1) = g u.1 k + g valuesU (k - 2))
    (hvL : ∀ j, 0 ≤ j → j < m → g valuesL j = lows j)
    (hvU : ∀ j, 0 ≤ j → j < m → g valuesU j = ups j)
    (_hl0 : ∀ k, 0 ≤ k → k < m → 0 ≤ lows k) (hlu : ∀ k, 0 ≤ k → k < m → lows k ≤ ups k)
    (hperm : all.Perm (rangeUp 0 n)) (hnodup : all.Nodup)
    (hrk : RanksOK N n bounds ranks domains)
    (hdom : ∀ v, 0 ≤ v → v < n → fv ≤ (g2 domains v).1 ∧ (g2 domains v).2 ≤ fv + m - 1)
    (hctx : AllDiff.RankCtx N (K u fv bounds) (fun v => (g2 ranks v).1) (fun v => (g2 ranks v).2) all)
    (hallR : ∀ ja yb, 1 ≤ ja → ja < yb → yb ≤ N →
      cinR (fun v => (g2 ranks v).1) (fun v => (g2 ranks v).2) all ja yb ≤
        K u fv bounds yb - K u fv bounds ja)
    (hUsub : UL.Sublist all)
    (hcf : ∀ p ∈ UL, (g2 ranks p).1 < cf p ∧ cf p ≤ (g2 ranks p).2)
    (hcnt : ∀ k, 2 ≤ k → k ≤ N - 1 → occ cf UL k = K l fv bounds k - K l fv bounds (k - 1))
    (hmn1 : g bounds 1 ≤ mn) (_hmn2 : fv ≤ mn) (hmn3 : mn ≤ fv + m) (hc1 : ¬ gsum l fv (mn - 1) > 0)
    (hmx1 : mx + 1 ≤ g bounds (N - 1)) (_hmx2 : mx ≤ fv + m - 1) (hmx3 : fv - 1 ≤ mx)
    (hc2 : ¬ gsum l (mx + 1) (fv + m - 1) > 0) :
    ∃ τ : Int → Int, GSol n fv m domains lows ups τ := by
  have hN := hb.hN
  have hm := hpl.hm
  have hmem : ∀ p ∈ all, 0 ≤ p ∧ p < n := by
    intro p hp
    have := hperm.mem_iff.1 hp
    rwa [mem_rangeUp] at this
  have hlo : ∀ p ∈ all, (fun v => (g2 domains v).1) p = g bounds ((fun v => (g2 ranks v).1) p) := by
    intro p hp; have := hrk p (hmem p hp).1 (hmem p hp).2; simp only; omega
  have hhi : ∀ p ∈ all, (fun v => (g2 domains v).2) p + 1 =
      g bounds ((fun v => (g2 ranks v).2) p) := by
    intro p hp; have := hrk p (hmem p hp).1 (hmem p hp).2; simp only; omega
  -- an assignment respecting the upper capacities
  obtain ⟨σU, hU1, hU2⟩ := upper_witness hctx hnodup hallR (g bounds)
    (fun v => (g2 domains v).1) (fun v => (g2 domains v).2) (cumOf u fv)
    (fun i j h0 hij hj => hb.lt' i j h0 hij hj) hlo hhi (fun k _ _ => rfl)
    (by
      intro v hv1 hv2
      rw [hb.b0] at hv1
      rw [hb.bN] at hv2
      have := hus (v - fv + 2) (by omega) (by omega)
      unfold cumOf
      have e : v + 1 - fv + 2 = v - fv + 2 + 1 := by omega
      rw [e]; exact this)
  -- Hall's condition for the lower capacities
  have hL := lower_hall_of_cells hN (g bounds) (fun i j h0 hij hj => hb.lt' i j h0 hij hj) all UL
    hUsub (fun v => (g2 ranks v).1) (fun v => (g2 ranks v).2) (fun v => (g2 domains v).1)
    (fun v => (g2 domains v).2)
    (by intro p hp; have := hrk p (hmem p hp).1 (hmem p hp).2; omega)
    hlo hhi cf hcf (cumOf l fv) (fun v => cap l fv v) (fun v => cumOf_succ l fv v)
    fv (fv + m) hb.b1 hb.bnb
    (fun v h1 h2 => cap_nonneg hpl v (by omega) (by omega))
    (fun k h1 h2 => hcnt k h1 h2)
    (by
      intro v h1 h2
      exact cap_zero_of_gsum hpl fv (mn - 1) (by omega) (by omega) hc1 v h1 (by omega))
    (by
      intro v h1 h2
      exact cap_zero_of_gsum hpl (mx + 1) (fv + m - 1) (by omega) (by omega) hc2 v (by omega)
        (by omega))
  -- combination
  obtain ⟨σ, hs1, hs2⟩ := gcc_mix all hnodup (fun v => (g2 domains v).1) (fun v => (g2 domains v).2)
    (fun v => cap l fv v) (fun v => cap u fv v) fv (fv + m)
    (by
      intro p hp
      have h1 := hdom p (hmem p hp).1 (hmem p hp).2
      have h2 := hrk p (hmem p hp).1 (hmem p hp).2
      have h3 := hb.lt' (g2 ranks p).1 (g2 ranks p).2 (by omega) (by omega) (by omega)
      omega)
    (by
      intro v h1 h2
      have e : v = fv + (v - fv) := by omega
      refine ⟨cap_nonneg hpl v (by omega) (by omega), ?_⟩
      rw [e, cap_values hstepL (v - fv) (by omega) (by omega),
        cap_values hstepU (v - fv) (by omega) (by omega), hvL _ (by omega) (by omega),
        hvU _ (by omega) (by omega)]
      exact hlu _ (by omega) (by omega))
    σU hU1
    (by
      intro v h1 h2
      have := hU2 v (by rw [hb.b0]; omega) (by rw [hb.bN]; omega)
      rw [cumOf_succ] at this; exact this)
    hL
  refine ⟨σ, ?_, ?_, ?_⟩
  · intro v h0 h1
    exact hs1 v (hperm.mem_iff.2 (by rw [mem_rangeUp]; exact ⟨h0, h1⟩))
  · intro j h0 h1
    have := (hs2 (fv + j) (by omega) (by omega)).1
    rw [cap_values hstepL j h0 h1, hvL j h0 h1, occ_perm σ hperm] at this
    exact this
  · intro j h0 h1
    have := (hs2 (fv + j) (by omega) (by omega)).2
    rw [cap_values hstepU j h0 h1, hvU j h0 h1, occ_perm σ hperm] at this
    exact this

end Gcc
end Nucs
