import NucsProofs.Propagators.GccExistUpper
import NucsProofs.Propagators.AlldiffCorrectG2
/-!
  The bound recorded by an upper-capacity pass of the gcc propagator is SUPPORTED — pure
  combinatorics.

  Capacity expansion of the corresponding alldifferent result (`AllDiff.port_bound_support`): on the
  expanded box of `GccExistUpper` (value `v` of capacity `cum (v + 1) - cum v` ↦ block
  `[cum v, cum (v + 1))`) the completeness half of `RFact` says that the new expanded minimum of the
  variable `k` lies in no Hall interval foreign to its domain, hence there is a matching of the
  expanded box in which `k` takes that value; mapping the expanded values back to their blocks
  gives an assignment that respects the upper capacities and in which `k` takes the new bound.
-/
namespace Nucs
namespace Gcc
open AllDiff (cinR cinV RankCtx RFact)

/-! ### the position of a variable in the list of variables -/

theorem getDom_map_idxOf (D : Int → Dom) (L : List Int) (k : Int) (hk : k ∈ L) :
    getDom (L.map D) (L.idxOf k) = D k := by
  have h : L.idxOf k < L.length := List.idxOf_lt_length_of_mem hk
  unfold getDom
  rw [List.getD_eq_getElem?_getD, List.getElem?_map, List.getElem?_eq_getElem h]
  simp

theorem getI_map_idxOf (τ : Int → Int) (L : List Int) (k : Int) (hk : k ∈ L) :
    getI (L.map τ) (L.idxOf k) = τ k := by
  have h : L.idxOf k < L.length := List.idxOf_lt_length_of_mem hk
  unfold getI
  rw [List.getD_eq_getElem?_getD, List.getElem?_map, List.getElem?_eq_getElem h]
  simp

/-! ### a matching of the expanded box with one variable fixed -/

/-- pairwise distinct expanded values inside the expanded domains, the variable `k` taking its new
    expanded minimum -/
theorem expanded_matching_fix {N : Int} {bd rx ry : Int → Int} {all : List Int}
    (hctx : RankCtx N bd rx ry all) (hnodup : all.Nodup)
    (hallR : ∀ ja yb, 1 ≤ ja → ja < yb → yb ≤ N → cinR rx ry all ja yb ≤ bd yb - bd ja)
    (nm : Int → Int) (fact : ∀ u ∈ all, RFact N bd rx ry all u (nm u))
    (k w : Int) (hk : k ∈ all) (hnm : nm k = bd w) (hw1 : rx k ≤ w) (hw2 : w < ry k) :
    ∃ τ : Int → Int, (∀ x ∈ all, bd (rx x) ≤ τ x ∧ τ x < bd (ry x)) ∧ (all.map τ).Nodup ∧
      τ k = bd w := by
  have P := AllDiff.passVal_of_rank (lo := fun u => bd (rx u)) (hi := fun u => bd (ry u) - 1) hctx
    (fun _ _ => rfl) (fun u _ => by omega) hallR nm fact
  have hr := hctx.rk k hk
  have hpos : all.idxOf k < (all.map (xdom bd rx ry)).length := by
    rw [List.length_map]; exact List.idxOf_lt_length_of_mem hk
  have hgd := getDom_map_idxOf (xdom bd rx ry) all k hk
  have hv1 : bd (rx k) ≤ bd w := hctx.le (rx k) w (by omega) hw1 (by omega)
  have hv2 : bd w < bd (ry k) := hctx.mono w (ry k) (by omega) hw2 (by omega)
  obtain ⟨t, ht, hnd, htk⟩ := AllDiff.port_bound_support hall_matching
    (all.map (xdom bd rx ry)) (nonempty_xdom hctx) (hallOK_xdom hctx hallR) (all.idxOf k) hpos
    (bd w) (by rw [hgd]; exact hv1) (by rw [hgd]; simp only [xdom]; omega) (by
      intro a b hH hwith
      obtain ⟨hab, hH⟩ := hH
      rw [insideCount_xdom] at hH
      rw [hgd] at hwith
      have := P.cmp k hk a b hab hH (by
        intro hc
        have hc' : (xdom bd rx ry k).within a b = true := (Dom.within_iff _ _ _).2 hc
        rw [hc'] at hwith
        cases hwith)
      rw [hnm] at this
      exact this)
  obtain ⟨τ, h1, h2⟩ := fun_of_inBox (xdom bd rx ry) all hnodup t ht
  refine ⟨τ, ?_, by rw [h2]; exact hnd, ?_⟩
  · intro x hx
    have := h1 x hx
    simp only [inDom, xdom] at this
    omega
  · rw [← getI_map_idxOf τ all k hk, h2]
    exact htk

/-! ### the supporting assignment -/

/-- **the new bound recorded by an upper-capacity pass is attained by an assignment that respects
    the upper capacities** -/
theorem upper_support {N : Int} {bd rx ry : Int → Int} {all : List Int}
    (hctx : AllDiff.RankCtx N bd rx ry all) (hnodup : all.Nodup)
    (hallR : ∀ ja yb, 1 ≤ ja → ja < yb → yb ≤ N → AllDiff.cinR rx ry all ja yb ≤ bd yb - bd ja)
    (bnd lo hi cum : Int → Int)
    (hbnd : ∀ i j, 0 ≤ i → i < j → j ≤ N → bnd i < bnd j)
    (hlo : ∀ u ∈ all, lo u = bnd (rx u)) (hhi : ∀ u ∈ all, hi u + 1 = bnd (ry u))
    (hbd : ∀ k, 0 ≤ k → k ≤ N → bd k = cum (bnd k))
    (hcum : ∀ v, bnd 0 ≤ v → v < bnd N → cum v < cum (v + 1))
    (nm : Int → Int) (fact : ∀ u ∈ all, AllDiff.RFact N bd rx ry all u (nm u))
    (k w : Int) (hk : k ∈ all) (hnm : nm k = bd w) (hw1 : rx k ≤ w) (hw2 : w < ry k) :
    ∃ σ : Int → Int, (∀ x ∈ all, lo x ≤ σ x ∧ σ x ≤ hi x) ∧
      (∀ v, bnd 0 ≤ v → v < bnd N → occ σ all v ≤ cum (v + 1) - cum v) ∧ σ k = bnd w := by
  obtain ⟨τ, hτ, hnd, hτk⟩ := expanded_matching_fix hctx hnodup hallR nm fact k w hk hnm hw1 hw2
  -- the block of every variable
  have hex : ∀ x ∈ all, ∃ v, lo x ≤ v ∧ v ≤ hi x ∧ cum v ≤ τ x ∧ τ x < cum (v + 1) := by
    intro x hx
    have hr := hctx.rk x hx
    have e1 := hlo x hx
    have e2 := hhi x hx
    have b1 := hbd (rx x) (by omega) (by omega)
    have b2 := hbd (ry x) (by omega) (by omega)
    have hlt := hbnd (rx x) (ry x) (by omega) hr.2.1 (by omega)
    have ht := hτ x hx
    rw [b1, ← e1] at ht
    rw [b2, ← e2] at ht
    exact block_exists cum (τ x) (hi x - lo x).toNat (lo x) (hi x) (by omega) ht.1 ht.2
  have hex' : ∀ x, ∃ w, x ∈ all →
      lo x ≤ w ∧ w ≤ hi x ∧ cum w ≤ τ x ∧ τ x < cum (w + 1) := by
    intro x
    by_cases hx : x ∈ all
    · obtain ⟨w, hw⟩ := hex x hx
      exact ⟨w, fun _ => hw⟩
    · exact ⟨0, fun h => absurd h hx⟩
  -- the block of `k` is `bnd w`
  have hkblk : lo k ≤ bnd w ∧ bnd w ≤ hi k ∧ cum (bnd w) ≤ τ k ∧ τ k < cum (bnd w + 1) := by
    have hr := hctx.rk k hk
    have e1 := hlo k hk
    have e2 := hhi k hk
    have bw := hbd w (by omega) (by omega)
    have h0 := hbnd 0 w (by omega) (by omega) (by omega)
    have hN := hbnd w N (by omega) (by omega) (by omega)
    have h2 := hbnd w (ry k) (by omega) hw2 (by omega)
    have hc := hcum (bnd w) (by omega) hN
    refine ⟨?_, by omega, by omega, by omega⟩
    by_cases he : rx k = w
    · rw [e1, he]; exact Int.le_refl _
    · have := hbnd (rx k) w (by omega) (by omega) (by omega); omega
  let σ : Int → Int := fun x => if x = k then bnd w else Classical.choose (hex' x)
  have hσk : σ k = bnd w := by simp only [σ, if_true]
  have hσ : ∀ x ∈ all, lo x ≤ σ x ∧ σ x ≤ hi x ∧ cum (σ x) ≤ τ x ∧ τ x < cum (σ x + 1) := by
    intro x hx
    by_cases hxk : x = k
    · subst hxk; rw [hσk]; exact hkblk
    · have e : σ x = Classical.choose (hex' x) := by simp only [σ, if_neg hxk]
      rw [e]
      exact Classical.choose_spec (hex' x) hx
  refine ⟨σ, fun x hx => ⟨(hσ x hx).1, (hσ x hx).2.1⟩, ?_, hσk⟩
  intro v hv1 hv2
  apply occ_le_of_block τ σ cum all hnd v (Int.le_of_lt (hcum v hv1 hv2))
  intro x hx hxv
  have := hσ x hx
  rw [hxv] at this
  exact ⟨this.2.2.1, this.2.2.2⟩

end Gcc
end Nucs
