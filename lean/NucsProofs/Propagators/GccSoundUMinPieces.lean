import NucsProofs.Propagators.GccSoundUMinDefs
/-!
  Semantic soundness of the ported gcc, `filter_upper_min`: the pieces of the pass
  (PortGccUMinDefs) with specifications stronger than the memory-safety ones of PortGccUMinInit /
  PortGccUMinBody:

  (A) `uminInit_sem`: besides `UMinCore` (as in `uminInit_spec`) the exact content of `c`, `tl`,
      `sets` after the initialisation, in terms of the partial sums `K l fv bounds`;
  (B) `uminFin_rel` … `uminElse_rel`: the branch that uses the variable satisfies the relation
      `UERel` of GccSoundUMinMath between the arrays before and after, read as `tf := g tl`,
      `df := dfu Kf M c`, `sf := g sets`.

  Mirror image of GccSoundLMinInit / GccSoundLMinElse; the proofs follow the ones of
  PortGccUMinInit / PortGccUMinBody with stronger conclusions.
-/
namespace Nucs
namespace Gcc

open AllDiff (g upd g2 upd2 ok_bind pure_eq_ok except_bind_ok forIn_list_except range_forIn_eq
  size_upd size_upd2 g_upd g_upd_same g_upd_ne UChain UPre)

/-! ## (A) the initialisation -/

/-- a weakly increasing `Kf` without root (strict increase `Kf k < Kf (k+1)`) in `]r, v[` is
    constant on `[r + 1, v]` -/
theorem uflat_of_noRT {Kf : Int → Int} {r v : Int}
    (hm : ∀ k, r < k → k < v → Kf k ≤ Kf (k + 1))
    (hn : ∀ k, r < k → k < v → ¬ UmRT Kf k) :
    ∀ n : Nat, r + 1 + n ≤ v → Kf (r + 1 + n) = Kf (r + 1) := by
  intro n
  induction n with
  | zero => intro _; simp
  | succ n ih =>
    intro h
    have h1 := ih (by omega)
    have h2 := hm (r + 1 + (n : Int)) (by omega) (by omega)
    have h3 : ¬ Kf (r + 1 + (n : Int)) < Kf (r + 1 + (n : Int) + 1) :=
      hn (r + 1 + (n : Int)) (by omega) (by omega)
    have e : r + 1 + ((n + 1 : Nat) : Int) = r + 1 + (n : Int) + 1 := by omega
    rw [e]
    omega

/-- what a root `r` of `tl` says, from the description `UmD (UmRT Kf)` -/
theorem utl_sem {Kf : Int → Int} {M : Int} {tl : Array Int}
    (hKm : ∀ k, 0 ≤ k → k ≤ M → Kf k ≤ Kf (k + 1))
    (hT : ∀ k, 0 ≤ k → k ≤ M → UmD (UmRT Kf) M k (g tl k))
    (r : Int) (hr0 : 0 ≤ r) (hrM : r ≤ M) (hgt : g tl r > r) :
    Kf r < Kf (r + 1) ∧ g tl r ≤ M + 1 ∧
      ∀ k, r < k → k ≤ g tl r → Kf k = Kf (r + 1) := by
  have hd := hT r hr0 hrM
  have hr : UmRT Kf r := by
    apply Classical.byContradiction
    intro hn
    have := (hd.2 hn).1
    omega
  obtain ⟨d1, d2, d3, d4⟩ := hd.1 hr
  have hflat := uflat_of_noRT (Kf := Kf) (r := r) (v := g tl r)
    (fun k h1 h2 => hKm k (by omega) (by omega)) d4
  refine ⟨hr, d2, ?_⟩
  intro k h1 h2
  have := hflat (k - (r + 1)).toNat (by omega)
  have e : r + 1 + ((k - (r + 1)).toNat : Int) = k := by omega
  rw [e] at this
  exact this

/-- what the direction of a pointer of `sets` says, from the description `UmD (UmRS Kf)` -/
theorem usets_sem {Kf : Int → Int} {M : Int} {sets : Array Int}
    (hKm : ∀ k, 0 ≤ k → k ≤ M → Kf k ≤ Kf (k + 1))
    (hS : ∀ k, 0 ≤ k → k ≤ M → UmD (UmRS Kf) M k (g sets k))
    (q : Int) (h1 : 1 ≤ q) (h2 : q ≤ M) :
    g sets q < q ↔ Kf q = Kf (q - 1) := by
  have hd := hS q (by omega) h2
  have hm := hKm (q - 1) (by omega) (by omega)
  have e : q - 1 + 1 = q := by omega
  rw [e] at hm
  constructor
  · intro hlt
    have hn : ¬ UmRS Kf q := by
      intro hr
      have := (hd.1 hr).1
      omega
    have : ¬ Kf (q - 1) < Kf q := fun h => hn (Or.inr h)
    omega
  · intro he
    have hn : ¬ UmRS Kf q := by
      rintro (hr | hr)
      · omega
      · omega
    exact (hd.2 hn).1

/-- a node of the initial `tl` is a root iff its cell has a non-zero capacity, from the description
    `UmD (UmRT Kf)` -/
theorem utl_root_iff {Kf : Int → Int} {M : Int} {tl : Array Int}
    (hT : ∀ k, 0 ≤ k → k ≤ M → UmD (UmRT Kf) M k (g tl k))
    (r : Int) (hr0 : 0 ≤ r) (hrM : r ≤ M) : g tl r > r ↔ Kf r < Kf (r + 1) := by
  have hd := hT r hr0 hrM
  constructor
  · intro hgt
    apply Classical.byContradiction
    intro hn
    have := (hd.2 hn).1
    omega
  · intro hr
    exact (hd.1 hr).1

/-- `uminInit_sem` plus: a node of `tl` is a root iff its cell has a non-zero capacity -/
theorem uminInit_sem_roots {M : Int} {sz : Nat} {bounds : Array Int} {l : PSum} {fv m : Int}
    (hb : BC bounds (M + 1) fv m) (hl : PS l fv m) (tl c sets : Array Int)
    (hst : tl.size = sz) (hsc : c.size = sz) (hss : sets.size = sz) (hNsz : M + 1 < sz) :
    ∃ (s1 : Array Int × Array Int × Int) (tl1 : Array Int) (s2 : Array Int × Int) (sets1 : Array Int),
      forIn (rangeUp 0 (M + 1)) (tl, c, (0 : Int)) (uminInit1 bounds l) = .ok s1 ∧
      wr s1.1 s1.2.2 (M + 1) = .ok tl1 ∧
      forIn (rangeUp 1 (M + 1)) (sets, (0 : Int)) (uminInit2 s1.2.1) = .ok s2 ∧
      wr s2.1 s2.2 (M + 1) = .ok sets1 ∧
      UMinCore M sz (K l fv bounds) tl1 s1.2.1 sets1 ∧
      (∀ i, 0 ≤ i → i ≤ M → g s1.2.1 i = K l fv bounds (i + 1) - K l fv bounds i) ∧
      (∀ r, 0 ≤ r → r ≤ M → g tl1 r > r →
        g tl1 r ≤ M + 1 ∧ ∀ k, r < k → k ≤ g tl1 r → k ≤ M →
          K l fv bounds k = K l fv bounds (r + 1)) ∧
      (∀ q, 1 ≤ q → q ≤ M → (g sets1 q < q ↔ K l fv bounds q = K l fv bounds (q - 1))) ∧
      (∀ r, 0 ≤ r → r ≤ M → (g tl1 r > r ↔ K l fv bounds r < K l fv bounds (r + 1))) := by
  have hN := hb.hN
  have hR0 : UmRT (K l fv bounds) 0 := by
    have := K_bot hl hb
    show K l fv bounds 0 < K l fv bounds (0 + 1)
    have e : (0 : Int) + 1 = 1 := by omega
    rw [e]; omega
  have hRM : UmRT (K l fv bounds) M := by
    have := K_top hl hb
    have e : M + 1 - 1 = M := by omega
    rw [e] at this
    show K l fv bounds M < K l fv bounds (M + 1)
    omega
  have hKm : ∀ k, 0 ≤ k → k ≤ M → K l fv bounds k ≤ K l fv bounds (k + 1) :=
    fun k h1 h2 => K_mono hl hb k (k + 1) h1 (by omega) (by omega)
  obtain ⟨s1, he1, z1, z2, hv, hL1⟩ := uminInit1_spec hb hl tl c hst hsc hNsz
  obtain ⟨a0, a1, hT⟩ := UmLInv_fin (by omega) (by omega) hL1
  obtain ⟨s2, he2, y1, hL2⟩ := uminInit2_spec (Kf := K l fv bounds) (by omega) s1.2.1 sets z2 hss
    hNsz hKm hv
  obtain ⟨b0, b1, hS⟩ := UmLInv_fin (by omega) (by omega) hL2
  refine ⟨s1, upd s1.1 s1.2.2 (M + 1), s2, upd s2.1 s2.2 (M + 1), he1,
    wr_ok _ _ _ a0 (by omega), he2, wr_ok _ _ _ b0 (by omega), ?_, hv, ?_, ?_, ?_⟩
  · exact umincore_of_desc (by omega) (by simp [z1]) z2 (by simp [y1]) hNsz hR0 hRM
      (fun a b h0 hab hbN => K_mono hl hb a b h0 hab hbN) hv hT hS
  · intro r h1 h2 h3
    obtain ⟨_, t2, t3⟩ := utl_sem hKm hT r h1 h2 h3
    exact ⟨t2, fun k k1 k2 _ => t3 k k1 k2⟩
  · intro q h1 h2
    exact usets_sem hKm hS q h1 h2
  · intro r h1 h2
    exact utl_root_iff hT r h1 h2

theorem uminInit_sem {M : Int} {sz : Nat} {bounds : Array Int} {l : PSum} {fv m : Int}
    (hb : BC bounds (M + 1) fv m) (hl : PS l fv m) (tl c sets : Array Int)
    (hst : tl.size = sz) (hsc : c.size = sz) (hss : sets.size = sz) (hNsz : M + 1 < sz) :
    ∃ (s1 : Array Int × Array Int × Int) (tl1 : Array Int) (s2 : Array Int × Int) (sets1 : Array Int),
      forIn (rangeUp 0 (M + 1)) (tl, c, (0 : Int)) (uminInit1 bounds l) = .ok s1 ∧
      wr s1.1 s1.2.2 (M + 1) = .ok tl1 ∧
      forIn (rangeUp 1 (M + 1)) (sets, (0 : Int)) (uminInit2 s1.2.1) = .ok s2 ∧
      wr s2.1 s2.2 (M + 1) = .ok sets1 ∧
      UMinCore M sz (K l fv bounds) tl1 s1.2.1 sets1 ∧
      (∀ i, 0 ≤ i → i ≤ M → g s1.2.1 i = K l fv bounds (i + 1) - K l fv bounds i) ∧
      (∀ r, 0 ≤ r → r ≤ M → g tl1 r > r →
        g tl1 r ≤ M + 1 ∧ ∀ k, r < k → k ≤ g tl1 r → k ≤ M →
          K l fv bounds k = K l fv bounds (r + 1)) ∧
      (∀ q, 1 ≤ q → q ≤ M → (g sets1 q < q ↔ K l fv bounds q = K l fv bounds (q - 1))) := by
  obtain ⟨s1, tl1, s2, sets1, h1, h2, h3, h4, h5, h6, h7, h8, _⟩ :=
    uminInit_sem_roots hb hl tl c sets hst hsc hss hNsz
  exact ⟨s1, tl1, s2, sets1, h1, h2, h3, h4, h5, h6, h7, h8⟩

/-! ## (B) one iteration that uses the variable -/

/-! ### the mark test of gcc in terms of `K` -/

/-- at a root `z` of `tl` (capacity `≥ 1`) the test `c[z] == get_sum l bounds[z] (bounds[y]-1)` is
    the abstract mark test `UMk` -/
theorem umin_test_eq_iff {M : Int} {bounds : Array Int} {l : PSum} {fv m : Int}
    (hb : BC bounds (M + 1) fv m) (hl : PS l fv m) (c : Array Int) (y z : Int)
    (hy1 : 1 ≤ y) (hyM : y ≤ M) (hz0 : 0 ≤ z) (hzM : z ≤ M - 1) (hd : 1 ≤ g c z) :
    g c z = gsum l (g bounds z) (g bounds y - 1) ↔
      UMk (K l fv bounds) (dfu (K l fv bounds) M c) y z := by
  unfold UMk
  rw [dfu_lt _ M c z (by omega)]
  by_cases hzy : z < y
  · rw [gsum_K hl hb z y hz0 hzy (by omega)]
    constructor
    · intro h; exact ⟨hzy, by omega⟩
    · intro h; omega
  · have h1 := (gsum_K_neg hl hb z y hy1 (by omega) (by omega)).2
    constructor
    · intro h; omega
    · intro h; omega

/-! ### the final path compression of `tl` -/

theorem uminFin_rel {M : Int} {sz : Nat} {Kf : Int → Int} {tl c sets : Array Int}
    (hc : UMinCore M sz Kf tl c sets) (x z : Int) (hxM : x ≤ M) (hzx : z ≤ x - 1) (hz0 : 0 ≤ z)
    (hzr : g tl z > z) (hall : ∀ k, z < k → k ≤ x - 1 → g tl k < k) (new_maxs : Array Int)
    (w : Int) :
    ∃ tl', uminFin x tl c sets new_maxs w z = .ok (.yield (tl', c, sets, new_maxs, w)) ∧
      UMinCore M sz Kf tl' c sets ∧
      (∀ k, 0 ≤ k → k ≤ M → (g tl' k > k ↔ g tl k > k)) ∧
      (∀ k, 0 ≤ k → k ≤ M → g tl k > k → g tl' k = g tl k) := by
  have hNsz := hc.hsz
  have hst := hc.st
  have hdnt : ∀ p, z < p → p ≤ x - 1 → g tl p < p ∧ z ≤ g tl p := by
    intro p h1 h2
    have := hall p h1 h2
    exact ⟨this, hc.ct.down_ge_root (by omega) h1 hz0 this hzr⟩
  obtain ⟨t3, hps, hsz3, hrel3⟩ := path_set_down_compress tl (x - 1) z z hz0 hzx (by omega) hdnt
  obtain ⟨hct3, hroots3, hval3⟩ := hc.ct.compress hz0 hall hrel3
  unfold uminFin
  rw [hps, ok_bind]
  exact ⟨t3, rfl, hc.replace_tl (by omega) hct3 hroots3 hval3, hroots3, hval3⟩

/-! ### marking a new unstable set -/

theorem uminMark_rel {M : Int} {sz : Nat} {Kf : Int → Int} {tl c sets : Array Int}
    (hc : UMinCore M sz Kf tl c sets) (new_maxs : Array Int) (w x j z Y : Int)
    (hxM : x ≤ M) (hzx : z ≤ x - 1) (hz0 : 0 ≤ z) (hzr : g tl z > z) (hj : g tl z = j)
    (hall : ∀ k, z < k → k ≤ x - 1 → g tl k < k) (hY : Y = z + 1) (hYr : g sets Y > Y) :
    ∃ tl' sets', uminMark x j tl c new_maxs w z sets Y =
        .ok (.yield (tl', c, sets', new_maxs, w)) ∧
      UMinCore M sz Kf tl' c sets' ∧
      (∀ k, 0 ≤ k → k ≤ M → (g tl' k > k ↔ g tl k > k)) ∧
      (∀ k, 0 ≤ k → k ≤ M → g tl k > k → g tl' k = g tl k) ∧
      (∀ k, 0 ≤ k → k ≤ M → (g sets' k > k ↔ (g sets k > k ∧ ¬ (Y < k ∧ k < j + 1)))) := by
  have hNsz := hc.hsz
  have hss := hc.ss
  have hzM : z ≤ M - 1 := by omega
  have hy1 : 1 ≤ Y := by omega
  have hyM : Y ≤ M := by omega
  have hjM : j ≤ M := by rw [← hj]; exact hc.root_le z hz0 hzM hzr
  have hl1 := hc.l1 z hz0 hzM hzr
  rw [hj] at hl1
  have hdy := hc.cs.up Y (by omega) hyM hYr
  have hry := hc.cs.rng Y (by omega) hyM
  -- `e = j + 1` is `M + 1` or a root of `sets`, hence not skipped by the pointer of `Y`
  have hre : j + 1 = M + 1 ∨ g sets (j + 1) > j + 1 := by
    rcases hl1 with h | h
    · left; omega
    · right; exact h
  have hey : g sets Y ≤ j + 1 := by
    by_cases hle : g sets Y ≤ j + 1
    · exact hle
    · have := hdy.1 (j + 1) (by have := hc.ct.rng z hz0 (by omega); omega) (by omega)
      rcases hre with h | h <;> omega
  unfold uminMark
  rw [rd_ok sets Y (by omega) (by omega), ok_bind]
  obtain ⟨h2, hps, hsz2, hv2⟩ := path_set_up_mark sets (g sets Y) (j + 1) Y (by omega) hey
    (by omega)
    (by
      rcases hdy.2 with h0 | h0
      · left; omega
      · right; exact h0)
    (by
      intro p hp1 hp2 hp3
      have hdp := hc.cs.up p (by omega) (by omega) hp3
      have hrp := hc.cs.rng p (by omega) (by omega)
      refine ⟨?_, ?_, fun k hk1 hk2 => by have := hdp.1 k hk1 hk2; omega⟩
      · by_cases hle : g sets p ≤ j + 1
        · exact hle
        · have := hdp.1 (j + 1) (by omega) (by omega)
          rcases hre with h | h <;> omega
      · rcases hdp.2 with h0 | h0
        · left
          by_cases hle : g sets p ≤ j + 1
          · omega
          · have := hdp.1 (j + 1) (by omega) (by omega)
            rcases hre with h | h <;> omega
        · right; exact h0)
  rw [hps, ok_bind, wr_ok h2 Y (j + 1) (by omega) (by omega), ok_bind]
  -- the new `sets` as a function
  have ha3 : ∀ k, 0 ≤ k → g (upd h2 Y (j + 1)) k =
      if k = Y then j + 1 else if g sets Y ≤ k ∧ k < j + 1 ∧ g sets k > k then Y else g sets k := by
    intro k hk
    rw [g_upd h2 Y (j + 1) k (by omega) (by omega) hk]
    by_cases hky : k = Y
    · simp [hky]
    · simp only [hky, if_false]; exact hv2 k hk
  obtain ⟨hch', hroots'⟩ := hc.cs.mark hy1 hyM hYr (by omega) hey hre ha3
  -- a root of `tl` is never strictly inside the group `(z, j)`
  have houtside : ∀ r, 0 ≤ r → r ≤ M → g tl r > r → ¬ (z < r ∧ r < j) := by
    intro r h1 h2 h3 h4
    have := (hc.ct.up z hz0 (by omega) hzr).1 r h4.1 (by omega)
    omega
  have hc' : UMinCore M sz Kf tl c (upd h2 Y (j + 1)) := by
    refine ⟨hc.st, hc.sc, by simp [hsz2, hss], hc.hsz, hc.ct, hch', hc.d1, hc.c0, hc.tM,
      ?_, ?_, ?_, ?_⟩
    · intro r h1 h2 h3
      have hr1 := hc.root_le r h1 h2 h3
      rcases hc.l1 r h1 h2 h3 with h4 | h4
      · exact Or.inl h4
      · by_cases h5 : g tl r = M
        · exact Or.inl h5
        · right
          have hrr := hc.ct.rng r h1 (by omega)
          rw [hroots' (g tl r + 1) (by omega) (by omega)]
          refine ⟨h4, fun h6 => ?_⟩
          -- `g tl r` is a root of `tl` strictly inside `(z, j)`
          rcases (hc.ct.up r h1 (by omega) h3).2 with h7 | h7
          · omega
          · exact houtside (g tl r) (by omega) (by omega) h7 ⟨by omega, by omega⟩
    · intro r h1 h2 h3 h4
      rw [hroots' (r + 1) (by omega) (by omega)]
      exact ⟨hc.l2 r h1 h2 h3 h4, fun h6 => houtside r h1 (by omega) h3 ⟨by omega, by omega⟩⟩
    · intro k h1 h2 h3
      exact hc.i5 k h1 h2 ((hroots' k (by omega) h2).1 h3).1
    · intro r h1 h2 h3 h4 k hk1 hk2 hk3
      have h5 := hc.i6 r h1 h2 h3 h4 k hk1 hk2 hk3
      rw [ha3 k (by omega), if_neg (by intro h; subst h; omega), if_neg (fun h => by omega)]
      exact h5
  obtain ⟨tl', he, hc'', hr3, hv3⟩ := uminFin_rel hc' x z hxM hzx hz0 hzr hall new_maxs w
  exact ⟨tl', _, he, hc'', hr3, hv3, hroots'⟩

/-! ### the test "an unstable set is discovered" -/

theorem uminUnstable_rel {M : Int} {sz : Nat} {bounds : Array Int} {l : PSum} {fv m : Int}
    {tl c sets : Array Int} (hb : BC bounds (M + 1) fv m) (hl : PS l fv m)
    (hc : UMinCore M sz (K l fv bounds) tl c sets)
    (new_maxs : Array Int) (w x y j z : Int) (hy1 : 1 ≤ y) (hyM : y ≤ M)
    (hxM : x ≤ M) (hzx : z ≤ x - 1) (hz0 : 0 ≤ z) (hzr : g tl z > z) (hj : g tl z = j)
    (hall : ∀ k, z < k → k ≤ x - 1 → g tl k < k) :
    ∃ tl' sets', uminUnstable bounds l x y j c tl z sets new_maxs w =
        .ok (.yield (tl', c, sets', new_maxs, w)) ∧
      UMinCore M sz (K l fv bounds) tl' c sets' ∧
      (∀ k, 0 ≤ k → k ≤ M → (g tl' k > k ↔ g tl k > k)) ∧
      (∀ k, 0 ≤ k → k ≤ M → g tl k > k → g tl' k = g tl k) ∧
      (UMk (K l fv bounds) (dfu (K l fv bounds) M c) y z → g sets (z + 1) > z + 1) ∧
      (∀ k, 0 ≤ k → k ≤ M → (g sets' k > k ↔
        (g sets k > k ∧ ¬ (UMk (K l fv bounds) (dfu (K l fv bounds) M c) y z ∧
          z + 1 < k ∧ k < j + 1)))) := by
  have hbsz := hb.hsz
  have hNsz := hc.hsz
  have hsc := hc.sc
  have hss := hc.ss
  have hzM : z ≤ M - 1 := by omega
  have hd1 := hc.d1 z hz0 hzM hzr
  have hiff := umin_test_eq_iff hb hl c y z hy1 hyM hz0 hzM hd1.1
  unfold uminUnstable
  rw [rd_ok c z (by omega) (by omega), ok_bind, rd_ok bounds z (by omega) (by omega), ok_bind,
    rd_ok bounds y (by omega) (by omega), ok_bind,
    get_sum_bounds_ok hl hb z y hz0 (by omega) hy1 (by omega), ok_bind]
  by_cases heq : g c z = gsum l (g bounds z) (g bounds y - 1)
  · have hcond : (g c z == gsum l (g bounds z) (g bounds y - 1)) = true := by simpa using heq
    rw [if_pos hcond]
    have hmk := hiff.1 heq
    -- the capacity of `z` is untouched and `y` lies in the zero-capacity stretch above `z`
    have hzy : z < y := hmk.1
    have hgK := gsum_K hl hb z y hz0 hzy (by omega)
    have hKm := K_mono hl hb (z + 1) y (by omega) (by omega) (by omega)
    have hKy : K l fv bounds y = K l fv bounds (z + 1) := by omega
    have hfresh : g c z = K l fv bounds (z + 1) - K l fv bounds z := by omega
    have hroot := hc.l2 z hz0 hzM hzr hfresh
    rw [rd_ok sets y (by omega) (by omega), ok_bind]
    have hfin : ∀ Y, Y = z + 1 →
        ∃ tl' sets', uminMark x j tl c new_maxs w z sets Y =
            .ok (.yield (tl', c, sets', new_maxs, w)) ∧
          UMinCore M sz (K l fv bounds) tl' c sets' ∧
          (∀ k, 0 ≤ k → k ≤ M → (g tl' k > k ↔ g tl k > k)) ∧
          (∀ k, 0 ≤ k → k ≤ M → g tl k > k → g tl' k = g tl k) ∧
          (UMk (K l fv bounds) (dfu (K l fv bounds) M c) y z → g sets (z + 1) > z + 1) ∧
          (∀ k, 0 ≤ k → k ≤ M → (g sets' k > k ↔
            (g sets k > k ∧ ¬ (UMk (K l fv bounds) (dfu (K l fv bounds) M c) y z ∧
              z + 1 < k ∧ k < j + 1)))) := by
      intro Y hY
      obtain ⟨tl', sets', he, hc', hr3, hv3, hrs⟩ :=
        uminMark_rel hc new_maxs w x j z Y hxM hzx hz0 hzr hj hall hY (by rw [hY]; exact hroot)
      refine ⟨tl', sets', he, hc', hr3, hv3, fun _ => hroot, ?_⟩
      intro k h1 h2
      rw [hrs k h1 h2, hY]
      constructor
      · rintro ⟨h3, h4⟩; exact ⟨h3, fun h5 => h4 h5.2⟩
      · rintro ⟨h3, h4⟩; exact ⟨h3, fun h5 => h4 ⟨hmk, h5⟩⟩
    by_cases hsy : g sets y < y
    · rw [if_pos hsy, ok_bind]
      have hY : g sets y = z + 1 := by
        by_cases h2 : z + 1 < y
        · exact hc.i6 z hz0 hzM hzr hfresh y h2 hyM hKy
        · have h3 : y = z + 1 := by omega
          rw [← h3] at hroot; omega
      exact hfin (g sets y) hY
    · rw [if_neg hsy]
      have hY : y = z + 1 := by
        by_cases h2 : z + 1 < y
        · have := hc.i6 z hz0 hzM hzr hfresh y h2 hyM hKy; omega
        · omega
      exact hfin y hY
  · have hcond : ¬ (g c z == gsum l (g bounds z) (g bounds y - 1)) = true := by simpa using heq
    rw [if_neg hcond]
    have hnmk : ¬ UMk (K l fv bounds) (dfu (K l fv bounds) M c) y z := fun h => heq (hiff.2 h)
    obtain ⟨tl', he, hc', hr3, hv3⟩ := uminFin_rel hc x z hxM hzx hz0 hzr hall new_maxs w
    refine ⟨tl', _, he, hc', hr3, hv3, fun h => absurd h hnmk, ?_⟩
    intro k _ _
    constructor
    · intro h3; exact ⟨h3, fun h5 => hnmk h5.1⟩
    · intro h3; exact h3.1

/-! ### recording the candidate new maximum -/

theorem uminNewMax_rel {M : Int} {sz : Nat} {bounds : Array Int} {l : PSum} {fv m : Int}
    {tl c sets : Array Int} (hb : BC bounds (M + 1) fv m) (hl : PS l fv m)
    (hc : UMinCore M sz (K l fv bounds) tl c sets)
    (new_maxs : Array Int) (hnm : NMOk' (M + 1) new_maxs) (i x y j z w : Int)
    (hi0 : 0 ≤ i) (hi1 : i < new_maxs.size) (hy1 : 1 ≤ y) (hyx : y < x) (hxM : x ≤ M)
    (hzx : z ≤ x - 1) (hz0 : 0 ≤ z) (hzr : g tl z > z) (hj : g tl z = j)
    (hall : ∀ k, z < k → k ≤ x - 1 → g tl k < k) :
    ∃ tl' sets' nm' w' wn, uminNewMax bounds l i x y j c sets new_maxs w tl z =
        .ok (.yield (tl', c, sets', nm', w')) ∧
      UMinCore M sz (K l fv bounds) tl' c sets' ∧ NMOk' (M + 1) nm' ∧
      nm'.size = new_maxs.size ∧
      (∀ k, 0 ≤ k → k ≤ M → (g tl' k > k ↔ g tl k > k)) ∧
      (∀ k, 0 ≤ k → k ≤ M → g tl k > k → g tl' k = g tl k) ∧
      wn ≤ x ∧ 0 ≤ wn ∧ g sets wn > wn ∧ (∀ k, wn < k → k ≤ x → g sets k < k) ∧
      nm' = upd new_maxs i wn ∧
      (UMk (K l fv bounds) (dfu (K l fv bounds) M c) y z → g sets (z + 1) > z + 1) ∧
      (∀ k, 0 ≤ k → k ≤ M → (g sets' k > k ↔
        (g sets k > k ∧ ¬ (UMk (K l fv bounds) (dfu (K l fv bounds) M c) y z ∧
          z + 1 < k ∧ k < j + 1)))) := by
  have hNsz := hc.hsz
  have hss := hc.ss
  unfold uminNewMax
  rw [rd_ok sets x (by omega) (by omega), ok_bind]
  by_cases hhx : g sets x < x
  · rw [if_pos hhx, ok_bind]
    have hrx := hc.cs.rng x (by omega) hxM
    obtain ⟨w1, hpm, hw1, hw2, hw3, hw4⟩ := path_min_spec sets 0 M (g sets x) (by omega) (by omega)
      (fun k h1 h2 => (hc.cs.rng k h1 h2).1) (fun k h1 h2 h3 => hc.cs.down k h1 h2 h3)
      (by omega) (by omega)
    have hwr : g sets w1 > w1 := by have := hc.cs.rng w1 hw1 (by omega); omega
    have hallh : ∀ k, w1 < k → k ≤ x → g sets k < k := by
      intro k h1 h2
      by_cases hk : k = x
      · subst hk; exact hhx
      · by_cases hk2 : g sets x < k
        · exact hc.cs.down x (by omega) hxM hhx k hk2 (by omega)
        · exact hw4 k h1 (by omega)
    have hdnh : ∀ p, w1 < p → p ≤ x → g sets p < p ∧ w1 ≤ g sets p := by
      intro p h1 h2
      have := hallh p h1 h2
      exact ⟨this, hc.cs.down_ge_root (by omega) h1 hw1 this hwr⟩
    rw [hpm, ok_bind, wr_ok new_maxs i w1 hi0 hi1, ok_bind]
    obtain ⟨s3, hps', hszs3, hrels3⟩ := path_set_down_compress sets x w1 w1 hw1 (by omega)
      (by omega) hdnh
    obtain ⟨hcs3, hrootss3, _⟩ := hc.cs.compress hw1 hallh hrels3
    rw [hps', ok_bind]
    have hc3 : UMinCore M sz (K l fv bounds) tl c s3 := by
      refine hc.replace_sets (by omega) hcs3 hrootss3 ?_
      intro k r hr1 hrk hkM hkv hrr
      rcases hrels3 k (by omega) with h | ⟨h1, h2, h3⟩
      · rw [h]; exact hkv
      · -- the rewritten node `k` pointed at the root `r`, which is the first root below `x`
        have h4 := (hdnh k h1 h2).2
        have h5 : ¬ w1 < r := fun h6 => by have := hallh r h6 (by omega); omega
        omega
    obtain ⟨tl', sets', he, hc', hr3, hv3, hmy, hrs⟩ :=
      uminUnstable_rel hb hl hc3 (upd new_maxs i w1) w1 x y j z
        hy1 (by omega) hxM hzx hz0 hzr hj hall
    refine ⟨tl', sets', _, _, w1, he, hc', NMOk'_upd hnm i w1 hi0 hi1 hw1 (by omega), by simp,
      hr3, hv3, by omega, hw1, hwr, hallh, rfl, ?_, ?_⟩
    · intro hm
      exact (hrootss3 (z + 1) (by omega) (by omega)).1 (hmy hm)
    · intro k h1 h2
      rw [hrs k h1 h2, hrootss3 k h1 h2]
  · rw [if_neg hhx, wr_ok new_maxs i x hi0 hi1, ok_bind]
    obtain ⟨tl', sets', he, hc', hr3, hv3, hmy, hrs⟩ :=
      uminUnstable_rel hb hl hc (upd new_maxs i x) w x y j z
        hy1 (by omega) hxM hzx hz0 hzr hj hall
    have hrx := hc.cs.rng x (by omega) hxM
    exact ⟨tl', sets', _, _, x, he, hc', NMOk'_upd hnm i x hi0 hi1 (by omega) (by omega),
      by simp, hr3, hv3, Int.le_refl _, by omega, by omega, fun k h1 h2 => by omega, rfl, hmy, hrs⟩

/-! ### the capacity of `z` is decreased -/

theorem dfu_upd (Kf : Int → Int) (M : Int) (c : Array Int) (z v : Int) (hz0 : 0 ≤ z) (hzM : z < M)
    (hz : z < c.size) :
    dfu Kf M (upd c z v) z = v ∧ ∀ k, 0 ≤ k → k ≠ z → dfu Kf M (upd c z v) k = dfu Kf M c k := by
  refine ⟨?_, ?_⟩
  · rw [dfu_lt _ _ _ z hzM]; exact g_upd_same c z v hz0 hz
  · intro k h1 h2
    by_cases hk : M ≤ k
    · rw [dfu_ge _ _ _ k hk, dfu_ge _ _ _ k hk]
    · rw [dfu_lt _ _ _ k (by omega), dfu_lt _ _ _ k (by omega)]
      exact g_upd_ne c z v k hz0 hz h1 h2

/-- the branch that uses the variable satisfies `UERel` (`z` = the root of the group of `x - 1`,
    `z'` = the root after the possible merge, `wn` = the candidate new maximum) -/
theorem uminElse_rel {M : Int} {sz : Nat} {bounds : Array Int} {l : PSum} {fv m : Int}
    {tl c sets : Array Int} (hb : BC bounds (M + 1) fv m) (hl : PS l fv m)
    (hc : UMinCore M sz (K l fv bounds) tl c sets)
    (new_maxs : Array Int) (hnm : NMOk' (M + 1) new_maxs) (i x y z j w : Int)
    (hi0 : 0 ≤ i) (hi1 : i < new_maxs.size) (hy1 : 1 ≤ y) (hyx : y < x) (hxM : x ≤ M)
    (hzx : z ≤ x - 1) (hz0 : 0 ≤ z) (hzr : g tl z > z) (hj : j = g tl z)
    (hall : ∀ k, z < k → k ≤ x - 1 → g tl k < k)
    (hgt : g c z > gsum l (g bounds z) (g bounds y - 1)) :
    ∃ tl' c' sets' nm' w' z' wn, uminElse bounds l i x y j z tl c sets new_maxs w =
        .ok (.yield (tl', c', sets', nm', w')) ∧
      UMinCore M sz (K l fv bounds) tl' c' sets' ∧ NMOk' (M + 1) nm' ∧
      nm'.size = new_maxs.size ∧
      UERel M (K l fv bounds) x y (g tl) (dfu (K l fv bounds) M c) (g sets)
        (g tl') (dfu (K l fv bounds) M c') (g sets') z z' wn ∧
      nm' = AllDiff.upd new_maxs i wn := by
  subst hj
  have hNsz := hc.hsz
  have hst := hc.st
  have hsc := hc.sc
  have hzM : z ≤ M - 1 := by omega
  -- the bottom sentinel is never reached here
  have hz1 : 1 ≤ z := by
    by_cases h : z = 0
    · subst h
      have h1 := gsum_K hl hb 0 y (Int.le_refl _) (by omega) (by omega)
      have h2 := K_mono hl hb 1 y (by omega) hy1 (by omega)
      have h3 := hc.c0
      omega
    · omega
  have hd0 := hc.d1 z hz0 hzM hzr
  have hmke : g tl z = M ∨ g sets (g tl z + 1) > g tl z + 1 := hc.l1 z hz0 hzM hzr
  obtain ⟨hdfz, hdfo⟩ := dfu_upd (K l fv bounds) M c z (g c z - 1) hz0 (by omega) (by omega)
  have hdz0 : dfu (K l fv bounds) M (upd c z (g c z - 1)) z = dfu (K l fv bounds) M c z - 1 := by
    rw [hdfz, dfu_lt _ M c z (by omega)]
  unfold uminElse
  rw [rd_ok c z (by omega) (by omega), ok_bind, wr_ok c z _ (by omega) (by omega), ok_bind,
    rd_ok (upd c z (g c z - 1)) z (by omega) (by simp; omega), ok_bind,
    g_upd_same c z _ (by omega) (by omega)]
  have hd' : ∀ k, 0 ≤ k → k ≠ z → g (upd c z (g c z - 1)) k = g c k :=
    fun k h1 h2 => g_upd_ne c z _ k (by omega) (by omega) h1 h2
  have hd'z : g (upd c z (g c z - 1)) z = g c z - 1 := g_upd_same c z _ (by omega) (by omega)
  by_cases hm : g c z - 1 = 0
  · have hcond : (g c z - 1 == 0) = true := by simpa using hm
    rw [if_pos hcond]
    rw [wr_ok tl z (z - 1) (by omega) (by omega), ok_bind,
      rd_ok (upd tl z (z - 1)) z (by omega) (by simp; omega), ok_bind,
      g_upd_same tl z _ (by omega) (by omega)]
    have ht1 : ∀ k, 0 ≤ k → g (upd tl z (z - 1)) k = if k = z then z - 1 else g tl k :=
      fun k hk => g_upd tl z _ k (by omega) (by omega) hk
    obtain ⟨z1, hpm1, hy1', hy2', hy3', hy4'⟩ := path_min_spec (upd tl z (z - 1)) 0 M (z - 1)
      (by omega) (by simp; omega)
      (fun k h1 h2 => by
        rw [ht1 k (by omega)]
        by_cases hk : k = z
        · simp [hk]; omega
        · simp only [hk, if_false]; exact (hc.ct.rng k h1 h2).1)
      (fun k h1 h2 h3 q hq1 hq2 => by
        rw [ht1 k (by omega)] at h3 hq1
        by_cases hk : k = z
        · simp only [hk, if_true] at hq1; omega
        · simp only [hk, if_false] at h3 hq1
          have := (hc.ct.rng k h1 h2).1
          rw [ht1 q (by omega)]
          by_cases hqz : q = z
          · simp only [hqz, if_true]; omega
          · simp only [hqz, if_false]; exact hc.ct.down k h1 h2 h3 q hq1 hq2)
      (by omega) (by omega)
    have hz1ne : z1 ≠ z := by omega
    have hz1r : g tl z1 > z1 := by
      rw [ht1 z1 (by omega)] at hy3'
      simp only [hz1ne, if_false] at hy3'
      have := hc.ct.rng z1 hy1' (by omega); omega
    have hbetween : ∀ k, z1 < k → k < z → g tl k < k := by
      intro k h1 h2
      have := hy4' k h1 (by omega)
      rw [ht1 k (by omega)] at this
      simpa [show k ≠ z by omega] using this
    rw [hpm1, ok_bind, wr_ok (upd tl z (z - 1)) z1 (g tl z) (by omega) (by simp; omega), ok_bind]
    have ha2 : ∀ k, 0 ≤ k → g (upd (upd tl z (z - 1)) z1 (g tl z)) k =
        if k = z1 then g tl z else if k = z then z - 1 else g tl k := by
      intro k hk
      rw [g_upd _ z1 _ k (by omega) (by simp; omega) hk]
      by_cases hk1 : k = z1
      · simp [hk1]
      · simp only [hk1, if_false]; exact ht1 k hk
    obtain ⟨hct2, hroots2, hoth2, hz1v⟩ :=
      hc.ct.merge (by omega) (by omega) hy1' hzr hz1r hbetween ha2
    have hroot2 : ∀ r, 0 ≤ r → r ≤ M - 1 → g (upd (upd tl z (z - 1)) z1 (g tl z)) r > r →
        g tl r > r ∧ r ≠ z := fun r h1 h2 h3 => (hroots2 r h1 (by omega)).1 h3
    have hc2 : UMinCore M sz (K l fv bounds) (upd (upd tl z (z - 1)) z1 (g tl z))
        (upd c z (g c z - 1)) sets := by
      refine ⟨by simp [hst], by simp [hsc], hc.ss, hNsz, hct2, hc.cs, ?_, ?_, ?_, ?_, ?_, hc.i5, ?_⟩
      · intro r h1 h2 h3
        have hr := hroot2 r h1 h2 h3
        rw [hd' r (by omega) hr.2]; exact hc.d1 r h1 h2 hr.1
      · rw [hd' 0 (by omega) (by omega)]; exact hc.c0
      · rw [hoth2 M (by omega) (by omega) (by omega)]; exact hc.tM
      · intro r h1 h2 h3
        have hr := hroot2 r h1 h2 h3
        by_cases hr1 : r = z1
        · subst hr1; rw [hz1v]; exact hc.l1 z hz0 hzM hzr
        · rw [hoth2 r h1 hr1 hr.2]; exact hc.l1 r h1 h2 hr.1
      · intro r h1 h2 h3 h4
        have hr := hroot2 r h1 h2 h3
        rw [hd' r (by omega) hr.2] at h4
        exact hc.l2 r h1 h2 hr.1 h4
      · intro r h1 h2 h3 h4
        have hr := hroot2 r h1 h2 h3
        rw [hd' r (by omega) hr.2] at h4
        exact hc.i6 r h1 h2 hr.1 h4
    have hz1r2 : g (upd (upd tl z (z - 1)) z1 (g tl z)) z1 > z1 :=
      (hroots2 z1 hy1' (by omega)).2 ⟨hz1r, hz1ne⟩
    obtain ⟨tl', sets', nm', w', wn, he, hc', hnm', hs', hr3, hv3, hw1, hw2, hw3, hw4, hnme,
        hmy, hrs⟩ :=
      uminNewMax_rel hb hl hc2 new_maxs hnm i x y (g tl z) z1 w hi0 hi1 hy1 hyx hxM
        (by omega) hy1' hz1r2 hz1v
        (fun k h1 h2 => by
          by_cases hk0 : k = z
          · subst hk0; rw [ha2 k (by omega)]
            simp only [show k ≠ z1 by omega, if_false, if_true]; omega
          · rw [hoth2 k (by omega) (by omega) hk0]
            by_cases hk1 : z < k
            · exact hall k hk1 h2
            · exact hbetween k h1 (by omega))
    refine ⟨tl', _, sets', nm', w', z1, wn, he, hc', hnm', hs',
      ⟨⟨hz0, hzx, hzr, hall, hdz0, fun k h1 _ h3 => hdfo k h1 h3,
        Or.inl ⟨by rw [dfu_lt _ M c z (by omega)]; exact hm, by omega, hy1', hz1r, hbetween,
          ?_, ?_, ?_⟩⟩,
        hw1, hw2, hw3, hw4, fun _ => hmke, hmy, hrs⟩, hnme⟩
    · intro k h1 h2; rw [hr3 k h1 h2, hroots2 k h1 h2]
    · rw [hv3 z1 hy1' (by omega) hz1r2]; exact hz1v
    · intro k h1 h2 h3 h4 h5
      have h6 : g (upd (upd tl z (z - 1)) z1 (g tl z)) k > k := (hroots2 k h1 h2).2 ⟨h3, h5⟩
      rw [hv3 k h1 h2 h6]; exact hoth2 k h1 h4 h5
  · have hcond : ¬ (g c z - 1 == 0) = true := by simpa using hm
    rw [if_neg hcond]
    have hc2 : UMinCore M sz (K l fv bounds) tl (upd c z (g c z - 1)) sets := by
      refine ⟨hst, by simp [hsc], hc.ss, hNsz, hc.ct, hc.cs, ?_, ?_, hc.tM, hc.l1, ?_, hc.i5, ?_⟩
      · intro r h1 h2 h3
        by_cases hrz : r = z
        · subst hrz; rw [hd'z]; omega
        · rw [hd' r (by omega) hrz]; exact hc.d1 r h1 h2 h3
      · rw [hd' 0 (by omega) (by omega)]; exact hc.c0
      · intro r h1 h2 h3 h4
        by_cases hrz : r = z
        · subst hrz; rw [hd'z] at h4; omega
        · rw [hd' r (by omega) hrz] at h4; exact hc.l2 r h1 h2 h3 h4
      · intro r h1 h2 h3 h4
        by_cases hrz : r = z
        · subst hrz; rw [hd'z] at h4; omega
        · rw [hd' r (by omega) hrz] at h4; exact hc.i6 r h1 h2 h3 h4
    obtain ⟨tl', sets', nm', w', wn, he, hc', hnm', hs', hr3, hv3, hw1, hw2, hw3, hw4, hnme,
        hmy, hrs⟩ :=
      uminNewMax_rel hb hl hc2 new_maxs hnm i x y (g tl z) z w hi0 hi1 hy1 hyx hxM
        hzx hz0 hzr rfl hall
    exact ⟨tl', _, sets', nm', w', z, wn, he, hc', hnm', hs',
      ⟨⟨hz0, hzx, hzr, hall, hdz0, fun k h1 _ h3 => hdfo k h1 h3,
        Or.inr ⟨by rw [dfu_lt _ M c z (by omega)]; exact hm, rfl, hr3, hv3⟩⟩,
        hw1, hw2, hw3, hw4, fun _ => hmke, hmy, hrs⟩, hnme⟩

end Gcc
end Nucs
