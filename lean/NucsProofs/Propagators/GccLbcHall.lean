import NucsProofs.Propagators.GccSoundLFinal
import NucsProofs.Propagators.GccExactUpper
/-!
  Lower capacities of the gcc, completeness — pure combinatorics.

  In the final state of a lower-capacity pass (`LFin`) every cell solution is TIGHT on the
  non-stable cells (`lfin_tight`): the non-stable variables take the non-stable cells, each
  non-stable cell `c` exactly `D c = bd (c + 1) - bd c` of them.  "Where can a non-stable variable
  go?" is therefore an exact matching problem of the non-stable variables onto the non-stable cells
  with multiplicities.  Capacity expansion (`PN r` = the total demand of the non-stable cells
  below `r`; the cell `c` is the block `[PN c, PN (c + 1))`, a stable cell is an empty block) and
  Hall's theorem for interval domains (`hall_matching`, through `AllDiff.port_bound_support`) give
  `cell_support_of_avoid`: a non-stable cell `c` of a non-stable variable `k` that lies in no
  contracted Hall interval foreign to `k` is taken by `k` in some cell solution.
-/
namespace Nucs
namespace Gcc

/-- all the NON-STABLE cells of the variable `p` lie in `[r1, r2)` -/
def nsIn (bf rx ry : Int → Int) (p r1 r2 : Int) : Prop :=
  ∀ c, rx p ≤ c → c < ry p → ¬ St bf c → r1 ≤ c ∧ c < r2

/-- `nsIn` as a (classical) boolean, in the style of `stvB` -/
noncomputable def nsInB (bf rx ry : Int → Int) (r1 r2 p : Int) : Bool :=
  @decide (nsIn bf rx ry p r1 r2) (Classical.propDecidable _)

theorem nsInB_true {bf rx ry : Int → Int} {r1 r2 p : Int} :
    nsInB bf rx ry r1 r2 p = true ↔ nsIn bf rx ry p r1 r2 := by
  unfold nsInB; exact @decide_eq_true_iff _ (Classical.propDecidable _)

/-- the expanded line: the total demand of the non-stable cells below `r` -/
def PN (bd bf : Int → Int) (r : Int) : Int := sumI (DN bd bf) 1 r

/-! ### sums -/

theorem sumI_nonneg {f : Int → Int} {a : Int} :
    ∀ b, a ≤ b → (∀ k, a ≤ k → k < b → 0 ≤ f k) → 0 ≤ sumI f a b := by
  apply int_le_ind
  · intro _; rw [sumI_empty]; omega
  · intro b hb ih h
    rw [sumI_succ f hb]
    have := ih (fun k h1 h2 => h k h1 (by omega))
    have := h b hb (by omega)
    omega

theorem sumI_zero {f : Int → Int} {a : Int} :
    ∀ b, a ≤ b → (∀ k, a ≤ k → k < b → f k = 0) → sumI f a b = 0 := by
  apply int_le_ind
  · intro _; rw [sumI_empty]
  · intro b hb ih h
    rw [sumI_succ f hb, ih (fun k h1 h2 => h k h1 (by omega)), h b hb (by omega)]; omega

/-! ### least and greatest index -/

theorem least_idx (P : Int → Prop) (a : Int) :
    ∀ c, a ≤ c → P c → ∃ r, a ≤ r ∧ r ≤ c ∧ P r ∧ ∀ s, a ≤ s → s < r → ¬ P s := by
  apply int_strong_ind
  intro c hc ih hP
  by_cases hex : ∃ s, a ≤ s ∧ s < c ∧ P s
  · obtain ⟨s, h1, h2, h3⟩ := hex
    obtain ⟨r, g1, g2, g3, g4⟩ := ih s h1 h2 h3
    exact ⟨r, g1, by omega, g3, g4⟩
  · exact ⟨c, hc, Int.le_refl _, hP, fun s h1 h2 h3 => hex ⟨s, h1, h2, h3⟩⟩

theorem greatest_idx (P : Int → Prop) (M c : Int) (hc : c ≤ M) (hP : P c) :
    ∃ r, c ≤ r ∧ r ≤ M ∧ P r ∧ ∀ s, r < s → s ≤ M → ¬ P s := by
  obtain ⟨r, g1, g2, g3, g4⟩ := least_idx (fun s => P (M - s)) 0 (M - c) (by omega)
    (by have e : M - (M - c) = c := by omega
        show P (M - (M - c)); rw [e]; exact hP)
  refine ⟨M - r, by omega, by omega, g3, ?_⟩
  intro s h1 h2 hs
  apply g4 (M - s) (by omega) (by omega)
  have e : M - (M - s) = s := by omega
  show P (M - (M - s)); rw [e]; exact hs

/-! ### the expanded line -/

section
variable {N : Int} {bd rx ry bf κ : Int → Int} {all U : List Int}

theorem DN_of_ns {k : Int} (h : ¬ St bf k) : DN bd bf k = bd (k + 1) - bd k := by
  unfold DN; unfold St at h; rw [if_neg h]

theorem DN_of_st {k : Int} (h : St bf k) : DN bd bf k = 0 := by
  unfold DN; unfold St at h; rw [if_pos h]

theorem ns_of_DN_pos {k : Int} (h : 1 ≤ DN bd bf k) : ¬ St bf k := by
  intro hs; rw [DN_of_st hs] at h; omega

theorem DN_nonneg (hctx : WCtx N bd rx ry all) {k : Int} (h1 : 1 ≤ k) (h2 : k ≤ N - 1) :
    0 ≤ DN bd bf k := by
  have := hctx.mono k (k + 1) (by omega) (by omega) (by omega)
  unfold DN; split <;> omega

theorem PN_succ (bd bf : Int → Int) {r : Int} (hr : 1 ≤ r) :
    PN bd bf (r + 1) = PN bd bf r + DN bd bf r := sumI_succ _ hr

theorem PN_diff (bd bf : Int → Int) {a b : Int} (ha : 1 ≤ a) (hab : a ≤ b) :
    PN bd bf b = PN bd bf a + sumI (DN bd bf) a b := sumI_split _ ha b hab

theorem PN_mono (hctx : WCtx N bd rx ry all) {a b : Int} (ha : 1 ≤ a) (hab : a ≤ b)
    (hb : b ≤ N) : PN bd bf a ≤ PN bd bf b := by
  have := PN_diff bd bf ha hab
  have := sumI_nonneg (f := DN bd bf) b hab
    (fun k h1 h2 => DN_nonneg hctx (by omega) (by omega))
  omega

/-- a run of stable cells does not move on the expanded line -/
theorem PN_stable_run {a b : Int} (ha : 1 ≤ a) (hab : a ≤ b)
    (hrun : ∀ k, a ≤ k → k < b → St bf k) : PN bd bf b = PN bd bf a := by
  have := PN_diff bd bf ha hab
  have := sumI_zero (f := DN bd bf) b hab (fun k h1 h2 => DN_of_st (hrun k h1 h2))
  omega

/-- the block that contains an expanded value is unique -/
theorem block_unique (hctx : WCtx N bd rx ry all) {c c' e : Int} (h1 : 1 ≤ c) (h2 : c ≤ N - 1)
    (h1' : 1 ≤ c') (h2' : c' ≤ N - 1)
    (ha : PN bd bf c ≤ e) (hb : e < PN bd bf (c + 1))
    (ha' : PN bd bf c' ≤ e) (hb' : e < PN bd bf (c' + 1)) : c' = c := by
  by_cases hlt : c' < c
  · have := PN_mono (bf := bf) hctx (by omega : (1 : Int) ≤ c' + 1) (by omega : c' + 1 ≤ c)
      (by omega)
    omega
  · by_cases hgt : c < c'
    · have := PN_mono (bf := bf) hctx (by omega : (1 : Int) ≤ c + 1) (by omega : c + 1 ≤ c')
        (by omega)
      omega
    · omega

/-! ### counting with a cell solution -/

theorem ns_var_iff (h : LFin N bd rx ry all U bf) (hκ : CellSol N bd rx ry all κ) {p : Int}
    (hp : p ∈ all) : ¬ StV bf rx ry p ↔ ¬ St bf (κ p) := by
  obtain ⟨t1, _, _⟩ := lfin_tight h hκ
  constructor
  · exact t1 p hp
  · intro hns hst
    have hd := hκ.dom p hp
    exact hns (hst (κ p) hd.1 hd.2)

/-- the variables on the non-stable cells of a zone are as many as its non-stable demand -/
theorem ns_cells_count (h : LFin N bd rx ry all U bf) (hκ : CellSol N bd rx ry all κ)
    {a b : Int} (ha : 1 ≤ a) (hab : a ≤ b) (hb : b ≤ N - 1) :
    ((all.countP (fun p => decide (a ≤ κ p) && decide (κ p < b) && !decide (bf (κ p) > κ p))
      : Nat) : Int) = sumI (DN bd bf) a b := by
  obtain ⟨_, t2, _⟩ := lfin_tight h hκ
  rw [countP_cells all κ (fun k => !decide (bf k > k)) a b hab]
  apply sumI_congr b hab
  intro k h1 h2
  unfold DN
  by_cases hk : bf k > k
  · simp [hk]
  · simp only [hk, if_false, decide_false, Bool.not_false, if_true]
    exact t2 k (by omega) (by omega) hk

/-- the easy direction: the non-stable variables confined to a zone are at most its non-stable
    demand -/
theorem nsIn_count_le (h : LFin N bd rx ry all U bf) (hκ : CellSol N bd rx ry all κ)
    {r1 r2 : Int} (h1 : 1 ≤ r1) (h12 : r1 ≤ r2) (h2 : r2 ≤ N - 1) :
    ((all.countP (fun p => !stvB bf rx ry p && nsInB bf rx ry r1 r2 p) : Nat) : Int) ≤
      sumI (DN bd bf) r1 r2 := by
  rw [← ns_cells_count h hκ h1 h12 h2]
  have := List.countP_mono_left (l := all)
    (p := fun p => !stvB bf rx ry p && nsInB bf rx ry r1 r2 p)
    (q := fun p => decide (r1 ≤ κ p) && decide (κ p < r2) && !decide (bf (κ p) > κ p)) (by
      intro p hp hq
      simp only [Bool.and_eq_true, Bool.not_eq_true', stvB_false, nsInB_true] at hq
      have hd := hκ.dom p hp
      have hns := (ns_var_iff h hκ hp).1 hq.1
      have := hq.2 (κ p) hd.1 hd.2 hns
      simp only [Bool.and_eq_true, decide_eq_true_eq, Bool.not_eq_true',
        decide_eq_false_iff_not]
      exact ⟨this, hns⟩)
  omega

/-- the number of non-stable variables is the total non-stable demand -/
theorem ns_total (h : LFin N bd rx ry all U bf) (hκ : CellSol N bd rx ry all κ) :
    ((all.countP (fun p => !stvB bf rx ry p) : Nat) : Int) = PN bd bf (N - 1) := by
  have hN := h.ctx.hN
  unfold PN
  rw [← ns_cells_count h hκ (Int.le_refl 1) (by omega : (1 : Int) ≤ N - 1) (Int.le_refl _)]
  congr 1
  apply List.countP_congr
  intro p hp
  have hr := h.ctx.rk p hp
  have hd := hκ.dom p hp
  have e1 : decide (1 ≤ κ p) = true := decide_eq_true (by omega)
  have e2 : decide (κ p < N - 1) = true := decide_eq_true (by omega)
  rw [e1, e2]
  simp only [Bool.true_and, Bool.not_eq_true', stvB_false, decide_eq_false_iff_not]
  exact ns_var_iff h hκ hp

end

/-! ### the expanded box of the non-stable variables -/

section
variable {N : Int} {bd rx ry bf κ : Int → Int} {all U : List Int}

/-- shrink an expanded interval `[a, b]` that contains the start of the block `c` to block
    boundaries `[P r1, P r2 - 1]`: `r1` least, `r2` greatest -/
theorem shrink (P : Int → Int) (hrk : ∀ p ∈ all, 1 ≤ rx p ∧ rx p < ry p ∧ ry p < N)
    (a b c : Int) (hc1 : 1 ≤ c) (hc2 : c ≤ N - 2) (ha : a ≤ P c) (hb : P c ≤ b) :
    ∃ r1 r2, 1 ≤ r1 ∧ r1 ≤ c ∧ c ≤ r2 ∧ r2 ≤ N - 1 ∧ a ≤ P r1 ∧ P r2 ≤ b + 1 ∧
      (r2 = c → b + 1 < P (c + 1)) ∧
      ∀ p ∈ all, a ≤ P (rx p) → P (ry p) ≤ b + 1 → r1 ≤ rx p ∧ ry p ≤ r2 := by
  obtain ⟨r1, g1, g2, g3, g4⟩ := least_idx (fun r => a ≤ P r) 1 c hc1 ha
  obtain ⟨r2, k1, k2, k3, k4⟩ := greatest_idx (fun r => P r ≤ b + 1) (N - 1) c (by omega)
    (by show P c ≤ b + 1; omega)
  refine ⟨r1, r2, g1, g2, k1, k2, g3, k3, ?_, ?_⟩
  · intro e
    have : ¬ (P (c + 1) ≤ b + 1) := k4 (c + 1) (by omega) (by omega)
    omega
  · intro p hp h1 h2
    have hr := hrk p hp
    constructor
    · by_cases hlt : rx p < r1
      · exact absurd h1 (g4 (rx p) hr.1 hlt)
      · omega
    · by_cases hlt : r2 < ry p
      · exact absurd h2 (k4 (ry p) hlt (by omega))
      · omega

/-- the list of the non-stable variables -/
noncomputable def nsVars (bf rx ry : Int → Int) (all : List Int) : List Int :=
  all.filter (fun p => !stvB bf rx ry p)

theorem mem_nsVars {p : Int} : p ∈ nsVars bf rx ry all ↔ p ∈ all ∧ ¬ StV bf rx ry p := by
  unfold nsVars
  rw [List.mem_filter, Bool.not_eq_true', stvB_false]

theorem insideCount_ns (bd bf rx ry : Int → Int) (all : List Int) (a b : Int) :
    insideCount ((nsVars bf rx ry all).map (xdom (PN bd bf) rx ry)) a b =
      all.countP (fun p => (xdom (PN bd bf) rx ry p).within a b && !stvB bf rx ry p) := by
  unfold nsVars
  rw [insideCount_eq_countP, List.countP_map, List.countP_filter]; rfl

theorem within_xdom {P : Int → Int} {p a b : Int} :
    (xdom P rx ry p).within a b = true ↔ a ≤ P (rx p) ∧ P (ry p) ≤ b + 1 := by
  rw [Dom.within_iff]; simp only [xdom]; omega

/-- the cell taken by a variable in a cell solution, if non-stable, has a positive demand -/
theorem taken_ns_pos (h : LFin N bd rx ry all U bf) (hκ : CellSol N bd rx ry all κ) {p : Int}
    (hp : p ∈ all) (hns : ¬ St bf (κ p)) : 1 ≤ DN bd bf (κ p) := by
  obtain ⟨_, t2, _⟩ := lfin_tight h hκ
  have hr := h.ctx.rk p hp
  have hd := hκ.dom p hp
  have := t2 (κ p) (by omega) (by omega) hns
  have hpos : 0 < all.countP (fun q => decide (κ q = κ p)) :=
    List.countP_pos_iff.2 ⟨p, hp, by simp⟩
  rw [DN_of_ns hns]; omega

/-- the expanded domain of a non-stable variable is not empty -/
theorem xdom_nonempty (h : LFin N bd rx ry all U bf) (hκ : CellSol N bd rx ry all κ) {p : Int}
    (hp : p ∈ all) (hns : ¬ StV bf rx ry p) : PN bd bf (rx p) < PN bd bf (ry p) := by
  have hr := h.ctx.rk p hp
  have hd := hκ.dom p hp
  have hc := (ns_var_iff h hκ hp).1 hns
  have h1 := taken_ns_pos h hκ hp hc
  have h2 := PN_succ bd bf (by omega : (1 : Int) ≤ κ p)
  have h3 := PN_mono (bf := bf) h.ctx hr.1 hd.1 (by omega)
  have h4 := PN_mono (bf := bf) h.ctx (by omega : (1 : Int) ≤ κ p + 1)
    (by omega : κ p + 1 ≤ ry p) (by omega)
  omega

theorem nonempty_ns (h : LFin N bd rx ry all U bf) (hκ : CellSol N bd rx ry all κ) :
    Box.Nonempty ((nsVars bf rx ry all).map (xdom (PN bd bf) rx ry)) := by
  intro d hd
  obtain ⟨p, hp, rfl⟩ := List.mem_map.1 hd
  rw [mem_nsVars] at hp
  have := xdom_nonempty h hκ hp.1 hp.2
  simp only [xdom]; omega

/-- the domains inside an expanded interval, after the shrinking -/
theorem inside_le_nsIn {P : Int → Int} {a b r1 r2 : Int}
    (hsh : ∀ p ∈ all, a ≤ P (rx p) → P (ry p) ≤ b + 1 → r1 ≤ rx p ∧ ry p ≤ r2) :
    all.countP (fun p => (xdom P rx ry p).within a b && !stvB bf rx ry p) ≤
      all.countP (fun p => !stvB bf rx ry p && nsInB bf rx ry r1 r2 p) := by
  apply List.countP_mono_left
  intro p hp hq
  rw [Bool.and_eq_true, within_xdom] at hq
  rw [Bool.and_eq_true, nsInB_true]
  have := hsh p hp hq.1.1 hq.1.2
  exact ⟨hq.2, fun c h1 h2 _ => ⟨by omega, by omega⟩⟩

/-- Hall's condition of the expanded box -/
theorem hallOK_ns (h : LFin N bd rx ry all U bf) (hκ : CellSol N bd rx ry all κ) :
    HallOK ((nsVars bf rx ry all).map (xdom (PN bd bf) rx ry)) := by
  intro a b hab
  rw [insideCount_ns]
  by_cases hex : ∃ p ∈ all,
      ((xdom (PN bd bf) rx ry p).within a b && !stvB bf rx ry p) = true
  · obtain ⟨p, hp, hq⟩ := hex
    rw [Bool.and_eq_true, within_xdom, Bool.not_eq_true', stvB_false] at hq
    have hr := h.ctx.rk p hp
    have hne := xdom_nonempty h hκ hp hq.2
    obtain ⟨r1, r2, g1, g2, g3, g4, g5, g6, _, g8⟩ :=
      shrink (PN bd bf) h.ctx.rk a b (rx p) hr.1 (by omega) hq.1.1 (by omega)
    have h1 := inside_le_nsIn (bf := bf) g8
    have h2 := nsIn_count_le h hκ g1 (by omega : r1 ≤ r2) g4
    have h3 := PN_diff bd bf g1 (by omega : r1 ≤ r2)
    omega
  · rw [countP_false]
    · omega
    · intro p hp
      cases hq : ((xdom (PN bd bf) rx ry p).within a b && !stvB bf rx ry p)
      · rfl
      · exact absurd ⟨p, hp, hq⟩ hex

/-- a variable whose non-stable cells lie in `[r1, r2)` has its expanded domain inside
    `[PN r1, PN r2 - 1]` -/
theorem within_of_nsIn (hctx : WCtx N bd rx ry all) {k c r1 r2 a b : Int} (hk : k ∈ all)
    (hc1 : rx k ≤ c) (hc2 : c < ry k) (h1 : 1 ≤ r1) (h2 : r1 ≤ c) (h3 : c < r2)
    (h4 : r2 ≤ N - 1) (ha : a ≤ PN bd bf r1) (hb : PN bd bf r2 ≤ b + 1)
    (hin : nsIn bf rx ry k r1 r2) : (xdom (PN bd bf) rx ry k).within a b = true := by
  have hr := hctx.rk k hk
  rw [within_xdom]
  constructor
  · by_cases hlt : rx k < r1
    · have := PN_stable_run (bd := bd) (bf := bf) hr.1 (by omega : rx k ≤ r1) (by
        intro j g1 g2
        apply Classical.byContradiction
        intro hns
        have := hin j g1 (by omega) hns
        omega)
      omega
    · have := PN_mono (bf := bf) hctx h1 (by omega : r1 ≤ rx k) (by omega)
      omega
  · by_cases hlt : r2 < ry k
    · have := PN_stable_run (bd := bd) (bf := bf) (by omega : (1 : Int) ≤ r2)
        (by omega : r2 ≤ ry k) (by
        intro j g1 g2
        apply Classical.byContradiction
        intro hns
        have := hin j (by omega) g2 hns
        omega)
      omega
    · have := PN_mono (bf := bf) hctx (by omega : (1 : Int) ≤ ry k) (by omega : ry k ≤ r2)
        (by omega)
      omega

/-- the start of the block `c` lies in no Hall interval of the expanded box foreign to `k` -/
theorem hcmp_ns (h : LFin N bd rx ry all U bf) (hκ : CellSol N bd rx ry all κ)
    (k c : Int) (hk : k ∈ all) (hc1 : rx k ≤ c) (hc2 : c < ry k)
    (havoid : ∀ r1 r2, 1 ≤ r1 → r1 ≤ c → c < r2 → r2 ≤ N - 1 →
      ((all.countP (fun p => !stvB bf rx ry p && nsInB bf rx ry r1 r2 p) : Nat) : Int) ≥
        sumI (DN bd bf) r1 r2 → nsIn bf rx ry k r1 r2)
    (a b : Int) (hH : IsHall ((nsVars bf rx ry all).map (xdom (PN bd bf) rx ry)) a b)
    (hwith : (xdom (PN bd bf) rx ry k).within a b = false) :
    ¬ (a ≤ PN bd bf c ∧ PN bd bf c ≤ b) := by
  intro ⟨ha, hb⟩
  obtain ⟨hab, hH⟩ := hH
  rw [insideCount_ns] at hH
  have hr := h.ctx.rk k hk
  obtain ⟨r1, r2, g1, g2, g3, g4, g5, g6, g7, g8⟩ :=
    shrink (PN bd bf) h.ctx.rk a b c (by omega) (by omega) ha hb
  have h1 := inside_le_nsIn (bf := bf) g8
  have h2 := nsIn_count_le h hκ g1 (by omega : r1 ≤ r2) g4
  have h3 := PN_diff bd bf g1 (by omega : r1 ≤ r2)
  have hlt : c < r2 := by
    by_cases e : r2 = c
    · have := g7 e
      subst e
      omega
    · omega
  have hin := havoid r1 r2 g1 g2 hlt g4 (by omega)
  rw [within_of_nsIn h.ctx hk hc1 hc2 g1 g2 hlt g4 g5 g6 hin] at hwith
  cases hwith

end

/-! ### pigeonhole: an injection into blocks of the right total length fills every block -/

theorem blocks_exact (P τ κ : Int → Int) (W : List Int) (M : Int) (hM : 1 ≤ M)
    (hnd : (W.map τ).Nodup) (hmono : ∀ c, 1 ≤ c → c < M → P c ≤ P (c + 1))
    (hblk : ∀ x ∈ W, 1 ≤ κ x ∧ κ x < M ∧ P (κ x) ≤ τ x ∧ τ x < P (κ x + 1))
    (hlen : (W.length : Int) = P M - P 1) :
    ∀ c, 1 ≤ c → c < M → occ κ W c = P (c + 1) - P c := by
  have hterm : ∀ k, 1 ≤ k → k < M → occ κ W k ≤ (fun k => P (k + 1) - P k) k := by
    intro k h1 h2
    apply occ_le_of_block τ κ P W hnd k (hmono k h1 h2)
    intro x hx e
    have := hblk x hx
    rw [e] at this
    exact ⟨this.2.2.1, this.2.2.2⟩
  have hcells := countP_cells W κ (fun _ => true) 1 M hM
  have hall : W.countP (fun p => decide (1 ≤ κ p) && decide (κ p < M) && true) = W.length := by
    rw [List.countP_eq_length]
    intro x hx
    have := hblk x hx
    simp only [Bool.and_true, Bool.and_eq_true, decide_eq_true_eq]
    exact ⟨this.1, this.2.1⟩
  have hsum : sumI (fun k => if true = true then
        ((W.countP (fun p => decide (κ p = k)) : Nat) : Int) else 0) 1 M =
      sumI (occ κ W) 1 M := by
    apply sumI_congr M hM
    intro k _ _
    simp only [if_true]; rfl
  have htele := sumI_tele P 1 M hM
  rw [hall, hsum] at hcells
  exact sumI_eq_term M hM hterm (by omega)

section
variable {N : Int} {bd rx ry bf κ0 : Int → Int} {all U : List Int}

/-- step 1: the cell `c` has a positive demand -/
theorem dem_pos_of_avoid (h : LFin N bd rx ry all U bf) (hκ0 : CellSol N bd rx ry all κ0)
    (k c : Int) (hk : k ∈ all) (hns : ¬ StV bf rx ry k)
    (hc1 : rx k ≤ c) (hc2 : c < ry k)
    (havoid : ∀ r1 r2, 1 ≤ r1 → r1 ≤ c → c < r2 → r2 ≤ N - 1 →
      ((all.countP (fun p => !stvB bf rx ry p && nsInB bf rx ry r1 r2 p) : Nat) : Int) ≥
        sumI (DN bd bf) r1 r2 → nsIn bf rx ry k r1 r2) : 1 ≤ DN bd bf c := by
  by_cases hpos : 1 ≤ DN bd bf c
  · exact hpos
  · exfalso
    have hr := h.ctx.rk k hk
    have hin := havoid c (c + 1) (by omega) (Int.le_refl _) (by omega) (by omega)
      (by rw [sumI_one]; omega)
    have hd := hκ0.dom k hk
    have hcell := (ns_var_iff h hκ0 hk).1 hns
    have := hin (κ0 k) hd.1 hd.2 hcell
    have e : κ0 k = c := by omega
    have := taken_ns_pos h hκ0 hk hcell
    rw [e] at this
    exact hpos this

/-- step 5: pairwise distinct expanded values for the non-stable variables, `k` taking the start
    of the block `c` -/
theorem expanded_ns_matching (h : LFin N bd rx ry all U bf) (hκ0 : CellSol N bd rx ry all κ0)
    (k c : Int) (hk : k ∈ all) (hns : ¬ StV bf rx ry k)
    (hc1 : rx k ≤ c) (hc2 : c < ry k)
    (havoid : ∀ r1 r2, 1 ≤ r1 → r1 ≤ c → c < r2 → r2 ≤ N - 1 →
      ((all.countP (fun p => !stvB bf rx ry p && nsInB bf rx ry r1 r2 p) : Nat) : Int) ≥
        sumI (DN bd bf) r1 r2 → nsIn bf rx ry k r1 r2) :
    ∃ τ : Int → Int,
      (∀ x ∈ nsVars bf rx ry all, PN bd bf (rx x) ≤ τ x ∧ τ x < PN bd bf (ry x)) ∧
      ((nsVars bf rx ry all).map τ).Nodup ∧ τ k = PN bd bf c := by
  have hr := h.ctx.rk k hk
  have hkW : k ∈ nsVars bf rx ry all := mem_nsVars.2 ⟨hk, hns⟩
  have hWn : (nsVars bf rx ry all).Nodup := h.nodup.filter _
  have hpos : (nsVars bf rx ry all).idxOf k <
      ((nsVars bf rx ry all).map (xdom (PN bd bf) rx ry)).length := by
    rw [List.length_map]; exact List.idxOf_lt_length_of_mem hkW
  have hgd := getDom_map_idxOf (xdom (PN bd bf) rx ry) (nsVars bf rx ry all) k hkW
  have hD := dem_pos_of_avoid h hκ0 k c hk hns hc1 hc2 havoid
  have hs := PN_succ bd bf (by omega : (1 : Int) ≤ c)
  have hv1 : PN bd bf (rx k) ≤ PN bd bf c := PN_mono h.ctx hr.1 hc1 (by omega)
  have hv2 : PN bd bf (c + 1) ≤ PN bd bf (ry k) :=
    PN_mono h.ctx (by omega) (by omega) (by omega)
  obtain ⟨t, ht, hnd, htk⟩ := AllDiff.port_bound_support hall_matching
    ((nsVars bf rx ry all).map (xdom (PN bd bf) rx ry)) (nonempty_ns h hκ0) (hallOK_ns h hκ0)
    ((nsVars bf rx ry all).idxOf k) hpos (PN bd bf c)
    (by rw [hgd]; exact hv1) (by rw [hgd]; simp only [xdom]; omega) (by
      intro a b hH hwith
      rw [hgd] at hwith
      exact hcmp_ns h hκ0 k c hk hc1 hc2 havoid a b hH hwith)
  obtain ⟨τ, h1, h2⟩ := fun_of_inBox (xdom (PN bd bf) rx ry) (nsVars bf rx ry all) hWn t ht
  refine ⟨τ, ?_, by rw [h2]; exact hnd, ?_⟩
  · intro x hx
    have := h1 x hx
    simp only [inDom, xdom] at this
    omega
  · rw [← getI_map_idxOf τ (nsVars bf rx ry all) k hkW, h2]
    exact htk

/-- step 6: from the expanded values back to a cell solution -/
theorem cellSol_of_matching (h : LFin N bd rx ry all U bf) (hκ0 : CellSol N bd rx ry all κ0)
    (τ : Int → Int)
    (hτ : ∀ x ∈ nsVars bf rx ry all, PN bd bf (rx x) ≤ τ x ∧ τ x < PN bd bf (ry x))
    (hnd : ((nsVars bf rx ry all).map τ).Nodup) :
    ∃ κ, CellSol N bd rx ry all κ ∧
      ∀ x ∈ nsVars bf rx ry all, PN bd bf (κ x) ≤ τ x ∧ τ x < PN bd bf (κ x + 1) := by
  have hN := h.ctx.hN
  obtain ⟨t1, t2, _⟩ := lfin_tight h hκ0
  -- the block of every non-stable variable
  have hex : ∀ x ∈ nsVars bf rx ry all, ∃ v, rx x ≤ v ∧ v ≤ ry x - 1 ∧
      PN bd bf v ≤ τ x ∧ τ x < PN bd bf (v + 1) := by
    intro x hx
    have hr := h.ctx.rk x (mem_nsVars.1 hx).1
    have ht := hτ x hx
    have e : ry x - 1 + 1 = ry x := by omega
    exact block_exists (PN bd bf) (τ x) (ry x - 1 - rx x).toNat (rx x) (ry x - 1) (by omega)
      ht.1 (by rw [e]; exact ht.2)
  have hex' : ∀ x, ∃ w, x ∈ nsVars bf rx ry all →
      rx x ≤ w ∧ w ≤ ry x - 1 ∧ PN bd bf w ≤ τ x ∧ τ x < PN bd bf (w + 1) := by
    intro x
    by_cases hx : x ∈ nsVars bf rx ry all
    · obtain ⟨w, hw⟩ := hex x hx
      exact ⟨w, fun _ => hw⟩
    · exact ⟨0, fun h => absurd h hx⟩
  let κ : Int → Int := fun x =>
    if stvB bf rx ry x = true then κ0 x else Classical.choose (hex' x)
  have hκS : ∀ x, StV bf rx ry x → κ x = κ0 x := by
    intro x hx
    simp only [κ, if_pos (stvB_true.2 hx)]
  have hκW : ∀ x ∈ nsVars bf rx ry all, rx x ≤ κ x ∧ κ x ≤ ry x - 1 ∧
      PN bd bf (κ x) ≤ τ x ∧ τ x < PN bd bf (κ x + 1) := by
    intro x hx
    have hns := (mem_nsVars.1 hx).2
    have e : κ x = Classical.choose (hex' x) := by
      have : ¬ stvB bf rx ry x = true := by rw [stvB_true]; exact hns
      simp only [κ, if_neg this]
    rw [e]
    exact Classical.choose_spec (hex' x) hx
  -- every block is filled exactly
  have hlen : ((nsVars bf rx ry all).length : Int) = PN bd bf (N - 1) - PN bd bf 1 := by
    have e1 : PN bd bf 1 = 0 := sumI_empty _ _
    have e2 : (nsVars bf rx ry all).length = all.countP (fun p => !stvB bf rx ry p) := by
      unfold nsVars; rw [List.countP_eq_length_filter]
    rw [e1, e2, ns_total h hκ0]; omega
  have hexact := blocks_exact (PN bd bf) τ κ (nsVars bf rx ry all) (N - 1) (by omega) hnd
    (fun c h1 h2 => PN_mono h.ctx h1 (by omega) (by omega))
    (by
      intro x hx
      have hr := h.ctx.rk x (mem_nsVars.1 hx).1
      have := hκW x hx
      exact ⟨by omega, by omega, this.2.2.1, this.2.2.2⟩)
    hlen
  refine ⟨κ, ⟨?_, ?_⟩, fun x hx => ⟨(hκW x hx).2.2.1, (hκW x hx).2.2.2⟩⟩
  · intro p hp
    by_cases hst : StV bf rx ry p
    · rw [hκS p hst]; exact hκ0.dom p hp
    · have := hκW p (mem_nsVars.2 ⟨hp, hst⟩)
      exact ⟨this.1, by omega⟩
  · intro c h1 h2
    by_cases hst : St bf c
    · have hmono := List.countP_mono_left (l := all)
        (p := fun p => decide (κ0 p = c)) (q := fun p => decide (κ p = c)) (by
          intro p hp hq
          rw [decide_eq_true_eq] at hq
          have hsv : StV bf rx ry p := by
            apply Classical.byContradiction
            intro hns
            have := t1 p hp hns
            rw [hq] at this
            exact this hst
          rw [decide_eq_true_eq, hκS p hsv]; exact hq)
      have := hκ0.dem c h1 h2
      omega
    · have he := hexact c h1 (by omega)
      have hs := PN_succ bd bf h1
      rw [DN_of_ns hst] at hs
      have hsub : (nsVars bf rx ry all).countP (fun p => decide (κ p = c)) ≤
          all.countP (fun p => decide (κ p = c)) :=
        List.Sublist.countP_le List.filter_sublist
      unfold occ at he
      omega

set_option linter.unusedVariables false in
/-- **a non-stable cell `c` of a non-stable variable `k` that lies in no contracted Hall interval
    foreign to `k` is taken by `k` in some cell solution.**  A contracted Hall interval is a pair
    `r1 < r2` of cell indices such that the non-stable variables all of whose non-stable cells lie
    in `[r1, r2)` are at least (then exactly) as many as the non-stable demand of `[r1, r2)`.
    (`hc3` follows from the other hypotheses and is kept for the convenience of the caller.) -/
theorem cell_support_of_avoid (h : LFin N bd rx ry all U bf) (hκ0 : CellSol N bd rx ry all κ0)
    (k c : Int) (hk : k ∈ all) (hns : ¬ StV bf rx ry k)
    (hc1 : rx k ≤ c) (hc2 : c < ry k) (hc3 : ¬ St bf c)
    (havoid : ∀ r1 r2, 1 ≤ r1 → r1 ≤ c → c < r2 → r2 ≤ N - 1 →
      ((all.countP (fun p => !stvB bf rx ry p && nsInB bf rx ry r1 r2 p) : Nat) : Int) ≥
        sumI (DN bd bf) r1 r2 → nsIn bf rx ry k r1 r2) :
    ∃ κ, CellSol N bd rx ry all κ ∧ κ k = c := by
  have hr := h.ctx.rk k hk
  obtain ⟨τ, hτ, hnd, hτk⟩ := expanded_ns_matching h hκ0 k c hk hns hc1 hc2 havoid
  obtain ⟨κ, hκ, hblk⟩ := cellSol_of_matching h hκ0 τ hτ hnd
  refine ⟨κ, hκ, ?_⟩
  have hD := dem_pos_of_avoid h hκ0 k c hk hns hc1 hc2 havoid
  have hs := PN_succ bd bf (by omega : (1 : Int) ≤ c)
  have hb := hblk k (mem_nsVars.2 ⟨hk, hns⟩)
  have hd := hκ.dom k hk
  rw [hτk] at hb
  exact block_unique (bf := bf) h.ctx (by omega : (1 : Int) ≤ c) (by omega)
    (by omega : (1 : Int) ≤ κ k) (by omega) (Int.le_refl _) (by omega) hb.1 hb.2

end

end Gcc
end Nucs
