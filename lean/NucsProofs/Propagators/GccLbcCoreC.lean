import NucsProofs.Propagators.GccLbcCoreB
import NucsProofs.Propagators.GccLbcComplete
import NucsProofs.Propagators.GccLbcLoopU
/-!
  Completeness of the lower-capacity passes — core argument for the new MAXIMUM (written by
  `filter_upper_min`) of a variable that is not stable, detached from the monadic code.
-/
namespace Nucs
namespace Gcc
open AllDiff (g g2 cinR Oth mbd Sm)

/-- a cell solution, read in the mirrored coordinates of `filter_upper_min` -/
theorem cellSol_mirror {N : Int} {bd rx ry κ : Int → Int} {all all' : List Int}
    (hperm : all'.Perm all) (h : CellSol N bd rx ry all κ) :
    CellSol N (mbd N bd) (fun v => N - ry v) (fun v => N - rx v) all' (fun p => N - 1 - κ p) := by
  refine ⟨?_, ?_⟩
  · intro p hp
    have := h.dom p (hperm.mem_iff.1 hp)
    omega
  · intro k h1 h2
    have := h.dem (N - 1 - k) (by omega) (by omega)
    simp only [mbd]
    have e1 : N - (k + 1) = N - 1 - k := by omega
    have e2 : N - k = N - 1 - k + 1 := by omega
    rw [e1, e2]
    have hc : all'.countP (fun p => decide (N - 1 - κ p = k)) =
        all.countP (fun p => decide (κ p = N - 1 - k)) := by
      rw [hperm.countP_eq]
      apply List.countP_congr
      intro p _
      simp only [decide_eq_true_eq]
      constructor <;> intro h' <;> omega
    rw [hc]; omega

section
variable {M n fv m : Int} {bounds : Array Int} {ranks domains : Arr2} {l : PSum}
  {valuesL : Array Int} {lows ups : Int → Int} {all U : List Int} {bf : Int → Int} {mn mx : Int}
  {msvU : Array Int} {allU : List Int} {dom0 dom' : Arr2} {stbl' nm' : Array Int} {U' : List Int}
  {sf' wf' : Int → Int}

theorem lsup_ns_max_core (hb : BC bounds (M + 1) fv m) (hpl : PS l fv m) (hds : DSSem l m)
    (hstepL : ∀ k, 2 ≤ k → k < m + 2 → g l.1 (k + 1) = g l.1 k + g valuesL (k - 2))
    (hvL : ∀ j, 0 ≤ j → j < m → g valuesL j = lows j)
    (hperm : all.Perm (rangeUp 0 n)) (hnodup : all.Nodup)
    (hrk : RanksOK (M + 1) n bounds ranks domains)
    (hfin : LFin (M + 1) (K l fv bounds) (fun v => (g2 ranks v).1) (fun v => (g2 ranks v).2) all U bf)
    {τ0 : Int → Int} (hτ0 : GSol n fv m domains lows ups τ0)
    (hmn1 : g bounds 1 ≤ mn) (hmn3 : mn ≤ fv + m) (hc1 : ¬ gsum l fv (mn - 1) > 0)
    (hmx1 : mx + 1 ≤ g bounds (M + 1 - 1)) (hmx3 : fv - 1 ≤ mx)
    (hc2 : ¬ gsum l (mx + 1) (fv + m - 1) > 0)
    (houtU : UMinOut M n (K l fv bounds) bounds l ranks msvU allU dom0 stbl' nm' dom' U' sf' wf')
    (hcfU : ∀ u ∈ U', CFact (M + 1) (mbd (M + 1) (K l fv bounds)) (fun v => M + 1 - (g2 ranks v).2)
      (fun v => M + 1 - (g2 ranks v).1) U' u (wf' u))
    (hpermU : allU.Perm all) (hnodupU : allU.Nodup)
    (k : Int) (hk0 : 0 ≤ k) (hk1 : k < n)
    (hns : ¬ StV bf (fun v => (g2 ranks v).1) (fun v => (g2 ranks v).2) k)
    (i : Int) (hi0 : 0 ≤ i) (hi1 : i < n) (hik : g msvU i = k)
    (r : Int) (hr : skip_non_null_elements_left l (g bounds (g nm' i) - 1) = .ok r) :
    ∃ σ : Int → Int, LSup n fv m domains lows σ k r := by
  have hN := hb.hN
  have hmem : ∀ p ∈ all, 0 ≤ p ∧ p < n := by
    intro p hp
    have := hperm.mem_iff.1 hp
    rwa [mem_rangeUp] at this
  have hmem' : ∀ p, 0 ≤ p → p < n → p ∈ all :=
    fun p h0 h1 => hperm.mem_iff.2 (by rw [mem_rangeUp]; exact ⟨h0, h1⟩)
  have hkall := hmem' k hk0 hk1
  have hx := lctx_of hb hpl hstepL hvL hperm hrk hτ0
  have hκ0 := cellSol hx
  have hrkA : ∀ u ∈ all, 1 ≤ (g2 ranks u).1 ∧ (g2 ranks u).1 < (g2 ranks u).2 ∧
      (g2 ranks u).2 < M + 1 := hx.rk
  have hrkU : ∀ u ∈ allU, 1 ≤ (g2 ranks u).1 ∧ (g2 ranks u).1 < (g2 ranks u).2 ∧
      (g2 ranks u).2 < M + 1 := fun u hu => hrkA u (hpermU.mem_iff.1 hu)
  have hVb := umin_matching hb hpl houtU hrkU
  have hVn : U'.Nodup := houtU.usub.nodup hnodupU
  have hVs : ∀ u ∈ U', u ∈ all := fun u hu => hpermU.mem_iff.1 (houtU.usub.subset hu)
  obtain ⟨Y, tf, df, hsem⟩ := houtU.sem
  -- every variable that is not stable is used by this pass
  have hVw : ∀ p ∈ all, ¬ StV bf (fun v => (g2 ranks v).1) (fun v => (g2 ranks v).2) p → p ∈ U' := by
    intro p hp hq
    by_cases h : p ∈ U'
    · exact h
    · exfalso
      obtain ⟨a, a1, a2, a3⟩ := houtU.uz p (hpermU.mem_iff.2 hp) h
      rw [cinR_mirror] at a3
      simp only [mbd, Int.sub_sub_self] at a3
      have hd := hκ0.dom p hp
      have hd1 : (g2 ranks p).1 ≤ cellOf (M + 1) (g bounds) τ0 p := hd.1
      have hd2 : cellOf (M + 1) (g bounds) τ0 p < (g2 ranks p).2 := hd.2
      have hr' := hrkA p hp
      exact zone_contra (a := (g2 ranks p).1) (w := M + 1 - a) hfin hκ0 hVn hVs hVb hp h hq hr'.1
        hd1 (by omega) (by omega) (by omega)
  -- the matching of this pass is complete
  have hbot := K_bot hpl hb
  have hctx' : WCtx (M + 1) (mbd (M + 1) (K l fv bounds)) (fun v => M + 1 - (g2 ranks v).2)
      (fun v => M + 1 - (g2 ranks v).1) allU := by
    refine ⟨hN, ?_, ?_⟩
    · intro i j h0 hij hj
      simp only [mbd]
      have := K_mono hpl hb (M + 1 - j) (M + 1 - i) (by omega) (by omega) (by omega)
      omega
    · intro u hu
      have := hrkU u hu
      omega
  have hVc' := matching_complete_of_zones hctx' hnodupU hVn (fun u hu => houtU.usub.subset hu)
    (by simp only [mbd]; have e1 : M + 1 - (M + 1 - 1) = 1 := by omega
        have e2 : M + 1 - (M + 1) = 0 := by omega
        rw [e1, e2]; omega)
    hsem.s2r houtU.uz (cellSol_mirror hpermU hκ0)
  have hVc : cinR (fun v => (g2 ranks v).1) (fun v => (g2 ranks v).2) U' 1 (M + 1 - 1) ≥
      K l fv bounds (M + 1 - 1) - K l fv bounds 1 := by
    rw [cinR_mirror] at hVc'
    simp only [mbd] at hVc'
    have e1 : M + 1 - (M + 1 - 1) = 1 := by omega
    have e2 : M + 1 - 1 = M + 1 - 1 := rfl
    rw [e1] at hVc'
    omega
  have hVe := runs_filled_of_complete hfin hκ0 hVn hVs hVb hVw hVc
  have hkU := hVw k hkall hns
  have hnmi := houtU.nm i hi0 hi1 (by rw [hik]; exact hkU)
  rw [hik] at hnmi
  rw [hnmi] at hr
  -- the candidate bound
  have hnf := hsem.nmf k hkU
  simp only [NMFact] at hnf
  obtain ⟨w1, w2, w3⟩ := hnf
  have hrkk := hrkA k hkall
  generalize hwdef : M + 1 - wf' k = w at hr
  have hd := hκ0.dom k hkall
  have hd1 : (g2 ranks k).1 ≤ cellOf (M + 1) (g bounds) τ0 k := hd.1
  have hd2 : cellOf (M + 1) (g bounds) τ0 k < (g2 ranks k).2 := hd.2
  have hsound : ∀ κ, CellSol (M + 1) (K l fv bounds) (fun v => (g2 ranks v).1)
      (fun v => (g2 ranks v).2) all κ → κ k < w := by
    intro κ hκ
    have hdk := hκ.dom k hkall
    have hdk1 : (g2 ranks k).1 ≤ κ k := hdk.1
    have hdk2 : κ k < (g2 ranks k).2 := hdk.2
    by_cases hwy : w = (g2 ranks k).2
    · omega
    · rcases w3 with w3 | ⟨ja, j1, j2, j3⟩
      · omega
      · rw [cinR_mirror] at j3
        simp only [mbd] at j3
        rw [hwdef] at j3
        have hw1 : 1 ≤ w := by
          by_cases h : 1 ≤ w
          · exact h
          · exfalso
            have hw0 : w = 0 := by omega
            rw [hw0] at j3
            have hOr : ∀ p ∈ Oth U' k, 1 ≤ (g2 ranks p).1 :=
              fun p hp => (hrkA p (hVs p ((oth_sublist U' k).subset hp))).1
            rw [cinR_zero_one _ _ _ hOr] at j3
            have h1 := AllDiff.cinR_sublist (fun v => (g2 ranks v).1) (fun v => (g2 ranks v).2)
              (oth_sublist U' k) 1 (M + 1 - ja)
            have h2 := hVb 1 (M + 1 - ja) (Int.le_refl _) (by omega) (by omega)
            omega
        exact lfin_prune_up hfin hκ U' hVn hVs hVb k w (M + 1 - ja) hkU hns hw1
          (by omega) (by omega) (by omega) (by omega)
  have hwκ := hsound _ hκ0
  have hw1 : 1 ≤ w := by omega
  have hwy : w ≤ (g2 ranks k).2 := by omega
  have hwN : w ≤ M + 1 - 1 := by omega
  -- completeness of the candidate, unmirrored
  have hcf : ∀ ja yb, 1 ≤ ja → ja < yb → yb ≤ M + 1 →
      cinR (fun v => (g2 ranks v).1) (fun v => (g2 ranks v).2)
        (U'.filter (fun p => decide ((g2 ranks k).1 < (g2 ranks p).1))) ja yb ≥
          K l fv bounds yb - K l fv bounds ja → ¬ (ja < w ∧ w ≤ yb) := by
    intro ja yb h1 h2 h3 h4 h5
    have hfs : (U'.filter (fun p => decide ((g2 ranks k).1 < (g2 ranks p).1))).Sublist U' :=
      List.filter_sublist
    have hle := AllDiff.cinR_sublist (fun v => (g2 ranks v).1) (fun v => (g2 ranks v).2) hfs ja yb
    by_cases hyb : yb ≤ M
    · have hm := hcfU k hkU (M + 1 - yb) (M + 1 - ja) (by omega) (by omega) (by omega)
      have hSm : Sm (fun v => M + 1 - (g2 ranks v).1) U' k =
          U'.filter (fun p => decide ((g2 ranks k).1 < (g2 ranks p).1)) := by
        unfold Sm
        apply List.filter_congr
        intro p _
        simp only [decide_eq_decide]
        constructor <;> intro h' <;> omega
      rw [hSm, cinR_mirror] at hm
      simp only [mbd, Int.sub_sub_self] at hm
      exact hm (by omega) ⟨by omega, by omega⟩
    · have e : yb = M + 1 := by omega
      have hUr : ∀ u ∈ U', (g2 ranks u).2 < M + 1 := fun u hu => (hrkA u (hVs u hu)).2.2
      have hUr2 : ∀ u ∈ U', (g2 ranks u).1 < (g2 ranks u).2 := fun u hu => (hrkA u (hVs u hu)).2.1
      have htop := K_top hpl hb
      rw [e] at h4 hle
      rw [cinR_top hUr] at hle
      by_cases hj : ja < M + 1 - 1
      · have := hVb ja (M + 1 - 1) h1 hj (by omega); omega
      · have e2 : ja = M + 1 - 1 := by omega
        rw [e2, cinR_void hUr2 (Int.le_refl _)] at hle
        rw [e2] at h4
        omega
  -- the value `r`
  have hrange := hb.range w (by omega) (by omega)
  have hb1w := hb.le' 1 w (by omega) hw1 (by omega)
  have hbb1 := hb.b1
  obtain ⟨r', hr', s1, s2, s3, s4⟩ := skip_left_sem hpl hds (g bounds w - 1) (by omega) (by omega)
  rw [hr'] at hr
  have hrr : r' = r := by injection hr
  subst hrr
  have hpos0 := nonstable_pos hx hfin k hkall hns
  rw [cumOf_succ] at hpos0
  obtain ⟨_, _, d3, d4⟩ := cell_dom hx k hkall
  have hle := hx.le (cellOf (M + 1) (g bounds) τ0 k + 1) w (by omega) (by omega) (by omega)
  have hrτ : τ0 k ≤ r' := by
    by_cases h : τ0 k ≤ r'
    · exact h
    · have := s3 (τ0 k) (by omega) (by omega); omega
  have hτlo := hτ0.dom k hk0 hk1
  have hrkk' := hrk k hk0 hk1
  have hbrx := hb.le' 1 (g2 ranks k).1 (by omega) (by omega) (by omega)
  -- its cell
  obtain ⟨c, c1, c2, c3, c4⟩ := exists_cell_aux hx r' (w - 1 - 1).toNat 1 w (by omega)
    (by omega) (by omega) (by omega) (by omega)
  have hcapr : 1 ≤ cap l fv r' := by
    have := cap_nonneg hpl r' (by omega) (by omega); omega
  have hzero : ∀ c', c < c' → c' < w → K l fv bounds (c' + 1) = K l fv bounds c' := by
    intro c' a1 a2
    rw [K_cumOf, K_cumOf]
    have m1 := hb.lt' c' (c' + 1) (by omega) (by omega) (by omega)
    have m2 := hb.le' (c + 1) c' (by omega) (by omega) (by omega)
    have m3 := hb.le' (c' + 1) w (by omega) (by omega) (by omega)
    have := cumOf_flat l fv (g bounds c') (g bounds (c' + 1) - g bounds c').toNat
      (fun v b1 b2 => s3 v (by omega) (by omega))
    have e : g bounds c' + ((g bounds (c' + 1) - g bounds c').toNat : Int) = g bounds (c' + 1) := by
      omega
    rw [e] at this; exact this
  have hpos : K l fv bounds c < K l fv bounds (c + 1) := by
    rw [K_cumOf, K_cumOf]
    have hc0 := hb.range c (by omega) (by omega)
    have hc1' := hb.range (c + 1) (by omega) (by omega)
    have a1 := cumOf_mono hpl (g bounds c) r' (by omega) c3 (by omega)
    have a2 := cumOf_mono hpl (r' + 1) (g bounds (c + 1)) (by omega) (by omega) (by omega)
    have a3 := cumOf_succ l fv r'
    omega
  obtain ⟨e1, e2, e3, havoid⟩ := avoid_max hfin hκ0 hVn hVs hVb hVe hVw hkU hns w c hsound hcf hwN
    hwy c2 hzero hpos c1
  obtain ⟨κ, hκ, hκk⟩ := cell_support_of_avoid hfin hκ0 k c hkall hns e1 e2 e3 havoid
  obtain ⟨σ, t1, t2, t3⟩ := value_support_of_cell hN (K l fv bounds) (g bounds)
    (fun i j h0 hij hj => hb.lt' i j h0 hij hj) all hnodup
    (fun v => (g2 ranks v).1) (fun v => (g2 ranks v).2)
    (fun v => (g2 domains v).1) (fun v => (g2 domains v).2)
    (by intro p hp; have := hrk p (hmem p hp).1 (hmem p hp).2; omega)
    (by intro p hp; have := hrk p (hmem p hp).1 (hmem p hp).2; omega)
    (by intro p hp; have := hrk p (hmem p hp).1 (hmem p hp).2; omega)
    (cumOf l fv) (fun v => cap l fv v) (fun v => cumOf_succ l fv v) (fun _ _ _ => rfl)
    fv (fv + m) hb.b1 hb.bnb
    (fun v h1 h2 => cap_nonneg hpl v (by omega) (by omega))
    (by
      intro v h1 h2
      exact cap_zero_of_gsum hpl fv (mn - 1) (by omega) (by omega) hc1 v h1 (by omega))
    (by
      intro v h1 h2
      exact cap_zero_of_gsum hpl (mx + 1) (fv + m - 1) (by omega) (by omega) hc2 v (by omega)
        (by omega))
    κ hκ k hkall r' (by rw [hκk]; exact c3) (by rw [hκk]; exact c4) hcapr
  refine ⟨σ, fun v h0 h1 => t1 v (hmem' v h0 h1), ?_, t3⟩
  intro j h0 h1
  have := t2 (fv + j) (by omega) (by omega)
  rw [cap_values hstepL j h0 h1, hvL j h0 h1, occ_perm σ hperm] at this
  exact this

end

end Gcc
end Nucs
