import NucsProofs.Propagators.GccSoundAsm2
import NucsProofs.Propagators.GccSoundLMinLoop
import NucsProofs.Propagators.GccSoundUMinLoop
import NucsProofs.Propagators.PortGcc
import NucsProofs.Propagators.AlldiffCorrectPort
/-!
  Semantic soundness of the ported gcc — assembly, part 3: `compute_domains_gcc` on arrays.
-/
namespace Nucs
namespace Gcc
open AllDiff (g upd g2 upd2 ok_bind pure_eq_ok cinR Oth LChain mbd)

/-- In contract and with every capacity `≥ 1`: the ported `compute_domains_gcc` returns a result; and
    for every solution `τ` on the original domains it does not report an inconsistency, the new
    domains lie inside the old ones and still contain `τ`. -/
theorem compute_domains_gcc_sem (domains : Arr2) (parameters : Array Int) (m : Int) (hm : 1 ≤ m)
    (hps : (parameters.size : Int) = 2 * m + 1) (hn : 1 ≤ domains.size)
    (hdom : ∀ v : Int, 0 ≤ v → v < domains.size → g parameters 0 ≤ (g2 domains v).1 ∧
      (g2 domains v).1 ≤ (g2 domains v).2 ∧ (g2 domains v).2 ≤ g parameters 0 + m - 1)
    (hl : ∀ k : Int, 0 ≤ k → k < m → 0 ≤ g parameters (1 + k))
    (hu : ∀ k : Int, 0 ≤ k → k < m → 1 ≤ g parameters (1 + m + k)) :
    ∃ st dom', compute_domains_gcc domains parameters = .ok (st, dom') ∧
      (st ≠ .inc → dom'.size = domains.size) ∧
      ∀ τ : Int → Int, GSol (domains.size : Int) (g parameters 0) m domains
          (fun j => g parameters (1 + j)) (fun j => g parameters (1 + m + j)) τ →
        st ≠ .inc ∧ ∀ v : Int, 0 ≤ v → v < domains.size →
          (g2 domains v).1 ≤ (g2 dom' v).1 ∧ (g2 dom' v).1 ≤ τ v ∧ τ v ≤ (g2 dom' v).2 ∧
            (g2 dom' v).2 ≤ (g2 domains v).2 := by
  have hpm : pyDiv ((parameters.size : Int) - 1) 2 = m := by rw [hps]; exact pyDiv_two m
  -- the two capacity arrays
  have hLs : ((parameters.extract 1 (1 + m.toNat)).size : Int) = m := by
    rw [size_extract' _ _ _ (by omega) (by omega)]; omega
  have hLv : ∀ k : Int, 0 ≤ k → k < m →
      g (parameters.extract 1 (1 + m.toNat)) k = g parameters (1 + k) := by
    intro k h0 h1
    rw [g_extract _ _ _ k h0 (by omega) (by omega)]; rfl
  have hUs : ((parameters.extract (1 + m.toNat) parameters.size).size : Int) = m := by
    rw [size_extract' _ _ _ (Nat.le_refl _) (by omega)]; omega
  have hUv : ∀ k : Int, 0 ≤ k → k < m →
      g (parameters.extract (1 + m.toNat) parameters.size) k = g parameters (1 + m + k) := by
    intro k h0 h1
    rw [g_extract _ _ _ k h0 (by omega) (Nat.le_refl _)]
    congr 1; omega
  obtain ⟨l, hel, hpl, _, hstepL, hdsL⟩ := init_partial_sum_sem (g parameters 0) m _ (by omega) hLs
    (fun k h0 h1 => by rw [hLv k h0 h1]; exact hl k h0 h1)
  obtain ⟨u, heu, hpu, hstrict, hstepU, _⟩ := init_partial_sum_sem (g parameters 0) m _ (by omega) hUs
    (fun k h0 h1 => by rw [hUv k h0 h1]; have := hu k h0 h1; omega)
  have hus : PSStrict u m := hstrict (fun k h0 h1 => by rw [hUv k h0 h1]; exact hu k h0 h1)
  -- the sorted index arrays
  obtain ⟨hs1, hr1, hj1, ho1⟩ := argsort_spec (domains.map (·.1))
  obtain ⟨hs2, hr2, hj2, ho2⟩ := argsort_spec (domains.map (·.2))
  simp only [Array.size_map] at hs1 hr1 hj1 ho1 hs2 hr2 hj2 ho2
  obtain ⟨hpermU0, hsortU0⟩ := AllDiff.argsort_list (domains.map (·.1))
  obtain ⟨hpermL0, hsortL0⟩ := AllDiff.argsort_list (domains.map (·.2))
  simp only [Array.size_map] at hpermU0 hpermL0
  rw [← argsort_eq] at hpermU0 hpermL0 hsortU0 hsortL0
  have hctx : AllDiff.UBCtx domains.size domains (argsort (domains.map (·.1)))
      (argsort (domains.map (·.2))) := by
    rw [argsort_eq, argsort_eq]
    exact AllDiff.ubctx_of_argsort domains hn (fun v h0 h1 => (hdom v h0 h1).2.1)
  have hszI : (((2 * (domains.size : Int) + 2).toNat : Nat) : Int) = 2 * (domains.size : Int) + 2 := by
    omega
  obtain ⟨⟨nb, bounds, ranks⟩, hub, hnb1, hnb2, hbs, hrs, hb, hranks⟩ :=
    update_bounds_spec hctx hpl hpu hdom hszI
      (Array.replicate (2 * (domains.size : Int) + 2).toNat 0)
      (Array.replicate (domains.size : Int).toNat (0, 0)) (by simp) (by simp) hj1 hj2
  simp only at hnb1 hnb2 hbs hrs hb hranks
  generalize hmins : argsort (domains.map (·.1)) = mins at *
  generalize hmaxs : argsort (domains.map (·.2)) = maxs at *
  have hrkOK : RanksOK (nb + 1) (domains.size : Int) bounds ranks domains := by
    intro v h0 h1
    have := hranks v h0 h1
    omega
  have hdom' : ∀ v, 0 ≤ v → v < (domains.size : Int) →
      g parameters 0 ≤ (g2 domains v).1 ∧ (g2 domains v).2 ≤ g parameters 0 + m - 1 :=
    fun v h0 h1 => ⟨(hdom v h0 h1).1, (hdom v h0 h1).2.2⟩
  have hpermL : maxs.toList.Perm (rangeUp 0 (domains.size : Int)) := by
    rw [rangeUp_eq]; exact hpermL0
  have hpermM : mins.toList.Perm (rangeUp 0 (domains.size : Int)) := by
    rw [rangeUp_eq]; exact hpermU0
  have hmemL : ∀ v ∈ maxs.toList, 0 ≤ v ∧ v < (domains.size : Int) := by
    intro v hv
    have := hpermL.mem_iff.1 hv
    rwa [mem_rangeUp] at this
  have hnodupL : maxs.toList.Nodup := by
    rw [rangeUp_eq] at hpermL
    exact (hpermL.nodup_iff).2 (AllDiff.nodup_rangeUp _ _)
  unfold compute_domains_gcc
  simp only []
  rw [hpm, rd_ok parameters 0 (by omega) (by omega), ok_bind, hel, ok_bind,
    ok_bind, heu, ok_bind, hmins, hmaxs, hub, ok_bind]
  simp only []
  have hm0 := hr1 0 (by omega) (by omega)
  have hx0 := hr2 ((domains.size : Int) - 1) (by omega) (by omega)
  have hd0 := hdom _ hm0.1 hm0.2
  have hdx := hdom _ hx0.1 hx0.2
  rw [get_min_value_ok hpl, ok_bind, rd_ok _ 0 (by omega) (by omega), ok_bind,
    rd2_min_ok domains _ hm0.1 hm0.2, ok_bind,
    get_sum_ok hpl _ _ (by omega) (by omega) (by omega) (by omega), ok_bind]
  -- abbreviations
  have hvL : ∀ j, 0 ≤ j → j < m → g (parameters.extract 1 (1 + m.toNat)) j =
      (fun j => g parameters (1 + j)) j := fun j h0 h1 => hLv j h0 h1
  have hvU : ∀ j, 0 ≤ j → j < m → g (parameters.extract (1 + m.toNat) parameters.size) j =
      (fun j => g parameters (1 + m + j)) j := fun j h0 h1 => hUv j h0 h1
  have hminall : ∀ v, 0 ≤ v → v < (domains.size : Int) →
      (g2 domains (g mins 0)).1 ≤ (g2 domains v).1 := by
    intro v h0 h1
    obtain ⟨k, k0, k1, kv⟩ := hj1 v h0 h1
    have := ho1 0 k (by omega) k0 k1
    rw [AllDiff.g_map_fst domains _ hm0.1 hm0.2, kv, AllDiff.g_map_fst domains v h0 h1] at this
    exact this
  have hmaxall : ∀ v, 0 ≤ v → v < (domains.size : Int) →
      (g2 domains v).2 ≤ (g2 domains (g maxs ((domains.size : Int) - 1))).2 := by
    intro v h0 h1
    obtain ⟨k, k0, k1, kv⟩ := hj2 v h0 h1
    have := ho2 k ((domains.size : Int) - 1) k0 (by omega) (by omega)
    rw [AllDiff.g_map_snd domains _ hx0.1 hx0.2, kv, AllDiff.g_map_snd domains v h0 h1] at this
    exact this
  by_cases hc1 : gsum l (g parameters 0) ((g2 domains (g mins 0)).1 - 1) > 0
  · rw [if_pos hc1]
    refine ⟨.inc, domains, rfl, fun h => absurd rfl h, fun τ hsol => ?_⟩
    exfalso
    have := low_check hpl hstepL hvL hsol _ hminall hd0.1 (by omega)
    omega
  rw [if_neg hc1]
  rw [rd_ok _ ((domains.size : Int) - 1) (by omega) (by omega), ok_bind,
    rd2_max_ok domains _ hx0.1 hx0.2, ok_bind, get_max_value_ok hpl, ok_bind,
    get_sum_ok hpl _ _ (by omega) (by omega) (by omega) (by omega), ok_bind]
  by_cases hc2 : gsum l ((g2 domains (g maxs ((domains.size : Int) - 1))).2 + 1)
      (g parameters 0 + m - 1) > 0
  · rw [if_pos hc2]
    refine ⟨.inc, domains, rfl, fun h => absurd rfl h, fun τ hsol => ?_⟩
    exfalso
    have := high_check hpl hstepL hvL hsol _ hmaxall (by omega) hdx.2.2
    omega
  rw [if_neg hc2]
  -- facts shared by the four passes
  have hNeq : nb = nb + 1 - 1 := by omega
  have hrsN : ranks.size = domains.size := by omega
  have hrk3 : ∀ v : Int, 0 ≤ v → v < (domains.size : Int) →
      1 ≤ (g2 ranks v).1 ∧ (g2 ranks v).1 < (g2 ranks v).2 ∧ (g2 ranks v).2 < nb + 1 := by
    intro v h0 h1
    have := hranks v h0 h1
    omega
  have hsortedI : ∀ i i' : Int, 0 ≤ i → i ≤ i' → i' < (domains.size : Int) →
      (g2 ranks (g maxs i)).2 ≤ (g2 ranks (g maxs i')).2 := by
    intro i i' h0 h1 h2
    have hv := hr2 i h0 (by omega)
    have hv' := hr2 i' (by omega) h2
    have hk := hranks _ hv.1 hv.2
    have hk' := hranks _ hv'.1 hv'.2
    have hle := ho2 i i' h0 h1 h2
    rw [AllDiff.g_map_snd domains _ hv.1 hv.2, AllDiff.g_map_snd domains _ hv'.1 hv'.2] at hle
    by_cases hc : (g2 ranks (g maxs i)).2 ≤ (g2 ranks (g maxs i')).2
    · exact hc
    · have := hb.lt' _ _ (by omega) (Int.lt_of_not_ge hc) (by omega)
      omega
  have hsortedL : maxs.toList.Pairwise (fun a b => (g2 ranks a).2 ≤ (g2 ranks b).2) := by
    refine hsortL0.imp_of_mem ?_
    intro a b ha hb' hab
    have hma := hmemL a ha
    have hmb := hmemL b hb'
    rw [AllDiff.g_map_snd domains a hma.1 hma.2, AllDiff.g_map_snd domains b hmb.1 hmb.2] at hab
    have ra := hranks a hma.1 hma.2
    have rb := hranks b hmb.1 hmb.2
    by_cases hle : (g2 ranks a).2 ≤ (g2 ranks b).2
    · exact hle
    · have := hb.lt' (g2 ranks b).2 (g2 ranks a).2 (by omega) (by omega) (by omega)
      omega
  have hctxL : AllDiff.RankCtx (nb + 1) (K u (g parameters 0) bounds) (fun v => (g2 ranks v).1)
      (fun v => (g2 ranks v).2) maxs.toList := by
    refine ⟨by omega, fun i j h0 hij hj => K_strict hpu hus hb i j h0 hij hj, ?_⟩
    intro v hv
    have hm' := hmemL v hv
    exact hrk3 v hm'.1 hm'.2
  -- pass 1
  obtain ⟨⟨ok1, t1, d1, h1, dom1⟩, hf1, hfail1, hp1⟩ := filter_lower_max_sem
    (sz := (2 * (domains.size : Int) + 2).toNat) hb hpu hus (domains.size : Int)
    (Array.replicate (2 * (domains.size : Int) + 2).toNat 0)
    (Array.replicate (2 * (domains.size : Int) + 2).toNat 0)
    (Array.replicate (2 * (domains.size : Int) + 2).toNat 0)
    domains ranks maxs (by simp) (by simp) (by simp) (by omega) hrsN hmemL hctxL hnodupL hsortedL
    (by
      intro v hv
      have hm' := hmemL v hv
      exact (hranks v hm'.1 hm'.2).2.2.2.1.symm)
  rw [← hNeq] at hf1
  rw [hf1, ok_bind]
  simp only at hfail1 hp1 ⊢
  cases ok1 with
  | false =>
    refine ⟨.inc, dom1, rfl, fun h => absurd rfl h, fun τ hsol => ?_⟩
    exfalso
    exact upass_fail (uctx_lower hb hpu hstepU hvU hpermL hrkOK hdom' hsol) (hfail1 rfl)
  | true =>
    obtain ⟨hs11, hs12, hs13, hpost1⟩ := hp1 rfl
    simp only [Bool.not_true, Bool.false_eq_true, if_false]
    -- pass 2
    obtain ⟨⟨ok2, t2, d2, h2, dom2, stbl2, pot2, nm2⟩, hf2, hp2, U, sf, bf, wf, hout2⟩ :=
      filter_lower_min_sem
      (sz := (2 * (domains.size : Int) + 2).toNat) hb hpl (domains.size : Int) t1 d1 h1 dom1 ranks
      maxs
      (Array.replicate (2 * (domains.size : Int) + 2).toNat 0)
      (Array.replicate (2 * (domains.size : Int) + 2).toNat 0)
      (Array.replicate (domains.size : Int).toNat 0)
      hs11 hs12 hs13 (by simp) (by simp) (by omega) (by rw [hpost1.size]; omega) (by omega)
      (by simp)
      (by
        intro k h0 h1'
        rw [g_replicate0]
        omega)
      (fun i h0 h1' => by have := hr2 i h0 h1'; rw [hpost1.size]; omega)
      (by
        intro v h0 h1'
        exact hrk3 v h0 (by omega))
      hnodupL hsortedI
    rw [← hNeq] at hf2
    rw [hf2, ok_bind]
    simp only at hp2 hout2 ⊢
    cases ok2 with
    | false =>
      refine ⟨.inc, dom2, rfl, fun h => absurd rfl h, fun τ hsol => ?_⟩
      exfalso
      have := lmin_fail_sound hb hpl hout2 hnodupL
        (lctx_of hb hpl hstepL hvL hpermL hrkOK hsol)
      exact absurd this (by simp)
    | true =>
      obtain ⟨hs21, hs22, hs23, hs24, hs25, hs26, hnm2⟩ := hp2 rfl
      simp only [Bool.not_true, Bool.false_eq_true, if_false]
      -- the variables by decreasing minimum
      have hallU : (rangeDown ((domains.size : Int) - 1) (-1)).map (g mins) =
          mins.toList.reverse := by
        rw [rangeDown_eq]; exact AllDiff.rangeDown_map_g _ _ (by omega)
      generalize hUdef : mins.toList.reverse = allU at hallU
      have hpermU : allU.Perm (rangeUp 0 (domains.size : Int)) := by
        rw [← hUdef]; exact (List.reverse_perm _).trans hpermM
      have hmemU : ∀ v ∈ allU, 0 ≤ v ∧ v < (domains.size : Int) := by
        intro v hv
        have := (hpermU.mem_iff).1 hv
        rwa [mem_rangeUp] at this
      have hmemU0 : ∀ v ∈ mins.toList, 0 ≤ v ∧ v < (domains.size : Int) := by
        intro v hv
        have := (hpermM.mem_iff).1 hv
        rwa [mem_rangeUp] at this
      have hnodupU : allU.Nodup := by
        rw [rangeUp_eq] at hpermU
        exact (hpermU.nodup_iff).2 (AllDiff.nodup_rangeUp _ _)
      have hsortedU : allU.Pairwise (fun a b => (g2 ranks b).1 ≤ (g2 ranks a).1) := by
        rw [← hUdef, List.pairwise_reverse]
        refine hsortU0.imp_of_mem ?_
        intro a b ha hb' hab
        have hma := hmemU0 a ha
        have hmb := hmemU0 b hb'
        rw [AllDiff.g_map_fst domains a hma.1 hma.2, AllDiff.g_map_fst domains b hmb.1 hmb.2] at hab
        have ra := hranks a hma.1 hma.2
        have rb := hranks b hmb.1 hmb.2
        by_cases hle : (g2 ranks a).1 ≤ (g2 ranks b).1
        · exact hle
        · have := hb.lt' (g2 ranks b).1 (g2 ranks a).1 (by omega) (by omega) (by omega)
          omega
      -- the maxima are still the original ones
      have hmax2 : ∀ v, 0 ≤ v → v < (domains.size : Int) → (g2 dom2 v).2 = (g2 domains v).2 := by
        intro v h0 h1'
        obtain ⟨k, k0, k1, kv⟩ := hj2 v h0 h1'
        have := (hout2.dom rfl k k0 k1).1
        rw [kv] at this
        rw [this, hpost1.maxs v h0]
      have hd2s : dom2.size = domains.size := by rw [hs24, hpost1.size]
      -- pass 3
      obtain ⟨⟨ok3, t3, d3, h3, dom3⟩, hf3, hfail3, hp3⟩ := filter_upper_max_sem
        (sz := (2 * (domains.size : Int) + 2).toNat) hb hpu hus (domains.size : Int) t2 d2 h2 dom2 ranks
        mins hs21 hs22 hs23 (by omega) (by omega) (by omega)
        (fun i h0 h1' => by have := hr1 i h0 h1'; omega)
        allU hallU.symm
        (by
          intro v hv
          have hm' := hmemU v hv
          have := hranks v hm'.1 hm'.2
          omega)
        hnodupU hsortedU
        (by
          intro v hv
          have hm' := hmemU v hv
          rw [hmax2 v hm'.1 hm'.2]
          exact (hranks v hm'.1 hm'.2).2.2.2.2.symm)
      rw [hf3, ok_bind]
      simp only at hfail3 hp3 ⊢
      cases ok3 with
      | false =>
        refine ⟨.inc, dom3, rfl, fun h => absurd rfl h, fun τ hsol => ?_⟩
        exfalso
        exact upass_fail (uctx_upper hb hpu hstepU hvU hpermU hrkOK hdom' hsol) (hfail3 rfl)
      | true =>
        obtain ⟨hs31, hs32, hs33, hpost3⟩ := hp3 rfl
        simp only [Bool.not_true, Bool.false_eq_true, if_false]
        have hd3s : dom3.size = domains.size := by rw [hpost3.size, hd2s]
        -- pass 4
        obtain ⟨⟨ok4, t4, d4, h4, dom4, nm4⟩, hf4, hok4, hs4, U', sf', wf', hout4⟩ :=
          filter_upper_min_sem
          (sz := (2 * (domains.size : Int) + 2).toNat) hb hpl (domains.size : Int) t3 d3 h3 dom3 ranks
          mins stbl2 nm2 hs31 hs32 hs33 hs25 (by omega) (by omega) (by omega)
          hs26 (nmok_of_nmok' hnm2)
          (fun i h0 h1' => by have := hr1 i h0 h1'; omega)
          (by
            intro v h0 h1'
            have := hranks v h0 (by omega)
            omega)
          allU hallU.symm hnodupU hsortedU
        rw [hf4, ok_bind]
        simp only at hok4 hs4 hout4 ⊢
        subst hok4
        simp only [Bool.not_true, Bool.false_eq_true, if_false]
        -- the final domains: minima from pass 2, maxima from pass 4
        have hmin4 : ∀ v, 0 ≤ v → v < (domains.size : Int) → (g2 dom4 v).1 = (g2 dom2 v).1 := by
          intro v h0 h1'
          obtain ⟨k, k0, k1, kv⟩ := hj1 v h0 h1'
          have := (hout4.dom k k0 k1).1
          rw [kv] at this
          rw [this, hpost3.mins v h0]
        have hsize4 : dom4.size = domains.size := by
          rw [hs4, hd3s]
        refine ⟨.cons, dom4, rfl, fun _ => hsize4, fun τ hsol => ⟨by simp, ?_⟩⟩
        intro v h0 h1'
        have hxL := lctx_of hb hpl hstepL hvL hpermL hrkOK hsol
        have hxU1 := uctx_lower hb hpu hstepU hvU hpermL hrkOK hdom' hsol
        have hxU3 := uctx_upper hb hpu hstepU hvU hpermU hrkOK hdom' hsol
        have hvL' : v ∈ maxs.toList := hpermL.mem_iff.2 (by rw [mem_rangeUp]; exact ⟨h0, h1'⟩)
        have hvU' : v ∈ allU := hpermU.mem_iff.2 (by rw [mem_rangeUp]; exact ⟨h0, h1'⟩)
        -- minimum: passes 1 and 2
        obtain ⟨a1, a2⟩ := upass_prune hxU1 v _ hvL' (hpost1.fact v hvL')
        obtain ⟨k, k0, k1, kv⟩ := hj2 v h0 h1'
        have b := lmin_prune_sound hb hpl hdsL hout2 rfl (by omega) hnodupL hxL k k0 k1
          (by rw [kv]; exact a1)
        rw [kv] at b
        -- maximum: passes 3 and 4
        obtain ⟨c1, c2⟩ := upass_prune hxU3 v _ hvU' (hpost3.fact v hvU')
        obtain ⟨k', k0', k1', kv'⟩ := hj1 v h0 h1'
        have d := umin_prune_sound hb hpl hdsL hout2 hout4 hallU.symm hnodupL hnodupU
          (hpermU.trans hpermL.symm) hxL k' k0' k1' (by rw [kv']; omega)
        rw [kv'] at d
        rw [hmin4 v h0 h1']
        exact ⟨b.2 a2, b.1, d.1, d.2 (by omega)⟩

end Gcc
end Nucs
