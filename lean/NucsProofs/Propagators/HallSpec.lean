import NucsProofs.Propagators.ExactOfSupport
/-!
  Hall-interval characterisation of bound consistency for `alldifferent` over interval domains
  (Puget 1998; López-Ortiz, Quimper, Tromp, van Beek 2003) — DEFINITIONS ONLY (the interface between
  the combinatorial theorem `supported_of_hall` and the invariants of the ported algorithm).
-/
namespace Nucs

/-- is the domain `d` contained in `[a, b]`? -/
def Dom.within (d : Dom) (a b : Int) : Bool := decide (a ≤ d.1) && decide (d.2 ≤ b)

/-- number of domains of `B` contained in `[a, b]` -/
def insideCount (B : Box) (a b : Int) : Nat := (B.filter (fun d => d.within a b)).length

/-- Hall's condition for interval domains: no interval holds more domains than values -/
def HallOK (B : Box) : Prop := ∀ a b : Int, a ≤ b → (insideCount B a b : Int) ≤ b - a + 1

/-- `[a, b]` is a Hall interval of `B`: as many domains inside as values -/
def IsHall (B : Box) (a b : Int) : Prop := a ≤ b ∧ (insideCount B a b : Int) = b - a + 1

/-- the bounds of every domain that is not inside a Hall interval lie outside it -/
def HallPruned (B : Box) : Prop :=
  ∀ a b, IsHall B a b → ∀ d ∈ B, d.within a b = false → (d.1 < a ∨ b < d.1) ∧ (d.2 < a ∨ b < d.2)

end Nucs
