import NucsProofs.Propagators.GccSoundPassVal
/-!
  Semantic soundness of the ported gcc — assembly, part 1: a solution `τ` of the constraint on the
  original domains (`GSol`) provides the contexts `UCtx` (upper-capacity passes, plain and mirrored)
  and `LCtx` (lower-capacity passes) consumed by the pass-level theorems.
-/
namespace Nucs
namespace Gcc
open AllDiff (g g2 cinR Oth LChain mbd)

/-- `τ` is a solution of gcc on the box `domains`: values `fv .. fv+m-1`, lower capacities `lows`,
    upper capacities `ups` -/
structure GSol (n fv m : Int) (domains : Arr2) (lows ups τ : Int → Int) : Prop where
  dom : ∀ v, 0 ≤ v → v < n → (g2 domains v).1 ≤ τ v ∧ τ v ≤ (g2 domains v).2
  low : ∀ j, 0 ≤ j → j < m → lows j ≤ occ τ (rangeUp 0 n) (fv + j)
  up : ∀ j, 0 ≤ j → j < m → occ τ (rangeUp 0 n) (fv + j) ≤ ups j

theorem occ_perm (τ : Int → Int) {L L' : List Int} (h : L.Perm L') (v : Int) :
    occ τ L v = occ τ L' v := by
  unfold occ; rw [h.countP_eq]

theorem occ_eq_zero (τ : Int → Int) (L : List Int) (v : Int) (h : ∀ p ∈ L, τ p ≠ v) :
    occ τ L v = 0 := by
  unfold occ
  have : L.countP (fun p => decide (τ p = v)) = 0 := by
    rw [List.countP_eq_zero]
    intro p hp
    simpa using h p hp
  rw [this]; rfl

theorem occ_neg (τ : Int → Int) (L : List Int) (v : Int) :
    occ (fun p => - τ p - 1) L v = occ τ L (- v - 1) := by
  unfold occ
  congr 1
  apply List.countP_congr
  intro p _
  simp only [decide_eq_true_eq]
  constructor <;> intro h <;> omega

section ctx
variable {N n fv m : Int} {bounds : Array Int} {ranks domains : Arr2} {lows ups τ : Int → Int}
  {all : List Int}

/-- the facts about ranks established by `update_bounds` -/
def RanksOK (N n : Int) (bounds : Array Int) (ranks domains : Arr2) : Prop :=
  ∀ v, 0 ≤ v → v < n →
    1 ≤ (g2 ranks v).1 ∧ (g2 ranks v).1 < (g2 ranks v).2 ∧ (g2 ranks v).2 ≤ N - 1 ∧
    g bounds (g2 ranks v).1 = (g2 domains v).1 ∧ g bounds (g2 ranks v).2 = (g2 domains v).2 + 1

theorem uctx_lower {u : PSum} {valuesU : Array Int} (hb : BC bounds N fv m) (hu : PS u fv m)
    (hstep : ∀ k, 2 ≤ k → k < m + 2 → g u.1 (k + 1) = g u.1 k + g valuesU (k - 2))
    (hvals : ∀ j, 0 ≤ j → j < m → g valuesU j = ups j)
    (hperm : all.Perm (rangeUp 0 n)) (hrk : RanksOK N n bounds ranks domains)
    (hdom : ∀ v, 0 ≤ v → v < n → fv ≤ (g2 domains v).1 ∧ (g2 domains v).2 ≤ fv + m - 1)
    (hsol : GSol n fv m domains lows ups τ) :
    UCtx N (K u fv bounds) (g bounds) (fun v => (g2 ranks v).1) (fun v => (g2 ranks v).2) all
      (fun v => (g2 domains v).1) (fun v => (g2 domains v).2) τ (cumOf u fv) := by
  have hmem : ∀ p ∈ all, 0 ≤ p ∧ p < n := by
    intro p hp
    have := hperm.mem_iff.1 hp
    rwa [mem_rangeUp] at this
  refine ⟨fun i j h0 hij hj => hb.le' i j h0 hij hj, ?_, ?_, ?_, ?_, fun k _ _ => rfl, ?_⟩
  · intro p hp
    have := hrk p (hmem p hp).1 (hmem p hp).2; omega
  · intro p hp
    have := hrk p (hmem p hp).1 (hmem p hp).2; omega
  · intro p hp
    have := hrk p (hmem p hp).1 (hmem p hp).2; omega
  · intro p hp
    exact hsol.dom p (hmem p hp).1 (hmem p hp).2
  · intro v hv1 hv2
    rw [hb.b0] at hv1
    rw [hb.bN] at hv2
    rw [cumOf_succ, occ_perm τ hperm]
    by_cases hin : fv ≤ v ∧ v < fv + m
    · have e : v = fv + (v - fv) := by omega
      rw [e, cap_values hstep (v - fv) (by omega) (by omega), hvals (v - fv) (by omega) (by omega)]
      exact hsol.up (v - fv) (by omega) (by omega)
    · rw [occ_eq_zero]
      · exact cap_nonneg hu v (by omega) (by omega)
      · intro p hp
        rw [mem_rangeUp] at hp
        have := hsol.dom p hp.1 hp.2
        have := hdom p hp.1 hp.2
        omega

theorem uctx_upper {u : PSum} {valuesU : Array Int} (hb : BC bounds N fv m) (hu : PS u fv m)
    (hstep : ∀ k, 2 ≤ k → k < m + 2 → g u.1 (k + 1) = g u.1 k + g valuesU (k - 2))
    (hvals : ∀ j, 0 ≤ j → j < m → g valuesU j = ups j)
    (hperm : all.Perm (rangeUp 0 n)) (hrk : RanksOK N n bounds ranks domains)
    (hdom : ∀ v, 0 ≤ v → v < n → fv ≤ (g2 domains v).1 ∧ (g2 domains v).2 ≤ fv + m - 1)
    (hsol : GSol n fv m domains lows ups τ) :
    UCtx N (mbd N (K u fv bounds)) (mbd N (g bounds)) (fun v => N - (g2 ranks v).2)
      (fun v => N - (g2 ranks v).1) all
      (fun v => - (g2 domains v).2 - 1) (fun v => - (g2 domains v).1 - 1) (fun v => - τ v - 1)
      (fun v => - cumOf u fv (- v)) := by
  have hN := hb.hN
  have hmem : ∀ p ∈ all, 0 ≤ p ∧ p < n := by
    intro p hp
    have := hperm.mem_iff.1 hp
    rwa [mem_rangeUp] at this
  refine ⟨?_, ?_, ?_, ?_, ?_, ?_, ?_⟩
  · intro i j h0 hij hj
    simp only [mbd]
    have := hb.le' (N - j) (N - i) (by omega) (by omega) (by omega)
    omega
  · intro p hp
    have := hrk p (hmem p hp).1 (hmem p hp).2; omega
  · intro p hp
    have := hrk p (hmem p hp).1 (hmem p hp).2
    simp only [mbd, Int.sub_sub_self]; omega
  · intro p hp
    have := hrk p (hmem p hp).1 (hmem p hp).2
    simp only [mbd, Int.sub_sub_self]; omega
  · intro p hp
    have := hsol.dom p (hmem p hp).1 (hmem p hp).2
    omega
  · intro k _ _
    simp only [mbd, Int.neg_neg]; rfl
  · intro v hv1 hv2
    simp only [mbd, Int.sub_zero, Int.sub_self] at hv1 hv2
    rw [hb.bN] at hv1
    rw [hb.b0] at hv2
    rw [occ_neg, occ_perm τ hperm]
    have e1 : - (v + 1) = (- v - 1) := by omega
    have e2 : - v = (- v - 1) + 1 := by omega
    have hc := cumOf_succ u fv (- v - 1)
    rw [← e2] at hc
    rw [e1]
    by_cases hin : fv ≤ - v - 1 ∧ - v - 1 < fv + m
    · have e : - v - 1 = fv + (- v - 1 - fv) := by omega
      have h1 := cap_values (fv := fv) hstep (- v - 1 - fv) (by omega) (by omega)
      rw [← e, hvals (- v - 1 - fv) (by omega) (by omega)] at h1
      have h2 := hsol.up (- v - 1 - fv) (by omega) (by omega)
      rw [← e] at h2
      omega
    · rw [occ_eq_zero]
      · have := cap_nonneg hu (- v - 1) (by omega) (by omega); omega
      · intro p hp
        rw [mem_rangeUp] at hp
        have := hsol.dom p hp.1 hp.2
        have := hdom p hp.1 hp.2
        omega

theorem lctx_of {l : PSum} {valuesL : Array Int} (hb : BC bounds N fv m) (_hl : PS l fv m)
    (hstep : ∀ k, 2 ≤ k → k < m + 2 → g l.1 (k + 1) = g l.1 k + g valuesL (k - 2))
    (hvals : ∀ j, 0 ≤ j → j < m → g valuesL j = lows j)
    (hperm : all.Perm (rangeUp 0 n)) (hrk : RanksOK N n bounds ranks domains)
    (hsol : GSol n fv m domains lows ups τ) :
    LCtx N (K l fv bounds) (g bounds) (fun v => (g2 ranks v).1) (fun v => (g2 ranks v).2) all
      (fun v => (g2 domains v).1) (fun v => (g2 domains v).2) τ (cumOf l fv) := by
  have hN := hb.hN
  have hmem : ∀ p ∈ all, 0 ≤ p ∧ p < n := by
    intro p hp
    have := hperm.mem_iff.1 hp
    rwa [mem_rangeUp] at this
  refine ⟨fun i j h0 hij hj => hb.lt' i j h0 hij hj, ?_, ?_, ?_, ?_, fun k _ _ => rfl, ?_⟩
  · intro p hp
    have := hrk p (hmem p hp).1 (hmem p hp).2; omega
  · intro p hp
    have := hrk p (hmem p hp).1 (hmem p hp).2; omega
  · intro p hp
    have := hrk p (hmem p hp).1 (hmem p hp).2; omega
  · intro p hp
    exact hsol.dom p (hmem p hp).1 (hmem p hp).2
  · intro v hv1 hv2
    have h1 := hb.b1
    have h2 := hb.bnb
    rw [cumOf_succ, occ_perm τ hperm]
    have e : v = fv + (v - fv) := by omega
    rw [e, cap_values hstep (v - fv) (by omega) (by omega), hvals (v - fv) (by omega) (by omega)]
    exact hsol.low (v - fv) (by omega) (by omega)

end ctx

end Gcc
end Nucs
