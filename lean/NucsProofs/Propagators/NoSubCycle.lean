import NucsProofs.Basic
import NucsProofs.Propagators.Scc
/-!
  no_sub_cycle: no cycle visiting fewer than `n` vertices.
-/
namespace Nucs
namespace Nsc

/-! ### checked reads and writes inside the bounds -/

theorem getI_set (l : List Int) (a b : Nat) (v : Int) :
    getI (l.set a v) b = if a = b ∧ a < l.length then v else getI l b := by
  unfold getI
  by_cases h : a = b
  · subst h
    by_cases h2 : a < l.length
    · simp [List.getD, h2]
    · simp [List.getD, h2]
  · simp [List.getD, h, List.getElem?_set_ne h]

theorem getDom_set (x : Box) (i j : Nat) (d : Dom) :
    getDom (x.set i d) j = if i = j ∧ i < x.length then d else getDom x j := by
  unfold getDom
  by_cases h : i = j
  · subst h
    by_cases h2 : i < x.length
    · simp [List.getD, h2]
    · simp [List.getD, h2]
  · simp [List.getD, h, List.getElem?_set_ne h]

theorem rdI_eq {l : List Int} {a : Int} (h0 : 0 ≤ a) (h1 : a < l.length) : rdI l a = some (getI l a.toNat) := by
  have : a.toNat < l.length := by omega
  simp [rdI, getI, List.getD, this]; omega

theorem wrI_eq {l : List Int} {a : Int} (v : Int) (h0 : 0 ≤ a) (h1 : a < l.length) :
    wrI l a v = some (l.set a.toNat v) := by
  have : a.toNat < l.length := by omega
  simp [wrI]; omega

theorem rdDom_eq {B : Box} {a : Int} (h0 : 0 ≤ a) (h1 : a < B.length) : rdDom B a = some (getDom B a.toNat) := by
  have : a.toNat < B.length := by omega
  simp [rdDom, getDom, List.getD, this]; omega

/-! ### one visit, in closed form -/

/-- the bookkeeping after linking `i → j` -/
def mergeP (p : Paths) (i : Nat) (j : Int) : Paths :=
  let endv := getI p.stop j.toNat
  let s := getI p.start i
  let length := getI p.len i + 1 + getI p.len j.toNat
  ⟨(p.start.set j.toNat s).set endv.toNat s,
   (p.stop.set i endv).set s.toNat endv,
   (((p.len.set i length).set j.toNat length).set s.toNat length).set endv.toNat length⟩

/-- remove the value `s` from a domain when it is one of its bounds -/
def pruneD (de : Dom) (s : Int) : Dom :=
  let de1 : Dom := if de.1 = s then (s + 1, de.2) else de
  if de1.2 = s then (de1.1, s - 1) else de1

/-- all indices stored in the bookkeeping are vertices -/
structure RangeP (n : Nat) (p : Paths) : Prop where
  lstart : p.start.length = n
  lstop : p.stop.length = n
  llen : p.len.length = n
  rstart : ∀ v, v < n → 0 ≤ getI p.start v ∧ getI p.start v < n
  rstop : ∀ v, v < n → 0 ≤ getI p.stop v ∧ getI p.stop v < n

theorem visit_skip {n i : Nat} {B : Box} {p : Paths}
    (h : ¬ ((getDom B i).1 = (getDom B i).2 ∧ getI p.stop i = (i : Int))) :
    nscVisit n i B p = .ok B p false := by
  simp only [nscVisit, h, ↓reduceIte]

theorem visit_self {n i : Nat} {B : Box} {p : Paths} {j : Int}
    (hd1 : (getDom B i).1 = j) (hd2 : (getDom B i).2 = j) (hE : getI p.stop i = (i : Int))
    (hj : j = (i : Int) ∧ n > 1) : nscVisit n i B p = .fail := by
  simp only [nscVisit, hd1, hd2, hE, hj, and_self, ↓reduceIte]

theorem visit_merge {n i : Nat} {B : Box} {p : Paths} {j : Int} (hB : B.length = n) (hp : RangeP n p) (hi : i < n)
    (hd1 : (getDom B i).1 = j) (hd2 : (getDom B i).2 = j) (hE : getI p.stop i = (i : Int))
    (hj : ¬ (j = (i : Int) ∧ n > 1)) (hj0 : 0 ≤ j) (hj1 : j < n) :
    nscVisit n i B p =
      let endv := getI p.stop j.toNat
      let s := getI p.start i
      if getI p.len i + 1 + getI p.len j.toNat < (n : Int) - 1 then
        if (pruneD (getDom B endv.toNat) s).1 > (pruneD (getDom B endv.toNat) s).2 then .fail
        else .ok (B.set endv.toNat (pruneD (getDom B endv.toNat) s)) (mergeP p i j) (decide (endv < (i : Int)))
      else .ok B (mergeP p i j) false := by
  obtain ⟨ls, lt, ll, rs, rt⟩ := hp
  have hjn : j.toNat < n := by omega
  have he := rt _ hjn
  have hs := rs i hi
  simp only [nscVisit, hd1, hd2, hE, hj, and_self, ↓reduceIte]
  rw [rdI_eq hj0 (by omega), rdI_eq hj0 (by omega)]
  simp only []
  rw [wrI_eq _ hs.1 (by simp; omega), wrI_eq _ hj0 (by omega)]
  simp only []
  rw [wrI_eq _ he.1 (by simp; omega)]
  simp only []
  rw [wrI_eq _ hj0 (by simp; omega)]
  simp only []
  rw [wrI_eq _ hs.1 (by simp; omega)]
  simp only []
  rw [wrI_eq _ he.1 (by simp; omega)]
  simp only []
  rw [rdDom_eq he.1 (by omega)]
  rfl

/-! ### the bookkeeping invariant behind termination

  `sp v` / `st v` are the recorded end / start of `v`.  `E = {e | sp e = e}` is the set of
  vertices that can still be linked.  `j1`: the recorded start of an end points back to it;
  `kk`: nobody else points to the recorded start of an end.  Together they show that a vertex
  never comes back into `E`, whatever the (possibly non-injective) instantiated successors are. -/

theorem abs_step (n i jn : Nat) (sp st sp' st' : Nat → Nat) (hi : i < n) (hjn : jn < n) (hE : sp i = i)
    (hsp' : ∀ v, sp' v = if v = st i ∨ v = i then sp jn else sp v)
    (hst' : ∀ v, st' v = if v = sp jn then st i else if v = jn then st i else st v)
    (j1 : ∀ e, e < n → sp e = e → sp (st e) = e)
    (kk : ∀ e v, e < n → v < n → sp e = e → sp v = st e → v = e) :
    (∀ e, e < n → sp' e = e → sp' (st' e) = e) ∧
    (∀ e v, e < n → v < n → sp' e = e → sp' v = st' e → v = e) ∧
    (sp jn ≠ i → sp' i ≠ i) ∧ (∀ v, v < n → sp' v = v → sp v = v) ∧
    (sp jn = i → ∀ v, sp' v = sp v) := by
  have hS : sp (st i) = i := j1 i hi hE
  by_cases hEi : sp jn = i
  · have hsp : ∀ v, sp' v = sp v := by
      intro v; rw [hsp']; split
      · rename_i h; rcases h with h | h
        · rw [hEi, h, hS]
        · rw [hEi, h, hE]
      · rfl
    have hst : ∀ e, sp e = e → st' e = st e := by
      intro e he; rw [hst']; split
      · rename_i h; rw [h, hEi]
      · split
        · rename_i h1 h2; exfalso; apply h1; rw [h2] at he ⊢; exact he.symm
        · rfl
    refine ⟨?_, ?_, fun h => absurd hEi h, fun v _ h => by rw [← hsp v]; exact h, fun _ => hsp⟩
    · intro e he h; rw [hsp] at h; rw [hsp, hst e h]; exact j1 e he h
    · intro e v he hv h h2; rw [hsp] at h h2; rw [hst e h] at h2; exact kk e v he hv h h2
  · have hSE : st i ≠ sp jn := by
      intro h; have := kk i jn hi hjn hE h.symm; apply hEi; rw [this]; exact hE
    have hfix : ∀ v, sp' v = v → v ≠ st i ∧ v ≠ i ∧ sp v = v := by
      intro v h; rw [hsp'] at h; split at h
      · rename_i hc; rcases hc with hc | hc
        · exfalso; apply hSE; rw [← hc]; exact h.symm
        · exfalso; apply hEi; rw [h, hc]
      · rename_i hc; exact ⟨fun h' => hc (Or.inl h'), fun h' => hc (Or.inr h'), h⟩
    refine ⟨?_, ?_, fun _ h => (hfix i h).2.1 rfl, fun v _ h => (hfix v h).2.2, fun h => absurd h hEi⟩
    · intro e he h
      obtain ⟨n1, n2, h0⟩ := hfix e h
      by_cases c1 : e = sp jn
      · have : st' e = st i := by rw [hst', if_pos c1]
        rw [this, hsp', if_pos (Or.inl rfl)]; exact c1.symm
      · by_cases c2 : e = jn
        · exfalso; apply c1; rw [← c2]; exact h0.symm
        · have : st' e = st e := by rw [hst', if_neg c1, if_neg c2]
          rw [this, hsp']
          have hh := j1 e he h0
          split
          · rename_i hc; exfalso; rcases hc with hc | hc
            · rw [hc, hS] at hh; exact n2 hh.symm
            · rw [hc, hE] at hh; exact n2 hh.symm
          · exact hh
    · intro e v he hv h h2
      obtain ⟨n1, n2, h0⟩ := hfix e h
      by_cases c1 : e = sp jn
      · exfalso
        have hst_e : st' e = st i := by rw [hst', if_pos c1]
        rw [hst_e, hsp'] at h2
        split at h2
        · exact hSE h2.symm
        · rename_i hc
          exact hc (Or.inr (kk i v hi hv hE h2))
      · by_cases c2 : e = jn
        · exfalso; apply c1; rw [← c2]; exact h0.symm
        · have hst_e : st' e = st e := by rw [hst', if_neg c1, if_neg c2]
          rw [hst_e, hsp'] at h2
          split at h2
          · exfalso; exact c2 (kk e jn he hjn h0 h2).symm
          · exact kk e v he hv h0 h2

/-- number of fixed points of `sp` below `n` -/
def cnt (sp : Nat → Nat) : Nat → Nat
  | 0 => 0
  | n + 1 => cnt sp n + (if sp n = n then 1 else 0)

theorem cnt_le_self (sp : Nat → Nat) : ∀ n, cnt sp n ≤ n
  | 0 => Nat.le_refl _
  | n + 1 => by have := cnt_le_self sp n; simp only [cnt]; split <;> omega

theorem cnt_le {sp sp' : Nat → Nat} : ∀ n, (∀ v, v < n → sp' v = v → sp v = v) → cnt sp' n ≤ cnt sp n
  | 0, _ => Nat.le_refl _
  | n + 1, h => by
    have := cnt_le n (fun v hv => h v (by omega))
    have := h n (by omega)
    simp only [cnt]
    split <;> split <;> first | omega | (exfalso; simp_all)

theorem cnt_lt {sp sp' : Nat → Nat} {i : Nat} (hi1 : sp i = i) (hi2 : sp' i ≠ i) :
    ∀ n, i < n → (∀ v, v < n → sp' v = v → sp v = v) → cnt sp' n < cnt sp n
  | 0, hi, _ => by omega
  | n + 1, hi, h => by
    have hn := h n (by omega)
    simp only [cnt]
    by_cases e : i = n
    · subst e
      have := cnt_le (sp := sp) (sp' := sp') i (fun v hv => h v (by omega))
      simp [hi1, hi2]; omega
    · have := cnt_lt hi1 hi2 n (by omega) (fun v hv => h v (by omega))
      split <;> split <;> first | omega | (exfalso; simp_all)

/-! ### the invariant on the model state -/

def spOf (p : Paths) (v : Nat) : Nat := (getI p.stop v).toNat
def stOf (p : Paths) (v : Nat) : Nat := (getI p.start v).toNat

theorem mergeP_range {n i : Nat} {p : Paths} {j : Int} (hp : RangeP n p) (hi : i < n)
    (hj0 : 0 ≤ j) (hj1 : j < n) : RangeP n (mergeP p i j) := by
  obtain ⟨ls, lt, ll, rs, rt⟩ := hp
  have he := rt j.toNat (by omega)
  have hs := rs i hi
  refine ⟨by simp [mergeP, ls], by simp [mergeP, lt], by simp [mergeP, ll], fun v hv => ?_, fun v hv => ?_⟩
  · simp only [mergeP, getI_set]
    split
    · exact hs
    · split
      · exact hs
      · exact rs v hv
  · simp only [mergeP, getI_set]
    split
    · exact he
    · split
      · exact he
      · exact rt v hv

theorem spOf_mergeP {n i : Nat} {p : Paths} {j : Int} (hp : RangeP n p) (hi : i < n) (v : Nat) :
    spOf (mergeP p i j) v = if v = stOf p i ∨ v = i then spOf p j.toNat else spOf p v := by
  obtain ⟨ls, lt, ll, rs, rt⟩ := hp
  have hs := rs i hi
  simp only [spOf, stOf, mergeP, getI_set, List.length_set, lt]
  by_cases h1 : (getI p.start i).toNat = v
  · have : (getI p.start i).toNat < n := by omega
    simp [h1.symm, this]
  · by_cases h2 : i = v
    · simp [h2.symm, hi]
    · have h1' : ¬ v = (getI p.start i).toNat := fun h => h1 h.symm
      have h2' : ¬ v = i := fun h => h2 h.symm
      simp [h1, h2, h1', h2']

theorem stOf_mergeP {n i : Nat} {p : Paths} {j : Int} (hp : RangeP n p) (hj0 : 0 ≤ j) (hj1 : j < n) (v : Nat) :
    stOf (mergeP p i j) v =
      if v = spOf p j.toNat then stOf p i else if v = j.toNat then stOf p i else stOf p v := by
  obtain ⟨ls, lt, ll, rs, rt⟩ := hp
  have he := rt j.toNat (by omega)
  simp only [spOf, stOf, mergeP, getI_set, List.length_set, ls]
  by_cases h1 : (getI p.stop j.toNat).toNat = v
  · have : (getI p.stop j.toNat).toNat < n := by omega
    simp [h1.symm, this]
  · by_cases h2 : j.toNat = v
    · have : j.toNat < n := by omega
      simp [h2.symm, this]
    · have h1' : ¬ v = (getI p.stop j.toNat).toNat := fun h => h1 h.symm
      have h2' : ¬ v = j.toNat := fun h => h2 h.symm
      simp [h1, h2, h1', h2']

structure Inv (n : Nat) (B : Box) (p : Paths) : Prop where
  lenB : B.length = n
  within : B.within 0 ((n : Int) - 1)
  rp : RangeP n p
  j1 : ∀ e, e < n → spOf p e = e → spOf p (stOf p e) = e
  kk : ∀ e v, e < n → v < n → spOf p e = e → spOf p v = stOf p e → v = e

theorem getDom_mem {B : Box} {k : Nat} (hk : k < B.length) : getDom B k ∈ B := by
  unfold getDom; simp [List.getD, List.getElem?_eq_getElem hk]

theorem pruneD_bounds (de : Dom) (s lo hi : Int) (h : lo ≤ de.1 ∧ de.2 ≤ hi) (hs : lo ≤ s ∧ s ≤ hi) :
    lo ≤ (pruneD de s).1 ∧ (pruneD de s).2 ≤ hi := by
  unfold pruneD
  simp only []
  split <;> split <;> simp_all <;> omega

theorem within_set {B : Box} {lo hi : Int} {k : Nat} {d : Dom} (hw : B.within lo hi)
    (hd : lo ≤ d.1 ∧ d.2 ≤ hi) : Box.within (B.set k d) lo hi := by
  intro x hx
  rcases List.mem_or_eq_of_mem_set hx with h | h
  · exact hw x h
  · rw [h]; exact hd

/-- what one visit guarantees -/
def StepOk (n : Nat) (p : Paths) : NscStep → Prop
  | .ok B' p' a => Inv n B' p' ∧ cnt (spOf p') n ≤ cnt (spOf p) n ∧ (a = true → cnt (spOf p') n < cnt (spOf p) n)
  | .fail => True
  | .oob => False

theorem visit_ok {n i : Nat} {B : Box} {p : Paths} (h : Inv n B p) (hi : i < n) : StepOk n p (nscVisit n i B p) := by
  by_cases hc : (getDom B i).1 = (getDom B i).2 ∧ getI p.stop i = (i : Int)
  · obtain ⟨hd, hE⟩ := hc
    have hw := h.within _ (getDom_mem (h.lenB ▸ hi))
    have hj0 : 0 ≤ (getDom B i).1 := hw.1
    have hj1 : (getDom B i).1 < n := by omega
    by_cases hj : (getDom B i).1 = (i : Int) ∧ n > 1
    · rw [visit_self rfl hd.symm hE hj]; trivial
    · rw [visit_merge h.lenB h.rp hi rfl hd.symm hE hj hj0 hj1]
      have hjn : (getDom B i).1.toNat < n := by omega
      have hEn : spOf p i = i := by simp [spOf, hE]
      obtain ⟨a1, a2, a3, a4, a5⟩ := abs_step n i (getDom B i).1.toNat (spOf p) (stOf p)
        (spOf (mergeP p i (getDom B i).1)) (stOf (mergeP p i (getDom B i).1)) hi hjn hEn
        (spOf_mergeP h.rp hi) (stOf_mergeP h.rp hj0 hj1) h.j1 h.kk
      have hrp := mergeP_range h.rp hi hj0 hj1
      have hcnt := cnt_le (sp := spOf p) (sp' := spOf (mergeP p i (getDom B i).1)) n a4
      have he := h.rp.rstop _ hjn
      have hs := h.rp.rstart i hi
      simp only []
      split
      · split
        · trivial
        · refine ⟨⟨by simp [h.lenB], ?_, hrp, a1, a2⟩, hcnt, fun ha => ?_⟩
          · apply within_set h.within
            apply pruneD_bounds
            · exact h.within _ (getDom_mem (by rw [h.lenB]; omega))
            · omega
          · have hne : spOf p (getDom B i).1.toNat ≠ i := by
              simp only [decide_eq_true_eq] at ha
              unfold spOf; omega
            exact cnt_lt hEn (a3 hne) n hi a4
      · exact ⟨⟨h.lenB, h.within, hrp, a1, a2⟩, hcnt, fun ha => by cases ha⟩
  · rw [visit_skip hc]
    exact ⟨h, Nat.le_refl _, fun ha => by cases ha⟩

/-- the possible outcomes of one visit, in closed form -/
inductive VisitRes (n i : Nat) (B : Box) (p : Paths) : NscStep → Prop
  | skip (h : ¬ ((getDom B i).1 = (getDom B i).2 ∧ getI p.stop i = (i : Int))) : VisitRes n i B p (.ok B p false)
  | self (hd1 : (getDom B i).1 = (i : Int)) (hd2 : (getDom B i).2 = (i : Int)) (hn : n > 1) : VisitRes n i B p .fail
  | link (j : Int) (hd1 : (getDom B i).1 = j) (hd2 : (getDom B i).2 = j) (hE : getI p.stop i = (i : Int))
      (hj : ¬ (j = (i : Int) ∧ n > 1)) (hj0 : 0 ≤ j) (hj1 : j < n)
      (hL : ¬ getI p.len i + 1 + getI p.len j.toNat < (n : Int) - 1) :
      VisitRes n i B p (.ok B (mergeP p i j) false)
  | pruneFail (j : Int) (hd1 : (getDom B i).1 = j) (hd2 : (getDom B i).2 = j) (hE : getI p.stop i = (i : Int))
      (hj : ¬ (j = (i : Int) ∧ n > 1)) (hj0 : 0 ≤ j) (hj1 : j < n)
      (hL : getI p.len i + 1 + getI p.len j.toNat < (n : Int) - 1)
      (hemp : (pruneD (getDom B (getI p.stop j.toNat).toNat) (getI p.start i)).1 >
              (pruneD (getDom B (getI p.stop j.toNat).toNat) (getI p.start i)).2) :
      VisitRes n i B p .fail
  | prune (j : Int) (hd1 : (getDom B i).1 = j) (hd2 : (getDom B i).2 = j) (hE : getI p.stop i = (i : Int))
      (hj : ¬ (j = (i : Int) ∧ n > 1)) (hj0 : 0 ≤ j) (hj1 : j < n)
      (hL : getI p.len i + 1 + getI p.len j.toNat < (n : Int) - 1)
      (hemp : ¬ (pruneD (getDom B (getI p.stop j.toNat).toNat) (getI p.start i)).1 >
              (pruneD (getDom B (getI p.stop j.toNat).toNat) (getI p.start i)).2) :
      VisitRes n i B p (.ok (B.set (getI p.stop j.toNat).toNat
          (pruneD (getDom B (getI p.stop j.toNat).toNat) (getI p.start i)))
        (mergeP p i j) (decide (getI p.stop j.toNat < (i : Int))))

theorem visit_res {n i : Nat} {B : Box} {p : Paths} (h : Inv n B p) (hi : i < n) :
    VisitRes n i B p (nscVisit n i B p) := by
  by_cases hc : (getDom B i).1 = (getDom B i).2 ∧ getI p.stop i = (i : Int)
  · obtain ⟨hd, hE⟩ := hc
    have hw := h.within _ (getDom_mem (h.lenB ▸ hi))
    have hj0 : 0 ≤ (getDom B i).1 := hw.1
    have hj1 : (getDom B i).1 < n := by omega
    by_cases hj : (getDom B i).1 = (i : Int) ∧ n > 1
    · rw [visit_self rfl hd.symm hE hj]; exact .self hj.1 (by rw [← hd]; exact hj.1) hj.2
    · rw [visit_merge h.lenB h.rp hi rfl hd.symm hE hj hj0 hj1]
      simp only []
      split
      · split
        · rename_i hL hemp; exact .pruneFail _ rfl hd.symm hE hj hj0 hj1 hL hemp
        · rename_i hL hemp; exact .prune _ rfl hd.symm hE hj hj0 hj1 hL hemp
      · rename_i hL; exact .link _ rfl hd.symm hE hj hj0 hj1 hL
  · rw [visit_skip hc]; exact .skip hc

/-- what a sweep guarantees -/
def SweepOk (n : Nat) (p : Paths) (again : Bool) : NscStep → Prop
  | .ok B' p' a => Inv n B' p' ∧ cnt (spOf p') n ≤ cnt (spOf p) n ∧
      (a = true → again = true ∨ cnt (spOf p') n < cnt (spOf p) n)
  | .fail => True
  | .oob => False

theorem sweep_ok {n : Nat} : ∀ (k i : Nat) (B : Box) (p : Paths) (again : Bool), Inv n B p → i + k ≤ n →
    SweepOk n p again (nscSweep n k i B p again)
  | 0, _, _, _, _, h, _ => ⟨h, Nat.le_refl _, fun ha => Or.inl ha⟩
  | k + 1, i, B, p, again, h, hik => by
    have hv := visit_ok h (by omega : i < n)
    simp only [nscSweep]
    cases hr : nscVisit n i B p with
    | ok B' p' a =>
      rw [hr] at hv
      obtain ⟨hI, hle, hlt⟩ := hv
      have := sweep_ok k (i + 1) B' p' (again || a) hI (by omega)
      simp only []
      cases hr2 : nscSweep n k (i + 1) B' p' (again || a) with
      | ok B'' p'' a' =>
        rw [hr2] at this
        obtain ⟨hI', hle', hlt'⟩ := this
        refine ⟨hI', by omega, fun ha' => ?_⟩
        rcases hlt' ha' with h1 | h1
        · simp only [Bool.or_eq_true] at h1
          rcases h1 with h1 | h1
          · exact Or.inl h1
          · right; have := hlt h1; omega
        · right; omega
      | fail => trivial
      | oob => rw [hr2] at this; exact this
    | fail => trivial
    | oob => rw [hr] at hv; exact hv

theorem loop_ok {n : Nat} : ∀ (fuel : Nat) (B : Box) (p : Paths), Inv n B p → cnt (spOf p) n < fuel →
    ∃ r, nscLoop n fuel B p = .ok r
  | 0, _, _, _, h => by omega
  | fuel + 1, B, p, hI, hf => by
    have hs := sweep_ok n 0 B p false hI (by omega)
    simp only [nscLoop]
    cases hr : nscSweep n n 0 B p false with
    | ok B' p' a =>
      rw [hr] at hs
      obtain ⟨hI', hle, hlt⟩ := hs
      cases a with
      | true =>
        simp only []
        rcases hlt rfl with h | h
        · cases h
        · exact loop_ok fuel B' p' hI' (by omega)
      | false => exact ⟨_, rfl⟩
    | fail => exact ⟨_, rfl⟩
    | oob => rw [hr] at hs; exact hs.elim

/-! ### the result is a non-empty sub-box -/

theorem pruneD_le (de : Dom) (s : Int) : de.1 ≤ (pruneD de s).1 ∧ (pruneD de s).2 ≤ de.2 := by
  unfold pruneD
  simp only []
  split <;> split <;> simp_all <;> omega

theorem le_of_get : ∀ {B' B : Box}, B'.length = B.length →
    (∀ k, k < B.length → (getDom B k).1 ≤ (getDom B' k).1 ∧ (getDom B' k).2 ≤ (getDom B k).2) → Box.le B' B
  | [], [], _, _ => trivial
  | d' :: ds', d :: ds, hl, h => by
    refine ⟨?_, le_of_get (B' := ds') (B := ds) (by simpa using hl) (fun k hk => ?_)⟩
    · have := h 0 (by simp); simpa [getDom] using this
    · have := h (k + 1) (by simpa using hk); simpa [getDom] using this
  | [], _ :: _, hl, _ => by simp at hl
  | _ :: _, [], hl, _ => by simp at hl

theorem le_set {x : Box} {q : Nat} {d : Dom} (h1 : (getDom x q).1 ≤ d.1) (h2 : d.2 ≤ (getDom x q).2) :
    Box.le (x.set q d) x := by
  apply le_of_get (by simp)
  intro k hk
  rw [getDom_set]
  split
  · rename_i h; obtain ⟨rfl, _⟩ := h; exact ⟨h1, h2⟩
  · exact ⟨Int.le_refl _, Int.le_refl _⟩

theorem nonempty_set {x : Box} {q : Nat} {d : Dom} (hx : x.Nonempty) (hd : d.1 ≤ d.2) :
    Box.Nonempty (x.set q d) := by
  intro y hy
  rcases List.mem_or_eq_of_mem_set hy with h | h
  · exact hx y h
  · rw [h]; exact hd

/-- sub-box and non-emptiness, per step -/
def StepLe (B : Box) : NscStep → Prop
  | .ok B' _ _ => Box.le B' B ∧ B'.Nonempty
  | .fail => True
  | .oob => True

theorem visit_le {n i : Nat} {B : Box} {p : Paths} (h : Inv n B p) (hne : B.Nonempty) (hi : i < n) :
    StepLe B (nscVisit n i B p) := by
  have := visit_res h hi
  generalize nscVisit n i B p = r at this
  cases this with
  | skip _ => exact ⟨Box.le_refl _, hne⟩
  | self => trivial
  | link => exact ⟨Box.le_refl _, hne⟩
  | pruneFail => trivial
  | prune j hd1 hd2 hE hj hj0 hj1 hL hemp =>
    have := pruneD_le (getDom B (getI p.stop j.toNat).toNat) (getI p.start i)
    exact ⟨le_set this.1 this.2, nonempty_set hne (by omega)⟩

theorem sweep_le {n : Nat} : ∀ (k i : Nat) (B : Box) (p : Paths) (again : Bool), Inv n B p → B.Nonempty → i + k ≤ n →
    StepLe B (nscSweep n k i B p again)
  | 0, _, B, _, _, _, hne, _ => ⟨Box.le_refl _, hne⟩
  | k + 1, i, B, p, again, h, hne, hik => by
    have hv := visit_ok h (by omega : i < n)
    have hl := visit_le h hne (by omega : i < n)
    simp only [nscSweep]
    cases hr : nscVisit n i B p with
    | ok B' p' a =>
      rw [hr] at hv hl
      have := sweep_le k (i + 1) B' p' (again || a) hv.1 hl.2 (by omega)
      simp only []
      cases hr2 : nscSweep n k (i + 1) B' p' (again || a) with
      | ok B'' p'' a' =>
        rw [hr2] at this
        exact ⟨Box.le_trans this.1 hl.1, this.2⟩
      | fail => trivial
      | oob => trivial
    | fail => trivial
    | oob => trivial

theorem loop_le {n : Nat} : ∀ (fuel : Nat) (B : Box) (p : Paths) (st : Status) (B' : Box), Inv n B p → B.Nonempty →
    nscLoop n fuel B p = .ok (st, B') → st ≠ .inc → Box.le B' B ∧ B'.Nonempty
  | 0, _, _, _, _, _, _, h, _ => by simp [nscLoop] at h
  | fuel + 1, B, p, st, B', hI, hne, h, hst => by
    have hs := sweep_ok n 0 B p false hI (by omega)
    have hl := sweep_le n 0 B p false hI hne (by omega)
    simp only [nscLoop] at h
    cases hr : nscSweep n n 0 B p false with
    | ok B1 p1 a =>
      rw [hr] at hs hl h
      cases a with
      | true =>
        simp only [] at h
        have := loop_le fuel B1 p1 st B' hs.1 hl.2 h hst
        exact ⟨Box.le_trans this.1 hl.1, this.2⟩
      | false =>
        simp only [] at h
        injection h with h; injection h with h1 h2
        subst h2; exact hl
    | fail =>
      rw [hr] at h; simp only [] at h
      injection h with h; injection h with h1 h2
      exact absurd h1.symm hst
    | oob => rw [hr] at h; simp only [] at h; cases h

/-! ### soundness: the bookkeeping is accurate for every solution

  A solution `t` (no short cycle, all entries vertices) is a single `n`-cycle, hence injective.
  For such a `t` lying in the current box, with `f = fOf t`:
  `A` an end knows a path from its recorded start, `Bv` the successor of an end knows a path to
  its recorded end, `C` that end is an end, `D` and points back; `N` lengths are non-negative. -/

open Scc

theorem orb_path {f : Nat → Nat} {S i E a b : Nat} (h1 : orb f S a = i) (h2 : orb f (f i) b = E) :
    orb f S (a + 1 + b) = E := by
  rw [orb_add, show orb f S (a + 1) = f (orb f S a) from rfl, h1, h2]

/-- semantic bookkeeping invariants w.r.t. a successor function `f`; link case `E ≠ i` -/
theorem sem_link (n i j S E : Nat) (L : Int) (f sp st sp' st' : Nat → Nat) (ln ln' : Nat → Int)
    (hi : i < n) (hjn : j < n)
    (hinj : ∀ u w, u < n → w < n → f u = f w → u = w)
    (hE : sp i = i) (hj : f i = j) (hS : st i = S) (hEd : sp j = E) (hL : ln i + 1 + ln j = L)
    (hEi : E ≠ i)
    (hsp' : ∀ v, sp' v = if v = S ∨ v = i then E else sp v)
    (hst' : ∀ v, st' v = if v = E then S else if v = j then S else st v)
    (hln' : ∀ v, ln' v = if v = E ∨ v = S ∨ v = j ∨ v = i then L else ln v)
    (j1 : ∀ e, e < n → sp e = e → sp (st e) = e)
    (kk : ∀ e v, e < n → v < n → sp e = e → sp v = st e → v = e)
    (A : ∀ e, e < n → sp e = e → ∃ a : Nat, (a : Int) ≤ ln e ∧ orb f (st e) a = e)
    (Bv : ∀ u, u < n → sp u = u → ∃ b : Nat, (b : Int) ≤ ln (f u) ∧ orb f (f u) b = sp (f u))
    (C : ∀ u, u < n → sp u = u → sp (sp (f u)) = sp (f u))
    (D : ∀ u, u < n → sp u = u → st (sp (f u)) = f u)
    (N : ∀ v, 0 ≤ ln v) :
    (∀ e, e < n → sp' e = e → ∃ a : Nat, (a : Int) ≤ ln' e ∧ orb f (st' e) a = e) ∧
    (∀ u, u < n → sp' u = u → ∃ b : Nat, (b : Int) ≤ ln' (f u) ∧ orb f (f u) b = sp' (f u)) ∧
    (∀ u, u < n → sp' u = u → sp' (sp' (f u)) = sp' (f u)) ∧
    (∀ u, u < n → sp' u = u → st' (sp' (f u)) = f u) ∧
    (∀ v, 0 ≤ ln' v) ∧
    (∃ c : Nat, (c : Int) ≤ L ∧ orb f S c = E) := by
  have spS : sp S = i := by rw [← hS]; exact j1 i hi hE
  have hSE : S ≠ E := by
    intro h
    have := kk i j hi hjn hE (by rw [hEd, hS, h])
    apply hEi; rw [← hEd, this, hE]
  have hfix : ∀ v, sp' v = v → v ≠ S ∧ v ≠ i ∧ sp v = v := by
    intro v h; rw [hsp'] at h; split at h
    · rename_i hc; rcases hc with hc | hc
      · exfalso; apply hSE; rw [← hc]; exact h.symm
      · exfalso; apply hEi; rw [h, hc]
    · rename_i hc; exact ⟨fun h' => hc (Or.inl h'), fun h' => hc (Or.inr h'), h⟩
  have EE : sp E = E := by have := C i hi hE; rw [hj, hEd] at this; exact this
  have stE : st E = j := by have := D i hi hE; rw [hj, hEd] at this; exact this
  obtain ⟨ai, hai, pai⟩ := A i hi hE
  obtain ⟨bj, hbj, pbj⟩ := Bv i hi hE
  rw [hS] at pai; rw [hj, hEd] at pbj; rw [hj] at hbj
  have hNi := N i; have hNj := N j
  have pathSE : ∃ c : Nat, (c : Int) ≤ L ∧ orb f S c = E :=
    ⟨ai + 1 + bj, by omega, orb_path pai (by rw [hj]; exact pbj)⟩
  have sp'E : sp' E = E := by
    rw [hsp', if_neg (by intro h; rcases h with h | h; exact hSE h.symm; exact hEi h)]; exact EE
  refine ⟨?_, ?_, ?_, ?_, ?_, pathSE⟩
  · -- A'
    intro e he h
    obtain ⟨n1, n2, h0⟩ := hfix e h
    by_cases c1 : e = E
    · obtain ⟨c, hc, pc⟩ := pathSE
      refine ⟨c, ?_, ?_⟩
      · rw [hln', if_pos (Or.inl c1)]; exact hc
      · rw [hst', if_pos c1, c1]; exact pc
    · by_cases c2 : e = j
      · exfalso; apply c1; rw [← hEd, ← c2]; exact h0.symm
      · obtain ⟨a, ha, pa⟩ := A e he h0
        refine ⟨a, ?_, ?_⟩
        · rw [hln', if_neg (by intro h; rcases h with h | h | h | h <;> contradiction)]; exact ha
        · rw [hst', if_neg c1, if_neg c2]; exact pa
  · -- B'
    intro u hu h
    obtain ⟨n1, n2, h0⟩ := hfix u h
    have hvj : f u ≠ j := by intro h'; exact n2 (hinj u i hu hi (by rw [h', hj]))
    obtain ⟨b, hb, pb⟩ := Bv u hu h0
    by_cases c1 : f u = i
    · refine ⟨1 + bj, ?_, ?_⟩
      · rw [hln', if_pos (Or.inr (Or.inr (Or.inr c1)))]; omega
      · rw [hsp', if_pos (Or.inr c1), c1, orb_add]
        show orb f (f i) bj = E
        rw [hj]; exact pbj
    · by_cases c2 : f u = S
      · obtain ⟨c, hc, pc⟩ := pathSE
        refine ⟨c, ?_, ?_⟩
        · rw [hln', if_pos (Or.inr (Or.inl c2))]; exact hc
        · rw [hsp', if_pos (Or.inl c2), c2]; exact pc
      · have hsp : sp' (f u) = sp (f u) := by
          rw [hsp', if_neg (by intro h; rcases h with h | h <;> contradiction)]
        by_cases c3 : f u = E
        · refine ⟨0, ?_, ?_⟩
          · rw [hln', if_pos (Or.inl c3)]; omega
          · rw [hsp, c3, EE]; rfl
        · refine ⟨b, ?_, ?_⟩
          · rw [hln', if_neg (by intro h; rcases h with h | h | h | h <;> contradiction)]; exact hb
          · rw [hsp]; exact pb
  · -- C'
    intro u hu h
    obtain ⟨n1, n2, h0⟩ := hfix u h
    by_cases c1 : f u = S ∨ f u = i
    · rw [hsp' (f u), if_pos c1]; exact sp'E
    · rw [hsp' (f u), if_neg c1]
      have hw := C u hu h0
      rw [hsp', if_neg ?_]; exact hw
      intro hc
      have hwi : sp (f u) = i := by
        rcases hc with hc | hc
        · rw [hc] at hw; rw [hc, ← hw]; exact spS
        · exact hc
      have := D u hu h0
      rw [hwi, hS] at this
      exact c1 (Or.inl this.symm)
  · -- D'
    intro u hu h
    obtain ⟨n1, n2, h0⟩ := hfix u h
    have hvj : f u ≠ j := by intro h'; exact n2 (hinj u i hu hi (by rw [h', hj]))
    by_cases c1 : f u = S ∨ f u = i
    · rw [hsp' (f u), if_pos c1, hst', if_pos rfl]
      rcases c1 with c1 | c1
      · exact c1.symm
      · have := D u hu h0
        rw [c1, hE, hS] at this
        rw [c1]; exact this
    · rw [hsp' (f u), if_neg c1]
      have hd := D u hu h0
      rw [hst']
      split
      · rename_i hc
        exfalso; rw [hc, stE] at hd; exact hvj hd.symm
      · split
        · rename_i hc1 hc2
          exfalso
          have := C u hu h0
          rw [hc2, hEd] at this
          exact hc1 (by rw [hc2]; exact this.symm)
        · exact hd
  · intro v; rw [hln']; split
    · omega
    · exact N v

/-- close case `E = i` -/
theorem sem_close (n i j S : Nat) (L : Int) (f sp st sp' st' : Nat → Nat) (ln ln' : Nat → Int)
    (hi : i < n)
    (hE : sp i = i) (hj : f i = j) (hS : st i = S) (hEd : sp j = i) (hL : ln i + 1 + ln j = L)
    (hsp' : ∀ v, sp' v = sp v)
    (hst' : ∀ v, st' v = if v = i then S else if v = j then S else st v)
    (hln' : ∀ v, ln' v = if v = i ∨ v = S ∨ v = j ∨ v = i then L else ln v)
    (j1 : ∀ e, e < n → sp e = e → sp (st e) = e)
    (A : ∀ e, e < n → sp e = e → ∃ a : Nat, (a : Int) ≤ ln e ∧ orb f (st e) a = e)
    (Bv : ∀ u, u < n → sp u = u → ∃ b : Nat, (b : Int) ≤ ln (f u) ∧ orb f (f u) b = sp (f u))
    (C : ∀ u, u < n → sp u = u → sp (sp (f u)) = sp (f u))
    (D : ∀ u, u < n → sp u = u → st (sp (f u)) = f u)
    (N : ∀ v, 0 ≤ ln v) :
    (∀ e, e < n → sp' e = e → ∃ a : Nat, (a : Int) ≤ ln' e ∧ orb f (st' e) a = e) ∧
    (∀ u, u < n → sp' u = u → ∃ b : Nat, (b : Int) ≤ ln' (f u) ∧ orb f (f u) b = sp' (f u)) ∧
    (∀ u, u < n → sp' u = u → sp' (sp' (f u)) = sp' (f u)) ∧
    (∀ u, u < n → sp' u = u → st' (sp' (f u)) = f u) ∧
    (∀ v, 0 ≤ ln' v) ∧
    (∃ c : Nat, (c : Int) ≤ L ∧ orb f S c = i) := by
  have spS : sp S = i := by rw [← hS]; exact j1 i hi hE
  obtain ⟨ai, hai, pai⟩ := A i hi hE
  obtain ⟨bj, hbj, pbj⟩ := Bv i hi hE
  rw [hS] at pai; rw [hj, hEd] at pbj; rw [hj] at hbj
  have hNi := N i; have hNj := N j
  have pathSE : ∃ c : Nat, (c : Int) ≤ L ∧ orb f S c = i :=
    ⟨ai + 1 + bj, by omega, orb_path pai (by rw [hj]; exact pbj)⟩
  refine ⟨?_, ?_, ?_, ?_, ?_, pathSE⟩
  · intro e he h
    rw [hsp'] at h
    by_cases c1 : e = i
    · refine ⟨ai, ?_, ?_⟩
      · rw [hln', if_pos (Or.inl c1)]; omega
      · rw [hst', if_pos c1, c1]; exact pai
    · by_cases c2 : e = j
      · exfalso; apply c1; rw [c2] at h ⊢; rw [← h]; exact hEd.symm ▸ rfl
      · by_cases c3 : e = S
        · exfalso; apply c1; rw [c3] at h ⊢; rw [← h]; exact spS
        · obtain ⟨a, ha, pa⟩ := A e he h
          refine ⟨a, ?_, ?_⟩
          · rw [hln', if_neg (by intro h; rcases h with h | h | h | h <;> contradiction)]; exact ha
          · rw [hst', if_neg c1, if_neg c2]; exact pa
  · intro u hu h
    rw [hsp'] at h
    rw [hsp']
    obtain ⟨b, hb, pb⟩ := Bv u hu h
    by_cases c3 : f u = S
    · refine ⟨ai, ?_, ?_⟩
      · rw [hln', if_pos (Or.inr (Or.inl c3))]; omega
      · rw [c3, spS]; exact pai
    · by_cases c1 : f u = i
      · refine ⟨b, ?_, pb⟩
        rw [hln', if_pos (Or.inl c1)]; rw [c1] at hb; omega
      · by_cases c2 : f u = j
        · refine ⟨b, ?_, pb⟩
          rw [hln', if_pos (Or.inr (Or.inr (Or.inl c2)))]; rw [c2] at hb; omega
        · refine ⟨b, ?_, pb⟩
          rw [hln', if_neg (by intro h; rcases h with h | h | h | h <;> contradiction)]; exact hb
  · intro u hu h
    rw [hsp'] at h
    rw [hsp', hsp']; exact C u hu h
  · intro u hu h
    rw [hsp'] at h
    rw [hsp']
    have hd := D u hu h
    rw [hst']
    split
    · rename_i hc; rw [hc, hS] at hd; exact hd
    · split
      · rename_i hc1 hc2
        exfalso
        have := C u hu h
        rw [hc2, hEd] at this
        exact hc1 (by rw [hc2]; exact this.symm)
      · exact hd
  · intro v; rw [hln']; split
    · omega
    · exact N v


theorem inj_of_nsc {f : Nat → Nat} {n : Nat} (hf : ∀ i, f i < n)
    (hnsc : ∀ v, v < n → ∀ k, 0 < k → k < n → orb f v k ≠ v) :
    ∀ u w, u < n → w < n → f u = f w → u = w := by
  have cyc : ∀ v, v < n → orb f v n = v := by
    intro v hv
    obtain ⟨a, b, hab, hbn, e⟩ := collision (orb f v) n (orb_lt hf hv)
    have hw : orb f (orb f v a) (b - a) = orb f v a := by
      rw [← orb_add, show a + (b - a) = b by omega]; exact e.symm
    by_cases hk : b - a < n
    · exact absurd hw (hnsc _ (orb_lt hf hv a) (b - a) (by omega) hk)
    · have : a = 0 ∧ b = n := by omega
      obtain ⟨rfl, rfl⟩ := this
      exact e.symm
  intro u w hu hw h
  have h1 := cyc u hu; have h2 := cyc w hw
  obtain ⟨m, rfl⟩ : ∃ m, n = m + 1 := ⟨n - 1, by omega⟩
  rw [← orb_shift] at h1 h2
  rw [h] at h1
  rw [← h1, h2]

def lnOf (p : Paths) (v : Nat) : Int := getI p.len v

theorem lnOf_mergeP {n i : Nat} {p : Paths} {j : Int} (hp : RangeP n p) (hi : i < n) (hj0 : 0 ≤ j) (hj1 : j < n)
    (v : Nat) :
    lnOf (mergeP p i j) v =
      if v = spOf p j.toNat ∨ v = stOf p i ∨ v = j.toNat ∨ v = i then lnOf p i + 1 + lnOf p j.toNat
      else lnOf p v := by
  obtain ⟨ls, lt, ll, rs, rt⟩ := hp
  have he := rt j.toNat (by omega)
  have hs := rs i hi
  have h1 : (getI p.stop j.toNat).toNat < n := by omega
  have h2 : (getI p.start i).toNat < n := by omega
  have h3 : j.toNat < n := by omega
  simp only [lnOf, spOf, stOf, mergeP, getI_set, List.length_set, ll, h1, h2, h3, hi, and_true]
  by_cases c1 : v = (getI p.stop j.toNat).toNat
  · simp [c1]
  · by_cases c2 : v = (getI p.start i).toNat
    · simp [c2]
    · by_cases c3 : v = j.toNat
      · simp [c3]
      · by_cases c4 : v = i
        · simp [c4]
        · have c1' : ¬ (getI p.stop j.toNat).toNat = v := fun h => c1 h.symm
          have c2' : ¬ (getI p.start i).toNat = v := fun h => c2 h.symm
          have c3' : ¬ j.toNat = v := fun h => c3 h.symm
          have c4' : ¬ i = v := fun h => c4 h.symm
          simp [c1, c2, c3, c4, c1', c2', c3', c4']

structure Sem (n : Nat) (f : Nat → Nat) (p : Paths) : Prop where
  A : ∀ e, e < n → spOf p e = e → ∃ a : Nat, (a : Int) ≤ lnOf p e ∧ orb f (stOf p e) a = e
  Bv : ∀ u, u < n → spOf p u = u → ∃ b : Nat, (b : Int) ≤ lnOf p (f u) ∧ orb f (f u) b = spOf p (f u)
  C : ∀ u, u < n → spOf p u = u → spOf p (spOf p (f u)) = spOf p (f u)
  D : ∀ u, u < n → spOf p u = u → stOf p (spOf p (f u)) = f u
  N : ∀ v, 0 ≤ lnOf p v

/-- linking `i → j` keeps the bookkeeping accurate and yields a real path start → end -/
theorem merge_sem {n i : Nat} {B : Box} {p : Paths} {f : Nat → Nat} {j : Int}
    (h : Inv n B p) (hs : Sem n f p) (hi : i < n)
    (hinj : ∀ u w, u < n → w < n → f u = f w → u = w)
    (hE : getI p.stop i = (i : Int)) (hj0 : 0 ≤ j) (hj1 : j < n) (hfi : f i = j.toNat) :
    Sem n f (mergeP p i j) ∧
    ∃ c : Nat, (c : Int) ≤ getI p.len i + 1 + getI p.len j.toNat ∧ orb f (stOf p i) c = spOf p j.toNat := by
  have hjn : j.toNat < n := by omega
  have hEn : spOf p i = i := by simp [spOf, hE]
  by_cases hEi : spOf p j.toNat = i
  · obtain ⟨_, _, _, _, a5⟩ := abs_step n i j.toNat (spOf p) (stOf p)
      (spOf (mergeP p i j)) (stOf (mergeP p i j)) hi hjn hEn
      (spOf_mergeP h.rp hi) (stOf_mergeP h.rp hj0 hj1) h.j1 h.kk
    obtain ⟨a, b, c, d, e, pth⟩ := sem_close n i j.toNat (stOf p i) (lnOf p i + 1 + lnOf p j.toNat) f
      (spOf p) (stOf p) (spOf (mergeP p i j)) (stOf (mergeP p i j)) (lnOf p) (lnOf (mergeP p i j))
      hi hEn hfi rfl hEi rfl (a5 hEi)
      (fun v => by rw [stOf_mergeP h.rp hj0 hj1, hEi])
      (fun v => by rw [lnOf_mergeP h.rp hi hj0 hj1, hEi])
      h.j1 hs.A hs.Bv hs.C hs.D hs.N
    exact ⟨⟨a, b, c, d, e⟩, by rw [hEi]; exact pth⟩
  · obtain ⟨a, b, c, d, e, pth⟩ := sem_link n i j.toNat (stOf p i) (spOf p j.toNat) (lnOf p i + 1 + lnOf p j.toNat) f
      (spOf p) (stOf p) (spOf (mergeP p i j)) (stOf (mergeP p i j)) (lnOf p) (lnOf (mergeP p i j))
      hi hjn hinj hEn hfi rfl rfl rfl hEi
      (spOf_mergeP h.rp hi) (stOf_mergeP h.rp hj0 hj1) (lnOf_mergeP h.rp hi hj0 hj1)
      h.j1 h.kk hs.A hs.Bv hs.C hs.D hs.N
    exact ⟨⟨a, b, c, d, e⟩, pth⟩

theorem getI_range (n v : Nat) (hv : v < n) : getI ((List.range n).map Int.ofNat) v = (v : Int) := by
  simp [getI, List.getD, hv]

theorem inv_init {B : Box} (hw : B.within 0 ((B.length : Int) - 1)) : Inv B.length B (Paths.init B.length) := by
  have hsp : ∀ v, v < B.length → spOf (Paths.init B.length) v = v := by
    intro v hv; simp [spOf, Paths.init, getI_range _ _ hv]
  have hst : ∀ v, v < B.length → stOf (Paths.init B.length) v = v := by
    intro v hv; simp [stOf, Paths.init, getI_range _ _ hv]
  refine ⟨rfl, hw, ⟨by simp [Paths.init], by simp [Paths.init], by simp [Paths.init], fun v hv => ?_, fun v hv => ?_⟩,
    fun e he h => ?_, fun e v he hv h h2 => ?_⟩
  · simp only [Paths.init, getI_range _ _ hv]; omega
  · simp only [Paths.init, getI_range _ _ hv]; omega
  · rw [hst e he, hsp e he]
  · rw [hst e he, hsp v hv] at h2; exact h2

/-- the facts about a solution `t` used by the soundness argument -/
structure Sol (n : Nat) (t : List Int) : Prop where
  len : t.length = n
  rng : InRange t
  nsc : ∀ v, v < n → ∀ k, 0 < k → k < n → orb (fOf t) v k ≠ v

theorem Sol.f_lt {n : Nat} {t : List Int} (h : Sol n t) (hn : 0 < n) (i : Nat) : fOf t i < n := by
  have := fOf_lt h.rng (by rw [h.len]; exact hn) i
  rw [h.len] at this; exact this

theorem Sol.inj {n : Nat} {t : List Int} (h : Sol n t) (hn : 0 < n) :
    ∀ u w, u < n → w < n → fOf t u = fOf t w → u = w :=
  inj_of_nsc (h.f_lt hn) h.nsc

theorem sol_of_nsc {t : List Int} {B : Box} (ht : inBox t B) (hw : B.within 0 ((B.length : Int) - 1))
    (hnsc : NoShortCycle t) : Sol B.length t := by
  have hr := inRange_of_inBox ht hw
  have hl := inBox_length ht
  refine ⟨hl, hr, fun v hv k hk0 hkn => ?_⟩
  have := hnsc v (by omega) k hk0 (by omega)
  rw [iterSucc_orb hr k v (by omega)] at this
  intro h; apply this; rw [h]

theorem pruneD_keep (de : Dom) (s x : Int) (h : de.1 ≤ x ∧ x ≤ de.2) (hx : x ≠ s) :
    (pruneD de s).1 ≤ x ∧ x ≤ (pruneD de s).2 := by
  obtain ⟨a, b⟩ := de
  simp only [pruneD]
  simp only [] at h
  by_cases c1 : a = s <;> by_cases c2 : b = s <;> simp only [c1, c2, ↓reduceIte] <;> omega

theorem inBox_of_get : ∀ {t : List Int} {B : Box}, t.length = B.length →
    (∀ k, k < B.length → (getDom B k).1 ≤ getI t k ∧ getI t k ≤ (getDom B k).2) → inBox t B
  | [], [], _, _ => trivial
  | x :: xs, d :: ds, hl, h => by
    refine ⟨?_, inBox_of_get (t := xs) (B := ds) (by simpa using hl) (fun k hk => ?_)⟩
    · have := h 0 (by simp); simpa [getDom, getI, inDom] using this
    · have := h (k + 1) (by simpa using hk); simpa [getDom, getI] using this
  | [], _ :: _, hl, _ => by simp at hl
  | _ :: _, [], hl, _ => by simp at hl

theorem inBox_set {xs : List Int} {x : Box} {q : Nat} {d : Dom} (h : inBox xs x)
    (hd : d.1 ≤ getI xs q ∧ getI xs q ≤ d.2) : inBox xs (x.set q d) := by
  apply inBox_of_get (by simpa using inBox_length h)
  intro k hk
  rw [getDom_set]
  split
  · rename_i h'; obtain ⟨rfl, _⟩ := h'; exact hd
  · exact inBox_get k h (by simpa using hk)

/-- per visit: a solution of the box stays in the box, and the visit does not fail -/
def StepSem (n : Nat) (t : List Int) : NscStep → Prop
  | .ok B' p' _ => Sem n (fOf t) p' ∧ inBox t B'
  | .fail => False
  | .oob => True

theorem visit_sem {n i : Nat} {B : Box} {p : Paths} {t : List Int} (h : Inv n B p) (hs : Sem n (fOf t) p)
    (ht : inBox t B) (hsol : Sol n t) (hi : i < n) : StepSem n t (nscVisit n i B p) := by
  have hres := visit_res h hi
  have hiB : i < B.length := by rw [h.lenB]; exact hi
  have hti := inBox_get i ht hiB
  have hn : 0 < n := by omega
  -- the value of `t` at a ground position
  have hground : ∀ j : Int, (getDom B i).1 = j → (getDom B i).2 = j → getI t i = j := by
    intro j h1 h2; omega
  -- common part of the three linking outcomes
  have hmerge : ∀ j : Int, (getDom B i).1 = j → (getDom B i).2 = j → getI p.stop i = (i : Int) → 0 ≤ j → j < n →
      Sem n (fOf t) (mergeP p i j) ∧
      (getI p.len i + 1 + getI p.len j.toNat < (n : Int) - 1 →
        getI t (getI p.stop j.toNat).toNat ≠ getI p.start i) := by
    intro j hd1 hd2 hE hj0 hj1
    have hfi : fOf t i = j.toNat := by unfold fOf; rw [hground j hd1 hd2]
    obtain ⟨hsem, c, hc, pc⟩ := merge_sem h hs hi (hsol.inj hn) hE hj0 hj1 hfi
    refine ⟨hsem, fun hL heq => ?_⟩
    have he := h.rp.rstop j.toNat (by omega)
    have hst := h.rp.rstart i hi
    have hEn : spOf p j.toNat < n := by unfold spOf; omega
    have hSn : stOf p i < n := by unfold stOf; omega
    have : fOf t (spOf p j.toNat) = stOf p i := by
      unfold fOf stOf; unfold spOf; rw [heq]
    have hcyc : orb (fOf t) (stOf p i) (c + 1) = stOf p i := by
      show fOf t (orb (fOf t) (stOf p i) c) = stOf p i
      rw [pc, this]
    exact hsol.nsc _ hSn (c + 1) (by omega) (by omega) hcyc
  generalize nscVisit n i B p = r at hres
  cases hres with
  | skip _ => exact ⟨hs, ht⟩
  | self hd1 hd2 hn1 =>
    have hfi : fOf t i = i := by unfold fOf; rw [hground _ hd1 hd2]; simp
    exact hsol.nsc i hi 1 (by omega) hn1 (by show fOf t i = i; exact hfi)
  | link j hd1 hd2 hE hj hj0 hj1 hL => exact ⟨(hmerge j hd1 hd2 hE hj0 hj1).1, ht⟩
  | pruneFail j hd1 hd2 hE hj hj0 hj1 hL hemp =>
    have hne := (hmerge j hd1 hd2 hE hj0 hj1).2 hL
    have he := h.rp.rstop j.toNat (by omega)
    have hin := inBox_get (getI p.stop j.toNat).toNat ht (by rw [h.lenB]; omega)
    have := pruneD_keep _ _ _ hin hne
    omega
  | prune j hd1 hd2 hE hj hj0 hj1 hL hemp =>
    have hne := (hmerge j hd1 hd2 hE hj0 hj1).2 hL
    have he := h.rp.rstop j.toNat (by omega)
    have hin := inBox_get (getI p.stop j.toNat).toNat ht (by rw [h.lenB]; omega)
    exact ⟨(hmerge j hd1 hd2 hE hj0 hj1).1, inBox_set ht (pruneD_keep _ _ _ hin hne)⟩

theorem sweep_sem {n : Nat} {t : List Int} (hsol : Sol n t) : ∀ (k i : Nat) (B : Box) (p : Paths) (again : Bool),
    Inv n B p → Sem n (fOf t) p → inBox t B → i + k ≤ n → StepSem n t (nscSweep n k i B p again)
  | 0, _, _, _, _, _, hs, ht, _ => ⟨hs, ht⟩
  | k + 1, i, B, p, again, h, hs, ht, hik => by
    have hv := visit_ok h (by omega : i < n)
    have hm := visit_sem h hs ht hsol (by omega : i < n)
    simp only [nscSweep]
    cases hr : nscVisit n i B p with
    | ok B' p' a =>
      rw [hr] at hv hm
      exact sweep_sem hsol k (i + 1) B' p' (again || a) hv.1 hm.1 hm.2 (by omega)
    | fail => rw [hr] at hm; exact hm
    | oob => trivial

theorem loop_sem {n : Nat} {t : List Int} (hsol : Sol n t) : ∀ (fuel : Nat) (B : Box) (p : Paths) (st : Status) (B' : Box),
    Inv n B p → Sem n (fOf t) p → inBox t B → nscLoop n fuel B p = .ok (st, B') → st ≠ .inc ∧ inBox t B'
  | 0, _, _, _, _, _, _, _, h => by simp [nscLoop] at h
  | fuel + 1, B, p, st, B', hI, hs, ht, h => by
    have ho := sweep_ok n 0 B p false hI (by omega)
    have hm := sweep_sem hsol n 0 B p false hI hs ht (by omega)
    simp only [nscLoop] at h
    cases hr : nscSweep n n 0 B p false with
    | ok B1 p1 a =>
      rw [hr] at ho hm h
      cases a with
      | true => exact loop_sem hsol fuel B1 p1 st B' ho.1 hm.1 hm.2 h
      | false =>
        simp only [] at h
        injection h with h; injection h with h1 h2
        subst h1; subst h2; exact ⟨by simp, hm.2⟩
    | fail => rw [hr] at hm; exact hm.elim
    | oob => rw [hr] at h; simp only [] at h; cases h

theorem sem_init {n : Nat} {f : Nat → Nat} (hf : ∀ i, f i < n) : Sem n f (Paths.init n) := by
  have hsp : ∀ v, v < n → spOf (Paths.init n) v = v := by
    intro v hv; simp [spOf, Paths.init, getI_range _ _ hv]
  have hst : ∀ v, v < n → stOf (Paths.init n) v = v := by
    intro v hv; simp [stOf, Paths.init, getI_range _ _ hv]
  have hln : ∀ v, lnOf (Paths.init n) v = 0 := by
    intro v; simp only [lnOf, Paths.init, getI]
    by_cases hv : v < n
    · simp [List.getD, hv]
    · simp [List.getD, hv]
  refine ⟨fun e he _ => ⟨0, by rw [hln]; simp, by rw [hst e he]; rfl⟩,
    fun u _ _ => ⟨0, by rw [hln]; simp, by rw [hsp _ (hf u)]; rfl⟩,
    fun u _ _ => by rw [hsp _ (hf u), hsp _ (hf u)],
    fun u _ _ => by rw [hsp _ (hf u), hst _ (hf u)],
    fun v => by rw [hln]; exact Int.le_refl _⟩

end Nsc

open Nsc

theorem runAlg_noSubCycle (ps : List Int) (B : Box) : runAlg .noSubCycle ps B = noSubCycle ps B := rfl

theorem safe_noSubCycle : Safe .noSubCycle := by
  intro ps B hc _
  simp only [Contract] at hc
  rw [runAlg_noSubCycle]
  simp only [noSubCycle]
  apply loop_ok _ _ _ (inv_init hc.2)
  have := cnt_le_self (spOf (Paths.init B.length)) B.length
  have : B.length ≤ B.length * B.length := Nat.le_mul_self _
  omega

theorem Nsc.loop_not_ent {n : Nat} : ∀ (fuel : Nat) (B : Box) (p : Paths) (st : Status) (B' : Box),
    nscLoop n fuel B p = .ok (st, B') → st ≠ .ent
  | 0, _, _, _, _, h => by simp [nscLoop] at h
  | fuel + 1, B, p, st, B', h => by
    simp only [nscLoop] at h
    split at h
    · exact Nsc.loop_not_ent fuel _ _ st B' h
    · injection h with h; injection h with h1 _; rw [← h1]; simp
    · injection h with h; injection h with h1 _; rw [← h1]; simp
    · cases h

theorem entailOk_noSubCycle : EntailOk .noSubCycle := by
  intro ps B B' _ _ hrun
  rw [runAlg_noSubCycle] at hrun
  exact absurd rfl (Nsc.loop_not_ent _ _ _ _ _ hrun)

/-- FINDING: the weak trigger contract of `Spec.lean` does not hold for no_sub_cycle.  The call on
    `B = [(0,2),(2,2),(0,2)]` answers `consistent` and changes nothing; the sub-box
    `B'' = [(0,2),(2,2),(1,2)]` differs from `B` by a MIN change only (not watched: the mask is
    GROUND), yet the call on `B''` prunes `x_2` to `(2,2)` (value 1 is now a bound) and then fails on
    the self-loop.  So an unwatched change can make the next call fail. -/
theorem not_trigOkW_noSubCycle : ¬ TrigOkW .noSubCycle := by
  intro h
  have := h [] [(0,2),(2,2),(0,2)] .cons [(0,2),(2,2),(0,2)] [(0,2),(2,2),(1,2)]
    (by simp [Contract, Box.within]) (by simp [Box.Nonempty]) rfl (by simp)
    (by simp [Box.le]) (by simp [Box.Nonempty])
    (by
      intro k hk
      have : k = 0 ∨ k = 1 ∨ k = 2 := by simp at hk; omega
      rcases this with rfl | rfl | rfl <;> simp [quiet, maskAlg, Ev.meets, Ev.groundOnly, evOf, getDom])
  obtain ⟨st'', B''', hrun, hst⟩ := this
  have e : runAlg .noSubCycle [] [(0,2),(2,2),(1,2)] = .ok (.inc, [(0,2),(2,2),(1,2)]) := rfl
  rw [e] at hrun
  injection hrun with hrun
  injection hrun with h1 _
  exact hst h1.symm

theorem Nsc.out_le {ps : List Int} {B B' : Box} {st : Status} (hc : Contract .noSubCycle ps B) (hne : B.Nonempty)
    (hrun : runAlg .noSubCycle ps B = .ok (st, B')) (hst : st ≠ .inc) : Box.le B' B ∧ B'.Nonempty := by
  simp only [Contract] at hc
  rw [runAlg_noSubCycle] at hrun
  exact loop_le _ _ _ _ _ (inv_init hc.2) hne hrun hst

/-- the provable part of trigger sufficiency: once all variables are instantiated, a change that
    is not a GROUND event is no change at all -/
theorem trigOkP_noSubCycle : TrigOkP .noSubCycle := by
  intro ps B st B' B'' hc hne hrun hst hle hne'' hg hq
  have hB'B := (Nsc.out_le hc hne hrun hst).1
  have hlen : B''.length = B.length := by rw [Box.le_length hle, Box.le_length hB'B]
  have e : B'' = B := Box.ext_get hlen (fun k hk => by
    have hq := hq k (by omega)
    have hgk : (getDom B'' k).1 = (getDom B'' k).2 := by
      have := List.all_eq_true.mp hg _ (getDom_mem hk)
      simpa [Dom.isGround] using this
    simp only [quiet, maskAlg, Ev.meets, Ev.groundOnly, evOf, Bool.false_and, Bool.true_and, Bool.false_or,
      decide_eq_false_iff_not] at hq
    exact Classical.byContradiction (fun hne => hq ⟨hne, hgk⟩))
  subst e
  have e' : B' = B'' := Box.le_antisymm hB'B hle
  subst e'
  exact ⟨st, B', hrun, hst⟩

theorem sound_noSubCycle : Sound .noSubCycle := by
  intro ps B st B' hc hne hrun
  have hc' := hc
  simp only [Contract] at hc'
  have hI := inv_init hc'.2
  refine ⟨fun hst => ?_, fun hst t ht hrel => ?_⟩
  · obtain ⟨hle, hne'⟩ := Nsc.out_le hc hne hrun hst
    refine ⟨hle, hne', fun t ht hrel => ?_⟩
    have hsol := sol_of_nsc ht hc'.2 hrel
    rw [runAlg_noSubCycle] at hrun
    exact (loop_sem hsol _ _ _ _ _ hI (sem_init (hsol.f_lt (by omega))) ht hrun).2
  · have hsol := sol_of_nsc ht hc'.2 hrel
    rw [runAlg_noSubCycle] at hrun
    exact (loop_sem hsol _ _ _ _ _ hI (sem_init (hsol.f_lt (by omega))) ht hrun).1 hst

theorem Nsc.within_of_le {B' B : Box} {lo hi : Int} (hle : Box.le B' B) (hw : B.within lo hi) : B'.within lo hi := by
  intro d hd
  obtain ⟨k, hk, rfl⟩ := List.mem_iff_getElem.mp hd
  have hk' : k < B.length := by rw [← Box.le_length hle]; exact hk
  have h1 := Box.le_get k hle hk'
  have h2 := hw _ (getDom_mem hk')
  have : getDom B' k = B'[k] := by simp [getDom, List.getD, hk]
  rw [this] at h1
  omega

theorem contractMono_noSubCycle : ContractMono .noSubCycle := by
  intro ps B B' hc hle
  simp only [Contract] at *
  rw [Box.le_length hle]
  exact ⟨hc.1, Nsc.within_of_le hle hc.2⟩

end Nucs
