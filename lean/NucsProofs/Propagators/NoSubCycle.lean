import NucsProofs.Basic
import NucsProofs.Propagators.Scc
/-!
  no_sub_cycle: no cycle visiting fewer than `n` vertices.
  Proved: Safe (no out-of-bounds access, the restart loop terminates within the fuel),
  ContractMono, EntailOk (vacuous), Sound, GroundOk (an accepted permutation has no short cycle),
  TrigOkP (trigger sufficiency once everything is instantiated).
  Refuted: `TrigOkW` (`not_trigOkW_noSubCycle`, known finding K3).
-/
namespace Nucs
namespace Nsc

/-! ### checked reads and writes inside the bounds -/

theorem getI_set (l : List Int) (a b : Nat) (v : Int) :
    getI (l.set a v) b = if a = b ∧ a < l.length then v else getI l b := by
  unfold getI
  by_cases h : a = b
  · subst h
    by_cases h2 : a < l.length
    · simp [List.getD, h2]
    · simp [List.getD, h2]
  · simp [List.getD, h, List.getElem?_set_ne h]

theorem getDom_set (x : Box) (i j : Nat) (d : Dom) :
    getDom (x.set i d) j = if i = j ∧ i < x.length then d else getDom x j := by
  unfold getDom
  by_cases h : i = j
  · subst h
    by_cases h2 : i < x.length
    · simp [List.getD, h2]
    · simp [List.getD, h2]
  · simp [List.getD, h, List.getElem?_set_ne h]

theorem rdI_eq {l : List Int} {a : Int} (h0 : 0 ≤ a) (h1 : a < l.length) : rdI l a = some (getI l a.toNat) := by
  have : a.toNat < l.length := by omega
  simp [rdI, getI, List.getD, this]; omega

theorem wrI_eq {l : List Int} {a : Int} (v : Int) (h0 : 0 ≤ a) (h1 : a < l.length) :
    wrI l a v = some (l.set a.toNat v) := by
  have : a.toNat < l.length := by omega
  simp [wrI]; omega

theorem rdDom_eq {B : Box} {a : Int} (h0 : 0 ≤ a) (h1 : a < B.length) : rdDom B a = some (getDom B a.toNat) := by
  have : a.toNat < B.length := by omega
  simp [rdDom, getDom, List.getD, this]; omega

/-! ### one visit, in closed form -/

/-- the bookkeeping after linking `i → j` -/
def mergeP (p : Paths) (i : Nat) (j : Int) : Paths :=
  let endv := getI p.stop j.toNat
  let s := getI p.start i
  let length := getI p.len i + 1 + getI p.len j.toNat
  ⟨(p.start.set j.toNat s).set endv.toNat s,
   (p.stop.set i endv).set s.toNat endv,
   (((p.len.set i length).set j.toNat length).set s.toNat length).set endv.toNat length⟩

/-- remove the value `s` from a domain when it is one of its bounds -/
def pruneD (de : Dom) (s : Int) : Dom :=
  let de1 : Dom := if de.1 = s then (s + 1, de.2) else de
  if de1.2 = s then (de1.1, s - 1) else de1

/-- all indices stored in the bookkeeping are vertices -/
structure RangeP (n : Nat) (p : Paths) : Prop where
  lstart : p.start.length = n
  lstop : p.stop.length = n
  llen : p.len.length = n
  rstart : ∀ v, v < n → 0 ≤ getI p.start v ∧ getI p.start v < n
  rstop : ∀ v, v < n → 0 ≤ getI p.stop v ∧ getI p.stop v < n

theorem visit_skip {n i : Nat} {B : Box} {p : Paths}
    (h : ¬ ((getDom B i).1 = (getDom B i).2 ∧ getI p.stop i = (i : Int))) :
    nscVisit n i B p = .ok B p false := by
  simp only [nscVisit, h, ↓reduceIte]

theorem visit_self {n i : Nat} {B : Box} {p : Paths} {j : Int}
    (hd1 : (getDom B i).1 = j) (hd2 : (getDom B i).2 = j) (hE : getI p.stop i = (i : Int))
    (hj : j = (i : Int) ∧ n > 1) : nscVisit n i B p = .fail := by
  simp only [nscVisit, hd1, hd2, hE, hj, and_self, ↓reduceIte]

theorem visit_merge {n i : Nat} {B : Box} {p : Paths} {j : Int} (hB : B.length = n) (hp : RangeP n p) (hi : i < n)
    (hd1 : (getDom B i).1 = j) (hd2 : (getDom B i).2 = j) (hE : getI p.stop i = (i : Int))
    (hj : ¬ (j = (i : Int) ∧ n > 1)) (hj0 : 0 ≤ j) (hj1 : j < n) :
    nscVisit n i B p =
      let endv := getI p.stop j.toNat
      let s := getI p.start i
      if getI p.len i + 1 + getI p.len j.toNat < (n : Int) - 1 then
        if (pruneD (getDom B endv.toNat) s).1 > (pruneD (getDom B endv.toNat) s).2 then .fail
        else .ok (B.set endv.toNat (pruneD (getDom B endv.toNat) s)) (mergeP p i j) (decide (endv < (i : Int)))
      else .ok B (mergeP p i j) false := by
  obtain ⟨ls, lt, ll, rs, rt⟩ := hp
  have hjn : j.toNat < n := by omega
  have he := rt _ hjn
  have hs := rs i hi
  simp only [nscVisit, hd1, hd2, hE, hj, and_self, ↓reduceIte]
  rw [rdI_eq hj0 (by omega), rdI_eq hj0 (by omega)]
  simp only []
  rw [wrI_eq _ hs.1 (by simp; omega), wrI_eq _ hj0 (by omega)]
  simp only []
  rw [wrI_eq _ he.1 (by simp; omega)]
  simp only []
  rw [wrI_eq _ hj0 (by simp; omega)]
  simp only []
  rw [wrI_eq _ hs.1 (by simp; omega)]
  simp only []
  rw [wrI_eq _ he.1 (by simp; omega)]
  simp only []
  rw [rdDom_eq he.1 (by omega)]
  rfl

/-! ### the bookkeeping invariant behind termination

  `sp v` / `st v` are the recorded end / start of `v`.  `E = {e | sp e = e}` is the set of
  vertices that can still be linked.  `j1`: the recorded start of an end points back to it;
  `kk`: nobody else points to the recorded start of an end.  Together they show that a vertex
  never comes back into `E`, whatever the (possibly non-injective) instantiated successors are. -/

theorem abs_step (n i jn : Nat) (sp st sp' st' : Nat → Nat) (hi : i < n) (hjn : jn < n) (hE : sp i = i)
    (hsp' : ∀ v, sp' v = if v = st i ∨ v = i then sp jn else sp v)
    (hst' : ∀ v, st' v = if v = sp jn then st i else if v = jn then st i else st v)
    (j1 : ∀ e, e < n → sp e = e → sp (st e) = e)
    (kk : ∀ e v, e < n → v < n → sp e = e → sp v = st e → v = e) :
    (∀ e, e < n → sp' e = e → sp' (st' e) = e) ∧
    (∀ e v, e < n → v < n → sp' e = e → sp' v = st' e → v = e) ∧
    (sp jn ≠ i → sp' i ≠ i) ∧ (∀ v, v < n → sp' v = v → sp v = v) ∧
    (sp jn = i → ∀ v, sp' v = sp v) := by
  have hS : sp (st i) = i := j1 i hi hE
  by_cases hEi : sp jn = i
  · have hsp : ∀ v, sp' v = sp v := by
      intro v; rw [hsp']; split
      · rename_i h; rcases h with h | h
        · rw [hEi, h, hS]
        · rw [hEi, h, hE]
      · rfl
    have hst : ∀ e, sp e = e → st' e = st e := by
      intro e he; rw [hst']; split
      · rename_i h; rw [h, hEi]
      · split
        · rename_i h1 h2; exfalso; apply h1; rw [h2] at he ⊢; exact he.symm
        · rfl
    refine ⟨?_, ?_, fun h => absurd hEi h, fun v _ h => by rw [← hsp v]; exact h, fun _ => hsp⟩
    · intro e he h; rw [hsp] at h; rw [hsp, hst e h]; exact j1 e he h
    · intro e v he hv h h2; rw [hsp] at h h2; rw [hst e h] at h2; exact kk e v he hv h h2
  · have hSE : st i ≠ sp jn := by
      intro h; have := kk i jn hi hjn hE h.symm; apply hEi; rw [this]; exact hE
    have hfix : ∀ v, sp' v = v → v ≠ st i ∧ v ≠ i ∧ sp v = v := by
      intro v h; rw [hsp'] at h; split at h
      · rename_i hc; rcases hc with hc | hc
        · exfalso; apply hSE; rw [← hc]; exact h.symm
        · exfalso; apply hEi; rw [h, hc]
      · rename_i hc; exact ⟨fun h' => hc (Or.inl h'), fun h' => hc (Or.inr h'), h⟩
    refine ⟨?_, ?_, fun _ h => (hfix i h).2.1 rfl, fun v _ h => (hfix v h).2.2, fun h => absurd h hEi⟩
    · intro e he h
      obtain ⟨n1, n2, h0⟩ := hfix e h
      by_cases c1 : e = sp jn
      · have : st' e = st i := by rw [hst', if_pos c1]
        rw [this, hsp', if_pos (Or.inl rfl)]; exact c1.symm
      · by_cases c2 : e = jn
        · exfalso; apply c1; rw [← c2]; exact h0.symm
        · have : st' e = st e := by rw [hst', if_neg c1, if_neg c2]
          rw [this, hsp']
          have hh := j1 e he h0
          split
          · rename_i hc; exfalso; rcases hc with hc | hc
            · rw [hc, hS] at hh; exact n2 hh.symm
            · rw [hc, hE] at hh; exact n2 hh.symm
          · exact hh
    · intro e v he hv h h2
      obtain ⟨n1, n2, h0⟩ := hfix e h
      by_cases c1 : e = sp jn
      · exfalso
        have hst_e : st' e = st i := by rw [hst', if_pos c1]
        rw [hst_e, hsp'] at h2
        split at h2
        · exact hSE h2.symm
        · rename_i hc
          exact hc (Or.inr (kk i v hi hv hE h2))
      · by_cases c2 : e = jn
        · exfalso; apply c1; rw [← c2]; exact h0.symm
        · have hst_e : st' e = st e := by rw [hst', if_neg c1, if_neg c2]
          rw [hst_e, hsp'] at h2
          split at h2
          · exfalso; exact c2 (kk e jn he hjn h0 h2).symm
          · exact kk e v he hv h0 h2

/-- number of fixed points of `sp` below `n` -/
def cnt (sp : Nat → Nat) : Nat → Nat
  | 0 => 0
  | n + 1 => cnt sp n + (if sp n = n then 1 else 0)

theorem cnt_le_self (sp : Nat → Nat) : ∀ n, cnt sp n ≤ n
  | 0 => Nat.le_refl _
  | n + 1 => by have := cnt_le_self sp n; simp only [cnt]; split <;> omega

theorem cnt_le {sp sp' : Nat → Nat} : ∀ n, (∀ v, v < n → sp' v = v → sp v = v) → cnt sp' n ≤ cnt sp n
  | 0, _ => Nat.le_refl _
  | n + 1, h => by
    have := cnt_le n (fun v hv => h v (by omega))
    have := h n (by omega)
    simp only [cnt]
    split <;> split <;> first | omega | (exfalso; simp_all)

theorem cnt_lt {sp sp' : Nat → Nat} {i : Nat} (hi1 : sp i = i) (hi2 : sp' i ≠ i) :
    ∀ n, i < n → (∀ v, v < n → sp' v = v → sp v = v) → cnt sp' n < cnt sp n
  | 0, hi, _ => by omega
  | n + 1, hi, h => by
    have hn := h n (by omega)
    simp only [cnt]
    by_cases e : i = n
    · subst e
      have := cnt_le (sp := sp) (sp' := sp') i (fun v hv => h v (by omega))
      simp [hi1, hi2]; omega
    · have := cnt_lt hi1 hi2 n (by omega) (fun v hv => h v (by omega))
      split <;> split <;> first | omega | (exfalso; simp_all)

/-! ### the invariant on the model state -/

def spOf (p : Paths) (v : Nat) : Nat := (getI p.stop v).toNat
def stOf (p : Paths) (v : Nat) : Nat := (getI p.start v).toNat

theorem mergeP_range {n i : Nat} {p : Paths} {j : Int} (hp : RangeP n p) (hi : i < n)
    (hj0 : 0 ≤ j) (hj1 : j < n) : RangeP n (mergeP p i j) := by
  obtain ⟨ls, lt, ll, rs, rt⟩ := hp
  have he := rt j.toNat (by omega)
  have hs := rs i hi
  refine ⟨by simp [mergeP, ls], by simp [mergeP, lt], by simp [mergeP, ll], fun v hv => ?_, fun v hv => ?_⟩
  · simp only [mergeP, getI_set]
    split
    · exact hs
    · split
      · exact hs
      · exact rs v hv
  · simp only [mergeP, getI_set]
    split
    · exact he
    · split
      · exact he
      · exact rt v hv

theorem spOf_mergeP {n i : Nat} {p : Paths} {j : Int} (hp : RangeP n p) (hi : i < n) (v : Nat) :
    spOf (mergeP p i j) v = if v = stOf p i ∨ v = i then spOf p j.toNat else spOf p v := by
  obtain ⟨ls, lt, ll, rs, rt⟩ := hp
  have hs := rs i hi
  simp only [spOf, stOf, mergeP, getI_set, List.length_set, lt]
  by_cases h1 : (getI p.start i).toNat = v
  · have : (getI p.start i).toNat < n := by omega
    simp [h1.symm, this]
  · by_cases h2 : i = v
    · simp [h2.symm, hi]
    · have h1' : ¬ v = (getI p.start i).toNat := fun h => h1 h.symm
      have h2' : ¬ v = i := fun h => h2 h.symm
      simp [h1, h2, h1', h2']

theorem stOf_mergeP {n i : Nat} {p : Paths} {j : Int} (hp : RangeP n p) (hj0 : 0 ≤ j) (hj1 : j < n) (v : Nat) :
    stOf (mergeP p i j) v =
      if v = spOf p j.toNat then stOf p i else if v = j.toNat then stOf p i else stOf p v := by
  obtain ⟨ls, lt, ll, rs, rt⟩ := hp
  have he := rt j.toNat (by omega)
  simp only [spOf, stOf, mergeP, getI_set, List.length_set, ls]
  by_cases h1 : (getI p.stop j.toNat).toNat = v
  · have : (getI p.stop j.toNat).toNat < n := by omega
    simp [h1.symm, this]
  · by_cases h2 : j.toNat = v
    · have : j.toNat < n := by omega
      simp [h2.symm, this]
    · have h1' : ¬ v = (getI p.stop j.toNat).toNat := fun h => h1 h.symm
      have h2' : ¬ v = j.toNat := fun h => h2 h.symm
      simp [h1, h2, h1', h2']

structure Inv (n : Nat) (B : Box) (p : Paths) : Prop where
  lenB : B.length = n
  within : B.within 0 ((n : Int) - 1)
  rp : RangeP n p
  j1 : ∀ e, e < n → spOf p e = e → spOf p (stOf p e) = e
  kk : ∀ e v, e < n → v < n → spOf p e = e → spOf p v = stOf p e → v = e

theorem getDom_mem {B : Box} {k : Nat} (hk : k < B.length) : getDom B k ∈ B := by
  unfold getDom; simp [List.getD, List.getElem?_eq_getElem hk]

theorem pruneD_bounds (de : Dom) (s lo hi : Int) (h : lo ≤ de.1 ∧ de.2 ≤ hi) (hs : lo ≤ s ∧ s ≤ hi) :
    lo ≤ (pruneD de s).1 ∧ (pruneD de s).2 ≤ hi := by
  unfold pruneD
  simp only []
  split <;> split <;> simp_all <;> omega

theorem within_set {B : Box} {lo hi : Int} {k : Nat} {d : Dom} (hw : B.within lo hi)
    (hd : lo ≤ d.1 ∧ d.2 ≤ hi) : Box.within (B.set k d) lo hi := by
  intro x hx
  rcases List.mem_or_eq_of_mem_set hx with h | h
  · exact hw x h
  · rw [h]; exact hd

/-- what one visit guarantees -/
def StepOk (n : Nat) (p : Paths) : NscStep → Prop
  | .ok B' p' a => Inv n B' p' ∧ cnt (spOf p') n ≤ cnt (spOf p) n ∧ (a = true → cnt (spOf p') n < cnt (spOf p) n)
  | .fail => True
  | .oob => False

theorem visit_ok {n i : Nat} {B : Box} {p : Paths} (h : Inv n B p) (hi : i < n) : StepOk n p (nscVisit n i B p) := by
  by_cases hc : (getDom B i).1 = (getDom B i).2 ∧ getI p.stop i = (i : Int)
  · obtain ⟨hd, hE⟩ := hc
    have hw := h.within _ (getDom_mem (h.lenB ▸ hi))
    have hj0 : 0 ≤ (getDom B i).1 := hw.1
    have hj1 : (getDom B i).1 < n := by omega
    by_cases hj : (getDom B i).1 = (i : Int) ∧ n > 1
    · rw [visit_self rfl hd.symm hE hj]; trivial
    · rw [visit_merge h.lenB h.rp hi rfl hd.symm hE hj hj0 hj1]
      have hjn : (getDom B i).1.toNat < n := by omega
      have hEn : spOf p i = i := by simp [spOf, hE]
      obtain ⟨a1, a2, a3, a4, a5⟩ := abs_step n i (getDom B i).1.toNat (spOf p) (stOf p)
        (spOf (mergeP p i (getDom B i).1)) (stOf (mergeP p i (getDom B i).1)) hi hjn hEn
        (spOf_mergeP h.rp hi) (stOf_mergeP h.rp hj0 hj1) h.j1 h.kk
      have hrp := mergeP_range h.rp hi hj0 hj1
      have hcnt := cnt_le (sp := spOf p) (sp' := spOf (mergeP p i (getDom B i).1)) n a4
      have he := h.rp.rstop _ hjn
      have hs := h.rp.rstart i hi
      simp only []
      split
      · split
        · trivial
        · refine ⟨⟨by simp [h.lenB], ?_, hrp, a1, a2⟩, hcnt, fun ha => ?_⟩
          · apply within_set h.within
            apply pruneD_bounds
            · exact h.within _ (getDom_mem (by rw [h.lenB]; omega))
            · omega
          · have hne : spOf p (getDom B i).1.toNat ≠ i := by
              simp only [decide_eq_true_eq] at ha
              unfold spOf; omega
            exact cnt_lt hEn (a3 hne) n hi a4
      · exact ⟨⟨h.lenB, h.within, hrp, a1, a2⟩, hcnt, fun ha => by cases ha⟩
  · rw [visit_skip hc]
    exact ⟨h, Nat.le_refl _, fun ha => by cases ha⟩

/-- the possible outcomes of one visit, in closed form -/
inductive VisitRes (n i : Nat) (B : Box) (p : Paths) : NscStep → Prop
  | skip (h : ¬ ((getDom B i).1 = (getDom B i).2 ∧ getI p.stop i = (i : Int))) : VisitRes n i B p (.ok B p false)
  | self (hd1 : (getDom B i).1 = (i : Int)) (hd2 : (getDom B i).2 = (i : Int)) (hn : n > 1) : VisitRes n i B p .fail
  | link (j : Int) (hd1 : (getDom B i).1 = j) (hd2 : (getDom B i).2 = j) (hE : getI p.stop i = (i : Int))
      (hj : ¬ (j = (i : Int) ∧ n > 1)) (hj0 : 0 ≤ j) (hj1 : j < n)
      (hL : ¬ getI p.len i + 1 + getI p.len j.toNat < (n : Int) - 1) :
      VisitRes n i B p (.ok B (mergeP p i j) false)
  | pruneFail (j : Int) (hd1 : (getDom B i).1 = j) (hd2 : (getDom B i).2 = j) (hE : getI p.stop i = (i : Int))
      (hj : ¬ (j = (i : Int) ∧ n > 1)) (hj0 : 0 ≤ j) (hj1 : j < n)
      (hL : getI p.len i + 1 + getI p.len j.toNat < (n : Int) - 1)
      (hemp : (pruneD (getDom B (getI p.stop j.toNat).toNat) (getI p.start i)).1 >
              (pruneD (getDom B (getI p.stop j.toNat).toNat) (getI p.start i)).2) :
      VisitRes n i B p .fail
  | prune (j : Int) (hd1 : (getDom B i).1 = j) (hd2 : (getDom B i).2 = j) (hE : getI p.stop i = (i : Int))
      (hj : ¬ (j = (i : Int) ∧ n > 1)) (hj0 : 0 ≤ j) (hj1 : j < n)
      (hL : getI p.len i + 1 + getI p.len j.toNat < (n : Int) - 1)
      (hemp : ¬ (pruneD (getDom B (getI p.stop j.toNat).toNat) (getI p.start i)).1 >
              (pruneD (getDom B (getI p.stop j.toNat).toNat) (getI p.start i)).2) :
      VisitRes n i B p (.ok (B.set (getI p.stop j.toNat).toNat
          (pruneD (getDom B (getI p.stop j.toNat).toNat) (getI p.start i)))
        (mergeP p i j) (decide (getI p.stop j.toNat < (i : Int))))

theorem visit_res {n i : Nat} {B : Box} {p : Paths} (h : Inv n B p) (hi : i < n) :
    VisitRes n i B p (nscVisit n i B p) := by
  by_cases hc : (getDom B i).1 = (getDom B i).2 ∧ getI p.stop i = (i : Int)
  · obtain ⟨hd, hE⟩ := hc
    have hw := h.within _ (getDom_mem (h.lenB ▸ hi))
    have hj0 : 0 ≤ (getDom B i).1 := hw.1
    have hj1 : (getDom B i).1 < n := by omega
    by_cases hj : (getDom B i).1 = (i : Int) ∧ n > 1
    · rw [visit_self rfl hd.symm hE hj]; exact .self hj.1 (by rw [← hd]; exact hj.1) hj.2
    · rw [visit_merge h.lenB h.rp hi rfl hd.symm hE hj hj0 hj1]
      simp only []
      split
      · split
        · rename_i hL hemp; exact .pruneFail _ rfl hd.symm hE hj hj0 hj1 hL hemp
        · rename_i hL hemp; exact .prune _ rfl hd.symm hE hj hj0 hj1 hL hemp
      · rename_i hL; exact .link _ rfl hd.symm hE hj hj0 hj1 hL
  · rw [visit_skip hc]; exact .skip hc

/-- what a sweep guarantees -/
def SweepOk (n : Nat) (p : Paths) (again : Bool) : NscStep → Prop
  | .ok B' p' a => Inv n B' p' ∧ cnt (spOf p') n ≤ cnt (spOf p) n ∧
      (a = true → again = true ∨ cnt (spOf p') n < cnt (spOf p) n)
  | .fail => True
  | .oob => False

theorem sweep_ok {n : Nat} : ∀ (k i : Nat) (B : Box) (p : Paths) (again : Bool), Inv n B p → i + k ≤ n →
    SweepOk n p again (nscSweep n k i B p again)
  | 0, _, _, _, _, h, _ => ⟨h, Nat.le_refl _, fun ha => Or.inl ha⟩
  | k + 1, i, B, p, again, h, hik => by
    have hv := visit_ok h (by omega : i < n)
    simp only [nscSweep]
    cases hr : nscVisit n i B p with
    | ok B' p' a =>
      rw [hr] at hv
      obtain ⟨hI, hle, hlt⟩ := hv
      have := sweep_ok k (i + 1) B' p' (again || a) hI (by omega)
      simp only []
      cases hr2 : nscSweep n k (i + 1) B' p' (again || a) with
      | ok B'' p'' a' =>
        rw [hr2] at this
        obtain ⟨hI', hle', hlt'⟩ := this
        refine ⟨hI', by omega, fun ha' => ?_⟩
        rcases hlt' ha' with h1 | h1
        · simp only [Bool.or_eq_true] at h1
          rcases h1 with h1 | h1
          · exact Or.inl h1
          · right; have := hlt h1; omega
        · right; omega
      | fail => trivial
      | oob => rw [hr2] at this; exact this
    | fail => trivial
    | oob => rw [hr] at hv; exact hv

theorem loop_ok {n : Nat} : ∀ (fuel : Nat) (B : Box) (p : Paths), Inv n B p → cnt (spOf p) n < fuel →
    ∃ r, nscLoop n fuel B p = .ok r
  | 0, _, _, _, h => by omega
  | fuel + 1, B, p, hI, hf => by
    have hs := sweep_ok n 0 B p false hI (by omega)
    simp only [nscLoop]
    cases hr : nscSweep n n 0 B p false with
    | ok B' p' a =>
      rw [hr] at hs
      obtain ⟨hI', hle, hlt⟩ := hs
      cases a with
      | true =>
        simp only []
        rcases hlt rfl with h | h
        · cases h
        · exact loop_ok fuel B' p' hI' (by omega)
      | false => exact ⟨_, rfl⟩
    | fail => exact ⟨_, rfl⟩
    | oob => rw [hr] at hs; exact hs.elim

/-! ### the result is a non-empty sub-box -/

theorem pruneD_le (de : Dom) (s : Int) : de.1 ≤ (pruneD de s).1 ∧ (pruneD de s).2 ≤ de.2 := by
  unfold pruneD
  simp only []
  split <;> split <;> simp_all <;> omega

theorem le_of_get : ∀ {B' B : Box}, B'.length = B.length →
    (∀ k, k < B.length → (getDom B k).1 ≤ (getDom B' k).1 ∧ (getDom B' k).2 ≤ (getDom B k).2) → Box.le B' B
  | [], [], _, _ => trivial
  | d' :: ds', d :: ds, hl, h => by
    refine ⟨?_, le_of_get (B' := ds') (B := ds) (by simpa using hl) (fun k hk => ?_)⟩
    · have := h 0 (by simp); simpa [getDom] using this
    · have := h (k + 1) (by simpa using hk); simpa [getDom] using this
  | [], _ :: _, hl, _ => by simp at hl
  | _ :: _, [], hl, _ => by simp at hl

theorem le_set {x : Box} {q : Nat} {d : Dom} (h1 : (getDom x q).1 ≤ d.1) (h2 : d.2 ≤ (getDom x q).2) :
    Box.le (x.set q d) x := by
  apply le_of_get (by simp)
  intro k hk
  rw [getDom_set]
  split
  · rename_i h; obtain ⟨rfl, _⟩ := h; exact ⟨h1, h2⟩
  · exact ⟨Int.le_refl _, Int.le_refl _⟩

theorem nonempty_set {x : Box} {q : Nat} {d : Dom} (hx : x.Nonempty) (hd : d.1 ≤ d.2) :
    Box.Nonempty (x.set q d) := by
  intro y hy
  rcases List.mem_or_eq_of_mem_set hy with h | h
  · exact hx y h
  · rw [h]; exact hd

/-- sub-box and non-emptiness, per step -/
def StepLe (B : Box) : NscStep → Prop
  | .ok B' _ _ => Box.le B' B ∧ B'.Nonempty
  | .fail => True
  | .oob => True

theorem visit_le {n i : Nat} {B : Box} {p : Paths} (h : Inv n B p) (hne : B.Nonempty) (hi : i < n) :
    StepLe B (nscVisit n i B p) := by
  have := visit_res h hi
  generalize nscVisit n i B p = r at this
  cases this with
  | skip _ => exact ⟨Box.le_refl _, hne⟩
  | self => trivial
  | link => exact ⟨Box.le_refl _, hne⟩
  | pruneFail => trivial
  | prune j hd1 hd2 hE hj hj0 hj1 hL hemp =>
    have := pruneD_le (getDom B (getI p.stop j.toNat).toNat) (getI p.start i)
    exact ⟨le_set this.1 this.2, nonempty_set hne (by omega)⟩

theorem sweep_le {n : Nat} : ∀ (k i : Nat) (B : Box) (p : Paths) (again : Bool), Inv n B p → B.Nonempty → i + k ≤ n →
    StepLe B (nscSweep n k i B p again)
  | 0, _, B, _, _, _, hne, _ => ⟨Box.le_refl _, hne⟩
  | k + 1, i, B, p, again, h, hne, hik => by
    have hv := visit_ok h (by omega : i < n)
    have hl := visit_le h hne (by omega : i < n)
    simp only [nscSweep]
    cases hr : nscVisit n i B p with
    | ok B' p' a =>
      rw [hr] at hv hl
      have := sweep_le k (i + 1) B' p' (again || a) hv.1 hl.2 (by omega)
      simp only []
      cases hr2 : nscSweep n k (i + 1) B' p' (again || a) with
      | ok B'' p'' a' =>
        rw [hr2] at this
        exact ⟨Box.le_trans this.1 hl.1, this.2⟩
      | fail => trivial
      | oob => trivial
    | fail => trivial
    | oob => trivial

theorem loop_le {n : Nat} : ∀ (fuel : Nat) (B : Box) (p : Paths) (st : Status) (B' : Box), Inv n B p → B.Nonempty →
    nscLoop n fuel B p = .ok (st, B') → st ≠ .inc → Box.le B' B ∧ B'.Nonempty
  | 0, _, _, _, _, _, _, h, _ => by simp [nscLoop] at h
  | fuel + 1, B, p, st, B', hI, hne, h, hst => by
    have hs := sweep_ok n 0 B p false hI (by omega)
    have hl := sweep_le n 0 B p false hI hne (by omega)
    simp only [nscLoop] at h
    cases hr : nscSweep n n 0 B p false with
    | ok B1 p1 a =>
      rw [hr] at hs hl h
      cases a with
      | true =>
        simp only [] at h
        have := loop_le fuel B1 p1 st B' hs.1 hl.2 h hst
        exact ⟨Box.le_trans this.1 hl.1, this.2⟩
      | false =>
        simp only [] at h
        injection h with h; injection h with h1 h2
        subst h2; exact hl
    | fail =>
      rw [hr] at h; simp only [] at h
      injection h with h; injection h with h1 h2
      exact absurd h1.symm hst
    | oob => rw [hr] at h; simp only [] at h; cases h

/-! ### soundness: the bookkeeping is accurate for every solution

  A solution `t` (no short cycle, all entries vertices) is a single `n`-cycle, hence injective.
  For such a `t` lying in the current box, with `f = fOf t`:
  `A` an end knows a path from its recorded start, `Bv` the successor of an end knows a path to
  its recorded end, `C` that end is an end, `D` and points back; `N` lengths are non-negative. -/

open Scc

theorem orb_path {f : Nat → Nat} {S i E a b : Nat} (h1 : orb f S a = i) (h2 : orb f (f i) b = E) :
    orb f S (a + 1 + b) = E := by
  rw [orb_add, show orb f S (a + 1) = f (orb f S a) from rfl, h1, h2]

/-- semantic bookkeeping invariants w.r.t. a successor function `f`; link case `E ≠ i` -/
theorem sem_link (n i j S E : Nat) (L : Int) (f sp st sp' st' : Nat → Nat) (ln ln' : Nat → Int)
    (hi : i < n) (hjn : j < n)
    (hinj : ∀ u w, u < n → w < n → f u = f w → u = w)
    (hE : sp i = i) (hj : f i = j) (hS : st i = S) (hEd : sp j = E) (hL : ln i + 1 + ln j = L)
    (hEi : E ≠ i)
    (hsp' : ∀ v, sp' v = if v = S ∨ v = i then E else sp v)
    (hst' : ∀ v, st' v = if v = E then S else if v = j then S else st v)
    (hln' : ∀ v, ln' v = if v = E ∨ v = S ∨ v = j ∨ v = i then L else ln v)
    (j1 : ∀ e, e < n → sp e = e → sp (st e) = e)
    (kk : ∀ e v, e < n → v < n → sp e = e → sp v = st e → v = e)
    (A : ∀ e, e < n → sp e = e → ∃ a : Nat, (a : Int) ≤ ln e ∧ orb f (st e) a = e)
    (Bv : ∀ u, u < n → sp u = u → ∃ b : Nat, (b : Int) ≤ ln (f u) ∧ orb f (f u) b = sp (f u))
    (C : ∀ u, u < n → sp u = u → sp (sp (f u)) = sp (f u))
    (D : ∀ u, u < n → sp u = u → st (sp (f u)) = f u)
    (N : ∀ v, 0 ≤ ln v) :
    (∀ e, e < n → sp' e = e → ∃ a : Nat, (a : Int) ≤ ln' e ∧ orb f (st' e) a = e) ∧
    (∀ u, u < n → sp' u = u → ∃ b : Nat, (b : Int) ≤ ln' (f u) ∧ orb f (f u) b = sp' (f u)) ∧
    (∀ u, u < n → sp' u = u → sp' (sp' (f u)) = sp' (f u)) ∧
    (∀ u, u < n → sp' u = u → st' (sp' (f u)) = f u) ∧
    (∀ v, 0 ≤ ln' v) ∧
    (∃ c : Nat, (c : Int) ≤ L ∧ orb f S c = E) := by
  have spS : sp S = i := by rw [← hS]; exact j1 i hi hE
  have hSE : S ≠ E := by
    intro h
    have := kk i j hi hjn hE (by rw [hEd, hS, h])
    apply hEi; rw [← hEd, this, hE]
  have hfix : ∀ v, sp' v = v → v ≠ S ∧ v ≠ i ∧ sp v = v := by
    intro v h; rw [hsp'] at h; split at h
    · rename_i hc; rcases hc with hc | hc
      · exfalso; apply hSE; rw [← hc]; exact h.symm
      · exfalso; apply hEi; rw [h, hc]
    · rename_i hc; exact ⟨fun h' => hc (Or.inl h'), fun h' => hc (Or.inr h'), h⟩
  have EE : sp E = E := by have := C i hi hE; rw [hj, hEd] at this; exact this
  have stE : st E = j := by have := D i hi hE; rw [hj, hEd] at this; exact this
  obtain ⟨ai, hai, pai⟩ := A i hi hE
  obtain ⟨bj, hbj, pbj⟩ := Bv i hi hE
  rw [hS] at pai; rw [hj, hEd] at pbj; rw [hj] at hbj
  have hNi := N i; have hNj := N j
  have pathSE : ∃ c : Nat, (c : Int) ≤ L ∧ orb f S c = E :=
    ⟨ai + 1 + bj, by omega, orb_path pai (by rw [hj]; exact pbj)⟩
  have sp'E : sp' E = E := by
    rw [hsp', if_neg (by intro h; rcases h with h | h; exact hSE h.symm; exact hEi h)]; exact EE
  refine ⟨?_, ?_, ?_, ?_, ?_, pathSE⟩
  · -- A'
    intro e he h
    obtain ⟨n1, n2, h0⟩ := hfix e h
    by_cases c1 : e = E
    · obtain ⟨c, hc, pc⟩ := pathSE
      refine ⟨c, ?_, ?_⟩
      · rw [hln', if_pos (Or.inl c1)]; exact hc
      · rw [hst', if_pos c1, c1]; exact pc
    · by_cases c2 : e = j
      · exfalso; apply c1; rw [← hEd, ← c2]; exact h0.symm
      · obtain ⟨a, ha, pa⟩ := A e he h0
        refine ⟨a, ?_, ?_⟩
        · rw [hln', if_neg (by intro h; rcases h with h | h | h | h <;> contradiction)]; exact ha
        · rw [hst', if_neg c1, if_neg c2]; exact pa
  · -- B'
    intro u hu h
    obtain ⟨n1, n2, h0⟩ := hfix u h
    have hvj : f u ≠ j := by intro h'; exact n2 (hinj u i hu hi (by rw [h', hj]))
    obtain ⟨b, hb, pb⟩ := Bv u hu h0
    by_cases c1 : f u = i
    · refine ⟨1 + bj, ?_, ?_⟩
      · rw [hln', if_pos (Or.inr (Or.inr (Or.inr c1)))]; omega
      · rw [hsp', if_pos (Or.inr c1), c1, orb_add]
        show orb f (f i) bj = E
        rw [hj]; exact pbj
    · by_cases c2 : f u = S
      · obtain ⟨c, hc, pc⟩ := pathSE
        refine ⟨c, ?_, ?_⟩
        · rw [hln', if_pos (Or.inr (Or.inl c2))]; exact hc
        · rw [hsp', if_pos (Or.inl c2), c2]; exact pc
      · have hsp : sp' (f u) = sp (f u) := by
          rw [hsp', if_neg (by intro h; rcases h with h | h <;> contradiction)]
        by_cases c3 : f u = E
        · refine ⟨0, ?_, ?_⟩
          · rw [hln', if_pos (Or.inl c3)]; omega
          · rw [hsp, c3, EE]; rfl
        · refine ⟨b, ?_, ?_⟩
          · rw [hln', if_neg (by intro h; rcases h with h | h | h | h <;> contradiction)]; exact hb
          · rw [hsp]; exact pb
  · -- C'
    intro u hu h
    obtain ⟨n1, n2, h0⟩ := hfix u h
    by_cases c1 : f u = S ∨ f u = i
    · rw [hsp' (f u), if_pos c1]; exact sp'E
    · rw [hsp' (f u), if_neg c1]
      have hw := C u hu h0
      rw [hsp', if_neg ?_]; exact hw
      intro hc
      have hwi : sp (f u) = i := by
        rcases hc with hc | hc
        · rw [hc] at hw; rw [hc, ← hw]; exact spS
        · exact hc
      have := D u hu h0
      rw [hwi, hS] at this
      exact c1 (Or.inl this.symm)
  · -- D'
    intro u hu h
    obtain ⟨n1, n2, h0⟩ := hfix u h
    have hvj : f u ≠ j := by intro h'; exact n2 (hinj u i hu hi (by rw [h', hj]))
    by_cases c1 : f u = S ∨ f u = i
    · rw [hsp' (f u), if_pos c1, hst', if_pos rfl]
      rcases c1 with c1 | c1
      · exact c1.symm
      · have := D u hu h0
        rw [c1, hE, hS] at this
        rw [c1]; exact this
    · rw [hsp' (f u), if_neg c1]
      have hd := D u hu h0
      rw [hst']
      split
      · rename_i hc
        exfalso; rw [hc, stE] at hd; exact hvj hd.symm
      · split
        · rename_i hc1 hc2
          exfalso
          have := C u hu h0
          rw [hc2, hEd] at this
          exact hc1 (by rw [hc2]; exact this.symm)
        · exact hd
  · intro v; rw [hln']; split
    · omega
    · exact N v

/-- close case `E = i` -/
theorem sem_close (n i j S : Nat) (L : Int) (f sp st sp' st' : Nat → Nat) (ln ln' : Nat → Int)
    (hi : i < n)
    (hE : sp i = i) (hj : f i = j) (hS : st i = S) (hEd : sp j = i) (hL : ln i + 1 + ln j = L)
    (hsp' : ∀ v, sp' v = sp v)
    (hst' : ∀ v, st' v = if v = i then S else if v = j then S else st v)
    (hln' : ∀ v, ln' v = if v = i ∨ v = S ∨ v = j ∨ v = i then L else ln v)
    (j1 : ∀ e, e < n → sp e = e → sp (st e) = e)
    (A : ∀ e, e < n → sp e = e → ∃ a : Nat, (a : Int) ≤ ln e ∧ orb f (st e) a = e)
    (Bv : ∀ u, u < n → sp u = u → ∃ b : Nat, (b : Int) ≤ ln (f u) ∧ orb f (f u) b = sp (f u))
    (C : ∀ u, u < n → sp u = u → sp (sp (f u)) = sp (f u))
    (D : ∀ u, u < n → sp u = u → st (sp (f u)) = f u)
    (N : ∀ v, 0 ≤ ln v) :
    (∀ e, e < n → sp' e = e → ∃ a : Nat, (a : Int) ≤ ln' e ∧ orb f (st' e) a = e) ∧
    (∀ u, u < n → sp' u = u → ∃ b : Nat, (b : Int) ≤ ln' (f u) ∧ orb f (f u) b = sp' (f u)) ∧
    (∀ u, u < n → sp' u = u → sp' (sp' (f u)) = sp' (f u)) ∧
    (∀ u, u < n → sp' u = u → st' (sp' (f u)) = f u) ∧
    (∀ v, 0 ≤ ln' v) ∧
    (∃ c : Nat, (c : Int) ≤ L ∧ orb f S c = i) := by
  have spS : sp S = i := by rw [← hS]; exact j1 i hi hE
  obtain ⟨ai, hai, pai⟩ := A i hi hE
  obtain ⟨bj, hbj, pbj⟩ := Bv i hi hE
  rw [hS] at pai; rw [hj, hEd] at pbj; rw [hj] at hbj
  have hNi := N i; have hNj := N j
  have pathSE : ∃ c : Nat, (c : Int) ≤ L ∧ orb f S c = i :=
    ⟨ai + 1 + bj, by omega, orb_path pai (by rw [hj]; exact pbj)⟩
  refine ⟨?_, ?_, ?_, ?_, ?_, pathSE⟩
  · intro e he h
    rw [hsp'] at h
    by_cases c1 : e = i
    · refine ⟨ai, ?_, ?_⟩
      · rw [hln', if_pos (Or.inl c1)]; omega
      · rw [hst', if_pos c1, c1]; exact pai
    · by_cases c2 : e = j
      · exfalso; apply c1; rw [c2] at h ⊢; rw [← h]; exact hEd.symm ▸ rfl
      · by_cases c3 : e = S
        · exfalso; apply c1; rw [c3] at h ⊢; rw [← h]; exact spS
        · obtain ⟨a, ha, pa⟩ := A e he h
          refine ⟨a, ?_, ?_⟩
          · rw [hln', if_neg (by intro h; rcases h with h | h | h | h <;> contradiction)]; exact ha
          · rw [hst', if_neg c1, if_neg c2]; exact pa
  · intro u hu h
    rw [hsp'] at h
    rw [hsp']
    obtain ⟨b, hb, pb⟩ := Bv u hu h
    by_cases c3 : f u = S
    · refine ⟨ai, ?_, ?_⟩
      · rw [hln', if_pos (Or.inr (Or.inl c3))]; omega
      · rw [c3, spS]; exact pai
    · by_cases c1 : f u = i
      · refine ⟨b, ?_, pb⟩
        rw [hln', if_pos (Or.inl c1)]; rw [c1] at hb; omega
      · by_cases c2 : f u = j
        · refine ⟨b, ?_, pb⟩
          rw [hln', if_pos (Or.inr (Or.inr (Or.inl c2)))]; rw [c2] at hb; omega
        · refine ⟨b, ?_, pb⟩
          rw [hln', if_neg (by intro h; rcases h with h | h | h | h <;> contradiction)]; exact hb
  · intro u hu h
    rw [hsp'] at h
    rw [hsp', hsp']; exact C u hu h
  · intro u hu h
    rw [hsp'] at h
    rw [hsp']
    have hd := D u hu h
    rw [hst']
    split
    · rename_i hc; rw [hc, hS] at hd; exact hd
    · split
      · rename_i hc1 hc2
        exfalso
        have := C u hu h
        rw [hc2, hEd] at this
        exact hc1 (by rw [hc2]; exact this.symm)
      · exact hd
  · intro v; rw [hln']; split
    · omega
    · exact N v


theorem inj_of_nsc {f : Nat → Nat} {n : Nat} (hf : ∀ i, f i < n)
    (hnsc : ∀ v, v < n → ∀ k, 0 < k → k < n → orb f v k ≠ v) :
    ∀ u w, u < n → w < n → f u = f w → u = w := by
  have cyc : ∀ v, v < n → orb f v n = v := by
    intro v hv
    obtain ⟨a, b, hab, hbn, e⟩ := collision (orb f v) n (orb_lt hf hv)
    have hw : orb f (orb f v a) (b - a) = orb f v a := by
      rw [← orb_add, show a + (b - a) = b by omega]; exact e.symm
    by_cases hk : b - a < n
    · exact absurd hw (hnsc _ (orb_lt hf hv a) (b - a) (by omega) hk)
    · have : a = 0 ∧ b = n := by omega
      obtain ⟨rfl, rfl⟩ := this
      exact e.symm
  intro u w hu hw h
  have h1 := cyc u hu; have h2 := cyc w hw
  obtain ⟨m, rfl⟩ : ∃ m, n = m + 1 := ⟨n - 1, by omega⟩
  rw [← orb_shift] at h1 h2
  rw [h] at h1
  rw [← h1, h2]

def lnOf (p : Paths) (v : Nat) : Int := getI p.len v

theorem lnOf_mergeP {n i : Nat} {p : Paths} {j : Int} (hp : RangeP n p) (hi : i < n) (hj0 : 0 ≤ j) (hj1 : j < n)
    (v : Nat) :
    lnOf (mergeP p i j) v =
      if v = spOf p j.toNat ∨ v = stOf p i ∨ v = j.toNat ∨ v = i then lnOf p i + 1 + lnOf p j.toNat
      else lnOf p v := by
  obtain ⟨ls, lt, ll, rs, rt⟩ := hp
  have he := rt j.toNat (by omega)
  have hs := rs i hi
  have h1 : (getI p.stop j.toNat).toNat < n := by omega
  have h2 : (getI p.start i).toNat < n := by omega
  have h3 : j.toNat < n := by omega
  simp only [lnOf, spOf, stOf, mergeP, getI_set, List.length_set, ll, h1, h2, h3, hi, and_true]
  by_cases c1 : v = (getI p.stop j.toNat).toNat
  · simp [c1]
  · by_cases c2 : v = (getI p.start i).toNat
    · simp [c2]
    · by_cases c3 : v = j.toNat
      · simp [c3]
      · by_cases c4 : v = i
        · simp [c4]
        · have c1' : ¬ (getI p.stop j.toNat).toNat = v := fun h => c1 h.symm
          have c2' : ¬ (getI p.start i).toNat = v := fun h => c2 h.symm
          have c3' : ¬ j.toNat = v := fun h => c3 h.symm
          have c4' : ¬ i = v := fun h => c4 h.symm
          simp [c1, c2, c3, c4, c1', c2', c3', c4']

structure Sem (n : Nat) (f : Nat → Nat) (p : Paths) : Prop where
  A : ∀ e, e < n → spOf p e = e → ∃ a : Nat, (a : Int) ≤ lnOf p e ∧ orb f (stOf p e) a = e
  Bv : ∀ u, u < n → spOf p u = u → ∃ b : Nat, (b : Int) ≤ lnOf p (f u) ∧ orb f (f u) b = spOf p (f u)
  C : ∀ u, u < n → spOf p u = u → spOf p (spOf p (f u)) = spOf p (f u)
  D : ∀ u, u < n → spOf p u = u → stOf p (spOf p (f u)) = f u
  N : ∀ v, 0 ≤ lnOf p v

/-- linking `i → j` keeps the bookkeeping accurate and yields a real path start → end -/
theorem merge_sem {n i : Nat} {B : Box} {p : Paths} {f : Nat → Nat} {j : Int}
    (h : Inv n B p) (hs : Sem n f p) (hi : i < n)
    (hinj : ∀ u w, u < n → w < n → f u = f w → u = w)
    (hE : getI p.stop i = (i : Int)) (hj0 : 0 ≤ j) (hj1 : j < n) (hfi : f i = j.toNat) :
    Sem n f (mergeP p i j) ∧
    ∃ c : Nat, (c : Int) ≤ getI p.len i + 1 + getI p.len j.toNat ∧ orb f (stOf p i) c = spOf p j.toNat := by
  have hjn : j.toNat < n := by omega
  have hEn : spOf p i = i := by simp [spOf, hE]
  by_cases hEi : spOf p j.toNat = i
  · obtain ⟨_, _, _, _, a5⟩ := abs_step n i j.toNat (spOf p) (stOf p)
      (spOf (mergeP p i j)) (stOf (mergeP p i j)) hi hjn hEn
      (spOf_mergeP h.rp hi) (stOf_mergeP h.rp hj0 hj1) h.j1 h.kk
    obtain ⟨a, b, c, d, e, pth⟩ := sem_close n i j.toNat (stOf p i) (lnOf p i + 1 + lnOf p j.toNat) f
      (spOf p) (stOf p) (spOf (mergeP p i j)) (stOf (mergeP p i j)) (lnOf p) (lnOf (mergeP p i j))
      hi hEn hfi rfl hEi rfl (a5 hEi)
      (fun v => by rw [stOf_mergeP h.rp hj0 hj1, hEi])
      (fun v => by rw [lnOf_mergeP h.rp hi hj0 hj1, hEi])
      h.j1 hs.A hs.Bv hs.C hs.D hs.N
    exact ⟨⟨a, b, c, d, e⟩, by rw [hEi]; exact pth⟩
  · obtain ⟨a, b, c, d, e, pth⟩ := sem_link n i j.toNat (stOf p i) (spOf p j.toNat) (lnOf p i + 1 + lnOf p j.toNat) f
      (spOf p) (stOf p) (spOf (mergeP p i j)) (stOf (mergeP p i j)) (lnOf p) (lnOf (mergeP p i j))
      hi hjn hinj hEn hfi rfl rfl rfl hEi
      (spOf_mergeP h.rp hi) (stOf_mergeP h.rp hj0 hj1) (lnOf_mergeP h.rp hi hj0 hj1)
      h.j1 h.kk hs.A hs.Bv hs.C hs.D hs.N
    exact ⟨⟨a, b, c, d, e⟩, pth⟩

theorem getI_range (n v : Nat) (hv : v < n) : getI ((List.range n).map Int.ofNat) v = (v : Int) := by
  simp [getI, List.getD, hv]

theorem inv_init {B : Box} (hw : B.within 0 ((B.length : Int) - 1)) : Inv B.length B (Paths.init B.length) := by
  have hsp : ∀ v, v < B.length → spOf (Paths.init B.length) v = v := by
    intro v hv; simp [spOf, Paths.init, getI_range _ _ hv]
  have hst : ∀ v, v < B.length → stOf (Paths.init B.length) v = v := by
    intro v hv; simp [stOf, Paths.init, getI_range _ _ hv]
  refine ⟨rfl, hw, ⟨by simp [Paths.init], by simp [Paths.init], by simp [Paths.init], fun v hv => ?_, fun v hv => ?_⟩,
    fun e he h => ?_, fun e v he hv h h2 => ?_⟩
  · simp only [Paths.init, getI_range _ _ hv]; omega
  · simp only [Paths.init, getI_range _ _ hv]; omega
  · rw [hst e he, hsp e he]
  · rw [hst e he, hsp v hv] at h2; exact h2

/-- the facts about a solution `t` used by the soundness argument -/
structure Sol (n : Nat) (t : List Int) : Prop where
  len : t.length = n
  rng : InRange t
  nsc : ∀ v, v < n → ∀ k, 0 < k → k < n → orb (fOf t) v k ≠ v

theorem Sol.f_lt {n : Nat} {t : List Int} (h : Sol n t) (hn : 0 < n) (i : Nat) : fOf t i < n := by
  have := fOf_lt h.rng (by rw [h.len]; exact hn) i
  rw [h.len] at this; exact this

theorem Sol.inj {n : Nat} {t : List Int} (h : Sol n t) (hn : 0 < n) :
    ∀ u w, u < n → w < n → fOf t u = fOf t w → u = w :=
  inj_of_nsc (h.f_lt hn) h.nsc

theorem sol_of_nsc {t : List Int} {B : Box} (ht : inBox t B) (hw : B.within 0 ((B.length : Int) - 1))
    (hnsc : NoShortCycle t) : Sol B.length t := by
  have hr := inRange_of_inBox ht hw
  have hl := inBox_length ht
  refine ⟨hl, hr, fun v hv k hk0 hkn => ?_⟩
  have := hnsc v (by omega) k hk0 (by omega)
  rw [iterSucc_orb hr k v (by omega)] at this
  intro h; apply this; rw [h]

theorem pruneD_keep (de : Dom) (s x : Int) (h : de.1 ≤ x ∧ x ≤ de.2) (hx : x ≠ s) :
    (pruneD de s).1 ≤ x ∧ x ≤ (pruneD de s).2 := by
  obtain ⟨a, b⟩ := de
  simp only [pruneD]
  simp only [] at h
  by_cases c1 : a = s <;> by_cases c2 : b = s <;> simp only [c1, c2, ↓reduceIte] <;> omega

theorem inBox_of_get : ∀ {t : List Int} {B : Box}, t.length = B.length →
    (∀ k, k < B.length → (getDom B k).1 ≤ getI t k ∧ getI t k ≤ (getDom B k).2) → inBox t B
  | [], [], _, _ => trivial
  | x :: xs, d :: ds, hl, h => by
    refine ⟨?_, inBox_of_get (t := xs) (B := ds) (by simpa using hl) (fun k hk => ?_)⟩
    · have := h 0 (by simp); simpa [getDom, getI, inDom] using this
    · have := h (k + 1) (by simpa using hk); simpa [getDom, getI] using this
  | [], _ :: _, hl, _ => by simp at hl
  | _ :: _, [], hl, _ => by simp at hl

theorem inBox_set {xs : List Int} {x : Box} {q : Nat} {d : Dom} (h : inBox xs x)
    (hd : d.1 ≤ getI xs q ∧ getI xs q ≤ d.2) : inBox xs (x.set q d) := by
  apply inBox_of_get (by simpa using inBox_length h)
  intro k hk
  rw [getDom_set]
  split
  · rename_i h'; obtain ⟨rfl, _⟩ := h'; exact hd
  · exact inBox_get k h (by simpa using hk)

/-- per visit: a solution of the box stays in the box, and the visit does not fail -/
def StepSem (n : Nat) (t : List Int) : NscStep → Prop
  | .ok B' p' _ => Sem n (fOf t) p' ∧ inBox t B'
  | .fail => False
  | .oob => True

theorem visit_sem {n i : Nat} {B : Box} {p : Paths} {t : List Int} (h : Inv n B p) (hs : Sem n (fOf t) p)
    (ht : inBox t B) (hsol : Sol n t) (hi : i < n) : StepSem n t (nscVisit n i B p) := by
  have hres := visit_res h hi
  have hiB : i < B.length := by rw [h.lenB]; exact hi
  have hti := inBox_get i ht hiB
  have hn : 0 < n := by omega
  -- the value of `t` at a ground position
  have hground : ∀ j : Int, (getDom B i).1 = j → (getDom B i).2 = j → getI t i = j := by
    intro j h1 h2; omega
  -- common part of the three linking outcomes
  have hmerge : ∀ j : Int, (getDom B i).1 = j → (getDom B i).2 = j → getI p.stop i = (i : Int) → 0 ≤ j → j < n →
      Sem n (fOf t) (mergeP p i j) ∧
      (getI p.len i + 1 + getI p.len j.toNat < (n : Int) - 1 →
        getI t (getI p.stop j.toNat).toNat ≠ getI p.start i) := by
    intro j hd1 hd2 hE hj0 hj1
    have hfi : fOf t i = j.toNat := by unfold fOf; rw [hground j hd1 hd2]
    obtain ⟨hsem, c, hc, pc⟩ := merge_sem h hs hi (hsol.inj hn) hE hj0 hj1 hfi
    refine ⟨hsem, fun hL heq => ?_⟩
    have he := h.rp.rstop j.toNat (by omega)
    have hst := h.rp.rstart i hi
    have hEn : spOf p j.toNat < n := by unfold spOf; omega
    have hSn : stOf p i < n := by unfold stOf; omega
    have : fOf t (spOf p j.toNat) = stOf p i := by
      unfold fOf stOf; unfold spOf; rw [heq]
    have hcyc : orb (fOf t) (stOf p i) (c + 1) = stOf p i := by
      show fOf t (orb (fOf t) (stOf p i) c) = stOf p i
      rw [pc, this]
    exact hsol.nsc _ hSn (c + 1) (by omega) (by omega) hcyc
  generalize nscVisit n i B p = r at hres
  cases hres with
  | skip _ => exact ⟨hs, ht⟩
  | self hd1 hd2 hn1 =>
    have hfi : fOf t i = i := by unfold fOf; rw [hground _ hd1 hd2]; simp
    exact hsol.nsc i hi 1 (by omega) hn1 (by show fOf t i = i; exact hfi)
  | link j hd1 hd2 hE hj hj0 hj1 hL => exact ⟨(hmerge j hd1 hd2 hE hj0 hj1).1, ht⟩
  | pruneFail j hd1 hd2 hE hj hj0 hj1 hL hemp =>
    have hne := (hmerge j hd1 hd2 hE hj0 hj1).2 hL
    have he := h.rp.rstop j.toNat (by omega)
    have hin := inBox_get (getI p.stop j.toNat).toNat ht (by rw [h.lenB]; omega)
    have := pruneD_keep _ _ _ hin hne
    omega
  | prune j hd1 hd2 hE hj hj0 hj1 hL hemp =>
    have hne := (hmerge j hd1 hd2 hE hj0 hj1).2 hL
    have he := h.rp.rstop j.toNat (by omega)
    have hin := inBox_get (getI p.stop j.toNat).toNat ht (by rw [h.lenB]; omega)
    exact ⟨(hmerge j hd1 hd2 hE hj0 hj1).1, inBox_set ht (pruneD_keep _ _ _ hin hne)⟩

theorem sweep_sem {n : Nat} {t : List Int} (hsol : Sol n t) : ∀ (k i : Nat) (B : Box) (p : Paths) (again : Bool),
    Inv n B p → Sem n (fOf t) p → inBox t B → i + k ≤ n → StepSem n t (nscSweep n k i B p again)
  | 0, _, _, _, _, _, hs, ht, _ => ⟨hs, ht⟩
  | k + 1, i, B, p, again, h, hs, ht, hik => by
    have hv := visit_ok h (by omega : i < n)
    have hm := visit_sem h hs ht hsol (by omega : i < n)
    simp only [nscSweep]
    cases hr : nscVisit n i B p with
    | ok B' p' a =>
      rw [hr] at hv hm
      exact sweep_sem hsol k (i + 1) B' p' (again || a) hv.1 hm.1 hm.2 (by omega)
    | fail => rw [hr] at hm; exact hm
    | oob => trivial

theorem loop_sem {n : Nat} {t : List Int} (hsol : Sol n t) : ∀ (fuel : Nat) (B : Box) (p : Paths) (st : Status) (B' : Box),
    Inv n B p → Sem n (fOf t) p → inBox t B → nscLoop n fuel B p = .ok (st, B') → st ≠ .inc ∧ inBox t B'
  | 0, _, _, _, _, _, _, _, h => by simp [nscLoop] at h
  | fuel + 1, B, p, st, B', hI, hs, ht, h => by
    have ho := sweep_ok n 0 B p false hI (by omega)
    have hm := sweep_sem hsol n 0 B p false hI hs ht (by omega)
    simp only [nscLoop] at h
    cases hr : nscSweep n n 0 B p false with
    | ok B1 p1 a =>
      rw [hr] at ho hm h
      cases a with
      | true => exact loop_sem hsol fuel B1 p1 st B' ho.1 hm.1 hm.2 h
      | false =>
        simp only [] at h
        injection h with h; injection h with h1 h2
        subst h1; subst h2; exact ⟨by simp, hm.2⟩
    | fail => rw [hr] at hm; exact hm.elim
    | oob => rw [hr] at h; simp only [] at h; cases h

theorem sem_init {n : Nat} {f : Nat → Nat} (hf : ∀ i, f i < n) : Sem n f (Paths.init n) := by
  have hsp : ∀ v, v < n → spOf (Paths.init n) v = v := by
    intro v hv; simp [spOf, Paths.init, getI_range _ _ hv]
  have hst : ∀ v, v < n → stOf (Paths.init n) v = v := by
    intro v hv; simp [stOf, Paths.init, getI_range _ _ hv]
  have hln : ∀ v, lnOf (Paths.init n) v = 0 := by
    intro v; simp only [lnOf, Paths.init, getI]
    by_cases hv : v < n
    · simp [List.getD, hv]
    · simp [List.getD, hv]
  refine ⟨fun e he _ => ⟨0, by rw [hln]; simp, by rw [hst e he]; rfl⟩,
    fun u _ _ => ⟨0, by rw [hln]; simp, by rw [hsp _ (hf u)]; rfl⟩,
    fun u _ _ => by rw [hsp _ (hf u), hsp _ (hf u)],
    fun u _ _ => by rw [hsp _ (hf u), hst _ (hf u)],
    fun v => by rw [hln]; exact Int.le_refl _⟩

/-! ### acceptance of a permutation: exact bookkeeping

  For `GroundOk` the lengths must be exact, not only upper bounds: `Ae`/`Be` the recorded length
  is the number of steps, `Z`/`ZB` no vertex strictly inside a recorded path can still be linked,
  `S0` a path reduced to one vertex has length 0, `F` the recorded start of an end was removed
  from the bounds of its domain whenever the path is shorter than `n - 1`.  When a path is closed
  into a cycle, `F` shows that it has `n - 1` edges, and `Z` that the cycle is a full one. -/

/-- exactness invariants (used for acceptance of permutations), link case -/
theorem ex_link (n i j S E : Nat) (f sp st sp' st' ln ln' : Nat → Nat)
    (hi : i < n) (hjn : j < n)
    (hinj : ∀ u w, u < n → w < n → f u = f w → u = w)
    (hE : sp i = i) (hj : f i = j) (hS : st i = S) (hEd : sp j = E)
    (hEi : E ≠ i)
    (hsp' : ∀ v, sp' v = if v = S ∨ v = i then E else sp v)
    (hst' : ∀ v, st' v = if v = E then S else if v = j then S else st v)
    (hln' : ∀ v, ln' v = if v = E ∨ v = S ∨ v = j ∨ v = i then ln i + 1 + ln j else ln v)
    (j1 : ∀ e, e < n → sp e = e → sp (st e) = e)
    (kk : ∀ e v, e < n → v < n → sp e = e → sp v = st e → v = e)
    (C : ∀ u, u < n → sp u = u → sp (sp (f u)) = sp (f u))
    (D : ∀ u, u < n → sp u = u → st (sp (f u)) = f u)
    (Ae : ∀ e, e < n → sp e = e → orb f (st e) (ln e) = e)
    (Be : ∀ u, u < n → sp u = u → orb f (f u) (ln (f u)) = sp (f u))
    (Z : ∀ e, e < n → sp e = e → ∀ m, m < ln e → sp (orb f (st e) m) ≠ orb f (st e) m)
    (ZB : ∀ u, u < n → sp u = u → ∀ m, m < ln (f u) → sp (orb f (f u) m) ≠ orb f (f u) m)
    (S0 : ∀ e, e < n → sp e = e → st e = e → ln e = 0) :
    (∀ e, e < n → sp' e = e → orb f (st' e) (ln' e) = e) ∧
    (∀ u, u < n → sp' u = u → orb f (f u) (ln' (f u)) = sp' (f u)) ∧
    (∀ e, e < n → sp' e = e → ∀ m, m < ln' e → sp' (orb f (st' e) m) ≠ orb f (st' e) m) ∧
    (∀ u, u < n → sp' u = u → ∀ m, m < ln' (f u) → sp' (orb f (f u) m) ≠ orb f (f u) m) ∧
    (∀ e, e < n → sp' e = e → st' e = e → ln' e = 0) := by
  have spS : sp S = i := by rw [← hS]; exact j1 i hi hE
  have hSE : S ≠ E := by
    intro h
    have := kk i j hi hjn hE (by rw [hEd, hS, h])
    apply hEi; rw [← hEd, this, hE]
  have hfix : ∀ v, sp' v = v → v ≠ S ∧ v ≠ i ∧ sp v = v := by
    intro v h; rw [hsp'] at h; split at h
    · rename_i hc; rcases hc with hc | hc
      · exfalso; apply hSE; rw [← hc]; exact h.symm
      · exfalso; apply hEi; rw [h, hc]
    · rename_i hc; exact ⟨fun h' => hc (Or.inl h'), fun h' => hc (Or.inr h'), h⟩
  have hnot : ∀ x, sp x ≠ x → sp' x ≠ x := fun x hx h => hx (hfix x h).2.2
  have EE : sp E = E := by have := C i hi hE; rw [hj, hEd] at this; exact this
  have stE : st E = j := by have := D i hi hE; rw [hj, hEd] at this; exact this
  have pai : orb f S (ln i) = i := by have := Ae i hi hE; rw [hS] at this; exact this
  have pbj : orb f j (ln j) = E := by have := Be i hi hE; rw [hj, hEd] at this; exact this
  have pathSE : orb f S (ln i + 1 + ln j) = E := orb_path pai (by rw [hj]; exact pbj)
  have pathZ : ∀ m, m < ln i + 1 + ln j → sp' (orb f S m) ≠ orb f S m := by
    intro m hm
    by_cases c1 : m < ln i
    · have := Z i hi hE m c1; rw [hS] at this; exact hnot _ this
    · by_cases c2 : m = ln i
      · rw [c2, pai]; intro h; exact (hfix i h).2.1 rfl
      · have hm' : m = (ln i + 1) + (m - (ln i + 1)) := by omega
        have : orb f S m = orb f j (m - (ln i + 1)) := by
          rw [hm', orb_add, show orb f S (ln i + 1) = f (orb f S (ln i)) from rfl, pai, hj]
          congr 1; omega
        rw [this]
        have := ZB i hi hE (m - (ln i + 1)) (by rw [hj]; omega)
        rw [hj] at this; exact hnot _ this
  -- the vertices whose data is untouched
  have hstay : ∀ v, v ≠ E → v ≠ S → v ≠ j → v ≠ i → ln' v = ln v := by
    intro v h1 h2 h3 h4
    rw [hln', if_neg (by intro h; rcases h with h | h | h | h <;> contradiction)]
  have hlnE : ln' E = ln i + 1 + ln j := by rw [hln', if_pos (Or.inl rfl)]
  have hlnS : ln' S = ln i + 1 + ln j := by rw [hln', if_pos (Or.inr (Or.inl rfl))]
  have hlni : ln' i = ln i + 1 + ln j := by rw [hln', if_pos (Or.inr (Or.inr (Or.inr rfl)))]
  -- an end of the new state other than `E` is untouched
  have hend : ∀ e, sp' e = e → e ≠ E → e ≠ j ∧ st' e = st e ∧ ln' e = ln e := by
    intro e h c1
    obtain ⟨n1, n2, h0⟩ := hfix e h
    have c2 : e ≠ j := by intro c2; apply c1; rw [← hEd, ← c2]; exact h0.symm
    exact ⟨c2, by rw [hst', if_neg c1, if_neg c2], hstay e c1 n1 c2 n2⟩
  -- the successor of an end of the new state
  have hsucc : ∀ u, u < n → sp' u = u → f u ≠ j ∧ f u ≠ E ∧ (f u = i → S = i) := by
    intro u hu h
    obtain ⟨n1, n2, h0⟩ := hfix u h
    have hvj : f u ≠ j := by intro h'; exact n2 (hinj u i hu hi (by rw [h', hj]))
    refine ⟨hvj, ?_, ?_⟩
    · intro hv
      have := D u hu h0
      rw [hv, EE, stE] at this
      exact hvj (by rw [hv]; exact this.symm)
    · intro hv
      have := D u hu h0
      rw [hv, hE, hS] at this; exact this
  refine ⟨?_, ?_, ?_, ?_, ?_⟩
  · intro e he h
    by_cases c1 : e = E
    · rw [c1, hst', if_pos rfl, hlnE]; exact pathSE
    · obtain ⟨_, h1, h2⟩ := hend e h c1
      rw [h1, h2]; exact Ae e he (hfix e h).2.2
  · intro u hu h
    obtain ⟨v1, v2, v3⟩ := hsucc u hu h
    have h0 := (hfix u h).2.2
    by_cases c1 : f u = i
    · have := v3 c1
      rw [c1, hlni, hsp', if_pos (Or.inr rfl)]
      rw [this] at pathSE; exact pathSE
    · by_cases c2 : f u = S
      · rw [c2, hlnS, hsp', if_pos (Or.inl rfl)]; exact pathSE
      · rw [hstay _ v2 c2 v1 c1, hsp', if_neg (by intro h; rcases h with h | h <;> contradiction)]
        exact Be u hu h0
  · intro e he h m hm
    by_cases c1 : e = E
    · rw [c1, hst', if_pos rfl]
      rw [c1, hlnE] at hm
      exact pathZ m hm
    · obtain ⟨_, h1, h2⟩ := hend e h c1
      rw [h1]; rw [h2] at hm
      exact hnot _ (Z e he (hfix e h).2.2 m hm)
  · intro u hu h m hm
    obtain ⟨v1, v2, v3⟩ := hsucc u hu h
    have h0 := (hfix u h).2.2
    by_cases c1 : f u = i
    · have hSi := v3 c1
      rw [c1, hlni] at hm
      rw [c1, ← hSi]; exact pathZ m hm
    · by_cases c2 : f u = S
      · rw [c2, hlnS] at hm
        rw [c2]; exact pathZ m hm
      · rw [hstay _ v2 c2 v1 c1] at hm
        exact hnot _ (ZB u hu h0 m hm)
  · intro e he h hst
    by_cases c1 : e = E
    · exfalso; rw [c1, hst', if_pos rfl] at hst; exact hSE hst
    · obtain ⟨_, h1, h2⟩ := hend e h c1
      rw [h2]; rw [h1] at hst
      exact S0 e he (hfix e h).2.2 hst

/-- if the first return of `i` takes at least `n` steps then `f` is one `n`-cycle -/
theorem full_cycle {f : Nat → Nat} {n i : Nat} (hf : ∀ v, f v < n)
    (hinj : ∀ u w, u < n → w < n → f u = f w → u = w) (hi : i < n)
    (hret : ∀ k, 0 < k → k < n → orb f i k ≠ i) :
    ∀ v, v < n → ∀ k, 0 < k → k < n → orb f v k ≠ v := by
  have hlt : ∀ m, orb f i m < n := orb_lt hf hi
  have cancel : ∀ p k, orb f i (p + k) = orb f i p → orb f i k = i := by
    intro p
    induction p with
    | zero => intro k h; simpa [orb] using h
    | succ p ih =>
      intro k h
      rw [show p + 1 + k = (p + k) + 1 by omega] at h
      exact ih k (hinj _ _ (hlt _) (hlt _) h)
  have surj : ∀ v, v < n → ∃ p, p < n ∧ orb f i p = v := by
    intro v hv
    apply Classical.byContradiction
    intro hno
    have hnd : ((List.range n).map (orb f i)).Nodup := by
      rw [List.nodup_iff_pairwise_ne, List.pairwise_map]
      refine List.Pairwise.imp_of_mem ?_ (List.pairwise_lt_range (n := n))
      intro a b _ hb hab e
      have hb' : b < n := by simpa using hb
      have := cancel a (b - a) (by rw [show a + (b - a) = b by omega]; exact e.symm)
      exact hret (b - a) (by omega) (by omega) this
    have hsub : (List.range n).map (orb f i) ⊆ (List.range n).erase v := by
      intro x hx
      simp only [List.mem_map, List.mem_range] at hx
      obtain ⟨a, ha, rfl⟩ := hx
      have hne : orb f i a ≠ v := fun h => hno ⟨a, ha, h⟩
      exact (List.mem_erase_of_ne hne).mpr (by simpa using hlt a)
    have := hnd.length_le_of_subset hsub
    rw [List.length_erase_of_mem (by simpa using hv)] at this
    simp at this
    omega
  intro v hv k hk0 hkn h
  obtain ⟨p, _, rfl⟩ := surj v hv
  rw [← orb_add] at h
  exact hret k hk0 hkn (cancel p k h)


def lnN (p : Paths) (v : Nat) : Nat := (getI p.len v).toNat

theorem lnN_cast {n : Nat} {f : Nat → Nat} {p : Paths} (hs : Sem n f p) (v : Nat) : ((lnN p v : Nat) : Int) = getI p.len v := by
  have := hs.N v; unfold lnOf at this; unfold lnN; omega

theorem lnN_mergeP {n i : Nat} {p : Paths} {j : Int} {f : Nat → Nat} (hp : RangeP n p) (hs : Sem n f p) (hi : i < n)
    (hj0 : 0 ≤ j) (hj1 : j < n) (v : Nat) :
    lnN (mergeP p i j) v =
      if v = spOf p j.toNat ∨ v = stOf p i ∨ v = j.toNat ∨ v = i then lnN p i + 1 + lnN p j.toNat
      else lnN p v := by
  have h := lnOf_mergeP hp hi hj0 hj1 v
  have h1 := hs.N i; have h2 := hs.N j.toNat
  unfold lnOf at h h1 h2
  unfold lnN
  rw [h]
  split
  · omega
  · rfl

/-- no short cycle, in terms of the orbit function -/
def NSCf (n : Nat) (f : Nat → Nat) : Prop := ∀ v, v < n → ∀ k, 0 < k → k < n → orb f v k ≠ v

structure Ex (n : Nat) (f : Nat → Nat) (B : Box) (p : Paths) : Prop where
  Ae : ∀ e, e < n → spOf p e = e → orb f (stOf p e) (lnN p e) = e
  Be : ∀ u, u < n → spOf p u = u → orb f (f u) (lnN p (f u)) = spOf p (f u)
  Z : ∀ e, e < n → spOf p e = e → ∀ m, m < lnN p e → spOf p (orb f (stOf p e) m) ≠ orb f (stOf p e) m
  ZB : ∀ u, u < n → spOf p u = u → ∀ m, m < lnN p (f u) → spOf p (orb f (f u) m) ≠ orb f (f u) m
  S0 : ∀ e, e < n → spOf p e = e → stOf p e = e → lnN p e = 0
  F : ∀ e, e < n → spOf p e = e → stOf p e ≠ e → (lnN p e : Int) < (n : Int) - 1 →
        (getDom B e).1 ≠ (stOf p e : Int) ∧ (getDom B e).2 ≠ (stOf p e : Int)
  NE : ∃ e, e < n ∧ spOf p e = e

def Good (n : Nat) (f : Nat → Nat) (B : Box) (p : Paths) : Prop := NSCf n f ∨ Ex n f B p

theorem pruneD_ne (de : Dom) (s : Int) : (pruneD de s).1 ≠ s ∧ (pruneD de s).2 ≠ s := by
  obtain ⟨a, b⟩ := de
  simp only [pruneD]
  by_cases c1 : a = s <;> by_cases c2 : b = s <;> simp only [c1, c2, ↓reduceIte] <;> omega

/-- closing a path into a cycle: the cycle is a full one -/
theorem close_nsc {n i : Nat} {B : Box} {p : Paths} {f : Nat → Nat} {j : Int}
    (hs : Sem n f p) (hx : Ex n f B p) (hi : i < n) (hf : ∀ v, f v < n)
    (hinj : ∀ u w, u < n → w < n → f u = f w → u = w)
    (hd1 : (getDom B i).1 = j) (hd2 : (getDom B i).2 = j) (hE : spOf p i = i) (hj0 : 0 ≤ j) (hji : j ≠ (i : Int))
    (hfi : f i = j.toNat) (hcl : spOf p j.toNat = i) : NSCf n f := by
  have hst : stOf p i = j.toNat := by
    have := hs.D i hi hE; rw [hfi, hcl] at this; exact this
  have hne : stOf p i ≠ i := by rw [hst]; omega
  have hlen : ¬ ((lnN p i : Int) < (n : Int) - 1) := by
    intro h
    have := (hx.F i hi hE hne h).1
    rw [hst, hd1] at this
    omega
  have hA := hx.Ae i hi hE
  have hZ := hx.Z i hi hE
  rw [hst] at hA hZ
  apply full_cycle hf hinj hi
  intro k hk0 hkn h
  obtain ⟨m, rfl⟩ : ∃ m, k = m + 1 := ⟨k - 1, by omega⟩
  rw [← orb_shift, hfi] at h
  have := hZ m (by omega)
  rw [h] at this
  exact this hE

/-- a proper link keeps the exact bookkeeping -/
theorem merge_ex {n i : Nat} {B B' : Box} {p : Paths} {f : Nat → Nat} {j : Int}
    (h : Inv n B p) (hs : Sem n f p) (hx : Ex n f B p) (hi : i < n)
    (hinj : ∀ u w, u < n → w < n → f u = f w → u = w)
    (hE : spOf p i = i) (hj0 : 0 ≤ j) (hj1 : j < n) (hfi : f i = j.toNat) (hcl : spOf p j.toNat ≠ i)
    (hB' : ∀ v, v ≠ spOf p j.toNat → getDom B' v = getDom B v)
    (hF : ((lnN p i + 1 + lnN p j.toNat : Nat) : Int) < (n : Int) - 1 →
      (getDom B' (spOf p j.toNat)).1 ≠ (stOf p i : Int) ∧ (getDom B' (spOf p j.toNat)).2 ≠ (stOf p i : Int)) :
    Ex n f B' (mergeP p i j) := by
  have hjn : j.toNat < n := by omega
  have hsp' := spOf_mergeP (j := j) h.rp hi
  have hst' := stOf_mergeP (i := i) h.rp hj0 hj1
  have hln' := lnN_mergeP h.rp hs hi hj0 hj1
  obtain ⟨a, b, c, d, e⟩ := ex_link n i j.toNat (stOf p i) (spOf p j.toNat) f
    (spOf p) (stOf p) (spOf (mergeP p i j)) (stOf (mergeP p i j)) (lnN p) (lnN (mergeP p i j))
    hi hjn hinj hE hfi rfl rfl hcl hsp' hst' hln' h.j1 h.kk hs.C hs.D hx.Ae hx.Be hx.Z hx.ZB hx.S0
  -- facts about the new ends
  have spS : spOf p (stOf p i) = i := h.j1 i hi hE
  have hSE : stOf p i ≠ spOf p j.toNat := by
    intro h'
    have := h.kk i j.toNat hi hjn hE (by rw [h'])
    apply hcl; rw [this, hE]
  have EE : spOf p (spOf p j.toNat) = spOf p j.toNat := by have := hs.C i hi hE; rw [hfi] at this; exact this
  have hEn : spOf p j.toNat < n := by have := h.rp.rstop j.toNat hjn; unfold spOf; omega
  have hfix : ∀ v, spOf (mergeP p i j) v = v → v ≠ stOf p i ∧ v ≠ i ∧ spOf p v = v := by
    intro v hv; rw [hsp'] at hv; split at hv
    · rename_i hc; rcases hc with hc | hc
      · exfalso; apply hSE; rw [← hc]; exact hv.symm
      · exfalso; apply hcl; rw [hv, hc]
    · rename_i hc; exact ⟨fun h' => hc (Or.inl h'), fun h' => hc (Or.inr h'), hv⟩
  refine ⟨a, b, c, d, e, ?_, ?_⟩
  · intro e' he' hsp hne hlt
    obtain ⟨n1, n2, h0⟩ := hfix e' hsp
    by_cases c1 : e' = spOf p j.toNat
    · rw [c1] at hlt hne ⊢
      rw [hst', if_pos rfl] at hne ⊢
      rw [hln', if_pos (Or.inl rfl)] at hlt
      exact hF hlt
    · have c2 : e' ≠ j.toNat := by intro c2; apply c1; rw [c2] at h0 ⊢; exact h0.symm
      have e1 : stOf (mergeP p i j) e' = stOf p e' := by rw [hst', if_neg c1, if_neg c2]
      have e2 : lnN (mergeP p i j) e' = lnN p e' := by
        rw [hln', if_neg (by intro h; rcases h with h | h | h | h <;> contradiction)]
      rw [e1] at hne ⊢; rw [e2] at hlt; rw [hB' e' c1]
      exact hx.F e' he' h0 hne hlt
  · refine ⟨spOf p j.toNat, hEn, ?_⟩
    rw [hsp', if_neg (by intro h; rcases h with h | h; exact hSE h.symm; exact hcl h)]; exact EE

theorem nscf_small {n : Nat} {f : Nat → Nat} (h : n ≤ 1) : NSCf n f := by
  intro v _ k hk0 hkn; omega

/-- what one visit gives for the acceptance argument -/
theorem visit_good {n i : Nat} {B : Box} {p : Paths} {t : List Int} (h : Inv n B p) (hs : Sem n (fOf t) p)
    (hg : Good n (fOf t) B p) (ht : inBox t B) (hf : ∀ v, fOf t v < n)
    (hinj : ∀ u w, u < n → w < n → fOf t u = fOf t w → u = w) (hi : i < n) :
    ∀ B' p' a, nscVisit n i B p = .ok B' p' a →
      Sem n (fOf t) p' ∧ Good n (fOf t) B' p' ∧
      (∀ v, getDom B' v ≠ getDom B v → v < i → a = true) ∧
      (spOf p' i = i → (getDom B' i).1 = (getDom B' i).2 → NSCf n (fOf t)) ∧
      (∀ v, v < n → spOf p' v = v → spOf p v = v) := by
  intro B' p' a hr
  have hres := visit_res h hi
  rw [hr] at hres
  have hiB : i < B.length := by rw [h.lenB]; exact hi
  have hti := inBox_get i ht hiB
  have hstop := h.rp.rstop i hi
  -- common part of the two linking outcomes
  have hmerge : ∀ (j : Int) (B1 : Box), (getDom B i).1 = j → (getDom B i).2 = j → getI p.stop i = (i : Int) →
      ¬ (j = (i : Int) ∧ n > 1) → 0 ≤ j → j < n →
      (∀ v, v ≠ spOf p j.toNat → getDom B1 v = getDom B v) →
      (((lnN p i + 1 + lnN p j.toNat : Nat) : Int) < (n : Int) - 1 →
        (getDom B1 (spOf p j.toNat)).1 ≠ (stOf p i : Int) ∧ (getDom B1 (spOf p j.toNat)).2 ≠ (stOf p i : Int)) →
      Sem n (fOf t) (mergeP p i j) ∧ Good n (fOf t) B1 (mergeP p i j) ∧
      (spOf (mergeP p i j) i = i → NSCf n (fOf t)) ∧
      (∀ v, v < n → spOf (mergeP p i j) v = v → spOf p v = v) := by
    intro j B1 hd1 hd2 hE hj hj0 hj1 hB1 hF
    have hfi : fOf t i = j.toNat := by
      unfold fOf; have : getI t i = j := by omega
      rw [this]
    have hEn : spOf p i = i := by simp [spOf, hE]
    have hsem := (merge_sem h hs hi hinj hE hj0 hj1 hfi).1
    have a4 := (abs_step n i j.toNat (spOf p) (stOf p)
          (spOf (mergeP p i j)) (stOf (mergeP p i j)) hi (by omega) hEn
          (spOf_mergeP h.rp hi) (stOf_mergeP h.rp hj0 hj1) h.j1 h.kk).2.2.2.1
    rcases hg with hg | hx
    · exact ⟨hsem, Or.inl hg, fun _ => hg, a4⟩
    · by_cases hcl : spOf p j.toNat = i
      · have hnsc : NSCf n (fOf t) := by
          by_cases hn1 : n ≤ 1
          · exact nscf_small hn1
          · exact close_nsc hs hx hi hf hinj hd1 hd2 hEn hj0 (by intro hji; exact hj ⟨hji, by omega⟩) hfi hcl
        exact ⟨hsem, Or.inl hnsc, fun _ => hnsc, a4⟩
      · refine ⟨hsem, Or.inr (merge_ex h hs hx hi hinj hEn hj0 hj1 hfi hcl hB1 hF), fun hsp => ?_, a4⟩
        exfalso
        obtain ⟨_, _, a3, _, _⟩ := abs_step n i j.toNat (spOf p) (stOf p)
          (spOf (mergeP p i j)) (stOf (mergeP p i j)) hi (by omega) hEn
          (spOf_mergeP h.rp hi) (stOf_mergeP h.rp hj0 hj1) h.j1 h.kk
        exact a3 hcl hsp
  generalize hB'' : NscStep.ok B' p' a = r at hres
  cases hres with
  | skip hc =>
    injection hB'' with e1 e2 e3; subst e1; subst e2; subst e3
    refine ⟨hs, hg, fun v hv => absurd rfl hv, fun hsp hgr => ?_, fun _ _ h => h⟩
    exfalso; apply hc
    exact ⟨hgr, by unfold spOf at hsp; omega⟩
  | self => cases hB''
  | pruneFail => cases hB''
  | link j hd1 hd2 hE hj hj0 hj1 hL =>
    injection hB'' with e1 e2 e3; subst e1; subst e2; subst e3
    obtain ⟨m1, m2, m3, m4⟩ := hmerge j B' hd1 hd2 hE hj hj0 hj1 (fun _ _ => rfl) (fun hlt => by
      exfalso; apply hL
      have a1 := lnN_cast hs i; have a2 := lnN_cast hs j.toNat
      omega)
    exact ⟨m1, m2, fun v hv => absurd rfl hv, fun hsp _ => m3 hsp, m4⟩
  | prune j hd1 hd2 hE hj hj0 hj1 hL hemp =>
    injection hB'' with e1 e2 e3; subst e1; subst e2; subst e3
    have he := h.rp.rstop j.toNat (by omega)
    have hst := h.rp.rstart i hi
    have hEB : (getI p.stop j.toNat).toNat < B.length := by rw [h.lenB]; omega
    obtain ⟨m1, m2, m3, m4⟩ := hmerge j (B.set (getI p.stop j.toNat).toNat
        (pruneD (getDom B (getI p.stop j.toNat).toNat) (getI p.start i))) hd1 hd2 hE hj hj0 hj1
      (fun v hv => by
        rw [getDom_set, if_neg]
        intro hc; exact hv hc.1.symm)
      (fun _ => by
        have := pruneD_ne (getDom B (getI p.stop j.toNat).toNat) (getI p.start i)
        have e : ((stOf p i : Nat) : Int) = getI p.start i := by unfold stOf; omega
        have hset : getDom (B.set (getI p.stop j.toNat).toNat
            (pruneD (getDom B (getI p.stop j.toNat).toNat) (getI p.start i))) (spOf p j.toNat) =
            pruneD (getDom B (getI p.stop j.toNat).toNat) (getI p.start i) := by
          unfold spOf; rw [getDom_set, if_pos ⟨rfl, hEB⟩]
        rw [hset, e]
        exact this)
    refine ⟨m1, m2, fun v hv hvi => ?_, fun hsp _ => m3 hsp, m4⟩
    rw [getDom_set] at hv
    split at hv
    · rename_i hc
      simp only [decide_eq_true_eq]
      omega
    · exact absurd rfl hv

/-- sweep invariant: an end that is instantiated and was passed over forces a restart -/
def Wv (n : Nat) (f : Nat → Nat) (i : Nat) (B : Box) (p : Paths) (again : Bool) : Prop :=
  ∀ v, v < i → v < n → spOf p v = v → (getDom B v).1 = (getDom B v).2 → NSCf n f ∨ again = true

theorem sweep_gnd {n : Nat} {t : List Int} (hf : ∀ v, fOf t v < n)
    (hinj : ∀ u w, u < n → w < n → fOf t u = fOf t w → u = w) :
    ∀ (k i : Nat) (B : Box) (p : Paths) (again : Bool),
    Inv n B p → Sem n (fOf t) p → Good n (fOf t) B p → B.Nonempty → Wv n (fOf t) i B p again → i + k ≤ n →
    ∀ B1 p1 a1, nscSweep n k i B p again = .ok B1 p1 a1 → inBox t B1 →
      Sem n (fOf t) p1 ∧ Good n (fOf t) B1 p1 ∧ Wv n (fOf t) (i + k) B1 p1 a1
  | 0, i, B, p, again, _, hs, hg, _, hw, _, B1, p1, a1, hres, _ => by
    simp only [nscSweep] at hres
    injection hres with e1 e2 e3; subst e1; subst e2; subst e3
    exact ⟨hs, hg, hw⟩
  | k + 1, i, B, p, again, h, hs, hg, hne, hw, hik, B1, p1, a1, hres, ht1 => by
    have hi : i < n := by omega
    have hv := visit_ok h hi
    have hl := visit_le h hne hi
    simp only [nscSweep] at hres
    cases hr : nscVisit n i B p with
    | ok B' p' a =>
      rw [hr] at hv hl hres
      simp only [] at hres
      have hl' := sweep_le k (i + 1) B' p' (again || a) hv.1 hl.2 (by omega)
      rw [hres] at hl'
      have htB' : inBox t B' := inBox_of_le ht1 hl'.1
      have htB : inBox t B := inBox_of_le htB' hl.1
      obtain ⟨g1, g2, g3, g4, g5⟩ := visit_good h hs hg htB hf hinj hi B' p' a hr
      have hw' : Wv n (fOf t) (i + 1) B' p' (again || a) := by
        intro v hvi hvn hsp hgr
        by_cases c : v < i
        · by_cases hdom : getDom B' v = getDom B v
          · rw [hdom] at hgr
            rcases hw v c hvn (g5 v hvn hsp) hgr with h1 | h1
            · exact Or.inl h1
            · right; simp [h1]
          · right; simp [g3 v hdom c]
        · have : v = i := by omega
          subst this
          exact Or.inl (g4 hsp hgr)
      have := sweep_gnd hf hinj k (i + 1) B' p' (again || a) hv.1 g1 g2 hl.2 hw' (by omega) B1 p1 a1 hres ht1
      rw [show i + (k + 1) = i + 1 + k by omega]
      exact this
    | fail => rw [hr] at hres; cases hres
    | oob => rw [hr] at hres; cases hres

theorem loop_gnd {n : Nat} {t : List Int} (hf : ∀ v, fOf t v < n)
    (hinj : ∀ u w, u < n → w < n → fOf t u = fOf t w → u = w) (hlen : t.length = n) :
    ∀ (fuel : Nat) (B : Box) (p : Paths) (st : Status),
    Inv n B p → Sem n (fOf t) p → Good n (fOf t) B p → B.Nonempty →
    nscLoop n fuel B p = .ok (st, pointBox t) → st ≠ .inc → NSCf n (fOf t)
  | 0, _, _, _, _, _, _, _, h, _ => by simp [nscLoop] at h
  | fuel + 1, B, p, st, hI, hs, hg, hne, h, hst => by
    have ho := sweep_ok n 0 B p false hI (by omega)
    have hl := sweep_le n 0 B p false hI hne (by omega)
    simp only [nscLoop] at h
    cases hr : nscSweep n n 0 B p false with
    | ok B1 p1 a =>
      rw [hr] at ho hl h
      have hw0 : Wv n (fOf t) 0 B p false := fun v hv => by omega
      cases a with
      | true =>
        simp only [] at h
        have hle := (loop_le fuel B1 p1 st (pointBox t) ho.1 hl.2 h hst).1
        have ht1 : inBox t B1 := inBox_of_le (inBox_pointBox_self t) hle
        obtain ⟨s1, s2, _⟩ := sweep_gnd hf hinj n 0 B p false hI hs hg hne hw0 (by omega) B1 p1 true hr ht1
        exact loop_gnd hf hinj hlen fuel B1 p1 st ho.1 s1 s2 hl.2 h hst
      | false =>
        simp only [] at h
        injection h with h; injection h with h1 h2
        subst h2
        obtain ⟨s1, s2, s3⟩ := sweep_gnd hf hinj n 0 (B := B) p false hI hs hg hne hw0 (by omega) _ p1 false hr
          (inBox_pointBox_self t)
        rcases s2 with s2 | s2
        · exact s2
        · obtain ⟨e, he, hsp⟩ := s2.NE
          have hgr : (getDom (pointBox t) e).1 = (getDom (pointBox t) e).2 := by
            rw [Scc.getDom_pointBox (by rw [hlen]; exact he)]
          rcases s3 e (by omega) he hsp hgr with h' | h'
          · exact h'
          · cases h'
    | fail =>
      rw [hr] at h; simp only [] at h
      injection h with h; injection h with h1 _
      exact absurd h1.symm hst
    | oob => rw [hr] at h; simp only [] at h; cases h

theorem ex_init {n : Nat} {f : Nat → Nat} {B : Box} (hn : 0 < n) (hf : ∀ i, f i < n) : Ex n f B (Paths.init n) := by
  have hsp : ∀ v, v < n → spOf (Paths.init n) v = v := by
    intro v hv; simp [spOf, Paths.init, getI_range _ _ hv]
  have hst : ∀ v, v < n → stOf (Paths.init n) v = v := by
    intro v hv; simp [stOf, Paths.init, getI_range _ _ hv]
  have hln : ∀ v, lnN (Paths.init n) v = 0 := by
    intro v; simp only [lnN, Paths.init, getI]
    by_cases hv : v < n
    · simp [List.getD, hv]
    · simp [List.getD, hv]
  refine ⟨fun e he _ => by rw [hln, hst e he]; rfl,
    fun u _ _ => by rw [hln, hsp _ (hf u)]; rfl,
    fun e _ _ m hm => by rw [hln] at hm; omega,
    fun u _ _ m hm => by rw [hln] at hm; omega,
    fun e _ _ _ => hln e,
    fun e he _ hne => absurd (hst e he) hne,
    ⟨0, hn, hsp 0 hn⟩⟩

end Nsc

open Nsc

theorem runAlg_noSubCycle (ps : List Int) (B : Box) : runAlg .noSubCycle ps B = noSubCycle ps B := rfl

theorem safe_noSubCycle : Safe .noSubCycle := by
  intro ps B hc _
  simp only [Contract] at hc
  rw [runAlg_noSubCycle]
  simp only [noSubCycle]
  apply loop_ok _ _ _ (inv_init hc.2)
  have := cnt_le_self (spOf (Paths.init B.length)) B.length
  have : B.length ≤ B.length * B.length := Nat.le_mul_self _
  omega

theorem Nsc.loop_not_ent {n : Nat} : ∀ (fuel : Nat) (B : Box) (p : Paths) (st : Status) (B' : Box),
    nscLoop n fuel B p = .ok (st, B') → st ≠ .ent
  | 0, _, _, _, _, h => by simp [nscLoop] at h
  | fuel + 1, B, p, st, B', h => by
    simp only [nscLoop] at h
    split at h
    · exact Nsc.loop_not_ent fuel _ _ st B' h
    · injection h with h; injection h with h1 _; rw [← h1]; simp
    · injection h with h; injection h with h1 _; rw [← h1]; simp
    · cases h

theorem entailOk_noSubCycle : EntailOk .noSubCycle := by
  intro ps B B' _ _ hrun
  rw [runAlg_noSubCycle] at hrun
  exact absurd rfl (Nsc.loop_not_ent _ _ _ _ _ hrun)

/-- FINDING: the weak trigger contract of `Spec.lean` does not hold for no_sub_cycle.  The call on
    `B = [(0,2),(2,2),(0,2)]` answers `consistent` and changes nothing; the sub-box
    `B'' = [(0,2),(2,2),(1,2)]` differs from `B` by a MIN change only (not watched: the mask is
    GROUND), yet the call on `B''` prunes `x_2` to `(2,2)` (value 1 is now a bound) and then fails on
    the self-loop.  So an unwatched change can make the next call fail. -/
theorem not_trigOkW_noSubCycle : ¬ TrigOkW .noSubCycle := by
  intro h
  have := h [] [(0,2),(2,2),(0,2)] .cons [(0,2),(2,2),(0,2)] [(0,2),(2,2),(1,2)]
    (by simp [Contract, Box.within]) (by simp [Box.Nonempty]) rfl (by simp)
    (by simp [Box.le]) (by simp [Box.Nonempty])
    (by
      intro k hk
      have : k = 0 ∨ k = 1 ∨ k = 2 := by simp at hk; omega
      rcases this with rfl | rfl | rfl <;> simp [quiet, maskAlg, Ev.meets, Ev.groundOnly, evOf, getDom])
  obtain ⟨st'', B''', hrun, hst⟩ := this
  have e : runAlg .noSubCycle [] [(0,2),(2,2),(1,2)] = .ok (.inc, [(0,2),(2,2),(1,2)]) := rfl
  rw [e] at hrun
  injection hrun with hrun
  injection hrun with h1 _
  exact hst h1.symm

theorem Nsc.out_le {ps : List Int} {B B' : Box} {st : Status} (hc : Contract .noSubCycle ps B) (hne : B.Nonempty)
    (hrun : runAlg .noSubCycle ps B = .ok (st, B')) (hst : st ≠ .inc) : Box.le B' B ∧ B'.Nonempty := by
  simp only [Contract] at hc
  rw [runAlg_noSubCycle] at hrun
  exact loop_le _ _ _ _ _ (inv_init hc.2) hne hrun hst

/-- the provable part of trigger sufficiency: once all variables are instantiated, a change that
    is not a GROUND event is no change at all -/
theorem trigOkP_noSubCycle : TrigOkP .noSubCycle := by
  intro ps B st B' B'' hc hne hrun hst hle hne'' hg hq
  have hB'B := (Nsc.out_le hc hne hrun hst).1
  have hlen : B''.length = B.length := by rw [Box.le_length hle, Box.le_length hB'B]
  have e : B'' = B := Box.ext_get hlen (fun k hk => by
    have hq := hq k (by omega)
    have hgk : (getDom B'' k).1 = (getDom B'' k).2 := by
      have := List.all_eq_true.mp hg _ (getDom_mem hk)
      simpa [Dom.isGround] using this
    simp only [quiet, maskAlg, Ev.meets, Ev.groundOnly, evOf, Bool.false_and, Bool.true_and, Bool.false_or,
      decide_eq_false_iff_not] at hq
    exact Classical.byContradiction (fun hne => hq ⟨hne, hgk⟩))
  subst e
  have e' : B' = B'' := Box.le_antisymm hB'B hle
  subst e'
  exact ⟨st, B', hrun, hst⟩

theorem sound_noSubCycle : Sound .noSubCycle := by
  intro ps B st B' hc hne hrun
  have hc' := hc
  simp only [Contract] at hc'
  have hI := inv_init hc'.2
  refine ⟨fun hst => ?_, fun hst t ht hrel => ?_⟩
  · obtain ⟨hle, hne'⟩ := Nsc.out_le hc hne hrun hst
    refine ⟨hle, hne', fun t ht hrel => ?_⟩
    have hsol := sol_of_nsc ht hc'.2 hrel
    rw [runAlg_noSubCycle] at hrun
    exact (loop_sem hsol _ _ _ _ _ hI (sem_init (hsol.f_lt (by omega))) ht hrun).2
  · have hsol := sol_of_nsc ht hc'.2 hrel
    rw [runAlg_noSubCycle] at hrun
    exact (loop_sem hsol _ _ _ _ _ hI (sem_init (hsol.f_lt (by omega))) ht hrun).1 hst

theorem groundOk_noSubCycle : GroundOk .noSubCycle := by
  intro ps B st B' t hc hne hrun hst hB'
  simp only [relW]
  intro hnd
  have hc' := hc
  simp only [Contract] at hc'
  have hle := (Nsc.out_le hc hne hrun hst).1
  subst hB'
  have htB : inBox t B := inBox_of_le (inBox_pointBox_self t) hle
  have hlen : t.length = B.length := inBox_length htB
  have hr : Scc.InRange t := Scc.inRange_of_inBox htB hc'.2
  have hf : ∀ v, Scc.fOf t v < B.length := fun v => hlen ▸ Scc.fOf_lt hr (by omega) v
  have hinj : ∀ u w, u < B.length → w < B.length → Scc.fOf t u = Scc.fOf t w → u = w := by
    intro u w hu hw h
    have h1 := Scc.fOf_cast hr (by omega : u < t.length)
    have h2 := Scc.fOf_cast hr (by omega : w < t.length)
    have e : getI t u = getI t w := by rw [← h1, ← h2, h]
    have hu' : u < t.length := by omega
    have hw' : w < t.length := by omega
    exact (List.getD_inj hu' hw' hnd).mp e
  rw [runAlg_noSubCycle] at hrun
  have hnsc := loop_gnd hf hinj hlen _ B _ st (inv_init hc'.2) (sem_init hf) (Or.inr (ex_init (by omega) hf)) hne hrun hst
  intro v hv k hk0 hkn
  rw [Scc.iterSucc_orb hr k v hv]
  intro h
  have : Scc.orb (Scc.fOf t) v k = v := by injection h with h; omega
  exact hnsc v (by omega) k hk0 (by omega) this

theorem Nsc.within_of_le {B' B : Box} {lo hi : Int} (hle : Box.le B' B) (hw : B.within lo hi) : B'.within lo hi := by
  intro d hd
  obtain ⟨k, hk, rfl⟩ := List.mem_iff_getElem.mp hd
  have hk' : k < B.length := by rw [← Box.le_length hle]; exact hk
  have h1 := Box.le_get k hle hk'
  have h2 := hw _ (getDom_mem hk')
  have : getDom B' k = B'[k] := by simp [getDom, List.getD, hk]
  rw [this] at h1
  omega

theorem contractMono_noSubCycle : ContractMono .noSubCycle := by
  intro ps B B' hc hle
  simp only [Contract] at *
  rw [Box.le_length hle]
  exact ⟨hc.1, Nsc.within_of_le hle hc.2⟩

end Nucs
