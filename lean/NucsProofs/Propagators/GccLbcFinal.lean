import NucsProofs.Propagators.GccLbcAsm
import NucsProofs.Propagators.GccExact
/-!
  Bound-consistency EXACTNESS of the RAW PORT of the gcc propagator, unconditionally
  (`gcc_port_supported`, `gcc_port_exact`): in contract, on a box of non-empty domains and with every
  upper capacity `≥ 1`, if `gcc ps B = .ok (st, B')` with `st ≠ .inc` then every bound of every
  variable of `B'` is attained by a solution inside `B'`, and a second call returns `(.cons, B')`.

  The hypothesis of `gcc_port_supported_partial` (every bound of the answer has a support in the
  lower-capacity relaxation, `LbcSupported`) is proved here from the run (`gcc_port_lbc_supported`):
  * a STABLE variable is either unused by the matching of `filter_lower_min` or can be freed by an
    alternating chain starting at an unused variable (`filter_lower_min_free`, ghost invariants on
    `pot_stbl_sets` / `stbl_intervals`), hence every value of its domain has a lower support
    (`free_support`);
  * the new minimum (`filter_lower_min`) resp. maximum (`filter_upper_min`) of a variable that is NOT
    stable lies in no Hall interval, foreign to the variable, of the instance obtained by contracting
    the stable cells (`avoid_min`, `avoid_max`, from the completeness ghost `CFact` of the candidate
    bound, the soundness of the bound and — for `filter_upper_min` — the completeness of its greedy
    matching, `matching_complete_of_zones`, `runs_filled_of_complete`), hence it is attained by a cell
    solution (`cell_support_of_avoid`: Hall's theorem with one variable fixed) and by a value
    assignment (`value_support_of_cell`).
-/
namespace Nucs
open Gcc AllDiff

/-- every bound of the answer has a support in the lower-capacity relaxation of the input box -/
theorem gcc_port_lbc_supported (ps : List Int) (B : Box) (hc : Contract .gcc ps B)
    (hB : B.Nonempty)
    (hu : ∀ j, j < (ps.length - 1) / 2 → 1 ≤ getI ps (1 + (ps.length - 1) / 2 + j))
    (st : Status) (B' : Box) (h : gcc ps B = .ok (st, B')) (hst : st ≠ .inc) :
    ∀ k, k < B'.length →
      LbcSupported ps B k (getDom B' k).1 ∧ LbcSupported ps B k (getDom B' k).2 := by
  obtain ⟨t0, ht0, hrel0⟩ := gcc_port_feasible ps B hc hB hu st B' h hst
  have hsound := (gcc_port_sound ps B hc hB hu st B' h).1 hst
  obtain ⟨hlen, hm1, hB1, hwithin, hcap⟩ := hc
  generalize hmdef : (ps.length - 1) / 2 = mn at hlen hm1 hwithin hcap hu
  have hsz : (B.toArray.size : Int) = (B.length : Int) := by simp
  have htl0 := inBox_length ht0
  have hrel0' : gccOk (getI ps 0) ((ps.drop 1).take mn) (ps.drop (1 + mn)) t0 := by
    have := hrel0
    simp only [rel] at this
    rw [hmdef] at this
    exact this
  have hτ0 : Gcc.GSol (B.toArray.size : Int) (g ps.toArray 0) (mn : Int) B.toArray
      (fun j => g ps.toArray (1 + j)) (fun j => g ps.toArray (1 + (mn : Int) + j)) (tval t0) := by
    refine ⟨?_, ?_, ?_⟩
    · intro v h0 h1
      have h1' : v.toNat < B.length := by simp at h1; omega
      have := inBox_get v.toNat ht0 h1'
      have e : g2 B.toArray v = getDom B v.toNat := by
        have := Gcc.g2_toArrayG B v.toNat
        rw [Int.toNat_of_nonneg h0] at this; exact this
      rw [e]; exact this
    · intro j h0 h1
      have := (hrel0' j.toNat (by simp; omega)).1
      rw [Gcc.getI_take_drop ps mn j.toNat (by omega) hlen] at this
      have e1 : B.toArray.size = t0.length := by simp; omega
      rw [e1, Gcc.occ_tval, Gcc.g_toArray, Gcc.g_toArray]
      have e2 : (1 + j).toNat = 1 + j.toNat := by omega
      have e3 : (0 : Int).toNat = 0 := rfl
      have e4 : getI ps 0 + j = getI ps 0 + (j.toNat : Int) := by omega
      rw [e2, e3, e4]; exact this
    · intro j h0 h1
      have := (hrel0' j.toNat (by simp; omega)).2
      rw [Gcc.getI_drop] at this
      have e1 : B.toArray.size = t0.length := by simp; omega
      rw [e1, Gcc.occ_tval, Gcc.g_toArray, Gcc.g_toArray]
      have e2 : (1 + (mn : Int) + j).toNat = 1 + mn + j.toNat := by omega
      have e3 : (0 : Int).toNat = 0 := rfl
      have e4 : getI ps 0 + j = getI ps 0 + (j.toNat : Int) := by omega
      rw [e2, e3, e4]; exact this
  obtain ⟨status, domains, hr, hsup⟩ := Gcc.compute_domains_gcc_lsup B.toArray ps.toArray
    (mn : Int) (by omega) (by simp; omega) (by simpa using hB1)
    (by
      intro v h0 h1
      have hmem := AllDiff.g2_mem_toArray B v h0 (by simpa using h1)
      have hw := hwithin _ hmem
      have hne := hB _ hmem
      rw [Gcc.g_toArray]
      exact ⟨hw.1, hne, hw.2⟩)
    (by
      intro k h0 h1
      rw [Gcc.g_toArray]
      have := (hcap k.toNat (by omega)).1
      have e : (1 + k).toNat = 1 + k.toNat := by omega
      rw [e]; exact this)
    (by
      intro k h0 h1
      rw [Gcc.g_toArray, Gcc.g_toArray]
      have := (hcap k.toNat (by omega)).2
      have e : (1 + k).toNat = 1 + k.toNat := by omega
      have e2 : (1 + (mn : Int) + k).toNat = 1 + mn + k.toNat := by omega
      rw [e, e2]; exact this)
    (by
      intro k h0 h1
      rw [Gcc.g_toArray]
      have := hu k.toNat (by omega)
      have e : (1 + (mn : Int) + k).toNat = 1 + mn + k.toNat := by omega
      rw [e]; exact this)
    (tval t0) hτ0
  unfold gcc at h
  rw [hr] at h
  simp only [AllDiff.ok_bind] at h
  have hstatus : status ≠ .inc := by
    intro hs
    rw [if_pos (by simp [hs])] at h
    have : (Status.inc, B) = (st, B') := by simpa [pure, Except.pure] using h
    exact hst (Prod.mk.inj this).1.symm
  rw [if_neg (by simpa using hstatus)] at h
  have hinj : st = status ∧ B' = domains.toList := by
    have : (status, domains.toList) = (st, B') := by simpa [pure, Except.pure] using h
    exact ⟨(Prod.mk.inj this).1.symm, (Prod.mk.inj this).2.symm⟩
  obtain ⟨e1, e2⟩ := hinj
  subst e1 e2
  have hlenB : domains.toList.length = B.length := Box.le_length hsound.1
  -- from a lower support on arrays to a tuple
  have hconv : ∀ (k : Nat), k < B.length → ∀ val,
      (val = (g2 domains (k : Int)).1 ∨ val = (g2 domains (k : Int)).2) → LbcSupported ps B k val := by
    intro k hk val hval
    obtain ⟨σ, σ1, σ2, σ3⟩ := hsup hstatus (k : Int) (by omega) (by rw [hsz]; omega) val hval
    refine ⟨Gcc.tupleOf σ B.length, ?_, ?_, ?_⟩
    · refine Gcc.inBox_of_getG (Gcc.tupleOf_length σ B.length) (fun i hi => ?_)
      rw [Gcc.tupleOf_get σ _ i hi]
      have := σ1 (i : Int) (by omega) (by rw [hsz]; omega)
      rw [Gcc.g2_toArrayG] at this
      exact this
    · rw [Gcc.tupleOf_get σ _ k hk]; exact σ3
    · intro j hj
      rw [hmdef] at hj
      have h1 := σ2 (j : Int) (by omega) (by omega)
      have h1' : g ps.toArray (1 + (j : Int)) ≤
          occ σ (Gcc.rangeUp 0 (B.toArray.size : Int)) (g ps.toArray 0 + (j : Int)) := h1
      rw [Gcc.g_toArray, Gcc.g_toArray] at h1'
      have e1 : (1 + (j : Int)).toNat = 1 + j := by omega
      have e3 : (0 : Int).toNat = 0 := rfl
      rw [e1, e3] at h1'
      have e5 : (B.toArray.size : Int) = ((B.length : Nat) : Int) := by simp
      rw [e5, Gcc.occ_tupleOf] at h1'
      exact h1'
  intro k hk
  have hkB : k < B.length := by omega
  rw [Gcc.g2_toListG domains k |>.symm]
  exact ⟨hconv k hkB _ (Or.inl rfl), hconv k hkB _ (Or.inr rfl)⟩

/-- **Bound consistency of the answer of the raw port of gcc**: every bound of every variable of the
    answer is attained by a solution inside the answer. -/
theorem gcc_port_supported (ps : List Int) (B : Box) (hc : Contract .gcc ps B) (hB : B.Nonempty)
    (hu : ∀ j, j < (ps.length - 1) / 2 → 1 ≤ getI ps (1 + (ps.length - 1) / 2 + j))
    (st : Status) (B' : Box) (h : gcc ps B = .ok (st, B')) (hst : st ≠ .inc) :
    Supported .gcc ps B' :=
  gcc_port_supported_partial ps B hc hB hu st B' h hst
    (gcc_port_lbc_supported ps B hc hB hu st B' h hst)

/-- **Exactness of the raw port of gcc** (the shape of `Exact`, Spec.lean, for the function `gcc`
    instead of `runAlg .gcc`, with the extra hypothesis that every upper capacity is `≥ 1`): the
    answer is bound consistent and a fixpoint. -/
theorem gcc_port_exact (ps : List Int) (B : Box) (hc : Contract .gcc ps B) (hB : B.Nonempty)
    (hu : ∀ j, j < (ps.length - 1) / 2 → 1 ≤ getI ps (1 + (ps.length - 1) / 2 + j))
    (st : Status) (B' : Box) (h : gcc ps B = .ok (st, B')) (hst : st ≠ .inc) :
    (∀ k, k < B'.length →
      (∃ t, inBox t B' ∧ rel .gcc ps t ∧ getI t k = (getDom B' k).1) ∧
      (∃ t, inBox t B' ∧ rel .gcc ps t ∧ getI t k = (getDom B' k).2)) ∧
    (∃ st', gcc ps B' = .ok (st', B') ∧ st' ≠ .inc) :=
  gcc_port_exact_partial ps B hc hB hu st B' h hst
    (gcc_port_lbc_supported ps B hc hB hu st B' h hst)

/-- the second call changes nothing -/
theorem gcc_port_idempotent (ps : List Int) (B : Box) (hc : Contract .gcc ps B) (hB : B.Nonempty)
    (hu : ∀ j, j < (ps.length - 1) / 2 → 1 ≤ getI ps (1 + (ps.length - 1) / 2 + j))
    (st : Status) (B' : Box) (h : gcc ps B = .ok (st, B')) (hst : st ≠ .inc) :
    gcc ps B' = .ok (.cons, B') :=
  gcc_port_fixpoint_of_supported ps B hc hB hu st B' h hst
    (gcc_port_supported ps B hc hB hu st B' h hst)

end Nucs
