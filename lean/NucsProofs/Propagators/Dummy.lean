import NucsProofs.Basic
/-! dummy: the constraint that is always true and never prunes -/
namespace Nucs

theorem sound_dummy : Sound .dummy := by
  intro ps B st B' _ hne hrun
  simp only [runAlg] at hrun
  injection hrun with hrun; injection hrun with h1 h2; subst h1; subst h2
  exact ⟨fun _ => ⟨Box.le_refl _, hne, fun _ ht _ => ht⟩, fun h => by cases h⟩

theorem groundOk_dummy : GroundOk .dummy := by intro _ _ _ _ _ _ _ _ _ _; simp [relW, rel]
theorem entailOk_dummy : EntailOk .dummy := by intro _ _ _ _ _ _ _ _; simp [rel]
theorem contractMono_dummy : ContractMono .dummy := by intro _ _ _ _ _; simp [Contract]
theorem safe_dummy : Safe .dummy := fun ps B _ _ => ⟨_, rfl⟩

theorem inBox_lows : ∀ (B : Box), B.Nonempty → inBox (B.map (·.1)) B
  | [], _ => trivial
  | _ :: ds, h => ⟨⟨Int.le_refl _, (Box.nonempty_cons.mp h).1⟩, inBox_lows ds (Box.nonempty_cons.mp h).2⟩

theorem inBox_highs : ∀ (B : Box), B.Nonempty → inBox (B.map (·.2)) B
  | [], _ => trivial
  | _ :: ds, h => ⟨⟨(Box.nonempty_cons.mp h).1, Int.le_refl _⟩, inBox_highs ds (Box.nonempty_cons.mp h).2⟩

theorem exact_dummy : Exact .dummy := by
  intro ps B st B' _ hne hrun _
  simp only [runAlg] at hrun
  injection hrun with hrun; injection hrun with h1 h2; subst h1; subst h2
  refine ⟨fun k hk => ⟨⟨B.map (·.1), inBox_lows B hne, trivial, ?_⟩, ⟨B.map (·.2), inBox_highs B hne, trivial, ?_⟩⟩,
    ⟨.cons, rfl, by decide⟩⟩
  · simp [getI, getDom, List.getD, hk]
  · simp [getI, getDom, List.getD, hk]

end Nucs

namespace Nucs
/-- dummy watches MIN|MAX everywhere: a quiet sub-box is the input box itself -/
theorem trigOk_dummy : TrigOk .dummy := by
  intro ps B st B' B'' _ _ hrun _ hle hne'' _
  simp only [runAlg] at hrun ⊢
  exact ⟨.cons, rfl, by decide⟩
end Nucs
