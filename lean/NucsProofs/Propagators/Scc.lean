import NucsProofs.Basic
/-!
  scc: the successor graph is strongly connected.  Sound, GroundOk, EntailOk, TrigOk,
  ContractMono, Safe.
-/
namespace Nucs
namespace Scc

/-! ### orbits of a function on `[0, n)` and the pigeonhole principle -/

/-- `orb f u m = f^m u` (the last application is the outermost) -/
def orb (f : Nat → Nat) (u : Nat) : Nat → Nat
  | 0 => u
  | m + 1 => f (orb f u m)

theorem orb_shift (f : Nat → Nat) (u : Nat) : ∀ m, orb f (f u) m = orb f u (m + 1)
  | 0 => rfl
  | m + 1 => by
    have := orb_shift f u m
    simp only [orb] at *
    rw [this]

theorem orb_add (f : Nat → Nat) (u a : Nat) : ∀ b, orb f u (a + b) = orb f (orb f u a) b
  | 0 => rfl
  | b + 1 => by
    have := orb_add f u a b
    rw [← Nat.add_assoc]
    simp only [orb]
    rw [this]

theorem orb_lt {f : Nat → Nat} {n u : Nat} (hf : ∀ i, f i < n) (hu : u < n) : ∀ m, orb f u m < n
  | 0 => hu
  | _ + 1 => hf _

/-- pigeonhole: `n + 1` values below `n` collide -/
theorem collision (g : Nat → Nat) (n : Nat) (hg : ∀ i, g i < n) : ∃ a b, a < b ∧ b ≤ n ∧ g a = g b := by
  by_cases h : ∃ a b, a < b ∧ b ≤ n ∧ g a = g b
  · exact h
  · exfalso
    have hnd : ((List.range (n + 1)).map g).Nodup := by
      rw [List.nodup_iff_pairwise_ne, List.pairwise_map]
      refine List.Pairwise.imp_of_mem ?_ (List.pairwise_lt_range (n := n + 1))
      intro a b _ hb hab e
      exact h ⟨a, b, hab, by simp at hb; omega, e⟩
    have hsub : (List.range (n + 1)).map g ⊆ List.range n := by
      intro x hx
      simp only [List.mem_map, List.mem_range] at hx ⊢
      obtain ⟨a, _, rfl⟩ := hx
      exact hg a
    have := hnd.length_le_of_subset hsub
    simp at this
    omega

/-- whatever an orbit reaches, it reaches in fewer than `n` steps -/
theorem orb_short {f : Nat → Nat} {n u w : Nat} (hf : ∀ i, f i < n) (hu : u < n) :
    ∀ k, orb f u k = w → ∃ k', k' < n ∧ orb f u k' = w := by
  intro k
  induction k using Nat.strongRecOn with
  | ind k ih =>
    intro hk
    by_cases hkn : k < n
    · exact ⟨k, hkn, hk⟩
    · obtain ⟨a, b, hab, hbn, e⟩ := collision (orb f u) n (orb_lt hf hu)
      have : orb f u (a + (k - b)) = w := by
        rw [orb_add, e, ← orb_add]
        rw [show b + (k - b) = k by omega]; exact hk
      exact ih (a + (k - b)) (by omega) this

/-! ### the marking computed by `reachN` -/

def stepR (n : Nat) (edge : Nat → Nat → Bool) (R : List Bool) : List Bool :=
  (List.range n).map (fun j => getB R j || (List.range n).any (fun i => getB R i && edge i j))

theorem reachN_succ' (n : Nat) (edge : Nat → Nat → Bool) : ∀ (k : Nat) (R : List Bool),
    reachN n edge (k + 1) R = stepR n edge (reachN n edge k R)
  | 0, _ => rfl
  | k + 1, R => by
    have := reachN_succ' n edge k (stepR n edge R)
    simp only [reachN] at *
    exact this

theorem stepR_iff (n : Nat) (edge : Nat → Nat → Bool) (R : List Bool) (j : Nat) :
    getB (stepR n edge R) j = true ↔
      j < n ∧ (getB R j = true ∨ ∃ i, i < n ∧ getB R i = true ∧ edge i j = true) := by
  unfold stepR
  by_cases hj : j < n
  · simp [getB, List.getD, hj]
  · simp [getB, List.getD, hj]

def seed (n : Nat) : List Bool := (List.range n).map (fun i => i == 0)

theorem seed_iff (n j : Nat) : getB (seed n) j = true ↔ j < n ∧ j = 0 := by
  unfold seed
  by_cases hj : j < n
  · simp [getB, List.getD, hj]
  · simp [getB, List.getD, hj]

theorem reachN_length (n : Nat) (edge : Nat → Nat → Bool) : ∀ (k : Nat) (R : List Bool),
    R.length = n → (reachN n edge k R).length = n
  | 0, _, h => h
  | k + 1, _, _ => by
    simp only [reachN]
    exact reachN_length n edge k _ (by simp)

theorem all_id_iff (l : List Bool) : l.all id = true ↔ ∀ j, j < l.length → getB l j = true := by
  induction l with
  | nil => simp
  | cons a l ih =>
    simp only [List.all_cons, Bool.and_eq_true, ih, id]
    constructor
    · rintro ⟨ha, h⟩ j hj
      cases j with
      | zero => simpa [getB] using ha
      | succ j => have := h j (by simpa using hj); simpa [getB] using this
    · intro h
      refine ⟨by simpa [getB] using h 0 (by simp), fun j hj => ?_⟩
      have := h (j + 1) (by simpa using hj); simpa [getB] using this

theorem reachN_mono (n : Nat) (edge : Nat → Nat → Bool) (j : Nat) (hj : j < n) :
    ∀ (k k' : Nat), k ≤ k' → getB (reachN n edge k (seed n)) j = true →
      getB (reachN n edge k' (seed n)) j = true := by
  intro k k' hkk h
  induction k' with
  | zero => have : k = 0 := by omega
            subst this; exact h
  | succ k' ih =>
    by_cases e : k = k' + 1
    · subst e; exact h
    · rw [reachN_succ', stepR_iff]
      exact ⟨hj, Or.inl (ih (by omega))⟩

/-- forward marking is complete: the orbit of `0` along edges is marked -/
theorem mark_fwd {n : Nat} {edge : Nat → Nat → Bool} {f : Nat → Nat} (hn : 0 < n) (hf : ∀ i, f i < n)
    (he : ∀ i, i < n → edge i (f i) = true) :
    ∀ m, getB (reachN n edge m (seed n)) (orb f 0 m) = true
  | 0 => by simp [reachN, orb, seed_iff, hn]
  | m + 1 => by
    rw [reachN_succ', stepR_iff]
    have hlt := orb_lt hf hn m
    exact ⟨hf _, Or.inr ⟨orb f 0 m, hlt, mark_fwd hn hf he m, he _ hlt⟩⟩

/-- backward marking is complete: whatever reaches `0` along edges is marked -/
theorem mark_bwd {n : Nat} {edge : Nat → Nat → Bool} {f : Nat → Nat} (hf : ∀ i, f i < n)
    (he : ∀ i, i < n → edge i (f i) = true) :
    ∀ m u, u < n → orb f u m = 0 → getB (reachN n (fun i j => edge j i) m (seed n)) u = true
  | 0, u, hu, h => by simp only [orb] at h; subst h; simp [reachN, seed_iff, hu]
  | m + 1, u, hu, h => by
    rw [reachN_succ', stepR_iff]
    rw [← orb_shift] at h
    exact ⟨hu, Or.inr ⟨f u, hf u, mark_bwd hf he m (f u) (hf u) h, he u hu⟩⟩

/-- forward marking is correct when the edges are those of `f` -/
theorem mark_fwd_sound {n : Nat} {edge : Nat → Nat → Bool} {f : Nat → Nat}
    (he : ∀ i j, i < n → edge i j = true → f i = j) :
    ∀ m v, getB (reachN n edge m (seed n)) v = true → ∃ k, orb f 0 k = v
  | 0, v, h => by
    simp only [reachN, seed_iff] at h
    exact ⟨0, by simp [orb, h.2]⟩
  | m + 1, v, h => by
    rw [reachN_succ', stepR_iff] at h
    rcases h.2 with h' | ⟨i, hi, hm, hiv⟩
    · exact mark_fwd_sound he m v h'
    · obtain ⟨k, hk⟩ := mark_fwd_sound he m i hm
      exact ⟨k + 1, by simp only [orb]; rw [hk]; exact he i v hi hiv⟩

theorem mark_bwd_sound {n : Nat} {edge : Nat → Nat → Bool} {f : Nat → Nat}
    (he : ∀ i j, i < n → edge i j = true → f i = j) :
    ∀ m v, getB (reachN n (fun i j => edge j i) m (seed n)) v = true → ∃ k, orb f v k = 0
  | 0, v, h => by
    simp only [reachN, seed_iff] at h
    exact ⟨0, by simp [orb, h.2]⟩
  | m + 1, v, h => by
    rw [reachN_succ', stepR_iff] at h
    rcases h.2 with h' | ⟨i, hi, hm, hiv⟩
    · exact mark_bwd_sound he m v h'
    · obtain ⟨k, hk⟩ := mark_bwd_sound he m i hm
      refine ⟨k + 1, ?_⟩
      rw [← orb_shift, he v i h.1 hiv]; exact hk

/-! ### successor functions as tuples -/

/-- all entries of `t` are vertices -/
def InRange (t : List Int) : Prop := ∀ i, i < t.length → 0 ≤ getI t i ∧ getI t i < t.length

def fOf (t : List Int) (v : Nat) : Nat := (getI t v).toNat

theorem fOf_lt {t : List Int} (h : InRange t) (hn : 0 < t.length) (i : Nat) : fOf t i < t.length := by
  unfold fOf
  by_cases hi : i < t.length
  · have := h i hi; omega
  · have : getI t i = 0 := by simp [getI, List.getD, hi]
    rw [this]; simpa using hn

theorem fOf_cast {t : List Int} (h : InRange t) {i : Nat} (hi : i < t.length) : ((fOf t i : Nat) : Int) = getI t i := by
  unfold fOf; have := h i hi; omega

theorem iterSucc_orb {t : List Int} (h : InRange t) : ∀ (k u : Nat), u < t.length →
    iterSucc t k (u : Int) = some ((orb (fOf t) u k : Nat) : Int)
  | 0, u, hu => by simp [iterSucc, orb, hu]
  | k + 1, u, hu => by
    have ih := iterSucc_orb h k (fOf t u) (fOf_lt h (by omega) u)
    rw [orb_shift, fOf_cast h hu] at ih
    simp only [iterSucc]
    have hget : t[u]? = some (getI t u) := by simp [getI, List.getD, hu]
    simp [hget, ih]

theorem getDom_mem {B : Box} {k : Nat} (hk : k < B.length) : getDom B k ∈ B := by
  unfold getDom; simp [List.getD, List.getElem?_eq_getElem hk]

theorem inRange_of_inBox {t : List Int} {B : Box} (ht : inBox t B) (hw : B.within 0 ((B.length : Int) - 1)) :
    InRange t := by
  intro i hi
  rw [inBox_length ht] at hi ⊢
  have := inBox_get i ht hi
  have := hw _ (getDom_mem hi)
  omega

/-- the graph of the box: `i → j` iff `j ∈ dom(x_i)` -/
def edgeOf (B : Box) (i j : Nat) : Bool :=
  decide ((getDom B i).1 ≤ (j : Int)) && decide ((j : Int) ≤ (getDom B i).2)

theorem scc_eq (ps : List Int) (B : Box) :
    scc ps B = if (reachN B.length (edgeOf B) B.length (seed B.length)).all id &&
        (reachN B.length (fun i j => edgeOf B j i) B.length (seed B.length)).all id
      then (.cons, B) else (.inc, B) := rfl

theorem edgeOf_of_inBox {t : List Int} {B : Box} (ht : inBox t B) (hr : InRange t) (i : Nat) (hi : i < B.length) :
    edgeOf B i (fOf t i) = true := by
  have := inBox_get i ht hi
  rw [← inBox_length ht] at hi
  simp only [edgeOf, fOf_cast hr hi, Bool.and_eq_true, decide_eq_true_eq]
  exact this

theorem getDom_pointBox {t : List Int} {i : Nat} (hi : i < t.length) : getDom (pointBox t) i = (getI t i, getI t i) := by
  simp [getDom, pointBox, getI, List.getD, hi]

theorem edgeOf_pointBox {t : List Int} (hr : InRange t) (i j : Nat) (hi : i < t.length)
    (h : edgeOf (pointBox t) i j = true) : fOf t i = j := by
  simp only [edgeOf, getDom_pointBox hi, Bool.and_eq_true, decide_eq_true_eq] at h
  have := fOf_cast hr hi
  omega

/-- a strongly connected tuple of the box has every vertex marked in both directions -/
theorem marks_of_sc {t : List Int} {B : Box} (ht : inBox t B) (hw : B.within 0 ((B.length : Int) - 1))
    (hn : 0 < B.length) (hsc : StronglyConnected t) :
    (reachN B.length (edgeOf B) B.length (seed B.length)).all id = true ∧
    (reachN B.length (fun i j => edgeOf B j i) B.length (seed B.length)).all id = true := by
  have hr := inRange_of_inBox ht hw
  have hl := inBox_length ht
  have hf : ∀ i, fOf t i < B.length := fun i => hl ▸ fOf_lt hr (by omega) i
  have he : ∀ i, i < B.length → edgeOf B i (fOf t i) = true := edgeOf_of_inBox ht hr
  constructor
  · rw [all_id_iff]
    intro v hv
    rw [reachN_length _ _ _ _ (by simp [seed])] at hv
    obtain ⟨⟨k, hk⟩, _⟩ := hsc v (by omega)
    have h0 := iterSucc_orb hr k 0 (by omega)
    simp only [Int.natCast_zero] at h0
    rw [h0] at hk
    have hk' : orb (fOf t) 0 k = v := by injection hk with hk; omega
    obtain ⟨k', hk'n, hk''⟩ := orb_short hf hn k hk'
    have := mark_fwd hn hf he k'
    rw [hk''] at this
    exact reachN_mono _ _ v hv k' _ (by omega) this
  · rw [all_id_iff]
    intro v hv
    rw [reachN_length _ _ _ _ (by simp [seed])] at hv
    obtain ⟨_, ⟨k, hk⟩⟩ := hsc v (by omega)
    rw [iterSucc_orb hr k v (by omega)] at hk
    have hk' : orb (fOf t) v k = 0 := by injection hk with hk; omega
    obtain ⟨k', hk'n, hk''⟩ := orb_short hf hv k hk'
    have := mark_bwd hf he k' v hv hk''
    exact reachN_mono _ _ v hv k' _ (by omega) this

/-- on an instantiated box the marking is exact -/
theorem sc_of_marks {t : List Int} (hr : InRange t)
    (h1 : (reachN t.length (edgeOf (pointBox t)) t.length (seed t.length)).all id = true)
    (h2 : (reachN t.length (fun i j => edgeOf (pointBox t) j i) t.length (seed t.length)).all id = true) :
    StronglyConnected t := by
  rw [all_id_iff] at h1 h2
  rw [reachN_length _ _ _ _ (by simp [seed])] at h1 h2
  have he : ∀ i j, i < t.length → edgeOf (pointBox t) i j = true → fOf t i = j := edgeOf_pointBox hr
  intro v hv
  constructor
  · obtain ⟨k, hk⟩ := mark_fwd_sound he _ v (h1 v hv)
    refine ⟨k, ?_⟩
    have := iterSucc_orb hr k 0 (by omega)
    simp only [Int.natCast_zero] at this
    rw [this, hk]
  · obtain ⟨k, hk⟩ := mark_bwd_sound he _ v (h2 v hv)
    exact ⟨k, by rw [iterSucc_orb hr k v hv, hk]; rfl⟩

end Scc

open Scc

theorem runAlg_scc (ps : List Int) (B : Box) : runAlg .scc ps B = .ok (scc ps B) := rfl

theorem sound_scc : Sound .scc := by
  intro ps B st B' hc hne hrun
  rw [runAlg_scc, scc_eq] at hrun
  injection hrun with hrun
  simp only [Contract] at hc
  split at hrun
  · injection hrun with h1 h2; subst h1; subst h2
    exact ⟨fun _ => ⟨Box.le_refl _, hne, fun t ht _ => ht⟩, fun h => by cases h⟩
  · rename_i hno
    injection hrun with h1 h2; subst h1; subst h2
    refine ⟨fun h => absurd rfl h, fun _ t ht hrel => hno ?_⟩
    obtain ⟨a, b⟩ := marks_of_sc ht hc.2 (by omega) hrel
    simp [a, b]

theorem entailOk_scc : EntailOk .scc := by
  intro ps B B' _ _ hrun
  rw [runAlg_scc, scc_eq] at hrun
  injection hrun with hrun
  split at hrun <;> (injection hrun with h1 _; cases h1)

theorem groundOk_scc : GroundOk .scc := by
  intro ps B st B' t hc hne hrun hst hB'
  rw [runAlg_scc, scc_eq] at hrun
  injection hrun with hrun
  simp only [Contract] at hc
  simp only [relW, rel]
  split at hrun
  · rename_i h
    injection hrun with h1 h2
    subst h2; subst hB'
    have hr : InRange t := inRange_of_inBox (inBox_pointBox_self t) hc.2
    have hl : (pointBox t).length = t.length := by simp [pointBox]
    rw [hl] at h
    simp only [Bool.and_eq_true] at h
    exact sc_of_marks hr h.1 h.2
  · injection hrun with h1 _; exact absurd h1.symm hst

theorem Scc.within_of_le {B' B : Box} {lo hi : Int} (hle : Box.le B' B) (hw : B.within lo hi) : B'.within lo hi := by
  intro d hd
  obtain ⟨k, hk, rfl⟩ := List.mem_iff_getElem.mp hd
  have hk' : k < B.length := by rw [← Box.le_length hle]; exact hk
  have h1 := Box.le_get k hle hk'
  have h2 := hw _ (getDom_mem hk')
  have : getDom B' k = B'[k] := by simp [getDom, List.getD, hk]
  rw [this] at h1
  omega

theorem contractMono_scc : ContractMono .scc := by
  intro ps B B' hc hle
  simp only [Contract] at *
  rw [Box.le_length hle]
  exact ⟨hc.1, Scc.within_of_le hle hc.2⟩

theorem safe_scc : Safe .scc := fun ps B _ _ => ⟨_, runAlg_scc ps B⟩

/-- a mask that watches MIN and MAX everywhere: a quiet sub-box is the input itself -/
theorem Scc.trigOk_of_minMax (a : Alg) (hs : Sound a) (hm : ∀ ps n k, maskAlg a ps n k = Ev.minMax) : TrigOk a := by
  intro ps B st B' B'' hc hne hrun hst hle _ hq
  have hB'B := ((hs ps B st B' hc hne hrun).1 hst).1
  have hlen : B''.length = B.length := by rw [Box.le_length hle, Box.le_length hB'B]
  have e : B'' = B := Box.ext_get hlen (fun k hk => by
    have := hq k (by omega)
    rw [hm] at this
    exact eq_of_quiet_minMax this)
  subst e
  have e' : B' = B'' := Box.le_antisymm hB'B hle
  subst e'
  exact ⟨st, hrun, hst⟩

theorem trigOk_scc : TrigOk .scc := Scc.trigOk_of_minMax .scc sound_scc (fun _ _ _ => rfl)

end Nucs
