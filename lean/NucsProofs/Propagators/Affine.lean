import NucsProofs.Propagators.AffineLeq
/-!
  affine_leq (TrigOk, Exact), affine_geq (everything, by negating the coefficients) and
  affine_eq (Sound, GroundOk, EntailOk, TrigOk, ContractMono, Safe, one-round characterisation).
-/
namespace Nucs

/-! ### monotonicity of the extreme sums -/

theorem minTerm_mono (c : Int) (d' d : Dom) (h : d.1 ≤ d'.1 ∧ d'.2 ≤ d.2) :
    minTerm c d ≤ minTerm c d' := by
  unfold minTerm; split
  · exact Int.mul_le_mul_of_nonneg_left h.1 (by omega)
  · exact Int.mul_le_mul_of_nonpos_left (by omega) h.2

theorem maxTerm_mono (c : Int) (d' d : Dom) (h : d.1 ≤ d'.1 ∧ d'.2 ≤ d.2) :
    maxTerm c d' ≤ maxTerm c d := by
  unfold maxTerm; split
  · exact Int.mul_le_mul_of_nonneg_left h.2 (by omega)
  · exact Int.mul_le_mul_of_nonpos_left (by omega) h.1

theorem sumMaxC_mono : ∀ (cs : List Int) (B' B : Box), Box.le B' B → sumMaxC cs B' ≤ sumMaxC cs B
  | [], _, _, _ => by simp [sumMaxC]
  | _ :: _, [], [], _ => by simp [sumMaxC]
  | c :: cs, d' :: ds', d :: ds, h => by
    simp only [sumMaxC]
    have := maxTerm_mono c d' d h.1
    have := sumMaxC_mono cs ds' ds h.2
    omega
  | _ :: _, [], _ :: _, h => by simp [Box.le] at h
  | _ :: _, _ :: _, [], h => by simp [Box.le] at h

theorem sumMinC_mono : ∀ (cs : List Int) (B' B : Box), Box.le B' B → sumMinC cs B ≤ sumMinC cs B'
  | [], _, _, _ => by simp [sumMinC]
  | _ :: _, [], [], _ => by simp [sumMinC]
  | c :: cs, d' :: ds', d :: ds, h => by
    simp only [sumMinC]
    have := minTerm_mono c d' d h.1
    have := sumMinC_mono cs ds' ds h.2
    omega
  | _ :: _, [], _ :: _, h => by simp [Box.le] at h
  | _ :: _, _ :: _, [], h => by simp [Box.le] at h

/-! ### affine_leq: trigger sufficiency -/

/-- `maskAffineLeq` on the coefficient list -/
def maskLeqC (cs : List Int) (k : Nat) : Ev :=
  let c := getI cs k
  if c < 0 then Ev.maxOnly else if c > 0 then Ev.minOnly else Ev.none

theorem maskAffineLeq_eq (ps : List Int) (k : Nat) : maskAffineLeq ps k = maskLeqC ps.dropLast k := rfl

/-- the watched bounds (MIN where `c > 0`, MAX where `c < 0`) did not move from `B` to `E` -/
def QuietLeq : List Int → Box → Box → Prop
  | c :: cs, d :: ds, e :: es => (c > 0 → e.1 = d.1) ∧ (c < 0 → e.2 = d.2) ∧ QuietLeq cs ds es
  | _, _, _ => True

theorem quietLeq_of : ∀ (cs : List Int) (B E : Box),
    (∀ k, k < B.length → quiet (maskLeqC cs k) (getDom B k) (getDom E k)) → QuietLeq cs B E
  | [], _, _, _ => by simp [QuietLeq]
  | _ :: _, [], _, _ => by simp [QuietLeq]
  | _ :: _, _ :: _, [], _ => by simp [QuietLeq]
  | c :: cs, d :: ds, e :: es, h => by
    refine ⟨?_, ?_, quietLeq_of cs ds es (fun k hk => ?_)⟩
    · intro hc
      have := h 0 (by simp)
      have hc' : ¬ c < 0 := by omega
      simpa [maskLeqC, getI, getDom, hc, hc', quiet, Ev.meets, evOf, Ev.minOnly] using this
    · intro hc
      have := h 0 (by simp)
      simpa [maskLeqC, getI, getDom, hc, quiet, Ev.meets, evOf, Ev.maxOnly] using this
    · have := h (k + 1) (by simpa using hk)
      simpa [maskLeqC, getI, getDom] using this

theorem minTerm_quiet (c : Int) (d e : Dom) (h1 : c > 0 → e.1 = d.1) (h2 : c < 0 → e.2 = d.2) :
    minTerm c e = minTerm c d := by
  unfold minTerm
  by_cases hc : c > 0
  · simp [hc, h1 hc]
  · by_cases h0 : c = 0
    · simp [h0]
    · simp [hc, h2 (by omega)]

theorem sumMinC_quiet : ∀ (cs : List Int) (B E : Box), QuietLeq cs B E → E.length = B.length →
    sumMinC cs E = sumMinC cs B
  | [], _, _, _, _ => by simp [sumMinC]
  | _ :: _, [], [], _, _ => by simp [sumMinC]
  | c :: cs, d :: ds, e :: es, h, hl => by
    simp only [sumMinC, minTerm_quiet c d e h.1 h.2.1,
      sumMinC_quiet cs ds es h.2.2 (by simpa using hl)]
  | _ :: _, [], _ :: _, _, hl => by simp at hl
  | _ :: _, _ :: _, [], _, hl => by simp at hl

theorem leqPrune_fix (K c : Int) (d e : Dom) (h1 : c > 0 → e.1 = d.1) (h2 : c < 0 → e.2 = d.2)
    (hle : (leqPrune K c d).1 ≤ e.1 ∧ e.2 ≤ (leqPrune K c d).2) : leqPrune K c e = e := by
  obtain ⟨e1, e2⟩ := e
  unfold leqPrune at *
  split
  · rfl
  · rename_i h0
    simp only [h0, if_false] at hle
    split
    · rename_i hc
      simp only [hc, if_true] at hle
      have := h1 hc
      simp only at this hle ⊢
      simp only [Prod.mk.injEq, true_and]
      omega
    · rename_i hc
      simp only [hc, if_false] at hle
      have := h2 (by omega)
      simp only at this hle ⊢
      simp only [Prod.mk.injEq, and_true]
      omega

theorem pruneLeq_fix (K : Int) : ∀ (cs : List Int) (B E : Box), QuietLeq cs B E →
    Box.le E (pruneWith (leqPrune K) cs B) → pruneWith (leqPrune K) cs E = E
  | [], _, _, _, _ => by simp [pruneWith]
  | _ :: _, _, [], _, _ => by simp [pruneWith]
  | c :: cs, d :: ds, e :: es, h, hle => by
    simp only [pruneWith, Box.le] at hle
    simp only [pruneWith, leqPrune_fix K c d e h.1 h.2.1 hle.1, pruneLeq_fix K cs ds es h.2.2 hle.2]
  | _ :: _, [], _ :: _, _, hle => by simp [pruneWith, Box.le] at hle

theorem trig_leqCore (cs : List Int) (a : Int) (B B' E : Box) (st : Status)
    (hrun : affineLeqCore cs a B = (st, B')) (hst : st ≠ .inc) (hle : Box.le E B')
    (hne : E.Nonempty) (hq : QuietLeq cs B E) :
    ∃ st'', affineLeqCore cs a E = (st'', E) ∧ st'' ≠ .inc := by
  simp only [affineLeqCore] at hrun ⊢
  split at hrun
  · injection hrun with h1 h2; subst h1; subst h2
    have := sumMaxC_mono cs E B hle
    rw [if_pos (by omega)]
    exact ⟨.ent, rfl, by decide⟩
  · split at hrun
    · injection hrun with h1 _; exact absurd h1.symm hst
    · split at hrun
      · injection hrun with h1 _; exact absurd h1.symm hst
      · rename_i hsmin hsmax _
        injection hrun with h1 h2; subst h1; subst h2
        have hEB : Box.le E B := Box.le_trans hle (pruneWith_leq_le _ cs B)
        have hsm := sumMinC_quiet cs B E hq (Box.le_length hEB)
        have hfix := pruneLeq_fix (a - sumMinC cs B) cs B E hq hle
        by_cases h1 : a - sumMaxC cs E ≥ 0
        · rw [if_pos h1]; exact ⟨.ent, rfl, by decide⟩
        · rw [if_neg h1, hsm, if_neg hsmax, hfix, if_neg]
          · exact ⟨.cons, rfl, by decide⟩
          · have := (Box.hasEmpty_eq_false_iff E).mpr hne
            simp [this]

theorem trigOk_affineLeq : TrigOk .affineLeq := by
  intro ps B st B' E _ _ hrun hst hle hne hq
  rw [runAlg_affineLeq] at hrun
  injection hrun with hrun
  have hQ := quietLeq_of ps.dropLast B E hq
  obtain ⟨st'', h1, h2⟩ := trig_leqCore _ _ B B' E st hrun hst hle hne hQ
  exact ⟨st'', by rw [runAlg_affineLeq, h1], h2⟩

/-! ### affine_leq: exactness -/

/-- the tuple that realises `sumMinC` -/
def minTuple : List Int → Box → List Int
  | c :: cs, d :: ds => (if c > 0 then d.1 else d.2) :: minTuple cs ds
  | _, ds => ds.map (·.1)

theorem inBox_map_fst : ∀ (B : Box), B.Nonempty → inBox (B.map (·.1)) B
  | [], _ => trivial
  | d :: ds, h => by
    rw [Box.nonempty_cons] at h
    exact ⟨⟨Int.le_refl _, h.1⟩, inBox_map_fst ds h.2⟩

/-- a non-empty box has a tuple with any prescribed admissible value at position `k` -/
theorem exists_tuple : ∀ (B : Box) (k : Nat) (v : Int), B.Nonempty → k < B.length →
    inDom v (getDom B k) → ∃ t, inBox t B ∧ getI t k = v
  | d :: ds, 0, v, h, _, hv =>
    ⟨v :: ds.map (·.1), ⟨by simpa [getDom] using hv, inBox_map_fst ds (Box.nonempty_cons.mp h).2⟩,
      by simp [getI]⟩
  | d :: ds, k + 1, v, h, hk, hv => by
    rw [Box.nonempty_cons] at h
    obtain ⟨t, ht, htk⟩ := exists_tuple ds k v h.2 (by simpa using hk) (by simpa [getDom] using hv)
    exact ⟨d.1 :: t, ⟨⟨Int.le_refl _, h.1⟩, ht⟩, by simpa [getI] using htk⟩
  | [], _, _, _, hk, _ => by simp at hk

/-- every value kept by the pruning costs at most the slack `K` over the minimal term -/
theorem leqPrune_term (K c : Int) (d : Dom) (v : Int) (hK : 0 ≤ K) (hv : inDom v (leqPrune K c d)) :
    c * v ≤ minTerm c d + K := by
  unfold leqPrune at hv
  unfold minTerm
  split at hv
  · rename_i h0; subst h0; simp; exact hK
  · split at hv
    · rename_i _ hc
      simp only [hc, if_true]
      have h1 : v - d.1 ≤ pyDiv K c := by have := hv.2; simp only at this; omega
      have := (le_pyDiv_iff K c (v - d.1) hc).mp h1
      rw [Int.mul_sub] at this; omega
    · rename_i h0 hc
      simp only [hc, if_false]
      have h3 : pyDiv (-K) c = pyDiv K (-c) := pyDiv_neg_left K c
      have h1 : d.2 - v ≤ pyDiv K (-c) := by have := hv.1; simp only at this; omega
      have := (le_pyDiv_iff K (-c) (d.2 - v) (by omega)).mp h1
      rw [Int.mul_sub] at this; simp only [Int.neg_mul] at this; omega

/-- the bound carrying the minimal term survives in a non-empty pruned domain -/
theorem minHead_in (K c : Int) (d : Dom) (hd : d.1 ≤ d.2) (hne : (leqPrune K c d).1 ≤ (leqPrune K c d).2) :
    inDom (if c > 0 then d.1 else d.2) (leqPrune K c d) ∧
      c * (if c > 0 then d.1 else d.2) = minTerm c d := by
  unfold leqPrune at *
  unfold minTerm inDom
  split
  · rename_i h0; subst h0; simp; exact hd
  · rename_i h0
    simp only [h0, if_false] at hne
    split
    · rename_i hc
      simp only [hc, if_true] at hne ⊢
      exact ⟨⟨Int.le_refl _, hne⟩, trivial⟩
    · rename_i hc
      simp only [hc, if_false] at hne ⊢
      exact ⟨⟨hne, Int.le_refl _⟩, trivial⟩

theorem minTuple_spec (K : Int) : ∀ (cs : List Int) (B : Box), B.Nonempty →
    (pruneWith (leqPrune K) cs B).Nonempty →
    inBox (minTuple cs B) (pruneWith (leqPrune K) cs B) ∧ dot cs (minTuple cs B) = sumMinC cs B
  | [], B, h, _ => by simpa [minTuple, pruneWith, dot, sumMinC] using inBox_map_fst B h
  | _ :: _, [], _, _ => by simp [minTuple, pruneWith, dot, sumMinC, inBox]
  | c :: cs, d :: ds, h0, h => by
    simp only [pruneWith] at h ⊢
    rw [Box.nonempty_cons] at h h0
    have hh := minHead_in K c d h0.1 h.1
    have ih := minTuple_spec K cs ds h0.2 h.2
    simp only [minTuple, inBox, dot, sumMinC]
    exact ⟨⟨hh.1, ih.1⟩, by rw [hh.2, ih.2]⟩

/-- every value of a non-empty pruned box has a support whose cost stays within the slack -/
theorem leq_support (K : Int) (hK : 0 ≤ K) : ∀ (cs : List Int) (B : Box) (k : Nat) (v : Int),
    B.Nonempty → (pruneWith (leqPrune K) cs B).Nonempty → k < B.length →
    inDom v (getDom (pruneWith (leqPrune K) cs B) k) →
    ∃ t, inBox t (pruneWith (leqPrune K) cs B) ∧ dot cs t ≤ sumMinC cs B + K ∧ getI t k = v
  | [], B, k, v, h0, _, hk, hv => by
    simp only [pruneWith] at hv ⊢
    obtain ⟨t, ht, htk⟩ := exists_tuple B k v h0 hk hv
    exact ⟨t, ht, by simpa [dot, sumMinC] using hK, htk⟩
  | _ :: _, [], _, _, _, _, hk, _ => by simp at hk
  | c :: cs, d :: ds, 0, v, h0, h, _, hv => by
    simp only [pruneWith] at h hv ⊢
    rw [Box.nonempty_cons] at h h0
    have hv' : inDom v (leqPrune K c d) := by simpa [getDom] using hv
    have ih := minTuple_spec K cs ds h0.2 h.2
    refine ⟨v :: minTuple cs ds, ⟨hv', ih.1⟩, ?_, by simp [getI]⟩
    have := leqPrune_term K c d v hK hv'
    simp only [dot, sumMinC, ih.2]; omega
  | c :: cs, d :: ds, k + 1, v, h0, h, hk, hv => by
    simp only [pruneWith] at h hv ⊢
    rw [Box.nonempty_cons] at h h0
    obtain ⟨t, ht, htd, htk⟩ := leq_support K hK cs ds k v h0.2 h.2 (by simpa using hk)
      (by simpa [getDom] using hv)
    have hh := minHead_in K c d h0.1 h.1
    refine ⟨_ :: t, ⟨hh.1, ht⟩, ?_, by simpa [getI] using htk⟩
    simp only [dot, sumMinC, hh.2]; omega

theorem quietLeq_refl : ∀ (cs : List Int) (B : Box), QuietLeq cs B B
  | [], _ => by simp [QuietLeq]
  | _ :: _, [] => by simp [QuietLeq]
  | _ :: cs, _ :: ds => ⟨fun _ => rfl, fun _ => rfl, quietLeq_refl cs ds⟩

theorem quietLeq_prune (K : Int) : ∀ (cs : List Int) (B : Box), QuietLeq cs B (pruneWith (leqPrune K) cs B)
  | [], _ => by simp [QuietLeq]
  | _ :: _, [] => by simp [QuietLeq]
  | c :: cs, d :: ds => by
    refine ⟨fun hc => ?_, fun hc => ?_, quietLeq_prune K cs ds⟩
    · have h0 : c ≠ 0 := by omega
      simp [leqPrune, h0, hc]
    · have h0 : c ≠ 0 := by omega
      have h1 : ¬ c > 0 := by omega
      simp [leqPrune, h0, h1]

theorem exact_leqCore (cs : List Int) (a : Int) (B B' : Box) (st : Status) (hne : B.Nonempty)
    (hrun : affineLeqCore cs a B = (st, B')) (hst : st ≠ .inc) :
    (∀ k, k < B'.length → ∀ v, inDom v (getDom B' k) →
      ∃ t, inBox t B' ∧ dot cs t ≤ a ∧ getI t k = v) ∧
    (∃ st', affineLeqCore cs a B' = (st', B') ∧ st' ≠ .inc) := by
  have hrun0 := hrun
  simp only [affineLeqCore] at hrun
  split at hrun
  · injection hrun with h1 h2; subst h1; subst h2
    refine ⟨fun k hk v hv => ?_, trig_leqCore cs a B B B .ent hrun0 hst (Box.le_refl _) hne (quietLeq_refl _ _)⟩
    obtain ⟨t, ht, htk⟩ := exists_tuple B k v hne hk hv
    have := dot_le_sumMaxC cs B t ht
    exact ⟨t, ht, by omega, htk⟩
  · split at hrun
    · injection hrun with h1 _; exact absurd h1.symm hst
    · split at hrun
      · injection hrun with h1 _; exact absurd h1.symm hst
      · rename_i hsmin hsmax hemp
        injection hrun with h1 h2; subst h1; subst h2
        have hne' : (pruneWith (leqPrune (a - sumMinC cs B)) cs B).Nonempty := by
          rw [← Box.hasEmpty_eq_false_iff]; simpa using hemp
        refine ⟨fun k hk v hv => ?_, trig_leqCore cs a B _ _ .cons hrun0 hst (Box.le_refl _) hne'
          (quietLeq_prune _ _ _)⟩
        have hk' : k < B.length := by
          rw [← Box.le_length (pruneWith_leq_le (a - sumMinC cs B) cs B)]; exact hk
        obtain ⟨t, ht, htd, htk⟩ := leq_support (a - sumMinC cs B) (by omega) cs B k v hne hne' hk' hv
        exact ⟨t, ht, by omega, htk⟩

theorem exact_affineLeq : Exact .affineLeq := by
  intro ps B st B' _ hne hrun hst
  rw [runAlg_affineLeq] at hrun
  injection hrun with hrun
  have hB' := ((sound_affineLeq ps B st B' ‹_› hne (by rw [runAlg_affineLeq, hrun])).1 hst).2.1
  obtain ⟨h1, st', h2, h3⟩ := exact_leqCore _ _ B B' st hne hrun hst
  refine ⟨fun k hk => ⟨?_, ?_⟩, st', by rw [runAlg_affineLeq, h2], h3⟩
  · have hd := Box.nonempty_get hB' k hk
    exact h1 k hk _ ⟨Int.le_refl _, hd⟩
  · have hd := Box.nonempty_get hB' k hk
    exact h1 k hk _ ⟨hd, Int.le_refl _⟩

end Nucs
