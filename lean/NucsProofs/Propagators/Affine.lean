import NucsProofs.Propagators.AffineLeq
/-!
  affine_leq (TrigOk, Exact), affine_geq (everything, by negating the coefficients) and
  affine_eq (Sound, GroundOk, EntailOk, TrigOk, ContractMono, Safe, one-round characterisation).
-/
namespace Nucs

/-! ### monotonicity of the extreme sums -/

theorem minTerm_mono (c : Int) (d' d : Dom) (h : d.1 ≤ d'.1 ∧ d'.2 ≤ d.2) :
    minTerm c d ≤ minTerm c d' := by
  unfold minTerm; split
  · exact Int.mul_le_mul_of_nonneg_left h.1 (by omega)
  · exact Int.mul_le_mul_of_nonpos_left (by omega) h.2

theorem maxTerm_mono (c : Int) (d' d : Dom) (h : d.1 ≤ d'.1 ∧ d'.2 ≤ d.2) :
    maxTerm c d' ≤ maxTerm c d := by
  unfold maxTerm; split
  · exact Int.mul_le_mul_of_nonneg_left h.2 (by omega)
  · exact Int.mul_le_mul_of_nonpos_left (by omega) h.1

theorem sumMaxC_mono : ∀ (cs : List Int) (B' B : Box), Box.le B' B → sumMaxC cs B' ≤ sumMaxC cs B
  | [], _, _, _ => by simp [sumMaxC]
  | _ :: _, [], [], _ => by simp [sumMaxC]
  | c :: cs, d' :: ds', d :: ds, h => by
    simp only [sumMaxC]
    have := maxTerm_mono c d' d h.1
    have := sumMaxC_mono cs ds' ds h.2
    omega
  | _ :: _, [], _ :: _, h => by simp [Box.le] at h
  | _ :: _, _ :: _, [], h => by simp [Box.le] at h

theorem sumMinC_mono : ∀ (cs : List Int) (B' B : Box), Box.le B' B → sumMinC cs B ≤ sumMinC cs B'
  | [], _, _, _ => by simp [sumMinC]
  | _ :: _, [], [], _ => by simp [sumMinC]
  | c :: cs, d' :: ds', d :: ds, h => by
    simp only [sumMinC]
    have := minTerm_mono c d' d h.1
    have := sumMinC_mono cs ds' ds h.2
    omega
  | _ :: _, [], _ :: _, h => by simp [Box.le] at h
  | _ :: _, _ :: _, [], h => by simp [Box.le] at h

/-! ### affine_leq: trigger sufficiency -/

/-- `maskAffineLeq` on the coefficient list -/
def maskLeqC (cs : List Int) (k : Nat) : Ev :=
  let c := getI cs k
  if c < 0 then Ev.maxOnly else if c > 0 then Ev.minOnly else Ev.none

theorem maskAffineLeq_eq (ps : List Int) (k : Nat) : maskAffineLeq ps k = maskLeqC ps.dropLast k := rfl

/-- the watched bounds (MIN where `c > 0`, MAX where `c < 0`) did not move from `B` to `E` -/
def QuietLeq : List Int → Box → Box → Prop
  | c :: cs, d :: ds, e :: es => (c > 0 → e.1 = d.1) ∧ (c < 0 → e.2 = d.2) ∧ QuietLeq cs ds es
  | _, _, _ => True

theorem quietLeq_of : ∀ (cs : List Int) (B E : Box),
    (∀ k, k < B.length → quiet (maskLeqC cs k) (getDom B k) (getDom E k)) → QuietLeq cs B E
  | [], _, _, _ => by simp [QuietLeq]
  | _ :: _, [], _, _ => by simp [QuietLeq]
  | _ :: _, _ :: _, [], _ => by simp [QuietLeq]
  | c :: cs, d :: ds, e :: es, h => by
    refine ⟨?_, ?_, quietLeq_of cs ds es (fun k hk => ?_)⟩
    · intro hc
      have := h 0 (by simp)
      have hc' : ¬ c < 0 := by omega
      simpa [maskLeqC, getI, getDom, hc, hc', quiet, Ev.meets, evOf, Ev.minOnly] using this
    · intro hc
      have := h 0 (by simp)
      simpa [maskLeqC, getI, getDom, hc, quiet, Ev.meets, evOf, Ev.maxOnly] using this
    · have := h (k + 1) (by simpa using hk)
      simpa [maskLeqC, getI, getDom] using this

theorem minTerm_quiet (c : Int) (d e : Dom) (h1 : c > 0 → e.1 = d.1) (h2 : c < 0 → e.2 = d.2) :
    minTerm c e = minTerm c d := by
  unfold minTerm
  by_cases hc : c > 0
  · simp [hc, h1 hc]
  · by_cases h0 : c = 0
    · simp [h0]
    · simp [hc, h2 (by omega)]

theorem sumMinC_quiet : ∀ (cs : List Int) (B E : Box), QuietLeq cs B E → E.length = B.length →
    sumMinC cs E = sumMinC cs B
  | [], _, _, _, _ => by simp [sumMinC]
  | _ :: _, [], [], _, _ => by simp [sumMinC]
  | c :: cs, d :: ds, e :: es, h, hl => by
    simp only [sumMinC, minTerm_quiet c d e h.1 h.2.1,
      sumMinC_quiet cs ds es h.2.2 (by simpa using hl)]
  | _ :: _, [], _ :: _, _, hl => by simp at hl
  | _ :: _, _ :: _, [], _, hl => by simp at hl

theorem leqPrune_fix (K c : Int) (d e : Dom) (h1 : c > 0 → e.1 = d.1) (h2 : c < 0 → e.2 = d.2)
    (hle : (leqPrune K c d).1 ≤ e.1 ∧ e.2 ≤ (leqPrune K c d).2) : leqPrune K c e = e := by
  obtain ⟨e1, e2⟩ := e
  unfold leqPrune at *
  split
  · rfl
  · rename_i h0
    simp only [h0, if_false] at hle
    split
    · rename_i hc
      simp only [hc, if_true] at hle
      have := h1 hc
      simp only at this hle ⊢
      simp only [Prod.mk.injEq, true_and]
      omega
    · rename_i hc
      simp only [hc, if_false] at hle
      have := h2 (by omega)
      simp only at this hle ⊢
      simp only [Prod.mk.injEq, and_true]
      omega

theorem pruneLeq_fix (K : Int) : ∀ (cs : List Int) (B E : Box), QuietLeq cs B E →
    Box.le E (pruneWith (leqPrune K) cs B) → pruneWith (leqPrune K) cs E = E
  | [], _, _, _, _ => by simp [pruneWith]
  | _ :: _, _, [], _, _ => by simp [pruneWith]
  | c :: cs, d :: ds, e :: es, h, hle => by
    simp only [pruneWith, Box.le] at hle
    simp only [pruneWith, leqPrune_fix K c d e h.1 h.2.1 hle.1, pruneLeq_fix K cs ds es h.2.2 hle.2]
  | _ :: _, [], _ :: _, _, hle => by simp [pruneWith, Box.le] at hle

theorem trig_leqCore (cs : List Int) (a : Int) (B B' E : Box) (st : Status)
    (hrun : affineLeqCore cs a B = (st, B')) (hst : st ≠ .inc) (hle : Box.le E B')
    (hne : E.Nonempty) (hq : QuietLeq cs B E) :
    ∃ st'', affineLeqCore cs a E = (st'', E) ∧ st'' ≠ .inc := by
  simp only [affineLeqCore] at hrun ⊢
  split at hrun
  · injection hrun with h1 h2; subst h1; subst h2
    have := sumMaxC_mono cs E B hle
    rw [if_pos (by omega)]
    exact ⟨.ent, rfl, by decide⟩
  · split at hrun
    · injection hrun with h1 _; exact absurd h1.symm hst
    · split at hrun
      · injection hrun with h1 _; exact absurd h1.symm hst
      · rename_i hsmin hsmax _
        injection hrun with h1 h2; subst h1; subst h2
        have hEB : Box.le E B := Box.le_trans hle (pruneWith_leq_le _ cs B)
        have hsm := sumMinC_quiet cs B E hq (Box.le_length hEB)
        have hfix := pruneLeq_fix (a - sumMinC cs B) cs B E hq hle
        by_cases h1 : a - sumMaxC cs E ≥ 0
        · rw [if_pos h1]; exact ⟨.ent, rfl, by decide⟩
        · rw [if_neg h1, hsm, if_neg hsmax, hfix, if_neg]
          · exact ⟨.cons, rfl, by decide⟩
          · have := (Box.hasEmpty_eq_false_iff E).mpr hne
            simp [this]

theorem trigOk_affineLeq : TrigOk .affineLeq := by
  intro ps B st B' E _ _ hrun hst hle hne hq
  rw [runAlg_affineLeq] at hrun
  injection hrun with hrun
  have hQ := quietLeq_of ps.dropLast B E hq
  obtain ⟨st'', h1, h2⟩ := trig_leqCore _ _ B B' E st hrun hst hle hne hQ
  exact ⟨st'', by rw [runAlg_affineLeq, h1], h2⟩

/-! ### affine_leq: exactness -/

/-- the tuple that realises `sumMinC` -/
def minTuple : List Int → Box → List Int
  | c :: cs, d :: ds => (if c > 0 then d.1 else d.2) :: minTuple cs ds
  | _, ds => ds.map (·.1)

theorem inBox_map_fst : ∀ (B : Box), B.Nonempty → inBox (B.map (·.1)) B
  | [], _ => trivial
  | d :: ds, h => by
    rw [Box.nonempty_cons] at h
    exact ⟨⟨Int.le_refl _, h.1⟩, inBox_map_fst ds h.2⟩

/-- a non-empty box has a tuple with any prescribed admissible value at position `k` -/
theorem exists_tuple : ∀ (B : Box) (k : Nat) (v : Int), B.Nonempty → k < B.length →
    inDom v (getDom B k) → ∃ t, inBox t B ∧ getI t k = v
  | d :: ds, 0, v, h, _, hv =>
    ⟨v :: ds.map (·.1), ⟨by simpa [getDom] using hv, inBox_map_fst ds (Box.nonempty_cons.mp h).2⟩,
      by simp [getI]⟩
  | d :: ds, k + 1, v, h, hk, hv => by
    rw [Box.nonempty_cons] at h
    obtain ⟨t, ht, htk⟩ := exists_tuple ds k v h.2 (by simpa using hk) (by simpa [getDom] using hv)
    exact ⟨d.1 :: t, ⟨⟨Int.le_refl _, h.1⟩, ht⟩, by simpa [getI] using htk⟩
  | [], _, _, _, hk, _ => by simp at hk

/-- every value kept by the pruning costs at most the slack `K` over the minimal term -/
theorem leqPrune_term (K c : Int) (d : Dom) (v : Int) (hK : 0 ≤ K) (hv : inDom v (leqPrune K c d)) :
    c * v ≤ minTerm c d + K := by
  unfold leqPrune at hv
  unfold minTerm
  split at hv
  · rename_i h0; subst h0; simp; exact hK
  · split at hv
    · rename_i _ hc
      simp only [hc, if_true]
      have h1 : v - d.1 ≤ pyDiv K c := by have := hv.2; simp only at this; omega
      have := (le_pyDiv_iff K c (v - d.1) hc).mp h1
      rw [Int.mul_sub] at this; omega
    · rename_i h0 hc
      simp only [hc, if_false]
      have h3 : pyDiv (-K) c = pyDiv K (-c) := pyDiv_neg_left K c
      have h1 : d.2 - v ≤ pyDiv K (-c) := by have := hv.1; simp only at this; omega
      have := (le_pyDiv_iff K (-c) (d.2 - v) (by omega)).mp h1
      rw [Int.mul_sub] at this; simp only [Int.neg_mul] at this; omega

/-- the bound carrying the minimal term survives in a non-empty pruned domain -/
theorem minHead_in (K c : Int) (d : Dom) (hd : d.1 ≤ d.2) (hne : (leqPrune K c d).1 ≤ (leqPrune K c d).2) :
    inDom (if c > 0 then d.1 else d.2) (leqPrune K c d) ∧
      c * (if c > 0 then d.1 else d.2) = minTerm c d := by
  unfold leqPrune at *
  unfold minTerm inDom
  split
  · rename_i h0; subst h0; simp; exact hd
  · rename_i h0
    simp only [h0, if_false] at hne
    split
    · rename_i hc
      simp only [hc, if_true] at hne ⊢
      exact ⟨⟨Int.le_refl _, hne⟩, trivial⟩
    · rename_i hc
      simp only [hc, if_false] at hne ⊢
      exact ⟨⟨hne, Int.le_refl _⟩, trivial⟩

theorem minTuple_spec (K : Int) : ∀ (cs : List Int) (B : Box), B.Nonempty →
    (pruneWith (leqPrune K) cs B).Nonempty →
    inBox (minTuple cs B) (pruneWith (leqPrune K) cs B) ∧ dot cs (minTuple cs B) = sumMinC cs B
  | [], B, h, _ => by simpa [minTuple, pruneWith, dot, sumMinC] using inBox_map_fst B h
  | _ :: _, [], _, _ => by simp [minTuple, pruneWith, dot, sumMinC, inBox]
  | c :: cs, d :: ds, h0, h => by
    simp only [pruneWith] at h ⊢
    rw [Box.nonempty_cons] at h h0
    have hh := minHead_in K c d h0.1 h.1
    have ih := minTuple_spec K cs ds h0.2 h.2
    simp only [minTuple, inBox, dot, sumMinC]
    exact ⟨⟨hh.1, ih.1⟩, by rw [hh.2, ih.2]⟩

/-- every value of a non-empty pruned box has a support whose cost stays within the slack -/
theorem leq_support (K : Int) (hK : 0 ≤ K) : ∀ (cs : List Int) (B : Box) (k : Nat) (v : Int),
    B.Nonempty → (pruneWith (leqPrune K) cs B).Nonempty → k < B.length →
    inDom v (getDom (pruneWith (leqPrune K) cs B) k) →
    ∃ t, inBox t (pruneWith (leqPrune K) cs B) ∧ dot cs t ≤ sumMinC cs B + K ∧ getI t k = v
  | [], B, k, v, h0, _, hk, hv => by
    simp only [pruneWith] at hv ⊢
    obtain ⟨t, ht, htk⟩ := exists_tuple B k v h0 hk hv
    exact ⟨t, ht, by simpa [dot, sumMinC] using hK, htk⟩
  | _ :: _, [], _, _, _, _, hk, _ => by simp at hk
  | c :: cs, d :: ds, 0, v, h0, h, _, hv => by
    simp only [pruneWith] at h hv ⊢
    rw [Box.nonempty_cons] at h h0
    have hv' : inDom v (leqPrune K c d) := by simpa [getDom] using hv
    have ih := minTuple_spec K cs ds h0.2 h.2
    refine ⟨v :: minTuple cs ds, ⟨hv', ih.1⟩, ?_, by simp [getI]⟩
    have := leqPrune_term K c d v hK hv'
    simp only [dot, sumMinC, ih.2]; omega
  | c :: cs, d :: ds, k + 1, v, h0, h, hk, hv => by
    simp only [pruneWith] at h hv ⊢
    rw [Box.nonempty_cons] at h h0
    obtain ⟨t, ht, htd, htk⟩ := leq_support K hK cs ds k v h0.2 h.2 (by simpa using hk)
      (by simpa [getDom] using hv)
    have hh := minHead_in K c d h0.1 h.1
    refine ⟨_ :: t, ⟨hh.1, ht⟩, ?_, by simpa [getI] using htk⟩
    simp only [dot, sumMinC, hh.2]; omega

theorem quietLeq_refl : ∀ (cs : List Int) (B : Box), QuietLeq cs B B
  | [], _ => by simp [QuietLeq]
  | _ :: _, [] => by simp [QuietLeq]
  | _ :: cs, _ :: ds => ⟨fun _ => rfl, fun _ => rfl, quietLeq_refl cs ds⟩

theorem quietLeq_prune (K : Int) : ∀ (cs : List Int) (B : Box), QuietLeq cs B (pruneWith (leqPrune K) cs B)
  | [], _ => by simp [QuietLeq]
  | _ :: _, [] => by simp [QuietLeq]
  | c :: cs, d :: ds => by
    refine ⟨fun hc => ?_, fun hc => ?_, quietLeq_prune K cs ds⟩
    · have h0 : c ≠ 0 := by omega
      simp [leqPrune, h0, hc]
    · have h0 : c ≠ 0 := by omega
      have h1 : ¬ c > 0 := by omega
      simp [leqPrune, h0, h1]

theorem exact_leqCore (cs : List Int) (a : Int) (B B' : Box) (st : Status) (hne : B.Nonempty)
    (hrun : affineLeqCore cs a B = (st, B')) (hst : st ≠ .inc) :
    (∀ k, k < B'.length → ∀ v, inDom v (getDom B' k) →
      ∃ t, inBox t B' ∧ dot cs t ≤ a ∧ getI t k = v) ∧
    (∃ st', affineLeqCore cs a B' = (st', B') ∧ st' ≠ .inc) := by
  have hrun0 := hrun
  simp only [affineLeqCore] at hrun
  split at hrun
  · injection hrun with h1 h2; subst h1; subst h2
    refine ⟨fun k hk v hv => ?_, trig_leqCore cs a B B B .ent hrun0 hst (Box.le_refl _) hne (quietLeq_refl _ _)⟩
    obtain ⟨t, ht, htk⟩ := exists_tuple B k v hne hk hv
    have := dot_le_sumMaxC cs B t ht
    exact ⟨t, ht, by omega, htk⟩
  · split at hrun
    · injection hrun with h1 _; exact absurd h1.symm hst
    · split at hrun
      · injection hrun with h1 _; exact absurd h1.symm hst
      · rename_i hsmin hsmax hemp
        injection hrun with h1 h2; subst h1; subst h2
        have hne' : (pruneWith (leqPrune (a - sumMinC cs B)) cs B).Nonempty := by
          rw [← Box.hasEmpty_eq_false_iff]; simpa using hemp
        refine ⟨fun k hk v hv => ?_, trig_leqCore cs a B _ _ .cons hrun0 hst (Box.le_refl _) hne'
          (quietLeq_prune _ _ _)⟩
        have hk' : k < B.length := by
          rw [← Box.le_length (pruneWith_leq_le (a - sumMinC cs B) cs B)]; exact hk
        obtain ⟨t, ht, htd, htk⟩ := leq_support (a - sumMinC cs B) (by omega) cs B k v hne hne' hk' hv
        exact ⟨t, ht, by omega, htk⟩

theorem exact_affineLeq : Exact .affineLeq := by
  intro ps B st B' _ hne hrun hst
  rw [runAlg_affineLeq] at hrun
  injection hrun with hrun
  have hB' := ((sound_affineLeq ps B st B' ‹_› hne (by rw [runAlg_affineLeq, hrun])).1 hst).2.1
  obtain ⟨h1, st', h2, h3⟩ := exact_leqCore _ _ B B' st hne hrun hst
  refine ⟨fun k hk => ⟨?_, ?_⟩, st', by rw [runAlg_affineLeq, h2], h3⟩
  · have hd := Box.nonempty_get hB' k hk
    exact h1 k hk _ ⟨Int.le_refl _, hd⟩
  · have hd := Box.nonempty_get hB' k hk
    exact h1 k hk _ ⟨hd, Int.le_refl _⟩

/-! ### affine_geq is affine_leq on the negated parameters -/

def negL (cs : List Int) : List Int := cs.map (fun c => -c)
/-- `Σ c x ≥ a` as `Σ (-c) x ≤ -a` -/
def negPs (ps : List Int) : List Int := negL ps.dropLast ++ [-(ps.getLastD 0)]

theorem minTerm_neg (c : Int) (d : Dom) : minTerm (-c) d = - maxTerm c d := by
  unfold minTerm maxTerm
  by_cases hc : c > 0
  · have : ¬ (-c > 0) := by omega
    simp only [hc, this, if_true, if_false, Int.neg_mul]
  · by_cases h0 : c = 0
    · simp [h0]
    · have : -c > 0 := by omega
      simp only [hc, this, if_true, if_false, Int.neg_mul]

theorem maxTerm_neg (c : Int) (d : Dom) : maxTerm (-c) d = - minTerm c d := by
  unfold minTerm maxTerm
  by_cases hc : c > 0
  · have : ¬ (-c > 0) := by omega
    simp only [hc, this, if_true, if_false, Int.neg_mul]
  · by_cases h0 : c = 0
    · simp [h0]
    · have : -c > 0 := by omega
      simp only [hc, this, if_true, if_false, Int.neg_mul]

theorem sumMinC_neg : ∀ (cs : List Int) (B : Box), sumMinC (negL cs) B = - sumMaxC cs B
  | [], _ => by simp [negL, sumMinC, sumMaxC]
  | _ :: _, [] => by simp [negL, sumMinC, sumMaxC]
  | c :: cs, d :: ds => by
    have := sumMinC_neg cs ds
    simp only [negL, List.map_cons, sumMinC, sumMaxC, minTerm_neg] at *
    omega

theorem sumMaxC_neg : ∀ (cs : List Int) (B : Box), sumMaxC (negL cs) B = - sumMinC cs B
  | [], _ => by simp [negL, sumMinC, sumMaxC]
  | _ :: _, [] => by simp [negL, sumMinC, sumMaxC]
  | c :: cs, d :: ds => by
    have := sumMaxC_neg cs ds
    simp only [negL, List.map_cons, sumMinC, sumMaxC, maxTerm_neg] at *
    omega

theorem dot_neg : ∀ (cs t : List Int), dot (negL cs) t = - dot cs t
  | [], _ => by simp [negL, dot]
  | _ :: _, [] => by simp [negL, dot]
  | c :: cs, x :: xs => by
    have := dot_neg cs xs
    simp only [negL, List.map_cons, dot, Int.neg_mul] at *
    omega

theorem geqPrune_eq (s c : Int) (d : Dom) : geqPrune s c d = leqPrune (-s) (-c) d := by
  unfold geqPrune leqPrune
  by_cases h0 : c = 0
  · simp [h0]
  · by_cases hc : c > 0
    · have h1 : ¬ (-c = 0) := by omega
      have h2 : ¬ (-c > 0) := by omega
      simp only [h0, hc, h1, h2, if_true, if_false, Int.neg_neg]
    · have h1 : ¬ (-c = 0) := by omega
      have h2 : -c > 0 := by omega
      simp only [h0, hc, h1, h2, if_true, if_false]

theorem pruneWith_geq (s : Int) : ∀ (cs : List Int) (B : Box),
    pruneWith (geqPrune s) cs B = pruneWith (leqPrune (-s)) (negL cs) B
  | [], _ => by simp [negL, pruneWith]
  | _ :: _, [] => by simp [negL, pruneWith]
  | c :: cs, d :: ds => by
    have := pruneWith_geq s cs ds
    simp only [negL, List.map_cons, pruneWith, geqPrune_eq] at *
    rw [this]

theorem affineGeqCore_eq (cs : List Int) (a : Int) (B : Box) :
    affineGeqCore cs a B = affineLeqCore (negL cs) (-a) B := by
  simp only [affineGeqCore, affineLeqCore, sumMinC_neg, sumMaxC_neg, pruneWith_geq]
  have e : -a - -sumMaxC cs B = -(a - sumMaxC cs B) := by omega
  have c1 : (-a - -sumMinC cs B ≥ 0) ↔ (a - sumMinC cs B ≤ 0) := by omega
  have c2 : (-(a - sumMaxC cs B) < 0) ↔ (a - sumMaxC cs B > 0) := by omega
  simp only [e, c1, c2]

theorem negPs_dropLast (ps : List Int) : (negPs ps).dropLast = negL ps.dropLast := by
  simp [negPs]

theorem negPs_last (ps : List Int) : (negPs ps).getLastD 0 = -(ps.getLastD 0) := by
  simp [negPs]

theorem runAlg_affineGeq (ps : List Int) (B : Box) :
    runAlg .affineGeq ps B = .ok (affineGeqCore ps.dropLast (ps.getLastD 0) B) := rfl

theorem runAlg_geq_eq (ps : List Int) (B : Box) :
    runAlg .affineGeq ps B = runAlg .affineLeq (negPs ps) B := by
  rw [runAlg_affineGeq, runAlg_affineLeq, negPs_dropLast, negPs_last, affineGeqCore_eq]

theorem rel_geq (ps t : List Int) : rel .affineGeq ps t ↔ rel .affineLeq (negPs ps) t := by
  simp only [rel, negPs_dropLast, negPs_last, dot_neg]; omega

theorem contract_geq {ps : List Int} {B : Box} (h : Contract .affineGeq ps B) :
    Contract .affineLeq (negPs ps) B := by
  simp only [Contract] at *
  simp [negPs, negL]; omega

theorem getI_negL (cs : List Int) (k : Nat) : getI (negL cs) k = - getI cs k := by
  simp only [getI, negL, List.getD_eq_getElem?_getD, List.getElem?_map]
  cases cs[k]? <;> simp

theorem mask_geq (ps : List Int) (n k : Nat) :
    maskAlg .affineGeq ps n k = maskAlg .affineLeq (negPs ps) n k := by
  simp only [maskAlg, maskAffineGeq, maskAffineLeq, negPs_dropLast, getI_negL]
  by_cases h1 : getI ps.dropLast k < 0
  · rw [if_pos h1, if_neg (by omega), if_pos (by omega)]
  · by_cases h2 : getI ps.dropLast k > 0
    · rw [if_neg h1, if_pos h2, if_pos (by omega)]
    · rw [if_neg h1, if_neg h2, if_neg (by omega), if_neg (by omega)]

theorem sound_affineGeq : Sound .affineGeq := by
  intro ps B st B' hc hne hrun
  rw [runAlg_geq_eq] at hrun
  have := sound_affineLeq (negPs ps) B st B' (contract_geq hc) hne hrun
  simp only [rel_geq]
  exact this

theorem entailOk_affineGeq : EntailOk .affineGeq := by
  intro ps B B' hc hne hrun t ht
  rw [runAlg_geq_eq] at hrun
  rw [rel_geq]
  exact entailOk_affineLeq (negPs ps) B B' (contract_geq hc) hne hrun t ht

theorem groundOk_affineGeq : GroundOk .affineGeq := by
  intro ps B st B' t hc hne hrun hst hB'
  rw [runAlg_geq_eq] at hrun
  show rel .affineGeq ps t
  rw [rel_geq]
  exact groundOk_affineLeq (negPs ps) B st B' t (contract_geq hc) hne hrun hst hB'

theorem contractMono_affineGeq : ContractMono .affineGeq := by
  intro ps B B' hc hle
  simp only [Contract] at *
  rw [Box.le_length hle]; exact hc

theorem safe_affineGeq : Safe .affineGeq := fun ps B _ _ => ⟨_, runAlg_affineGeq ps B⟩

theorem trigOk_affineGeq : TrigOk .affineGeq := by
  intro ps B st B' E hc hne hrun hst hle hne' hq
  rw [runAlg_geq_eq] at hrun ⊢
  exact trigOk_affineLeq (negPs ps) B st B' E (contract_geq hc) hne hrun hst hle hne'
    (fun k hk => by rw [← mask_geq]; exact hq k hk)

theorem exact_affineGeq : Exact .affineGeq := by
  intro ps B st B' hc hne hrun hst
  rw [runAlg_geq_eq] at hrun
  have := exact_affineLeq (negPs ps) B st B' (contract_geq hc) hne hrun hst
  simp only [rel_geq, runAlg_geq_eq]
  exact this

/-! ### a mask watching MIN|MAX everywhere makes trigger sufficiency trivial -/

/-- if every position watches MIN and MAX, a quiet sub-box of the result is the input itself,
    hence (the call being contracting) the result is the input: it was already a fixpoint -/
theorem trigOk_of_minMax (a : Alg) (hmask : ∀ ps n k, maskAlg a ps n k = Ev.minMax) (hs : Sound a) :
    TrigOk a := by
  intro ps B st B' E hc hne hrun hst hle _ hq
  have hB' := ((hs ps B st B' hc hne hrun).1 hst).1
  have hlen : E.length = B.length := by rw [Box.le_length hle, Box.le_length hB']
  have hEB : E = B := by
    refine Box.ext_get hlen (fun k hk => ?_)
    have := hq k (hlen ▸ hk)
    rw [hmask] at this
    exact eq_of_quiet_minMax this
  subst hEB
  have : B' = E := Box.le_antisymm hB' hle
  subst this
  exact ⟨st, hrun, hst⟩

/-! ### affine_eq -/

/-- the new domain of a variable with `c ≠ 0`, without floor/ceiling: `v` stays iff it was in the
    old domain and `c·v` lies between `smin + maxTerm` and `smax + minTerm` -/
theorem eqPrune_iff (smin smax c : Int) (d : Dom) (v : Int) (h0 : c ≠ 0) :
    inDom v (eqPrune smin smax c d) ↔
      inDom v d ∧ smin + maxTerm c d ≤ c * v ∧ c * v ≤ smax + minTerm c d := by
  unfold eqPrune inDom minTerm maxTerm
  by_cases hc : c > 0
  · simp only [h0, hc, if_true, if_false]
    have e1 : pyDiv smin (-c) = pyDiv (-smin) c := (pyDiv_neg_left smin c).symm
    have A := le_pyDiv_iff (-smin) c (d.2 - v) hc
    have B := le_pyDiv_iff smax c (v - d.1) hc
    rw [Int.mul_sub] at A B
    rw [e1]
    omega
  · have hneg : 0 < -c := by omega
    simp only [h0, hc, if_false]
    have e1 : pyDiv (-smax) c = pyDiv smax (-c) := pyDiv_neg_left smax c
    have A := le_pyDiv_iff smax (-c) (d.2 - v) hneg
    have B := le_pyDiv_iff (-smin) (-c) (v - d.1) hneg
    rw [Int.mul_sub] at A B
    simp only [Int.neg_mul] at A B
    rw [e1]
    omega

theorem eqPrune_le (smin smax c : Int) (d : Dom) :
    d.1 ≤ (eqPrune smin smax c d).1 ∧ (eqPrune smin smax c d).2 ≤ d.2 := by
  unfold eqPrune
  split
  · exact ⟨Int.le_refl _, Int.le_refl _⟩
  · split <;> simp only <;> omega

theorem pruneWith_eq_le (smin smax : Int) : ∀ (cs : List Int) (B : Box),
    Box.le (pruneWith (eqPrune smin smax) cs B) B
  | [], B => by simpa [pruneWith] using Box.le_refl B
  | _ :: _, [] => by simp [pruneWith, Box.le]
  | c :: cs, d :: ds => ⟨eqPrune_le smin smax c d, pruneWith_eq_le smin smax cs ds⟩

/-- a solution survives: generalised over `Kmin ≤ dot - sumMaxC` and `dot - sumMinC ≤ Kmax` -/
theorem eq_keep (Kmin Kmax : Int) : ∀ (cs : List Int) (B : Box) (t : List Int),
    inBox t B → Kmin ≤ dot cs t - sumMaxC cs B → dot cs t - sumMinC cs B ≤ Kmax →
    inBox t (pruneWith (eqPrune Kmin Kmax) cs B)
  | [], B, t, h, _, _ => by simpa [pruneWith] using h
  | _ :: _, [], [], _, _, _ => by simp [pruneWith, inBox]
  | c :: cs, d :: ds, x :: xs, h, h1, h2 => by
    simp only [pruneWith, inBox]
    simp only [dot, sumMinC, sumMaxC] at h1 h2
    have := sumMinC_le_dot cs ds xs h.2
    have := dot_le_sumMaxC cs ds xs h.2
    have := minTerm_le c d x h.1
    have := le_maxTerm c d x h.1
    refine ⟨?_, eq_keep Kmin Kmax cs ds xs h.2 (by omega) (by omega)⟩
    by_cases h0 : c = 0
    · simpa [eqPrune, h0] using h.1
    · rw [eqPrune_iff _ _ _ _ _ h0]
      exact ⟨h.1, by omega, by omega⟩
  | _ :: _, [], _ :: _, h, _, _ => by simp [inBox] at h
  | _ :: _, _ :: _, [], h, _, _ => by simp [inBox] at h

/-- on a box whose first `|cs|` domains are instantiated, the linear form of any tuple of the box
    is the one the code computes from the lower bounds -/
theorem dot_of_ground : ∀ (cs : List Int) (B : Box) (t : List Int), inBox t B →
    Box.isGround (B.take cs.length) = true → dot cs t = dot cs (B.map (·.1))
  | [], _, _, _, _ => by simp [dot]
  | _ :: _, [], [], _, _ => by simp [dot]
  | c :: cs, d :: ds, x :: xs, h, hg => by
    simp only [List.length_cons, List.take_succ_cons, Box.isGround, List.all_cons, Bool.and_eq_true,
      Dom.isGround, beq_iff_eq] at hg
    have ih := dot_of_ground cs ds xs h.2 (by simpa [Box.isGround] using hg.2)
    have hx : d.1 ≤ x ∧ x ≤ d.2 := h.1
    have : x = d.1 := by omega
    simp only [dot, List.map_cons, ih, this]
  | _ :: _, [], _ :: _, h, _ => by simp [inBox] at h
  | _ :: _, _ :: _, [], h, _ => by simp [inBox] at h

theorem runAlg_affineEq (ps : List Int) (B : Box) :
    runAlg .affineEq ps B = .ok (affineEqCore ps.dropLast (ps.getLastD 0) B) := rfl

theorem sound_affineEq : Sound .affineEq := by
  intro ps B st B' _ hne hrun
  rw [runAlg_affineEq] at hrun
  injection hrun with hrun
  simp only [affineEqCore] at hrun
  simp only [rel]
  generalize ps.dropLast = cs at *
  generalize ps.getLastD 0 = a at *
  split at hrun
  · rename_i hs
    injection hrun with h1 h2; subst h1; subst h2
    refine ⟨fun h => absurd rfl h, fun _ t ht hrel => ?_⟩
    have := sumMinC_le_dot cs B t ht
    have := dot_le_sumMaxC cs B t ht
    omega
  · split at hrun
    · rename_i _ hemp
      injection hrun with h1 h2; subst h1; subst h2
      refine ⟨fun h => absurd rfl h, fun _ t ht hrel => ?_⟩
      have hk := eq_keep (a - sumMaxC cs B) (a - sumMinC cs B) cs B t ht (by omega) (by omega)
      have hne' : ¬ Box.Nonempty (pruneWith (eqPrune (a - sumMaxC cs B) (a - sumMinC cs B)) cs B) := by
        rw [← Box.hasEmpty_eq_false_iff]; simp [hemp]
      exact hne' (nonempty_of_inBox hk)
    · split at hrun
      · rename_i _ _ hg
        injection hrun with h1 h2; subst h1; subst h2
        refine ⟨fun h => absurd rfl h, fun _ t ht hrel => ?_⟩
        have hk := eq_keep (a - sumMaxC cs B) (a - sumMinC cs B) cs B t ht (by omega) (by omega)
        simp only [Bool.and_eq_true, bne_iff_ne, ne_eq] at hg
        have := dot_of_ground cs _ t hk hg.1
        exact hg.2 (by rw [← this]; exact hrel)
      · rename_i _ hemp _
        injection hrun with h1 h2; subst h1; subst h2
        refine ⟨fun _ => ⟨pruneWith_eq_le _ _ cs B, ?_, fun t ht hrel => ?_⟩, fun h => by cases h⟩
        · rw [← Box.hasEmpty_eq_false_iff]; simpa using hemp
        · exact eq_keep (a - sumMaxC cs B) (a - sumMinC cs B) cs B t ht (by omega) (by omega)

/-- affine_eq never answers `entailed` -/
theorem affineEqCore_ne_ent (cs : List Int) (a : Int) (B : Box) : (affineEqCore cs a B).1 ≠ .ent := by
  simp only [affineEqCore]
  split
  · simp
  · split
    · simp
    · split <;> simp

theorem entailOk_affineEq : EntailOk .affineEq := by
  intro ps B B' _ _ hrun
  rw [runAlg_affineEq] at hrun
  injection hrun with hrun
  have := affineEqCore_ne_ent ps.dropLast (ps.getLastD 0) B
  rw [hrun] at this
  exact absurd rfl this

theorem isGround_take_pointBox (t : List Int) (n : Nat) : Box.isGround ((pointBox t).take n) = true := by
  simp only [Box.isGround, List.all_eq_true]
  intro d hd
  have := List.mem_of_mem_take hd
  simp only [pointBox, List.mem_map] at this
  obtain ⟨v, _, rfl⟩ := this
  simp [Dom.isGround]

theorem pointBox_map_fst (t : List Int) : (pointBox t).map (·.1) = t := by
  simp [pointBox, Function.comp_def]

theorem groundOk_affineEq : GroundOk .affineEq := by
  intro ps B st B' t _ _ hrun hst hB'
  rw [runAlg_affineEq] at hrun
  injection hrun with hrun
  simp only [affineEqCore] at hrun
  simp only [relW, rel]
  generalize ps.dropLast = cs at *
  generalize ps.getLastD 0 = a at *
  split at hrun
  · injection hrun with h1 _; exact absurd h1.symm hst
  · split at hrun
    · injection hrun with h1 _; exact absurd h1.symm hst
    · split at hrun
      · injection hrun with h1 _; exact absurd h1.symm hst
      · rename_i _ _ hg
        injection hrun with _ h2
        rw [h2, hB', isGround_take_pointBox, pointBox_map_fst] at hg
        simpa using hg

theorem contractMono_affineEq : ContractMono .affineEq := by
  intro ps B B' hc hle
  simp only [Contract] at *
  rw [Box.le_length hle]; exact hc

theorem safe_affineEq : Safe .affineEq := fun ps B _ _ => ⟨_, runAlg_affineEq ps B⟩

theorem trigOk_affineEq : TrigOk .affineEq :=
  trigOk_of_minMax .affineEq (fun _ _ _ => rfl) sound_affineEq

/-! ### affine_eq performs exactly ONE round of interval reasoning on the input bounds -/

/-- `Σ_{j ≠ i} minTerm c_j d_j` and `Σ_{j ≠ i} maxTerm c_j d_j` -/
def sumMinExc : List Int → Box → Nat → Int
  | _ :: cs, _ :: ds, 0 => sumMinC cs ds
  | c :: cs, d :: ds, i + 1 => minTerm c d + sumMinExc cs ds i
  | _, _, _ => 0
def sumMaxExc : List Int → Box → Nat → Int
  | _ :: cs, _ :: ds, 0 => sumMaxC cs ds
  | c :: cs, d :: ds, i + 1 => maxTerm c d + sumMaxExc cs ds i
  | _, _, _ => 0

theorem sumMinC_split : ∀ (cs : List Int) (B : Box) (i : Nat), i < cs.length → i < B.length →
    sumMinC cs B = sumMinExc cs B i + minTerm (getI cs i) (getDom B i)
  | c :: cs, d :: ds, 0, _, _ => by simp only [sumMinC, sumMinExc, getI, getDom, List.getD_cons_zero]; omega
  | c :: cs, d :: ds, i + 1, h1, h2 => by
    have := sumMinC_split cs ds i (by simpa using h1) (by simpa using h2)
    simp only [sumMinC, sumMinExc, getI, getDom, List.getD_cons_succ] at *
    omega
  | [], _, _, h1, _ => by simp at h1
  | _ :: _, [], _, _, h2 => by simp at h2

theorem sumMaxC_split : ∀ (cs : List Int) (B : Box) (i : Nat), i < cs.length → i < B.length →
    sumMaxC cs B = sumMaxExc cs B i + maxTerm (getI cs i) (getDom B i)
  | c :: cs, d :: ds, 0, _, _ => by simp only [sumMaxC, sumMaxExc, getI, getDom, List.getD_cons_zero]; omega
  | c :: cs, d :: ds, i + 1, h1, h2 => by
    have := sumMaxC_split cs ds i (by simpa using h1) (by simpa using h2)
    simp only [sumMaxC, sumMaxExc, getI, getDom, List.getD_cons_succ] at *
    omega
  | [], _, _, h1, _ => by simp at h1
  | _ :: _, [], _, _, h2 => by simp at h2

theorem pruneWith_length (f : Int → Dom → Dom) : ∀ (cs : List Int) (B : Box),
    (pruneWith f cs B).length = B.length
  | [], _ => by simp [pruneWith]
  | _ :: _, [] => by simp [pruneWith]
  | _ :: cs, _ :: ds => by simp [pruneWith, pruneWith_length f cs ds]

theorem getDom_pruneWith (f : Int → Dom → Dom) : ∀ (cs : List Int) (B : Box) (i : Nat),
    i < cs.length → i < B.length → getDom (pruneWith f cs B) i = f (getI cs i) (getDom B i)
  | c :: cs, d :: ds, 0, _, _ => by simp [pruneWith, getI, getDom]
  | c :: cs, d :: ds, i + 1, h1, h2 => by
    have := getDom_pruneWith f cs ds i (by simpa using h1) (by simpa using h2)
    simpa [pruneWith, getI, getDom] using this
  | [], _, _, h1, _ => by simp at h1
  | _ :: _, [], _, _, h2 => by simp at h2

theorem getDom_pruneWith_beyond (f : Int → Dom → Dom) : ∀ (cs : List Int) (B : Box) (i : Nat),
    cs.length ≤ i → getDom (pruneWith f cs B) i = getDom B i
  | [], _, _, _ => by simp [pruneWith]
  | _ :: _, [], _, _ => by simp [pruneWith]
  | _ :: _, _ :: _, 0, h => by simp at h
  | _ :: cs, _ :: ds, i + 1, h => by
    have := getDom_pruneWith_beyond f cs ds i (by simpa using h)
    simpa [pruneWith, getDom] using this

theorem getDom_of_le (B : Box) (i : Nat) (h : B.length ≤ i) : getDom B i = (0, 0) := by
  simp [getDom, List.getD_eq_getElem?_getD, List.getElem?_eq_none h]

/-- the box affine_eq computes before its emptiness / ground checks -/
def eqRound (cs : List Int) (a : Int) (B : Box) : Box :=
  pruneWith (eqPrune (a - sumMaxC cs B) (a - sumMinC cs B)) cs B

/-- the three ways affine_eq fails -/
def eqFails (cs : List Int) (a : Int) (B : Box) : Prop :=
  (a < sumMinC cs B ∨ sumMaxC cs B < a) ∨ ¬ (eqRound cs a B).Nonempty ∨
    (Box.isGround ((eqRound cs a B).take cs.length) = true ∧ dot cs ((eqRound cs a B).map (·.1)) ≠ a)

theorem affineEqCore_cases (cs : List Int) (a : Int) (B : Box) :
    (eqFails cs a B ∧ affineEqCore cs a B = (.inc, B)) ∨
    (¬ eqFails cs a B ∧ affineEqCore cs a B = (.cons, eqRound cs a B)) := by
  simp only [affineEqCore, eqFails, eqRound]
  by_cases h1 : a - sumMaxC cs B > 0 ∨ a - sumMinC cs B < 0
  · left; rw [if_pos h1]; exact ⟨Or.inl (by omega), rfl⟩
  · rw [if_neg h1]
    by_cases h2 : (pruneWith (eqPrune (a - sumMaxC cs B) (a - sumMinC cs B)) cs B).hasEmpty = true
    · left; rw [if_pos h2]
      refine ⟨Or.inr (Or.inl ?_), rfl⟩
      rw [← Box.hasEmpty_eq_false_iff]; simp [h2]
    · rw [if_neg h2]
      have hne := (Box.hasEmpty_eq_false_iff _).mp (by simpa using h2)
      split
      · rename_i h3
        left
        simp only [Bool.and_eq_true, bne_iff_ne, ne_eq] at h3
        exact ⟨Or.inr (Or.inr h3), rfl⟩
      · rename_i h3
        right
        simp only [Bool.and_eq_true, bne_iff_ne, ne_eq] at h3
        refine ⟨?_, rfl⟩
        rintro (h | h | h)
        · omega
        · exact h hne
        · exact h3 h

/-- **affine_eq = one round of bounds reasoning on the INPUT box.**
    With `B' = eqRound cs a B`:
    * for a position `i` with `c_i ≠ 0`, the new domain of `x_i` is the old one cut by
      `a − Σ_{j≠i} maxTerm c_j d_j ≤ c_i·v ≤ a − Σ_{j≠i} minTerm c_j d_j`, i.e.
      `max(old.min, ⌈(a − Σ_{j≠i} maxTerm)/c_i⌉) .. min(old.max, ⌊(a − Σ_{j≠i} minTerm)/c_i⌋)` for
      `c_i > 0` (and the mirrored bounds for `c_i < 0`), all sums taken over the OLD bounds `d_j`;
    * other positions are untouched;
    * the call fails iff `a ∉ [Σ minTerm, Σ maxTerm]`, or some new domain is empty, or the new box
      is a point (on the constrained positions) that violates the equation; otherwise it answers
      `consistent` with `B'`.  No second round is made: `B'` need not be a fixpoint
      (see `affineEq_not_idempotent`). -/
theorem affineEq_oneRound (cs : List Int) (a : Int) (B : Box) :
    (∀ i, i < cs.length → i < B.length → getI cs i ≠ 0 → ∀ v,
      inDom v (getDom (eqRound cs a B) i) ↔
        inDom v (getDom B i) ∧ a - sumMaxExc cs B i ≤ getI cs i * v ∧
          getI cs i * v ≤ a - sumMinExc cs B i) ∧
    (∀ i, (cs.length ≤ i ∨ getI cs i = 0) → getDom (eqRound cs a B) i = getDom B i) ∧
    (eqRound cs a B).length = B.length ∧
    ((affineEqCore cs a B).1 = .inc ↔ eqFails cs a B) ∧
    ((affineEqCore cs a B).1 ≠ .inc → affineEqCore cs a B = (.cons, eqRound cs a B)) ∧
    ((affineEqCore cs a B).1 = .inc → (affineEqCore cs a B).2 = B) := by
  refine ⟨fun i h1 h2 h0 v => ?_, fun i hi => ?_, pruneWith_length _ _ _, ?_, ?_, ?_⟩
  · unfold eqRound
    rw [getDom_pruneWith _ cs B i h1 h2, eqPrune_iff _ _ _ _ _ h0]
    have := sumMinC_split cs B i h1 h2
    have := sumMaxC_split cs B i h1 h2
    constructor
    · rintro ⟨h, h', h''⟩; exact ⟨h, by omega, by omega⟩
    · rintro ⟨h, h', h''⟩; exact ⟨h, by omega, by omega⟩
  · unfold eqRound
    rcases hi with hi | hi
    · exact getDom_pruneWith_beyond _ cs B i hi
    · by_cases h1 : i < cs.length
      · by_cases h2 : i < B.length
        · rw [getDom_pruneWith _ cs B i h1 h2, hi]; simp [eqPrune]
        · rw [getDom_of_le B i (by omega), getDom_of_le _ i (by rw [pruneWith_length]; omega)]
      · exact getDom_pruneWith_beyond _ cs B i (by omega)
  · rcases affineEqCore_cases cs a B with ⟨h, e⟩ | ⟨h, e⟩ <;> simp [e, h]
  · rcases affineEqCore_cases cs a B with ⟨h, e⟩ | ⟨h, e⟩ <;> simp [e]
  · rcases affineEqCore_cases cs a B with ⟨h, e⟩ | ⟨h, e⟩ <;> simp [e]

/-- one round is not a fixpoint: `x + 2y = 1` on `[0,1]²` gives `x ∈ [0,1], y = 0`; only a second
    call finds `x = 1`.  And `2x + 2y = 3` on `[0,2]²` (no solution) is first answered
    `consistent` with `[0,1]²`, then `inconsistent`. -/
theorem affineEq_not_idempotent :
    affineEq [1, 2, 1] [(0, 1), (0, 1)] = (.cons, [(0, 1), (0, 0)]) ∧
    affineEq [1, 2, 1] [(0, 1), (0, 0)] = (.cons, [(1, 1), (0, 0)]) ∧
    affineEq [2, 2, 3] [(0, 2), (0, 2)] = (.cons, [(0, 1), (0, 1)]) ∧
    affineEq [2, 2, 3] [(0, 1), (0, 1)] = (.inc, [(0, 1), (0, 1)]) := by decide

/-- consequently `Exact` (bounds consistency + idempotence) does NOT hold for affine_eq -/
theorem not_exact_affineEq : ¬ Exact .affineEq := by
  intro h
  have := (h [2, 2, 3] [(0, 2), (0, 2)] .cons [(0, 1), (0, 1)] (by simp [Contract])
    (by simp [Box.Nonempty]) (by rw [runAlg_affineEq]; exact congrArg _ affineEq_not_idempotent.2.2.1)
    (by decide)).2
  obtain ⟨st', h1, h2⟩ := this
  rw [runAlg_affineEq] at h1
  injection h1 with h1
  have e : affineEqCore [2, 2, 3].dropLast ([2, 2, 3].getLastD 0) [(0, 1), (0, 1)] =
      (.inc, [(0, 1), (0, 1)]) := affineEq_not_idempotent.2.2.2
  rw [e] at h1
  injection h1 with h1 _
  exact h2 h1.symm

end Nucs
