import NucsProofs.Propagators.AlldiffCorrectPort
import NucsProofs.Propagators.HallSpec
import NucsProofs.Propagators.AlldifferentC
/-!
  Functional correctness of the ported alldifferent, part 6: the facts about `alldifferent ps B`
  at the level of boxes (`port_facts`): a failing call exhibits an over-full interval; a succeeding
  call runs on a box satisfying Hall's condition, every removed value is justified by a Hall
  interval of the other variables, and no new bound lies in a Hall interval that does not contain
  the (original) domain.
-/
namespace Nucs
namespace AllDiff

theorem g2_toArray (B : Box) (k : Nat) : g2 B.toArray (k : Int) = getDom B k := by
  simp [g2, getDom]

theorem g2_toList (a : Arr2) (k : Nat) : g2 a (k : Int) = getDom a.toList k := by
  simp [g2, getDom]

theorem rangeUp_map_g2 (B : Box) : (rangeUp 0 (B.length : Int)).map (g2 B.toArray) = B := by
  apply List.ext_getElem
  · simp [rangeUp]
  · intro k h1 h2
    simp only [rangeUp, List.getElem_map, List.getElem_range, Int.ofNat_eq_natCast]
    have : (0 : Int) + (k : Int) = (k : Int) := by omega
    rw [this, g2_toArray]
    simp [getDom, h2]

theorem insideCount_eq_countP' (B : Box) (a b : Int) :
    insideCount B a b = B.countP (fun d => d.within a b) := by
  unfold insideCount; rw [List.countP_eq_length_filter]

/-- counting over an enumeration of the indices = counting over the box -/
theorem cinV_perm_box (B : Box) (L : List Int) (hL : L.Perm (rangeUp 0 (B.length : Int)))
    (a b : Int) :
    cinV (fun u => (g2 B.toArray u).1) (fun u => (g2 B.toArray u).2) L a b =
      (insideCount B a b : Int) := by
  unfold cinV
  rw [hL.countP_eq, insideCount_eq_countP']
  congr 1
  conv => rhs; rw [← rangeUp_map_g2 B]
  rw [List.countP_map]
  rfl

/-- counting mirrored domains in `[a, b]` = counting the domains in `[-b - 1, -a - 1]` -/
theorem cinV_mirror (lo hi : Int → Int) (L : List Int) (a b : Int) :
    cinV (fun u => - hi u - 1) (fun u => - lo u - 1) L a b = cinV lo hi L (-b - 1) (-a - 1) := by
  unfold cinV
  congr 1
  apply List.countP_congr
  intro p _
  simp only [Bool.and_eq_true, decide_eq_true_eq]
  constructor
  · rintro ⟨h1, h2⟩; exact ⟨by omega, by omega⟩
  · rintro ⟨h1, h2⟩; exact ⟨by omega, by omega⟩

theorem hallCount_none (B : Box) (a b : Int) : hallCount B none a b = insideCount B a b := by
  rw [insideCount_eq_countP']
  induction B with
  | nil => rfl
  | cons d ds ih =>
    simp only [hallCount, List.countP_cons, ih]
    have : d.inside a b = d.within a b := rfl
    rw [this]; omega

theorem hallCount_some (a b : Int) : ∀ (B : Box) (i : Nat), i < B.length →
    hallCount B (some i) a b + (if (getDom B i).within a b then 1 else 0) = insideCount B a b
  | [], i, h => by simp at h
  | d :: ds, 0, _ => by
    rw [← hallCount_none]
    simp only [hallCount, getDom, List.getD_cons_zero]
    have : d.inside a b = d.within a b := rfl
    rw [this]; omega
  | d :: ds, i + 1, h => by
    have ih := hallCount_some a b ds i (by simpa using h)
    rw [← hallCount_none] at ih ⊢
    simp only [hallCount, getDom, List.getD_cons_succ] at ih ⊢
    by_cases hw : (ds.getD i (0, 0)).within a b = true
    · simp only [hw, if_true] at ih ⊢; omega
    · simp only [hw] at ih ⊢
      simp only [Bool.false_eq_true, if_false] at ih ⊢
      omega

/-- the other variables counted through an enumeration of the indices -/
theorem cinV_oth_le_hallCount (B : Box) (L : List Int) (hL : L.Perm (rangeUp 0 (B.length : Int)))
    (i : Nat) (hi : i < B.length) (a b : Int) :
    cinV (fun u => (g2 B.toArray u).1) (fun u => (g2 B.toArray u).2) (Oth L (i : Int)) a b ≤
      (hallCount B (some i) a b : Int) := by
  have hu : (i : Int) ∈ L := by
    rw [hL.mem_iff, mem_rangeUp]; omega
  have h1 := cinV_oth_add (fun u => (g2 B.toArray u).1) (fun u => (g2 B.toArray u).2) (i : Int) a b
    L hu
  rw [cinV_perm_box B L hL a b] at h1
  have h2 := hallCount_some a b B i hi
  simp only [g2_toArray] at h1
  by_cases hw : (getDom B i).within a b = true
  · have hw' : a ≤ (getDom B i).1 ∧ (getDom B i).2 ≤ b := by
      simpa [Dom.within] using hw
    rw [if_pos hw'] at h1
    rw [if_pos hw] at h2
    omega
  · have hw' : ¬ (a ≤ (getDom B i).1 ∧ (getDom B i).2 ≤ b) := by
      simpa [Dom.within] using hw
    rw [if_neg hw'] at h1
    rw [if_neg hw] at h2
    omega

/-- what the port guarantees about position `i`: `d` the original domain, `d'` the new one -/
structure PosFacts (B : Box) (i : Nat) (d d' : Dom) : Prop where
  le1 : d.1 ≤ d'.1
  le2 : d'.2 ≤ d.2
  sndLo : ∀ v, d.1 ≤ v → v < d'.1 →
    ∃ a b, a ≤ v ∧ v ≤ b ∧ (hallCount B (some i) a b : Int) ≥ b - a + 1
  sndHi : ∀ v, d'.2 < v → v ≤ d.2 →
    ∃ a b, a ≤ v ∧ v ≤ b ∧ (hallCount B (some i) a b : Int) ≥ b - a + 1
  cmpLo : ∀ a b, IsHall B a b → d.within a b = false → ¬ (a ≤ d'.1 ∧ d'.1 ≤ b)
  cmpHi : ∀ a b, IsHall B a b → d.within a b = false → ¬ (a ≤ d'.2 ∧ d'.2 ≤ b)

/-- **the functional facts about the ported alldifferent** -/
theorem port_facts (ps : List Int) (B : Box) (hne : B ≠ []) (hdom : ∀ d ∈ B, d.1 ≤ d.2) :
    ∃ st B', alldifferent ps B = .ok (st, B') ∧
      ((st = .inc ∧ B' = B ∧ ∃ a b, a ≤ b ∧ (insideCount B a b : Int) > b - a + 1) ∨
       (st = .cons ∧ B'.length = B.length ∧ HallOK B ∧
          ∀ i, i < B.length → PosFacts B i (getDom B i) (getDom B' i))) := by
  have hlen : 1 ≤ B.length := by
    cases B with
    | nil => exact absurd rfl hne
    | cons _ _ => simp
  obtain ⟨st, dom', allL, allU, hr, hpL, hpU, hcases⟩ := compute_domains_sem B.toArray ps.toArray
    (by simpa using hlen)
    (fun v h0 h1 => hdom _ (g2_mem_toArray B v h0 (by simpa using h1)))
  simp only [List.size_toArray] at hpL hpU hcases
  unfold alldifferent
  rw [hr]
  simp only [ok_bind]
  rcases hcases with ⟨hst, hcert⟩ | ⟨hst, hsz, pvL, pvU⟩
  · subst hst
    refine ⟨.inc, B, by simp [pure_eq_ok], Or.inl ⟨rfl, rfl, ?_⟩⟩
    rcases hcert with ⟨a, b, hab, hc⟩ | ⟨a, b, hab, hc⟩
    · rw [cinV_perm_box B allL hpL a b] at hc
      exact ⟨a, b, hab, hc⟩
    · rw [cinV_mirror, cinV_perm_box B allU hpU] at hc
      exact ⟨-b - 1, -a - 1, by omega, by omega⟩
  · subst hst
    have hB'len : dom'.toList.length = B.length := by simpa using hsz
    refine ⟨.cons, dom'.toList, by simp [pure_eq_ok], Or.inr ⟨rfl, hB'len, ?_, ?_⟩⟩
    · intro a b hab
      have := pvL.hall a b hab
      rw [cinV_perm_box B allL hpL a b] at this
      exact this
    · intro i hi
      have huL : (i : Int) ∈ allL := by rw [hpL.mem_iff, mem_rangeUp]; omega
      have huU : (i : Int) ∈ allU := by rw [hpU.mem_iff, mem_rangeUp]; omega
      have e1 : g2 B.toArray (i : Int) = getDom B i := g2_toArray B i
      have e2 : g2 dom' (i : Int) = getDom dom'.toList i := g2_toList dom' i
      refine ⟨?_, ?_, ?_, ?_, ?_, ?_⟩
      · have := pvL.ge _ huL
        simp only [e1, e2] at this
        exact this
      · have := pvU.ge _ huU
        simp only [e1, e2] at this
        omega
      · intro v h1 h2
        obtain ⟨a, b, ha, hb, hc⟩ := pvL.snd _ huL v (by simp only [e1]; exact h1)
          (by simp only [e2]; exact h2)
        have := cinV_oth_le_hallCount B allL hpL i hi a b
        exact ⟨a, b, ha, hb, by omega⟩
      · intro v h1 h2
        obtain ⟨a, b, ha, hb, hc⟩ := pvU.snd _ huU (-v - 1) (by simp only [e1]; omega)
          (by simp only [e2]; omega)
        rw [cinV_mirror] at hc
        have := cinV_oth_le_hallCount B allU hpU i hi (-b - 1) (-a - 1)
        exact ⟨-b - 1, -a - 1, by omega, by omega, by omega⟩
      · intro a b hH hw
        have hw' : ¬ (a ≤ (getDom B i).1 ∧ (getDom B i).2 ≤ b) := by
          simpa [Dom.within] using hw
        have := pvL.cmp _ huL a b hH.1 (by rw [cinV_perm_box B allL hpL a b]; exact hH.2)
          (by simp only [e1]; exact hw')
        simp only [e2] at this
        exact this
      · intro a b hH hw
        have hw' : ¬ (a ≤ (getDom B i).1 ∧ (getDom B i).2 ≤ b) := by
          simpa [Dom.within] using hw
        have hc : cinV (fun u => - (g2 B.toArray u).2 - 1) (fun u => - (g2 B.toArray u).1 - 1) allU
            (-b - 1) (-a - 1) = (-a - 1) - (-b - 1) + 1 := by
          rw [cinV_mirror]
          have e3 : -(-a - 1) - 1 = a := by omega
          have e4 : -(-b - 1) - 1 = b := by omega
          rw [e3, e4, cinV_perm_box B allU hpU a b, hH.2]; omega
        have := pvU.cmp _ huU (-b - 1) (-a - 1) (by have := hH.1; omega) hc
          (by simp only [e1]; omega)
        simp only [e2] at this
        omega

end AllDiff
end Nucs
