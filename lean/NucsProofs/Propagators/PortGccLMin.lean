import NucsProofs.Propagators.PortGccLMinPot
import NucsProofs.Propagators.PortGccLMinElse
import NucsProofs.Propagators.PortGccLMinInit
import NucsProofs.Propagators.PortGccPsum
/-!
  `filter_lower_min` of the ported gcc never errs: one iteration of the main loop preserves the
  invariant, the two closing loops are safe, and the whole pass returns a result.
-/
namespace Nucs
namespace Gcc

open AllDiff (g upd g2 upd2 ok_bind pure_eq_ok except_bind_ok forIn_list_except range_forIn_eq
  size_upd size_upd2 g_upd g_upd_same g_upd_ne LChain)

/-- a node that is not allowed to point up is a root -/
theorem root_of_below {N : Int} {a : Array Int} {y : Int} (hc : LChain (g a) N) (h1 : 1 ≤ y)
    (hN : y ≤ N) (hb : MBelow N a y) : g a y < y := by
  have h := hc.rng y h1 hN
  by_cases hgt : g a y > y
  · have := hb y h1 hN hgt; omega
  · omega

/-- from the main test to the end of the iteration -/
theorem lminTest_spec {N : Int} {sz : Nat} {bounds : Array Int} {l : PSum} {fv m : Int}
    {tl c sets pot stbl : Array Int} (hb : BC bounds N fv m) (hl : PS l fv m)
    (hc : MCore N sz (K l fv bounds) tl c sets) (hp : MPot N sz tl pot stbl)
    (new_mins : Array Int) (hnm : NMOk N new_mins) (i x y z j w : Int)
    (hi0 : 0 ≤ i) (hi1 : i < new_mins.size) (hx1 : 1 ≤ x) (hxy : x < y) (hyN : y < N)
    (hxz : x + 1 ≤ z) (hzN : z ≤ N) (hzr : g tl z < z) (hj : j = g tl z)
    (hall : ∀ k, x + 1 ≤ k → k < z → g tl k > k)
    (hpy : g pot y < y) (hsy : g stbl y < y) :
    ∃ tl' c' sets' stbl' nm' w', lminTest bounds l i x y z j tl c sets stbl new_mins pot w =
        .ok (.yield (tl', c', sets', stbl', pot, nm', w')) ∧
      MCore N sz (K l fv bounds) tl' c' sets' ∧ MPot N sz tl' pot stbl' ∧ NMOk N nm' ∧
      nm'.size = new_mins.size ∧ (∀ Y', y ≤ Y' → MBelow N stbl Y' → MBelow N stbl' Y') := by
  have hbsz := hb.hsz
  have hNsz := hc.hsz
  have hsc := hc.sc
  unfold lminTest
  rw [rd_ok c z (by omega) (by omega), ok_bind, rd_ok bounds y (by omega) (by omega), ok_bind,
    rd_ok bounds z (by omega) (by omega), ok_bind,
    get_sum_bounds_ok hl hb y z (by omega) hyN (by omega) hzN, ok_bind]
  by_cases hle : g c z ≤ gsum l (g bounds y) (g bounds z - 1)
  · rw [if_pos hle]
    obtain ⟨stbl', w', he, hp', hbel⟩ := lminStable_spec hp hNsz x y z (by omega) hyN hpy hsy c sets
      new_mins
    rw [he]
    obtain ⟨tl', he2, hc2, hp2⟩ := lminFin_spec hc hp' x z hx1 hxz hzN hzr hall new_mins w'
    exact ⟨tl', c, sets, stbl', new_mins, w', he2, hc2, hp2, hnm, rfl, hbel⟩
  · rw [if_neg hle]
    obtain ⟨tl', c', sets', nm', w', he, hc', hp', hnm', hsz'⟩ := lminElse_spec hb hl hc hp new_mins hnm
      i x y z j w hi0 hi1 hx1 hxy hyN hxz hzN hzr hj hall hle
    exact ⟨tl', c', sets', stbl, nm', w', he, hc', hp', hnm', hsz', fun _ _ h => h⟩

/-- one iteration of the main loop -/
theorem lminBody_spec {N : Int} {sz : Nat} {bounds : Array Int} {l : PSum} {fv m : Int}
    {tl c sets pot stbl : Array Int} (hb : BC bounds N fv m) (hl : PS l fv m)
    (hc : MCore N sz (K l fv bounds) tl c sets) (hp : MPot N sz tl pot stbl)
    (new_mins : Array Int) (hnm : NMOk N new_mins) (ranks : Arr2) (msv : Array Int) (i w : Int)
    (hi0 : 0 ≤ i) (hi1 : i < new_mins.size) (hi2 : i < msv.size)
    (hv0 : 0 ≤ g msv i) (hv1 : g msv i < ranks.size)
    (hx1 : 1 ≤ (g2 ranks (g msv i)).1) (hxy : (g2 ranks (g msv i)).1 < (g2 ranks (g msv i)).2)
    (hyN : (g2 ranks (g msv i)).2 < N)
    (hbp : MBelow N pot (g2 ranks (g msv i)).2) (hbs : MBelow N stbl (g2 ranks (g msv i)).2) :
    ∃ tl' c' sets' stbl' pot' nm' w',
      lminBody bounds ranks msv l i (tl, c, sets, stbl, pot, new_mins, w) =
        .ok (.yield (tl', c', sets', stbl', pot', nm', w')) ∧
      MCore N sz (K l fv bounds) tl' c' sets' ∧ MPot N sz tl' pot' stbl' ∧ NMOk N nm' ∧
      nm'.size = new_mins.size ∧
      (∀ Y', (g2 ranks (g msv i)).2 ≤ Y' → MBelow N pot Y' → MBelow N pot' Y') ∧
      (∀ Y', (g2 ranks (g msv i)).2 ≤ Y' → MBelow N stbl Y' → MBelow N stbl' Y') := by
  have hNsz := hc.hsz
  have hst := hc.st
  unfold lminBody
  simp only []
  rw [rd_ok msv i hi0 hi2, ok_bind, rd2_min_ok ranks _ hv0 hv1, ok_bind,
    rd2_max_ok ranks _ hv0 hv1, ok_bind]
  generalize (g2 ranks (g msv i)).1 = x at hx1 hxy ⊢
  generalize (g2 ranks (g msv i)).2 = y at hxy hyN hbp hbs ⊢
  obtain ⟨z, hpm, hz1, hz2, hz3, hz4⟩ := path_max_spec tl 2 N (x + 1) (by omega) (by omega)
    (fun k h1 h2 => by
      have := (hc.ct.rng k (by omega) h2).2.1
      rw [tlg_ge2 tl k h1] at this; exact this)
    (fun k h1 h2 h3 q hq1 hq2 => by
      have h3' : tlg tl k > k := by rw [tlg_ge2 tl k h1]; exact h3
      have := hc.ct.up k (by omega) h2 h3' q hq1 (by rw [tlg_ge2 tl k h1]; exact hq2)
      rw [tlg_ge2 tl q (by omega)] at this; exact this)
    (by omega) (by omega)
  have hzr : g tl z < z := by
    have := (hc.ct.rng z (by omega) hz2).2.2
    rw [tlg_ge2 tl z (by omega)] at this
    omega
  rw [hpm, ok_bind, rd_ok tl z (by omega) (by omega), ok_bind]
  have hsy : g stbl y < y := root_of_below hp.cb (by omega) (by omega) hbs
  by_cases hzx : z = x + 1
  · have hcond : ¬ (z != x + 1) = true := by simp [hzx]
    rw [if_neg hcond]
    have hpy : g pot y < y := root_of_below hp.cp (by omega) (by omega) hbp
    obtain ⟨tl', c', sets', stbl', nm', w', he, hc', hp', hnm', hsz', hbel⟩ :=
      lminTest_spec hb hl hc hp new_mins hnm i x y z (g tl z) w hi0 hi1 hx1 hxy hyN hz1 hz2 hzr rfl
        hz4 hpy hsy
    exact ⟨tl', c', sets', stbl', pot, nm', w', he, hc', hp', hnm', hsz', fun _ _ h => h, hbel⟩
  · have hcond : (z != x + 1) = true := by simp [hzx]
    rw [if_pos hcond]
    obtain ⟨pot', he0, hp0, hbel0⟩ := lminPot_spec hc hp x y z hx1 hxy hyN (by omega) hz2 hzr hz4 hbp
      (fun pot w => lminTest bounds l i x y z (g tl z) tl c sets stbl new_mins pot w)
    rw [he0]
    have hpy : g pot' y < y :=
      root_of_below hp0.cp (by omega) (by omega) (hbel0 y (Int.le_refl _) hbp)
    obtain ⟨tl', c', sets', stbl', nm', w', he, hc', hp', hnm', hsz', hbel⟩ :=
      lminTest_spec hb hl hc hp0 new_mins hnm i x y z (g tl z) (min y z) hi0 hi1 hx1 hxy hyN hz1 hz2
        hzr rfl hz4 hpy hsy
    exact ⟨tl', c', sets', stbl', pot', nm', w', he, hc', hp', hnm', hsz', hbel0, hbel⟩

/-! ### the two closing loops -/

theorem lminComp_spec (N : Int) (sz : Nat) (stbl : Array Int) (w : Int) (hs : stbl.size = sz)
    (hN : N < sz) :
    ∃ s, forIn (rangeDown N 0) (stbl, w) lminComp = .ok s ∧ s.1.size = sz := by
  refine forIn_list_except
    (Inv := fun rest (s : Array Int × Int) => ∃ i, rest = rangeDown i 0 ∧ i ≤ N ∧ s.1.size = sz)
    _ _ ?_ ?_ _ _ ?_
  · rintro x rest ⟨a, w⟩ ⟨i, hr, hiN, hsa⟩
    obtain ⟨hlt, hx, hrest⟩ := rangeDown_eq_cons i 0 x rest hr
    subst hx
    simp only at hsa
    left
    unfold lminComp
    simp only []
    rw [rd_ok a x (by omega) (by omega), ok_bind]
    by_cases hgt : g a x > x
    · rw [if_pos hgt, wr_ok a x w (by omega) (by omega), ok_bind]
      exact ⟨_, rfl, x - 1, hrest, by omega, by simp [hsa]⟩
    · rw [if_neg hgt]
      exact ⟨_, rfl, x - 1, hrest, by omega, hsa⟩
  · rintro ⟨a, w⟩ ⟨i, _, _, hsa⟩
    exact hsa
  · exact ⟨N, rfl, Int.le_refl _, hs⟩

theorem lminShrink_spec {N : Int} {bounds : Array Int} {l : PSum} {fv m : Int}
    (hb : BC bounds N fv m) (hl : PS l fv m) (n : Int) (ranks domains : Arr2) (msv stbl nm : Array Int)
    (hn : n = msv.size) (hnn : (nm.size : Int) = n) (hnm : NMOk N nm) (hsb : N < stbl.size)
    (hrs : ranks.size = domains.size)
    (hmsv : ∀ i : Int, 0 ≤ i → i < n → 0 ≤ g msv i ∧ g msv i < (domains.size : Int))
    (hranks : ∀ v : Int, 0 ≤ v → v < ranks.size → 1 ≤ (g2 ranks v).1 ∧ (g2 ranks v).1 < N) :
    ∃ d', forIn (rangeDown (n - 1) (-1)) domains (lminShrink bounds ranks msv l stbl nm) = .ok d' ∧
      d'.size = domains.size := by
  have hbsz := hb.hsz
  refine forIn_list_except
    (Inv := fun rest (d : Arr2) => ∃ i, rest = rangeDown i (-1) ∧ i < n ∧ d.size = domains.size)
    _ _ ?_ ?_ _ _ ?_
  · rintro x rest d ⟨i, hr, hin, hsd⟩
    obtain ⟨hlt, hx, hrest⟩ := rangeDown_eq_cons i (-1) x rest hr
    subst hx
    left
    have hv := hmsv x (by omega) hin
    have hr1 := hranks _ hv.1 (by omega)
    unfold lminShrink
    rw [rd_ok msv x (by omega) (by omega), ok_bind, rd2_min_ok ranks _ hv.1 (by omega), ok_bind,
      rd2_max_ok ranks _ hv.1 (by omega), ok_bind,
      rd_ok stbl _ (by omega) (by omega), ok_bind, ok_bind]
    split
    · have hk := hnm x.toNat (by omega) (by omega)
      rw [Int.toNat_of_nonneg (by omega)] at hk
      have hrg := hb.range (g nm x) hk.1 hk.2
      obtain ⟨r, hsk⟩ := skip_right_ok hl (g bounds (g nm x)) (by omega) (by omega)
      rw [rd_ok nm x (by omega) (by omega), ok_bind, rd_ok bounds _ hk.1 (by omega), ok_bind, hsk,
        ok_bind, wr2_ok d _ MIN r hv.1 (by omega), ok_bind]
      exact ⟨_, rfl, x - 1, hrest, by omega, by simp [hsd]⟩
    · exact ⟨_, rfl, x - 1, hrest, by omega, hsd⟩
  · rintro d ⟨i, _, _, hsd⟩
    exact hsd
  · exact ⟨n - 1, rfl, by omega, rfl⟩

/-! ### the whole pass -/

/-- what the main loop of `filter_lower_min` leaves behind -/
structure MPost (N : Int) (sz : Nat) (n : Int) (s : MSt) : Prop where
  st : s.1.size = sz
  sc : s.2.1.size = sz
  ss : s.2.2.1.size = sz
  sb : s.2.2.2.1.size = sz
  nn : (s.2.2.2.2.2.1.size : Int) = n
  nm : NMOk N s.2.2.2.2.2.1

theorem lminLoop_spec {N : Int} {sz : Nat} {bounds : Array Int} {l : PSum} {fv m : Int}
    {tl c sets pot stbl : Array Int} (hb : BC bounds N fv m) (hl : PS l fv m)
    (hc : MCore N sz (K l fv bounds) tl c sets) (hp : MPot N sz tl pot stbl)
    (hbel : ∀ Y, MBelow N pot Y ∧ MBelow N stbl Y)
    (n : Int) (ranks : Arr2) (msv new_mins : Array Int) (w : Int)
    (hn : n = msv.size) (hnn : (new_mins.size : Int) = n) (hnm : NMOk N new_mins)
    (hmsv : ∀ i : Int, 0 ≤ i → i < n → 0 ≤ g msv i ∧ g msv i < (ranks.size : Int))
    (hranks : ∀ v : Int, 0 ≤ v → v < ranks.size →
      1 ≤ (g2 ranks v).1 ∧ (g2 ranks v).1 < (g2 ranks v).2 ∧ (g2 ranks v).2 < N)
    (hsorted : ∀ i i' : Int, 0 ≤ i → i ≤ i' → i' < n →
      (g2 ranks (g msv i)).2 ≤ (g2 ranks (g msv i')).2) :
    ∃ s, forIn (rangeUp 0 msv.size) ((tl, c, sets, stbl, pot, new_mins, w) : MSt)
        (lminBody bounds ranks msv l) = .ok s ∧ MPost N sz n s := by
  refine forIn_list_except
    (Inv := fun rest (s : MSt) => ∃ i, rest = rangeUp i msv.size ∧ 0 ≤ i ∧
      MCore N sz (K l fv bounds) s.1 s.2.1 s.2.2.1 ∧ MPot N sz s.1 s.2.2.2.2.1 s.2.2.2.1 ∧
      NMOk N s.2.2.2.2.2.1 ∧ (s.2.2.2.2.2.1.size : Int) = n ∧
      ∀ i' : Int, i ≤ i' → i' < n →
        MBelow N s.2.2.2.2.1 (g2 ranks (g msv i')).2 ∧ MBelow N s.2.2.2.1 (g2 ranks (g msv i')).2)
    _ _ ?_ ?_ _ _ ?_
  · rintro x rest ⟨tl1, c1, sets1, stbl1, pot1, nm1, w1⟩ ⟨i, hr, hi0, hc1, hp1, hnm1, hnn1, hbel1⟩
    obtain ⟨hlt, hx, hrest⟩ := rangeUp_eq_cons i msv.size x rest hr
    subst hx
    simp only at hc1 hp1 hnm1 hnn1 hbel1
    left
    have hv := hmsv x hi0 (by omega)
    have hrk := hranks _ hv.1 hv.2
    have hbx := hbel1 x (Int.le_refl _) (by omega)
    obtain ⟨tl', c', sets', stbl', pot', nm', w', he, hc', hp', hnm', hsz', hbp, hbs⟩ :=
      lminBody_spec hb hl hc1 hp1 nm1 hnm1 ranks msv x w1 hi0 (by omega) hlt hv.1 hv.2 hrk.1 hrk.2.1
        hrk.2.2 hbx.1 hbx.2
    refine ⟨_, he, x + 1, hrest, by omega, hc', hp', hnm', by simp only; omega, ?_⟩
    intro i' h1 h2
    have hs := hsorted x i' hi0 (by omega) h2
    have := hbel1 i' (by omega) h2
    exact ⟨hbp _ hs this.1, hbs _ hs this.2⟩
  · rintro ⟨tl1, c1, sets1, stbl1, pot1, nm1, w1⟩ ⟨i, _, _, hc1, hp1, hnm1, hnn1, _⟩
    exact ⟨hc1.st, hc1.sc, hc1.ss, hp1.sb, hnn1, hnm1⟩
  · exact ⟨0, rfl, Int.le_refl _, hc, hp, hnm, hnn, fun i' _ _ => hbel _⟩

/-- `filter_lower_min` returns a result, the work arrays keep their sizes and `new_mins` keeps
    holding indices of `bounds` -/
theorem filter_lower_min_spec {N : Int} {sz : Nat} {bounds : Array Int} {l : PSum} {fv m : Int}
    (hb : BC bounds N fv m) (hl : PS l fv m) (n : Int) (tl c sets : Array Int)
    (domains ranks : Arr2) (msv stbl pot new_mins : Array Int)
    (hst : tl.size = sz) (hsc : c.size = sz) (hss : sets.size = sz) (hsb : stbl.size = sz)
    (hsp : pot.size = sz) (hNsz : N < sz) (hrs : ranks.size = domains.size)
    (hn : n = msv.size) (hnn : (new_mins.size : Int) = n) (hnm : NMOk N new_mins)
    (hmsv : ∀ i : Int, 0 ≤ i → i < n → 0 ≤ g msv i ∧ g msv i < (domains.size : Int))
    (hranks : ∀ v : Int, 0 ≤ v → v < ranks.size →
      1 ≤ (g2 ranks v).1 ∧ (g2 ranks v).1 < (g2 ranks v).2 ∧ (g2 ranks v).2 < N)
    (hsorted : ∀ i i' : Int, 0 ≤ i → i ≤ i' → i' < n →
      (g2 ranks (g msv i)).2 ≤ (g2 ranks (g msv i')).2) :
    ∃ r, filter_lower_min n (N - 1) tl c sets bounds domains ranks msv l stbl pot new_mins = .ok r ∧
      (r.1 = true → r.2.1.size = sz ∧ r.2.2.1.size = sz ∧ r.2.2.2.1.size = sz ∧
        r.2.2.2.2.1.size = domains.size ∧ r.2.2.2.2.2.1.size = sz ∧
        (r.2.2.2.2.2.2.2.size : Int) = n ∧ NMOk N r.2.2.2.2.2.2.2) := by
  have hN := hb.hN
  rw [filter_lower_min_eq]
  have hNN : N - 1 + 1 = N := by omega
  rw [hNN]
  obtain ⟨s1, s2, he1, he2, hc, hp, hbel⟩ := lminInit_spec hb hl tl c sets stbl pot hst hsc hss hsb hsp
    hNsz
  rw [he1, ok_bind, he2, ok_bind]
  obtain ⟨s3, he3, hpost⟩ := lminLoop_spec hb hl hc hp hbel n ranks msv new_mins s2.2 hn hnn hnm
    (fun i h0 h1 => by have := hmsv i h0 h1; omega) hranks hsorted
  rw [he3, ok_bind]
  obtain ⟨tl3, c3, sets3, stbl3, pot3, nm3, w3⟩ := s3
  obtain ⟨h1, h2, h3, h4, h5, h6⟩ := hpost
  simp only at h1 h2 h3 h4 h5 h6 ⊢
  rw [rd_ok sets3 (N - 1) (by omega) (by omega), ok_bind]
  by_cases hfail : (g sets3 (N - 1) != 0) = true
  · rw [if_pos hfail]
    exact ⟨_, rfl, fun h => by simp at h⟩
  · rw [if_neg hfail]
    obtain ⟨s4, he4, hs4⟩ := lminComp_spec N sz stbl3 w3 h4 hNsz
    rw [he4, ok_bind]
    obtain ⟨d5, he5, hs5⟩ := lminShrink_spec hb hl n ranks domains msv s4.1 nm3 hn h5 h6 (by omega) hrs
      hmsv (fun v h0 h1 => by have := hranks v h0 h1; omega)
    rw [he5, ok_bind]
    exact ⟨_, rfl, fun _ => ⟨h1, h2, h3, hs5, hs4, h5, h6⟩⟩

end Gcc
end Nucs
