import NucsProofs.Propagators.PortGccCtx
import NucsProofs.Propagators.PortAlldiffUpper
/-!
  `filter_upper_max` of the ported gcc never errs: an adaptation of `PortAlldiffUpper`
  (`AllDiff.filter_upper`), the capacities being read in the partial-sum structure `u`.
  Nodes are `0..M` (`M = nb`), the "outside" is `M + 1`, roots point up.
  The pure pointer-structure lemmas `AllDiff.UChain.*` are reused as they are.
-/
namespace Nucs
namespace Gcc

open AllDiff (g upd g2 upd2 ok_bind pure_eq_ok except_bind_ok forIn_list_except range_forIn_eq
  size_upd size_upd2 g_upd g_upd_same g_upd_ne UChain)

/-- loop state of the main loop: pending `return` value, then `t`, `d`, `h`, `domains` -/
abbrev UMSt :=
  Option (Bool × Array Int × Array Int × Array Int × Arr2) × Array Int × Array Int × Array Int × Arr2

/-! ### `filter_upper_max` as a composition of named pieces -/

def umaxTail2 (u : PSum) (bounds : Array Int) (y j z : Int) (t d : Array Int) (h : Array Int)
    (domains : Arr2) : Except Err (ForInStep UMSt) := do
  if (← rd d z) == (← get_sum u (← rd bounds z) ((← rd bounds y) - 1)) then
    let h ← path_set h (← rd h y) (j + 1) y
    let h ← wr h y (j + 1)
    pure (ForInStep.yield (none, t, d, h, domains))
  else pure (ForInStep.yield (none, t, d, h, domains))

def umaxTail (u : PSum) (bounds : Array Int) (v x y j : Int) (d h : Array Int) (domains : Arr2)
    (t : Array Int) (z : Int) : Except Err (ForInStep UMSt) := do
  if (← rd d z) < (← get_sum u (← rd bounds z) ((← rd bounds y) - 1)) then
    pure (ForInStep.done (some (false, t, d, h, domains), t, d, h, domains))
  else
    let t ← path_set t (x - 1) z z
    if (← rd h x) < x then
      let w ← path_min h (← rd h x)
      let domains ← wr2 domains v MAX ((← rd bounds w) - 1)
      let h ← path_set h x w w
      umaxTail2 u bounds y j z t d h domains
    else umaxTail2 u bounds y j z t d h domains

def umaxBody (u : PSum) (bounds : Array Int) (ranks : Arr2) (msv : Array Int) (i : Int) (s : UMSt) :
    Except Err (ForInStep UMSt) := do
  let t := s.2.1
  let d := s.2.2.1
  let h := s.2.2.2.1
  let domains := s.2.2.2.2
  let v ← rd msv i
  let x ← rd2 ranks v MAX
  let y ← rd2 ranks v MIN
  let z ← path_min t (x - 1)
  let j ← rd t z
  let d ← wr d z ((← rd d z) - 1)
  if (← rd d z) == 0 then
    let t ← wr t z (z - 1)
    let z ← path_min t (← rd t z)
    let t ← wr t z j
    umaxTail u bounds v x y j d h domains t z
  else umaxTail u bounds v x y j d h domains t z

def umaxInit (u : PSum) (bounds : Array Int) (i : Int) (s : Array Int × Array Int × Array Int) :
    Except Err (ForInStep (Array Int × Array Int × Array Int)) := do
  let t ← wr s.1 i (i + 1)
  let h ← wr s.2.2 i (i + 1)
  let d ← wr s.2.1 i (← get_sum u (← rd bounds i) ((← rd bounds (i + 1)) - 1))
  pure (ForInStep.yield (t, d, h))

theorem filter_upper_max_eq (n nb : Int) (t d h bounds : Array Int) (domains ranks : Arr2)
    (msv : Array Int) (u : PSum) :
    filter_upper_max n nb t d h bounds domains ranks msv u =
      (do
        let s ← forIn (rangeUp 0 (nb + 1)) (t, d, h) (umaxInit u bounds)
        let s2 ← forIn (rangeDown (n - 1) (-1)) ((none, s.1, s.2.1, s.2.2, domains) : UMSt)
          (umaxBody u bounds ranks msv)
        match s2.1 with
        | some r => pure r
        | none => pure (true, s2.2.1, s2.2.2.1, s2.2.2.2.1, s2.2.2.2.2)) := by
  unfold filter_upper_max
  simp only []
  congr 1
  funext s
  congr 1
  funext v
  rcases v with ⟨_ | r, v⟩ <;> rfl

/-! ### the invariants -/

structure UMCore (M : Int) (sz : Nat) (Kf : Int → Int) (t d h : Array Int) : Prop where
  st : t.size = sz
  sd : d.size = sz
  sh : h.size = sz
  hsz : M + 1 < sz
  ct : UChain (g t) M
  ch : UChain (g h) M
  t1 : g t M = M + 1
  d1 : ∀ i, 0 ≤ i → i ≤ M → g t i > i → 1 ≤ g d i ∧ g d i ≤ Kf (i + 1) - Kf i
  l1 : ∀ r, 0 ≤ r → r ≤ M - 1 → g t r > r → g t r = M ∨ g h (g t r + 1) > g t r + 1
  l2 : ∀ r, 0 ≤ r → r ≤ M - 1 → g t r > r → g d r = Kf (r + 1) - Kf r →
    g h (r + 1) > r + 1

structure UMInv (M : Int) (sz : Nat) (Kf : Int → Int) (t d h : Array Int) : Prop extends
    UMCore M sz Kf t d h where
  d2 : g d 0 = Kf 1 - Kf 0

theorem UMCore.root_le {M : Int} {sz : Nat} {Kf : Int → Int} {t d h : Array Int}
    (hc : UMCore M sz Kf t d h) (r : Int) (h0 : 0 ≤ r) (hM : r ≤ M - 1) (hr : g t r > r) :
    g t r ≤ M := by
  by_cases h : g t r ≤ M
  · exact h
  · have := (hc.ct.up r h0 (by omega) hr).1 M (by omega) (by omega)
    have := hc.t1
    omega

theorem UMCore.replace_t {M : Int} {sz : Nat} {Kf : Int → Int} {t t' d h : Array Int}
    (hc : UMCore M sz Kf t d h) (hs : t'.size = sz) (hct : UChain (g t') M)
    (hroots : ∀ k, 0 ≤ k → k ≤ M → (g t' k > k ↔ g t k > k))
    (hval : ∀ k, 0 ≤ k → k ≤ M → g t k > k → g t' k = g t k) : UMCore M sz Kf t' d h := by
  have hM := hc.ct.hM
  refine ⟨hs, hc.sd, hc.sh, hc.hsz, hct, hc.ch, ?_, ?_, ?_, ?_⟩
  · rw [hval M hM (Int.le_refl _) (by rw [hc.t1]; omega)]; exact hc.t1
  · intro i h1 h2 h3
    exact hc.d1 i h1 h2 ((hroots i h1 h2).1 h3)
  · intro r h1 h2 h3
    have h3' := (hroots r h1 (by omega)).1 h3
    rw [hval r h1 (by omega) h3']
    exact hc.l1 r h1 h2 h3'
  · intro r h1 h2 h3
    exact hc.l2 r h1 h2 ((hroots r h1 (by omega)).1 h3)

theorem UMCore.replace_h {M : Int} {sz : Nat} {Kf : Int → Int} {t d h h' : Array Int}
    (hc : UMCore M sz Kf t d h) (hs : h'.size = sz) (hch : UChain (g h') M)
    (hroots : ∀ k, 0 ≤ k → k ≤ M → (g h' k > k ↔ g h k > k)) : UMCore M sz Kf t d h' := by
  refine ⟨hc.st, hc.sd, hs, hc.hsz, hc.ct, hch, hc.t1, hc.d1, ?_, ?_⟩
  · intro r h1 h2 h3
    have hr1 := hc.root_le r h1 h2 h3
    rcases hc.l1 r h1 h2 h3 with h4 | h4
    · exact Or.inl h4
    · by_cases h5 : g t r = M
      · exact Or.inl h5
      · right
        rw [hroots (g t r + 1) (by omega) (by omega)]; exact h4
  · intro r h1 h2 h3 h4
    rw [hroots (r + 1) (by omega) (by omega)]
    exact hc.l2 r h1 h2 h3 h4

/-! ### the Hall-interval marking step -/

theorem umaxTail2_spec {M : Int} {sz : Nat} {bounds t d h : Array Int} {u : PSum} {fv m : Int}
    (hb : BC bounds (M + 1) fv m) (hu : PS u fv m) (hus : PSStrict u m)
    (hi : UMInv M sz (K u fv bounds) t d h) (domains : Arr2) (y j z : Int)
    (hy1 : 1 ≤ y) (hyM : y ≤ M) (hz0 : 0 ≤ z) (hzM : z ≤ M - 1) (hzr : g t z > z)
    (hj : g t z = j) :
    ∃ h', umaxTail2 u bounds y j z t d h domains = .ok (.yield (none, t, d, h', domains)) ∧
      UMInv M sz (K u fv bounds) t d h' := by
  have hbsz := hb.hsz
  have hNsz := hi.hsz
  have hsd := hi.sd
  have hsh := hi.sh
  unfold umaxTail2
  rw [rd_ok d z (by omega) (by omega), ok_bind, rd_ok bounds z (by omega) (by omega), ok_bind,
    rd_ok bounds y (by omega) (by omega), ok_bind,
    get_sum_bounds_ok hu hb z y hz0 (by omega) hy1 (by omega), ok_bind]
  by_cases heq : g d z = gsum u (g bounds z) (g bounds y - 1)
  · have hcond : (g d z == gsum u (g bounds z) (g bounds y - 1)) = true := by simpa using heq
    rw [if_pos hcond]
    have hd1 := hi.d1 z hz0 (by omega) hzr
    have hzlt : z < y := by
      by_cases h1 : y ≤ z
      · have := gsum_K_neg_strict hu hus hb z y hy1 h1 (by omega); omega
      · omega
    have hgs := gsum_K hu hb z y hz0 hzlt (by omega)
    have hzy : z = y - 1 := by
      by_cases h2 : z + 1 < y
      · have := K_strict hu hus hb (z + 1) y (by omega) h2 (by omega); omega
      · omega
    have hfresh : g d z = K u fv bounds (z + 1) - K u fv bounds z := by
      have : z + 1 = y := by omega
      rw [this]; omega
    have hhy : g h y > y := by
      have := hi.l2 z hz0 hzM hzr hfresh
      have h3 : z + 1 = y := by omega
      rw [h3] at this; exact this
    have hjM : j ≤ M := by rw [← hj]; exact hi.toUMCore.root_le z hz0 hzM hzr
    have hl1 := hi.l1 z hz0 hzM hzr
    rw [hj] at hl1
    have hdy := hi.ch.up y (by omega) hyM hhy
    have hry := hi.ch.rng y (by omega) hyM
    have hre : j + 1 = M + 1 ∨ g h (j + 1) > j + 1 := by
      rcases hl1 with h | h
      · left; omega
      · right; exact h
    have hey : g h y ≤ j + 1 := by
      by_cases hle : g h y ≤ j + 1
      · exact hle
      · have := hdy.1 (j + 1) (by omega) (by omega)
        rcases hre with h | h <;> omega
    rw [rd_ok h y (by omega) (by omega), ok_bind]
    obtain ⟨h2, hps, hsz2, hv2⟩ := path_set_up_mark h (g h y) (j + 1) y (by omega) hey
      (by omega)
      (by
        rcases hdy.2 with h0 | h0
        · left; omega
        · right; exact h0)
      (by
        intro p hp1 hp2 hp3
        have hdp := hi.ch.up p (by omega) (by omega) hp3
        have hrp := hi.ch.rng p (by omega) (by omega)
        refine ⟨?_, ?_, fun k hk1 hk2 => by have := hdp.1 k hk1 hk2; omega⟩
        · by_cases hle : g h p ≤ j + 1
          · exact hle
          · have := hdp.1 (j + 1) (by omega) (by omega)
            rcases hre with h | h <;> omega
        · rcases hdp.2 with h0 | h0
          · left
            by_cases hle : g h p ≤ j + 1
            · omega
            · have := hdp.1 (j + 1) (by omega) (by omega)
              rcases hre with h | h <;> omega
          · right; exact h0)
    rw [hps, ok_bind, wr_ok h2 y (j + 1) (by omega) (by omega), ok_bind]
    refine ⟨upd h2 y (j + 1), rfl, ?_⟩
    have ha3 : ∀ k, 0 ≤ k → g (upd h2 y (j + 1)) k =
        if k = y then j + 1 else if g h y ≤ k ∧ k < j + 1 ∧ g h k > k then y else g h k := by
      intro k hk
      rw [g_upd h2 y (j + 1) k (by omega) (by omega) hk]
      by_cases hky : k = y
      · simp [hky]
      · simp only [hky, if_false]; exact hv2 k hk
    obtain ⟨hch', hroots'⟩ := hi.ch.mark hy1 hyM hhy (by omega) hey hre ha3
    have houtside : ∀ r, 0 ≤ r → r ≤ M → g t r > r → ¬ (z < r ∧ r < j) := by
      intro r h1 h2 h3 h4
      have := (hi.ct.up z hz0 (by omega) hzr).1 r h4.1 (by omega)
      omega
    refine ⟨⟨hi.st, hi.sd, by simp [hsz2, hsh], hi.hsz, hi.ct, hch', hi.t1, hi.d1, ?_, ?_⟩, hi.d2⟩
    · intro r h1 h2 h3
      have hr1 := hi.toUMCore.root_le r h1 h2 h3
      rcases hi.l1 r h1 h2 h3 with h4 | h4
      · exact Or.inl h4
      · by_cases h5 : g t r = M
        · exact Or.inl h5
        · right
          have hrr := hi.ct.rng r h1 (by omega)
          rw [hroots' (g t r + 1) (by omega) (by omega)]
          refine ⟨h4, fun h6 => ?_⟩
          rcases (hi.ct.up r h1 (by omega) h3).2 with h7 | h7
          · omega
          · exact houtside (g t r) (by omega) (by omega) h7 ⟨by omega, by omega⟩
    · intro r h1 h2 h3 h4
      rw [hroots' (r + 1) (by omega) (by omega)]
      exact ⟨hi.l2 r h1 h2 h3 h4, fun h6 => houtside r h1 (by omega) h3 ⟨by omega, by omega⟩⟩
  · have hcond : ¬ (g d z == gsum u (g bounds z) (g bounds y - 1)) = true := by simpa using heq
    rw [if_neg hcond]
    exact ⟨h, rfl, hi⟩

/-! ### from the failure test to the end of the iteration -/

theorem umaxTail_spec {M : Int} {sz : Nat} {bounds t d h : Array Int} {u : PSum} {fv m : Int}
    (hb : BC bounds (M + 1) fv m) (hu : PS u fv m) (hus : PSStrict u m)
    (hc : UMCore M sz (K u fv bounds) t d h) (domains : Arr2)
    (v x y j z : Int)
    (hd2 : g d 0 = K u fv bounds 1 - K u fv bounds 0 ∨
      (z = 0 ∧ g d 0 = K u fv bounds 1 - K u fv bounds 0 - 1))
    (hv0 : 0 ≤ v) (hv1 : v < domains.size) (hx1 : 1 ≤ x) (hxM : x ≤ M) (hy1 : 1 ≤ y) (hyM : y ≤ M)
    (hzx : z ≤ x - 1) (hz0 : 0 ≤ z) (hzr : g t z > z) (hj : g t z = j)
    (hall : ∀ k, z < k → k ≤ x - 1 → g t k < k) :
    (∃ t' h' dom', umaxTail u bounds v x y j d h domains t z =
        .ok (.yield (none, t', d, h', dom')) ∧ UMInv M sz (K u fv bounds) t' d h' ∧
        dom'.size = domains.size) ∨
      umaxTail u bounds v x y j d h domains t z =
        .ok (.done (some (false, t, d, h, domains), t, d, h, domains)) := by
  have hbsz := hb.hsz
  have hNsz := hc.hsz
  have hst := hc.st
  have hsd := hc.sd
  have hsh := hc.sh
  unfold umaxTail
  rw [rd_ok d z (by omega) (by omega), ok_bind, rd_ok bounds z (by omega) (by omega), ok_bind,
    rd_ok bounds y (by omega) (by omega), ok_bind,
    get_sum_bounds_ok hu hb z y hz0 (by omega) hy1 (by omega), ok_bind]
  by_cases hfail : g d z < gsum u (g bounds z) (g bounds y - 1)
  · right; rw [if_pos hfail]; rfl
  · left
    rw [if_neg hfail]
    have hdN : g d 0 = K u fv bounds 1 - K u fv bounds 0 := by
      rcases hd2 with h2 | ⟨h2, h3⟩
      · exact h2
      · subst h2
        have h4 := gsum_K hu hb 0 y (by omega) (by omega) (by omega)
        have h5 := K_mono hu hb 1 y (by omega) hy1 (by omega)
        omega
    have hdnt : ∀ p, z < p → p ≤ x - 1 → g t p < p ∧ z ≤ g t p := by
      intro p h1 h2
      have := hall p h1 h2
      exact ⟨this, hc.ct.down_ge_root (by omega) h1 hz0 this hzr⟩
    obtain ⟨t3, hps, hsz3, hrel3⟩ := path_set_down_compress t (x - 1) z z hz0 hzx (by omega) hdnt
    obtain ⟨hct3, hroots3, hval3⟩ := hc.ct.compress hz0 hall hrel3
    have hc3 : UMCore M sz (K u fv bounds) t3 d h := hc.replace_t (by omega) hct3 hroots3 hval3
    have hzr3 : g t3 z > z := (hroots3 z hz0 (by omega)).2 hzr
    have hj3 : g t3 z = j := by rw [hval3 z hz0 (by omega) hzr]; exact hj
    rw [hps, ok_bind, rd_ok h x (by omega) (by omega), ok_bind]
    by_cases hhx : g h x < x
    · rw [if_pos hhx, ok_bind]
      have hrx := hc.ch.rng x (by omega) hxM
      obtain ⟨w, hpm, hw1, hw2, hw3, hw4⟩ := path_min_spec h 0 M (g h x) (by omega) (by omega)
        (fun k h1 h2 => (hc.ch.rng k h1 h2).1) (fun k h1 h2 h3 => hc.ch.down k h1 h2 h3)
        (by omega) (by omega)
      have hwr : g h w > w := by have := hc.ch.rng w hw1 (by omega); omega
      have hallh : ∀ k, w < k → k ≤ x → g h k < k := by
        intro k h1 h2
        by_cases hk : k = x
        · subst hk; exact hhx
        · by_cases hk2 : g h x < k
          · exact hc.ch.down x (by omega) hxM hhx k hk2 (by omega)
          · exact hw4 k h1 (by omega)
      have hdnh : ∀ p, w < p → p ≤ x → g h p < p ∧ w ≤ g h p := by
        intro p h1 h2
        have := hallh p h1 h2
        exact ⟨this, hc.ch.down_ge_root (by omega) h1 hw1 this hwr⟩
      rw [hpm, ok_bind, rd_ok bounds w (by omega) (by omega), ok_bind,
        wr2_ok domains v MAX (g bounds w - 1) hv0 hv1, ok_bind]
      obtain ⟨h3, hps', hszh3, hrelh3⟩ := path_set_down_compress h x w w hw1 (by omega)
        (by omega) hdnh
      obtain ⟨hch3, hrootsh3, _⟩ := hc.ch.compress hw1 hallh hrelh3
      rw [hps', ok_bind]
      have hi3 : UMInv M sz (K u fv bounds) t3 d h3 := ⟨hc3.replace_h (by omega) hch3 hrootsh3, hdN⟩
      obtain ⟨h', he, hi'⟩ := umaxTail2_spec hb hu hus hi3 (upd2 domains v MAX (g bounds w - 1)) y j z
        hy1 hyM hz0 (by omega) hzr3 hj3
      exact ⟨t3, h', _, he, hi', by simp⟩
    · rw [if_neg hhx]
      have hi3 : UMInv M sz (K u fv bounds) t3 d h := ⟨hc3, hdN⟩
      obtain ⟨h', he, hi'⟩ := umaxTail2_spec hb hu hus hi3 domains y j z hy1 hyM hz0 (by omega) hzr3 hj3
      exact ⟨t3, h', _, he, hi', rfl⟩

/-! ### one iteration of the main loop -/

theorem umaxBody_spec {M : Int} {sz : Nat} {bounds t d h : Array Int} {u : PSum} {fv m : Int}
    (hb : BC bounds (M + 1) fv m) (hu : PS u fv m) (hus : PSStrict u m)
    (hi : UMInv M sz (K u fv bounds) t d h) (ranks domains : Arr2)
    (msv : Array Int) (i : Int)
    (o : Option (Bool × Array Int × Array Int × Array Int × Arr2))
    (hi0 : 0 ≤ i) (hi1 : i < msv.size)
    (hv0 : 0 ≤ g msv i) (hv1 : g msv i < domains.size) (hvr : g msv i < ranks.size)
    (hx1 : 1 ≤ (g2 ranks (g msv i)).2) (hxM : (g2 ranks (g msv i)).2 ≤ M)
    (hy1 : 1 ≤ (g2 ranks (g msv i)).1) (hyM : (g2 ranks (g msv i)).1 ≤ M) :
    (∃ t' d' h' dom', umaxBody u bounds ranks msv i (o, t, d, h, domains) =
        .ok (.yield (none, t', d', h', dom')) ∧ UMInv M sz (K u fv bounds) t' d' h' ∧
        dom'.size = domains.size) ∨
      ∃ st, umaxBody u bounds ranks msv i (o, t, d, h, domains) =
        .ok (.done (some (false, st), st)) := by
  have hbsz := hb.hsz
  have hNsz := hi.hsz
  have hst := hi.st
  have hsd := hi.sd
  have hsh := hi.sh
  have hKb := K_bot hu hb
  unfold umaxBody
  simp only []
  rw [rd_ok msv i hi0 hi1, ok_bind]
  generalize g msv i = v at hv0 hv1 hvr hx1 hxM hy1 hyM ⊢
  rw [rd2_max_ok ranks v hv0 hvr, ok_bind, rd2_min_ok ranks v hv0 hvr, ok_bind]
  generalize (g2 ranks v).2 = x at hx1 hxM ⊢
  generalize (g2 ranks v).1 = y at hy1 hyM ⊢
  obtain ⟨z0, hpm, hz1, hz2, hz3, hz4⟩ := path_min_spec t 0 M (x - 1) (by omega) (by omega)
    (fun k h1 h2 => (hi.ct.rng k h1 h2).1) (fun k h1 h2 h3 => hi.ct.down k h1 h2 h3)
    (by omega) (by omega)
  have hz0r : g t z0 > z0 := by have := hi.ct.rng z0 hz1 (by omega); omega
  have hd0 := hi.d1 z0 hz1 (by omega) hz0r
  rw [hpm, ok_bind, rd_ok t z0 (by omega) (by omega), ok_bind, rd_ok d z0 (by omega) (by omega),
    ok_bind, wr_ok d z0 _ (by omega) (by omega), ok_bind,
    rd_ok (upd d z0 (g d z0 - 1)) z0 (by omega) (by simp; omega), ok_bind,
    g_upd_same d z0 _ (by omega) (by omega)]
  have hd' : ∀ k, 0 ≤ k → k ≠ z0 → g (upd d z0 (g d z0 - 1)) k = g d k :=
    fun k h1 h2 => g_upd_ne d z0 _ k (by omega) (by omega) h1 h2
  have hd'z : g (upd d z0 (g d z0 - 1)) z0 = g d z0 - 1 := g_upd_same d z0 _ (by omega) (by omega)
  by_cases hm : g d z0 - 1 = 0
  · have hcond : (g d z0 - 1 == 0) = true := by simpa using hm
    rw [if_pos hcond]
    have hz0N : 0 < z0 := by
      by_cases h : z0 = 0
      · subst h; have := hi.d2; omega
      · omega
    rw [wr_ok t z0 (z0 - 1) (by omega) (by omega), ok_bind,
      rd_ok (upd t z0 (z0 - 1)) z0 (by omega) (by simp; omega), ok_bind,
      g_upd_same t z0 _ (by omega) (by omega)]
    have ht1 : ∀ k, 0 ≤ k → g (upd t z0 (z0 - 1)) k = if k = z0 then z0 - 1 else g t k :=
      fun k hk => g_upd t z0 _ k (by omega) (by omega) hk
    obtain ⟨z1, hpm1, hy1', hy2', hy3', hy4'⟩ := path_min_spec (upd t z0 (z0 - 1)) 0 M (z0 - 1)
      (by omega) (by simp; omega)
      (fun k h1 h2 => by
        rw [ht1 k (by omega)]
        by_cases hk : k = z0
        · simp [hk]; omega
        · simp only [hk, if_false]; exact (hi.ct.rng k h1 h2).1)
      (fun k h1 h2 h3 m hm1 hm2 => by
        rw [ht1 k (by omega)] at h3 hm1
        by_cases hk : k = z0
        · simp only [hk, if_true] at hm1; omega
        · simp only [hk, if_false] at h3 hm1
          have := (hi.ct.rng k h1 h2).1
          rw [ht1 m (by omega)]
          by_cases hmz : m = z0
          · simp only [hmz, if_true]; omega
          · simp only [hmz, if_false]; exact hi.ct.down k h1 h2 h3 m hm1 hm2)
      (by omega) (by omega)
    have hz1ne : z1 ≠ z0 := by omega
    have hz1r : g t z1 > z1 := by
      rw [ht1 z1 (by omega)] at hy3'
      simp only [hz1ne, if_false] at hy3'
      have := hi.ct.rng z1 hy1' (by omega); omega
    have hbetween : ∀ k, z1 < k → k < z0 → g t k < k := by
      intro k h1 h2
      have := hy4' k h1 (by omega)
      rw [ht1 k (by omega)] at this
      simpa [show k ≠ z0 by omega] using this
    rw [hpm1, ok_bind, wr_ok (upd t z0 (z0 - 1)) z1 (g t z0) (by omega) (by simp; omega), ok_bind]
    have ha2 : ∀ k, 0 ≤ k → g (upd (upd t z0 (z0 - 1)) z1 (g t z0)) k =
        if k = z1 then g t z0 else if k = z0 then z0 - 1 else g t k := by
      intro k hk
      rw [g_upd _ z1 _ k (by omega) (by simp; omega) hk]
      by_cases hk1 : k = z1
      · simp [hk1]
      · simp only [hk1, if_false]; exact ht1 k hk
    obtain ⟨hct2, hroots2, hoth2, hz1v⟩ :=
      hi.ct.merge (by omega) (by omega) hy1' hz0r hz1r hbetween ha2
    have hc2 : UMCore M sz (K u fv bounds) (upd (upd t z0 (z0 - 1)) z1 (g t z0))
        (upd d z0 (g d z0 - 1)) h := by
      refine ⟨by simp [hst], by simp [hsd], hsh, hNsz, hct2, hi.ch, ?_, ?_, ?_, ?_⟩
      · rw [hoth2 M (by omega) (by omega) (by omega)]; exact hi.t1
      · intro i h1 h2 h3
        have hr := (hroots2 i h1 h2).1 h3
        rw [hd' i (by omega) hr.2]; exact hi.d1 i h1 h2 hr.1
      · intro r h1 h2 h3
        have hr := (hroots2 r h1 (by omega)).1 h3
        by_cases hr1 : r = z1
        · subst hr1; rw [hz1v]; exact hi.l1 z0 (by omega) (by omega) hz0r
        · rw [hoth2 r h1 hr1 hr.2]; exact hi.l1 r h1 h2 hr.1
      · intro r h1 h2 h3 h4
        have hr := (hroots2 r h1 (by omega)).1 h3
        rw [hd' r (by omega) hr.2] at h4
        exact hi.l2 r h1 h2 hr.1 h4
    have hdN : g (upd d z0 (g d z0 - 1)) 0 = K u fv bounds 1 - K u fv bounds 0 := by
      rw [hd' 0 (by omega) (by omega)]; exact hi.d2
    rcases umaxTail_spec hb hu hus hc2 domains v x y (g t z0) z1 (Or.inl hdN) hv0 hv1 hx1 hxM hy1 hyM
      (by omega) hy1' ((hroots2 z1 hy1' (by omega)).2 ⟨hz1r, hz1ne⟩) hz1v
      (fun k h1 h2 => by
        by_cases hk0 : k = z0
        · subst hk0; rw [ha2 k (by omega)]
          simp only [show k ≠ z1 by omega, if_false, if_true]; omega
        · rw [hoth2 k (by omega) (by omega) hk0]
          by_cases hk1 : z0 < k
          · exact hz4 k hk1 h2
          · exact hbetween k h1 (by omega)) with ⟨t', h', dom', he, hi', hs'⟩ | he
    · exact Or.inl ⟨t', _, h', dom', he, hi', hs'⟩
    · exact Or.inr ⟨_, he⟩
  · have hcond : ¬ (g d z0 - 1 == 0) = true := by simpa using hm
    rw [if_neg hcond]
    have hc2 : UMCore M sz (K u fv bounds) t (upd d z0 (g d z0 - 1)) h := by
      refine ⟨hst, by simp [hsd], hsh, hNsz, hi.ct, hi.ch, hi.t1, ?_, hi.l1, ?_⟩
      · intro i h1 h2 h3
        by_cases hiz : i = z0
        · subst hiz; rw [hd'z]; omega
        · rw [hd' i (by omega) hiz]; exact hi.d1 i h1 h2 h3
      · intro r h1 h2 h3 h4
        by_cases hrz : r = z0
        · subst hrz; rw [hd'z] at h4; omega
        · rw [hd' r (by omega) hrz] at h4; exact hi.l2 r h1 h2 h3 h4
    have hdN : g (upd d z0 (g d z0 - 1)) 0 = K u fv bounds 1 - K u fv bounds 0 ∨
        (z0 = 0 ∧ g (upd d z0 (g d z0 - 1)) 0 = K u fv bounds 1 - K u fv bounds 0 - 1) := by
      by_cases h : z0 = 0
      · right; subst h; rw [hd'z]; have := hi.d2; exact ⟨rfl, by omega⟩
      · left; rw [hd' 0 (by omega) (by omega)]; exact hi.d2
    rcases umaxTail_spec hb hu hus hc2 domains v x y (g t z0) z0 hdN hv0 hv1 hx1 hxM hy1 hyM
      hz2 hz1 hz0r rfl hz4 with ⟨t', h', dom', he, hi', hs'⟩ | he
    · exact Or.inl ⟨t', _, h', dom', he, hi', hs'⟩
    · exact Or.inr ⟨_, he⟩

/-! ### the initialisation loop -/

theorem umaxInit_spec {M : Int} {sz : Nat} {bounds : Array Int} {u : PSum} {fv m : Int}
    (hb : BC bounds (M + 1) fv m) (hu : PS u fv m)
    (t d h : Array Int) (hst : t.size = sz) (hsd : d.size = sz) (hsh : h.size = sz)
    (hNsz : M + 1 < sz) :
    ∃ s, forIn (rangeUp 0 (M + 1)) (t, d, h) (umaxInit u bounds) = .ok s ∧
      s.1.size = sz ∧ s.2.1.size = sz ∧ s.2.2.size = sz ∧
      ∀ k, 0 ≤ k → k ≤ M → g s.1 k = k + 1 ∧ g s.2.2 k = k + 1 ∧
        g s.2.1 k = gsum u (g bounds k) (g bounds (k + 1) - 1) := by
  have hbsz := hb.hsz
  have hN := hb.hN
  refine forIn_list_except
    (Inv := fun rest (s : Array Int × Array Int × Array Int) =>
      ∃ i, rest = rangeUp i (M + 1) ∧ 0 ≤ i ∧ i ≤ M + 1 ∧
        s.1.size = sz ∧ s.2.1.size = sz ∧ s.2.2.size = sz ∧
        ∀ k, 0 ≤ k → k < i → g s.1 k = k + 1 ∧ g s.2.2 k = k + 1 ∧
          g s.2.1 k = gsum u (g bounds k) (g bounds (k + 1) - 1))
    _ _ ?_ ?_ _ _ ?_
  · rintro x rest ⟨t, d, h⟩ ⟨i, hr, hi1, hi2, h1, h2, h3, h4⟩
    obtain ⟨hlt, hx, hrest⟩ := rangeUp_eq_cons i (M + 1) x rest hr
    subst hx
    left
    simp only at h1 h2 h3 h4
    refine ⟨(upd t x (x + 1), upd d x (gsum u (g bounds x) (g bounds (x + 1) - 1)),
      upd h x (x + 1)), ?_, ?_⟩
    · unfold umaxInit
      simp only []
      rw [wr_ok t x _ (by omega) (by omega), ok_bind, wr_ok h x _ (by omega) (by omega), ok_bind,
        rd_ok bounds x (by omega) (by omega), ok_bind,
        rd_ok bounds (x + 1) (by omega) (by omega), ok_bind,
        get_sum_bounds_ok hu hb x (x + 1) (by omega) (by omega) (by omega) (by omega), ok_bind,
        wr_ok d x _ (by omega) (by omega), ok_bind]
      rfl
    · refine ⟨x + 1, hrest, by omega, by omega, by simp [h1], by simp [h2], by simp [h3], ?_⟩
      intro k hk1 hk2
      simp only
      by_cases hkx : k = x
      · subst hkx
        rw [g_upd_same t k _ (by omega) (by omega), g_upd_same h k _ (by omega) (by omega),
          g_upd_same d k _ (by omega) (by omega)]
        exact ⟨rfl, rfl, rfl⟩
      · rw [g_upd_ne t x _ k (by omega) (by omega) (by omega) hkx,
          g_upd_ne h x _ k (by omega) (by omega) (by omega) hkx,
          g_upd_ne d x _ k (by omega) (by omega) (by omega) hkx]
        exact h4 k hk1 (by omega)
  · rintro ⟨t, d, h⟩ ⟨i, hr, hi1, hi2, h1, h2, h3, h4⟩
    have : ¬ i < M + 1 := by
      intro hlt
      rw [rangeUp_cons i (M + 1) hlt] at hr
      cases hr
    exact ⟨h1, h2, h3, fun k hk1 hk2 => h4 k hk1 (by omega)⟩
  · exact ⟨0, rfl, by omega, by omega, hst, hsd, hsh, fun k h1 h2 => by omega⟩

theorem uminv_init {M : Int} {sz : Nat} {bounds t d h : Array Int} {u : PSum} {fv m : Int}
    (hb : BC bounds (M + 1) fv m) (hu : PS u fv m) (hus : PSStrict u m)
    (hst : t.size = sz) (hsd : d.size = sz) (hsh : h.size = sz) (hNsz : M + 1 < sz)
    (hv : ∀ k, 0 ≤ k → k ≤ M → g t k = k + 1 ∧ g h k = k + 1 ∧
      g d k = gsum u (g bounds k) (g bounds (k + 1) - 1)) : UMInv M sz (K u fv bounds) t d h := by
  have hN := hb.hN
  have hdk : ∀ k, 0 ≤ k → k ≤ M → g d k = K u fv bounds (k + 1) - K u fv bounds k := by
    intro k h1 h2
    rw [(hv k h1 h2).2.2]
    exact gsum_K hu hb k (k + 1) h1 (by omega) (by omega)
  have hchain : ∀ a : Int → Int, (∀ k, 0 ≤ k → k ≤ M → a k = k + 1) → UChain a M := by
    intro a ha
    refine ⟨by omega, ?_, ?_, ?_, ?_⟩
    · intro i h1 h2; rw [ha i h1 h2]; omega
    · intro i h1 h2 _
      rw [ha i h1 h2]
      refine ⟨fun k hk1 hk2 => by omega, ?_⟩
      by_cases h0 : i + 1 = M + 1
      · exact Or.inl h0
      · right; rw [ha (i + 1) (by omega) (by omega)]; omega
    · intro i h1 h2 h3; rw [ha i h1 h2] at h3; omega
    · rw [ha 0 (by omega) (by omega)]; omega
  refine ⟨⟨hst, hsd, hsh, hNsz, hchain _ (fun k h1 h2 => (hv k h1 h2).1),
    hchain _ (fun k h1 h2 => (hv k h1 h2).2.1), ?_, ?_, ?_, ?_⟩, ?_⟩
  · exact (hv M (by omega) (by omega)).1
  · intro i h1 h2 _
    rw [hdk i h1 h2]
    have := K_strict hu hus hb i (i + 1) h1 (by omega) (by omega)
    omega
  · intro r h1 h2 _
    rw [(hv r h1 (by omega)).1]
    by_cases h3 : r + 1 = M
    · exact Or.inl h3
    · right; rw [(hv (r + 1 + 1) (by omega) (by omega)).2.1]; omega
  · intro r h1 h2 _ _
    rw [(hv (r + 1) (by omega) (by omega)).2.1]; omega
  · exact hdk 0 (by omega) (by omega)

/-! ### `filter_upper_max` -/

theorem filter_upper_max_spec {M : Int} {sz : Nat} {bounds : Array Int} {u : PSum} {fv m : Int}
    (hb : BC bounds (M + 1) fv m) (hu : PS u fv m) (hus : PSStrict u m)
    (n : Int) (t d h : Array Int) (domains ranks : Arr2) (msv : Array Int)
    (hst : t.size = sz) (hsd : d.size = sz) (hsh : h.size = sz) (hNsz : M + 1 < sz)
    (hrs : ranks.size = domains.size) (hn : n = msv.size)
    (hmsv : ∀ i : Int, 0 ≤ i → i < n → 0 ≤ g msv i ∧ g msv i < (domains.size : Int))
    (hranks : ∀ v : Int, 0 ≤ v → v < ranks.size →
      1 ≤ (g2 ranks v).1 ∧ (g2 ranks v).1 ≤ M ∧ 1 ≤ (g2 ranks v).2 ∧ (g2 ranks v).2 ≤ M) :
    ∃ r, filter_upper_max n M t d h bounds domains ranks msv u = .ok r ∧
      (r.1 = true → r.2.1.size = sz ∧ r.2.2.1.size = sz ∧ r.2.2.2.1.size = sz ∧
        r.2.2.2.2.size = domains.size) := by
  rw [filter_upper_max_eq]
  obtain ⟨⟨t0, d0, h0⟩, he0, hs1, hs2, hs3, hv0⟩ := umaxInit_spec hb hu t d h hst hsd hsh hNsz
  rw [he0, ok_bind]
  simp only at hs1 hs2 hs3 hv0 ⊢
  have hi0 : UMInv M sz (K u fv bounds) t0 d0 h0 := uminv_init hb hu hus hs1 hs2 hs3 hNsz hv0
  refine except_bind_ok
    (P := fun (s : UMSt) =>
      (s.1 = none ∧ s.2.1.size = sz ∧ s.2.2.1.size = sz ∧ s.2.2.2.1.size = sz ∧
        s.2.2.2.2.size = domains.size) ∨ ∃ st, s.1 = some (false, st))
    (forIn_list_except
      (Inv := fun (rest : List Int) (s : UMSt) =>
        ∃ i, rest = rangeDown i (-1) ∧ -1 ≤ i ∧ i ≤ n - 1 ∧ s.1 = none ∧
        UMInv M sz (K u fv bounds) s.2.1 s.2.2.1 s.2.2.2.1 ∧ s.2.2.2.2.size = domains.size)
      _ _ ?_ ?_ _ _ ?_) ?_
  · rintro x rest ⟨o, t1, d1, h1, dom1⟩ ⟨i, hr, hi1, hi2, ho, hi, hds⟩
    simp only at ho hi hds
    obtain ⟨hlt, hx, hrest⟩ := rangeDown_eq_cons i (-1) x rest hr
    subst hx
    have hv := hmsv x (by omega) (by omega)
    have hr := hranks (g msv x) hv.1 (by omega)
    rcases umaxBody_spec hb hu hus hi ranks dom1 msv x o (by omega) (by omega) hv.1 (by omega) (by omega)
      hr.2.2.1 hr.2.2.2 hr.1 hr.2.1 with ⟨t', d', h', dom', he, hi', hs'⟩ | ⟨st, he⟩
    · left
      exact ⟨_, he, x - 1, hrest, by omega, by omega, rfl, hi', by simp only; omega⟩
    · right
      exact ⟨_, he, Or.inr ⟨st, rfl⟩⟩
  · rintro ⟨o, t1, d1, h1, dom1⟩ ⟨i, _, _, _, ho, hi, hds⟩
    exact Or.inl ⟨ho, hi.st, hi.sd, hi.sh, hds⟩
  · exact ⟨n - 1, rfl, by omega, by omega, rfl, hi0, rfl⟩
  · rintro ⟨o, t1, d1, h1, dom1⟩ hp
    rcases hp with ⟨ho, h4'⟩ | ⟨st, ho⟩
    · simp only at ho h4'
      subst ho
      exact ⟨_, rfl, fun _ => h4'⟩
    · simp only at ho
      subst ho
      exact ⟨_, rfl, fun h => by simp at h⟩

end Gcc
end Nucs
