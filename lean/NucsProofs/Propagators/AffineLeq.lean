import NucsProofs.Basic
/-!
  affine_leq: `Σ c_i x_i ≤ a`.  Sound, GroundOk, EntailOk, TrigOk, ContractMono, Safe.
  (Exemplar for the other T1 propagators.)
-/
namespace Nucs

theorem minTerm_le (c : Int) (d : Dom) (t : Int) (h : inDom t d) : minTerm c d ≤ c * t := by
  unfold minTerm inDom at *
  split
  · exact Int.mul_le_mul_of_nonneg_left h.1 (by omega)
  · exact Int.mul_le_mul_of_nonpos_left (by omega) h.2

theorem le_maxTerm (c : Int) (d : Dom) (t : Int) (h : inDom t d) : c * t ≤ maxTerm c d := by
  unfold maxTerm inDom at *
  split
  · exact Int.mul_le_mul_of_nonneg_left h.2 (by omega)
  · exact Int.mul_le_mul_of_nonpos_left (by omega) h.1

theorem sumMinC_le_dot : ∀ (cs : List Int) (B : Box) (t : List Int),
    inBox t B → sumMinC cs B ≤ dot cs t
  | [], _, _, _ => by simp [sumMinC, dot]
  | _ :: _, [], [], _ => by simp [sumMinC, dot]
  | c :: cs, d :: ds, x :: xs, h => by
    simp only [sumMinC, dot]
    have := minTerm_le c d x h.1
    have := sumMinC_le_dot cs ds xs h.2
    omega
  | _ :: _, [], _ :: _, h => by simp [inBox] at h
  | _ :: _, _ :: _, [], h => by simp [inBox] at h

theorem dot_le_sumMaxC : ∀ (cs : List Int) (B : Box) (t : List Int),
    inBox t B → dot cs t ≤ sumMaxC cs B
  | [], _, _, _ => by simp [sumMaxC, dot]
  | _ :: _, [], [], _ => by simp [sumMaxC, dot]
  | c :: cs, d :: ds, x :: xs, h => by
    simp only [sumMaxC, dot]
    have := le_maxTerm c d x h.1
    have := dot_le_sumMaxC cs ds xs h.2
    omega
  | _ :: _, [], _ :: _, h => by simp [inBox] at h
  | _ :: _, _ :: _, [], h => by simp [inBox] at h

/-- pruning only shrinks -/
theorem leqPrune_le (K c : Int) (d : Dom) : d.1 ≤ (leqPrune K c d).1 ∧ (leqPrune K c d).2 ≤ d.2 := by
  unfold leqPrune
  split
  · exact ⟨Int.le_refl _, Int.le_refl _⟩
  · split <;> simp <;> omega

theorem pruneWith_leq_le (K : Int) : ∀ (cs : List Int) (B : Box), Box.le (pruneWith (leqPrune K) cs B) B
  | [], B => by simpa [pruneWith] using Box.le_refl B
  | _ :: _, [] => by simp [pruneWith, Box.le]
  | c :: cs, d :: ds => ⟨leqPrune_le K c d, pruneWith_leq_le K cs ds⟩

/-- a solution survives the pruning: generalised over the slack `K ≥ dot - sumMinC` -/
theorem leq_keep (K : Int) : ∀ (cs : List Int) (B : Box) (t : List Int),
    inBox t B → dot cs t - sumMinC cs B ≤ K → inBox t (pruneWith (leqPrune K) cs B)
  | [], B, t, h, _ => by simpa [pruneWith] using h
  | _ :: _, [], [], _, _ => by simp [pruneWith, inBox]
  | c :: cs, d :: ds, x :: xs, h, hK => by
    simp only [pruneWith, inBox]
    simp only [dot, sumMinC] at hK
    have hrest := sumMinC_le_dot cs ds xs h.2
    have hterm := minTerm_le c d x h.1
    refine ⟨?_, leq_keep K cs ds xs h.2 (by omega)⟩
    have hct : c * x - minTerm c d ≤ K := by omega
    obtain ⟨hlo, hhi⟩ := h.1
    unfold leqPrune inDom
    split
    · exact ⟨hlo, hhi⟩
    · split
      · rename_i _ hc
        have hm : minTerm c d = c * d.1 := by simp [minTerm, hc]
        refine ⟨hlo, ?_⟩
        have : x - d.1 ≤ pyDiv K c := (le_pyDiv_iff K c (x - d.1) hc).mpr (by rw [Int.mul_sub]; omega)
        simp only
        omega
      · rename_i hc0 hc
        have hcneg : c < 0 := by omega
        have hm : minTerm c d = c * d.2 := by simp [minTerm, hc]
        refine ⟨?_, hhi⟩
        have h1 : (-c) * (d.2 - x) ≤ K := by rw [Int.mul_sub]; simp only [Int.neg_mul]; omega
        have h2 : d.2 - x ≤ pyDiv K (-c) := (le_pyDiv_iff K (-c) (d.2 - x) (by omega)).mpr h1
        have h3 : pyDiv (-K) c = pyDiv K (-c) := pyDiv_neg_left K c
        simp only
        omega
  | _ :: _, [], _ :: _, h, _ => by simp [inBox] at h
  | _ :: _, _ :: _, [], h, _ => by simp [inBox] at h

theorem minTerm_leqPrune (K c : Int) (d : Dom) : minTerm c (leqPrune K c d) = minTerm c d := by
  unfold leqPrune minTerm
  by_cases h0 : c = 0
  · simp [h0]
  · by_cases hc : c > 0
    · simp [h0, hc]
    · simp [h0, hc]

/-- pruning never moves the bound that carries the minimum of the linear form -/
theorem sumMinC_pruneLeq (K : Int) : ∀ (cs : List Int) (B : Box),
    sumMinC cs (pruneWith (leqPrune K) cs B) = sumMinC cs B
  | [], _ => by simp [sumMinC]
  | _ :: _, [] => by simp [pruneWith, sumMinC]
  | c :: cs, d :: ds => by
    simp only [pruneWith, sumMinC, sumMinC_pruneLeq K cs ds, minTerm_leqPrune]

theorem runAlg_affineLeq (ps : List Int) (B : Box) :
    runAlg .affineLeq ps B = .ok (affineLeqCore ps.dropLast (ps.getLastD 0) B) := rfl

theorem sound_affineLeq : Sound .affineLeq := by
  intro ps B st B' _ hne hrun
  rw [runAlg_affineLeq] at hrun
  injection hrun with hrun
  simp only [affineLeqCore] at hrun
  simp only [rel]
  generalize ps.dropLast = cs at *
  generalize ps.getLastD 0 = a at *
  split at hrun
  · -- entailed
    injection hrun with h1 h2; subst h1; subst h2
    exact ⟨fun _ => ⟨Box.le_refl _, hne, fun t ht _ => ht⟩, fun h => by cases h⟩
  · split at hrun
    · -- a < Σ min : no solution
      rename_i _ hs
      injection hrun with h1 h2; subst h1; subst h2
      refine ⟨fun h => absurd rfl h, fun _ t ht hrel => ?_⟩
      have := sumMinC_le_dot cs B t ht
      omega
    · split at hrun
      · -- some pruned domain is empty: no solution
        rename_i _ _ hemp
        injection hrun with h1 h2; subst h1; subst h2
        refine ⟨fun h => absurd rfl h, fun _ t ht hrel => ?_⟩
        have hk := leq_keep (a - sumMinC cs B) cs B t ht (by omega)
        have hne' : ¬ Box.Nonempty (pruneWith (leqPrune (a - sumMinC cs B)) cs B) := by
          rw [← Box.hasEmpty_eq_false_iff]; simp [hemp]
        exact hne' (nonempty_of_inBox hk)
      · rename_i _ _ hemp
        injection hrun with h1 h2; subst h1; subst h2
        refine ⟨fun _ => ⟨pruneWith_leq_le _ cs B, ?_, fun t ht hrel => ?_⟩, fun h => by cases h⟩
        · rw [← Box.hasEmpty_eq_false_iff]; simpa using hemp
        · exact leq_keep (a - sumMinC cs B) cs B t ht (by omega)

theorem entailOk_affineLeq : EntailOk .affineLeq := by
  intro ps B B' _ _ hrun t ht
  rw [runAlg_affineLeq] at hrun
  injection hrun with hrun
  simp only [affineLeqCore] at hrun
  simp only [rel]
  generalize ps.dropLast = cs at *
  generalize ps.getLastD 0 = a at *
  split at hrun
  · rename_i hs
    injection hrun with _ h2; subst h2
    have := dot_le_sumMaxC cs B t ht
    omega
  · split at hrun
    · injection hrun with h1 _; cases h1
    · split at hrun <;> (injection hrun with h1 _; cases h1)

/-- the value of the linear form on a point box -/
theorem sumMinC_pointBox : ∀ (cs t : List Int), sumMinC cs (pointBox t) = dot cs t
  | [], _ => by simp [sumMinC, dot]
  | _ :: _, [] => by simp [sumMinC, dot, pointBox]
  | c :: cs, x :: xs => by
    have := sumMinC_pointBox cs xs
    simp only [pointBox, List.map_cons, sumMinC, dot, minTerm] at *
    split <;> omega

theorem groundOk_affineLeq : GroundOk .affineLeq := by
  intro ps B st B' t hc hne hrun hst hB'
  have hs := (sound_affineLeq ps B st B' hc hne hrun).1 hst
  -- B' is a point inside B; the call did not fail on B; show the point satisfies the inequality
  rw [runAlg_affineLeq] at hrun
  injection hrun with hrun
  simp only [affineLeqCore] at hrun
  simp only [relW, rel]
  generalize ps.dropLast = cs at *
  generalize ps.getLastD 0 = a at *
  have htB : inBox t B := inBox_of_le (hB' ▸ inBox_pointBox_self t) hs.1
  split at hrun
  · rename_i hsm
    have := dot_le_sumMaxC cs B t htB
    omega
  · split at hrun
    · injection hrun with h1 _; exact absurd h1.symm hst
    · split at hrun
      · injection hrun with h1 _; exact absurd h1.symm hst
      · -- consistent: output = pruned box = point t.  Its lower sum is unchanged by pruning …
        rename_i hnent hsmax _
        injection hrun with _ h2
        -- use: sumMinC of the pruned box equals sumMinC of B (pruning never moves the bound
        -- that carries the minimum), hence dot cs t = sumMinC cs B ≤ a
        have := sumMinC_pruneLeq (a - sumMinC cs B) cs B
        rw [h2, hB', sumMinC_pointBox] at this
        omega

theorem contractMono_affineLeq : ContractMono .affineLeq := by
  intro ps B B' hc hle
  simp only [Contract] at *
  rw [Box.le_length hle]; exact hc

theorem safe_affineLeq : Safe .affineLeq := fun ps B _ _ => ⟨_, runAlg_affineLeq ps B⟩

end Nucs
