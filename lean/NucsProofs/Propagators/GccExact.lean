import NucsProofs.Propagators.GccExactAsm
import NucsProofs.Propagators.GccPortSound
import NucsProofs.Propagators.ExactOfSupport
/-!
  Bound-consistency EXACTNESS of the RAW PORT of the gcc propagator — what is proved.

  * `gcc_port_fixpoint_of_supported` (unconditional): a supported answer is a fixpoint, the second
    call returns `(.cons, B')` again;
  * `gcc_port_supported_partial` / `gcc_port_exact_partial`: `Supported .gcc ps B'` and the shape of
    `Exact` for the raw function `gcc`, UNDER THE EXPLICIT HYPOTHESIS that every bound of the answer
    has a support in the LOWER-capacity relaxation of the input box (`LbcSupported`: a tuple of the
    input box taking that bound and meeting every lower capacity, upper capacities ignored).

  What the proof contains: the bounds written by the two upper-capacity passes have supports in the
  upper-capacity relaxation (capacity expansion + Hall's theorem with one variable fixed,
  `upper_support`); for a variable that is not stable a lower support combines with any solution
  into a gcc support (`nonstable_combine`, by the tightness of the non-stable cells); for a stable
  variable the upper support and the lower support combine by `gcc_support_mix` (Quimper et al.'s
  alternating-path combination).  What is missing for the unconditional `gcc_port_supported` /
  `gcc_port_exact` is the completeness half of the two LOWER-capacity passes: that their new
  bounds (and every value of a stable variable) are supported in the lower-capacity relaxation.
  The hypothesis was tested together with the conclusion: on all 7.1M instances with n, m ≤ 4,
  u ≤ 2 and on ≈ 480 000 random consistent instances with n ≤ 12, m ≤ 10 the answer of one call was
  exactly the bound-consistent box (brute force) resp. a fixpoint of the port.
-/
namespace Nucs
open Gcc AllDiff

/-- `x_k = v` has a support in the lower-capacity relaxation of gcc on the box `B` -/
def LbcSupported (ps : List Int) (B : Box) (k : Nat) (v : Int) : Prop :=
  ∃ t, inBox t B ∧ getI t k = v ∧
    ∀ j, j < (ps.length - 1) / 2 → getI ps (1 + j) ≤ ((t.count (getI ps 0 + (j : Int)) : Nat) : Int)

namespace Gcc

theorem occ_tupleOf (τ : Int → Int) (n : Nat) (v : Int) :
    occ τ (Gcc.rangeUp 0 (n : Int)) v = ((Gcc.tupleOf τ n).count v : Int) := by
  have e4 : (n : Int) = ((Gcc.tupleOf τ n).length : Int) := by rw [Gcc.tupleOf_length]
  rw [e4, ← Gcc.occ_tval]
  apply Gcc.occ_congr'
  intro p hp
  rw [Gcc.mem_rangeUp] at hp
  unfold Gcc.tval
  have hp2 : p.toNat < n := by
    have := hp.2; rw [Gcc.tupleOf_length] at this; omega
  rw [Gcc.tupleOf_get τ _ _ hp2]
  congr 1; omega

theorem within_of_leG {lo hi : Int} : ∀ {B' B : Box}, Box.le B' B → B.within lo hi →
    B'.within lo hi
  | [], [], _, _ => by intro d hd; cases hd
  | d' :: ds', d :: ds, h, hw => by
    intro e he
    rcases List.mem_cons.mp he with rfl | he
    · have h1 := hw d (by simp)
      have h2 := h.1
      omega
    · exact within_of_leG h.2 (fun x hx => hw x (List.mem_cons_of_mem _ hx)) e he
  | [], _ :: _, h, _ => by simp [Box.le] at h
  | _ :: _, [], h, _ => by simp [Box.le] at h

end Gcc

/-- the array-level facts behind the box-level theorems -/
theorem gcc_port_supported_aux (ps : List Int) (B : Box) (hc : Contract .gcc ps B)
    (hB : B.Nonempty)
    (hu : ∀ j, j < (ps.length - 1) / 2 → 1 ≤ getI ps (1 + (ps.length - 1) / 2 + j))
    (st : Status) (B' : Box) (h : gcc ps B = .ok (st, B')) (hst : st ≠ .inc) :
    st = .cons ∧ ∀ k, k < B'.length → ∀ val, (val = (getDom B' k).1 ∨ val = (getDom B' k).2) →
      LbcSupported ps B k val → ∃ t, inBox t B' ∧ rel .gcc ps t ∧ getI t k = val := by
  obtain ⟨t0, ht0, hrel0⟩ := gcc_port_feasible ps B hc hB hu st B' h hst
  have hsound := (gcc_port_sound ps B hc hB hu st B' h).1 hst
  obtain ⟨hlen, hm1, hB1, hwithin, hcap⟩ := hc
  generalize hmdef : (ps.length - 1) / 2 = mn at hlen hm1 hwithin hcap hu
  have hsz : (B.toArray.size : Int) = (B.length : Int) := by simp
  have htl0 := inBox_length ht0
  -- the solution as a `GSol`
  have hrel0' : gccOk (getI ps 0) ((ps.drop 1).take mn) (ps.drop (1 + mn)) t0 := by
    have := hrel0
    simp only [rel] at this
    rw [hmdef] at this
    exact this
  have hdomOf : ∀ t, inBox t B → ∀ v, 0 ≤ v → v < (B.toArray.size : Int) →
      (g2 B.toArray v).1 ≤ tval t v ∧ tval t v ≤ (g2 B.toArray v).2 := by
    intro t ht v h0 h1
    have h1' : v.toNat < B.length := by simp at h1; omega
    have := inBox_get v.toNat ht h1'
    have e : g2 B.toArray v = getDom B v.toNat := by
      have := Gcc.g2_toArrayG B v.toNat
      rw [Int.toNat_of_nonneg h0] at this; exact this
    rw [e]; exact this
  have hτ0 : Gcc.GSol (B.toArray.size : Int) (g ps.toArray 0) (mn : Int) B.toArray
      (fun j => g ps.toArray (1 + j)) (fun j => g ps.toArray (1 + (mn : Int) + j)) (tval t0) := by
    refine ⟨hdomOf t0 ht0, ?_, ?_⟩
    · intro j h0 h1
      have := (hrel0' j.toNat (by simp; omega)).1
      rw [Gcc.getI_take_drop ps mn j.toNat (by omega) hlen] at this
      have e1 : B.toArray.size = t0.length := by simp; omega
      rw [e1, Gcc.occ_tval, Gcc.g_toArray, Gcc.g_toArray]
      have e2 : (1 + j).toNat = 1 + j.toNat := by omega
      have e3 : (0 : Int).toNat = 0 := rfl
      have e4 : getI ps 0 + j = getI ps 0 + (j.toNat : Int) := by omega
      rw [e2, e3, e4]; exact this
    · intro j h0 h1
      have := (hrel0' j.toNat (by simp; omega)).2
      rw [Gcc.getI_drop] at this
      have e1 : B.toArray.size = t0.length := by simp; omega
      rw [e1, Gcc.occ_tval, Gcc.g_toArray, Gcc.g_toArray]
      have e2 : (1 + (mn : Int) + j).toNat = 1 + mn + j.toNat := by omega
      have e3 : (0 : Int).toNat = 0 := rfl
      have e4 : getI ps 0 + j = getI ps 0 + (j.toNat : Int) := by omega
      rw [e2, e3, e4]; exact this
  obtain ⟨status, domains, hr, hstat, hsup⟩ := Gcc.compute_domains_gcc_supported B.toArray ps.toArray
    (mn : Int) (by omega) (by simp; omega) (by simpa using hB1)
    (by
      intro v h0 h1
      have hmem := AllDiff.g2_mem_toArray B v h0 (by simpa using h1)
      have hw := hwithin _ hmem
      have hne := hB _ hmem
      rw [Gcc.g_toArray]
      exact ⟨hw.1, hne, hw.2⟩)
    (by
      intro k h0 h1
      rw [Gcc.g_toArray]
      have := (hcap k.toNat (by omega)).1
      have e : (1 + k).toNat = 1 + k.toNat := by omega
      rw [e]; exact this)
    (by
      intro k h0 h1
      rw [Gcc.g_toArray, Gcc.g_toArray]
      have := (hcap k.toNat (by omega)).2
      have e : (1 + k).toNat = 1 + k.toNat := by omega
      have e2 : (1 + (mn : Int) + k).toNat = 1 + mn + k.toNat := by omega
      rw [e, e2]; exact this)
    (by
      intro k h0 h1
      rw [Gcc.g_toArray]
      have := hu k.toNat (by omega)
      have e : (1 + (mn : Int) + k).toNat = 1 + mn + k.toNat := by omega
      rw [e]; exact this)
    (tval t0) hτ0
  -- the result of the call
  unfold gcc at h
  rw [hr] at h
  simp only [AllDiff.ok_bind] at h
  have hstatus : status ≠ .inc := by
    intro hs
    rw [if_pos (by simp [hs])] at h
    have : (Status.inc, B) = (st, B') := by simpa [pure, Except.pure] using h
    exact hst (Prod.mk.inj this).1.symm
  rw [if_neg (by simpa using hstatus)] at h
  have hinj : st = status ∧ B' = domains.toList := by
    have : (status, domains.toList) = (st, B') := by simpa [pure, Except.pure] using h
    exact ⟨(Prod.mk.inj this).1.symm, (Prod.mk.inj this).2.symm⟩
  obtain ⟨e1, e2⟩ := hinj
  subst e1 e2
  refine ⟨by rcases hstat with h' | h'; exact absurd h' hstatus; exact h', ?_⟩
  intro k hk val hval ⟨t, ht, htk, hlow⟩
  have hlenB : domains.toList.length = B.length := Box.le_length hsound.1
  have htl := inBox_length ht
  have hkB : k < B.length := by omega
  obtain ⟨ρ, ⟨ρ1, ρ2, ρ3⟩, ρk⟩ := hsup hstatus (k : Int) (by omega) (by rw [hsz]; omega) (tval t) val
    (by
      rw [Gcc.g2_toListG] 
      exact hval)
    ⟨hdomOf t ht, by
      intro j h0 h1
      have := hlow j.toNat (by rw [hmdef]; omega)
      have e1 : B.toArray.size = t.length := by simp; omega
      show g ps.toArray (1 + j) ≤
        occ (tval t) (Gcc.rangeUp 0 (B.toArray.size : Int)) (g ps.toArray 0 + j)
      rw [e1, Gcc.occ_tval, Gcc.g_toArray, Gcc.g_toArray]
      have e2 : (1 + j).toNat = 1 + j.toNat := by omega
      have e3 : (0 : Int).toNat = 0 := rfl
      have e4 : getI ps 0 + j = getI ps 0 + (j.toNat : Int) := by omega
      rw [e2, e3, e4]; exact this,
     by unfold tval; simp only [Int.toNat_natCast]; exact htk⟩
  -- the gcc support as a tuple
  have hin : inBox (Gcc.tupleOf ρ B.length) B := by
    refine Gcc.inBox_of_getG (Gcc.tupleOf_length ρ B.length) (fun i hi => ?_)
    rw [Gcc.tupleOf_get ρ _ i hi]
    have := ρ1 (i : Int) (by omega) (by rw [hsz]; omega)
    rw [Gcc.g2_toArrayG] at this
    exact this
  have hrel : rel .gcc ps (Gcc.tupleOf ρ B.length) := by
    simp only [rel]
    rw [hmdef]
    intro j hj
    have hjm : j < mn := by
      have : j < min mn (ps.length - 1) := by simpa using hj
      omega
    rw [Gcc.getI_take_drop ps mn j hjm hlen, Gcc.getI_drop]
    have h1 := ρ2 (j : Int) (by omega) (by omega)
    have h2 := ρ3 (j : Int) (by omega) (by omega)
    rw [Gcc.g_toArray] at h1 h2
    rw [Gcc.g_toArray] at h1 h2
    have e1 : (1 + (j : Int)).toNat = 1 + j := by omega
    have e2 : (1 + (mn : Int) + (j : Int)).toNat = 1 + mn + j := by omega
    have e3 : (0 : Int).toNat = 0 := rfl
    rw [e1, e3] at h1
    rw [e2, e3] at h2
    have e5 : (B.toArray.size : Int) = ((B.length : Nat) : Int) := by simp
    rw [e5, Gcc.occ_tupleOf] at h1 h2
    exact ⟨h1, h2⟩
  exact ⟨_, hsound.2.2 _ hin hrel, hrel, by rw [Gcc.tupleOf_get ρ _ k hkB]; exact ρk⟩

/-- **Bound consistency of the answer, modulo the lower-capacity relaxation** (partial: see the
    header): if every bound of the answer has a support in the lower-capacity relaxation of the
    input box, every bound of the answer is attained by a solution inside the answer. -/
theorem gcc_port_supported_partial (ps : List Int) (B : Box) (hc : Contract .gcc ps B)
    (hB : B.Nonempty)
    (hu : ∀ j, j < (ps.length - 1) / 2 → 1 ≤ getI ps (1 + (ps.length - 1) / 2 + j))
    (st : Status) (B' : Box) (h : gcc ps B = .ok (st, B')) (hst : st ≠ .inc)
    (hlbc : ∀ k, k < B'.length →
      LbcSupported ps B k (getDom B' k).1 ∧ LbcSupported ps B k (getDom B' k).2) :
    Supported .gcc ps B' := by
  obtain ⟨_, haux⟩ := gcc_port_supported_aux ps B hc hB hu st B' h hst
  intro k hk
  exact ⟨haux k hk _ (Or.inl rfl) (hlbc k hk).1, haux k hk _ (Or.inr rfl) (hlbc k hk).2⟩

/-- a supported answer is a fixpoint of the raw port (unconditional) -/
theorem gcc_port_fixpoint_of_supported (ps : List Int) (B : Box) (hc : Contract .gcc ps B)
    (hB : B.Nonempty)
    (hu : ∀ j, j < (ps.length - 1) / 2 → 1 ≤ getI ps (1 + (ps.length - 1) / 2 + j))
    (st : Status) (B' : Box) (h : gcc ps B = .ok (st, B')) (hst : st ≠ .inc)
    (hsup : Supported .gcc ps B') : gcc ps B' = .ok (.cons, B') := by
  obtain ⟨hle, hne, _⟩ := (gcc_port_sound ps B hc hB hu st B' h).1 hst
  have hlen' := Box.le_length hle
  have hc' : Contract .gcc ps B' := by
    obtain ⟨c1, c2, c3, c4, c5⟩ := hc
    exact ⟨c1, c2, by omega, Gcc.within_of_leG hle c4, c5⟩
  have hpos : 1 ≤ B'.length := by have := hc'.2.2.1; exact this
  obtain ⟨⟨st'', B''⟩, hrun⟩ := C16_port_gcc_ok ps B' hc' hne hu
  obtain ⟨hs1, hs2⟩ := gcc_port_sound ps B' hc' hne hu st'' B'' hrun
  have hst'' : st'' ≠ .inc := by
    intro h'
    obtain ⟨t, ht, hr⟩ := hsup.exists_solution hpos
    exact hs2 h' t ht hr
  obtain ⟨hle'', _, hkeep⟩ := hs1 hst''
  have hB'' : B'' = B' := by
    apply Box.ext_get (Box.le_length hle'')
    intro k hk
    have hk' : k < B'.length := by have := Box.le_length hle''; omega
    have hb := Box.le_get k hle'' hk'
    obtain ⟨⟨t1, ht1, hr1, he1⟩, ⟨t2, ht2, hr2, he2⟩⟩ := hsup k hk'
    have h1 := inBox_get k (hkeep t1 ht1 hr1) hk
    have h2 := inBox_get k (hkeep t2 ht2 hr2) hk
    rw [he1] at h1; rw [he2] at h2
    exact Prod.ext (by omega) (by omega)
  have hcons : st'' = .cons := (gcc_port_supported_aux ps B' hc' hne hu st'' B'' hrun hst'').1
  rw [hrun, hB'', hcons]

/-- the shape of `Exact` (Spec.lean) for the raw function `gcc`, under the hypothesis of
    `gcc_port_supported_partial` -/
theorem gcc_port_exact_partial (ps : List Int) (B : Box) (hc : Contract .gcc ps B)
    (hB : B.Nonempty)
    (hu : ∀ j, j < (ps.length - 1) / 2 → 1 ≤ getI ps (1 + (ps.length - 1) / 2 + j))
    (st : Status) (B' : Box) (h : gcc ps B = .ok (st, B')) (hst : st ≠ .inc)
    (hlbc : ∀ k, k < B'.length →
      LbcSupported ps B k (getDom B' k).1 ∧ LbcSupported ps B k (getDom B' k).2) :
    (∀ k, k < B'.length →
      (∃ t, inBox t B' ∧ rel .gcc ps t ∧ getI t k = (getDom B' k).1) ∧
      (∃ t, inBox t B' ∧ rel .gcc ps t ∧ getI t k = (getDom B' k).2)) ∧
    (∃ st', gcc ps B' = .ok (st', B') ∧ st' ≠ .inc) := by
  have hsup := gcc_port_supported_partial ps B hc hB hu st B' h hst hlbc
  refine ⟨hsup, .cons, gcc_port_fixpoint_of_supported ps B hc hB hu st B' h hst hsup, by simp⟩

end Nucs
