import NucsProofs.Propagators.AlldiffCorrectMath
/-!
  Semantic soundness of the ported gcc — the lower-capacity passes (`filter_lower_min`,
  `filter_upper_min`), part 1: the abstract loop invariant (pure mathematics, no monads).

  `bd k` = the sum of the lower capacities of the values below `bounds[k]` (weakly increasing),
  `U` = the processed variables that were USED (matched to a unit of demand), `P` = all processed
  variables.  `phi bd rx U k = bd k - #{u ∈ U : minrank u < k}`; as in the upper-capacity passes the
  roots of the `t`-forest are the strict left-to-right records of `phi` and `c[z]` is the difference
  between consecutive records.  `sets` marks the intervals of ranks whose demand is exactly met by
  the used variables confined to them.
-/
namespace Nucs
namespace Gcc
open AllDiff (cntLt cinR phi LChain LStruct LPre Oth cntLt_snoc cinR_snoc phi_snoc cinR_eq_cnt
  cntLt_top phi_top cinR_phi cinR_sublist cinR_nonneg cinR_nil cntLt_nil)

/-- the setting: `bd` weakly increasing, ranks `1 ≤ rx < ry < N` -/
structure WCtx (N : Int) (bd rx ry : Int → Int) (all : List Int) : Prop where
  hN : 2 ≤ N
  mono : ∀ i j, 0 ≤ i → i ≤ j → j ≤ N → bd i ≤ bd j
  rk : ∀ u ∈ all, 1 ≤ rx u ∧ rx u < ry u ∧ ry u < N

/-- roots of the `t`-forest and records of `phi` -/
structure TSem (N : Int) (bd rx : Int → Int) (U : List Int) (tf df : Int → Int) : Prop where
  s1a : ∀ z, 1 ≤ z → z ≤ N → tf z < z → df z = phi bd rx U z - phi bd rx U (tf z)
  s1b : ∀ z, 1 ≤ z → z ≤ N → tf z < z → ∀ k, tf z ≤ k → k < z →
    phi bd rx U k ≤ phi bd rx U (tf z)

section
variable {N : Int} {bd rx ry : Int → Int} {all P U : List Int} {Y : Int}
  {tf df hf tf' df' hf' : Int → Int}

/-- the roots of the `t`-forest are strict left-to-right records of `phi` -/
theorem TSem.record (hs : LStruct N tf df hf) (hsem : TSem N bd rx U tf df) :
    ∀ (n : Nat) (r : Int), r ≤ n → 1 ≤ r → r ≤ N → tf r < r →
      ∀ k, 0 ≤ k → k < r → phi bd rx U k < phi bd rx U r := by
  intro n
  induction n with
  | zero => intro r h0 h1; omega
  | succ n ih =>
    intro r hrn h1 hN hr k hk0 hkr
    have ha := hsem.s1a r h1 hN hr
    have hd := hs.dpos r h1 hN hr
    by_cases hk : tf r ≤ k
    · have := hsem.s1b r h1 hN hr k hk hkr
      omega
    · have hrng := hs.ct.rng r h1 hN
      rcases (hs.ct.down r h1 hN hr).2 with h0 | h0
      · omega
      · have := ih (tf r) (by omega) (by omega) (by omega) h0 k hk0 (by omega)
        omega

theorem TSem.record' (hs : LStruct N tf df hf) (hsem : TSem N bd rx U tf df)
    (r : Int) (h1 : 1 ≤ r) (hN : r ≤ N) (hr : tf r < r) (k : Int) (hk0 : 0 ≤ k) (hkr : k < r) :
    phi bd rx U k < phi bd rx U r :=
  hsem.record hs r.toNat r (by omega) h1 hN hr k hk0 hkr

/-- the remaining capacity of a root is at most the capacity of its own cell -/
theorem TSem.dle (hsem : TSem N bd rx U tf df) (z : Int) (h1 : 1 ≤ z)
    (hN : z ≤ N) (hr : tf z < z) : df z ≤ bd z - bd (z - 1) := by
  have ha := hsem.s1a z h1 hN hr
  have hb := hsem.s1b z h1 hN hr (z - 1) (by omega) (by omega)
  have hc : cntLt rx U (z - 1) ≤ cntLt rx U z := by
    unfold cntLt
    have : ∀ p, decide (rx p < z - 1) = true → decide (rx p < z) = true := by
      intro p hp; simp at hp ⊢; omega
    have := List.countP_mono_left (l := U) (fun p _ => this p)
    omega
  unfold phi at ha hb
  omega

/-- facts shared by all continuations of an iteration that uses the variable `v` -/
structure PreFacts (N : Int) (bd rx : Int → Int) (U : List Int) (v : Int)
    (tf tf' df' : Int → Int) (z0 z : Int) : Prop where
  j1 : 1 ≤ tf z0
  jx : tf z0 ≤ rx v
  below : ∀ k, 0 ≤ k → k ≤ rx v → phi bd rx U k ≤ phi bd rx U (tf z0)
  sbelow : ∀ k, 0 ≤ k → k < tf z0 → phi bd rx U k < phi bd rx U (tf z0)
  zlo : rx v < z
  zhi : z ≤ N
  zroot : tf' z < z
  zj : tf' z = tf z0
  dz : 1 ≤ df' z
  z0z : z0 ≤ z
  z0j : phi bd rx (U ++ [v]) (tf z0) ≤ phi bd rx (U ++ [v]) z0
  r1a : ∀ r, 1 ≤ r → r ≤ N → tf' r < r →
    df' r = phi bd rx (U ++ [v]) r - phi bd rx (U ++ [v]) (tf' r)
  r1b : ∀ r, 1 ≤ r → r ≤ N → tf' r < r → ∀ k, tf' r ≤ k → k < r →
    phi bd rx (U ++ [v]) k ≤ phi bd rx (U ++ [v]) (tf' r)

theorem pre_facts (hs : LStruct N tf df hf) (hsem : TSem N bd rx U tf df)
    {v z0 z : Int} (hx1 : 1 ≤ rx v) (hpre : LPre N (rx v) tf df tf' df' z0 z) :
    PreFacts N bd rx U v tf tf' df' z0 z := by
  have hz0r := hpre.z0root
  have hz01 : 1 ≤ z0 := by have := hpre.z0lo; omega
  have hz0N := hpre.z0hi
  have hdown0 := hs.ct.down z0 hz01 hz0N hz0r
  have hrng0 := hs.ct.rng z0 hz01 hz0N
  have hj1 : 1 ≤ tf z0 := hs.root_ge_one z0 (by have := hpre.z0lo; omega) hz0N hz0r
  have hjx : tf z0 ≤ rx v := by
    by_cases h : tf z0 ≤ rx v
    · exact h
    · rcases hdown0.2 with h0 | h0
      · omega
      · have := hpre.z0first (tf z0) (by omega) hz0r; omega
  have hjroot : tf (tf z0) < tf z0 := by
    rcases hdown0.2 with h0 | h0
    · omega
    · exact h0
  have hsbelow : ∀ k, 0 ≤ k → k < tf z0 → phi bd rx U k < phi bd rx U (tf z0) :=
    fun k h0 h1 => hsem.record' hs (tf z0) hj1 (by omega) hjroot k h0 h1
  have hbelow : ∀ k, 0 ≤ k → k ≤ rx v → phi bd rx U k ≤ phi bd rx U (tf z0) := by
    intro k h0 h1
    by_cases hk : k < tf z0
    · exact Int.le_of_lt (hsbelow k h0 hk)
    · exact hsem.s1b z0 hz01 hz0N hz0r k (by omega) (by have := hpre.z0lo; omega)
  have habove : ∀ r, 1 ≤ r → r ≤ N → tf r < r → r ≠ z0 → rx v < r → z0 < r ∧ z0 ≤ tf r := by
    intro r h1 hN hr hne hxr
    have hzr : z0 < r := by
      by_cases h : z0 < r
      · exact h
      · have := hpre.z0first r (by omega) (by omega); omega
    refine ⟨hzr, ?_⟩
    by_cases h : z0 ≤ tf r
    · exact h
    · have := (hs.ct.down r h1 hN hr).1 z0 (by omega) hzr; omega
  have hpa : ∀ r, 1 ≤ r → r ≤ N → tf r < r →
      df' r = phi bd rx (U ++ [v]) r - phi bd rx (U ++ [v]) (tf r) := by
    intro r h1 hN hr
    rw [phi_snoc, phi_snoc]
    have ha := hsem.s1a r h1 hN hr
    by_cases hrz : r = z0
    · subst hrz
      rw [hpre.dz0, if_pos (by have := hpre.z0lo; omega), if_neg (by omega)]; omega
    · rw [hpre.doth r h1 hN hrz]
      by_cases hxr : rx v < r
      · have := habove r h1 hN hr hrz hxr
        rw [if_pos hxr, if_pos (by have := hpre.z0lo; omega)]; omega
      · rw [if_neg hxr, if_neg (by omega)]; omega
  have hpb : ∀ r, 1 ≤ r → r ≤ N → tf r < r → ∀ k, tf r ≤ k → k < r →
      phi bd rx (U ++ [v]) k ≤ phi bd rx (U ++ [v]) (tf r) := by
    intro r h1 hN hr k hk1 hk2
    rw [phi_snoc, phi_snoc]
    have hb := hsem.s1b r h1 hN hr k hk1 hk2
    by_cases hxt : rx v < tf r
    · rw [if_pos hxt, if_pos (by omega)]; omega
    · rw [if_neg hxt]
      by_cases hxk : rx v < k
      · rw [if_pos hxk]; omega
      · rw [if_neg hxk]; omega
  have hz0j : phi bd rx (U ++ [v]) (tf z0) ≤ phi bd rx (U ++ [v]) z0 := by
    have h1 := hpa z0 hz01 hz0N hz0r
    have h2 := hs.dpos z0 hz01 hz0N hz0r
    rw [hpre.dz0] at h1
    omega
  rcases hpre.mrg with ⟨hd0, hzz, hzN, hzr, hbetween, hroots, hzv, hoth⟩ |
      ⟨hd0, hzz, hroots, hoth⟩
  · have htz : tf z = z0 := by
      have hdz := hs.ct.down z (by omega) hzN hzr
      have hge : z0 ≤ tf z := by
        by_cases h : z0 ≤ tf z
        · exact h
        · have := hdz.1 z0 (by omega) hzz; omega
      by_cases he : tf z = z0
      · exact he
      · have h1 := hbetween (tf z) (by omega) hzr
        rcases hdz.2 with h0 | h0 <;> omega
    have hdz0 : df' z0 = 0 := by rw [hpre.dz0]; exact hd0
    have hpz0 := hpa z0 hz01 hz0N hz0r
    have hzne : z ≠ z0 := by omega
    refine ⟨hj1, hjx, hbelow, hsbelow, by have := hpre.z0lo; omega, hzN,
      (hroots z (by omega) hzN).2 ⟨hzr, hzne⟩, hzv, ?_, by omega, hz0j, ?_, ?_⟩
    · rw [hpre.doth z (by omega) hzN hzne]; exact hs.dpos z (by omega) hzN hzr
    · intro r h1 hN hr
      have hr' := (hroots r h1 hN).1 hr
      by_cases hrz : r = z
      · subst hrz
        rw [hzv]
        have := hpa r h1 hN hr'.1
        rw [htz] at this
        omega
      · rw [hoth r h1 hN hr'.1 hrz hr'.2]; exact hpa r h1 hN hr'.1
    · intro r h1 hN hr k hk1 hk2
      have hr' := (hroots r h1 hN).1 hr
      by_cases hrz : r = z
      · subst hrz
        rw [hzv] at hk1 ⊢
        by_cases hkz : k < z0
        · exact hpb z0 hz01 hz0N hz0r k hk1 hkz
        · have := hpb r h1 hN hr'.1 k (by omega) hk2
          rw [htz] at this
          omega
      · rw [hoth r h1 hN hr'.1 hrz hr'.2] at hk1 ⊢
        exact hpb r h1 hN hr'.1 k hk1 hk2
  · subst hzz
    have hzr' : tf' z < z := (hroots z hz01 hz0N).2 hz0r
    refine ⟨hj1, hjx, hbelow, hsbelow, by have := hpre.z0lo; omega, hz0N, hzr',
      hoth z hz01 hz0N hz0r, ?_, Int.le_refl _, hz0j, ?_, ?_⟩
    · have := hs.dpos z hz01 hz0N hz0r
      rw [hpre.dz0]; omega
    · intro r h1 hN hr
      have hr' := (hroots r h1 hN).1 hr
      rw [hoth r h1 hN hr']; exact hpa r h1 hN hr'
    · intro r h1 hN hr k hk1 hk2
      have hr' := (hroots r h1 hN).1 hr
      rw [hoth r h1 hN hr'] at hk1 ⊢
      exact hpb r h1 hN hr' k hk1 hk2

end

/-! ### the invariant about `tl`, `c`, `sets`, `new_mins` (shared by both lower-capacity passes) -/

/-- the recorded fact about the candidate new minimum `bounds[w]` of a used variable `u`:
    if it is above the minimum, `[bounds[ja], bounds[w])` is exactly filled by other used
    variables -/
def NMFact (N : Int) (bd rx ry : Int → Int) (U : List Int) (u w : Int) : Prop :=
  rx u ≤ w ∧ w ≤ N ∧
    (w = rx u ∨ ∃ ja, 1 ≤ ja ∧ ja ≤ rx u ∧ cinR rx ry (Oth U u) ja w ≥ bd w - bd ja)

structure ESem (N : Int) (bd rx ry : Int → Int) (all P U : List Int) (Y : Int)
    (tf df sf wf : Int → Int) : Prop where
  psub : ∀ p ∈ P, p ∈ all
  usub : ∀ u ∈ U, u ∈ P
  y0 : 0 ≤ Y
  yN : Y < N
  pY : ∀ p ∈ P, ry p ≤ Y
  t : TSem N bd rx U tf df
  s2 : ∀ k, 0 ≤ k → k ≤ Y → phi bd rx U k ≤ phi bd rx U Y
  s2r : ∀ ja yb, 1 ≤ ja → ja < yb → yb ≤ N → cinR rx ry U ja yb ≤ bd yb - bd ja
  s3 : ∀ k r, 1 ≤ k → k < r → r ≤ N → sf r < r → (∀ m, k ≤ m → m < r → sf m > m) →
    ∃ ja, 1 ≤ ja ∧ ja ≤ k ∧ cinR rx ry U ja r ≥ bd r - bd ja
  s4 : ∀ ja yb, 1 ≤ ja → ja < yb → yb ≤ N → cinR rx ry U ja yb ≥ bd yb - bd ja →
    ∀ k, ja ≤ k → k < yb → sf k > k
  nmf : ∀ u ∈ U, NMFact N bd rx ry U u (wf u)

/-- the mark test of the lower-capacity passes: an exactly filled interval is discovered -/
def Mk (bd df' : Int → Int) (y z : Int) : Prop := y < z ∧ df' z + bd y = bd z

/-- one iteration that USES the variable (`c[z] > get_sum …`, i.e. `z0 ≤ y`) -/
structure ERel (N : Int) (bd : Int → Int) (x y : Int) (tf df sf tf' df' sf' : Int → Int)
    (z0 z w : Int) : Prop extends LPre N x tf df tf' df' z0 z where
  wlo : x ≤ w
  whi : w ≤ N
  wroot : sf w < w
  wall : ∀ k, x ≤ k → k < w → sf k > k
  mk_e : Mk bd df' y z → tf z0 = 1 ∨ sf (tf z0 - 1) < tf z0 - 1
  mk_y : Mk bd df' y z → sf (z - 1) < z - 1
  hroots : ∀ k, 1 ≤ k → k ≤ N →
    (sf' k < k ↔ (sf k < k ∧ ¬ (Mk bd df' y z ∧ tf z0 - 1 < k ∧ k < z - 1)))

theorem WCtx.le (h : WCtx N bd rx ry all) (i j : Int) (h0 : 0 ≤ i) (hij : i ≤ j) (hj : j ≤ N) :
    bd i ≤ bd j := h.mono i j h0 hij hj

theorem oth_snoc_self (U : List Int) (v : Int) (hv : v ∉ U) : Oth (U ++ [v]) v = U := by
  unfold Oth
  rw [List.filter_append]
  have h1 : U.filter (fun p => decide (p ≠ v)) = U := by
    rw [List.filter_eq_self]
    intro u hu
    have : u ≠ v := fun h => hv (h ▸ hu)
    simpa using this
  have h2 : [v].filter (fun p => decide (p ≠ v)) = [] := by simp
  rw [h1, h2, List.append_nil]

theorem oth_snoc_sublist (U : List Int) (v u : Int) : (Oth U u).Sublist (Oth (U ++ [v]) u) := by
  unfold Oth
  rw [List.filter_append]
  exact List.sublist_append_left _ _

section estep
variable {N : Int} {bd rx ry : Int → Int} {all P U : List Int} {Y : Int}
  {tf df sf wf tf' df' sf' : Int → Int}

theorem snoc_ranksU (hctx : WCtx N bd rx ry all) (hsem : ESem N bd rx ry all P U Y tf df sf wf)
    {v : Int} (hv : v ∈ all) (hYv : Y ≤ ry v) :
    ∀ p ∈ U ++ [v], rx p < ry p ∧ ry p ≤ ry v := by
  intro p hp
  rcases List.mem_append.1 hp with h | h
  · have hpP := hsem.usub p h
    exact ⟨(hctx.rk p (hsem.psub p hpP)).2.1, by have := hsem.pY p hpP; omega⟩
  · have : p = v := by simpa using h
    subst this
    exact ⟨(hctx.rk p hv).2.1, Int.le_refl _⟩

theorem ranksU (hctx : WCtx N bd rx ry all) (hsem : ESem N bd rx ry all P U Y tf df sf wf) :
    ∀ p ∈ U, rx p < ry p ∧ ry p ≤ Y :=
  fun p hp => ⟨(hctx.rk p (hsem.psub p (hsem.usub p hp))).2.1, hsem.pY p (hsem.usub p hp)⟩

/-- `phi` is dominated by its value at any rank `y ≥ Y` -/
theorem club (hctx : WCtx N bd rx ry all) (hsem : ESem N bd rx ry all P U Y tf df sf wf)
    (y : Int) (hYy : Y ≤ y) (hyN : y ≤ N) :
    ∀ k, 0 ≤ k → k ≤ y → phi bd rx U k ≤ phi bd rx U y := by
  intro k h0 h1
  have hPr := ranksU hctx hsem
  have hy := phi_top bd rx ry Y U hPr y hYy
  by_cases hk : k ≤ Y
  · have := hsem.s2 k h0 hk
    have hY := phi_top bd rx ry Y U hPr Y (Int.le_refl _)
    have := hctx.le Y y hsem.y0 hYy hyN
    omega
  · have hk' := phi_top bd rx ry Y U hPr k (by omega)
    have := hctx.le k y h0 h1 hyN
    omega

/-- when the first root `z0` above `x` lies above `y`, its capacity is at most the capacity of
    `[bounds[y], bounds[z0])`: the main test of the pass succeeds (the variable is not used) -/
theorem stable_test (hctx : WCtx N bd rx ry all) (hs : LStruct N tf df sf)
    (hsem : ESem N bd rx ry all P U Y tf df sf wf) {x y z0 : Int} (hx1 : 1 ≤ x) (hxy : x < y) (hYy : Y ≤ y)
    (hz0lo : x + 1 ≤ z0) (hz0hi : z0 ≤ N) (hz0r : tf z0 < z0)
    (hz0f : ∀ k, x + 1 ≤ k → k < z0 → tf k > k) (hyz : y < z0) :
    df z0 ≤ bd z0 - bd y ∧ 1 ≤ tf z0 ∧ tf z0 ≤ x ∧ phi bd rx U y ≤ phi bd rx U (tf z0) := by
  have hPr := ranksU hctx hsem
  have hdown0 := hs.ct.down z0 (by omega) hz0hi hz0r
  have hj1 : 1 ≤ tf z0 := hs.root_ge_one z0 (by omega) hz0hi hz0r
  have hjx : tf z0 ≤ x := by
    by_cases h : tf z0 ≤ x
    · exact h
    · rcases hdown0.2 with h0 | h0
      · omega
      · have := hz0f (tf z0) (by omega) hz0r; omega
  have h1 := hsem.t.s1a z0 (by omega) hz0hi hz0r
  have h2 := hsem.t.s1b z0 (by omega) hz0hi hz0r y (by omega) hyz
  have h3 := phi_top bd rx ry Y U hPr z0 (by omega)
  have h4 := phi_top bd rx ry Y U hPr y hYy
  exact ⟨by omega, hj1, hjx, h2⟩

/-- the invariant is preserved by an iteration that uses the variable -/
theorem esem_step (hctx : WCtx N bd rx ry all) (hs : LStruct N tf df sf)
    (hs' : LStruct N tf' df' sf')
    (hsem : ESem N bd rx ry all P U Y tf df sf wf) {v z0 z w : Int} {wf' : Int → Int}
    (hv : v ∈ all) (hYv : Y ≤ ry v) (hvU : v ∉ U) (hz0y : z0 ≤ ry v)
    (hrel : ERel N bd (rx v) (ry v) tf df sf tf' df' sf' z0 z w)
    (hwf : ∀ u ∈ all, wf' u = if u = v then w else wf u) :
    ESem N bd rx ry all (P ++ [v]) (U ++ [v]) (ry v) tf' df' sf' wf' := by
  obtain ⟨hx1, hxy, hyN⟩ := hctx.rk v hv
  have pf := pre_facts hs hsem.t hx1 hrel.toLPre
  have hP' := snoc_ranksU hctx hsem hv hYv
  have hPr := ranksU hctx hsem
  have hzlo := pf.zlo
  have hzhi := pf.zhi
  have hj1 := pf.j1
  have hjx := pf.jx
  have hdz := pf.dz
  have hz0lo := hrel.z0lo
  have hclub := club hctx hsem (ry v) hYv (by omega)
  have hphi' : ∀ k, phi bd rx (U ++ [v]) k = phi bd rx U k - (if rx v < k then 1 else 0) :=
    fun k => phi_snoc bd rx U v k
  have ez := hphi' z; rw [if_pos hzlo] at ez
  have ez0 := hphi' z0; rw [if_pos (by omega)] at ez0
  have ey := hphi' (ry v); rw [if_pos hxy] at ey
  have ej := hphi' (tf z0); rw [if_neg (by omega)] at ej
  have hzr1 := pf.r1a z (by omega) hzhi pf.zroot
  rw [pf.zj] at hzr1
  have hjy : phi bd rx (U ++ [v]) (tf z0) ≤ phi bd rx (U ++ [v]) (ry v) := by
    have h1 := pf.z0j
    have h2 := hclub z0 (by omega) hz0y
    omega
  have s2' : ∀ k, 0 ≤ k → k ≤ ry v →
      phi bd rx (U ++ [v]) k ≤ phi bd rx (U ++ [v]) (ry v) := by
    intro k h0 h1
    have ek := hphi' k
    by_cases hk : rx v < k
    · rw [if_pos hk] at ek
      have := hclub k h0 h1; omega
    · rw [if_neg hk] at ek
      have := pf.below k h0 (by omega); omega
  have hmkphi : Mk bd df' (ry v) z →
      phi bd rx (U ++ [v]) (ry v) = phi bd rx (U ++ [v]) (tf z0) := by
    rintro ⟨hzy, hmk⟩
    have h2 := phi_top bd rx ry (ry v) (U ++ [v]) hP' z (by omega)
    have h3 := phi_top bd rx ry (ry v) (U ++ [v]) hP' (ry v) (Int.le_refl _)
    omega
  have hphimk : phi bd rx (U ++ [v]) (ry v) = phi bd rx (U ++ [v]) (tf z0) →
      Mk bd df' (ry v) z := by
    intro he
    by_cases hzy : ry v < z
    · have h2 := phi_top bd rx ry (ry v) (U ++ [v]) hP' z (by omega)
      have h3 := phi_top bd rx ry (ry v) (U ++ [v]) hP' (ry v) (Int.le_refl _)
      exact ⟨hzy, by omega⟩
    · have h4 := hclub z (by omega) (by omega)
      omega
  -- a marked interval ends at `z - 1`, and `bd` is constant on `[ry v, z - 1]`
  have hmkbd : Mk bd df' (ry v) z → bd (z - 1) = bd (ry v) := by
    rintro ⟨hzy, hmk⟩
    have h1 := TSem.dle ⟨pf.r1a, pf.r1b⟩ z (by omega) hzhi pf.zroot
    have h2 := hctx.le (ry v) (z - 1) (by omega) (by omega) (by omega)
    omega
  refine ⟨?_, ?_, by omega, hyN, ?_, ⟨pf.r1a, pf.r1b⟩, s2', ?_, ?_, ?_, ?_⟩
  · intro p hp
    rcases List.mem_append.1 hp with h | h
    · exact hsem.psub p h
    · have : p = v := by simpa using h
      rw [this]; exact hv
  · intro p hp
    rcases List.mem_append.1 hp with h | h
    · exact List.mem_append_left _ (hsem.usub p h)
    · exact List.mem_append_right _ h
  · intro p hp
    rcases List.mem_append.1 hp with h | h
    · have := hsem.pY p h; omega
    · have : p = v := by simpa using h
      rw [this]; exact Int.le_refl _
  · -- s2r
    intro ja yb h1 h2 h3
    by_cases hin : ja ≤ rx v ∧ ry v ≤ yb
    · rw [cinR_phi bd rx ry (ry v) (U ++ [v]) hP' ja yb (by omega) hin.2]
      have := s2' ja (by omega) (by omega)
      have := hctx.le (ry v) yb (by omega) hin.2 h3
      omega
    · rw [cinR_snoc, if_neg hin]
      have := hsem.s2r ja yb h1 h2 h3; omega
  · -- s3
    intro k r hk1 hkr hrN hr hall
    have hr' := (hrel.hroots r (by omega) hrN).1 hr
    have hup_old : ∀ m, k ≤ m → m < r →
        ¬ (Mk bd df' (ry v) z ∧ tf z0 - 1 < m ∧ m < z - 1) → sf m > m := by
      intro m h1 h2 h3
      have := hall m h1 h2
      have hne := (hs.ch.rng m (by omega) (by omega)).2.2
      by_cases hlt : sf m < m
      · have := (hrel.hroots m (by omega) (by omega)).2 ⟨hlt, h3⟩; omega
      · omega
    by_cases hmk : Mk bd df' (ry v) z
    · by_cases hry : r = z - 1
      · have hkj : tf z0 ≤ k := by
          by_cases h : tf z0 ≤ k
          · exact h
          · rcases hrel.mk_e hmk with h1 | h1
            · omega
            · have := (hrel.hroots (tf z0 - 1) (by omega) (by omega)).2 ⟨h1, fun h => by omega⟩
              have := hall (tf z0 - 1) (by omega) (by omega)
              omega
        refine ⟨tf z0, hj1, hkj, ?_⟩
        have h1 : cinR rx ry (U ++ [v]) (tf z0) (ry v) ≤ cinR rx ry (U ++ [v]) (tf z0) r := by
          unfold cinR
          have : ∀ p, (decide (tf z0 ≤ rx p) && decide (ry p ≤ ry v)) = true →
              (decide (tf z0 ≤ rx p) && decide (ry p ≤ r)) = true := by
            intro p hp
            simp only [Bool.and_eq_true, decide_eq_true_eq] at hp ⊢
            have := hmk.1
            exact ⟨hp.1, by omega⟩
          have := List.countP_mono_left (l := U ++ [v]) (fun p _ => this p)
          omega
        rw [cinR_phi bd rx ry (ry v) (U ++ [v]) hP' (tf z0) (ry v) (by omega) (Int.le_refl _)] at h1
        have := hmkphi hmk
        have := hmkbd hmk
        rw [hry]
        rw [hry] at h1
        omega
      · have hout : ∀ m, k ≤ m → m < r →
            ¬ (Mk bd df' (ry v) z ∧ tf z0 - 1 < m ∧ m < z - 1) := by
          intro m h1 h2 h3
          have hnz : ¬ (tf z0 - 1 < r ∧ r < z - 1) := fun h => hr'.2 ⟨hmk, h⟩
          have hry2 : z - 1 < r := by omega
          have hyup := hall (z - 1) (by omega) hry2
          have := (hrel.hroots (z - 1) (by omega) (by omega)).2
            ⟨hrel.mk_y hmk, fun h => by omega⟩
          omega
        obtain ⟨ja, h1, h2, h3⟩ := hsem.s3 k r hk1 hkr hrN hr'.1
          (fun m a b => hup_old m a b (hout m a b))
        exact ⟨ja, h1, h2, by rw [cinR_snoc]; split <;> omega⟩
    · obtain ⟨ja, h1, h2, h3⟩ := hsem.s3 k r hk1 hkr hrN hr'.1
        (fun m a b => hup_old m a b (fun h => hmk h.1))
      exact ⟨ja, h1, h2, by rw [cinR_snoc]; split <;> omega⟩
  · -- s4
    intro ja yb h1 h2 h3 hc k hk1 hk2
    have hne := (hs'.ch.rng k (by omega) (by omega)).2.2
    by_cases hlt : sf' k < k
    · exfalso
      have hk' := (hrel.hroots k (by omega) (by omega)).1 hlt
      by_cases hold : cinR rx ry U ja yb ≥ bd yb - bd ja
      · have := hsem.s4 ja yb h1 h2 h3 hold k hk1 hk2; omega
      · by_cases hin : ja ≤ rx v ∧ ry v ≤ yb
        · have hcp := cinR_phi bd rx ry (ry v) (U ++ [v]) hP' ja yb (by omega) hin.2
          have hs2' := s2' ja (by omega) (by omega)
          have hbyb := hctx.le (ry v) yb (by omega) hin.2 h3
          have eja := hphi' ja; rw [if_neg (by omega)] at eja
          have hjja : tf z0 ≤ ja := by
            by_cases h : tf z0 ≤ ja
            · exact h
            · have := pf.sbelow ja (by omega) (by omega)
              omega
          have hb := pf.r1b z (by omega) hzhi pf.zroot ja (by rw [pf.zj]; exact hjja) (by omega)
          rw [pf.zj] at hb
          have hmk : Mk bd df' (ry v) z := by
            apply hphimk
            omega
          have hybz : yb ≤ z - 1 := by
            by_cases h : yb ≤ z - 1
            · exact h
            · have := hctx.le z yb (by omega) (by omega) h3
              have := hmk.2
              omega
          exact hk'.2 ⟨hmk, by omega, by omega⟩
        · rw [cinR_snoc, if_neg hin] at hc; omega
    · omega
  · -- nmf
    intro u hu
    have hua : u ∈ all := by
      rcases List.mem_append.1 hu with h | h
      · exact hsem.psub u (hsem.usub u h)
      · have : u = v := by simpa using h
        rw [this]; exact hv
    by_cases huv : u = v
    · subst huv
      rw [hwf u hua, if_pos rfl]
      refine ⟨hrel.wlo, hrel.whi, ?_⟩
      by_cases hwx : w = rx u
      · left; exact hwx
      · right
        obtain ⟨ja, h1, h2, h3⟩ := hsem.s3 (rx u) w hx1 (by have := hrel.wlo; omega) hrel.whi
          hrel.wroot hrel.wall
        exact ⟨ja, h1, h2, by rw [oth_snoc_self U u hvU]; exact h3⟩
    · rw [hwf u hua, if_neg huv]
      have hU : u ∈ U := by
        rcases List.mem_append.1 hu with h | h
        · exact h
        · simp at h; exact absurd h huv
      obtain ⟨f1, f2, f3⟩ := hsem.nmf u hU
      refine ⟨f1, f2, ?_⟩
      rcases f3 with f3 | ⟨ja, g1, g2, g3⟩
      · exact Or.inl f3
      · right
        refine ⟨ja, g1, g2, ?_⟩
        have := cinR_sublist rx ry (oth_snoc_sublist U v u) ja (wf u)
        omega

end estep

section eskip
variable {N : Int} {bd rx ry : Int → Int} {all P U : List Int} {Y : Int}
  {tf df sf wf tf' : Int → Int}

/-- the invariant is preserved by an iteration that does not use the variable (only the path
    compression of `tl` happens) -/
theorem esem_skip (hctx : WCtx N bd rx ry all)
    (hsem : ESem N bd rx ry all P U Y tf df sf wf) {v : Int}
    (hv : v ∈ all) (hYv : Y ≤ ry v)
    (hroots : ∀ k, 1 ≤ k → k ≤ N → (tf' k < k ↔ tf k < k))
    (hval : ∀ k, 1 ≤ k → k ≤ N → tf k < k → tf' k = tf k) :
    ESem N bd rx ry all (P ++ [v]) U (ry v) tf' df sf wf := by
  obtain ⟨hx1, hxy, hyN⟩ := hctx.rk v hv
  refine ⟨?_, ?_, by omega, hyN, ?_, ⟨?_, ?_⟩, club hctx hsem (ry v) hYv (by omega), hsem.s2r,
    hsem.s3, hsem.s4, hsem.nmf⟩
  · intro p hp
    rcases List.mem_append.1 hp with h | h
    · exact hsem.psub p h
    · have : p = v := by simpa using h
      rw [this]; exact hv
  · intro p hp; exact List.mem_append_left _ (hsem.usub p hp)
  · intro p hp
    rcases List.mem_append.1 hp with h | h
    · have := hsem.pY p h; omega
    · have : p = v := by simpa using h
      rw [this]; exact Int.le_refl _
  · intro z h1 h2 h3
    have h4 := (hroots z h1 h2).1 h3
    rw [hval z h1 h2 h4]; exact hsem.t.s1a z h1 h2 h4
  · intro z h1 h2 h3 k hk1 hk2
    have h4 := (hroots z h1 h2).1 h3
    rw [hval z h1 h2 h4] at hk1 ⊢; exact hsem.t.s1b z h1 h2 h4 k hk1 hk2

end eskip

/-! ### the invariant about `pot_stbl_sets`, `stbl_intervals` (first lower-capacity pass only) -/

structure PSem (N : Int) (bd rx ry : Int → Int) (P U : List Int) (pf bf : Int → Int) : Prop where
  /-- inside a potentially stable set `phi` does not exceed its value at the lower end -/
  g0 : ∀ r, 1 ≤ r → r ≤ N → pf r < r → ∀ k, pf r < k → k < r →
    phi bd rx U k ≤ phi bd rx U (pf r)
  /-- the lower end of a potentially stable set is a weak left-to-right maximum of `phi` -/
  g2 : ∀ r, 1 ≤ r → r ≤ N → pf r < r → ∀ k, 0 ≤ k → k < pf r →
    phi bd rx U k ≤ phi bd rx U (pf r)
  /-- the demand of a stable interval is met by the used variables confined to it -/
  e : ∀ r, 1 ≤ r → r ≤ N → bf r < r → bf r + 1 < r →
    cinR rx ry U (bf r + 1) r ≥ bd r - bd (bf r + 1)
  /-- a processed variable that was not used lies inside a stable interval -/
  f : ∀ p ∈ P, p ∉ U → ∀ k, rx p ≤ k → k < ry p → bf k > k

/-- the update of `pot_stbl_sets` (done when `x + 1` is not a root of `tl`): the groups from the
    one of `x + 1` (root `w1`, lower end `v`) up to `w = min y z0` are merged -/
structure PotRel (N x w : Int) (pf pf' : Int → Int) (w1 v : Int) : Prop where
  w1lo : x + 1 ≤ w1
  w1w : w1 ≤ w
  wN : w ≤ N
  w1root : pf w1 < w1
  vdef : v = pf w1
  vx : v ≤ x
  wv : pf' w = v
  roots : ∀ k, 1 ≤ k → k ≤ N → (pf' k < k ↔ (pf k < k ∧ ¬ (v < k ∧ k < w)))
  keep : ∀ k, 1 ≤ k → k ≤ N → pf' k < k → k ≠ w → pf' k = pf k

/-- the marking of a stable interval: the group of `v = pot[y]` (root `wb`, lower end `vb`) and
    everything up to `y` are merged -/
structure SRel (N y : Int) (bf bf' : Int → Int) (v wb vb : Int) : Prop where
  wblo : v ≤ wb
  wby : wb ≤ y
  wbroot : bf wb < wb
  wball : ∀ k, v ≤ k → k < wb → bf k > k
  vbdef : vb = bf wb
  yv : bf' y = vb
  roots : ∀ k, 1 ≤ k → k ≤ N → (bf' k < k ↔ (bf k < k ∧ ¬ (vb < k ∧ k < y)))
  keep : ∀ k, 1 ≤ k → k ≤ N → bf' k < k → k ≠ y → bf' k = bf k

theorem cinR_union (rx ry : Int → Int) (a v b y : Int) (hav : a ≤ v) (hby : b ≤ y) :
    ∀ U : List Int, cinR rx ry U a b + cinR rx ry U v y ≤ cinR rx ry U a y + cinR rx ry U v b := by
  intro U
  induction U with
  | nil => simp [cinR_nil]
  | cons p U ih =>
    rw [AllDiff.cinR_cons, AllDiff.cinR_cons, AllDiff.cinR_cons, AllDiff.cinR_cons]
    by_cases h1 : a ≤ rx p <;> by_cases h2 : ry p ≤ b <;> by_cases h3 : v ≤ rx p <;>
      by_cases h4 : ry p ≤ y <;> simp [h1, h2, h3, h4] <;> omega

theorem cinR_empty (rx ry : Int → Int) (v : Int) :
    ∀ U : List Int, (∀ p ∈ U, rx p < ry p) → cinR rx ry U v v = 0 := by
  intro U
  induction U with
  | nil => intro _; rfl
  | cons p U ih =>
    intro h
    rw [AllDiff.cinR_cons, ih (fun q hq => h q (List.mem_cons_of_mem _ hq))]
    have := h p List.mem_cons_self
    rw [if_neg (by omega)]; rfl

theorem cinR_snoc_ge (rx ry : Int → Int) (U : List Int) (v a b : Int) :
    cinR rx ry U a b ≤ cinR rx ry (U ++ [v]) a b := by
  rw [cinR_snoc]; split <;> omega

section pstep
variable {N : Int} {bd rx ry : Int → Int} {all P U : List Int} {Y : Int}
  {tf df sf wf pf bf pf' bf' : Int → Int}

/-- `PSem` is preserved by the update of `pot_stbl_sets`; moreover `phi` is dominated on
    `(v, z0)` by its value at the new lower end `v` -/
theorem psem_pot (hs : LStruct N tf df sf) (ht : TSem N bd rx U tf df)
    (hp : PSem N bd rx ry P U pf bf) {x z0 w w1 v : Int} (hx1 : 1 ≤ x)
    (hz0lo : x + 1 ≤ z0) (hz0hi : z0 ≤ N) (hz0r : tf z0 < z0)
    (hz0f : ∀ k, x + 1 ≤ k → k < z0 → tf k > k) (hwz : w ≤ z0)
    (hrel : PotRel N x w pf pf' w1 v) :
    PSem N bd rx ry P U pf' bf ∧ v ≤ x ∧
      ∀ k, v < k → k < z0 → phi bd rx U k ≤ phi bd rx U v := by
  have hdown0 := hs.ct.down z0 (by omega) hz0hi hz0r
  have hj1 : 1 ≤ tf z0 := hs.root_ge_one z0 (by omega) hz0hi hz0r
  have hjx : tf z0 ≤ x := by
    by_cases h : tf z0 ≤ x
    · exact h
    · rcases hdown0.2 with h0 | h0
      · omega
      · have := hz0f (tf z0) (by omega) hz0r; omega
  have hw1lo := hrel.w1lo
  have hw1w := hrel.w1w
  have hwN := hrel.wN
  have hvw1 : v < w1 := by rw [hrel.vdef]; exact hrel.w1root
  have hjv : phi bd rx U (tf z0) ≤ phi bd rx U v := by
    by_cases h1 : v < tf z0
    · have := hp.g0 w1 (by omega) (by omega) hrel.w1root (tf z0) (by rw [← hrel.vdef]; exact h1)
        (by omega)
      rw [← hrel.vdef] at this; exact this
    · by_cases h2 : tf z0 = v
      · rw [h2]; exact Int.le_refl _
      · have := hp.g2 w1 (by omega) (by omega) hrel.w1root (tf z0) (by omega)
          (by rw [← hrel.vdef]; omega)
        rw [← hrel.vdef] at this; exact this
  have hdom : ∀ k, v < k → k < z0 → phi bd rx U k ≤ phi bd rx U v := by
    intro k h1 h2
    by_cases hk : k < w1
    · have := hp.g0 w1 (by omega) (by omega) hrel.w1root k (by rw [← hrel.vdef]; exact h1) hk
      rw [← hrel.vdef] at this; exact this
    · have := ht.s1b z0 (by omega) hz0hi hz0r k (by omega) h2
      omega
  have hvx := hrel.vx
  refine ⟨⟨?_, ?_, hp.e, hp.f⟩, hrel.vx, hdom⟩
  · intro r h1 h2 h3 k hk1 hk2
    by_cases hrw : r = w
    · subst hrw
      rw [hrel.wv] at hk1 ⊢
      exact hdom k hk1 (by omega)
    · have h4 := ((hrel.roots r h1 h2).1 h3).1
      rw [hrel.keep r h1 h2 h3 hrw] at hk1 ⊢
      exact hp.g0 r h1 h2 h4 k hk1 hk2
  · intro r h1 h2 h3 k hk1 hk2
    by_cases hrw : r = w
    · subst hrw
      rw [hrel.wv] at hk2 ⊢
      have := hp.g2 w1 (by omega) (by omega) hrel.w1root k hk1 (by rw [← hrel.vdef]; exact hk2)
      rw [← hrel.vdef] at this; exact this
    · have h4 := ((hrel.roots r h1 h2).1 h3).1
      rw [hrel.keep r h1 h2 h3 hrw] at hk2 ⊢
      exact hp.g2 r h1 h2 h4 k hk1 hk2

/-- after the update of `pot_stbl_sets` with `w = z0`, no lower end lies strictly between `x`
    and `z0` -/
theorem potrel_low (hc' : LChain pf' N) {x z0 w1 v : Int} (hz0 : 1 ≤ z0)
    (hrel : PotRel N x z0 pf pf' w1 v) :
    ∀ r, 1 ≤ r → r ≤ N → pf' r < r → pf' r ≤ x ∨ z0 ≤ pf' r := by
  intro r h1 h2 h3
  have hvx := hrel.vx
  have hvw1 : v < w1 := by rw [hrel.vdef]; exact hrel.w1root
  have hw1lo := hrel.w1lo
  have hw1w := hrel.w1w
  by_cases hrw : r = z0
  · subst hrw; left; rw [hrel.wv]; exact hvx
  · have h4 := (hrel.roots r h1 h2).1 h3
    by_cases hrv : r ≤ v
    · left; omega
    · right
      have hrz : z0 < r := by
        have := h4.2; omega
      by_cases h : z0 ≤ pf' r
      · exact h
      · have := (hc'.down r h1 h2 h3).1 z0 (by omega) hrz
        have := hrel.wv
        omega

/-- `PSem` is preserved by an iteration that uses the variable -/
theorem psem_else (hs : LStruct N tf df sf) (ht : TSem N bd rx U tf df)
    (hp : PSem N bd rx ry P U pf bf) {v z0 z : Int} {tf' df' : Int → Int} (hx1 : 1 ≤ rx v)
    (hpre : LPre N (rx v) tf df tf' df' z0 z)
    (hlow : ∀ r, 1 ≤ r → r ≤ N → pf r < r → pf r ≤ rx v ∨ z0 ≤ pf r) :
    PSem N bd rx ry (P ++ [v]) (U ++ [v]) pf bf := by
  have pf' := pre_facts hs ht hx1 hpre
  have hz0lo := hpre.z0lo
  have hz0hi := hpre.z0hi
  have hz0r := hpre.z0root
  have hphi' : ∀ k, phi bd rx (U ++ [v]) k = phi bd rx U k - (if rx v < k then 1 else 0) :=
    fun k => phi_snoc bd rx U v k
  have hz0j : phi bd rx U (tf z0) < phi bd rx U z0 :=
    ht.record' hs z0 (by omega) hz0hi hz0r (tf z0) (by have := pf'.j1; omega) hz0r
  refine ⟨?_, ?_, ?_, ?_⟩
  · intro r h1 h2 h3 k hk1 hk2
    have := hp.g0 r h1 h2 h3 k hk1 hk2
    rw [hphi', hphi']
    by_cases ha : rx v < pf r
    · rw [if_pos ha, if_pos (by omega)]; omega
    · rw [if_neg ha]; split <;> omega
  · intro r h1 h2 h3 k hk1 hk2
    have hg := hp.g2 r h1 h2 h3 k hk1 hk2
    rw [hphi', hphi']
    by_cases ha : rx v < pf r
    · rw [if_pos ha]
      by_cases hk : rx v < k
      · rw [if_pos hk]; omega
      · rw [if_neg hk]
        have hza0 : z0 ≤ pf r := by
          rcases hlow r h1 h2 h3 with h | h
          · omega
          · exact h
        have hb := pf'.below k hk1 (by omega)
        have hza : phi bd rx U z0 ≤ phi bd rx U (pf r) := by
          by_cases he : z0 = pf r
          · rw [he]; exact Int.le_refl _
          · exact hp.g2 r h1 h2 h3 z0 (by omega) (by omega)
        omega
    · rw [if_neg ha, if_neg (by omega)]; omega
  · intro r h1 h2 h3 h4
    have := hp.e r h1 h2 h3 h4
    have := cinR_snoc_ge rx ry U v (bf r + 1) r
    omega
  · intro p hp1 hp2 k hk1 hk2
    have hpv : p ≠ v := fun h => hp2 (by rw [h]; simp)
    have hpP : p ∈ P := by
      rcases List.mem_append.1 hp1 with h | h
      · exact h
      · simp at h; exact absurd h hpv
    exact hp.f p hpP (fun h => hp2 (List.mem_append_left _ h)) k hk1 hk2

/-- `PSem` is preserved by an iteration that marks a stable interval -/
theorem psem_stable (hctx : WCtx N bd rx ry all) (hcb : LChain bf N) (hcb' : LChain bf' N)
    (hsem : ESem N bd rx ry all P U Y tf df sf wf)
    (hp : PSem N bd rx ry P U pf bf) {v' v wb vb : Int} (hv : v' ∈ all) (hYv : Y ≤ ry v')
    (h1v : 1 ≤ v) (hvx : v ≤ rx v') (hphi : phi bd rx U (ry v') ≤ phi bd rx U v)
    (hrel : SRel N (ry v') bf bf' v wb vb) :
    PSem N bd rx ry (P ++ [v']) U pf bf' := by
  obtain ⟨hx1, hxy, hyN⟩ := hctx.rk v' hv
  have hPr : ∀ p ∈ U, rx p < ry p ∧ ry p ≤ ry v' := by
    intro p hp'
    have := ranksU hctx hsem p hp'
    exact ⟨this.1, by omega⟩
  have hwblo := hrel.wblo
  have hwby := hrel.wby
  have hwbr := hrel.wbroot
  have hdn := hcb.down wb (by omega) (by omega) hwbr
  have hvb0 : 0 ≤ vb := by rw [hrel.vbdef]; exact (hcb.rng wb (by omega) (by omega)).1
  have hvbv : vb < v := by
    by_cases h : vb < v
    · exact h
    · exfalso
      have h2 := hrel.wball vb (by omega) (by rw [hrel.vbdef]; exact hwbr)
      rw [hrel.vbdef] at h2 h
      rcases hdn.2 with h0 | h0
      · rw [← hrel.vbdef] at h0; omega
      · omega
  -- the variables confined to `[v, y]`
  have hvy : cinR rx ry U v (ry v') ≥ bd (ry v') - bd v := by
    rw [cinR_phi bd rx ry (ry v') U hPr v (ry v') (by omega) (Int.le_refl _)]
    omega
  refine ⟨hp.g0, hp.g2, ?_, ?_⟩
  · intro r h1 h2 h3 h4
    by_cases hry : r = ry v'
    · subst hry
      rw [hrel.yv] at h4 ⊢
      by_cases hwy : wb = ry v'
      · have := hp.e wb (by omega) (by omega) hwbr (by rw [← hrel.vbdef, hwy]; exact h4)
        rw [← hrel.vbdef, hwy] at this; exact this
      · have hun := cinR_union rx ry (vb + 1) v wb (ry v') (by omega) hwby U
        have hint : cinR rx ry U v wb ≤ bd wb - bd v := by
          by_cases hvw : v = wb
          · rw [hvw, cinR_empty rx ry wb U (fun p hp' => (hPr p hp').1)]; omega
          · exact hsem.s2r v wb h1v (by omega) (by omega)
        by_cases hone : vb + 1 = wb
        · have : v = wb := by omega
          rw [hone, ← this]; exact hvy
        · have := hp.e wb (by omega) (by omega) hwbr (by rw [← hrel.vbdef]; omega)
          rw [← hrel.vbdef] at this
          omega
    · have h5 := (hrel.roots r h1 h2).1 h3
      rw [hrel.keep r h1 h2 h3 hry] at h4 ⊢
      exact hp.e r h1 h2 h5.1 h4
  · intro p hp1 hp2 k hk1 hk2
    have hnew : ∀ k, 1 ≤ k → k ≤ N → ¬ (bf k < k ∧ ¬ (vb < k ∧ k < ry v')) → bf' k > k := by
      intro k h1 h2 h3
      have hne := (hcb'.rng k h1 h2).2.2
      by_cases hlt : bf' k < k
      · exact absurd ((hrel.roots k h1 h2).1 hlt) h3
      · omega
    rcases List.mem_append.1 hp1 with h | h
    · have hold := hp.f p h hp2 k hk1 hk2
      have hr := hctx.rk p (hsem.psub p h)
      exact hnew k (by omega) (by omega) (fun h3 => by omega)
    · have : p = v' := by simpa using h
      subst this
      exact hnew k (by omega) (by omega) (fun h3 => h3.2 ⟨by omega, hk2⟩)

end pstep

/-! ### initialisation -/

theorem bd_const_of_steps {N : Int} {bd sf : Int → Int}
    (hs : ∀ m, 1 ≤ m → m < N → sf m > m → bd (m + 1) = bd m) :
    ∀ (n : Nat) (k r : Int), 1 ≤ k → r ≤ N → r = k + n → (∀ m, k ≤ m → m < r → sf m > m) →
      bd r = bd k := by
  intro n
  induction n with
  | zero => intro k r _ _ h _; simp at h; rw [h]
  | succ n ih =>
    intro k r h1 h2 h3 h4
    have h5 := ih k (r - 1) h1 (by omega) (by omega) (fun m a b => h4 m a (by omega))
    have h6 := hs (r - 1) (by omega) (by omega) (h4 (r - 1) (by omega) (by omega))
    have : r - 1 + 1 = r := by omega
    rw [this] at h6
    omega

theorem esem_init {N : Int} {bd rx ry : Int → Int} {all : List Int}
    (hctx : WCtx N bd rx ry all) {tf df sf wf : Int → Int}
    (ht : ∀ z, 1 ≤ z → z ≤ N → tf z < z →
      df z = bd z - bd (tf z) ∧ ∀ k, tf z ≤ k → k < z → bd k ≤ bd (tf z))
    (hs : ∀ m, 1 ≤ m → m < N → (sf m > m ↔ bd (m + 1) = bd m)) :
    ESem N bd rx ry all [] [] 0 tf df sf wf := by
  have hN := hctx.hN
  have hphi : ∀ k, phi bd rx [] k = bd k := by intro k; simp [phi, cntLt_nil]
  refine ⟨fun p hp => (by cases hp), fun p hp => (by cases hp), Int.le_refl _, by omega,
    fun p hp => (by cases hp), ⟨?_, ?_⟩, ?_, ?_, ?_, ?_, fun p hp => (by cases hp)⟩
  · intro z h1 h2 h3
    rw [hphi, hphi]; exact (ht z h1 h2 h3).1
  · intro z h1 h2 h3 k hk1 hk2
    rw [hphi, hphi]; exact (ht z h1 h2 h3).2 k hk1 hk2
  · intro k h0 h1
    have : k = 0 := by omega
    rw [this]; exact Int.le_refl _
  · intro ja yb h1 h2 h3
    rw [cinR_nil]
    have := hctx.le ja yb (by omega) (by omega) h3; omega
  · intro k r h1 h2 h3 _ hall
    refine ⟨k, h1, Int.le_refl _, ?_⟩
    rw [cinR_nil]
    have := bd_const_of_steps (fun m a b c => (hs m a b).1 c) (r - k).toNat k r h1 h3 (by omega) hall
    omega
  · intro ja yb h1 h2 h3 hc k hk1 hk2
    rw [cinR_nil] at hc
    have e1 := hctx.le ja k (by omega) hk1 (by omega)
    have e2 := hctx.le k (k + 1) (by omega) (by omega) (by omega)
    have e3 := hctx.le (k + 1) yb (by omega) (by omega) h3
    exact (hs k (by omega) (by omega)).2 (by omega)

theorem psem_init {N : Int} {bd rx ry : Int → Int} {all : List Int}
    (hctx : WCtx N bd rx ry all) {pf bf : Int → Int}
    (hp : ∀ r, 1 ≤ r → r ≤ N → pf r = r - 1) (hb : ∀ r, 1 ≤ r → r ≤ N → bf r = r - 1) :
    PSem N bd rx ry [] [] pf bf := by
  have hphi : ∀ k, phi bd rx [] k = bd k := by intro k; simp [phi, cntLt_nil]
  refine ⟨?_, ?_, ?_, fun p hp => (by cases hp)⟩
  · intro r h1 h2 _ k hk1 hk2
    rw [hp r h1 h2] at hk1; omega
  · intro r h1 h2 _ k hk1 hk2
    rw [hp r h1 h2] at hk2 ⊢
    rw [hphi, hphi]
    exact hctx.le k (r - 1) hk1 (by omega) (by omega)
  · intro r h1 h2 _ h4
    rw [hb r h1 h2] at h4; omega

end Gcc
end Nucs
