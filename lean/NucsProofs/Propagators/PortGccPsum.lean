import NucsProofs.Propagators.PortGccCtx
/-!
  The partial-sum structure of the ported gcc never errs: `init_partial_sum` establishes `PS`,
  and the accessors `get_min_value`, `get_max_value`, `skip_non_null_elements_*` are total on it.
-/
namespace Nucs
namespace Gcc

open AllDiff (g upd g2 upd2 ok_bind pure_eq_ok except_bind_ok forIn_list_except range_forIn_eq
  size_upd size_upd2 g_upd g_upd_same g_upd_ne)

/-! ### `init_partial_sum` as a composition of named pieces -/

/-- body of the loop filling `sum[3 .. m+2]` -/
def psSumBody (values : Array Int) (i : Int) (sum : Array Int) :
    Except Err (ForInStep (Array Int)) := do
  let a ← rdS sum i
  let b ← rd values (i - 2)
  let sum ← wrS sum (i + 1) (a + b)
  pure (ForInStep.yield sum)

/-- body of `while sum[i] == sum[i - 1]`; state `ds, i, done'` -/
def psInner (sum : Array Int) (j : Int) (_x : Nat) (s : Array Int × Int × Bool) :
    Except Err (ForInStep (Array Int × Int × Bool)) := do
  let a ← rdS sum s.2.1
  let b ← rdS sum (s.2.1 - 1)
  if (!a == b) = true then pure (ForInStep.done (s.1, s.2.1, true))
  else do
    let ds ← wrS s.1 s.2.1 j
    pure (ForInStep.yield (ds, s.2.1 - 1, s.2.2))

/-- what follows the inner loop -/
def psOuterTail (j : Int) (done : Bool) (r : Array Int × Int × Bool) :
    Except Err (ForInStep (Array Int × Int × Int × Bool)) :=
  if (!r.2.2) = true then throw Err.fuel
  else do
    let ds ← wrS r.1 j r.2.1
    pure (ForInStep.yield (ds, r.2.1 - 1, r.2.1, done))

/-- body of `while i > 0`; state `ds, i, j, done` -/
def psOuter (sum : Array Int) (_x : Nat) (s : Array Int × Int × Int × Bool) :
    Except Err (ForInStep (Array Int × Int × Int × Bool)) :=
  if (!decide (s.2.1 > 0)) = true then pure (ForInStep.done (s.1, s.2.1, s.2.2.1, true))
  else do
    let r ← forIn [0:fuel s.1] (s.1, s.2.1, false) (psInner sum s.2.2.1)
    psOuterTail s.2.2.1 s.2.2.2 r

def psFinish (sum : Array Int) (s : Array Int × Int × Int × Bool) : Except Err PSum :=
  if (!s.2.2.2) = true then throw Err.fuel
  else do
    let ds ← wrS s.1 s.2.2.1 0
    pure (sum, ds)

theorem init_partial_sum_eq (fv m : Int) (values : Array Int) :
    init_partial_sum fv m values =
      (do
        let sum ← wr (Array.replicate (m + 6).toNat 0)
          (((Array.replicate (m + 6).toNat (0 : Int)).size : Int) - 1) (fv - 3)
        let ds ← wr (Array.replicate (m + 6).toNat 0)
          (((Array.replicate (m + 6).toNat (0 : Int)).size : Int) - 1) (fv + m + 1)
        let sum ← wrS sum 0 0
        let sum ← wrS sum 1 1
        let sum ← wrS sum 2 2
        let sum ← forIn (rangeUp 2 (m + 2)) sum (psSumBody values)
        let a ← rdS sum (m + 2)
        let sum ← wrS sum (m + 3) (a + 1)
        let b ← rdS sum (m + 3)
        let sum ← wrS sum (m + 4) (b + 1)
        let s ← forIn [0:fuel ds] (ds, m + 3, m + 4, false) (psOuter sum)
        psFinish sum s) := by
  rfl

/-! ### the easy accessors -/

theorem get_min_value_ok {P : PSum} {fv m : Int} (hp : PS P fv m) : get_min_value P = .ok fv := by
  have hs := hp.s1
  have hm := hp.hm
  have h1 : (P.1.size : Int) - 1 = m + 5 := by omega
  unfold get_min_value
  rw [rdLast_ok P.1 (by omega), ok_bind, h1, hp.last1, pure_eq_ok]
  congr 1; omega

theorem get_max_value_ok {P : PSum} {fv m : Int} (hp : PS P fv m) :
    get_max_value P = .ok (fv + m - 1) := by
  have hs := hp.s2
  have hm := hp.hm
  have h1 : (P.2.size : Int) - 1 = m + 5 := by omega
  unfold get_max_value
  rw [rdLast_ok P.2 (by omega), ok_bind, h1, hp.last2, pure_eq_ok]
  congr 1; omega

theorem skip_right_ok {P : PSum} {fv m : Int} (hp : PS P fv m) (v : Int) (h0 : fv - 3 ≤ v)
    (h1 : v ≤ fv + m + 2) : ∃ r, skip_non_null_elements_right P v = .ok r := by
  have hs1 := hp.s1
  have hs2 := hp.s2
  have hm := hp.hm
  have e1 : (P.1.size : Int) - 1 = m + 5 := by omega
  unfold skip_non_null_elements_right
  rw [rdLast_ok P.1 (by omega), ok_bind, e1, hp.last1]
  simp only []
  rw [rd_ok P.2 _ (by omega) (by omega), ok_bind]
  by_cases hc : g P.2 (v - (fv - 3)) < v - (fv - 3)
  · rw [if_pos hc]; exact ⟨_, rfl⟩
  · rw [if_neg hc]; exact ⟨_, rfl⟩

theorem skip_left_ok {P : PSum} {fv m : Int} (hp : PS P fv m) (v : Int) (h0 : fv - 3 ≤ v)
    (h1 : v ≤ fv + m + 1) : ∃ r, skip_non_null_elements_left P v = .ok r := by
  have hs1 := hp.s1
  have hs2 := hp.s2
  have hm := hp.hm
  have e1 : (P.1.size : Int) - 1 = m + 5 := by omega
  have hd := hp.ds (v - (fv - 3)) (by omega) (by omega)
  unfold skip_non_null_elements_left
  rw [rdLast_ok P.1 (by omega), ok_bind, e1, hp.last1]
  simp only []
  rw [rd_ok P.2 _ (by omega) (by omega), ok_bind]
  by_cases hc : g P.2 (v - (fv - 3)) > v - (fv - 3)
  · rw [if_pos hc, ok_bind, rd_ok P.2 _ hd.1 (by omega), ok_bind]; exact ⟨_, rfl⟩
  · rw [if_neg hc]; exact ⟨_, rfl⟩

/-! ### the row `sum` -/

theorem g_replicate (n : Nat) (k : Int) : g (Array.replicate n (0 : Int)) k = 0 := by
  unfold g
  by_cases h : k.toNat < n
  · simp [Array.getD, h]
  · simp [Array.getD, h]

/-- what the first half of `init_partial_sum` establishes about row 0 -/
structure SumOK (sum : Array Int) (fv m : Int) (values : Array Int) : Prop where
  sz : (sum.size : Int) = m + 6
  last : g sum (m + 5) = fv - 3
  S0 : g sum 0 = 0
  S1 : g sum 1 = 1
  S2 : g sum 2 = 2
  step : ∀ k, 2 ≤ k → k < m + 2 → g sum (k + 1) = g sum k + g values (k - 2)
  top1 : g sum (m + 3) = g sum (m + 2) + 1
  top2 : g sum (m + 4) = g sum (m + 3) + 1

theorem psSum_spec (m : Int) (values sum0 : Array Int) (hm : 0 ≤ m)
    (hvs : (values.size : Int) = m) (hs0 : (sum0.size : Int) = m + 6) :
    ∃ sum, forIn (rangeUp 2 (m + 2)) sum0 (psSumBody values) = .ok sum ∧
      (sum.size : Int) = m + 6 ∧
      (∀ k, 0 ≤ k → (k ≤ 2 ∨ m + 3 ≤ k) → g sum k = g sum0 k) ∧
      ∀ k, 2 ≤ k → k < m + 2 → g sum (k + 1) = g sum k + g values (k - 2) := by
  refine forIn_list_except
    (Inv := fun rest (s : Array Int) =>
      ∃ i, rest = rangeUp i (m + 2) ∧ 2 ≤ i ∧ i ≤ m + 2 ∧ (s.size : Int) = m + 6 ∧
        (∀ k, 0 ≤ k → (k ≤ 2 ∨ m + 3 ≤ k) → g s k = g sum0 k) ∧
        ∀ k, 2 ≤ k → k < i → g s (k + 1) = g s k + g values (k - 2))
    _ _ ?_ ?_ _ _ ?_
  · rintro x rest s ⟨i, hr, hi1, hi2, h1, h2, h3⟩
    obtain ⟨hlt, hx, hrest⟩ := rangeUp_eq_cons i (m + 2) x rest hr
    subst hx
    left
    refine ⟨upd s (x + 1) (g s x + g values (x - 2)), ?_, ?_⟩
    · unfold psSumBody
      rw [rdS_ok s x (by omega) (by omega), ok_bind, rd_ok values (x - 2) (by omega) (by omega),
        ok_bind, wrS_ok s (x + 1) _ (by omega) (by omega), ok_bind]
      rfl
    · refine ⟨x + 1, hrest, by omega, by omega, by simp [h1], ?_, ?_⟩
      · intro k hk0 hk
        rw [g_upd_ne s (x + 1) _ k (by omega) (by omega) hk0 (by omega)]
        exact h2 k hk0 hk
      · intro k hk1 hk2
        by_cases hkx : k = x
        · subst hkx
          rw [g_upd_same s (k + 1) _ (by omega) (by omega),
            g_upd_ne s (k + 1) _ k (by omega) (by omega) (by omega) (by omega)]
        · rw [g_upd_ne s (x + 1) _ (k + 1) (by omega) (by omega) (by omega) (by omega),
            g_upd_ne s (x + 1) _ k (by omega) (by omega) (by omega) (by omega)]
          exact h3 k hk1 (by omega)
  · rintro s ⟨i, hr, hi1, hi2, h1, h2, h3⟩
    have : ¬ i < m + 2 := by
      intro hlt
      rw [rangeUp_cons i (m + 2) hlt] at hr
      cases hr
    exact ⟨h1, h2, fun k hk1 hk2 => h3 k hk1 (by omega)⟩
  · exact ⟨2, rfl, by omega, by omega, hs0, fun k _ _ => rfl, fun k h1 h2 => by omega⟩

/-! ### the row `ds` -/

/-- the loop invariant on row 1 -/
structure DSI (ds : Array Int) (fv m : Int) : Prop where
  sz : (ds.size : Int) = m + 6
  last : g ds (m + 5) = fv + m + 1
  rng : ∀ i, 0 ≤ i → i ≤ m + 4 → 0 ≤ g ds i ∧ g ds i ≤ m + 4

theorem DSI.set {ds : Array Int} {fv m : Int} (h : DSI ds fv m) (i v : Int) (hi0 : 0 ≤ i)
    (hi1 : i ≤ m + 4) (hv0 : 0 ≤ v) (hv1 : v ≤ m + 4) : DSI (upd ds i v) fv m := by
  have hsz := h.sz
  refine ⟨by simp [h.sz], ?_, ?_⟩
  · rw [g_upd_ne ds i v (m + 5) hi0 (by omega) (by omega) (by omega)]; exact h.last
  · intro k hk0 hk1
    by_cases hki : k = i
    · subst hki; rw [g_upd_same ds k v hi0 (by omega)]; exact ⟨hv0, hv1⟩
    · rw [g_upd_ne ds i v k hi0 (by omega) hk0 hki]; exact h.rng k hk0 hk1

theorem psInner_spec {sum ds : Array Int} {fv m : Int} (hss : (sum.size : Int) = m + 6)
    (hS0 : g sum 0 = 0) (hS1 : g sum 1 = 1) (hd : DSI ds fv m) (i j : Int) (n : Nat)
    (hi1 : 1 ≤ i) (hi2 : i ≤ m + 3) (hj1 : 1 ≤ j) (hj2 : j ≤ m + 4) (hn : i ≤ n) :
    ∃ r, forIn (List.range' 0 n) (ds, i, false) (psInner sum j) = .ok r ∧
      DSI r.1 fv m ∧ 1 ≤ r.2.1 ∧ r.2.1 ≤ i ∧ r.2.2 = true := by
  refine forIn_list_except
    (Inv := fun (rest : List Nat) (s : Array Int × Int × Bool) =>
      DSI s.1 fv m ∧ 1 ≤ s.2.1 ∧ s.2.1 ≤ i ∧ s.2.1 ≤ rest.length)
    _ _ ?_ ?_ _ _ ?_
  · rintro x rest ⟨c, p, b⟩ ⟨h1, h2, h3, h4⟩
    simp only at h1 h2 h3 h4
    have hcs := h1.sz
    unfold psInner
    simp only []
    rw [rdS_ok sum p (by omega) (by omega), ok_bind, rdS_ok sum (p - 1) (by omega) (by omega),
      ok_bind]
    by_cases he : g sum p = g sum (p - 1)
    · left
      have hp : p ≠ 1 := by
        intro h; subst h
        have : (1 : Int) - 1 = 0 := rfl
        rw [this, hS0, hS1] at he; omega
      have hcond : ¬ (!g sum p == g sum (p - 1)) = true := by simp [he]
      rw [if_neg hcond, wrS_ok c p j (by omega) (by omega), ok_bind]
      refine ⟨_, rfl, h1.set p j (by omega) (by omega) (by omega) hj2, by simp only; omega,
        by simp only; omega, ?_⟩
      simp only [List.length_cons] at h4 ⊢
      omega
    · right
      have hcond : (!g sum p == g sum (p - 1)) = true := by simp [he]
      rw [if_pos hcond]
      exact ⟨_, rfl, h1, h2, h3, rfl⟩
  · rintro ⟨c, p, b⟩ ⟨h1, h2, h3, h4⟩
    simp only [List.length_nil] at h2 h4; omega
  · refine ⟨hd, hi1, Int.le_refl _, ?_⟩
    simp only [List.length_range']
    exact hn

/-- one iteration of `while i > 0` -/
theorem psOuter_spec {sum : Array Int} {fv m : Int} (hm : 0 ≤ m) (hss : (sum.size : Int) = m + 6)
    (hS0 : g sum 0 = 0) (hS1 : g sum 1 = 1) (x : Nat) (s : Array Int × Int × Int × Bool)
    (hd : DSI s.1 fv m) (hi0 : 0 ≤ s.2.1) (hi1 : s.2.1 ≤ m + 3) (hj : s.2.2.1 = s.2.1 + 1)
    (hdone : s.2.2.2 = false) :
    (∃ s', psOuter sum x s = .ok (.yield s') ∧ DSI s'.1 fv m ∧ 0 ≤ s'.2.1 ∧ s'.2.1 < s.2.1 ∧
      s'.2.2.1 = s'.2.1 + 1 ∧ s'.2.2.2 = false) ∨
    (∃ s', psOuter sum x s = .ok (.done s') ∧ DSI s'.1 fv m ∧ 1 ≤ s'.2.2.1 ∧ s'.2.2.1 ≤ m + 4 ∧
      s'.2.2.2 = true) := by
  obtain ⟨ds, i, j, done⟩ := s
  simp only at hd hi0 hi1 hj hdone
  subst hj hdone
  have hds := hd.sz
  unfold psOuter
  simp only []
  by_cases hi : i > 0
  · left
    have hcond : ¬ (!decide (i > 0)) = true := by simp [hi]
    rw [if_neg hcond, range_forIn_eq]
    have hfuel : i ≤ (fuel ds : Nat) := by
      have := fuel_ge ds; omega
    obtain ⟨⟨c, p, b⟩, he, h1, h2, h3, h4⟩ :=
      psInner_spec hss hS0 hS1 hd i (i + 1) (fuel ds) (by omega) hi1 (by omega) (by omega) hfuel
    simp only at h1 h2 h3 h4
    subst h4
    have hcs := h1.sz
    rw [he, ok_bind]
    unfold psOuterTail
    simp only [Bool.not_true, Bool.false_eq_true, if_false]
    rw [wrS_ok c (i + 1) p (by omega) (by omega), ok_bind]
    refine ⟨_, rfl, h1.set (i + 1) p (by omega) (by omega) (by omega) (by omega), by simp only; omega,
      by simp only; omega, by simp only; omega, rfl⟩
  · right
    have hcond : (!decide (i > 0)) = true := by simp [hi]
    rw [if_pos hcond]
    exact ⟨_, rfl, hd, by simp only; omega, by simp only; omega, rfl⟩

/-- the nested `while` loops and the final write -/
theorem psLoops_spec {sum ds : Array Int} {fv m : Int} (hm : 0 ≤ m)
    (hss : (sum.size : Int) = m + 6) (hS0 : g sum 0 = 0) (hS1 : g sum 1 = 1) (hd : DSI ds fv m) :
    ∃ r, (forIn [0:fuel ds] (ds, m + 3, m + 4, false) (psOuter sum) >>= psFinish sum) =
      .ok r ∧ r.1 = sum ∧ DSI r.2 fv m := by
  rw [range_forIn_eq]
  refine except_bind_ok
    (P := fun (s : Array Int × Int × Int × Bool) =>
      DSI s.1 fv m ∧ 1 ≤ s.2.2.1 ∧ s.2.2.1 ≤ m + 4 ∧ s.2.2.2 = true)
    (forIn_list_except
      (Inv := fun (rest : List Nat) (s : Array Int × Int × Int × Bool) =>
        DSI s.1 fv m ∧ 0 ≤ s.2.1 ∧ s.2.1 ≤ m + 3 ∧ s.2.2.1 = s.2.1 + 1 ∧ s.2.2.2 = false ∧
        s.2.1 < rest.length)
      _ _ ?_ ?_ _ _ ?_) ?_
  · rintro x rest s ⟨h1, h2, h3, h4, h5, h6⟩
    rcases psOuter_spec hm hss hS0 hS1 x s h1 h2 h3 h4 h5 with
      ⟨s', he, g1, g2, g3, g4, g5⟩ | ⟨s', he, hp⟩
    · left
      refine ⟨s', he, g1, g2, by omega, g4, g5, ?_⟩
      simp only [List.length_cons] at h6
      omega
    · right
      exact ⟨s', he, hp⟩
  · rintro s ⟨h1, h2, h3, h4, h5, h6⟩
    simp only [List.length_nil] at h6; omega
  · refine ⟨hd, by simp only; omega, by simp only; omega, by simp only; omega, rfl, ?_⟩
    have := fuel_ge ds
    have := hd.sz
    simp only [List.length_range']
    omega
  · rintro ⟨c, i, j, done⟩ ⟨h1, h2, h3, h4⟩
    simp only at h1 h2 h3 h4
    subst h4
    have hcs := h1.sz
    unfold psFinish
    simp only [Bool.not_true, Bool.false_eq_true, if_false]
    rw [wrS_ok c j 0 (by omega) (by omega), ok_bind]
    exact ⟨_, rfl, rfl, h1.set j 0 (by omega) h3 (by omega) (by omega)⟩

/-! ### putting the pieces together -/

/-- the two sentinel writes above the filled part of `sum` -/
theorem sumOK_finish {sum : Array Int} {fv m : Int} {values : Array Int} (hm : 0 ≤ m)
    (hsz : (sum.size : Int) = m + 6) (h0 : g sum 0 = 0) (h1 : g sum 1 = 1) (h2 : g sum 2 = 2)
    (hlast : g sum (m + 5) = fv - 3)
    (hstep : ∀ k, 2 ≤ k → k < m + 2 → g sum (k + 1) = g sum k + g values (k - 2)) :
    SumOK (upd (upd sum (m + 3) (g sum (m + 2) + 1)) (m + 4)
      (g (upd sum (m + 3) (g sum (m + 2) + 1)) (m + 3) + 1)) fv m values := by
  have hsz' : ((upd sum (m + 3) (g sum (m + 2) + 1)).size : Int) = m + 6 := by simp [hsz]
  have key : ∀ k, 0 ≤ k → k ≤ m + 2 ∨ k = m + 5 →
      g (upd (upd sum (m + 3) (g sum (m + 2) + 1)) (m + 4)
        (g (upd sum (m + 3) (g sum (m + 2) + 1)) (m + 3) + 1)) k = g sum k := by
    intro k hk0 hk
    rw [g_upd_ne _ (m + 4) _ k (by omega) (by omega) hk0 (by omega),
      g_upd_ne _ (m + 3) _ k (by omega) (by omega) hk0 (by omega)]
  have k3 : g (upd (upd sum (m + 3) (g sum (m + 2) + 1)) (m + 4)
        (g (upd sum (m + 3) (g sum (m + 2) + 1)) (m + 3) + 1)) (m + 3) = g sum (m + 2) + 1 := by
    rw [g_upd_ne _ (m + 4) _ (m + 3) (by omega) (by omega) (by omega) (by omega),
      g_upd_same _ (m + 3) _ (by omega) (by omega)]
  have k4 : g (upd (upd sum (m + 3) (g sum (m + 2) + 1)) (m + 4)
        (g (upd sum (m + 3) (g sum (m + 2) + 1)) (m + 3) + 1)) (m + 4) = g sum (m + 2) + 1 + 1 := by
    rw [g_upd_same _ (m + 4) _ (by omega) (by omega),
      g_upd_same _ (m + 3) _ (by omega) (by omega)]
  refine ⟨by simp [hsz], ?_, ?_, ?_, ?_, ?_, ?_, ?_⟩
  · rw [key _ (by omega) (by omega)]; exact hlast
  · rw [key _ (by omega) (by omega)]; exact h0
  · rw [key _ (by omega) (by omega)]; exact h1
  · rw [key _ (by omega) (by omega)]; exact h2
  · intro k hk1 hk2
    rw [key _ (by omega) (by omega), key _ (by omega) (by omega)]
    exact hstep k hk1 hk2
  · rw [k3, key _ (by omega) (by omega)]
  · rw [k4, k3]

theorem ps_of {sum ds : Array Int} {fv m : Int} {values : Array Int} (hm : 0 ≤ m)
    (hs : SumOK sum fv m values) (hd : DSI ds fv m)
    (hv : ∀ k, 0 ≤ k → k < m → 0 ≤ g values k) : PS (sum, ds) fv m := by
  refine ⟨hm, hs.sz, hd.sz, hs.last, hd.last, hs.S0, hs.S1, hs.S2, ?_, hs.top1, hs.top2, hd.rng⟩
  intro i hi0 hi1
  simp only
  by_cases h2 : i < 2
  · have : i = 0 ∨ i = 1 := by omega
    rcases this with h | h
    · subst h; have := hs.S0; have := hs.S1
      have e : (0 : Int) + 1 = 1 := rfl
      rw [e]; omega
    · subst h; have := hs.S1; have := hs.S2
      have e : (1 : Int) + 1 = 2 := rfl
      rw [e]; omega
  · by_cases h3 : i < m + 2
    · have := hs.step i (by omega) h3
      have := hv (i - 2) (by omega) (by omega)
      omega
    · have : i = m + 2 ∨ i = m + 3 := by omega
      rcases this with h | h
      · subst h
        have := hs.top1
        have e : m + 2 + 1 = m + 3 := by omega
        rw [e]; omega
      · subst h
        have := hs.top2
        have e : m + 3 + 1 = m + 4 := by omega
        rw [e]; omega

theorem psStrict_of {sum ds : Array Int} {fv m : Int} {values : Array Int} (_hm : 0 ≤ m)
    (hs : SumOK sum fv m values)
    (hv : ∀ k, 0 ≤ k → k < m → 1 ≤ g values k) : PSStrict (sum, ds) m := by
  intro i hi0 hi1
  simp only
  by_cases h2 : i < 2
  · have : i = 0 ∨ i = 1 := by omega
    rcases this with h | h
    · subst h; have := hs.S0; have := hs.S1
      have e : (0 : Int) + 1 = 1 := rfl
      rw [e]; omega
    · subst h; have := hs.S1; have := hs.S2
      have e : (1 : Int) + 1 = 2 := rfl
      rw [e]; omega
  · by_cases h3 : i < m + 2
    · have := hs.step i (by omega) h3
      have := hv (i - 2) (by omega) (by omega)
      omega
    · have : i = m + 2 ∨ i = m + 3 := by omega
      rcases this with h | h
      · subst h
        have := hs.top1
        have e : m + 2 + 1 = m + 3 := by omega
        rw [e]; omega
      · subst h
        have := hs.top2
        have e : m + 3 + 1 = m + 4 := by omega
        rw [e]; omega

/-- `init_partial_sum` never errs on `m ≥ 0` non-negative values and establishes `PS` -/
theorem init_partial_sum_spec (fv m : Int) (values : Array Int) (hm : 0 ≤ m)
    (hvs : (values.size : Int) = m) (hv : ∀ k, 0 ≤ k → k < m → 0 ≤ g values k) :
    ∃ P, init_partial_sum fv m values = .ok P ∧ PS P fv m ∧
      ((∀ k, 0 ≤ k → k < m → 1 ≤ g values k) → PSStrict P m) := by
  rw [init_partial_sum_eq]
  have hR : ((Array.replicate (m + 6).toNat (0 : Int)).size : Int) = m + 6 := by
    simp only [Array.size_replicate]; omega
  have hR1 : ((Array.replicate (m + 6).toNat (0 : Int)).size : Int) - 1 = m + 5 := by omega
  rw [hR1]
  generalize hRdef : Array.replicate (m + 6).toNat (0 : Int) = R at hR
  have hRg : ∀ k, g R k = 0 := fun k => by rw [← hRdef]; exact g_replicate _ k
  rw [wr_ok R (m + 5) _ (by omega) (by omega), ok_bind,
    wr_ok R (m + 5) _ (by omega) (by omega), ok_bind]
  -- row 0, the three literal writes
  have z1 : ((upd R (m + 5) (fv - 3)).size : Int) = m + 6 := by simp [hR]
  rw [wrS_ok _ 0 0 (by omega) (by omega), ok_bind]
  have z2 : ((upd (upd R (m + 5) (fv - 3)) 0 0).size : Int) = m + 6 := by simp [hR]
  rw [wrS_ok _ 1 1 (by omega) (by omega), ok_bind]
  have z3 : ((upd (upd (upd R (m + 5) (fv - 3)) 0 0) 1 1).size : Int) = m + 6 := by simp [hR]
  rw [wrS_ok _ 2 2 (by omega) (by omega), ok_bind]
  have z4 : ((upd (upd (upd (upd R (m + 5) (fv - 3)) 0 0) 1 1) 2 2).size : Int) = m + 6 := by
    simp [hR]
  have a0 : g (upd (upd (upd (upd R (m + 5) (fv - 3)) 0 0) 1 1) 2 2) 0 = 0 := by
    rw [g_upd_ne _ 2 _ 0 (by omega) (by omega) (by omega) (by omega),
      g_upd_ne _ 1 _ 0 (by omega) (by omega) (by omega) (by omega),
      g_upd_same _ 0 _ (by omega) (by omega)]
  have a1 : g (upd (upd (upd (upd R (m + 5) (fv - 3)) 0 0) 1 1) 2 2) 1 = 1 := by
    rw [g_upd_ne _ 2 _ 1 (by omega) (by omega) (by omega) (by omega),
      g_upd_same _ 1 _ (by omega) (by omega)]
  have a2 : g (upd (upd (upd (upd R (m + 5) (fv - 3)) 0 0) 1 1) 2 2) 2 = 2 := by
    rw [g_upd_same _ 2 _ (by omega) (by omega)]
  have a5 : g (upd (upd (upd (upd R (m + 5) (fv - 3)) 0 0) 1 1) 2 2) (m + 5) = fv - 3 := by
    rw [g_upd_ne _ 2 _ (m + 5) (by omega) (by omega) (by omega) (by omega),
      g_upd_ne _ 1 _ (m + 5) (by omega) (by omega) (by omega) (by omega),
      g_upd_ne _ 0 _ (m + 5) (by omega) (by omega) (by omega) (by omega),
      g_upd_same _ (m + 5) _ (by omega) (by omega)]
  generalize upd (upd (upd (upd R (m + 5) (fv - 3)) 0 0) 1 1) 2 2 = sum4 at z4 a0 a1 a2 a5
  -- row 0, the loop and the two sentinels
  obtain ⟨sum5, he5, s5, keep5, step5⟩ := psSum_spec m values sum4 hm hvs z4
  rw [he5, ok_bind, rdS_ok sum5 (m + 2) (by omega) (by omega), ok_bind,
    wrS_ok sum5 (m + 3) _ (by omega) (by omega), ok_bind]
  have z6 : ((upd sum5 (m + 3) (g sum5 (m + 2) + 1)).size : Int) = m + 6 := by simp [s5]
  rw [rdS_ok _ (m + 3) (by omega) (by omega), ok_bind, wrS_ok _ (m + 4) _ (by omega) (by omega),
    ok_bind]
  have hsum := sumOK_finish (values := values) hm s5
    (by rw [keep5 0 (by omega) (by omega)]; exact a0)
    (by rw [keep5 1 (by omega) (by omega)]; exact a1)
    (by rw [keep5 2 (by omega) (by omega)]; exact a2)
    (by rw [keep5 (m + 5) (by omega) (by omega)]; exact a5) step5
  generalize upd (upd sum5 (m + 3) (g sum5 (m + 2) + 1)) (m + 4)
    (g (upd sum5 (m + 3) (g sum5 (m + 2) + 1)) (m + 3) + 1) = sum7 at hsum
  -- row 1
  have hd0 : DSI (upd R (m + 5) (fv + m + 1)) fv m := by
    refine ⟨by simp [hR], g_upd_same R _ _ (by omega) (by omega), ?_⟩
    intro i hi0 hi1
    rw [g_upd_ne R _ _ i (by omega) (by omega) hi0 (by omega), hRg]
    omega
  obtain ⟨⟨s', d'⟩, he, hs', hd'⟩ := psLoops_spec hm hsum.sz hsum.S0 hsum.S1 hd0
  simp only at hs' hd'
  subst hs'
  refine ⟨_, he, ps_of hm hsum hd' hv, fun hv1 => psStrict_of hm hsum hv1⟩


end Gcc
end Nucs
