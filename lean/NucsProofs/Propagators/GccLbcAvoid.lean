import NucsProofs.Propagators.GccSoundLFinal
/-!
  Lower capacities of the gcc, completeness — pure combinatorics: the zone of a contracted Hall
  interval.

  In the final state of a lower-capacity pass (`LFin`), a CONTRACTED HALL INTERVAL `[r1, r2)` is
  one in which the non-stable variables whose non-stable cells all lie in `[r1, r2)` are at least
  as many as the non-stable demand of `[r1, r2)`.  Extending `[r1, r2)` by the maximal runs of
  stable cells adjacent to it gives a zone `[ja, yb)` whose whole demand is met by variables of a
  matching `V` confined to it (`hall_zone`); the same holds for the maximal stable run that
  contains a stable cell (`stable_zone`).  A candidate bound `w` that lies in no such zone
  (`hcf`) and that every cell solution respects (`hsound`) therefore designates a non-stable cell
  `c` of the variable that lies in no contracted Hall interval foreign to it
  (`avoid_min`, `avoid_max`).
-/
namespace Nucs
namespace Gcc
open AllDiff (cinR Oth Sm LChain cinR_sublist cinR_nonneg)

/-- all the NON-STABLE cells of the variable `p` lie in `[r1, r2)` (the same body as `nsIn` of
    `GccLbcHall`) -/
@[reducible] def nsInA (bf rx ry : Int → Int) (p r1 r2 : Int) : Prop :=
  ∀ c, rx p ≤ c → c < ry p → ¬ St bf c → r1 ≤ c ∧ c < r2

/-- `nsInA` as a (classical) boolean (the same body as `nsInB` of `GccLbcHall`) -/
@[reducible] noncomputable def nsInAB (bf rx ry : Int → Int) (r1 r2 p : Int) : Bool :=
  @decide (nsInA bf rx ry p r1 r2) (Classical.propDecidable _)

theorem nsInAB_true {bf rx ry : Int → Int} {r1 r2 p : Int} :
    nsInAB bf rx ry r1 r2 p = true ↔ nsInA bf rx ry p r1 r2 := by
  unfold nsInAB; exact @decide_eq_true_iff _ (Classical.propDecidable _)

/-! ### tools -/

/-- the end of the run of stable cells that starts at `c` -/
theorem av_run_end (bf : Int → Int) (T : Int) :
    ∀ (n : Nat) (c : Int), T - c = n → ∃ e, c ≤ e ∧ e ≤ T ∧ (∀ k, c ≤ k → k < e → bf k > k) ∧
      (e = T ∨ ¬ bf e > e) := by
  intro n
  induction n with
  | zero =>
    intro c hc
    exact ⟨c, by omega, by omega, fun k h1 h2 => by omega, Or.inl (by omega)⟩
  | succ n ih =>
    intro c hc
    by_cases hw : bf c > c
    · obtain ⟨e, h1, h2, h3, h4⟩ := ih (c + 1) (by omega)
      refine ⟨e, by omega, h2, ?_, h4⟩
      intro k hk1 hk2
      by_cases hk : k = c
      · subst hk; exact hw
      · exact h3 k (by omega) hk2
    · exact ⟨c, by omega, by omega, fun k h1 h2 => by omega, Or.inr hw⟩

theorem av_sumI_zero {f : Int → Int} {a : Int} :
    ∀ b, a ≤ b → (∀ k, a ≤ k → k < b → f k = 0) → sumI f a b = 0 := by
  apply int_le_ind
  · intro _; rw [sumI_empty]
  · intro b hb ih h
    rw [sumI_succ f hb, ih (fun k h1 h2 => h k h1 (by omega)), h b hb (by omega)]; omega

theorem av_sumI_DN_run (bd : Int → Int) {bf : Int → Int} {a b : Int} (hab : a ≤ b)
    (hrun : ∀ k, a ≤ k → k < b → bf k > k) : sumI (DN bd bf) a b = 0 := by
  apply av_sumI_zero b hab
  intro k h1 h2
  unfold DN
  rw [if_pos (hrun k h1 h2)]

/-- `bd` is constant on a range of cells of demand zero -/
theorem av_bd_flat {bd : Int → Int} {w c : Int}
    (hzero : ∀ c', w ≤ c' → c' < c → bd (c' + 1) = bd c') :
    ∀ j, w ≤ j → j ≤ c → bd j = bd w := by
  apply int_le_ind
  · intro _; rfl
  · intro b hb ih hbc
    rw [hzero b hb (by omega), ih (by omega)]

theorem av_cinR_mono (rx ry : Int → Int) (L : List Int) {a a' b b' : Int} (ha : a' ≤ a)
    (hb : b ≤ b') : cinR rx ry L a b ≤ cinR rx ry L a' b' := by
  rw [cinR_eq, cinR_eq]
  have := List.countP_mono_left (l := L) (p := confB rx ry a b) (q := confB rx ry a' b') (by
    intro p _ hq
    rw [confB_true] at hq ⊢
    omega)
  omega

/-- a non-stable variable has a non-stable cell -/
theorem av_ns_cell {bf rx ry : Int → Int} {p : Int} (hns : ¬ StV bf rx ry p) :
    ∃ c, rx p ≤ c ∧ c < ry p ∧ ¬ bf c > c := by
  by_cases hex : ∃ c, rx p ≤ c ∧ c < ry p ∧ ¬ bf c > c
  · exact hex
  · exfalso
    apply hns
    intro c h1 h2
    by_cases hc : bf c > c
    · exact hc
    · exact absurd ⟨c, h1, h2, hc⟩ hex

section
variable {N : Int} {bd rx ry bf κ0 : Int → Int} {all U V : List Int}

/-- the stable variables of `V` without the non-stable `k` -/
theorem av_countP_oth_stv {k : Int} (hns : ¬ StV bf rx ry k) (q : Int → Bool) :
    (Oth V k).countP (fun p => q p && stvB bf rx ry p) =
      V.countP (fun p => q p && stvB bf rx ry p) := by
  unfold Oth
  rw [List.countP_filter]
  apply List.countP_congr
  intro p _
  by_cases hp : p = k
  · subst hp
    have : stvB bf rx ry p = false := stvB_false.2 hns
    rw [this]; simp
  · simp [hp]

theorem av_oth_nodup {k : Int} (hVn : V.Nodup) : (Oth V k).Nodup :=
  hVn.sublist List.filter_sublist

theorem av_oth_sub {k : Int} (hVs : ∀ u ∈ V, u ∈ all) : ∀ u ∈ Oth V k, u ∈ all :=
  fun u hu => hVs u ((List.filter_sublist (l := V)).subset hu)

theorem av_mem_oth {k p : Int} : p ∈ Oth V k ↔ p ∈ V ∧ p ≠ k := by
  unfold Oth; simp

/-- a non-stable node is a root -/
theorem av_root (hcb : LChain bf N) {e : Int} (h1 : 1 ≤ e) (h2 : e ≤ N) (hns : ¬ bf e > e) :
    bf e < e := by
  have := (hcb.rng e h1 h2).2.2
  omega

/-- the target of a root is not below the start of a zone that starts a run -/
theorem av_root_low (hcb : LChain bf N) {a r : Int} (ha : 1 ≤ a)
    (hza : a = 1 ∨ ¬ bf (a - 1) > a - 1) (har : a ≤ r) (hrN : r ≤ N) (hroot : bf r < r) :
    a - 1 ≤ bf r := by
  by_cases hc : a - 1 ≤ bf r
  · exact hc
  · exfalso
    have hrng := hcb.rng r (by omega) hrN
    have hup := (hcb.down r (by omega) hrN hroot).1 (a - 1) (by omega) (by omega)
    rcases hza with h | h
    · omega
    · exact h hup

/-- the demand of the stable cells of a zone that starts a run and ends at a root is met by stable
    variables of `V` confined to the zone -/
theorem av_stable_fill (hctx : WCtx N bd rx ry all) (hcb : LChain bf N)
    (hVs : ∀ u ∈ V, u ∈ all)
    (hVe : ∀ r, 1 ≤ r → r ≤ N → bf r < r → bf r + 1 < r →
      cinR rx ry V (bf r + 1) r ≥ bd r - bd (bf r + 1))
    (a : Int) (ha : 1 ≤ a) (hza : a = 1 ∨ ¬ bf (a - 1) > a - 1) :
    ∀ r, a ≤ r → r ≤ N → bf r < r →
      sumI (DS bd bf) a r ≤
        ((V.countP (fun p => confB rx ry a r p && stvB bf rx ry p) : Nat) : Int) := by
  apply int_strong_ind
  intro r har ih hrN hroot
  have hr1 : 1 ≤ r := by omega
  have hrng := hcb.rng r hr1 hrN
  have hlow := av_root_low hcb ha hza har hrN hroot
  obtain ⟨hup, hnext⟩ := hcb.down r hr1 hrN hroot
  have hVr : ∀ u ∈ V, 1 ≤ rx u ∧ rx u < ry u ∧ ry u < N := fun u hu => hctx.rk u (hVs u hu)
  have hX : sumI (DS bd bf) (bf r + 1) r ≤
      ((V.countP (confB rx ry (bf r + 1) r) : Nat) : Int) := by
    rw [← cinR_eq]
    by_cases hc : bf r + 1 < r
    · rw [sumI_DS_run bd (by omega) (fun k h1 h2 => hup k (by omega) h2)]
      exact hVe r hr1 hrN hroot hc
    · have : bf r + 1 = r := by omega
      rw [this, sumI_empty]; exact cinR_nonneg _ _ _ _ _
  have hY : ∀ p ∈ V, confB rx ry (bf r + 1) r p = true →
      (confB rx ry a r p && stvB bf rx ry p) = true := by
    intro p hp hc
    rw [confB_true] at hc
    rw [Bool.and_eq_true, stvB_true, confB_true]
    exact ⟨⟨by omega, hc.2⟩, fun k h1 h2 => hup k (by omega) (by omega)⟩
  by_cases h0 : bf r = a - 1
  · have e : bf r + 1 = a := by omega
    rw [e] at hX hY
    have := List.countP_mono_left hY
    omega
  · have hra : bf (bf r) < bf r := by
      rcases hnext with h1 | h1
      · omega
      · exact h1
    have h1 := ih (bf r) (by omega) hroot (by omega) hra
    have h2 := sumI_split (DS bd bf) (by omega : a ≤ bf r) r (by omega)
    have h3 := sumI_split (DS bd bf) (by omega : bf r ≤ bf r + 1) r (by omega)
    have h4 : sumI (DS bd bf) (bf r) (bf r + 1) = 0 := by
      rw [sumI_one]; unfold DS; rw [if_neg (by omega)]
    have h5 := countP_add_le (L := V)
      (q := fun p => confB rx ry a r p && stvB bf rx ry p)
      (q1 := fun p => confB rx ry a (bf r) p && stvB bf rx ry p)
      (q2 := confB rx ry (bf r + 1) r)
      (by
        intro p _ hq
        simp only [Bool.and_eq_true, confB_true] at hq ⊢
        exact ⟨⟨hq.1.1, by omega⟩, hq.2⟩)
      hY
      (by
        intro p hp hq1 hq2
        have := hVr p hp
        rw [confB_true] at hq2
        simp only [Bool.and_eq_true, confB_true] at hq1
        omega)
    omega

/-- the same for `V` without a non-stable variable -/
theorem av_stable_fill_oth (hctx : WCtx N bd rx ry all) (hcb : LChain bf N)
    (hVs : ∀ u ∈ V, u ∈ all)
    (hVe : ∀ r, 1 ≤ r → r ≤ N → bf r < r → bf r + 1 < r →
      cinR rx ry V (bf r + 1) r ≥ bd r - bd (bf r + 1))
    {k : Int} (hns : ¬ StV bf rx ry k)
    {a r : Int} (ha : 1 ≤ a) (hza : a = 1 ∨ ¬ bf (a - 1) > a - 1) (har : a ≤ r) (hrN : r ≤ N)
    (hroot : bf r < r) :
    sumI (DS bd bf) a r ≤
      (((Oth V k).countP (fun p => confB rx ry a r p && stvB bf rx ry p) : Nat) : Int) := by
  rw [av_countP_oth_stv hns]
  exact av_stable_fill hctx hcb hVs hVe a ha hza r har hrN hroot

/-- the counted variables of a contracted Hall interval are non-stable variables of `V` other
    than `k` confined to the extended zone -/
theorem av_ns_fill (hctx : WCtx N bd rx ry all) (hn : all.Nodup) (hVn : V.Nodup)
    (hVs : ∀ u ∈ V, u ∈ all) (hVw : ∀ p ∈ all, ¬ StV bf rx ry p → p ∈ V)
    {k r1 r2 ja yb : Int} (hknot : ¬ nsInA bf rx ry k r1 r2)
    (hja : ja ≤ r1) (hjz : ja = 1 ∨ ¬ bf (ja - 1) > ja - 1)
    (hyb : r2 ≤ yb) (hyz : ¬ bf yb > yb) :
    all.countP (fun p => !stvB bf rx ry p && nsInAB bf rx ry r1 r2 p) ≤
      (Oth V k).countP (fun p => confB rx ry ja yb p && !stvB bf rx ry p) := by
  rw [countP_sub hn (av_oth_nodup hVn) (av_oth_sub hVs)
    (fun p => confB rx ry ja yb p && !stvB bf rx ry p)]
  apply List.countP_mono_left
  intro p hp hq
  simp only [Bool.and_eq_true, Bool.not_eq_true', stvB_false, nsInAB_true] at hq
  obtain ⟨hpn, hin⟩ := hq
  have hrk := hctx.rk p hp
  obtain ⟨c0, hc1, hc2, hc3⟩ := av_ns_cell hpn
  have hc0 := hin c0 hc1 hc2 hc3
  simp only [Bool.and_eq_true, decide_eq_true_eq, confB_true, Bool.not_eq_true', stvB_false,
    av_mem_oth]
  refine ⟨⟨hVw p hp hpn, ?_⟩, ⟨?_, ?_⟩, hpn⟩
  · intro hpk; subst hpk; exact hknot hin
  · by_cases hlt : ja ≤ rx p
    · exact hlt
    · exfalso
      rcases hjz with h | h
      · omega
      · have := hin (ja - 1) (by omega) (by omega) h
        omega
  · by_cases hlt : ry p ≤ yb
    · exact hlt
    · exfalso
      have := hin yb (by omega) (by omega) hyz
      omega

/-! ### the zones -/

/-- KEY LEMMA: the zone of a contracted Hall interval -/
theorem hall_zone (h : LFin N bd rx ry all U bf) (hVn : V.Nodup) (hVs : ∀ u ∈ V, u ∈ all)
    (hVe : ∀ r, 1 ≤ r → r ≤ N → bf r < r → bf r + 1 < r →
      cinR rx ry V (bf r + 1) r ≥ bd r - bd (bf r + 1))
    (hVw : ∀ p ∈ all, ¬ StV bf rx ry p → p ∈ V)
    {k : Int} (hns : ¬ StV bf rx ry k) {r1 r2 : Int} (h1 : 1 ≤ r1) (h12 : r1 ≤ r2)
    (h2 : r2 ≤ N - 1)
    (hcnt : ((all.countP (fun p => !stvB bf rx ry p && nsInAB bf rx ry r1 r2 p) : Nat) : Int) ≥
      sumI (DN bd bf) r1 r2)
    (hknot : ¬ nsInA bf rx ry k r1 r2) :
    ∃ ja yb, 1 ≤ ja ∧ ja ≤ r1 ∧ r2 ≤ yb ∧ yb ≤ N - 1 ∧
      cinR rx ry (Oth V k) ja yb ≥ bd yb - bd ja := by
  obtain ⟨s, hs1, hs2, hrunL, hsz⟩ := run_start bf 1 r1 h1
  obtain ⟨e, he1, he2, hrunR, hez⟩ := av_run_end bf (N - 1) (N - 1 - r2).toNat r2 (by omega)
  have hens : ¬ bf e > e := by
    rcases hez with hz | hz
    · have := h.top_root; rw [hz]; omega
    · exact hz
  have hroot : bf e < e := av_root h.cb (by omega) (by omega) hens
  have hsz' : s = 1 ∨ ¬ bf (s - 1) > s - 1 := hsz
  have hS := av_stable_fill_oth h.ctx h.cb hVs hVe hns hs1 hsz' (by omega : s ≤ e)
    (by omega) hroot
  have hNs := av_ns_fill h.ctx h.nodup hVn hVs hVw hknot hs2 hsz' he1 hens
  have hsp := countP_split (Oth V k) (confB rx ry s e) (stvB bf rx ry)
  have d1 := sumI_split (DN bd bf) hs2 e (by omega)
  have d2 := sumI_split (DN bd bf) h12 e he1
  have d3 := av_sumI_DN_run bd hs2 hrunL
  have d4 := av_sumI_DN_run bd he1 hrunR
  have hsum := sumI_DS_DN bd bf (by omega : s ≤ e)
  refine ⟨s, e, hs1, hs2, he1, he2, ?_⟩
  rw [cinR_eq]
  omega

/-- the maximal stable run that contains a stable cell -/
theorem stable_zone (h : LFin N bd rx ry all U bf) (hVs : ∀ u ∈ V, u ∈ all)
    (hVe : ∀ r, 1 ≤ r → r ≤ N → bf r < r → bf r + 1 < r →
      cinR rx ry V (bf r + 1) r ≥ bd r - bd (bf r + 1))
    {k : Int} (hns : ¬ StV bf rx ry k) {c : Int} (hc1 : 1 ≤ c) (hc2 : c ≤ N - 1)
    (hst : St bf c) :
    ∃ ja yb, 1 ≤ ja ∧ ja ≤ c ∧ c < yb ∧ yb ≤ N - 1 ∧
      cinR rx ry (Oth V k) ja yb ≥ bd yb - bd ja := by
  obtain ⟨s, hs1, hs2, hrunL, hsz⟩ := run_start bf 1 c hc1
  obtain ⟨e, he1, he2, hrunR, hez⟩ := av_run_end bf (N - 1) (N - 1 - c).toNat c (by omega)
  have hens : ¬ bf e > e := by
    rcases hez with hz | hz
    · have := h.top_root; rw [hz]; omega
    · exact hz
  have hce : c < e := by
    by_cases hce : c < e
    · exact hce
    · exfalso
      have : e = c := by omega
      rw [this] at hens; exact hens hst
  have hroot : bf e < e := av_root h.cb (by omega) (by omega) hens
  have hsz' : s = 1 ∨ ¬ bf (s - 1) > s - 1 := hsz
  have hS := av_stable_fill_oth h.ctx h.cb hVs hVe hns hs1 hsz' (by omega : s ≤ e)
    (by omega) hroot
  have hrun : ∀ k, s ≤ k → k < e → bf k > k := by
    intro k hk1 hk2
    by_cases hk : k < c
    · exact hrunL k hk1 hk
    · exact hrunR k (by omega) hk2
  have hD := sumI_DS_run bd (by omega : s ≤ e) hrun
  have hle := List.countP_mono_left (l := Oth V k)
    (p := fun p => confB rx ry s e p && stvB bf rx ry p) (q := confB rx ry s e)
    (by intro p _ hq; simp only [Bool.and_eq_true] at hq; exact hq.1)
  refine ⟨s, e, hs1, hs2, hce, he2, ?_⟩
  rw [cinR_eq]
  omega

/-- a cell that is stable or lies in a contracted Hall interval foreign to `k` lies in a zone
    filled by the other variables of `V` -/
theorem avoid_zone (h : LFin N bd rx ry all U bf) (hVn : V.Nodup) (hVs : ∀ u ∈ V, u ∈ all)
    (hVe : ∀ r, 1 ≤ r → r ≤ N → bf r < r → bf r + 1 < r →
      cinR rx ry V (bf r + 1) r ≥ bd r - bd (bf r + 1))
    (hVw : ∀ p ∈ all, ¬ StV bf rx ry p → p ∈ V)
    {k : Int} (hns : ¬ StV bf rx ry k) {c : Int} (hc1 : 1 ≤ c) (hc2 : c ≤ N - 1)
    (hfail : ¬ (¬ St bf c ∧
      ∀ r1 r2, 1 ≤ r1 → r1 ≤ c → c < r2 → r2 ≤ N - 1 →
        ((all.countP (fun p => !stvB bf rx ry p && nsInAB bf rx ry r1 r2 p) : Nat) : Int) ≥
          sumI (DN bd bf) r1 r2 → nsInA bf rx ry k r1 r2)) :
    ∃ ja yb, 1 ≤ ja ∧ ja ≤ c ∧ c < yb ∧ yb ≤ N - 1 ∧
      cinR rx ry (Oth V k) ja yb ≥ bd yb - bd ja := by
  by_cases hst : St bf c
  · exact stable_zone h hVs hVe hns hc1 hc2 hst
  · by_cases hex : ∃ r1 r2, 1 ≤ r1 ∧ r1 ≤ c ∧ c < r2 ∧ r2 ≤ N - 1 ∧
        ((all.countP (fun p => !stvB bf rx ry p && nsInAB bf rx ry r1 r2 p) : Nat) : Int) ≥
          sumI (DN bd bf) r1 r2 ∧ ¬ nsInA bf rx ry k r1 r2
    · obtain ⟨r1, r2, g1, g2, g3, g4, g5, g6⟩ := hex
      obtain ⟨ja, yb, z1, z2, z3, z4, z5⟩ :=
        hall_zone h hVn hVs hVe hVw hns g1 (by omega : r1 ≤ r2) g4 g5 g6
      exact ⟨ja, yb, z1, by omega, by omega, z4, z5⟩
    · exfalso
      apply hfail
      refine ⟨hst, ?_⟩
      intro r1 r2 g1 g2 g3 g4 g5
      by_cases g6 : nsInA bf rx ry k r1 r2
      · exact g6
      · exact absurd ⟨r1, r2, g1, g2, g3, g4, g5, g6⟩ hex

/-! ### comparison with the zones of the completeness facts -/

theorem av_cinR_oth_sm {k ja yb : Int} (hyb : yb < ry k) :
    cinR rx ry (Oth V k) ja yb ≤ cinR rx ry (Sm ry V k) ja yb := by
  rw [cinR_eq, cinR_eq]
  unfold Oth Sm
  rw [List.countP_filter, List.countP_filter]
  have := List.countP_mono_left (l := V)
    (p := fun a => confB rx ry ja yb a && decide (a ≠ k))
    (q := fun a => confB rx ry ja yb a && decide (ry a < ry k)) (by
      intro p _ hq
      simp only [Bool.and_eq_true, confB_true, decide_eq_true_eq] at hq ⊢
      exact ⟨hq.1, by omega⟩)
  omega

theorem av_cinR_oth_gt {k ja yb : Int} (hja : rx k < ja) :
    cinR rx ry (Oth V k) ja yb ≤
      cinR rx ry (V.filter (fun p => decide (rx k < rx p))) ja yb := by
  rw [cinR_eq, cinR_eq]
  unfold Oth
  rw [List.countP_filter, List.countP_filter]
  have := List.countP_mono_left (l := V)
    (p := fun a => confB rx ry ja yb a && decide (a ≠ k))
    (q := fun a => confB rx ry ja yb a && decide (rx k < rx a)) (by
      intro p _ hq
      simp only [Bool.and_eq_true, confB_true, decide_eq_true_eq] at hq ⊢
      exact ⟨hq.1, by omega⟩)
  omega

/-- the cell of a non-stable variable in a cell solution is non-stable and has a positive
    demand -/
theorem av_cell_pos (h : LFin N bd rx ry all U bf) (hκ0 : CellSol N bd rx ry all κ0)
    {k : Int} (hk : k ∈ all) (hns : ¬ StV bf rx ry k) :
    ¬ St bf (κ0 k) ∧ bd (κ0 k) < bd (κ0 k + 1) := by
  obtain ⟨t1, t2, _⟩ := lfin_tight h hκ0
  have hrk := h.ctx.rk k hk
  have hd := hκ0.dom k hk
  have hnst := t1 k hk hns
  have hcnt := t2 (κ0 k) (by omega) (by omega) hnst
  have hpos : 0 < all.countP (fun p => decide (κ0 p = κ0 k)) :=
    List.countP_pos_iff.2 ⟨k, hk, by simp⟩
  exact ⟨hnst, by omega⟩

/-! ### the deliverables -/

set_option linter.unusedVariables false in
/-- (1) the candidate minimum: `w` is respected by every cell solution and lies in no zone filled
    by variables of `V` with a smaller maximum; `c` is the first cell of positive demand from `w`
    on.  Then `c` is a non-stable cell of `k` that lies in no contracted Hall interval foreign to
    `k`. -/
theorem avoid_min (h : LFin N bd rx ry all U bf) (hκ0 : CellSol N bd rx ry all κ0)
    (hVn : V.Nodup) (hVs : ∀ u ∈ V, u ∈ all)
    (hVb : ∀ ja yb, 1 ≤ ja → ja < yb → yb ≤ N → cinR rx ry V ja yb ≤ bd yb - bd ja)
    (hVe : ∀ r, 1 ≤ r → r ≤ N → bf r < r → bf r + 1 < r →
      cinR rx ry V (bf r + 1) r ≥ bd r - bd (bf r + 1))
    (hVw : ∀ p ∈ all, ¬ StV bf rx ry p → p ∈ V)
    {k : Int} (hk : k ∈ V) (hns : ¬ StV bf rx ry k)
    (w c : Int) (hsound : ∀ κ, CellSol N bd rx ry all κ → w ≤ κ k)
    (hcf : ∀ ja yb, 1 ≤ ja → ja < yb → yb ≤ N →
      cinR rx ry (Sm ry V k) ja yb ≥ bd yb - bd ja → ¬ (ja ≤ w ∧ w < yb))
    (hw1 : 1 ≤ w) (hwx : rx k ≤ w) (hwc : w ≤ c)
    (hzero : ∀ c', w ≤ c' → c' < c → bd (c' + 1) = bd c') (hpos : bd c < bd (c + 1)) :
    rx k ≤ c ∧ c < ry k ∧ ¬ St bf c ∧
      ∀ r1 r2, 1 ≤ r1 → r1 ≤ c → c < r2 → r2 ≤ N - 1 →
        ((all.countP (fun p => !stvB bf rx ry p && nsInAB bf rx ry r1 r2 p) : Nat) : Int) ≥
          sumI (DN bd bf) r1 r2 → nsInA bf rx ry k r1 r2 := by
  have hka := hVs k hk
  have hrk := h.ctx.rk k hka
  have hd := hκ0.dom k hka
  have hwk := hsound κ0 hκ0
  obtain ⟨_, hkpos⟩ := av_cell_pos h hκ0 hka hns
  have hck : c ≤ κ0 k := by
    by_cases hck : c ≤ κ0 k
    · exact hck
    · exfalso
      have := hzero (κ0 k) hwk (by omega)
      omega
  refine ⟨by omega, by omega, ?_⟩
  by_cases hgood : ¬ St bf c ∧
      ∀ r1 r2, 1 ≤ r1 → r1 ≤ c → c < r2 → r2 ≤ N - 1 →
        ((all.countP (fun p => !stvB bf rx ry p && nsInAB bf rx ry r1 r2 p) : Nat) : Int) ≥
          sumI (DN bd bf) r1 r2 → nsInA bf rx ry k r1 r2
  · exact hgood
  · exfalso
    obtain ⟨ja, yb, z1, z2, z3, z4, z5⟩ :=
      avoid_zone h hVn hVs hVe hVw hns (by omega : 1 ≤ c) (by omega : c ≤ N - 1) hgood
    -- bring the lower end of the zone down to `w`
    have hz : ∃ ja', 1 ≤ ja' ∧ ja' ≤ w ∧ cinR rx ry (Oth V k) ja' yb ≥ bd yb - bd ja' := by
      by_cases hwj : w < ja
      · refine ⟨w, hw1, Int.le_refl _, ?_⟩
        have e := av_bd_flat hzero ja (by omega) z2
        have := av_cinR_mono rx ry (Oth V k) (by omega : w ≤ ja) (Int.le_refl yb)
        omega
      · exact ⟨ja, z1, by omega, z5⟩
    obtain ⟨ja', y1, y2, y3⟩ := hz
    by_cases hyk : yb < ry k
    · have := av_cinR_oth_sm (rx := rx) (V := V) (ja := ja') hyk
      exact hcf ja' yb y1 (by omega) (by omega) (by omega) ⟨y2, by omega⟩
    · exact lfin_zone h hκ0 V hVn hVs hVb k ja' yb hk hns y1 (by omega) y3
        ⟨by omega, by omega⟩

set_option linter.unusedVariables false in
/-- (2) the candidate maximum, the mirror image of (1): every cell solution puts `k` below `w`,
    `w` lies in no zone filled by variables of `V` with a larger minimum; `c` is the last cell of
    positive demand below `w`. -/
theorem avoid_max (h : LFin N bd rx ry all U bf) (hκ0 : CellSol N bd rx ry all κ0)
    (hVn : V.Nodup) (hVs : ∀ u ∈ V, u ∈ all)
    (hVb : ∀ ja yb, 1 ≤ ja → ja < yb → yb ≤ N → cinR rx ry V ja yb ≤ bd yb - bd ja)
    (hVe : ∀ r, 1 ≤ r → r ≤ N → bf r < r → bf r + 1 < r →
      cinR rx ry V (bf r + 1) r ≥ bd r - bd (bf r + 1))
    (hVw : ∀ p ∈ all, ¬ StV bf rx ry p → p ∈ V)
    {k : Int} (hk : k ∈ V) (hns : ¬ StV bf rx ry k)
    (w c : Int) (hsound : ∀ κ, CellSol N bd rx ry all κ → κ k < w)
    (hcf : ∀ ja yb, 1 ≤ ja → ja < yb → yb ≤ N →
      cinR rx ry (V.filter (fun p => decide (rx k < rx p))) ja yb ≥ bd yb - bd ja →
        ¬ (ja < w ∧ w ≤ yb))
    (hwN : w ≤ N - 1) (hwy : w ≤ ry k) (hcw : c < w)
    (hzero : ∀ c', c < c' → c' < w → bd (c' + 1) = bd c') (hpos : bd c < bd (c + 1))
    (hc1 : 1 ≤ c) :
    rx k ≤ c ∧ c < ry k ∧ ¬ St bf c ∧
      ∀ r1 r2, 1 ≤ r1 → r1 ≤ c → c < r2 → r2 ≤ N - 1 →
        ((all.countP (fun p => !stvB bf rx ry p && nsInAB bf rx ry r1 r2 p) : Nat) : Int) ≥
          sumI (DN bd bf) r1 r2 → nsInA bf rx ry k r1 r2 := by
  have hka := hVs k hk
  have hrk := h.ctx.rk k hka
  have hd := hκ0.dom k hka
  have hwk := hsound κ0 hκ0
  obtain ⟨_, hkpos⟩ := av_cell_pos h hκ0 hka hns
  have hck : κ0 k ≤ c := by
    by_cases hck : κ0 k ≤ c
    · exact hck
    · exfalso
      have := hzero (κ0 k) (by omega) hwk
      omega
  refine ⟨by omega, by omega, ?_⟩
  by_cases hgood : ¬ St bf c ∧
      ∀ r1 r2, 1 ≤ r1 → r1 ≤ c → c < r2 → r2 ≤ N - 1 →
        ((all.countP (fun p => !stvB bf rx ry p && nsInAB bf rx ry r1 r2 p) : Nat) : Int) ≥
          sumI (DN bd bf) r1 r2 → nsInA bf rx ry k r1 r2
  · exact hgood
  · exfalso
    obtain ⟨ja, yb, z1, z2, z3, z4, z5⟩ :=
      avoid_zone h hVn hVs hVe hVw hns hc1 (by omega : c ≤ N - 1) hgood
    -- bring the upper end of the zone up to `w`
    have hz : ∃ yb', w ≤ yb' ∧ yb' ≤ N - 1 ∧
        cinR rx ry (Oth V k) ja yb' ≥ bd yb' - bd ja := by
      by_cases hyw : yb < w
      · refine ⟨w, Int.le_refl _, hwN, ?_⟩
        have hzero' : ∀ c', yb ≤ c' → c' < w → bd (c' + 1) = bd c' :=
          fun c' g1 g2 => hzero c' (by omega) g2
        have e := av_bd_flat hzero' w (by omega) (Int.le_refl _)
        have := av_cinR_mono rx ry (Oth V k) (Int.le_refl ja) (by omega : yb ≤ w)
        omega
      · exact ⟨yb, by omega, z4, z5⟩
    obtain ⟨yb', y1, y2, y3⟩ := hz
    by_cases hjk : rx k < ja
    · have := av_cinR_oth_gt (ry := ry) (V := V) (yb := yb') hjk
      exact hcf ja yb' z1 (by omega) (by omega) (by omega) ⟨by omega, y1⟩
    · exact lfin_zone h hκ0 V hVn hVs hVb k ja yb' hk hns z1 (by omega) y3
        ⟨by omega, by omega⟩

end

end Gcc
end Nucs
