import NucsProofs.Examples.MagicSquare
/-!
  C20, symmetry breaking of the magic-square model PRESERVES satisfiability, for every order `n ≥ 2`:
  the transpose and the vertical flip of a normal magic square are normal magic squares; they generate
  the eight symmetries of the square, which move any corner to the top-left position and exchange the
  bottom-left and top-right corners; the four corners hold distinct numbers, so one of the eight images
  satisfies the four ordering constraints of `symmetry_breaking=True`
  (`top_left < every other corner`, and the constraint the constructor posts between its variables named
  `top_right` / `bottom_left`, which are the cells `(n-1, 0)` and `(0, n-1)`).
-/
namespace Nucs
open Ex

/-- the square with entry `f i j` in cell `(i, j)`, row-major -/
def sqOf (n : Nat) (f : Nat → Nat → Int) : List Int := (List.range (n * n)).map (fun k => f (k / n) (k % n))

/-- transpose -/
def sqT (n : Nat) (m : List Int) : List Int := sqOf n (fun i j => getI m (j * n + i))
/-- vertical flip (rows in reverse order) -/
def sqV (n : Nat) (m : List Int) : List Int := sqOf n (fun i j => getI m ((n - 1 - i) * n + j))

namespace Ex

theorem sqOf_length (n : Nat) (f : Nat → Nat → Int) : (sqOf n f).length = n * n := by
  simp [sqOf]

theorem cell_div {n i j : Nat} (hj : j < n) : (i * n + j) / n = i := by
  rw [Nat.mul_comm, Nat.mul_add_div (by omega), Nat.div_eq_of_lt hj]; rfl

theorem cell_mod {n i j : Nat} (hj : j < n) : (i * n + j) % n = j := by
  rw [Nat.mul_comm, Nat.mul_add_mod]; exact Nat.mod_eq_of_lt hj

theorem getI_sqOf {n i j : Nat} (f : Nat → Nat → Int) (hi : i < n) (hj : j < n) :
    getI (sqOf n f) (i * n + j) = f i j := by
  have hk := cell_lt hi hj
  rw [getI_eq_getElem (by rw [sqOf_length]; exact hk)]
  simp only [sqOf, List.getElem_map, List.getElem_range, cell_div hj, cell_mod hj]

theorem getI_sqOf' {n k : Nat} (f : Nat → Nat → Int) (hk : k < n * n) :
    getI (sqOf n f) k = f (k / n) (k % n) := by
  rw [getI_eq_getElem (by rw [sqOf_length]; exact hk)]
  simp only [sqOf, List.getElem_map, List.getElem_range]

theorem lineSum_congr {n : Nat} {f g : Nat → Int} (h : ∀ j, j < n → f j = g j) : lineSum n f = lineSum n g := by
  unfold lineSum
  rw [List.map_congr_left (fun j hj => h j (List.mem_range.1 hj))]

theorem lineSum_succ (n : Nat) (f : Nat → Int) : lineSum (n + 1) f = lineSum n f + f n := by
  unfold lineSum
  rw [List.range_succ, List.map_append, List.sum_append]
  simp

theorem lineSum_succ' (n : Nat) (f : Nat → Int) : lineSum (n + 1) f = f 0 + lineSum n (fun j => f (j + 1)) := by
  unfold lineSum
  rw [List.range_succ_eq_map, List.map_cons, List.sum_cons, List.map_map]
  rfl

/-- a sum may be read backwards -/
theorem lineSum_reflect : ∀ (n : Nat) (g : Nat → Int), lineSum n (fun j => g (n - 1 - j)) = lineSum n g
  | 0, _ => rfl
  | n + 1, g => by
    rw [lineSum_succ, lineSum_succ' n g]
    have h1 : lineSum n (fun j => g (n + 1 - 1 - j)) = lineSum n (fun j => (fun t => g (t + 1)) (n - 1 - j)) := by
      apply lineSum_congr
      intro j hj
      have : n + 1 - 1 - j = n - 1 - j + 1 := by omega
      simp only [this]
    rw [h1, lineSum_reflect n (fun t => g (t + 1))]
    have : n + 1 - 1 - n = 0 := by omega
    rw [this]
    omega

theorem distinct_of_ne {n : Nat} {m : List Int} (h : ValidMagicSquare n m) {a b : Nat} (ha : a < n * n) (hb : b < n * n)
    (hab : a ≠ b) : getI m a ≠ getI m b := by
  rcases Nat.lt_or_gt_of_ne hab with h1 | h1
  · exact h.distinct a b h1 hb
  · exact fun e => h.distinct b a h1 ha e.symm

/-- a rearrangement of the cells by an injective map `φ` on cell coordinates keeps entries and distinctness -/
theorem sqOf_basic {n : Nat} {m : List Int} (h : ValidMagicSquare n m) (φ : Nat → Nat → Nat)
    (hφ : ∀ i j, i < n → j < n → φ i j < n * n)
    (hinj : ∀ i j i' j', i < n → j < n → i' < n → j' < n → φ i j = φ i' j' → i = i' ∧ j = j') :
    (∀ k, k < n * n → 0 ≤ getI (sqOf n (fun i j => getI m (φ i j))) k ∧
        getI (sqOf n (fun i j => getI m (φ i j))) k ≤ (n : Int) * n - 1) ∧
    (∀ k l, k < l → l < n * n → getI (sqOf n (fun i j => getI m (φ i j))) k ≠ getI (sqOf n (fun i j => getI m (φ i j))) l) := by
  have hdm : ∀ k, k < n * n → k / n < n ∧ k % n < n := by
    intro k hk
    have hn : 0 < n := by
      rcases Nat.eq_zero_or_pos n with h0 | h0
      · subst h0; simp at hk
      · exact h0
    exact ⟨Nat.div_lt_of_lt_mul hk, Nat.mod_lt _ hn⟩
  constructor
  · intro k hk
    rw [getI_sqOf' _ hk]
    exact h.entry _ (hφ _ _ (hdm k hk).1 (hdm k hk).2)
  · intro k l hkl hl
    have hk : k < n * n := by omega
    rw [getI_sqOf' _ hk, getI_sqOf' _ hl]
    refine distinct_of_ne h (hφ _ _ (hdm k hk).1 (hdm k hk).2) (hφ _ _ (hdm l hl).1 (hdm l hl).2) ?_
    intro e
    obtain ⟨e1, e2⟩ := hinj _ _ _ _ (hdm k hk).1 (hdm k hk).2 (hdm l hl).1 (hdm l hl).2 e
    have h1 := Nat.div_add_mod k n
    have h2 := Nat.div_add_mod l n
    rw [e1, e2] at h1
    omega

/-- the transpose of a normal magic square is a normal magic square -/
theorem valid_sqT {n : Nat} {m : List Int} (h : ValidMagicSquare n m) : ValidMagicSquare n (sqT n m) := by
  have hb := sqOf_basic h (fun i j => j * n + i) (fun i j hi hj => cell_lt hj hi) (by
    intro i j i' j' hi hj hi' hj' e
    have h1 := congrArg (· / n) e
    have h2 := congrArg (· % n) e
    simp only [cell_div hi, cell_div hi', cell_mod hi, cell_mod hi'] at h1 h2
    exact ⟨h2, h1⟩)
  refine ⟨sqOf_length _ _, hb.1, hb.2, ?_, ?_, ?_, ?_⟩
  · intro i hi
    rw [← h.columns i hi]
    exact lineSum_congr (fun j hj => getI_sqOf _ hi hj)
  · intro j hj
    rw [← h.rows j hj]
    exact lineSum_congr (fun i hi => getI_sqOf _ hi hj)
  · rw [← h.diagonal]
    exact lineSum_congr (fun i hi => getI_sqOf _ hi hi)
  · rw [← h.antiDiagonal, ← lineSum_reflect n (fun k => getI m ((n - 1 - k) * n + k))]
    apply lineSum_congr
    intro k hk
    unfold sqT
    rw [getI_sqOf _ (by omega) hk]
    have : n - 1 - (n - 1 - k) = k := by omega
    simp only [this]

/-- the vertical flip of a normal magic square is a normal magic square -/
theorem valid_sqV {n : Nat} {m : List Int} (h : ValidMagicSquare n m) : ValidMagicSquare n (sqV n m) := by
  have hb := sqOf_basic h (fun i j => (n - 1 - i) * n + j) (fun i j hi hj => cell_lt (by omega) hj) (by
    intro i j i' j' hi hj hi' hj' e
    have h1 := congrArg (· / n) e
    have h2 := congrArg (· % n) e
    simp only [cell_div hj, cell_div hj', cell_mod hj, cell_mod hj'] at h1 h2
    exact ⟨by omega, h2⟩)
  refine ⟨sqOf_length _ _, hb.1, hb.2, ?_, ?_, ?_, ?_⟩
  · intro i hi
    rw [← h.rows (n - 1 - i) (by omega)]
    exact lineSum_congr (fun j hj => getI_sqOf _ hi hj)
  · intro j hj
    rw [← h.columns j hj, ← lineSum_reflect n (fun i => getI m (i * n + j))]
    exact lineSum_congr (fun i hi => getI_sqOf _ hi hj)
  · rw [← h.antiDiagonal]
    exact lineSum_congr (fun i hi => getI_sqOf _ hi hi)
  · rw [← h.diagonal]
    apply lineSum_congr
    intro k hk
    unfold sqV
    rw [getI_sqOf _ (by omega) hk]
    have : n - 1 - (n - 1 - k) = k := by omega
    simp only [this]

/-! ### the four corners: top-left, top-right, bottom-left, bottom-right -/

def cTL (_n : Nat) (m : List Int) : Int := getI m 0
def cTR (n : Nat) (m : List Int) : Int := getI m (n - 1)
def cBL (n : Nat) (m : List Int) : Int := getI m (n * n - n)
def cBR (n : Nat) (m : List Int) : Int := getI m (n * n - 1)

theorem corner_idx (n : Nat) (hn : 2 ≤ n) :
    0 = 0 * n + 0 ∧ n - 1 = 0 * n + (n - 1) ∧ n * n - n = (n - 1) * n + 0 ∧ n * n - 1 = (n - 1) * n + (n - 1) := by
  obtain ⟨a, rfl⟩ : ∃ a, n = a + 1 := ⟨n - 1, by omega⟩
  have e : (a + 1) * (a + 1) = a * (a + 1) + (a + 1) := by rw [Nat.add_mul]; omega
  simp only [Nat.add_sub_cancel]
  rw [e]
  omega

theorem getI_sqOf_at {n k i j : Nat} (f : Nat → Nat → Int) (hi : i < n) (hj : j < n) (hk : k = i * n + j) :
    getI (sqOf n f) k = f i j := by
  subst hk; exact getI_sqOf f hi hj

theorem corners_sqT (n : Nat) (hn : 2 ≤ n) (m : List Int) :
    cTL n (sqT n m) = cTL n m ∧ cTR n (sqT n m) = cBL n m ∧ cBL n (sqT n m) = cTR n m ∧ cBR n (sqT n m) = cBR n m := by
  obtain ⟨e1, e2, e3, e4⟩ := corner_idx n hn
  unfold cTL cTR cBL cBR sqT
  refine ⟨?_, ?_, ?_, ?_⟩
  · rw [getI_sqOf_at _ (by omega) (by omega) e1, ← e1]
  · rw [getI_sqOf_at _ (by omega) (by omega) e2, ← e3]
  · rw [getI_sqOf_at _ (by omega) (by omega) e3, ← e2]
  · rw [getI_sqOf_at _ (by omega) (by omega) e4, ← e4]

theorem corners_sqV (n : Nat) (hn : 2 ≤ n) (m : List Int) :
    cTL n (sqV n m) = cBL n m ∧ cTR n (sqV n m) = cBR n m ∧ cBL n (sqV n m) = cTL n m ∧ cBR n (sqV n m) = cTR n m := by
  obtain ⟨e1, e2, e3, e4⟩ := corner_idx n hn
  have z : n - 1 - (n - 1) = 0 := by omega
  have z' : n - 1 - 0 = n - 1 := by omega
  unfold cTL cTR cBL cBR sqV
  refine ⟨?_, ?_, ?_, ?_⟩
  · rw [getI_sqOf_at _ (by omega) (by omega) e1, z', ← e3]
  · rw [getI_sqOf_at _ (by omega) (by omega) e2, z', ← e4]
  · rw [getI_sqOf_at _ (by omega) (by omega) e3, z]; simp
  · rw [getI_sqOf_at _ (by omega) (by omega) e4, z]; simp

/-- the four corners hold four different numbers -/
theorem corners_distinct {n : Nat} (hn : 2 ≤ n) {m : List Int} (h : ValidMagicSquare n m) :
    cTL n m ≠ cTR n m ∧ cTL n m ≠ cBL n m ∧ cTL n m ≠ cBR n m ∧ cTR n m ≠ cBL n m ∧ cTR n m ≠ cBR n m ∧ cBL n m ≠ cBR n m := by
  have h2 : 2 * n ≤ n * n := Nat.mul_le_mul_right n hn
  unfold cTL cTR cBL cBR
  refine ⟨?_, ?_, ?_, ?_, ?_, ?_⟩ <;> exact distinct_of_ne h (by omega) (by omega) (by omega)

/-- some image of a normal magic square under the symmetries generated by transpose and vertical flip has its
    smallest corner top-left and `bottom-left < top-right` -/
theorem exists_ordered_image {n : Nat} (hn : 2 ≤ n) {m : List Int} (h : ValidMagicSquare n m) :
    ∃ m', ValidMagicSquare n m' ∧ cTL n m' < cTR n m' ∧ cTL n m' < cBL n m' ∧ cTL n m' < cBR n m' ∧ cBL n m' < cTR n m' := by
  -- first: the smallest corner top-left
  have step1 : ∃ m1, ValidMagicSquare n m1 ∧ cTL n m1 < cTR n m1 ∧ cTL n m1 < cBL n m1 ∧ cTL n m1 < cBR n m1 := by
    obtain ⟨d1, d2, d3, d4, d5, d6⟩ := corners_distinct hn h
    by_cases c1 : cTL n m < cTR n m ∧ cTL n m < cBL n m ∧ cTL n m < cBR n m
    · exact ⟨m, h, c1⟩
    by_cases c2 : cBL n m < cTL n m ∧ cBL n m < cTR n m ∧ cBL n m < cBR n m
    · obtain ⟨v1, v2, v3, v4⟩ := corners_sqV n hn m
      exact ⟨sqV n m, valid_sqV h, by rw [v1, v2, v3, v4]; omega⟩
    by_cases c3 : cTR n m < cTL n m ∧ cTR n m < cBL n m ∧ cTR n m < cBR n m
    · obtain ⟨t1, t2, t3, t4⟩ := corners_sqT n hn m
      obtain ⟨v1, v2, v3, v4⟩ := corners_sqV n hn (sqT n m)
      exact ⟨sqV n (sqT n m), valid_sqV (valid_sqT h), by rw [v1, v2, v3, v4, t1, t2, t3, t4]; omega⟩
    · obtain ⟨v1, v2, v3, v4⟩ := corners_sqV n hn m
      obtain ⟨t1, t2, t3, t4⟩ := corners_sqT n hn (sqV n m)
      obtain ⟨w1, w2, w3, w4⟩ := corners_sqV n hn (sqT n (sqV n m))
      exact ⟨sqV n (sqT n (sqV n m)), valid_sqV (valid_sqT (valid_sqV h)),
        by rw [w1, w2, w3, w4, t1, t2, t3, t4, v1, v2, v3, v4]; omega⟩
  obtain ⟨m1, h1, a1, a2, a3⟩ := step1
  obtain ⟨_, _, _, d4, _, _⟩ := corners_distinct hn h1
  by_cases c : cBL n m1 < cTR n m1
  · exact ⟨m1, h1, a1, a2, a3, c⟩
  · obtain ⟨t1, t2, t3, t4⟩ := corners_sqT n hn m1
    exact ⟨sqT n m1, valid_sqT h1, by rw [t1, t2, t3, t4]; omega⟩

/-! ### the symmetry-breaking model -/

theorem headD_map_range (n : Nat) (hn : 1 ≤ n) (f : Nat → Nat) : ((List.range n).map f).headD 0 = f 0 := by
  obtain ⟨k, rfl⟩ : ∃ k, n = k + 1 := ⟨n - 1, by omega⟩
  rw [List.range_succ_eq_map]; rfl

theorem getLastD_map_range (n : Nat) (hn : 1 ≤ n) (f : Nat → Nat) : ((List.range n).map f).getLastD 0 = f (n - 1) := by
  obtain ⟨k, rfl⟩ : ∃ k, n = k + 1 := ⟨n - 1, by omega⟩
  rw [List.range_succ, List.map_append]
  simp

theorem lt_rel (N : Nat) (σ : List Int) (a b : Nat) (ha : a < N) (hb : b < N) :
    rel .affineLeq [1, -1, -1] (vals (idVars N) σ [a, b]) ↔ getI σ a < getI σ b := by
  rw [vals_id _ _ (by
    intro v hv
    simp only [List.mem_cons, List.not_mem_nil, or_false] at hv
    rcases hv with rfl | rfl <;> assumption)]
  show dot [1, -1] [_, _] ≤ -1 ↔ _
  simp only [dot]
  omega

theorem msSb_iff (n : Nat) (hn : 2 ≤ n) (σ : List Int) :
    (∀ c ∈ msSbProps n, rel c.alg c.params (vals (idVars (n ^ 2)) σ c.vars)) ↔
      cTL n σ < cBL n σ ∧ cTL n σ < cTR n σ ∧ cTL n σ < cBR n σ ∧ cBL n σ < cTR n σ := by
  obtain ⟨e1, e2, e3, e4⟩ := corner_idx n hn
  have hsq : n ^ 2 = n * n := Nat.pow_two n
  have h2 : 2 * n ≤ n * n := Nat.mul_le_mul_right n hn
  have z : n - 1 - (n - 1) = 0 := by omega
  have z' : n - 1 - 0 = n - 1 := by omega
  have hTL : (msFirstDiag n).headD 0 = 0 := by rw [msFirstDiag_eq, headD_map_range n (by omega)]; simp
  have hBR : (msFirstDiag n).getLastD 0 = n * n - 1 := by rw [msFirstDiag_eq, getLastD_map_range n (by omega), ← e4]
  have hBL : (msSecondDiag n).headD 0 = n * n - n := by
    rw [msSecondDiag_eq n hn, headD_map_range n (by omega), z', ← e3]
  have hTR : (msSecondDiag n).getLastD 0 = n - 1 := by
    rw [msSecondDiag_eq n hn, getLastD_map_range n (by omega), z]; simp
  simp only [msSbProps, hTL, hBR, hBL, hTR, List.mem_cons, List.not_mem_nil, or_false, forall_eq_or_imp, forall_eq]
  rw [lt_rel _ σ _ _ (by omega) (by omega), lt_rel _ σ _ _ (by omega) (by omega), lt_rel _ σ _ _ (by omega) (by omega),
    lt_rel _ σ _ _ (by omega) (by omega)]
  rfl

end Ex

/-- C20 (magic square, symmetry breaking): the flag adds exactly the four corner orderings -/
theorem C20_magicSquare_sb_iff (n : Nat) (hn : 2 ≤ n) (σ : List Int) :
    Sol (magicSquareProblem n true) σ ↔
      Sol (magicSquareProblem n false) σ ∧
        cTL n σ < cBL n σ ∧ cTL n σ < cTR n σ ∧ cTL n σ < cBR n σ ∧ cBL n σ < cTR n σ := by
  rw [magicSquare_eq, magicSquare_eq, sol_mk, sol_mk]
  simp only [if_true, Bool.false_eq_true, if_false, List.append_nil, List.mem_append, or_imp, forall_and]
  rw [msSb_iff n hn σ]
  constructor
  · rintro ⟨hb, h1, h2⟩; exact ⟨⟨hb, h1⟩, h2⟩
  · rintro ⟨⟨hb, h1⟩, h2⟩; exact ⟨hb, h1, h2⟩

/-- C20 (magic square, symmetry breaking preserves satisfiability): for every order `n ≥ 2`, from any solution of
    the plain model one of its eight symmetric images is a solution of the symmetry-breaking model -/
theorem C20_magicSquare_sb_preserves (n : Nat) (hn : 2 ≤ n) (σ : List Int) (h : Sol (magicSquareProblem n false) σ) :
    ∃ σ', Sol (magicSquareProblem n true) σ' := by
  obtain ⟨m', hv, a1, a2, a3, a4⟩ := exists_ordered_image hn ((C20_magicSquare n hn σ).1 h)
  exact ⟨m', (C20_magicSquare_sb_iff n hn m').2 ⟨(C20_magicSquare n hn m').2 hv, a2, a1, a3, a4⟩⟩

theorem C20_magicSquare_sb_sat_iff (n : Nat) (hn : 2 ≤ n) :
    (∃ σ, Sol (magicSquareProblem n false) σ) ↔ (∃ σ, Sol (magicSquareProblem n true) σ) :=
  ⟨fun ⟨σ, h⟩ => C20_magicSquare_sb_preserves n hn σ h, fun ⟨σ, h⟩ => ⟨σ, C20_magicSquare_sb n σ h⟩⟩

/-- non-vacuity: the Lo Shu square read from another side violates the corner ordering; an image satisfies it -/
example : ∃ σ', Sol (magicSquareProblem 3 true) σ' :=
  C20_magicSquare_sb_preserves 3 (by decide) [7, 2, 3, 0, 4, 8, 5, 6, 1] (by
    rw [C20_magicSquare 3 (by decide)]
    have hd : ∀ l, l < 9 → ∀ k, k < l →
        getI [7, 2, 3, 0, 4, 8, 5, 6, 1] k ≠ getI [7, 2, 3, 0, 4, 8, 5, 6, 1] l := by decide
    exact ⟨rfl, by decide, fun k l hkl hl => hd l hl k hkl, by decide, by decide, by decide, by decide⟩)

end Nucs
