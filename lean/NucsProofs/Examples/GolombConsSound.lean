import NucsProofs.Examples.GolombConsMath
import NucsProofs.Examples.GolombSym
/-!
  C20 / C10 for the Golomb model's own consistency algorithm: the pruning part of
  `golomb_consistency_algorithm` (the model `golombPrune`) only raises lower bounds, never removes a solution
  of `GolombProblem(n, sb)` from the box and never reports inconsistency on a box that holds a solution —
  for every number of marks, every state, every decision list.

  Why: a distance `d(i, j)`, `i ≥ ni − 1`, is the sum of the `j − i` consecutive gaps `d(k, k+1)`, `i ≤ k < j`.
  The gaps are pairwise different positive integers (all distances are different), and none of them equals a
  MARKED value: a marked value is the value of an INSTANTIATED distance variable among the first
  `index(ni−2, ni−1) + 1` variables, all of which come before the variables of the gaps in the row-major
  order, and the solution takes exactly that value there.  So the sum is at least the sum of the `j − i`
  smallest unmarked positive integers (`golombSum_le`).
  (The pinned code marked the LOWER BOUND of every variable in that range, instantiated or not: then the second
  step of this argument fails, and so did the code — D17, repaired by /repo d562b84.)
-/
namespace Nucs
open Ex

namespace Ex

/-- rows come one after the other -/
theorem pairPos_row_lt {n i j k l : Nat} (hij : i < j) (hj : j < n) (hik : i < k) (hkl : k < l) (hl : l < n) :
    pairPos n i j < pairPos n k l := by
  rw [pairPos_eq hij hj, pairPos_eq hkl hl]
  have := offs_mono (gRowLen n) hik
  rw [show gRowLen n i = n - 1 - i from rfl] at this
  omega

theorem golombIdx_eq (n i j : Nat) : golombIdx n i j = pairPos n i j := rfl

theorem triangular_lt {a b : Nat} (h : a < b) : triangular a < triangular b := by
  induction b with
  | zero => omega
  | succ b ih =>
    rw [triangular_succ]
    rcases Nat.lt_or_ge a b with h1 | h1
    · have := ih h1; omega
    · have : a = b := by omega
      subst this; omega

theorem tri_form (k : Nat) : (k + 1) * (k + 1 - 1) / 2 = triangular k := by
  unfold triangular
  rw [Nat.add_sub_cancel, Nat.mul_comm]

theorem golombMarkNbAux_eq (N : Nat) (hN : 1 ≤ N) : ∀ (fuel n : Nat), 1 ≤ n → n ≤ N → N - n + 1 ≤ fuel →
    golombMarkNbAux (triangular (N - 1)) fuel n = N
  | 0, n, _, _, h => by omega
  | fuel + 1, n, h1, h2, h3 => by
    simp only [golombMarkNbAux]
    obtain ⟨k, rfl⟩ : ∃ k, n = k + 1 := ⟨n - 1, by omega⟩
    rw [tri_form]
    rcases Nat.lt_or_ge (k + 1) N with hlt | hge
    · have hl : triangular k < triangular (N - 1) := triangular_lt (by omega)
      rw [if_neg (by omega), if_neg (by omega)]
      exact golombMarkNbAux_eq N hN fuel (k + 1 + 1) (by omega) (by omega) (by omega)
    · have : k + 1 = N := by omega
      subst this
      simp

theorem triangular_ge (k : Nat) : k ≤ triangular k := by
  induction k with
  | zero => simp [triangular]
  | succ k ih => rw [triangular_succ]; omega

theorem golombMarkNb_tri (N : Nat) (hN : 1 ≤ N) : golombMarkNb (triangular (N - 1)) = N := by
  unfold golombMarkNb
  have := triangular_ge (N - 1)
  exact golombMarkNbAux_eq N hN _ 1 (by omega) hN (by omega)

/-- the minimal sums computed by the model -/
theorem golombSums_spec {used : List Bool} {cnt : Nat} {ms : List Int} (h : golombSums used cnt = some ms) :
    ∀ t, t ≤ cnt → golombSum used t 1 = some (getI ms t) := by
  unfold golombSums at h
  split at h
  · rename_i hall
    cases h
    intro t ht
    have h1 := List.all_eq_true.1 hall t (List.mem_range.2 (by omega))
    have h2 : getI ((List.range (cnt + 1)).map (fun t => (golombSum used t 1).getD 0)) t = (golombSum used t 1).getD 0 := by
      simp [getI, List.getD_eq_getElem?_getD, List.getElem?_map, List.getElem?_range (show t < cnt + 1 by omega)]
    rw [h2]
    cases hs : golombSum used t 1 with
    | none => rw [hs] at h1; simp at h1
    | some r => rfl
  · cases h

/-- telescoping -/
theorem gaps_sum (m : Nat → Int) (i : Nat) : ∀ t, ((List.range t).map (fun k => m (i + k + 1) - m (i + k))).sum = m (i + t) - m i
  | 0 => by simp
  | t + 1 => by
    rw [List.range_succ, List.map_append, List.sum_append, gaps_sum m i t]
    simp only [List.map_cons, List.map_nil, List.sum_cons, List.sum_nil]
    have : i + (t + 1) = i + t + 1 := by omega
    rw [this]; omega

theorem inBox_set {σ : List Int} {B : Box} (h : inBox σ B) (d : Nat) (v : Dom) (hv : inDom (getI σ d) v) :
    inBox σ (B.set d v) := by
  rw [inBox_iff] at h ⊢
  obtain ⟨hl, hb⟩ := h
  refine ⟨by simpa using hl, fun i hi => ?_⟩
  rw [List.length_set] at hi
  by_cases e : i = d
  · subst e
    have : getDom (B.set i v) i = v := by
      simp [getDom, List.getD_eq_getElem?_getD, List.getElem?_set_self hi]
    rw [this]; exact hv
  · have : getDom (B.set d v) i = getDom B i := by
      simp [getDom, List.getD_eq_getElem?_getD, List.getElem?_set_ne (Ne.symm e)]
    rw [this]; exact hb i hi

/-- the tightening loop keeps every assignment that respects the minimal sums -/
theorem golombTighten_keeps (P : Problem) (n : Nat) (ms : List Int) (σ : List Int) :
    ∀ (pairs : List (Nat × Nat)) (s : State) (ok : Bool) (s' : State),
      (∀ p ∈ pairs, (P.vars.getD (golombIdx n p.1 p.2) (0, 0)).1 < σ.length ∧
          getI ms (p.2 - p.1) ≤ getI σ (P.vars.getD (golombIdx n p.1 p.2) (0, 0)).1) →
      inBox σ s.top.doms → golombTighten P n ms pairs s = (ok, s') →
      ok = true ∧ inBox σ s'.top.doms ∧ s'.below = s.below
  | [], s, ok, s', _, hin, h => by
    simp only [golombTighten] at h
    cases h
    exact ⟨rfl, hin, rfl⟩
  | (i, j) :: rest, s, ok, s', hp, hin, h => by
    simp only [golombTighten] at h
    have hrest : ∀ p ∈ rest, (P.vars.getD (golombIdx n p.1 p.2) (0, 0)).1 < σ.length ∧
        getI ms (p.2 - p.1) ≤ getI σ (P.vars.getD (golombIdx n p.1 p.2) (0, 0)).1 :=
      fun p hp' => hp p (List.mem_cons_of_mem _ hp')
    obtain ⟨hd, hm⟩ := hp (i, j) (by simp)
    simp only at hd hm
    split at h
    · exact golombTighten_keeps P n ms σ rest s ok s' hrest hin h
    · rename_i hlt
      have hb := (inBox_iff _ _).1 hin
      have hdom := hb.2 _ (by rw [← hb.1]; exact hd)
      unfold inDom at hdom
      have hin1 : inBox σ ((s.top.setDom (P.vars.getD (golombIdx n i j) (0, 0)).1
          (getI ms (j - i), (getDom s.top.doms (P.vars.getD (golombIdx n i j) (0, 0)).1).2)).doms) := by
        unfold Level.setDom
        exact inBox_set hin _ _ ⟨hm, hdom.2⟩
      split at h
      · rename_i hgt
        omega
      · obtain ⟨h1, h2, h3⟩ := golombTighten_keeps P n ms σ rest _ ok s' hrest hin1 h
        exact ⟨h1, h2, h3⟩

theorem mem_golombPairs {n ni : Nat} {p : Nat × Nat} (h : p ∈ golombPairs n ni) : ni - 1 ≤ p.1 ∧ p.1 < p.2 ∧ p.2 < n := by
  obtain ⟨a, b⟩ := p
  simp only [golombPairs, List.mem_flatMap, List.mem_range] at h
  obtain ⟨i, hi, h⟩ := h
  split at h
  · simp only [List.mem_map, List.mem_filter, List.mem_range, decide_eq_true_eq, Prod.mk.injEq] at h
    obtain ⟨j, ⟨hj, hij⟩, rfl, rfl⟩ := h
    exact ⟨by assumption, hij, hj⟩
  · simp at h

theorem golomb_vars (n : Nat) (sb : Bool) : (golombProblem n sb).vars = idVars (triangular (n - 1)) := by
  rw [golomb_eq, gShr_length]; rfl

theorem idVars_getD {N v : Nat} (h : v < N) : ((idVars N).getD v (0, 0)).1 = v := by
  have := resolve_idVars h
  unfold resolve at this
  rw [this]

end Ex

/-- soundness of the pruning part of the Golomb model's own consistency algorithm: for every number of marks
    `n ≥ 2`, both symmetry-breaking settings, every state and every decision list, a solution of
    `GolombProblem(n, sb)` that lies in the current box is still in the box afterwards — in particular the
    algorithm does not answer "inconsistent" then -/
theorem C20_golomb_prune_sound (n : Nat) (hn : 2 ≤ n) (sb : Bool) (decision : List Nat) (s : State)
    (σ : List Int) (hσ : Sol (golombProblem n sb) σ) (hin : inBox σ s.top.doms)
    (ok : Bool) (s' : State) (h : golombPrune (golombProblem n sb) decision s = .ok (ok, s')) :
    ok = true ∧ inBox σ s'.top.doms ∧ s'.below = s.below := by
  have hplain : Sol (golombProblem n false) σ := by
    cases sb
    · exact hσ
    · exact C20_golomb_sb_subset n hn σ hσ
  obtain ⟨⟨m, hm0, hinc, htab⟩, hnd, _⟩ := (C20_golomb n hn σ).1 hplain
  obtain ⟨hlen, hm⟩ := (eq_distTable_iff n m σ).1 htab
  unfold golombPrune golombPruneN at h
  rw [golomb_vars, show (idVars (triangular (n - 1))).length = triangular (n - 1) by simp [idVars],
    golombMarkNb_tri n (by omega)] at h
  split at h
  · cases h; exact ⟨rfl, hin, rfl⟩
  · rename_i ni hni
    split at h
    · rename_i hrange
      dsimp only at h
      split at h
      · cases h
      · rename_i used hused
        split at h
        · cases h
        · rename_i ms hms
          simp only [Except.ok.injEq] at h
          obtain ⟨hul, hus⟩ := golombMarkUsed_spec _ _ _ _ _ hused
          refine golombTighten_keeps _ n ms σ (golombPairs n ni) s ok s' ?_ hin h
          intro p hp
          obtain ⟨hp1, hp2, hp3⟩ := mem_golombPairs hp
          obtain ⟨i, j⟩ := p
          simp only at hp1 hp2 hp3 ⊢
          have hpos := pairPos_lt hp2 hp3
          rw [golomb_vars, golombIdx_eq, idVars_getD hpos, hlen]
          refine ⟨hpos, ?_⟩
          -- the consecutive gaps of the segment [i, j]
          have hsum := golombSums_spec hms (j - i) (by omega)
          have key := golombSum_le used (j - i) 1 (getI ms (j - i))
            ((List.range (j - i)).map (fun k => m (i + k + 1) - m (i + k))) hsum (by simp) ?_ ?_
          · rw [gaps_sum, hm i j hp2 hp3] at *
            have : i + (j - i) = j := by omega
            rw [this] at key
            exact key
          · -- pairwise different
            rw [nodup_map_range]
            intro a b hab hb
            rw [← hm (i + a) (i + a + 1) (by omega) (by omega), ← hm (i + b) (i + b + 1) (by omega) (by omega)]
            refine getI_ne_of_nodup hnd ?_ ?_ ?_
            · rw [hlen]; exact pairPos_lt (by omega) (by omega)
            · rw [hlen]; exact pairPos_lt (by omega) (by omega)
            · intro e
              have := (pairPos_inj (n := n) (by omega) (by omega) (by omega) (by omega) e).1
              omega
          · -- at least 1 and not marked
            intro x hx
            simp only [List.mem_map, List.mem_range] at hx
            obtain ⟨k, hk, rfl⟩ := hx
            have hgap := hinc (i + k) (i + k + 1) (by omega) (by omega)
            refine ⟨by simp; omega, ?_⟩
            cases hu : used.getD (m (i + k + 1) - m (i + k)).toNat false with
            | false => rfl
            | true =>
              exfalso
              obtain ⟨v, hv, hv1, hv2⟩ := hus _ hu
              rw [golombIdx_eq] at hv
              have hvpos : pairPos n (ni - 2) (ni - 1) < triangular (n - 1) := pairPos_lt (by omega) (by omega)
              rw [golomb_vars, idVars_getD (show v < triangular (n - 1) by omega)] at hv1 hv2
              have hb := (inBox_iff _ _).1 hin
              have hdv := hb.2 v (by rw [← hb.1, hlen]; omega)
              unfold inDom at hdv
              have hσv : getI σ v = m (i + k + 1) - m (i + k) := by
                have : ((m (i + k + 1) - m (i + k)).toNat : Int) = m (i + k + 1) - m (i + k) := by omega
                omega
              rw [← hm (i + k) (i + k + 1) (by omega) (by omega)] at hσv
              have hlt : v < pairPos n (i + k) (i + k + 1) := by
                have := pairPos_row_lt (n := n) (i := ni - 2) (j := ni - 1) (k := i + k) (l := i + k + 1)
                  (by omega) (by omega) (by omega) (by omega) (by omega)
                omega
              exact getI_ne_of_nodup hnd (by rw [hlen]; omega) (by rw [hlen]; exact pairPos_lt (by omega) (by omega))
                (by omega) hσv
    · cases h; exact ⟨rfl, hin, rfl⟩

/-- non-vacuity: 5 marks, the marks 1 and 3 given, first open variable `d(0,3)` (`ni = 2`): only `d(0,1) = 1` is
    counted as used, the smallest other positive integers are 2, 3, 4 with sums 2, 5, 9, and the lower bounds of
    `d(1,3)`, `d(1,4)`, `d(2,3)`, `d(2,4)`, `d(3,4)` are raised to 5, 9, 2, 5, 2 -/
example :
    (match golombPrune (golombProblem 5 false) [0, 1, 2, 3, 4, 5, 6, 7, 8, 9]
        { top := { doms := [(1, 1), (3, 3), (7, 55), (11, 55), (2, 2), (1, 55), (3, 55), (1, 55), (3, 55), (1, 55)], ne := [] },
          below := [], trig := [], stats := {} } with
      | .ok (b, s) => (b, s.top.doms)
      | .error _ => (false, [])) =
    (true, [(1, 1), (3, 3), (7, 55), (11, 55), (2, 2), (5, 55), (9, 55), (2, 55), (5, 55), (2, 55)]) := by
  decide +kernel

end Nucs
