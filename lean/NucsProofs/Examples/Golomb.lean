import NucsProofs.Examples.Common
/-!
  C20 for `GolombProblem(mark_nb, symmetry_breaking)`, `n = mark_nb ≥ 2`: the solutions of the posted
  model (`symmetry_breaking=False`) are exactly the distance tables `σ[index(n, i, j)] = m j − m i` of
  the Golomb rulers `0 = m 0 < … < m (n-1)` (all distances distinct) that respect the domain bounds of
  `init_domains` (`GolombBounds`: the table of optimal shorter rulers from below, `sum_first(dist_nb)`
  from above).  The redundant `affine_leq` constraints and the lower bound of the ruler length are
  derived from the ruler conditions (`gap_sum`: `k` distinct positive gaps add up to at least
  `1 + … + k`).  With `symmetry_breaking=True` exactly `d(0, 1) < d(n-2, n-1)` is added.
  No hypothesis `n ≤ 15` is needed (`GOLOMB_LENGTHS` is read with default 0, in the model and in
  `GolombBounds` alike; for `mark_nb > 15` the Python constructor reads beyond the 15-entry table).
-/
namespace Nucs
open Ex

/-- `k (k + 1) / 2 = 1 + 2 + … + k` -/
def triangular (k : Nat) : Nat := k * (k + 1) / 2

namespace Ex

/-! ### triangular numbers -/

theorem triangular_succ (k : Nat) : triangular (k + 1) = triangular k + (k + 1) := by
  unfold triangular
  have : (k + 1) * (k + 1 + 1) = k * (k + 1) + (k + 1) * 2 := by
    rw [Nat.mul_comm k (k + 1), ← Nat.mul_add]
  rw [this, Nat.add_mul_div_right _ _ (by decide : 0 < 2)]

theorem triangular_zero : triangular 0 = 0 := rfl

theorem sumFirst_nat (k : Nat) : sumFirst (k : Int) = (triangular k : Nat) := by
  unfold sumFirst triangular
  rw [Int.fdiv_eq_ediv_of_nonneg _ (by decide)]
  have : (k : Int) * ((k : Int) + 1) = ((k * (k + 1) : Nat) : Int) := by
    rw [Int.natCast_mul]; rfl
  rw [this]
  exact (Int.natCast_ediv _ 2).symm

/-! ### a list of distinct positive integers sums to at least a triangular number -/

theorem sum_erase_of_mem (x : Int) : ∀ (l : List Int), x ∈ l → l.sum = x + (l.erase x).sum
  | [], h => by simp at h
  | y :: ys, h => by
    by_cases hy : y = x
    · subst hy; simp
    · have hx : x ∈ ys := by
        rcases List.mem_cons.1 h with h | h
        · exact absurd h.symm hy
        · exact h
      rw [List.erase_cons]
      simp only [beq_iff_eq, hy, if_false, List.sum_cons]
      rw [sum_erase_of_mem x ys hx]; omega

theorem nodup_bounded_sum : ∀ (b : Nat) (l : List Int), l.Nodup → (∀ x ∈ l, 1 ≤ x ∧ x ≤ (b : Int)) →
    l.length ≤ b ∧ ((triangular l.length : Nat) : Int) ≤ l.sum
  | 0, l, _, hb => by
    cases l with
    | nil => simp [triangular]
    | cons x xs => have := hb x (by simp); omega
  | b + 1, l, hnd, hb => by
    by_cases hm : ((b + 1 : Nat) : Int) ∈ l
    · have hnd' := hnd.erase ((b + 1 : Nat) : Int)
      have hb' : ∀ x ∈ l.erase ((b + 1 : Nat) : Int), 1 ≤ x ∧ x ≤ (b : Int) := by
        intro x hx
        have := (hnd.mem_erase_iff).1 hx
        have h2 := hb x this.2
        have h3 := this.1
        omega
      have ih := nodup_bounded_sum b _ hnd' hb'
      have hlen := List.length_erase_of_mem hm
      have hpos : 0 < l.length := List.length_pos_of_mem hm
      have hl : l.length = (l.erase ((b + 1 : Nat) : Int)).length + 1 := by omega
      rw [sum_erase_of_mem _ l hm, hl, triangular_succ]
      omega
    · have hb' : ∀ x ∈ l, 1 ≤ x ∧ x ≤ (b : Int) := by
        intro x hx
        have h2 := hb x hx
        have : x ≠ ((b + 1 : Nat) : Int) := fun h => hm (h ▸ hx)
        omega
      have ih := nodup_bounded_sum b l hnd hb'
      omega

theorem le_sum_of_mem : ∀ (l : List Int), (∀ x ∈ l, 1 ≤ x) → ∀ x ∈ l, x ≤ l.sum
  | [], _, x, hx => by simp at hx
  | y :: ys, h, x, hx => by
    have hnn : 0 ≤ ys.sum := by
      cases ys with
      | nil => simp
      | cons z zs =>
        have := le_sum_of_mem (z :: zs) (fun x hx => h x (List.mem_cons_of_mem _ hx)) z (by simp)
        have := h z (by simp)
        omega
    rw [List.sum_cons]
    rcases List.mem_cons.1 hx with rfl | hx
    · omega
    · have := le_sum_of_mem ys (fun x hx => h x (List.mem_cons_of_mem _ hx)) x hx
      have := h y (by simp)
      omega

/-- `k` distinct positive integers add up to at least `1 + 2 + … + k` -/
theorem triangular_le_sum (l : List Int) (hnd : l.Nodup) (hpos : ∀ x ∈ l, 1 ≤ x) :
    ((triangular l.length : Nat) : Int) ≤ l.sum := by
  have hs : ∀ x ∈ l, 1 ≤ x ∧ x ≤ ((l.sum.toNat : Nat) : Int) := by
    intro x hx
    have := le_sum_of_mem l hpos x hx
    have := hpos x hx
    omega
  exact (nodup_bounded_sum _ l hnd hs).2

/-! ### indexing a `flatMap` over `List.range` with rows of varying length -/

/-- the start of row `i`: the total length of the rows before it -/
def offs (len : Nat → Nat) : Nat → Nat
  | 0 => 0
  | i + 1 => offs len i + len i

theorem offs_mono (len : Nat → Nat) {i : Nat} : ∀ {r : Nat}, i < r → offs len i + len i ≤ offs len r
  | 0, h => by omega
  | r + 1, h => by
    simp only [offs]
    rcases Nat.lt_or_ge i r with h1 | h1
    · have := offs_mono len h1; omega
    · have : i = r := by omega
      subst this; omega

theorem length_flatMap_range {β : Type} (f : Nat → List β) (len : Nat → Nat)
    (hl : ∀ i, (f i).length = len i) : ∀ r, ((List.range r).flatMap f).length = offs len r
  | 0 => by simp [offs]
  | r + 1 => by
    rw [List.range_succ, List.flatMap_append, List.length_append, length_flatMap_range f len hl r]
    simp [offs, hl]

theorem getElem?_flatMap_range {β : Type} (f : Nat → List β) (len : Nat → Nat)
    (hl : ∀ i, (f i).length = len i) {i k : Nat} (hk : k < len i) :
    ∀ {r : Nat}, i < r → ((List.range r).flatMap f)[offs len i + k]? = (f i)[k]?
  | 0, h => by omega
  | r + 1, h => by
    rw [List.range_succ, List.flatMap_append]
    rcases Nat.lt_or_ge i r with h1 | h1
    · have := offs_mono len h1
      rw [List.getElem?_append_left (by rw [length_flatMap_range f len hl]; omega)]
      exact getElem?_flatMap_range f len hl hk h1
    · have : i = r := by omega
      subst this
      rw [List.getElem?_append_right (by rw [length_flatMap_range f len hl]; omega),
        length_flatMap_range f len hl]
      simp

theorem offs_surj (len : Nat → Nat) {k : Nat} : ∀ {r : Nat}, k < offs len r →
    ∃ i t, i < r ∧ t < len i ∧ k = offs len i + t
  | 0, h => by simp [offs] at h
  | r + 1, h => by
    simp only [offs] at h
    rcases Nat.lt_or_ge k (offs len r) with h1 | h1
    · obtain ⟨i, t, hi, ht, he⟩ := offs_surj len h1
      exact ⟨i, t, by omega, ht, he⟩
    · exact ⟨r, k - offs len r, by omega, by omega, by omega⟩

end Ex

/-! ### the statement -/

/-- the position of the pair `(i, j)`, `i < j < n`, in the loop order
    `for i in range(n - 1): for j in range(i + 1, n)`: the rows `0 … i-1` hold
    `(n-1) + (n-2) + … + (n-i) = i n − i (i+1) / 2` pairs, and `j − i − 1` pairs precede `(i, j)` in row `i` -/
def pairPos (n i j : Nat) : Nat := i * n - triangular i + (j - i - 1)

/-- the table of the pairwise distances `m j − m i`, `i < j < n`, of the marks `m 0, …, m (n-1)`, in the
    loop order `for i in range(n - 1): for j in range(i + 1, n)` -/
def distTable (n : Nat) (m : Nat → Int) : List Int :=
  (List.range (n - 1)).flatMap (fun i => (rangeAB (i + 1) n).map (fun j => m j - m i))

namespace Ex

/-- the pairs `(i, j)` in loop order -/
def gPairs (n : Nat) : List (Nat × Nat) :=
  (List.range (n - 1)).flatMap (fun (i : Nat) => (rangeAB (i + 1) n).map (fun (j : Nat) => (i, j)))

def gRowLen (n : Nat) (i : Nat) : Nat := n - 1 - i

theorem offs_gRow (n : Nat) : ∀ i, i ≤ n → offs (gRowLen n) i + triangular i = i * n
  | 0, _ => by simp [offs, triangular]
  | i + 1, h => by
    have := offs_gRow n i (by omega)
    simp only [offs, gRowLen, triangular_succ, Nat.add_mul]
    omega

theorem pairPos_eq {n i j : Nat} (hij : i < j) (hj : j < n) :
    pairPos n i j = offs (gRowLen n) i + (j - i - 1) := by
  have := offs_gRow n i (by omega)
  unfold pairPos
  omega

theorem gRow_length (n i : Nat) : ((rangeAB (i + 1) n).map (fun (j : Nat) => (i, j))).length = gRowLen n i := by
  simp [rangeAB, gRowLen]; omega

theorem gPairs_length (n : Nat) : (gPairs n).length = triangular (n - 1) := by
  unfold gPairs
  rw [length_flatMap_range _ _ (gRow_length n)]
  have := offs_gRow n (n - 1) (by omega)
  have h2 : triangular (n - 1) + triangular (n - 1) = (n - 1) * n := by
    cases n with
    | zero => simp [triangular]
    | succ k =>
      simp only [Nat.add_sub_cancel]
      unfold triangular
      have : k * (k + 1) % 2 = 0 := by
        rcases Nat.mod_two_eq_zero_or_one k with h | h
        · rw [Nat.mul_mod, h]; simp
        · rw [Nat.mul_mod, Nat.add_mod, h]
      omega
  omega

theorem gPairs_getElem? {n i j : Nat} (hij : i < j) (hj : j < n) :
    (gPairs n)[pairPos n i j]? = some (i, j) := by
  rw [pairPos_eq hij hj]
  unfold gPairs
  rw [getElem?_flatMap_range _ _ (gRow_length n) (by unfold gRowLen; omega) (by omega)]
  simp only [List.getElem?_map, rangeAB]
  rw [List.getElem?_range' (by omega)]
  simp; omega

theorem pairPos_lt {n i j : Nat} (hij : i < j) (hj : j < n) : pairPos n i j < triangular (n - 1) := by
  rw [← gPairs_length]
  exact (List.getElem?_eq_some_iff.1 (gPairs_getElem? hij hj)).1

theorem pairPos_inj {n i j k l : Nat} (hij : i < j) (hj : j < n) (hkl : k < l) (hl : l < n)
    (h : pairPos n i j = pairPos n k l) : i = k ∧ j = l := by
  have h1 := gPairs_getElem? hij hj
  have h2 := gPairs_getElem? hkl hl
  rw [h, h2] at h1
  simpa [eq_comm] using h1

theorem pairPos_surj {n k : Nat} (hk : k < triangular (n - 1)) : ∃ i j, i < j ∧ j < n ∧ k = pairPos n i j := by
  have h0 : k < offs (gRowLen n) (n - 1) := by
    rw [← gPairs_length] at hk
    unfold gPairs at hk
    rwa [length_flatMap_range _ _ (gRow_length n)] at hk
  obtain ⟨i, t, hi, ht, he⟩ := offs_surj _ h0
  unfold gRowLen at ht
  refine ⟨i, i + 1 + t, by omega, by omega, ?_⟩
  rw [pairPos_eq (by omega) (by omega), he]
  omega

theorem mem_gPairs {n : Nat} {p : Nat × Nat} : p ∈ gPairs n ↔ p.1 < p.2 ∧ p.2 < n := by
  obtain ⟨a, b⟩ := p
  simp only [gPairs, List.mem_flatMap, List.mem_range, List.mem_map, mem_rangeAB, Prod.mk.injEq]
  constructor
  · rintro ⟨i, hi, j, hj, rfl, rfl⟩; omega
  · rintro ⟨h1, h2⟩; exact ⟨a, by omega, b, by omega, rfl, rfl⟩

theorem distTable_eq_map (n : Nat) (m : Nat → Int) :
    distTable n m = (gPairs n).map (fun p => m p.2 - m p.1) := by
  simp [distTable, gPairs, List.map_flatMap, List.map_map, Function.comp_def]

theorem distTable_length (n : Nat) (m : Nat → Int) : (distTable n m).length = triangular (n - 1) := by
  rw [distTable_eq_map, List.length_map, gPairs_length]

/-- a list is the distance table of `m` iff it has the right length and holds `m j − m i` at the
    position of each pair -/
theorem eq_distTable_iff (n : Nat) (m : Nat → Int) (σ : List Int) :
    σ = distTable n m ↔
      σ.length = triangular (n - 1) ∧ ∀ i j, i < j → j < n → getI σ (pairPos n i j) = m j - m i := by
  constructor
  · rintro rfl
    refine ⟨distTable_length n m, fun i j hij hj => ?_⟩
    rw [distTable_eq_map]
    simp [getI, List.getD_eq_getElem?_getD, List.getElem?_map, gPairs_getElem? hij hj]
  · rintro ⟨hl, h⟩
    apply List.ext_getElem
    · rw [hl, distTable_length]
    · intro k h1 h2
      obtain ⟨i, j, hij, hj, rfl⟩ := pairPos_surj (hl ▸ h1)
      have e1 := h i j hij hj
      rw [getI_eq_getElem h1] at e1
      rw [e1]
      have e2 : (distTable n m)[pairPos n i j]? = some (m j - m i) := by
        rw [distTable_eq_map]
        simp [List.getElem?_map, gPairs_getElem? hij hj]
      exact (Option.some.inj ((List.getElem?_eq_getElem h2).symm.trans e2)).symm

/-! ### the gaps outside a segment of a ruler -/

theorem sum_map_range' (f : Nat → Int) : ∀ (k s : Nat), ((List.range' s k).map f).sum = sumFrom f s k
  | 0, _ => rfl
  | k + 1, s => by
    simp only [List.range'_succ, List.map_cons, List.sum_cons, sumFrom]
    rw [sum_map_range' f k (s + 1)]

theorem sumFrom_tele (m : Nat → Int) : ∀ (k s : Nat), sumFrom (fun t => m (t + 1) - m t) s k = m (s + k) - m s
  | 0, _ => by simp [sumFrom]
  | k + 1, s => by
    simp only [sumFrom]
    rw [sumFrom_tele m k (s + 1)]
    have : s + 1 + k = s + (k + 1) := by omega
    rw [this]; omega

/-- on a ruler whose consecutive gaps are pairwise distinct, the `i + (n-1-j)` gaps outside the
    segment `[i, j]` add up to at least `1 + 2 + … + (i + (n-1-j))` -/
theorem gap_sum (n : Nat) (m : Nat → Int) (hinc : ∀ t, t + 1 < n → m t < m (t + 1))
    (hdist : ∀ s t, s < t → t + 1 < n → m (s + 1) - m s ≠ m (t + 1) - m t)
    {i j : Nat} (hij : i ≤ j) (hj : j < n) :
    ((triangular (i + (n - 1 - j)) : Nat) : Int) ≤ (m i - m 0) + (m (n - 1) - m j) := by
  let g : Nat → Int := fun t => m (t + 1) - m t
  let idx : List Nat := List.range' 0 i ++ List.range' j (n - 1 - j)
  have hidx : ∀ t ∈ idx, t + 1 < n := by
    intro t ht
    simp only [idx, List.mem_append, List.mem_range'_1] at ht
    omega
  have hsorted : idx.Pairwise (· < ·) := by
    simp only [idx]
    rw [List.pairwise_append]
    refine ⟨List.pairwise_lt_range' _, List.pairwise_lt_range' _, fun a ha b hb => ?_⟩
    simp only [List.mem_range'_1] at ha hb
    omega
  have hnd : (idx.map g).Nodup := by
    rw [List.Nodup, List.pairwise_map]
    refine List.Pairwise.imp_of_mem ?_ hsorted
    intro a b _ hb hab
    exact hdist a b hab (hidx b hb)
  have hpos : ∀ x ∈ idx.map g, 1 ≤ x := by
    intro x hx
    obtain ⟨t, ht, rfl⟩ := List.mem_map.1 hx
    have := hinc t (hidx t ht)
    simp only [g]
    omega
  have h := triangular_le_sum _ hnd hpos
  have hlen : (idx.map g).length = i + (n - 1 - j) := by simp [idx]
  have hsum : (idx.map g).sum = (m i - m 0) + (m (n - 1) - m j) := by
    simp only [idx, List.map_append, List.sum_append, sum_map_range', g, sumFrom_tele]
    have : j + (n - 1 - j) = n - 1 := by omega
    rw [this, Nat.zero_add]
  rw [hlen, hsum] at h
  exact h

theorem getI_ne_of_nodup {σ : List Int} (h : σ.Nodup) {a b : Nat} (ha : a < σ.length)
    (hb : b < σ.length) (hab : a ≠ b) : getI σ a ≠ getI σ b := by
  have := (nodup_iff_getI σ).1 h
  rcases Nat.lt_or_gt_of_ne hab with h1 | h1
  · exact this a b h1 hb
  · exact fun e => this b a h1 ha e.symm

/-! ### the posted model -/

theorem gIndex_eq {n i j : Nat} (hij : i < j) (hj : j < n) : gIndex n i j = pairPos n i j := by
  have := offs_gRow n i (by omega)
  unfold gIndex pairPos
  rw [sumFirst_nat, ← Int.natCast_mul]
  omega

/-- the lower bound of the domain of `d(i, j)` -/
def gLower (n i j : Nat) : Int :=
  if j - i + 1 < n then golombLengths.getD (j - i + 1) 0 else sumFirst ((j : Int) - i)

def gDistNb (n : Nat) : Nat := (sumFirst ((n : Int) - 1)).toNat

def gShr (n : Nat) : Box := (gPairs n).map (fun (i, j) => (gLower n i j, sumFirst (gDistNb n)))

def gEqs (n : Nat) : List RawC :=
  (rangeAB 1 (n - 1)).flatMap (fun (i : Nat) =>
    (rangeAB (i + 1) n).map (fun (j : Nat) =>
      (⟨[gIndex n 0 j, gIndex n 0 i, gIndex n i j], .affineEq, [1, -1, -1, 0]⟩ : RawC)))

def gRed (n : Nat) : List RawC :=
  (List.range (n - 1)).flatMap (fun (i : Nat) =>
    (rangeAB (i + 1) n).flatMap (fun (j : Nat) =>
      if j - i < n - 1 then
        [ (⟨[gIndex n i j, gIndex n 0 (n - 1)], .affineLeq,
            [1, -1, -(sumFirst ((n : Int) - 1 - ((j : Int) - i)))]⟩ : RawC) ]
      else []))

def gSb (n : Nat) : List RawC :=
  [ ⟨[gIndex n 0 1, gIndex n (n - 2) (n - 1)], .affineLeq, [1, -1, -1]⟩ ]

theorem golomb_eq (n : Nat) (sb : Bool) : golombProblem n sb =
    mkProblem (gShr n) (idVars (gShr n).length)
      (gEqs n ++ [ ⟨List.range (gShr n).length, .alldifferent, []⟩ ] ++ gRed n ++
        (if sb && decide (2 < n) then gSb n else [])) := rfl

theorem gShr_length (n : Nat) : (gShr n).length = triangular (n - 1) := by
  rw [gShr, List.length_map, gPairs_length]

theorem gDistNb_eq {n : Nat} (hn : 1 ≤ n) : sumFirst (gDistNb n) = ((triangular (triangular (n - 1)) : Nat) : Int) := by
  have : (n : Int) - 1 = ((n - 1 : Nat) : Int) := by omega
  rw [gDistNb, this, sumFirst_nat (n - 1), Int.toNat_natCast, sumFirst_nat]

theorem getDom_gShr {n i j : Nat} (hn : 1 ≤ n) (hij : i < j) (hj : j < n) :
    getDom (gShr n) (pairPos n i j) = (gLower n i j, ((triangular (triangular (n - 1)) : Nat) : Int)) := by
  simp [getDom, gShr, List.getD_eq_getElem?_getD, List.getElem?_map, gPairs_getElem? hij hj,
    gDistNb_eq hn]

theorem inBox_gShr {n : Nat} (hn : 1 ≤ n) (σ : List Int) :
    inBox σ (gShr n) ↔ σ.length = triangular (n - 1) ∧ ∀ i j, i < j → j < n →
      gLower n i j ≤ getI σ (pairPos n i j) ∧ getI σ (pairPos n i j) ≤ ((triangular (triangular (n - 1)) : Nat) : Int) := by
  rw [inBox_iff, gShr_length]
  constructor
  · rintro ⟨hl, h⟩
    refine ⟨hl, fun i j hij hj => ?_⟩
    have := h _ (pairPos_lt hij hj)
    rwa [getDom_gShr hn hij hj] at this
  · rintro ⟨hl, h⟩
    refine ⟨hl, fun k hk => ?_⟩
    obtain ⟨i, j, hij, hj, rfl⟩ := pairPos_surj hk
    rw [getDom_gShr hn hij hj]
    exact h i j hij hj

theorem gEqs_iff {n : Nat} (σ : List Int) :
    (∀ c ∈ gEqs n, rel c.alg c.params (vals (idVars (triangular (n - 1))) σ c.vars)) ↔
      ∀ i j, 1 ≤ i → i < j → j < n →
        getI σ (pairPos n 0 j) - getI σ (pairPos n 0 i) = getI σ (pairPos n i j) := by
  have key : ∀ i j, 1 ≤ i → i < j → j < n →
      (rel .affineEq [1, -1, -1, 0]
          (vals (idVars (triangular (n - 1))) σ [gIndex n 0 j, gIndex n 0 i, gIndex n i j]) ↔
        getI σ (pairPos n 0 j) - getI σ (pairPos n 0 i) = getI σ (pairPos n i j)) := by
    intro i j hi hij hj
    rw [gIndex_eq (by omega) hj, gIndex_eq hi (by omega), gIndex_eq hij hj, vals_id]
    · show dot [1, -1, -1] [_, _, _] = 0 ↔ _
      simp only [dot]
      omega
    · intro v hv
      simp only [List.mem_cons, List.not_mem_nil, or_false] at hv
      rcases hv with rfl | rfl | rfl
      · exact pairPos_lt (by omega) hj
      · exact pairPos_lt hi (by omega)
      · exact pairPos_lt hij hj
  constructor
  · intro h i j hi hij hj
    refine (key i j hi hij hj).1 (h ⟨_, _, _⟩ ?_)
    simp only [gEqs, List.mem_flatMap, List.mem_map, mem_rangeAB]
    exact ⟨i, ⟨hi, by omega⟩, j, ⟨by omega, hj⟩, rfl⟩
  · intro h c hc
    simp only [gEqs, List.mem_flatMap, List.mem_map, mem_rangeAB] at hc
    obtain ⟨i, ⟨hi, _⟩, j, ⟨hij, hj⟩, rfl⟩ := hc
    exact (key i j hi (by omega) hj).2 (h i j hi (by omega) hj)

theorem gRed_iff {n : Nat} (hn : 2 ≤ n) (σ : List Int) :
    (∀ c ∈ gRed n, rel c.alg c.params (vals (idVars (triangular (n - 1))) σ c.vars)) ↔
      ∀ i j, i < j → j < n → j - i < n - 1 →
        getI σ (pairPos n i j) + ((triangular (n - 1 - (j - i)) : Nat) : Int) ≤ getI σ (pairPos n 0 (n - 1)) := by
  have key : ∀ i j, i < j → j < n →
      (rel .affineLeq [1, -1, -(sumFirst ((n : Int) - 1 - ((j : Int) - i)))]
          (vals (idVars (triangular (n - 1))) σ [gIndex n i j, gIndex n 0 (n - 1)]) ↔
        getI σ (pairPos n i j) + ((triangular (n - 1 - (j - i)) : Nat) : Int) ≤ getI σ (pairPos n 0 (n - 1))) := by
    intro i j hij hj
    have hc : (n : Int) - 1 - ((j : Int) - i) = ((n - 1 - (j - i) : Nat) : Int) := by omega
    rw [gIndex_eq hij hj, gIndex_eq (show 0 < n - 1 by omega) (by omega), vals_id, hc, sumFirst_nat]
    · show dot [1, -1] [_, _] ≤ -_ ↔ _
      simp only [dot]
      omega
    · intro v hv
      simp only [List.mem_cons, List.not_mem_nil, or_false] at hv
      rcases hv with rfl | rfl
      · exact pairPos_lt hij hj
      · exact pairPos_lt (by omega) (by omega)
  constructor
  · intro h i j hij hj hd
    refine (key i j hij hj).1 (h ⟨_, _, _⟩ ?_)
    simp only [gRed, List.mem_flatMap, List.mem_range, mem_rangeAB]
    exact ⟨i, by omega, j, ⟨by omega, hj⟩, by simp [hd]⟩
  · intro h c hc
    simp only [gRed, List.mem_flatMap, List.mem_range, mem_rangeAB] at hc
    obtain ⟨i, _, j, ⟨hij, hj⟩, hc⟩ := hc
    split at hc
    · rename_i hd
      simp only [List.mem_cons, List.not_mem_nil, or_false] at hc
      subst hc
      exact (key i j (by omega) hj).2 (h i j (by omega) hj hd)
    · simp at hc

theorem gSb_iff {n : Nat} (hn : 2 ≤ n) (σ : List Int) :
    (∀ c ∈ gSb n, rel c.alg c.params (vals (idVars (triangular (n - 1))) σ c.vars)) ↔
      getI σ (pairPos n 0 1) < getI σ (pairPos n (n - 2) (n - 1)) := by
  simp only [gSb, List.mem_cons, List.not_mem_nil, or_false, forall_eq]
  rw [gIndex_eq (by omega) (by omega), gIndex_eq (show n - 2 < n - 1 by omega) (by omega), vals_id]
  · show dot [1, -1] [_, _] ≤ -1 ↔ _
    simp only [dot]
    omega
  · intro v hv
    simp only [List.mem_cons, List.not_mem_nil, or_false] at hv
    rcases hv with rfl | rfl
    · exact pairPos_lt (by omega) (by omega)
    · exact pairPos_lt (by omega) (by omega)

/-- the posted model, constraint family by constraint family -/
theorem sol_golomb (n : Nat) (hn : 2 ≤ n) (sb : Bool) (σ : List Int) :
    Sol (golombProblem n sb) σ ↔
      (σ.length = triangular (n - 1) ∧ ∀ i j, i < j → j < n →
        gLower n i j ≤ getI σ (pairPos n i j) ∧ getI σ (pairPos n i j) ≤ ((triangular (triangular (n - 1)) : Nat) : Int)) ∧
      (∀ i j, 1 ≤ i → i < j → j < n →
        getI σ (pairPos n 0 j) - getI σ (pairPos n 0 i) = getI σ (pairPos n i j)) ∧
      σ.Nodup ∧
      (∀ i j, i < j → j < n → j - i < n - 1 →
        getI σ (pairPos n i j) + ((triangular (n - 1 - (j - i)) : Nat) : Int) ≤ getI σ (pairPos n 0 (n - 1))) ∧
      (sb = true → 2 < n → getI σ (pairPos n 0 1) < getI σ (pairPos n (n - 2) (n - 1))) := by
  rw [golomb_eq, sol_mk, inBox_gShr (by omega), gShr_length]
  simp only [List.mem_append, or_imp, forall_and, List.mem_singleton, forall_eq]
  rw [gEqs_iff, gRed_iff hn]
  have hall : σ.length = triangular (n - 1) →
      (rel .alldifferent [] (vals (idVars (triangular (n - 1))) σ (List.range (triangular (n - 1)))) ↔ σ.Nodup) := by
    intro hl
    rw [vals_id _ _ (fun v hv => List.mem_range.1 hv)]
    conv => lhs; arg 3; rw [← hl, map_getI_range]
    rfl
  have hsb : (∀ c ∈ (if (sb && decide (2 < n)) = true then gSb n else []),
        rel c.alg c.params (vals (idVars (triangular (n - 1))) σ c.vars)) ↔
      (sb = true → 2 < n → getI σ (pairPos n 0 1) < getI σ (pairPos n (n - 2) (n - 1))) := by
    cases sb
    · simp
    · by_cases h2 : 2 < n
      · simp only [Bool.true_and, decide_eq_true_eq, h2, if_true, gSb_iff hn, true_implies]
      · simp [h2]
  rw [hsb]
  constructor
  · rintro ⟨⟨hl, hb⟩, ⟨⟨h1, h2⟩, h3⟩, h4⟩
    exact ⟨⟨hl, hb⟩, h1, (hall hl).1 h2, h3, h4⟩
  · rintro ⟨⟨hl, hb⟩, h1, h2, h3, h4⟩
    exact ⟨⟨hl, hb⟩, ⟨⟨h1, (hall hl).2 h2⟩, h3⟩, h4⟩

theorem gLower_succ (n i : Nat) : 1 ≤ gLower n i (i + 1) := by
  have h1 : i + 1 - i + 1 = 2 := by omega
  have h2 : ((i + 1 : Nat) : Int) - (i : Int) = 1 := by omega
  unfold gLower
  rw [h1, h2]
  split <;> decide

end Ex

/-- the bounds the constructor puts on the distances (`init_domains`), which do not follow from the
    ruler conditions by the arguments of this file:

    * `d(i, j) ≥ GOLOMB_LENGTHS[j − i + 1]` when `j − i + 1 < n`: a sub-ruler of `k < n` marks is at
      least as long as the table's optimal ruler of `k` marks (read with default 0 beyond the 15 entries
      of the table);
    * `d(i, j) ≤ sum_first(n (n − 1) / 2)`, the constructor's upper bound of every domain.

    (The remaining lower bound `d(0, n-1) ≥ sum_first(n − 1)` IS derived: see `C20_golomb`.) -/
def GolombBounds (n : Nat) (σ : List Int) : Prop :=
  ∀ i j, i < j → j < n →
    (j - i + 1 < n → golombLengths.getD (j - i + 1) 0 ≤ getI σ (pairPos n i j)) ∧
    getI σ (pairPos n i j) ≤ ((triangular (triangular (n - 1)) : Nat) : Int)

/-- `σ` is the distance table of a Golomb ruler with `n` marks `0 = m 0 < m 1 < … < m (n-1)`:
    `σ` lists the distances `m j − m i` (`i < j < n`, loop order of the constructor), no distance occurs
    twice, and the constructor's domain bounds hold -/
def ValidGolomb (n : Nat) (σ : List Int) : Prop :=
  (∃ m : Nat → Int, m 0 = 0 ∧ (∀ i j, i < j → j < n → m i < m j) ∧ σ = distTable n m) ∧
  σ.Nodup ∧ GolombBounds n σ

theorem ValidGolomb.length {n : Nat} {σ : List Int} (h : ValidGolomb n σ) : σ.length = n * (n - 1) / 2 := by
  obtain ⟨⟨m, _, _, rfl⟩, _⟩ := h
  rw [distTable_length, triangular]
  cases n with
  | zero => rfl
  | succ k => rw [Nat.add_sub_cancel, Nat.mul_comm]

/-- the same ruler, with the formulation `d(0, j) − d(0, i) = d(i, j)`: in a valid table the entry at
    the position of `(i, j)` is `m j − m i` -/
theorem ValidGolomb.dist {n : Nat} {σ : List Int} (h : ValidGolomb n σ) :
    ∀ i j, 1 ≤ i → i < j → j < n →
      getI σ (pairPos n 0 j) - getI σ (pairPos n 0 i) = getI σ (pairPos n i j) := by
  obtain ⟨⟨m, _, _, hσ⟩, _⟩ := h
  have hg := ((eq_distTable_iff n m σ).1 hσ).2
  intro i j hi hij hj
  rw [hg 0 j (by omega) hj, hg 0 i hi (by omega), hg i j hij hj]
  omega

/-- C20 (Golomb ruler, no symmetry breaking): for `n ≥ 2` the posted model accepts exactly the
    distance tables of the Golomb rulers with `n` marks that respect the constructor's domain bounds.
    The redundant constraints `d(i, j) + sum_first(n − 1 − (j − i)) ≤ d(0, n − 1)` and the lower bound
    `sum_first(n − 1)` of `d(0, n − 1)` are IMPLIED (the gaps outside `[i, j]` are distinct positive
    integers), so they do not appear on the right-hand side.  No hypothesis `n ≤ 15`: beyond the table
    the lookups default to 0 on both sides. -/
theorem C20_golomb (n : Nat) (hn : 2 ≤ n) (σ : List Int) :
    Sol (golombProblem n false) σ ↔ ValidGolomb n σ := by
  rw [sol_golomb n hn]
  constructor
  · rintro ⟨⟨hl, hb⟩, heq, hnd, _, _⟩
    let m : Nat → Int := fun j => if j = 0 then 0 else getI σ (pairPos n 0 j)
    have hm : ∀ i j, i < j → j < n → getI σ (pairPos n i j) = m j - m i := by
      intro i j hij hj
      have hj0 : j ≠ 0 := by omega
      by_cases hi : i = 0
      · subst hi; simp [m, hj0]
      · have := heq i j (by omega) hij hj
        simp only [m, hi, hj0, if_false]
        omega
    have hcons : ∀ t, t + 1 < n → m t < m (t + 1) := by
      intro t ht
      have h1 := (hb t (t + 1) (by omega) ht).1
      have h2 := gLower_succ n t
      have h3 := hm t (t + 1) (by omega) ht
      omega
    have hinc : ∀ d i, i + d + 1 < n → m i < m (i + d + 1) := by
      intro d
      induction d with
      | zero => intro i hi; exact hcons i hi
      | succ d ih =>
        intro i hi
        have h1 := ih i (by omega)
        have h2 := hcons (i + d + 1) (by omega)
        have : i + (d + 1) + 1 = i + d + 1 + 1 := by omega
        rw [this]; omega
    refine ⟨⟨m, by simp [m], ?_, (eq_distTable_iff n m σ).2 ⟨hl, hm⟩⟩, hnd, ?_⟩
    · intro i j hij hj
      obtain ⟨d, rfl⟩ : ∃ d, j = i + d + 1 := ⟨j - i - 1, by omega⟩
      exact hinc d i hj
    · intro i j hij hj
      have h := hb i j hij hj
      refine ⟨fun hlt => ?_, h.2⟩
      have := h.1
      rwa [gLower, if_pos hlt] at this
  · rintro ⟨⟨m, hm0, hinc, hσ⟩, hnd, hbd⟩
    obtain ⟨hl, hm⟩ := (eq_distTable_iff n m σ).1 hσ
    have hcons : ∀ t, t + 1 < n → m t < m (t + 1) := fun t ht => hinc t (t + 1) (by omega) ht
    have hdist : ∀ s t, s < t → t + 1 < n → m (s + 1) - m s ≠ m (t + 1) - m t := by
      intro s t hst ht
      rw [← hm s (s + 1) (by omega) (by omega), ← hm t (t + 1) (by omega) ht]
      refine getI_ne_of_nodup hnd ?_ ?_ ?_
      · rw [hl]; exact pairPos_lt (by omega) (by omega)
      · rw [hl]; exact pairPos_lt (by omega) ht
      · intro e
        have := (pairPos_inj (by omega) (by omega) (by omega) ht e).1
        omega
    have hgap : ∀ i j, i ≤ j → j < n →
        ((triangular (i + (n - 1 - j)) : Nat) : Int) ≤ (m i - m 0) + (m (n - 1) - m j) :=
      fun i j hij hj => gap_sum n m hcons hdist hij hj
    have hlast := hm 0 (n - 1) (by omega) (by omega)
    refine ⟨⟨hl, fun i j hij hj => ⟨?_, (hbd i j hij hj).2⟩⟩, ?_, hnd, ?_, by simp⟩
    · by_cases hlt : j - i + 1 < n
      · rw [gLower, if_pos hlt]
        exact (hbd i j hij hj).1 hlt
      · have hi : i = 0 := by omega
        have hj' : j = n - 1 := by omega
        subst hi
        subst hj'
        have hc : ((n - 1 : Nat) : Int) - ((0 : Nat) : Int) = ((n - 1 : Nat) : Int) := by omega
        rw [gLower, if_neg hlt, hc, sumFirst_nat, hlast]
        have := hgap 0 0 (by omega) (by omega)
        simpa using this
    · intro i j hi hij hj
      rw [hm 0 j (by omega) hj, hm 0 i hi (by omega), hm i j hij hj]
      omega
    · intro i j hij hj hd
      have h := hgap i j (by omega) hj
      have e : n - 1 - (j - i) = i + (n - 1 - j) := by omega
      rw [hm i j hij hj, hlast, e]
      omega

/-- C20 (Golomb ruler, symmetry breaking): the symmetry-breaking model adds exactly the constraint
    `d(0, 1) < d(n − 2, n − 1)` (first gap smaller than last gap) -/
theorem C20_golomb_sb (n : Nat) (hn : 3 ≤ n) (σ : List Int) :
    Sol (golombProblem n true) σ ↔
      Sol (golombProblem n false) σ ∧ getI σ (pairPos n 0 1) < getI σ (pairPos n (n - 2) (n - 1)) := by
  rw [sol_golomb n (by omega), sol_golomb n (by omega)]
  have h2 : 2 < n := by omega
  simp only [true_implies, Bool.false_eq_true, false_implies, and_true, h2]
  constructor
  · rintro ⟨h1, h2, h3, h4, h5⟩
    exact ⟨⟨h1, h2, h3, h4⟩, h5⟩
  · rintro ⟨⟨h1, h2, h3, h4⟩, h5⟩
    exact ⟨h1, h2, h3, h4, h5⟩

/-- hence every solution of the symmetry-breaking model is the distance table of a Golomb ruler -/
theorem C20_golomb_sb_two (σ : List Int) : Sol (golombProblem 2 true) σ ↔ Sol (golombProblem 2 false) σ := by
  rw [sol_golomb 2 (by decide), sol_golomb 2 (by decide)]
  simp

theorem C20_golomb_sb_valid (n : Nat) (hn : 2 ≤ n) (σ : List Int)
    (h : Sol (golombProblem n true) σ) : ValidGolomb n σ := by
  rcases Nat.lt_or_ge 2 n with h3 | h3
  · exact (C20_golomb n hn σ).1 ((C20_golomb_sb n h3 σ).1 h).1
  · have : n = 2 := by omega
    subst this
    exact (C20_golomb 2 hn σ).1 ((C20_golomb_sb_two σ).1 h)

/-- the optimal ruler `0, 1, 4, 6`: `d01, d02, d03, d12, d13, d23` -/
theorem validGolomb_4 : ValidGolomb 4 [1, 4, 6, 3, 5, 2] := by
  refine ⟨⟨fun j => getI [0, 1, 4, 6] j, by decide, ?_, by decide⟩, by decide, ?_⟩
  · have h : ∀ j, j < 4 → ∀ i, i < j → getI [0, 1, 4, 6] i < getI [0, 1, 4, 6] j := by decide
    exact fun i j hij hj => h j hj i hij
  · have h : ∀ j, j < 4 → ∀ i, i < j →
        (j - i + 1 < 4 → golombLengths.getD (j - i + 1) 0 ≤ getI [1, 4, 6, 3, 5, 2] (pairPos 4 i j)) ∧
        getI [1, 4, 6, 3, 5, 2] (pairPos 4 i j) ≤ ((triangular (triangular (4 - 1)) : Nat) : Int) := by decide
    exact fun i j hij hj => h j hj i hij

/-- non-vacuity: its distance table is accepted by the model, with and without symmetry breaking -/
example : Sol (golombProblem 4 false) [1, 4, 6, 3, 5, 2] :=
  (C20_golomb 4 (by decide) _).2 validGolomb_4

example : Sol (golombProblem 4 true) [1, 4, 6, 3, 5, 2] :=
  (C20_golomb_sb 4 (by decide) _).2 ⟨(C20_golomb 4 (by decide) _).2 validGolomb_4, by decide⟩

/-- the mirrored ruler `0, 2, 5, 6` is a Golomb ruler but is removed by the symmetry breaking -/
example : ¬ Sol (golombProblem 4 true) [2, 5, 6, 3, 4, 1] := by
  rw [C20_golomb_sb 4 (by decide)]
  exact fun h => absurd h.2 (by decide)

/-- the ruler `0, 1, 2, 3` is rejected: repeated distances -/
example : ¬ Sol (golombProblem 4 false) [1, 2, 3, 1, 2, 1] := by
  rw [C20_golomb 4 (by decide)]
  exact fun h => absurd h.2.1 (by decide)

end Nucs
