import NucsProofs.Examples.Common
/-!
  C20 for `SportsTournamentSchedulingProblem(n, symmetry_breaking)` (CSPLib prob026), `n` even.

  The model has `n/2 · (n-1) · 2` team variables (`team p w s = σ[p·(n-1)·2 + w·2 + s]`, period `p`,
  week `w`, slot `s`) followed by `n(n-1)/2` match variables (`matchOf p w = σ[teamVarNb + p·(n-1) + w]`).

  * `ValidSchedule n σ`   : the schedules of the tournament, from the documentation.
  * `C20_sports`          : `Sol (model n false) σ ↔ ValidSchedule n σ`.
  * `C20_sports_sb`       : `Sol (model n true) σ ↔ Sol (model n false) σ ∧ (first week fixed) ∧ (every week w,
                            exactly one period hosts the match 0 versus w+1)`; `C20_sports_sb_valid`.
  * `C20_sports_once_a_week`, `C20_sports_week_distinct`, `C20_sports_period_bounds`,
    `C20_sports_every_pair_once` : what a valid schedule entails (every team once a week, once or twice
    per period, every pair of teams exactly once).
  * `matchOrdinal_inj`, `matchOrdinal_range` : `match_ordinal` is injective on pairs `t1 < t2 < n` with
    values in `0 … n(n-1)/2 - 1`.

  The cardinality constraint of the model has capacities `1 … 2` (every team plays at least once and at
  most twice per period) where the documentation says "at most twice".  `ValidSchedule` states the
  documented bound; the lower bound is implied (`sts_at_least_once`: a team plays `n-1` games, at most
  two in each of the `n/2` periods).
-/
namespace Nucs
open Ex

/-! ### the decoded objects -/

/-- index of the team variable of period `p`, week `w`, slot `s` (`team_var_index`) -/
def teamIdx (n p w s : Nat) : Nat := p * ((n - 1) * 2) + w * 2 + s

/-- index of the match variable of period `p`, week `w` (`match_var_index`) -/
def matchIdx (n p w : Nat) : Nat := (n / 2) * (n - 1) * 2 + p * (n - 1) + w

/-- the team playing in period `p`, week `w`, slot `s` (slot 0: home, slot 1: away) -/
def team (n : Nat) (σ : List Int) (p w s : Nat) : Int := getI σ (teamIdx n p w s)

/-- the match variable of period `p`, week `w` -/
def matchOf (n : Nat) (σ : List Int) (p w : Nat) : Int := getI σ (matchIdx n p w)

/-- `match_ordinal(t1, t2)`: the rank of the pair `t1 < t2` in the lexicographic enumeration
    `(0,1), (0,2), …, (0,n-1), (1,2), …, (n-2,n-1)` of the `n(n-1)/2` pairs of teams -/
def matchOrdinal (n : Nat) (t1 t2 : Int) : Int :=
  (((n - 1) * n / 2 : Nat) : Int) - (((n : Int) - t1) * ((n : Int) - t1 - 1)) / 2 + t2 - t1 - 1

/-- the `n` team entries of week `w`, period by period -/
def weekTeams (n : Nat) (σ : List Int) (w : Nat) : List Int :=
  (List.range (n / 2)).flatMap (fun p => [team n σ p w 0, team n σ p w 1])

/-- the `2(n-1)` team entries of period `p`, week by week -/
def periodTeams (n : Nat) (σ : List Int) (p : Nat) : List Int :=
  (List.range (n - 1)).flatMap (fun w => [team n σ p w 0, team n σ p w 1])

/-- all the match variables, period by period -/
def allMatches (n : Nat) (σ : List Int) : List Int :=
  (List.range (n / 2)).flatMap (fun p => (List.range (n - 1)).map (fun w => matchOf n σ p w))

namespace Ex

/-! ### arithmetic of `match_ordinal` -/

/-- the number of pairs among `m` teams -/
def tri (m : Nat) : Nat := m * (m - 1) / 2

theorem tri_succ (m : Nat) : tri (m + 1) = tri m + m := by
  unfold tri
  cases m with
  | zero => rfl
  | succ k =>
    have e : (k + 1 + 1) * (k + 1 + 1 - 1) = (k + 1) * (k + 1 - 1) + 2 * (k + 1) := by
      have e1 : k + 1 + 1 - 1 = k + 1 := by omega
      have e2 : k + 1 - 1 = k := by omega
      rw [e1, e2, Nat.add_mul (k + 1) 1 (k + 1), Nat.mul_add (k + 1) k 1]
      omega
    rw [e, Nat.add_mul_div_left _ _ (by decide)]

theorem tri_mono {a b : Nat} (h : a ≤ b) : tri a ≤ tri b := by
  induction b with
  | zero =>
    have : a = 0 := by omega
    subst this; exact Nat.le_refl _
  | succ b ih =>
    rcases Nat.lt_or_ge a (b + 1) with h1 | h1
    · have := ih (by omega)
      rw [tri_succ]; omega
    · have : a = b + 1 := by omega
      subst this; exact Nat.le_refl _

/-- the number of pairs whose first team is smaller than `i` -/
def pairsBefore (n i : Nat) : Nat := tri n - tri (n - i)

theorem pairsBefore_succ {n i : Nat} (h : i < n) : pairsBefore n (i + 1) = pairsBefore n i + (n - i - 1) := by
  unfold pairsBefore
  have e : n - i = (n - (i + 1)) + 1 := by omega
  have h1 := tri_succ (n - (i + 1))
  rw [← e] at h1
  have h2 : tri (n - i) ≤ tri n := tri_mono (by omega)
  omega

theorem pairsBefore_mono {n : Nat} {a b : Nat} (h : a ≤ b) : pairsBefore n a ≤ pairsBefore n b := by
  unfold pairsBefore
  have h1 : tri (n - b) ≤ tri (n - a) := tri_mono (by omega)
  omega

theorem pairsBefore_le (n i : Nat) : pairsBefore n i ≤ tri n := by
  unfold pairsBefore; omega

theorem pairsBefore_self (n : Nat) : pairsBefore n n = tri n := by
  unfold pairsBefore
  have : tri (n - n) = 0 := by simp [tri]
  omega

/-- the ordinal as a natural number -/
def ordNat (n i j : Nat) : Nat := pairsBefore n i + (j - i - 1)

theorem ordNat_lt_block {n i j : Nat} (hij : i < j) (hj : j < n) : ordNat n i j < pairsBefore n (i + 1) := by
  rw [pairsBefore_succ (by omega)]
  unfold ordNat
  omega

theorem ordNat_lt {n i j : Nat} (hij : i < j) (hj : j < n) : ordNat n i j < tri n := by
  have h1 := ordNat_lt_block hij hj
  have h2 : pairsBefore n (i + 1) ≤ pairsBefore n n := pairsBefore_mono (by omega)
  rw [pairsBefore_self] at h2
  omega

theorem ordNat_inj {n i j i' j' : Nat} (hij : i < j) (hj : j < n) (hij' : i' < j') (hj' : j' < n)
    (h : ordNat n i j = ordNat n i' j') : i = i' ∧ j = j' := by
  have key : ∀ {a b a' b' : Nat}, a < b → b < n → a' < b' → b' < n → a < a' → ordNat n a b < ordNat n a' b' := by
    intro a b a' b' hab hb _ _ haa
    have h1 := ordNat_lt_block hab hb
    have h2 : pairsBefore n (a + 1) ≤ pairsBefore n a' := pairsBefore_mono (by omega)
    have h3 : pairsBefore n a' ≤ ordNat n a' b' := by unfold ordNat; omega
    omega
  rcases Nat.lt_trichotomy i i' with hlt | heq | hgt
  · have := key hij hj hij' hj' hlt; omega
  · subst heq
    unfold ordNat at h
    exact ⟨rfl, by omega⟩
  · have := key hij' hj' hij hj hgt; omega

theorem tri_cast (m : Nat) : ((m : Int) * ((m : Int) - 1)) / 2 = ((tri m : Nat) : Int) := by
  unfold tri
  cases m with
  | zero => simp
  | succ k =>
    have : ((k + 1 : Nat) : Int) - 1 = ((k + 1 - 1 : Nat) : Int) := by omega
    rw [this, ← Int.natCast_mul]
    omega

theorem tri_eq (n : Nat) : (n - 1) * n / 2 = tri n := by
  unfold tri; rw [Nat.mul_comm]

/-- on pairs of teams `i < j < n`, `match_ordinal` is the natural number `ordNat` -/
theorem matchOrdinal_eq {n i j : Nat} (hij : i < j) (hj : j < n) :
    matchOrdinal n (i : Int) (j : Int) = ((ordNat n i j : Nat) : Int) := by
  unfold matchOrdinal ordNat pairsBefore
  have e : (n : Int) - (i : Int) = ((n - i : Nat) : Int) := by omega
  rw [e, tri_cast, tri_eq]
  have h2 : tri (n - i) ≤ tri n := tri_mono (by omega)
  omega

end Ex

/-- `match_ordinal` is injective on pairs of teams -/
theorem matchOrdinal_inj {n i j i' j' : Nat} (hij : i < j) (hj : j < n) (hij' : i' < j') (hj' : j' < n)
    (h : matchOrdinal n (i : Int) (j : Int) = matchOrdinal n (i' : Int) (j' : Int)) : i = i' ∧ j = j' := by
  rw [matchOrdinal_eq hij hj, matchOrdinal_eq hij' hj'] at h
  exact ordNat_inj hij hj hij' hj' (by omega)

/-- `match_ordinal` takes its values in `0 … n(n-1)/2 - 1` -/
theorem matchOrdinal_range {n i j : Nat} (hij : i < j) (hj : j < n) :
    0 ≤ matchOrdinal n (i : Int) (j : Int) ∧ matchOrdinal n (i : Int) (j : Int) ≤ (((n - 1) * n / 2 : Nat) : Int) - 1 := by
  rw [matchOrdinal_eq hij hj, tri_eq]
  have := ordNat_lt hij hj
  omega

namespace Ex

/-! ### generic lemmas: `chunks`, `setAll`, pigeonhole, sums -/

/-- the rows of a flat list made of pieces of length `m` are the pieces -/
theorem chunks_flatMap {α : Type} (g : α → List Int) (m : Nat) (hm : 0 < m) :
    ∀ (L : List α) (fuel : Nat), (∀ x ∈ L, (g x).length = m) → L.length ≤ fuel →
      chunks m fuel (L.flatMap g) = L.map g
  | [], 0, _, _ => by simp [chunks]
  | [], fuel + 1, _, _ => by simp [chunks, hm]
  | x :: L, 0, _, h => by simp at h
  | x :: L, fuel + 1, hg, h => by
    have hx := hg x (by simp)
    simp only [List.flatMap_cons, List.map_cons, chunks]
    rw [if_neg (by simp only [List.length_append]; omega)]
    have e1 : (g x ++ L.flatMap g).take m = g x := by
      rw [← hx]; simp
    have e2 : (g x ++ L.flatMap g).drop m = L.flatMap g := by
      rw [← hx]; simp
    rw [e1, e2, chunks_flatMap g m hm L fuel (fun y hy => hg y (by simp [hy])) (by simpa using h)]

theorem sts_length_setAll : ∀ (upd : List (Nat × Dom)) (B : Box), (setAll B upd).length = B.length
  | [], _ => rfl
  | u :: upd, B => by
    show (setAll (B.set u.1 u.2) upd).length = B.length
    rw [sts_length_setAll upd, List.length_set]

theorem getDom_set_ne {B : Box} {i j : Nat} {d : Dom} (h : i ≠ j) : getDom (B.set i d) j = getDom B j := by
  simp [getDom, List.getD_eq_getElem?_getD, h]

theorem getDom_set_self {B : Box} {i : Nat} {d : Dom} (h : i < B.length) : getDom (B.set i d) i = d := by
  simp [getDom, List.getD_eq_getElem?_getD, h]

/-- an index that is not updated keeps its domain -/
theorem getDom_setAll_of_not_mem : ∀ (upd : List (Nat × Dom)) (B : Box) (i : Nat),
    (∀ u ∈ upd, u.1 ≠ i) → getDom (setAll B upd) i = getDom B i
  | [], _, _, _ => rfl
  | u :: upd, B, i, h => by
    show getDom (setAll (B.set u.1 u.2) upd) i = getDom B i
    rw [getDom_setAll_of_not_mem upd _ i (fun v hv => h v (by simp [hv])), getDom_set_ne (h u (by simp))]

/-- with pairwise distinct keys, an updated index gets the domain of its update -/
theorem getDom_setAll_of_mem : ∀ (upd : List (Nat × Dom)) (B : Box) (v : Nat) (d : Dom),
    (upd.map Prod.fst).Nodup → (v, d) ∈ upd → v < B.length → getDom (setAll B upd) v = d
  | [], _, _, _, _, h, _ => by simp at h
  | u :: upd, B, v, d, hnd, hmem, hv => by
    show getDom (setAll (B.set u.1 u.2) upd) v = d
    simp only [List.map_cons, List.nodup_cons, List.mem_map, not_exists, not_and] at hnd
    rcases List.mem_cons.1 hmem with heq | hin
    · subst heq
      rw [getDom_setAll_of_not_mem upd _ v (fun w hw hwv => hnd.1 w hw hwv)]
      exact getDom_set_self hv
    · exact getDom_setAll_of_mem upd _ v d hnd.2 hin (by rw [List.length_set]; exact hv)

/-- pigeonhole: a duplicate-free list of integers of `[0, N)` has at most `N` elements -/
theorem nodup_length_le : ∀ (N : Nat) (l : List Int), l.Nodup → (∀ x ∈ l, 0 ≤ x ∧ x < (N : Int)) → l.length ≤ N
  | 0, l, _, hb => by
    cases l with
    | nil => simp
    | cons x xs => have := hb x (by simp); omega
  | N + 1, l, hnd, hb => by
    have h1 : (l.erase (N : Int)).Nodup := hnd.erase _
    have h2 : ∀ x ∈ l.erase (N : Int), 0 ≤ x ∧ x < (N : Int) := by
      intro x hx
      have := (hnd.mem_erase_iff).1 hx
      have := hb x this.2
      omega
    have h3 := nodup_length_le N _ h1 h2
    rw [List.length_erase] at h3
    split at h3 <;> omega

/-- pigeonhole: a duplicate-free list of `N` integers of `[0, N)` contains all of them -/
theorem nodup_surj {N : Nat} {l : List Int} (hnd : l.Nodup) (hb : ∀ x ∈ l, 0 ≤ x ∧ x < (N : Int))
    (hl : l.length = N) {v : Int} (hv : 0 ≤ v ∧ v < (N : Int)) : v ∈ l := by
  apply Classical.byContradiction
  intro hnot
  have := nodup_length_le N (v :: l) (List.nodup_cons.2 ⟨hnot, hnd⟩) (by
    intro x hx
    rcases List.mem_cons.1 hx with rfl | hx
    · exact hv
    · exact hb x hx)
  simp at this
  omega

/-- sum of `f 0, …, f (n-1)` over the naturals -/
def sumN (n : Nat) (f : Nat → Nat) : Nat := ((List.range n).map f).sum

theorem sumN_succ (n : Nat) (f : Nat → Nat) : sumN (n + 1) f = sumN n f + f n := by
  simp [sumN, List.range_succ]

theorem sumN_add (n : Nat) (f g : Nat → Nat) : sumN n (fun i => f i + g i) = sumN n f + sumN n g := by
  induction n with
  | zero => rfl
  | succ n ih => rw [sumN_succ, sumN_succ, sumN_succ, ih]; omega

theorem sumN_congr {n : Nat} {f g : Nat → Nat} (h : ∀ i, i < n → f i = g i) : sumN n f = sumN n g := by
  induction n with
  | zero => rfl
  | succ n ih => rw [sumN_succ, sumN_succ, ih (fun i hi => h i (by omega)), h n (by omega)]

theorem sumN_swap (a b : Nat) (f : Nat → Nat → Nat) :
    sumN a (fun i => sumN b (fun j => f i j)) = sumN b (fun j => sumN a (fun i => f i j)) := by
  induction a with
  | zero =>
    have : sumN b (fun _ => 0) = 0 := by
      induction b with
      | zero => rfl
      | succ b ih => rw [sumN_succ, ih]
    simpa [sumN] using this.symm
  | succ a ih =>
    rw [sumN_succ, ih, ← sumN_add]
    apply sumN_congr
    intro j _
    rw [sumN_succ]

theorem sumN_const (n c : Nat) : sumN n (fun _ => c) = n * c := by
  induction n with
  | zero => simp [sumN]
  | succ n ih => rw [sumN_succ, ih, Nat.add_mul]; omega

/-- if every term is at most `c` and one term is `0`, the sum is at most `(n-1) c` -/
theorem sumN_le_of_zero {n c : Nat} {f : Nat → Nat} (hle : ∀ i, i < n → f i ≤ c) {q : Nat} (hq : q < n)
    (h0 : f q = 0) : sumN n f + c ≤ n * c := by
  induction n with
  | zero => omega
  | succ n ih =>
    rw [sumN_succ, Nat.add_mul]
    rcases Nat.lt_or_ge q n with h1 | h1
    · have := ih (fun i hi => hle i (by omega)) h1
      have := hle n (by omega)
      omega
    · have e : q = n := by omega
      subst e
      have : sumN q f ≤ q * c := by
        clear ih h0 hq h1
        induction q with
        | zero => simp [sumN]
        | succ q ih =>
          rw [sumN_succ, Nat.add_mul]
          have := ih (fun i hi => hle i (by omega))
          have := hle q (by omega)
          omega
      omega

/-! ### the model -/

/-- the number of variables: `n/2 · (n-1) · 2` team variables, then `n(n-1)/2` match variables -/
def stsN (n : Nat) : Nat := (n / 2) * (n - 1) * 2 + (n - 1) * n / 2

/-- `match_ordinal` as the constructor computes it (Python `//`) -/
def stsOrd (n : Nat) (t1 t2 : Nat) : Int :=
  (((n - 1) * n / 2 : Nat) : Int) - Int.fdiv (((n : Int) - t1) * ((n : Int) - t1 - 1)) 2 + t2 - t1 - 1

theorem stsOrd_eq (n t1 t2 : Nat) : stsOrd n t1 t2 = matchOrdinal n (t1 : Int) (t2 : Int) := by
  unfold stsOrd matchOrdinal
  rw [Int.fdiv_eq_ediv_of_nonneg _ (by decide)]

def stsPlays (n : Nat) : List Int :=
  (List.range (n - 1)).flatMap (fun (i : Nat) =>
    (rangeAB (i + 1) n).flatMap (fun (j : Nat) => [(i : Int), (j : Int), stsOrd n i j]))

def stsTeamsPerWeek (n w : Nat) : List Nat :=
  (List.range (n / 2)).flatMap (fun (p : Nat) => (List.range 2).map (fun (s : Nat) => teamIdx n p w s))

def stsTeamsPerPeriod (n p : Nat) : List Nat :=
  (List.range (n - 1)).flatMap (fun (w : Nat) => (List.range 2).map (fun (s : Nat) => teamIdx n p w s))

def stsShr0 (n : Nat) : Box :=
  List.replicate ((n / 2) * (n - 1) * 2) (0, (n : Int) - 1) ++
    List.replicate ((n - 1) * n / 2) (0, (((n - 1) * n / 2 : Nat) : Int) - 1)

def stsFirstWeek (n : Nat) : List (Nat × Dom) :=
  (stsTeamsPerWeek n 0).zipIdx.map (fun (v, k) => (v, ((k : Int), (k : Int))))

/-- the constraints of the plain model -/
def stsProps (n : Nat) : List RawC :=
  [ (⟨rangeAB ((n / 2) * (n - 1) * 2) ((n / 2) * (n - 1) * 2 + (n - 1) * n / 2), .alldifferent, []⟩ : RawC) ] ++
   (List.range (n - 1)).map (fun (w : Nat) => (⟨stsTeamsPerWeek n w, .alldifferent, []⟩ : RawC)) ++
   (List.range (n / 2)).map (fun (p : Nat) =>
     (⟨stsTeamsPerPeriod n p, .gcc, [0] ++ List.replicate n 1 ++ List.replicate n 2⟩ : RawC)) ++
   (List.range (n / 2)).flatMap (fun (p : Nat) =>
     (List.range (n - 1)).map (fun (w : Nat) =>
       (⟨[teamIdx n p w 0, teamIdx n p w 1, matchIdx n p w], .relation, stsPlays n⟩ : RawC)))

/-- the constraints added by symmetry breaking -/
def stsSbProps (n : Nat) : List RawC :=
  (List.range (n - 1)).map (fun (w : Nat) =>
    (⟨(List.range (n / 2)).map (fun (p : Nat) => matchIdx n p w), .exactlyEq, [stsOrd n 0 (w + 1), 1]⟩ : RawC))

theorem sports_eq_false (n : Nat) : sportsTournamentSchedulingProblem n false =
    mkProblem (stsShr0 n) (idVars (stsShr0 n).length) (stsProps n ++ []) := rfl

theorem sports_eq_true (n : Nat) : sportsTournamentSchedulingProblem n true =
    mkProblem (setAll (stsShr0 n) (stsFirstWeek n)) (idVars (setAll (stsShr0 n) (stsFirstWeek n)).length)
      (stsProps n ++ stsSbProps n) := rfl

theorem length_stsShr0 (n : Nat) : (stsShr0 n).length = stsN n := by
  simp [stsShr0, stsN]

/-! ### the constraints, one kind at a time -/

/-- for even `n` there are as many match variables as (period, week) cells -/
theorem sts_half {n : Nat} (heven : n % 2 = 0) : (n - 1) * n / 2 = (n / 2) * (n - 1) := by
  rw [Nat.mul_comm (n / 2)]
  exact Nat.mul_div_assoc _ (by omega : 2 ∣ n)

theorem teamIdx_lt {n p w s : Nat} (hp : p < n / 2) (hw : w < n - 1) (hs : s < 2) :
    teamIdx n p w s < (n / 2) * (n - 1) * 2 := by
  unfold teamIdx
  have h1 : (p + 1) * (n - 1) ≤ (n / 2) * (n - 1) := Nat.mul_le_mul_right _ hp
  rw [Nat.add_mul] at h1
  have h2 : p * ((n - 1) * 2) = p * (n - 1) * 2 := (Nat.mul_assoc _ _ _).symm
  omega

theorem cell_lt' {h W p w : Nat} (hp : p < h) (hw : w < W) : p * W + w < h * W := by
  have h1 : (p + 1) * W ≤ h * W := Nat.mul_le_mul_right _ hp
  rw [Nat.add_mul] at h1
  omega

theorem teamIdx_lt_N {n p w s : Nat} (hp : p < n / 2) (hw : w < n - 1) (hs : s < 2) :
    teamIdx n p w s < stsN n := by
  have := teamIdx_lt hp hw hs
  unfold stsN; omega

theorem matchIdx_lt_N {n p w : Nat} (heven : n % 2 = 0) (hp : p < n / 2) (hw : w < n - 1) :
    matchIdx n p w < stsN n := by
  have := cell_lt' hp hw
  unfold matchIdx stsN
  rw [sts_half heven]; omega

theorem range_two : List.range 2 = [0, 1] := rfl

theorem flatMap_range_grid {α : Type} (b : Nat) (f : Nat → α) : ∀ (a : Nat),
    (List.range a).flatMap (fun p => (List.range b).map (fun w => f (p * b + w))) = (List.range (a * b)).map f
  | 0 => by simp
  | a + 1 => by
    rw [List.range_succ, List.flatMap_append, flatMap_range_grid b f a, Nat.add_mul, Nat.one_mul, List.range_add]
    simp

/-- the match variables in the order of their indices -/
theorem allMatches_eq (n : Nat) (σ : List Int) :
    allMatches n σ = (List.range (n / 2 * (n - 1))).map (getI σ ∘ fun k => n / 2 * (n - 1) * 2 + k) := by
  rw [← flatMap_range_grid]
  simp only [allMatches, matchOf, matchIdx, Function.comp, Nat.add_assoc]

/-- the first constraint: all the match variables are different -/
theorem sts_all (n : Nat) (heven : n % 2 = 0) (σ : List Int) :
    rel .alldifferent [] (vals (idVars (stsN n)) σ
      (rangeAB ((n / 2) * (n - 1) * 2) ((n / 2) * (n - 1) * 2 + (n - 1) * n / 2))) ↔ (allMatches n σ).Nodup := by
  rw [vals_id _ _ (by intro v hv; have := mem_rangeAB.1 hv; unfold stsN; omega), rangeAB_eq]
  have e : (n / 2) * (n - 1) * 2 + (n - 1) * n / 2 - (n / 2) * (n - 1) * 2 = (n / 2) * (n - 1) := by
    rw [sts_half heven]; omega
  rw [e, List.map_map]
  rw [allMatches_eq]
  rfl

theorem sts_week (n : Nat) (σ : List Int) (w : Nat) (hw : w < n - 1) :
    vals (idVars (stsN n)) σ (stsTeamsPerWeek n w) = weekTeams n σ w := by
  rw [vals_id]
  · simp [stsTeamsPerWeek, weekTeams, List.map_flatMap, team, range_two]
  · intro v hv
    simp only [stsTeamsPerWeek, List.mem_flatMap, List.mem_map, List.mem_range] at hv
    obtain ⟨p, hp, s, hs, rfl⟩ := hv
    exact teamIdx_lt_N hp hw hs

theorem sts_period (n : Nat) (σ : List Int) (p : Nat) (hp : p < n / 2) :
    vals (idVars (stsN n)) σ (stsTeamsPerPeriod n p) = periodTeams n σ p := by
  rw [vals_id]
  · simp [stsTeamsPerPeriod, periodTeams, List.map_flatMap, team, range_two]
  · intro v hv
    simp only [stsTeamsPerPeriod, List.mem_flatMap, List.mem_map, List.mem_range] at hv
    obtain ⟨w, hw, s, hs, rfl⟩ := hv
    exact teamIdx_lt_N hp hw hs

theorem sts_triple (n : Nat) (heven : n % 2 = 0) (σ : List Int) (p w : Nat) (hp : p < n / 2) (hw : w < n - 1) :
    vals (idVars (stsN n)) σ [teamIdx n p w 0, teamIdx n p w 1, matchIdx n p w] =
      [team n σ p w 0, team n σ p w 1, matchOf n σ p w] := by
  rw [vals_id]
  · rfl
  · intro v hv
    simp only [List.mem_cons, List.not_mem_nil, or_false] at hv
    rcases hv with rfl | rfl | rfl
    · exact teamIdx_lt_N hp hw (by decide)
    · exact teamIdx_lt_N hp hw (by decide)
    · exact matchIdx_lt_N heven hp hw

theorem sts_weekMatches (n : Nat) (heven : n % 2 = 0) (σ : List Int) (w : Nat) (hw : w < n - 1) :
    vals (idVars (stsN n)) σ ((List.range (n / 2)).map (fun (p : Nat) => matchIdx n p w)) =
      (List.range (n / 2)).map (fun p => matchOf n σ p w) := by
  rw [vals_id]
  · simp [matchOf, Function.comp_def]
  · intro v hv
    simp only [List.mem_map, List.mem_range] at hv
    obtain ⟨p, hp, rfl⟩ := hv
    exact matchIdx_lt_N heven hp hw

/-- the pairs of teams in the order of `plays` -/
def stsPairs (n : Nat) : List (Nat × Nat) :=
  (List.range (n - 1)).flatMap (fun (i : Nat) => (rangeAB (i + 1) n).map (fun (j : Nat) => (i, j)))

theorem mem_stsPairs {n i j : Nat} : (i, j) ∈ stsPairs n ↔ i < j ∧ j < n := by
  simp only [stsPairs, List.mem_flatMap, List.mem_map, List.mem_range, mem_rangeAB, Prod.mk.injEq]
  constructor
  · rintro ⟨a, ha, c, ⟨h1, h2⟩, rfl, rfl⟩
    omega
  · rintro ⟨h1, h2⟩
    exact ⟨i, by omega, j, ⟨by omega, h2⟩, rfl, rfl⟩

theorem stsPlays_eq (n : Nat) :
    stsPlays n = (stsPairs n).flatMap (fun q => [(q.1 : Int), (q.2 : Int), stsOrd n q.1 q.2]) := by
  simp only [stsPlays, stsPairs, List.flatMap_assoc, List.flatMap_map]

/-- the table constraint: the two teams are a pair `i < j` and the third value is its ordinal -/
theorem sts_relation (n : Nat) (a b c : Int) :
    rel .relation (stsPlays n) [a, b, c] ↔
      ∃ i j : Nat, i < j ∧ j < n ∧ a = i ∧ b = j ∧ c = matchOrdinal n (i : Int) (j : Int) := by
  have hlen : ∀ q ∈ stsPairs n, [(q.1 : Int), (q.2 : Int), stsOrd n q.1 q.2].length = 3 := fun _ _ => rfl
  have hL : (stsPlays n).length = (stsPairs n).length * 3 := by
    rw [stsPlays_eq]; exact length_flatMap_uniform _ 3 _ hlen
  show [a, b, c] ∈ chunks 3 (stsPlays n).length (stsPlays n) ↔ _
  rw [hL, stsPlays_eq, chunks_flatMap _ 3 (by decide) _ _ hlen (by omega)]
  simp only [List.mem_map, List.cons.injEq, and_true, Prod.exists]
  constructor
  · rintro ⟨i, j, hm, rfl, rfl, rfl⟩
    have := mem_stsPairs.1 hm
    exact ⟨i, j, this.1, this.2, rfl, rfl, stsOrd_eq n i j⟩
  · rintro ⟨i, j, hij, hj, rfl, rfl, rfl⟩
    exact ⟨i, j, mem_stsPairs.2 ⟨hij, hj⟩, rfl, rfl, stsOrd_eq n i j⟩

/-- the cardinality constraint: every team occurs at least once and at most twice -/
theorem sts_gcc (n : Nat) (t : List Int) :
    rel .gcc ([0] ++ List.replicate n 1 ++ List.replicate n 2) t ↔
      ∀ j : Nat, j < n → 1 ≤ t.count (j : Int) ∧ t.count (j : Int) ≤ 2 := by
  have e1 : ([0] ++ List.replicate n (1 : Int) ++ List.replicate n 2).length = 2 * n + 1 := by
    simp; omega
  have e2 : (2 * n + 1 - 1) / 2 = n := by omega
  simp only [rel, e1, e2]
  have e3 : (([0] ++ List.replicate n (1 : Int) ++ List.replicate n 2).drop 1).take n = List.replicate n 1 := by
    simp
  have e4 : ([0] ++ List.replicate n (1 : Int) ++ List.replicate n 2).drop (1 + n) = List.replicate n 2 := by
    rw [List.append_assoc, List.drop_append]
    simp
  rw [e3, e4]
  simp only [gccOk, List.length_replicate]
  constructor
  · intro h j hj
    have := h j hj
    simp [getI, List.getD_eq_getElem?_getD, hj] at this
    omega
  · intro h j hj
    have := h j hj
    simp [getI, List.getD_eq_getElem?_getD, hj]
    omega

theorem sts_exactly (a : Int) (t : List Int) : rel .exactlyEq [a, 1] t ↔ t.count a = 1 := by
  simp only [rel, getI, List.getD_cons_zero, List.getD_cons_succ]
  omega

theorem mem_stsProps {n : Nat} {c : RawC} : c ∈ stsProps n ↔
    c = ⟨rangeAB ((n / 2) * (n - 1) * 2) ((n / 2) * (n - 1) * 2 + (n - 1) * n / 2), .alldifferent, []⟩ ∨
    (∃ w, w < n - 1 ∧ c = ⟨stsTeamsPerWeek n w, .alldifferent, []⟩) ∨
    (∃ p, p < n / 2 ∧ c = ⟨stsTeamsPerPeriod n p, .gcc, [0] ++ List.replicate n 1 ++ List.replicate n 2⟩) ∨
    (∃ p w, p < n / 2 ∧ w < n - 1 ∧
      c = ⟨[teamIdx n p w 0, teamIdx n p w 1, matchIdx n p w], .relation, stsPlays n⟩) := by
  simp only [stsProps, List.mem_append, List.mem_map, List.mem_range, List.mem_flatMap, List.mem_cons,
    List.not_mem_nil, or_false]
  constructor
  · rintro (((rfl | ⟨w, hw, rfl⟩) | ⟨p, hp, rfl⟩) | ⟨p, hp, w, hw, rfl⟩)
    · exact Or.inl rfl
    · exact Or.inr (Or.inl ⟨w, hw, rfl⟩)
    · exact Or.inr (Or.inr (Or.inl ⟨p, hp, rfl⟩))
    · exact Or.inr (Or.inr (Or.inr ⟨p, w, hp, hw, rfl⟩))
  · rintro (rfl | ⟨w, hw, rfl⟩ | ⟨p, hp, rfl⟩ | ⟨p, w, hp, hw, rfl⟩)
    · exact Or.inl (Or.inl (Or.inl rfl))
    · exact Or.inl (Or.inl (Or.inr ⟨w, hw, rfl⟩))
    · exact Or.inl (Or.inr ⟨p, hp, rfl⟩)
    · exact Or.inr ⟨p, hp, w, hw, rfl⟩

end Ex

/-- A schedule of the tournament of `n` teams (CSPLib prob026), `n` even: `n-1` weeks, `n/2` periods,
    two slots.  `σ` lists the teams `team p w s = σ[p·(n-1)·2 + w·2 + s] ∈ 0 … n-1`, then the matches.
    * `weekly`: every team plays once a week (the `n` entries of a week are pairwise distinct, and
      there are `n` teams);
    * `period`: every team plays at most twice in the same period over the tournament;
    * `ordered`, `matchIs`: a game is an ordered pair `t1 < t2` and the match variable of the cell is
      the ordinal of that pair;
    * `distinct`: the matches are pairwise distinct; there are `n(n-1)/2` cells and as many pairs, so
      every team plays every other team exactly once (`C20_sports_every_pair_once`). -/
structure ValidSchedule (n : Nat) (σ : List Int) : Prop where
  len : σ.length = (n / 2) * (n - 1) * 2 + (n - 1) * n / 2
  teams : ∀ p w s, p < n / 2 → w < n - 1 → s < 2 → 0 ≤ team n σ p w s ∧ team n σ p w s ≤ (n : Int) - 1
  weekly : ∀ w, w < n - 1 → (weekTeams n σ w).Nodup
  period : ∀ p, p < n / 2 → ∀ t : Nat, t < n → (periodTeams n σ p).count (t : Int) ≤ 2
  ordered : ∀ p w, p < n / 2 → w < n - 1 → team n σ p w 0 < team n σ p w 1
  matchIs : ∀ p w, p < n / 2 → w < n - 1 →
    matchOf n σ p w = matchOrdinal n (team n σ p w 0) (team n σ p w 1)
  distinct : (allMatches n σ).Nodup

namespace Ex

/-- `n` pairwise distinct entries in `0 … n-1`: every team occurs exactly once in a week -/
theorem sts_once_a_week {n : Nat} (heven : n % 2 = 0) {σ : List Int}
    (hteams : ∀ p w s, p < n / 2 → w < n - 1 → s < 2 → 0 ≤ team n σ p w s ∧ team n σ p w s ≤ (n : Int) - 1)
    (hweekly : ∀ w, w < n - 1 → (weekTeams n σ w).Nodup)
    {w : Nat} (hw : w < n - 1) {t : Nat} (ht : t < n) : (weekTeams n σ w).count (t : Int) = 1 := by
  have hlen : (weekTeams n σ w).length = n := by
    have := length_flatMap_uniform (fun p => [team n σ p w 0, team n σ p w 1]) 2 (List.range (n / 2))
      (fun _ _ => rfl)
    simp only [List.length_range] at this
    unfold weekTeams
    omega
  have hb : ∀ x ∈ weekTeams n σ w, 0 ≤ x ∧ x < (n : Int) := by
    intro x hx
    simp only [weekTeams, List.mem_flatMap, List.mem_range, List.mem_cons, List.not_mem_nil, or_false] at hx
    obtain ⟨p, hp, rfl | rfl⟩ := hx
    · have := hteams p w 0 hp hw (by decide); omega
    · have := hteams p w 1 hp hw (by decide); omega
  have hmem : (t : Int) ∈ weekTeams n σ w := nodup_surj (hweekly w hw) hb hlen ⟨by omega, by omega⟩
  rw [(hweekly w hw).count, if_pos hmem]

/-- the lower capacity `1` of the model's cardinality constraint is implied: a team plays `n-1` games
    (one a week), at most two in each of the `n/2` periods, hence at least one in every period -/
theorem sts_at_least_once {n : Nat} (heven : n % 2 = 0) {σ : List Int}
    (hteams : ∀ p w s, p < n / 2 → w < n - 1 → s < 2 → 0 ≤ team n σ p w s ∧ team n σ p w s ≤ (n : Int) - 1)
    (hweekly : ∀ w, w < n - 1 → (weekTeams n σ w).Nodup)
    (hperiod : ∀ p, p < n / 2 → ∀ t : Nat, t < n → (periodTeams n σ p).count (t : Int) ≤ 2)
    {q : Nat} (hq : q < n / 2) {t : Nat} (ht : t < n) : 1 ≤ (periodTeams n σ q).count (t : Int) := by
  -- occurrences of `t` in cell `(p, w)`
  let c : Nat → Nat → Nat := fun p w => [team n σ p w 0, team n σ p w 1].count (t : Int)
  have hper : ∀ p, (periodTeams n σ p).count (t : Int) = sumN (n - 1) (fun w => c p w) := by
    intro p
    simp only [periodTeams, List.count_flatMap, sumN]
    rfl
  have hwk : ∀ w, (weekTeams n σ w).count (t : Int) = sumN (n / 2) (fun p => c p w) := by
    intro w
    simp only [weekTeams, List.count_flatMap, sumN]
    rfl
  have hone : ∀ w, w < n - 1 → (weekTeams n σ w).count (t : Int) = 1 :=
    fun w hw => sts_once_a_week heven hteams hweekly hw ht
  have htotal : sumN (n / 2) (fun p => (periodTeams n σ p).count (t : Int)) = n - 1 := by
    rw [sumN_congr (fun p _ => hper p), sumN_swap, sumN_congr (g := fun _ => 1) (fun w hw => by rw [← hwk, hone w hw]),
      sumN_const]
    omega
  apply Classical.byContradiction
  intro hnot
  have h0 : (periodTeams n σ q).count (t : Int) = 0 := by omega
  have := sumN_le_of_zero (c := 2) (f := fun p => (periodTeams n σ p).count (t : Int))
    (fun p hp => hperiod p hp t ht) hq h0
  rw [htotal] at this
  omega

/-- the box of the plain model -/
theorem inBox_stsShr0 (n : Nat) (σ : List Int) : inBox σ (stsShr0 n) ↔
    σ.length = stsN n ∧
    (∀ i, i < (n / 2) * (n - 1) * 2 → 0 ≤ getI σ i ∧ getI σ i ≤ (n : Int) - 1) ∧
    (∀ k, k < (n - 1) * n / 2 →
      0 ≤ getI σ ((n / 2) * (n - 1) * 2 + k) ∧ getI σ ((n / 2) * (n - 1) * 2 + k) ≤ (((n - 1) * n / 2 : Nat) : Int) - 1) := by
  rw [inBox_iff, length_stsShr0]
  have hA : (List.replicate ((n / 2) * (n - 1) * 2) ((0 : Int), (n : Int) - 1)).length = (n / 2) * (n - 1) * 2 := by simp
  constructor
  · rintro ⟨hl, h⟩
    refine ⟨hl, fun i hi => ?_, fun k hk => ?_⟩
    · have := h i (by unfold stsN; omega)
      unfold stsShr0 at this
      rw [getDom_append_left (by rw [hA]; exact hi), getDom_replicate _ hi] at this
      exact this
    · have := h ((n / 2) * (n - 1) * 2 + k) (by unfold stsN; omega)
      unfold stsShr0 at this
      simp only [getDom, List.getD_eq_getElem?_getD] at this
      rw [List.getElem?_append_right (by rw [hA]; omega)] at this
      simp only [hA, Nat.add_sub_cancel_left, List.getElem?_replicate, hk, if_true, Option.getD_some] at this
      exact this
  · rintro ⟨hl, h1, h2⟩
    refine ⟨hl, fun i hi => ?_⟩
    unfold stsShr0
    rcases Nat.lt_or_ge i ((n / 2) * (n - 1) * 2) with hlt | hge
    · rw [getDom_append_left (by rw [hA]; exact hlt), getDom_replicate _ hlt]
      exact h1 i hlt
    · have hk : i - (n / 2) * (n - 1) * 2 < (n - 1) * n / 2 := by unfold stsN at hi; omega
      simp only [getDom, List.getD_eq_getElem?_getD]
      rw [List.getElem?_append_right (by rw [hA]; omega)]
      simp only [hA, List.getElem?_replicate, hk, if_true, Option.getD_some]
      have := h2 _ hk
      rw [show (n / 2) * (n - 1) * 2 + (i - (n / 2) * (n - 1) * 2) = i by omega] at this
      exact this

/-- every team index is the index of a cell and a slot -/
theorem teamIdx_decomp {n i : Nat} (hi : i < (n / 2) * (n - 1) * 2) :
    ∃ p w s, p < n / 2 ∧ w < n - 1 ∧ s < 2 ∧ i = teamIdx n p w s := by
  have hq : i / 2 < (n / 2) * (n - 1) := by omega
  have hW : 0 < n - 1 := by
    rcases Nat.eq_zero_or_pos (n - 1) with h | h
    · rw [h] at hq; simp at hq
    · exact h
  refine ⟨i / 2 / (n - 1), i / 2 % (n - 1), i % 2, (Nat.div_lt_iff_lt_mul hW).2 hq, Nat.mod_lt _ hW, by omega, ?_⟩
  unfold teamIdx
  have h1 := Nat.div_add_mod (i / 2) (n - 1)
  have h2 : i / 2 / (n - 1) * ((n - 1) * 2) = (n - 1) * (i / 2 / (n - 1)) * 2 := by
    rw [← Nat.mul_assoc, Nat.mul_comm (i / 2 / (n - 1))]
  omega

/-- every match index is the index of a cell -/
theorem matchIdx_decomp {n k : Nat} (hk : k < (n / 2) * (n - 1)) :
    ∃ p w, p < n / 2 ∧ w < n - 1 ∧ (n / 2) * (n - 1) * 2 + k = matchIdx n p w := by
  have hW : 0 < n - 1 := by
    rcases Nat.eq_zero_or_pos (n - 1) with h | h
    · rw [h] at hk; simp at hk
    · exact h
  refine ⟨k / (n - 1), k % (n - 1), (Nat.div_lt_iff_lt_mul hW).2 hk, Nat.mod_lt _ hW, ?_⟩
  unfold matchIdx
  have h1 := Nat.div_add_mod k (n - 1)
  rw [Nat.mul_comm] at h1
  omega

end Ex

/-- C20 (sports tournament scheduling, no symmetry breaking), `n` even: the posted model accepts
    exactly the schedules of the tournament.
    `n` even is needed: the constructor creates `n(n-1)/2` match variables but links only `(n/2)(n-1)`
    of them to the teams, and for odd `n > 1` the second number is smaller.  `2 ≤ n` is not needed.
    The model's cardinality constraint also has the lower capacity 1 (every team plays at least once per
    period); it is implied by the rest, see `sts_at_least_once` / `C20_sports_period_bounds`. -/
theorem C20_sports (n : Nat) (heven : n % 2 = 0) (σ : List Int) :
    Sol (sportsTournamentSchedulingProblem n false) σ ↔ ValidSchedule n σ := by
  rw [sports_eq_false, length_stsShr0, sol_mk, List.append_nil, inBox_stsShr0]
  have hM := sts_half heven
  constructor
  · rintro ⟨⟨hl, hb1, hb2⟩, h⟩
    have hrel : ∀ p w, p < n / 2 → w < n - 1 → ∃ i j : Nat, i < j ∧ j < n ∧ team n σ p w 0 = i ∧
        team n σ p w 1 = j ∧ matchOf n σ p w = matchOrdinal n (i : Int) (j : Int) := by
      intro p w hp hw
      have := h _ (mem_stsProps.2 (Or.inr (Or.inr (Or.inr ⟨p, w, hp, hw, rfl⟩))))
      simp only [sts_triple n heven σ p w hp hw] at this
      exact (sts_relation n _ _ _).1 this
    refine ⟨hl, fun p w s hp hw hs => hb1 _ (teamIdx_lt hp hw hs), fun w hw => ?_, fun p hp t ht => ?_,
      fun p w hp hw => ?_, fun p w hp hw => ?_, ?_⟩
    · have := h _ (mem_stsProps.2 (Or.inr (Or.inl ⟨w, hw, rfl⟩)))
      simp only [sts_week n σ w hw] at this
      exact this
    · have := h _ (mem_stsProps.2 (Or.inr (Or.inr (Or.inl ⟨p, hp, rfl⟩))))
      simp only [sts_period n σ p hp] at this
      exact ((sts_gcc n _).1 this t ht).2
    · obtain ⟨i, j, hij, _, h0, h1, _⟩ := hrel p w hp hw
      rw [h0, h1]; omega
    · obtain ⟨i, j, _, _, h0, h1, h2⟩ := hrel p w hp hw
      rw [h0, h1]; exact h2
    · exact (sts_all n heven σ).1 (h _ (mem_stsProps.2 (Or.inl rfl)))
  · intro hv
    refine ⟨⟨hv.len, fun i hi => ?_, fun k hk => ?_⟩, fun c hc => ?_⟩
    · obtain ⟨p, w, s, hp, hw, hs, rfl⟩ := teamIdx_decomp hi
      exact hv.teams p w s hp hw hs
    · rw [hM] at hk
      obtain ⟨p, w, hp, hw, e⟩ := matchIdx_decomp hk
      rw [e]
      have h0 := hv.teams p w 0 hp hw (by decide)
      have h1 := hv.teams p w 1 hp hw (by decide)
      have h01 := hv.ordered p w hp hw
      have hm := hv.matchIs p w hp hw
      have e0 : team n σ p w 0 = ((team n σ p w 0).toNat : Int) := by omega
      have e1 : team n σ p w 1 = ((team n σ p w 1).toNat : Int) := by omega
      rw [e0, e1] at hm
      have := matchOrdinal_range (n := n) (i := (team n σ p w 0).toNat) (j := (team n σ p w 1).toNat)
        (by omega) (by omega)
      unfold matchOf at hm
      rw [hm]
      exact this
    · rcases mem_stsProps.1 hc with rfl | ⟨w, hw, rfl⟩ | ⟨p, hp, rfl⟩ | ⟨p, w, hp, hw, rfl⟩
      · exact (sts_all n heven σ).2 hv.distinct
      · simp only [sts_week n σ w hw]
        exact hv.weekly w hw
      · simp only [sts_period n σ p hp]
        exact (sts_gcc n _).2 (fun t ht =>
          ⟨sts_at_least_once heven hv.teams hv.weekly hv.period hp ht, hv.period p hp t ht⟩)
      · simp only [sts_triple n heven σ p w hp hw]
        have h0 := hv.teams p w 0 hp hw (by decide)
        have h1 := hv.teams p w 1 hp hw (by decide)
        have h01 := hv.ordered p w hp hw
        have hm := hv.matchIs p w hp hw
        have e0 : team n σ p w 0 = ((team n σ p w 0).toNat : Int) := by omega
        have e1 : team n σ p w 1 = ((team n σ p w 1).toNat : Int) := by omega
        refine (sts_relation n _ _ _).2 ⟨(team n σ p w 0).toNat, (team n σ p w 1).toNat, by omega, by omega, e0, e1, ?_⟩
        rw [← e0, ← e1]
        exact hm

namespace Ex

/-! ### symmetry breaking -/

/-- the `k`-th variable of the first week -/
theorem firstWeek_get {n k : Nat} (hk : k < (n / 2) * 2) :
    (stsTeamsPerWeek n 0)[k]? = some (teamIdx n (k / 2) 0 (k % 2)) := by
  have e : k = (k / 2) * 2 + k % 2 := by omega
  have h2 : k % 2 < 2 := Nat.mod_lt _ (by decide)
  have h1 : k / 2 < n / 2 := by omega
  conv => lhs; rw [e]
  unfold stsTeamsPerWeek
  rw [getElem?_flatMap_uniform _ 2 _ (fun _ _ => by simp) _ _ h2]
  simp [List.getElem?_range h1, h2]

theorem length_firstWeek (n : Nat) : (stsTeamsPerWeek n 0).length = (n / 2) * 2 := by
  unfold stsTeamsPerWeek
  rw [length_flatMap_uniform _ 2 _ (fun _ _ => by simp)]
  simp

theorem teamIdx0_inj {n p s p' s' : Nat} (hn : 2 ≤ n) (hs : s < 2) (hs' : s' < 2)
    (h : teamIdx n p 0 s = teamIdx n p' 0 s') : p = p' ∧ s = s' := by
  unfold teamIdx at h
  have key : ∀ {a b c d : Nat}, a < b → c < 2 → a * ((n - 1) * 2) + 0 * 2 + c < b * ((n - 1) * 2) + 0 * 2 + d := by
    intro a b c d hab hc
    have h1 : (a + 1) * ((n - 1) * 2) ≤ b * ((n - 1) * 2) := Nat.mul_le_mul_right _ hab
    rw [Nat.add_mul] at h1
    omega
  rcases Nat.lt_trichotomy p p' with hlt | heq | hgt
  · have := key (c := s) (d := s') hlt hs; omega
  · subst heq; exact ⟨rfl, by omega⟩
  · have := key (c := s') (d := s) hgt hs'; omega

theorem firstWeek_nodup {n : Nat} (hn : 2 ≤ n) : (stsTeamsPerWeek n 0).Nodup := by
  rw [List.Nodup, List.pairwise_iff_getElem]
  intro i j hi hj hij heq
  rw [length_firstWeek] at hi hj
  have h1 := firstWeek_get hi
  have h2 := firstWeek_get hj
  rw [List.getElem?_eq_getElem (by rw [length_firstWeek]; exact hi)] at h1
  rw [List.getElem?_eq_getElem (by rw [length_firstWeek]; exact hj)] at h2
  injection h1 with h1
  injection h2 with h2
  rw [h1, h2] at heq
  have := teamIdx0_inj hn (Nat.mod_lt _ (by decide)) (Nat.mod_lt _ (by decide)) heq
  omega

theorem mem_stsFirstWeek {n v : Nat} {d : Dom} : (v, d) ∈ stsFirstWeek n ↔
    ∃ p s, p < n / 2 ∧ s < 2 ∧ v = teamIdx n p 0 s ∧ d = (((2 * p + s : Nat) : Int), ((2 * p + s : Nat) : Int)) := by
  simp only [stsFirstWeek, List.mem_map, List.mem_zipIdx_iff_getElem?, Prod.exists, Prod.mk.injEq]
  constructor
  · rintro ⟨a, k, hk, rfl, rfl⟩
    have hlt : k < (n / 2) * 2 := by
      rcases Nat.lt_or_ge k ((n / 2) * 2) with h | h
      · exact h
      · rw [List.getElem?_eq_none (by rw [length_firstWeek]; exact h)] at hk; cases hk
    rw [firstWeek_get hlt] at hk
    injection hk with hk
    refine ⟨k / 2, k % 2, by omega, Nat.mod_lt _ (by decide), hk.symm, ?_⟩
    have : 2 * (k / 2) + k % 2 = k := by omega
    rw [this]
  · rintro ⟨p, s, hp, hs, rfl, rfl⟩
    refine ⟨teamIdx n p 0 s, 2 * p + s, ?_, rfl, rfl⟩
    rw [firstWeek_get (by omega)]
    have e1 : (2 * p + s) / 2 = p := by omega
    have e2 : (2 * p + s) % 2 = s := by omega
    rw [e1, e2]

theorem getDom_stsShr0_team {n i : Nat} (hi : i < (n / 2) * (n - 1) * 2) :
    getDom (stsShr0 n) i = (0, (n : Int) - 1) := by
  unfold stsShr0
  rw [getDom_append_left (by simpa using hi), getDom_replicate _ hi]

/-- the box of the symmetry-breaking model: the plain box with the first week fixed -/
theorem inBox_sts_sb {n : Nat} (hn : 2 ≤ n) (heven : n % 2 = 0) (σ : List Int) :
    inBox σ (setAll (stsShr0 n) (stsFirstWeek n)) ↔
      inBox σ (stsShr0 n) ∧ ∀ p s, p < n / 2 → s < 2 → team n σ p 0 s = ((2 * p + s : Nat) : Int) := by
  rw [inBox_iff, inBox_iff, sts_length_setAll]
  have hkeys : ((stsFirstWeek n).map Prod.fst).Nodup := by
    have : (stsFirstWeek n).map Prod.fst = stsTeamsPerWeek n 0 := by
      unfold stsFirstWeek
      rw [List.map_map]
      exact List.zipIdx_map_fst 0 _
    rw [this]; exact firstWeek_nodup hn
  have hkey : ∀ p s, p < n / 2 → s < 2 →
      getDom (setAll (stsShr0 n) (stsFirstWeek n)) (teamIdx n p 0 s) = (((2 * p + s : Nat) : Int), ((2 * p + s : Nat) : Int)) := by
    intro p s hp hs
    apply getDom_setAll_of_mem _ _ _ _ hkeys (mem_stsFirstWeek.2 ⟨p, s, hp, hs, rfl, rfl⟩)
    rw [length_stsShr0]
    exact teamIdx_lt_N hp (by omega) hs
  have hother : ∀ i, (¬ ∃ p s, p < n / 2 ∧ s < 2 ∧ i = teamIdx n p 0 s) →
      getDom (setAll (stsShr0 n) (stsFirstWeek n)) i = getDom (stsShr0 n) i := by
    intro i hi
    apply getDom_setAll_of_not_mem
    intro u hu hui
    obtain ⟨p, s, hp, hs, h1, _⟩ := mem_stsFirstWeek.1 (show (u.1, u.2) ∈ stsFirstWeek n from hu)
    exact hi ⟨p, s, hp, hs, by rw [← hui, h1]⟩
  constructor
  · rintro ⟨hl, h⟩
    have hfw : ∀ p s, p < n / 2 → s < 2 → team n σ p 0 s = ((2 * p + s : Nat) : Int) := by
      intro p s hp hs
      have := h (teamIdx n p 0 s) (by rw [length_stsShr0]; exact teamIdx_lt_N hp (by omega) hs)
      rw [hkey p s hp hs] at this
      unfold team
      simp only [inDom] at this
      omega
    refine ⟨⟨hl, fun i hi => ?_⟩, hfw⟩
    by_cases hk : ∃ p s, p < n / 2 ∧ s < 2 ∧ i = teamIdx n p 0 s
    · obtain ⟨p, s, hp, hs, rfl⟩ := hk
      rw [getDom_stsShr0_team (teamIdx_lt hp (by omega) hs)]
      have := hfw p s hp hs
      unfold team at this
      rw [this]
      simp only [inDom]
      omega
    · rw [← hother i hk]; exact h i hi
  · rintro ⟨⟨hl, h⟩, hfw⟩
    refine ⟨hl, fun i hi => ?_⟩
    by_cases hk : ∃ p s, p < n / 2 ∧ s < 2 ∧ i = teamIdx n p 0 s
    · obtain ⟨p, s, hp, hs, rfl⟩ := hk
      rw [hkey p s hp hs]
      have := hfw p s hp hs
      unfold team at this
      rw [this]
      simp only [inDom]
      omega
    · rw [hother i hk]; exact h i hi

/-- a value occurs exactly once in `f 0, …, f (h-1)` iff exactly one index carries it -/
theorem count_map_range_eq_one (f : Nat → Int) (a : Int) : ∀ h : Nat,
    ((List.range h).map f).count a = 1 ↔ ∃ p, p < h ∧ f p = a ∧ ∀ p', p' < h → f p' = a → p' = p
  | 0 => by simp
  | h + 1 => by
    rw [List.range_succ, List.map_append, List.count_append]
    simp only [List.map_cons, List.map_nil, List.count_singleton, beq_iff_eq]
    by_cases hf : f h = a
    · rw [if_pos hf]
      have h0 : ((List.range h).map f).count a + 1 = 1 ↔ ∀ p, p < h → f p ≠ a := by
        rw [show ((List.range h).map f).count a + 1 = 1 ↔ ((List.range h).map f).count a = 0 by omega,
          List.count_eq_zero]
        simp only [List.mem_map, List.mem_range, not_exists, not_and]
      rw [h0]
      constructor
      · intro hno
        refine ⟨h, by omega, hf, fun p' hp' hfp' => ?_⟩
        rcases Nat.lt_or_ge p' h with hlt | hge
        · exact absurd hfp' (hno p' hlt)
        · omega
      · rintro ⟨p, hp, hfp, huniq⟩ p' hp' hfp'
        have e1 := huniq h (by omega) hf
        have e2 := huniq p' (by omega) hfp'
        omega
    · rw [if_neg hf, Nat.add_zero, count_map_range_eq_one f a h]
      constructor
      · rintro ⟨p, hp, hfp, huniq⟩
        refine ⟨p, by omega, hfp, fun p' hp' hfp' => ?_⟩
        rcases Nat.lt_or_ge p' h with hlt | hge
        · exact huniq p' hlt hfp'
        · have : p' = h := by omega
          subst this; exact absurd hfp' hf
      · rintro ⟨p, hp, hfp, huniq⟩
        have : p ≠ h := fun e => hf (e ▸ hfp)
        exact ⟨p, by omega, hfp, fun p' hp' hfp' => huniq p' (by omega) hfp'⟩

theorem mem_stsSbProps {n : Nat} {c : RawC} : c ∈ stsSbProps n ↔
    ∃ w, w < n - 1 ∧ c = ⟨(List.range (n / 2)).map (fun (p : Nat) => matchIdx n p w), .exactlyEq,
      [stsOrd n 0 (w + 1), 1]⟩ := by
  simp only [stsSbProps, List.mem_map, List.mem_range]
  constructor
  · rintro ⟨w, hw, rfl⟩; exact ⟨w, hw, rfl⟩
  · rintro ⟨w, hw, rfl⟩; exact ⟨w, hw, rfl⟩

end Ex

/-- C20 (sports tournament scheduling, symmetry breaking): the symmetry-breaking model accepts exactly
    the solutions of the plain model in which the first week is `0-1, 2-3, …` (period `p` plays
    `2p` against `2p+1`) and in which, every week `w`, exactly one period hosts the match
    `0 versus w+1`.  (`2 ≤ n`: for `n = 0` the statement is trivially true as well, but the proof uses
    that the variables of the first week are pairwise distinct, which needs at least one week.) -/
theorem C20_sports_sb (n : Nat) (hn : 2 ≤ n) (heven : n % 2 = 0) (σ : List Int) :
    Sol (sportsTournamentSchedulingProblem n true) σ ↔
      Sol (sportsTournamentSchedulingProblem n false) σ ∧
      (∀ p s, p < n / 2 → s < 2 → team n σ p 0 s = ((2 * p + s : Nat) : Int)) ∧
      (∀ w, w < n - 1 → ∃ p, p < n / 2 ∧ matchOf n σ p w = matchOrdinal n 0 ((w + 1 : Nat) : Int) ∧
        ∀ p', p' < n / 2 → matchOf n σ p' w = matchOrdinal n 0 ((w + 1 : Nat) : Int) → p' = p) := by
  rw [sports_eq_true, sports_eq_false, sts_length_setAll, length_stsShr0, sol_mk, sol_mk, List.append_nil,
    inBox_sts_sb hn heven]
  have hsb : ∀ w, w < n - 1 →
      (rel .exactlyEq [stsOrd n 0 (w + 1), 1]
        (vals (idVars (stsN n)) σ ((List.range (n / 2)).map (fun (p : Nat) => matchIdx n p w))) ↔
       ∃ p, p < n / 2 ∧ matchOf n σ p w = matchOrdinal n 0 ((w + 1 : Nat) : Int) ∧
        ∀ p', p' < n / 2 → matchOf n σ p' w = matchOrdinal n 0 ((w + 1 : Nat) : Int) → p' = p) := by
    intro w hw
    rw [sts_weekMatches n heven σ w hw, sts_exactly, count_map_range_eq_one, stsOrd_eq]
    rfl
  constructor
  · rintro ⟨⟨hb, hfw⟩, h⟩
    refine ⟨⟨hb, fun c hc => h c (List.mem_append_left _ hc)⟩, hfw, fun w hw => ?_⟩
    exact (hsb w hw).1 (h _ (List.mem_append_right _ (mem_stsSbProps.2 ⟨w, hw, rfl⟩)))
  · rintro ⟨⟨hb, h⟩, hfw, hex⟩
    refine ⟨⟨hb, hfw⟩, fun c hc => ?_⟩
    rcases List.mem_append.1 hc with hc | hc
    · exact h c hc
    · obtain ⟨w, hw, rfl⟩ := mem_stsSbProps.1 hc
      exact (hsb w hw).2 (hex w hw)

/-- hence every solution of the symmetry-breaking model is a schedule of the tournament -/
theorem C20_sports_sb_valid (n : Nat) (hn : 2 ≤ n) (heven : n % 2 = 0) (σ : List Int)
    (h : Sol (sportsTournamentSchedulingProblem n true) σ) : ValidSchedule n σ :=
  (C20_sports n heven σ).1 ((C20_sports_sb n hn heven σ).1 h).1

namespace Ex

theorem sts_cell_inj {W p w p' w' : Nat} (hw : w < W) (hw' : w' < W) (h : p * W + w = p' * W + w') :
    p = p' ∧ w = w' := by
  have key : ∀ {a b c d : Nat}, a < b → c < W → a * W + c < b * W + d := by
    intro a b c d hab hc
    have h1 : (a + 1) * W ≤ b * W := Nat.mul_le_mul_right _ hab
    rw [Nat.add_mul] at h1
    omega
  rcases Nat.lt_trichotomy p p' with hlt | heq | hgt
  · have := key (d := w') hlt hw; omega
  · subst heq; exact ⟨rfl, by omega⟩
  · have := key (d := w) hgt hw'; omega

/-- distinct cells have distinct matches -/
theorem allMatches_inj {n : Nat} {σ : List Int} (hd : (allMatches n σ).Nodup) {p w p' w' : Nat}
    (hp : p < n / 2) (hw : w < n - 1) (hp' : p' < n / 2) (hw' : w' < n - 1)
    (h : matchOf n σ p w = matchOf n σ p' w') : p = p' ∧ w = w' := by
  rw [allMatches_eq, nodup_map_range] at hd
  apply Classical.byContradiction
  intro hne
  have hk : p * (n - 1) + w ≠ p' * (n - 1) + w' := fun e => hne (sts_cell_inj hw hw' e)
  have e1 : matchOf n σ p w = (getI σ ∘ fun k => n / 2 * (n - 1) * 2 + k) (p * (n - 1) + w) := by
    simp only [matchOf, matchIdx, Function.comp, Nat.add_assoc]
  have e2 : matchOf n σ p' w' = (getI σ ∘ fun k => n / 2 * (n - 1) * 2 + k) (p' * (n - 1) + w') := by
    simp only [matchOf, matchIdx, Function.comp, Nat.add_assoc]
  rw [e1, e2] at h
  rcases Nat.lt_or_ge (p * (n - 1) + w) (p' * (n - 1) + w') with hlt | hge
  · exact hd _ _ hlt (cell_lt' hp' hw') h
  · exact hd _ _ (by omega) (cell_lt' hp hw) h.symm

end Ex

namespace Ex
/-- the entries of a week, slot by slot -/
theorem weekTeams_eq (n : Nat) (σ : List Int) (w : Nat) :
    weekTeams n σ w = (List.range (n / 2 * 2)).map (fun k => team n σ (k / 2) w (k % 2)) := by
  rw [← flatMap_range_grid]
  unfold weekTeams
  congr 1
  funext p
  have e1 : (p * 2 + 0) / 2 = p := by omega
  have e2 : (p * 2 + 1) / 2 = p := by omega
  have e3 : (p * 2 + 0) % 2 = 0 := by omega
  have e4 : (p * 2 + 1) % 2 = 1 := by omega
  simp only [range_two, List.map_cons, List.map_nil, e1, e2, e3, e4]
end Ex

/-- the entries of a week are pairwise distinct, slot by slot -/
theorem C20_sports_week_distinct (n : Nat) (σ : List Int) (hv : ValidSchedule n σ)
    (w : Nat) (hw : w < n - 1) (p s p' s' : Nat) (hp : p < n / 2) (hs : s < 2) (hp' : p' < n / 2) (hs' : s' < 2)
    (hne : ¬ (p = p' ∧ s = s')) : team n σ p w s ≠ team n σ p' w s' := by
  have hd := hv.weekly w hw
  rw [weekTeams_eq, nodup_map_range] at hd
  have e1 : team n σ p w s = team n σ ((p * 2 + s) / 2) w ((p * 2 + s) % 2) := by
    rw [show (p * 2 + s) / 2 = p by omega, show (p * 2 + s) % 2 = s by omega]
  have e2 : team n σ p' w s' = team n σ ((p' * 2 + s') / 2) w ((p' * 2 + s') % 2) := by
    rw [show (p' * 2 + s') / 2 = p' by omega, show (p' * 2 + s') % 2 = s' by omega]
  rw [e1, e2]
  rcases Nat.lt_trichotomy (p * 2 + s) (p' * 2 + s') with hlt | heq | hgt
  · exact hd _ _ hlt (by omega)
  · exact absurd (show p = p' ∧ s = s' by omega) hne
  · exact fun h => hd _ _ hgt (by omega) h.symm

/-- in a schedule every team plays exactly once a week … -/
theorem C20_sports_once_a_week (n : Nat) (heven : n % 2 = 0) (σ : List Int) (hv : ValidSchedule n σ)
    (w : Nat) (hw : w < n - 1) (t : Nat) (ht : t < n) : (weekTeams n σ w).count (t : Int) = 1 :=
  sts_once_a_week heven hv.teams hv.weekly hw ht

/-- … and at least once (and at most twice) in every period: the cardinalities `1 … 2` of the model -/
theorem C20_sports_period_bounds (n : Nat) (heven : n % 2 = 0) (σ : List Int) (hv : ValidSchedule n σ)
    (p : Nat) (hp : p < n / 2) (t : Nat) (ht : t < n) :
    1 ≤ (periodTeams n σ p).count (t : Int) ∧ (periodTeams n σ p).count (t : Int) ≤ 2 :=
  ⟨sts_at_least_once heven hv.teams hv.weekly hv.period hp ht, hv.period p hp t ht⟩

/-- in a schedule every team plays every other team exactly once: for every pair `t1 < t2` of teams
    there is exactly one cell `(p, w)` where `t1` (home) plays `t2` (away) -/
theorem C20_sports_every_pair_once (n : Nat) (heven : n % 2 = 0) (σ : List Int) (hv : ValidSchedule n σ)
    (t1 t2 : Nat) (h12 : t1 < t2) (h2 : t2 < n) :
    ∃ p w, p < n / 2 ∧ w < n - 1 ∧ team n σ p w 0 = (t1 : Int) ∧ team n σ p w 1 = (t2 : Int) ∧
      ∀ p' w', p' < n / 2 → w' < n - 1 → team n σ p' w' 0 = (t1 : Int) → team n σ p' w' 1 = (t2 : Int) →
        p' = p ∧ w' = w := by
  -- the teams of a cell as naturals
  have hcell : ∀ p w, p < n / 2 → w < n - 1 → ∃ i j : Nat, i < j ∧ j < n ∧ team n σ p w 0 = i ∧
      team n σ p w 1 = j ∧ matchOf n σ p w = matchOrdinal n (i : Int) (j : Int) := by
    intro p w hp hw
    have h0 := hv.teams p w 0 hp hw (by decide)
    have h1 := hv.teams p w 1 hp hw (by decide)
    have h01 := hv.ordered p w hp hw
    have hm := hv.matchIs p w hp hw
    have e0 : team n σ p w 0 = ((team n σ p w 0).toNat : Int) := by omega
    have e1 : team n σ p w 1 = ((team n σ p w 1).toNat : Int) := by omega
    exact ⟨_, _, by omega, by omega, e0, e1, by rw [← e0, ← e1]; exact hm⟩
  have hlen : (allMatches n σ).length = (n - 1) * n / 2 := by
    rw [allMatches_eq, sts_half heven]; simp
  have hb : ∀ x ∈ allMatches n σ, 0 ≤ x ∧ x < (((n - 1) * n / 2 : Nat) : Int) := by
    intro x hx
    simp only [allMatches, List.mem_flatMap, List.mem_map, List.mem_range] at hx
    obtain ⟨p, hp, w, hw, rfl⟩ := hx
    obtain ⟨i, j, hij, hj, _, _, hm⟩ := hcell p w hp hw
    have := matchOrdinal_range hij hj
    rw [hm]; omega
  have hr := matchOrdinal_range h12 h2
  have hmem : matchOrdinal n (t1 : Int) (t2 : Int) ∈ allMatches n σ :=
    nodup_surj hv.distinct hb hlen ⟨hr.1, by omega⟩
  simp only [allMatches, List.mem_flatMap, List.mem_map, List.mem_range] at hmem
  obtain ⟨p, hp, w, hw, hpw⟩ := hmem
  obtain ⟨i, j, hij, hj, h0, h1, hm⟩ := hcell p w hp hw
  rw [hm] at hpw
  obtain ⟨rfl, rfl⟩ := matchOrdinal_inj hij hj h12 h2 hpw
  refine ⟨p, w, hp, hw, h0, h1, fun p' w' hp' hw' h0' h1' => ?_⟩
  apply allMatches_inj hv.distinct hp' hw' hp hw
  rw [hv.matchIs p' w' hp' hw', hv.matchIs p w hp hw, h0', h1', h0, h1]

namespace Ex

/-- two teams: one week, one period, `0` plays `1`, match `0` -/
def sampleSts2 : List Int := [0, 1, 0]

/-- six teams (periods are rows, weeks are columns):
    `0-1 0-2 1-5 2-5 3-4`, `2-3 1-4 2-4 1-3 0-5`, `4-5 3-5 0-3 0-4 1-2`, then the fifteen matches -/
def sampleSts6 : List Int :=
  [0, 1, 0, 2, 1, 5, 2, 5, 3, 4,  2, 3, 1, 4, 2, 4, 1, 3, 0, 5,  4, 5, 3, 5, 0, 3, 0, 4, 1, 2,
   0, 1, 8, 11, 12,  9, 7, 10, 6, 4,  14, 13, 2, 3, 5]

theorem valid_sampleSts2 : ValidSchedule 2 sampleSts2 := by
  refine ⟨rfl, ?_, ?_, ?_, ?_, ?_, by decide⟩
  · have : ∀ p, p < 2 / 2 → ∀ w, w < 2 - 1 → ∀ s, s < 2 →
        0 ≤ team 2 sampleSts2 p w s ∧ team 2 sampleSts2 p w s ≤ ((2 : Nat) : Int) - 1 := by decide
    exact fun p w s hp hw hs => this p hp w hw s hs
  · decide
  · decide
  · have : ∀ p, p < 2 / 2 → ∀ w, w < 2 - 1 → team 2 sampleSts2 p w 0 < team 2 sampleSts2 p w 1 := by decide
    exact fun p w hp hw => this p hp w hw
  · have : ∀ p, p < 2 / 2 → ∀ w, w < 2 - 1 →
        matchOf 2 sampleSts2 p w = matchOrdinal 2 (team 2 sampleSts2 p w 0) (team 2 sampleSts2 p w 1) := by decide
    exact fun p w hp hw => this p hp w hw

theorem valid_sampleSts6 : ValidSchedule 6 sampleSts6 := by
  refine ⟨rfl, ?_, ?_, ?_, ?_, ?_, by decide⟩
  · have : ∀ p, p < 6 / 2 → ∀ w, w < 6 - 1 → ∀ s, s < 2 →
        0 ≤ team 6 sampleSts6 p w s ∧ team 6 sampleSts6 p w s ≤ ((6 : Nat) : Int) - 1 := by decide
    exact fun p w s hp hw hs => this p hp w hw s hs
  · decide
  · decide
  · have : ∀ p, p < 6 / 2 → ∀ w, w < 6 - 1 → team 6 sampleSts6 p w 0 < team 6 sampleSts6 p w 1 := by decide
    exact fun p w hp hw => this p hp w hw
  · have : ∀ p, p < 6 / 2 → ∀ w, w < 6 - 1 →
        matchOf 6 sampleSts6 p w = matchOrdinal 6 (team 6 sampleSts6 p w 0) (team 6 sampleSts6 p w 1) := by decide
    exact fun p w hp hw => this p hp w hw

end Ex

/-- non-vacuity: the only schedule of two teams is accepted by the model, with and without symmetry
    breaking -/
example : Sol (sportsTournamentSchedulingProblem 2 false) sampleSts2 :=
  (C20_sports 2 (by decide) _).2 valid_sampleSts2

example : Sol (sportsTournamentSchedulingProblem 2 true) sampleSts2 := by
  refine (C20_sports_sb 2 (by decide) (by decide) _).2 ⟨(C20_sports 2 (by decide) _).2 valid_sampleSts2, ?_, ?_⟩
  · have : ∀ p, p < 2 / 2 → ∀ s, s < 2 → team 2 sampleSts2 p 0 s = ((2 * p + s : Nat) : Int) := by decide
    exact fun p s hp hs => this p hp s hs
  · intro w hw
    have hw0 : w = 0 := by omega
    subst hw0
    exact ⟨0, by decide, by decide, fun p' hp' _ => by omega⟩

/-- a schedule of six teams is accepted by the model, with and without symmetry breaking -/
example : Sol (sportsTournamentSchedulingProblem 6 false) sampleSts6 :=
  (C20_sports 6 (by decide) _).2 valid_sampleSts6

example : Sol (sportsTournamentSchedulingProblem 6 true) sampleSts6 := by
  refine (C20_sports_sb 6 (by decide) (by decide) _).2 ⟨(C20_sports 6 (by decide) _).2 valid_sampleSts6, ?_, ?_⟩
  · have : ∀ p, p < 6 / 2 → ∀ s, s < 2 → team 6 sampleSts6 p 0 s = ((2 * p + s : Nat) : Int) := by decide
    exact fun p s hp hs => this p hp s hs
  · have : ∀ w, w < 6 - 1 → ∃ p, p < 6 / 2 ∧ matchOf 6 sampleSts6 p w = matchOrdinal 6 0 ((w + 1 : Nat) : Int) ∧
        ∀ p', p' < 6 / 2 → matchOf 6 sampleSts6 p' w = matchOrdinal 6 0 ((w + 1 : Nat) : Int) → p' = p := by
      decide
    exact this

/-- the away team must be the larger one -/
example : ¬ Sol (sportsTournamentSchedulingProblem 2 false) [1, 0, 0] := by
  rw [C20_sports 2 (by decide)]
  intro h
  exact absurd (h.ordered 0 0 (by decide) (by decide)) (by decide)

/-- swapping two games of the six-team schedule between periods makes team 0 play three times in the
    first period -/
example : ¬ Sol (sportsTournamentSchedulingProblem 6 false)
    [0, 1, 0, 2, 0, 3, 2, 5, 3, 4,  2, 3, 1, 4, 2, 4, 1, 3, 0, 5,  4, 5, 3, 5, 1, 5, 0, 4, 1, 2,
     0, 1, 2, 11, 12,  9, 7, 10, 6, 4,  14, 13, 8, 3, 5] := by
  rw [C20_sports 6 (by decide)]
  intro h
  exact absurd (h.period 0 (by decide) 0 (by decide)) (by decide)

end Nucs
